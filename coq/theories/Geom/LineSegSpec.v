(* C16: declarative meaning of linesegment::LineSegment::Intersect (cola/libvpsc/linesegment.h, Paul Bourke's
   algorithm) and of vpsc::Rectangle::lineIntersections built on it, executable spec deciders, and the proofs that
   the deciders have the declarative meaning.  Independent of the generated code (Gen/LineSeg.v): these deciders are
   what the search runs against the implementation when the code changes. *)
From Adapt Require Import Num.Qaux Geom.GeomSpec Geom.GeomSpecDec Geom.LineSegTypes.
Local Open Scope Q_scope.

(* ---------------------------------------------------------------------------------------------
   declarative meaning *)

(* the direction vectors b - a and d - c are linearly dependent (this includes a = b and c = d) *)
Definition dirs_parallel (a b c d : pt) : Prop :=
  (px b - px a) * (py d - py c) - (py b - py a) * (px d - px c) == 0.

(* all four points lie on one (proper, infinite) line.  For zero-length segments: a point and a segment are on a
   common line iff the point is on the segment's line; two points are ALWAYS on a common line. *)
Definition on_common_line (a b c d : pt) : Prop :=
  exists l1 l2, ~ pt_eq l1 l2 /\ on_line l1 l2 a /\ on_line l1 l2 b /\ on_line l1 l2 c /\ on_line l1 l2 d.

(* enum IntersectResult { PARALLEL = 0, COINCIDENT = 1, NOT_INTERSECTING = 2, INTERSECTING = 3 }.
   r = (code, value of the out-parameter `intersection` after the call), iv = its value before the call. *)
Definition LineSegment_Intersect_meaning (s o : lseg) (iv : lvec) (r : Z * lvec) : Prop :=
  let a := lbegin s in let b := lend s in let c := lbegin o in let d := lend o in
  let code := fst r in let p := snd r in
  (code = 3%Z <-> ~ dirs_parallel a b c d /\ segs_meet a b c d) /\
  (code = 2%Z <-> ~ dirs_parallel a b c d /\ ~ segs_meet a b c d) /\
  (code = 1%Z <-> dirs_parallel a b c d /\ on_common_line a b c d) /\
  (code = 0%Z <-> dirs_parallel a b c d /\ ~ on_common_line a b c d) /\
  (code = 0%Z \/ code = 1%Z \/ code = 2%Z \/ code = 3%Z) /\
  (code = 3%Z -> on_closed_segment a b p /\ on_closed_segment c d p /\
                 forall p', on_closed_segment a b p' -> on_closed_segment c d p' -> pt_eq p' p) /\
  (code <> 3%Z -> p = iv).

(* ---------------------------------------------------------------------------------------------
   executable decider: classification by orientation signs (division-free); the point by Bourke's formula *)

Definition ls_den (a b c d : pt) : Q := (py d - py c) * (px b - px a) - (py b - py a) * (px d - px c).
Definition ls_nume_a (a b c d : pt) : Q := (px d - px c) * (py a - py c) - (py d - py c) * (px a - px c).
Definition ls_nume_b (a b c d : pt) : Q := (px b - px a) * (py a - py c) - (py b - py a) * (px a - px c).

Definition spec_LineSegment_Intersect (s o : lseg) (iv : lvec) : Z * lvec :=
  let a := lbegin s in let b := lend s in let c := lbegin o in let d := lend o in
  let o1 := cross a b c in let o2 := cross a b d in let o3 := cross c d a in let o4 := cross c d b in
  if Qeqb (ls_den a b c d) 0 then
    if Qeqb o1 0 && Qeqb o2 0 && Qeqb o3 0 && Qeqb o4 0 then (1%Z, iv) else (0%Z, iv)
  else if Qleb (o1 * o2) 0 && Qleb (o3 * o4) 0 then
    (3%Z, mkpt (px a + (ls_nume_a a b c d / ls_den a b c d) * (px b - px a))
               (py a + (ls_nume_a a b c d / ls_den a b c d) * (py b - py a)))
  else (2%Z, iv).

Definition spec_LineSegment_Intersect_code (s o : lseg) : Z := fst (spec_LineSegment_Intersect s o pt0).

(* --- algebra *)
Lemma ls_den_sip a b c d : ls_den a b c d == sip_den a b c d.
Proof. unfold ls_den, sip_den. ring. Qed.
Lemma ls_nume_a_sip a b c d : ls_nume_a a b c d == sip_d a b c d.
Proof. unfold ls_nume_a, sip_d. ring. Qed.
Lemma ls_nume_b_sip a b c d : ls_nume_b a b c d == sip_e a b c d.
Proof. unfold ls_nume_b, sip_e. ring. Qed.
Lemma dirs_parallel_den a b c d : dirs_parallel a b c d <-> ls_den a b c d == 0.
Proof. unfold dirs_parallel, ls_den. split; intro H; rewrite <- H; ring. Qed.

(* the four orientation determinants in terms of Bourke's numerators *)
Lemma ls_cross_rel a b c d :
  cross c d a == ls_nume_a a b c d /\ cross c d b == ls_nume_a a b c d - ls_den a b c d /\
  cross a b c == - ls_nume_b a b c d /\ cross a b d == ls_den a b c d - ls_nume_b a b c d.
Proof. unfold cross, ls_nume_a, ls_nume_b, ls_den. repeat split; ring. Qed.

(* n/f in [0,1]  <->  n and n - f have (weakly) opposite signs *)
Lemma unit_quot_iff n f : ~ f == 0 -> (0 <= n / f /\ n / f <= 1 <-> n * (n - f) <= 0).
Proof.
  intros Hf.
  assert (Hn : n == (n / f) * f) by (field; exact Hf).
  generalize dependent (n / f). intros u Hn.
  assert (Hff : 0 < f * f) by nra.
  rewrite Hn.
  assert (E : u * f * (u * f - f) == (f * f) * (u * (u - 1))) by ring.
  rewrite E. generalize dependent (f * f). intros g Hg.
  split.
  - intros [H0 H1]. assert (u * (u - 1) <= 0) by nra. nra.
  - intros H. assert (u * (u - 1) <= 0) by nra. split; nra.
Qed.

(* for non-parallel directions: the closed segments meet iff both parameters are in [0,1] *)
Lemma segs_meet_nonpar_iff a b c d : ~ sip_den a b c d == 0 ->
  (segs_meet a b c d <->
   unit_range (sip_d a b c d / sip_den a b c d) && unit_range (sip_e a b c d / sip_den a b c d) = true).
Proof.
  intros Hf. pose proof (spec_segmentIntersectPoint_ok a b c d 0 0) as H.
  unfold segmentIntersectPoint_meaning, spec_segmentIntersectPoint in H.
  apply Qeqb_false in Hf. rewrite Hf in H. apply Qeqb_false in Hf.
  destruct (_ && _); cbn [fst snd] in H; destruct H as (H1 & _).
  - split; [reflexivity|]. intros _. apply H1. reflexivity.
  - split; [|discriminate]. intros M. assert (0%Z = 1%Z) by tauto. discriminate.
Qed.

Lemma ls_meet_iff a b c d : ~ ls_den a b c d == 0 ->
  (segs_meet a b c d <->
   Qleb (cross a b c * cross a b d) 0 && Qleb (cross c d a * cross c d b) 0 = true).
Proof.
  intros Hf. assert (Hf' : ~ sip_den a b c d == 0) by (rewrite <- ls_den_sip; exact Hf).
  rewrite (segs_meet_nonpar_iff a b c d Hf').
  rewrite !andb_true_iff, !unit_range_spec, !Qleb_spec.
  rewrite <- ls_den_sip, <- ls_nume_a_sip, <- ls_nume_b_sip.
  rewrite (unit_quot_iff _ _ Hf), (unit_quot_iff _ _ Hf).
  destruct (ls_cross_rel a b c d) as (E3 & E4 & E1 & E2). rewrite E1, E2, E3, E4.
  split; intros [H1 H2]; split; lra.
Qed.

(* --- lines *)
Lemma on_line_cross l1 l2 p : on_line l1 l2 p -> cross l1 l2 p == 0.
Proof.
  intros (t & Ex & Ey). unfold lerp in *; cbn [px py] in *. unfold cross. rewrite Ex, Ey. ring.
Qed.

Lemma on_line_cross3 l1 l2 a b c : on_line l1 l2 a -> on_line l1 l2 b -> on_line l1 l2 c -> cross a b c == 0.
Proof.
  intros (ta & Eax & Eay) (tb & Ebx & Eby) (tc & Ecx & Ecy). unfold lerp in *; cbn [px py] in *.
  unfold cross. rewrite Eax, Eay, Ebx, Eby, Ecx, Ecy. ring.
Qed.

Lemma cross_on_line l1 l2 p : ~ pt_eq l1 l2 -> cross l1 l2 p == 0 -> on_line l1 l2 p.
Proof. intros H1 H2. apply cross_zero_on_line; assumption. Qed.

Lemma pt_eq_dec a b : pt_eq a b \/ ~ pt_eq a b.
Proof. destruct (pt_eqb a b) eqn:E; [left; apply pt_eqb_spec; exact E|right; rewrite <- pt_eqb_spec; congruence]. Qed.

Lemma common_line_iff a b c d :
  on_common_line a b c d <->
  cross a b c == 0 /\ cross a b d == 0 /\ cross c d a == 0 /\ cross c d b == 0.
Proof.
  split.
  - intros (l1 & l2 & _ & Ha & Hb & Hc & Hd).
    repeat split; eapply on_line_cross3; eassumption.
  - intros (H1 & H2 & H3 & H4).
    destruct (pt_eq_dec a b) as [Eab|Nab].
    2:{ exists a, b. split; [exact Nab|].
        repeat split; apply cross_on_line; try assumption; unfold cross; ring. }
    destruct (pt_eq_dec c d) as [Ecd|Ncd].
    2:{ exists c, d. split; [exact Ncd|].
        repeat split; apply cross_on_line; try assumption; unfold cross; ring. }
    destruct Eab as [Eabx Eaby]. destruct Ecd as [Ecdx Ecdy].
    destruct (pt_eq_dec a c) as [Eac|Nac].
    + destruct Eac as [Eacx Eacy].
      exists a, (mkpt (px a + 1) (py a)). split.
      { intros [Hx _]. cbn [px py] in Hx. lra. }
      repeat split; apply cross_on_line; try (intros [Hx _]; cbn [px py] in Hx; lra);
        unfold cross; cbn [px py]; rewrite <- ?Ecdx, <- ?Ecdy, <- ?Eacx, <- ?Eacy, <- ?Eabx, <- ?Eaby; ring.
    + exists a, c. split; [exact Nac|].
      repeat split; apply cross_on_line; try assumption;
        unfold cross; rewrite <- ?Ecdx, <- ?Ecdy, <- ?Eabx, <- ?Eaby; ring.
Qed.

(* --- the decider has the declarative meaning *)
Theorem spec_LineSegment_Intersect_ok s o iv :
  LineSegment_Intersect_meaning s o iv (spec_LineSegment_Intersect s o iv).
Proof.
  unfold LineSegment_Intersect_meaning, spec_LineSegment_Intersect.
  set (a := lbegin s). set (b := lend s). set (c := lbegin o). set (d := lend o).
  rewrite (dirs_parallel_den a b c d), (common_line_iff a b c d).
  destruct (Qeqb (ls_den a b c d) 0) eqn:Ef; qb2p.
  - destruct (_ && _) eqn:Eall; cbn [fst snd].
    + apply andb_true_iff in Eall. destruct Eall as [Eall E4]. apply andb_true_iff in Eall. destruct Eall as [Eall E3].
      apply andb_true_iff in Eall. destruct Eall as [E1 E2]. qb2p.
      split; [|split; [|split; [|split; [|split; [|split]]]]];
        try (split; intros; try discriminate; tauto); try tauto; try discriminate; auto.
    + assert (N : ~ (cross a b c == 0 /\ cross a b d == 0 /\ cross c d a == 0 /\ cross c d b == 0)).
      { intros (E1 & E2 & E3 & E4). apply Qeqb_spec in E1, E2, E3, E4. rewrite E1, E2, E3, E4 in Eall. discriminate. }
      split; [|split; [|split; [|split; [|split; [|split]]]]];
        try (split; intros; try discriminate; tauto); try tauto; try discriminate; auto.
  - pose proof (ls_meet_iff a b c d Ef) as HM.
    destruct (_ && _) eqn:Eall; cbn [fst snd].
    + assert (M : segs_meet a b c d) by (apply HM; reflexivity).
      assert (Hf' : ~ sip_den a b c d == 0) by (rewrite <- ls_den_sip; exact Ef).
      pose proof (proj1 (segs_meet_nonpar_iff a b c d Hf') M) as R.
      apply andb_true_iff in R. destruct R as [Rd Re]. apply unit_range_spec in Rd, Re.
      set (t := ls_nume_a a b c d / ls_den a b c d).
      assert (Et : t == sip_d a b c d / sip_den a b c d)
        by (unfold t; rewrite ls_nume_a_sip, ls_den_sip; reflexivity).
      split; [|split; [|split; [|split; [|split; [|split]]]]];
        try (split; intros; try discriminate; tauto); try tauto; try discriminate; auto.
      intros _. split; [|split].
      * exists t. split; [rewrite Et; tauto|]. split; [rewrite Et; tauto|]. apply pt_eq_refl.
      * exists (sip_e a b c d / sip_den a b c d). split; [tauto|]. split; [tauto|].
        eapply pt_eq_trans; [|apply (sip_solve_pt a b c d Hf')].
        apply (lerp_param_eq a b _ _ Et).
      * intros p (s' & _ & _ & Es) (t' & _ & _ & Et').
        assert (E : pt_eq (lerp a b s') (lerp c d t')) by (eapply pt_eq_trans; [apply pt_eq_sym|]; eassumption).
        apply segs_meet_param in E. destruct E as [Ed _].
        assert (Es' : s' == t).
        { rewrite Et, Ed. symmetry. apply Qdiv_of_mult. exact Hf'. }
        eapply pt_eq_trans; [exact Es|]. apply (lerp_param_eq a b _ _ Es').
    + assert (M : ~ segs_meet a b c d) by (intros M; apply HM in M; discriminate).
      split; [|split; [|split; [|split; [|split; [|split]]]]];
        try (split; intros; try discriminate; tauto); try tauto; try discriminate; auto.
Qed.

(* --- consequences of the meaning: the classification is determined by the configuration, hence symmetric *)
Lemma segs_meet_swap a b c d : segs_meet a b c d -> segs_meet c d a b.
Proof.
  intros (s & t & ? & ? & ? & ? & E). exists t, s.
  split; [assumption|]. split; [assumption|]. split; [assumption|]. split; [assumption|]. apply pt_eq_sym, E.
Qed.
Lemma lerp_rev a b t : pt_eq (lerp a b t) (lerp b a (1 - t)).
Proof. unfold pt_eq, lerp; cbn [px py]. split; ring. Qed.
Lemma on_closed_segment_rev a b p : on_closed_segment a b p -> on_closed_segment b a p.
Proof.
  intros (t & ? & ? & E). exists (1 - t). split; [lra|]. split; [lra|].
  eapply pt_eq_trans; [exact E|apply lerp_rev].
Qed.
Lemma segs_meet_rev1 a b c d : segs_meet a b c d -> segs_meet b a c d.
Proof.
  intros (s & t & ? & ? & ? & ? & E). exists (1 - s), t.
  split; [lra|]. split; [lra|]. split; [assumption|]. split; [assumption|].
  eapply pt_eq_trans; [|exact E]. apply pt_eq_sym, lerp_rev.
Qed.
Lemma Qeq0_of_opp (x y : Q) : x == - y -> y == 0 -> x == 0.
Proof. intros; lra. Qed.
Lemma dirs_parallel_swap a b c d : dirs_parallel a b c d -> dirs_parallel c d a b.
Proof. unfold dirs_parallel. intros H. eapply Qeq0_of_opp; [|exact H]. ring. Qed.
Lemma dirs_parallel_rev1 a b c d : dirs_parallel a b c d -> dirs_parallel b a c d.
Proof. unfold dirs_parallel. intros H. eapply Qeq0_of_opp; [|exact H]. ring. Qed.
Lemma common_line_swap a b c d : on_common_line a b c d -> on_common_line c d a b.
Proof. intros (l1 & l2 & ? & ? & ? & ? & ?). exists l1, l2. tauto. Qed.
Lemma common_line_rev1 a b c d : on_common_line a b c d -> on_common_line b a c d.
Proof. intros (l1 & l2 & ? & ? & ? & ? & ?). exists l1, l2. tauto. Qed.

(* two results with the declarative meaning for configurations related by a symmetry agree *)
Lemma meaning_transfer s o iv r s' o' iv' r' :
  LineSegment_Intersect_meaning s o iv r -> LineSegment_Intersect_meaning s' o' iv' r' ->
  (dirs_parallel (lbegin s) (lend s) (lbegin o) (lend o) <-> dirs_parallel (lbegin s') (lend s') (lbegin o') (lend o')) ->
  (segs_meet (lbegin s) (lend s) (lbegin o) (lend o) <-> segs_meet (lbegin s') (lend s') (lbegin o') (lend o')) ->
  (on_common_line (lbegin s) (lend s) (lbegin o) (lend o) <-> on_common_line (lbegin s') (lend s') (lbegin o') (lend o')) ->
  fst r = fst r'.
Proof.
  unfold LineSegment_Intersect_meaning. cbv zeta.
  intros (A3 & A2 & A1 & A0 & Ac & _) (B3 & B2 & B1 & B0 & _) HP HM HL.
  destruct Ac as [E|[E|[E|E]]]; rewrite E; symmetry.
  - apply B0. apply A0 in E. tauto.
  - apply B1. apply A1 in E. tauto.
  - apply B2. apply A2 in E. tauto.
  - apply B3. apply A3 in E. tauto.
Qed.

Theorem spec_LineSegment_Intersect_swap s o iv iv' :
  fst (spec_LineSegment_Intersect o s iv') = fst (spec_LineSegment_Intersect s o iv) /\
  (fst (spec_LineSegment_Intersect s o iv) = 3%Z ->
   pt_eq (snd (spec_LineSegment_Intersect o s iv')) (snd (spec_LineSegment_Intersect s o iv))).
Proof.
  pose proof (spec_LineSegment_Intersect_ok s o iv) as A.
  pose proof (spec_LineSegment_Intersect_ok o s iv') as B.
  assert (E : fst (spec_LineSegment_Intersect o s iv') = fst (spec_LineSegment_Intersect s o iv)).
  { eapply meaning_transfer; try eassumption.
    - split; apply dirs_parallel_swap.
    - split; apply segs_meet_swap.
    - split; apply common_line_swap. }
  split; [exact E|]. intros H3. rewrite H3 in E.
  unfold LineSegment_Intersect_meaning in A, B. cbv zeta in A, B.
  destruct A as (_ & _ & _ & _ & _ & A & _). destruct B as (_ & _ & _ & _ & _ & B & _).
  destruct (A H3) as (_ & _ & U). destruct (B E) as (P1 & P2 & _).
  apply U; assumption.
Qed.

(* reversing either segment *)
Definition lseg_rev (s : lseg) : lseg := mklseg (lend s) (lbegin s).

Lemma dirs_parallel_rev2 a b c d : dirs_parallel a b c d -> dirs_parallel a b d c.
Proof. intros H. apply dirs_parallel_swap, dirs_parallel_rev1, dirs_parallel_swap, H. Qed.
Lemma segs_meet_rev2 a b c d : segs_meet a b c d -> segs_meet a b d c.
Proof. intros H. apply segs_meet_swap, segs_meet_rev1, segs_meet_swap, H. Qed.
Lemma common_line_rev2 a b c d : on_common_line a b c d -> on_common_line a b d c.
Proof. intros (l1 & l2 & ? & ? & ? & ? & ?). exists l1, l2. tauto. Qed.

Theorem spec_LineSegment_Intersect_reverse s o iv :
  fst (spec_LineSegment_Intersect (lseg_rev s) o iv) = fst (spec_LineSegment_Intersect s o iv) /\
  fst (spec_LineSegment_Intersect s (lseg_rev o) iv) = fst (spec_LineSegment_Intersect s o iv) /\
  (fst (spec_LineSegment_Intersect s o iv) = 3%Z ->
   pt_eq (snd (spec_LineSegment_Intersect (lseg_rev s) o iv)) (snd (spec_LineSegment_Intersect s o iv)) /\
   pt_eq (snd (spec_LineSegment_Intersect s (lseg_rev o) iv)) (snd (spec_LineSegment_Intersect s o iv))).
Proof.
  pose proof (spec_LineSegment_Intersect_ok s o iv) as A.
  pose proof (spec_LineSegment_Intersect_ok (lseg_rev s) o iv) as B.
  pose proof (spec_LineSegment_Intersect_ok s (lseg_rev o) iv) as C.
  assert (E1 : fst (spec_LineSegment_Intersect (lseg_rev s) o iv) = fst (spec_LineSegment_Intersect s o iv)).
  { eapply meaning_transfer; try eassumption; unfold lseg_rev; cbn [lbegin lend].
    - split; apply dirs_parallel_rev1.
    - split; apply segs_meet_rev1.
    - split; apply common_line_rev1. }
  assert (E2 : fst (spec_LineSegment_Intersect s (lseg_rev o) iv) = fst (spec_LineSegment_Intersect s o iv)).
  { eapply meaning_transfer; try eassumption; unfold lseg_rev; cbn [lbegin lend].
    - split; apply dirs_parallel_rev2.
    - split; apply segs_meet_rev2.
    - split; apply common_line_rev2. }
  split; [exact E1|]. split; [exact E2|]. intros H3. rewrite H3 in E1, E2.
  unfold LineSegment_Intersect_meaning in A, B, C. cbv zeta in A, B, C.
  destruct A as (_ & _ & _ & _ & _ & A & _). destruct B as (_ & _ & _ & _ & _ & B & _).
  destruct C as (_ & _ & _ & _ & _ & C & _).
  destruct (A H3) as (_ & _ & U). destruct (B E1) as (P1 & P2 & _). destruct (C E2) as (R1 & R2 & _).
  unfold lseg_rev in *; cbn [lbegin lend] in *.
  split; apply U; try assumption; apply on_closed_segment_rev; assumption.
Qed.

(* --- degenerate (zero-length) inputs, as consequences of the meaning.
   A zero-length segment is parallel to everything, so the answer is never INTERSECTING / NOT_INTERSECTING:
   a point that lies ON the other segment is reported COINCIDENT (not INTERSECTING), a point off the other segment's
   line PARALLEL, and two points - equal or distinct - are always COINCIDENT. *)
Lemma zero_length_parallel a b c d : pt_eq a b \/ pt_eq c d -> dirs_parallel a b c d.
Proof. unfold dirs_parallel. intros [[Ex Ey]|[Ex Ey]]; rewrite Ex, Ey; ring. Qed.

Theorem spec_Intersect_zero_length s o iv :
  pt_eq (lbegin s) (lend s) \/ pt_eq (lbegin o) (lend o) ->
  let code := fst (spec_LineSegment_Intersect s o iv) in
  (code = 1%Z \/ code = 0%Z) /\
  (code = 1%Z <-> on_common_line (lbegin s) (lend s) (lbegin o) (lend o)) /\
  snd (spec_LineSegment_Intersect s o iv) = iv.
Proof.
  intros Z. pose proof (spec_LineSegment_Intersect_ok s o iv) as A.
  unfold LineSegment_Intersect_meaning in A. cbv zeta in A.
  destruct A as (A3 & A2 & A1 & A0 & Ac & _ & Aiv).
  pose proof (zero_length_parallel _ _ _ _ Z) as P. cbv zeta.
  assert (N3 : fst (spec_LineSegment_Intersect s o iv) <> 3%Z) by (intros E; apply A3 in E; tauto).
  assert (N2 : fst (spec_LineSegment_Intersect s o iv) <> 2%Z) by (intros E; apply A2 in E; tauto).
  split; [|split].
  - destruct Ac as [E|[E|[E|E]]]; tauto.
  - split; [intros E; apply A1 in E; tauto|intros L; apply A1; tauto].
  - apply Aiv, N3.
Qed.

(* a single point p against a proper segment cd: on a common line iff p is on the line through c and d *)
Lemma common_line_point p c d : ~ pt_eq c d -> (on_common_line p p c d <-> on_line c d p).
Proof.
  intros N. rewrite common_line_iff. split.
  - intros (_ & _ & H & _). apply cross_on_line; assumption.
  - intros H. apply on_line_cross in H. repeat split; try exact H; unfold cross; ring.
Qed.
(* two points are always on a common line *)
Lemma common_line_two_points p q : on_common_line p p q q.
Proof. apply common_line_iff. repeat split; unfold cross; ring. Qed.

(* non-vacuity: a crossing, a touching end point, a miss, collinear overlap, parallel, and the degenerate inputs *)
Example spec_LineSegment_Intersect_ex :
  let S (x0 y0 x1 y1 : Q) := mklseg (mkpt x0 y0) (mkpt x1 y1) in
  let code s o := spec_LineSegment_Intersect_code s o in
  code (S 0 0 2 2) (S 0 2 2 0) = 3%Z /\ code (S 0 0 2 0) (S 2 0 2 2) = 3%Z /\ code (S 0 0 2 0) (S 3 (-1) 3 1) = 2%Z /\
  code (S 0 0 2 0) (S 1 0 3 0) = 1%Z /\ code (S 0 0 2 0) (S 5 0 7 0) = 1%Z /\ code (S 0 0 2 0) (S 0 1 2 1) = 0%Z /\
  (* zero-length argument on / off the receiver, zero-length receiver, both zero-length (equal and distinct) *)
  code (S 0 0 3 0) (S 1 0 1 0) = 1%Z /\ code (S 0 0 3 0) (S 1 2 1 2) = 0%Z /\
  code (S 1 0 1 0) (S 0 0 3 0) = 1%Z /\ code (S 1 2 1 2) (S 0 0 3 0) = 0%Z /\
  code (S 1 1 1 1) (S 1 1 1 1) = 1%Z /\ code (S 0 0 0 0) (S 1 2 1 2) = 1%Z /\
  pt_eq (snd (spec_LineSegment_Intersect (S 0 0 2 2) (S 0 2 2 0) pt0)) (mkpt 1 1).
Proof. vm_compute. repeat split. Qed.

(* ---------------------------------------------------------------------------------------------
   vpsc::Rectangle::lineIntersections (cola/libvpsc/rectangle.cpp): the line is intersected with the four sides in
   the order top, bottom, left, right through checkIntersection(); the out-parameter `intersection` is shared by the
   four calls.  Hand-written model (tie: correspondence with the compiled code on grid rectangles, including
   zero-width / zero-height ones), parameterised by the segment predicate so that it can be run both with the spec
   decider and with the generated LineSegment_Intersect. *)
Inductive rside := STop | SBottom | SLeft | SRight.
Record rectints := mkri { ri_intersects : bool; ri_top : bool; ri_bottom : bool; ri_left : bool; ri_right : bool;
                          ri_topP : pt; ri_bottomP : pt; ri_leftP : pt; ri_rightP : pt }.
Definition ri0 : rectints := mkri false false false false false pt0 pt0 pt0 pt0.   (* RectangleIntersections() *)

(* case INTERSECTING of checkIntersection: ri.intersects = side = true; sideX/Y = intersection *)
Definition ri_set (sd : rside) (p : pt) (r : rectints) : rectints :=
  match sd with
  | STop => mkri true true (ri_bottom r) (ri_left r) (ri_right r) p (ri_bottomP r) (ri_leftP r) (ri_rightP r)
  | SBottom => mkri true (ri_top r) true (ri_left r) (ri_right r) (ri_topP r) p (ri_leftP r) (ri_rightP r)
  | SLeft => mkri true (ri_top r) (ri_bottom r) true (ri_right r) (ri_topP r) (ri_bottomP r) p (ri_rightP r)
  | SRight => mkri true (ri_top r) (ri_bottom r) (ri_left r) true (ri_topP r) (ri_bottomP r) (ri_leftP r) p
  end.
(* case COINCIDENT: all five flags false (the stored points stay) *)
Definition ri_clear (r : rectints) : rectints :=
  mkri false false false false false (ri_topP r) (ri_bottomP r) (ri_leftP r) (ri_rightP r).
Definition ri_flag (sd : rside) (r : rectints) : bool :=
  match sd with STop => ri_top r | SBottom => ri_bottom r | SLeft => ri_left r | SRight => ri_right r end.

(* the sides of the rectangle [x0,x1] x [y0,y1] as lineIntersections builds them *)
Definition rect_side (x0 x1 y0 y1 : Q) (sd : rside) : lseg :=
  match sd with
  | STop => mklseg (mkpt x0 y1) (mkpt x1 y1)
  | SBottom => mklseg (mkpt x0 y0) (mkpt x1 y0)
  | SLeft => mklseg (mkpt x0 y0) (mkpt x0 y1)
  | SRight => mklseg (mkpt x1 y0) (mkpt x1 y1)
  end.

Fixpoint li_sides (I : lseg -> lseg -> lvec -> Z * lvec) (x0 x1 y0 y1 : Q) (l : lseg) (sides : list rside)
                  (iv : lvec) (r : rectints) : rectints :=
  match sides with
  | [] => r
  | sd :: rest =>
      let res := I l (rect_side x0 x1 y0 y1 sd) iv in
      let code := fst res in let iv' := snd res in
      if Z.eqb code 3 then li_sides I x0 x1 y0 y1 l rest iv' (ri_set sd iv' r)
      else if Z.eqb code 1 then ri_clear r                                  (* return false: stop *)
      else if Z.eqb code 0 || Z.eqb code 2 then li_sides I x0 x1 y0 y1 l rest iv' r
      else r                                                                (* not an enumerator: return false *)
  end.
Definition all_sides : list rside := [STop; SBottom; SLeft; SRight].
Definition lineIntersections_model (I : lseg -> lseg -> lvec -> Z * lvec) (x0 x1 y0 y1 : Q) (l : lseg) (r : rectints) :=
  li_sides I x0 x1 y0 y1 l all_sides pt0 r.
Definition spec_lineIntersections := lineIntersections_model spec_LineSegment_Intersect.

Lemma li_sides_ext I J x0 x1 y0 y1 l : (forall s o iv, I s o iv = J s o iv) ->
  forall sides iv r, li_sides I x0 x1 y0 y1 l sides iv r = li_sides J x0 x1 y0 y1 l sides iv r.
Proof.
  intros E. induction sides as [|sd rest IH]; intros iv r; cbn [li_sides]; [reflexivity|].
  rewrite E. repeat (destruct (_ : bool)); try reflexivity; apply IH.
Qed.

(* the classification does not depend on the previous value of the out-parameter *)
Lemma spec_code_indep s o iv : fst (spec_LineSegment_Intersect s o iv) = spec_LineSegment_Intersect_code s o.
Proof.
  unfold spec_LineSegment_Intersect_code, spec_LineSegment_Intersect.
  repeat (destruct (_ : bool)); reflexivity.
Qed.
Lemma spec_code_range s o : let c := spec_LineSegment_Intersect_code s o in c = 0%Z \/ c = 1%Z \/ c = 2%Z \/ c = 3%Z.
Proof.
  unfold spec_LineSegment_Intersect_code, spec_LineSegment_Intersect.
  repeat (destruct (_ : bool)); cbn [fst]; tauto.
Qed.

(* what the flags say, starting from a fresh RectangleIntersections: if some side is COINCIDENT with the line (lies on
   a common line with it) every flag is false - the line "does not intersect"; otherwise a side's flag is set iff that
   side is INTERSECTING (non-parallel closed segments sharing a point), and `intersects` iff some side's flag is. *)
Theorem spec_lineIntersections_flags x0 x1 y0 y1 l :
  let code sd := spec_LineSegment_Intersect_code l (rect_side x0 x1 y0 y1 sd) in
  let r := spec_lineIntersections x0 x1 y0 y1 l ri0 in
  ((exists sd, code sd = 1%Z) ->
     ri_intersects r = false /\ forall sd, ri_flag sd r = false) /\
  ((forall sd, code sd <> 1%Z) ->
     (forall sd, ri_flag sd r = Z.eqb (code sd) 3) /\
     ri_intersects r = Z.eqb (code STop) 3 || Z.eqb (code SBottom) 3 || Z.eqb (code SLeft) 3 || Z.eqb (code SRight) 3).
Proof.
  cbv zeta. unfold spec_lineIntersections, lineIntersections_model, all_sides. cbn [li_sides].
  rewrite !spec_code_indep.
  pose proof (spec_code_range l (rect_side x0 x1 y0 y1 STop)) as R1.
  pose proof (spec_code_range l (rect_side x0 x1 y0 y1 SBottom)) as R2.
  pose proof (spec_code_range l (rect_side x0 x1 y0 y1 SLeft)) as R3.
  pose proof (spec_code_range l (rect_side x0 x1 y0 y1 SRight)) as R4.
  cbv zeta in R1, R2, R3, R4.
  set (c1 := spec_LineSegment_Intersect_code l (rect_side x0 x1 y0 y1 STop)) in *.
  set (c2 := spec_LineSegment_Intersect_code l (rect_side x0 x1 y0 y1 SBottom)) in *.
  set (c3 := spec_LineSegment_Intersect_code l (rect_side x0 x1 y0 y1 SLeft)) in *.
  set (c4 := spec_LineSegment_Intersect_code l (rect_side x0 x1 y0 y1 SRight)) in *.
  assert (HC : forall sd, spec_LineSegment_Intersect_code l (rect_side x0 x1 y0 y1 sd) =
                          match sd with STop => c1 | SBottom => c2 | SLeft => c3 | SRight => c4 end)
    by (intros []; reflexivity).
  clearbody c1 c2 c3 c4.
  split.
  - intros [sd Hsd]. rewrite HC in Hsd.
    destruct R1 as [-> | [-> | [-> | ->]]], R2 as [-> | [-> | [-> | ->]]], R3 as [-> | [-> | [-> | ->]]], R4 as [-> | [-> | [-> | ->]]];
      cbn [Z.eqb Pos.eqb orb li_sides];
      try (split; [reflexivity|intros []; reflexivity]);
      exfalso; destruct sd; discriminate.
  - intros Hn.
    pose proof (Hn STop) as N1. pose proof (Hn SBottom) as N2. pose proof (Hn SLeft) as N3. pose proof (Hn SRight) as N4.
    rewrite HC in N1, N2, N3, N4. clear Hn.
    destruct R1 as [-> | [-> | [-> | ->]]]; try congruence;
    destruct R2 as [-> | [-> | [-> | ->]]]; try congruence;
    destruct R3 as [-> | [-> | [-> | ->]]]; try congruence;
    destruct R4 as [-> | [-> | [-> | ->]]]; try congruence;
      (split; [intros sd; rewrite HC; destruct sd; reflexivity|reflexivity]).
Qed.

(* non-vacuity, and the configuration of the library-level demo: a zero-height rectangle [0,4] x [0,0] (left and right
   sides are single points) crossed by the vertical line x = 2 -> top and bottom are hit at (2,0); a line running
   along the flat rectangle is COINCIDENT with its top side -> nothing is reported; an ordinary crossing. *)
Example spec_lineIntersections_ex :
  let L (x0 y0 x1 y1 : Q) := mklseg (mkpt x0 y0) (mkpt x1 y1) in
  let flags r := (ri_intersects r, ri_top r, ri_bottom r, ri_left r, ri_right r) in
  flags (spec_lineIntersections 0 4 0 0 (L 2 (-2) 2 2) ri0) = (true, true, true, false, false) /\
  pt_eq (ri_topP (spec_lineIntersections 0 4 0 0 (L 2 (-2) 2 2) ri0)) (mkpt 2 0) /\
  flags (spec_lineIntersections 0 4 0 0 (L (-1) 0 5 0) ri0) = (false, false, false, false, false) /\
  flags (spec_lineIntersections 0 4 0 4 (L (-1) 1 5 3) ri0) = (true, false, false, true, true) /\
  flags (spec_lineIntersections 0 4 0 4 (L 5 5 6 6) ri0) = (false, false, false, false, false).
Proof. vm_compute. repeat split. Qed.
