(* Proofs about the *generated* libavoid predicates (Gen/Geometry.v, regenerated from geometry.cpp on
   every run) against the declarative definitions in GeomSpec.v.  All statements are for every
   rational input. *)
From Adapt Require Import Num.Qaux Geom.GeomSpec Geom.GeomSpecDec Gen.Geometry.
Local Open Scope Q_scope.

Lemma Point_eq_spec a b : Point_eq a b = pt_eqb a b.
Proof. unfold Point_eq, pt_eqb. destruct (_ && _); reflexivity. Qed.

(* ---------------------------------------------------------------- vecDir *)
Lemma vecDir_cross a b c : vecDir a b c 0 = sgnQ (cross a b c).
Proof.
  unfold vecDir, sgnQ, cross, Qgtb.
  set (A := (px b - px a) * (py c - py a) - (px c - px a) * (py b - py a)).
  assert (E : - 0 == 0) by ring. rewrite E. reflexivity.
Qed.

Lemma vecDir_cross' a b c : vecDir a b c (inject_Z 0) = sgnQ (cross a b c).
Proof. apply vecDir_cross. Qed.

Theorem vecDir_spec a b c :
  (vecDir a b c 0 = 1%Z <-> 0 < cross a b c) /\
  (vecDir a b c 0 = 0%Z <-> cross a b c == 0) /\
  (vecDir a b c 0 = (-1)%Z <-> cross a b c < 0).
Proof. rewrite vecDir_cross. split; [apply sgnQ_pos | split; [apply sgnQ_zero | apply sgnQ_neg]]. Qed.

Theorem vecDir_antisym a b c : vecDir a c b 0 = (- vecDir a b c 0)%Z.
Proof.
  rewrite !vecDir_cross.
  assert (E : cross a c b == - cross a b c) by (unfold cross; ring).
  rewrite E. destruct (sgnQ_cases (cross a b c)) as [[H1 H2]|[[H1 H2]|[H1 H2]]]; rewrite H1; cbn.
  - apply sgnQ_pos; lra.
  - apply sgnQ_zero; lra.
  - apply sgnQ_neg; lra.
Qed.

Theorem vecDir_cyclic a b c : vecDir b c a 0 = vecDir a b c 0.
Proof.
  rewrite !vecDir_cross.
  assert (E : cross b c a == cross a b c) by (unfold cross; ring). rewrite E. reflexivity.
Qed.

Theorem vecDir_translate a b c t :
  vecDir (pt_add a t) (pt_add b t) (pt_add c t) 0 = vecDir a b c 0.
Proof.
  rewrite !vecDir_cross.
  assert (E : cross (pt_add a t) (pt_add b t) (pt_add c t) == cross a b c)
    by (unfold cross, pt_add; cbn [px py]; ring).
  rewrite E. reflexivity.
Qed.

(* ---------------------------------------------------------------- segmentIntersect *)
Lemma segmentIntersect_cross a b c d :
  segmentIntersect a b c d = true <->
  cross a b c * cross a b d < 0 /\ cross c d a * cross c d b < 0.
Proof.
  unfold segmentIntersect. rewrite !vecDir_cross'.
  fold (opp_sides (cross a b c) (cross a b d)). fold (opp_sides (cross c d a) (cross c d b)).
  destruct (Z.eqb (sgnQ (cross a b c)) 0) eqn:E1.
  { apply Z.eqb_eq, sgnQ_zero in E1. split; [discriminate | intros [H _]; nra]. }
  destruct (Z.eqb (sgnQ (cross a b d)) 0) eqn:E2.
  { apply Z.eqb_eq, sgnQ_zero in E2. split; [discriminate | intros [H _]; nra]. }
  rewrite andb_true_iff, !opp_sides_spec. tauto.
Qed.

Lemma segmentIntersect_eq_spec a b c d : segmentIntersect a b c d = spec_segmentIntersect a b c d.
Proof.
  apply bool_ext. rewrite segmentIntersect_cross. unfold spec_segmentIntersect.
  rewrite andb_true_iff, !opp_sides_spec. tauto.
Qed.

Theorem segmentIntersect_spec a b c d :
  segmentIntersect a b c d = true <-> properly_cross a b c d.
Proof. rewrite segmentIntersect_eq_spec. apply spec_segmentIntersect_ok. Qed.

(* symmetries: rewriting through the cross-product characterisation *)
Theorem segmentIntersect_swap_ab a b c d : segmentIntersect b a c d = segmentIntersect a b c d.
Proof.
  apply bool_ext. rewrite !segmentIntersect_cross.
  assert (E1 : cross b a c == - cross a b c) by (unfold cross; ring).
  assert (E2 : cross b a d == - cross a b d) by (unfold cross; ring).
  rewrite E1, E2. split; intros [H1 H2]; split; nra.
Qed.
Theorem segmentIntersect_swap_cd a b c d : segmentIntersect a b d c = segmentIntersect a b c d.
Proof.
  apply bool_ext. rewrite !segmentIntersect_cross.
  assert (E1 : cross d c a == - cross c d a) by (unfold cross; ring).
  assert (E2 : cross d c b == - cross c d b) by (unfold cross; ring).
  rewrite E1, E2. split; intros [H1 H2]; split; nra.
Qed.
Theorem segmentIntersect_swap_segments a b c d : segmentIntersect c d a b = segmentIntersect a b c d.
Proof. apply bool_ext. rewrite !segmentIntersect_cross. tauto. Qed.

Theorem segmentIntersect_translate a b c d t :
  segmentIntersect (pt_add a t) (pt_add b t) (pt_add c t) (pt_add d t) = segmentIntersect a b c d.
Proof.
  apply bool_ext. rewrite !segmentIntersect_cross.
  assert (E : forall p q r, cross (pt_add p t) (pt_add q t) (pt_add r t) == cross p q r)
    by (intros; unfold cross, pt_add; cbn [px py]; ring).
  rewrite !E. tauto.
Qed.

(* ---------------------------------------------------------------- pointOnLine *)
(* Despite its comment ("closed segment") the code uses strict comparisons: the result is true
   exactly for the points strictly inside ab.  That is what is proved, and what libavoid relies on
   (endpoints are handled by the callers with `==`). *)
Lemma inBetween_spec a b c :
  ~ px a == px b -> ~ py a == py b -> cross a b c == 0 ->
  (inBetween a b c = true <-> exists t, 0 < t /\ t < 1 /\ pt_eq c (lerp a b t)).
Proof.
  intros Hx Hy Hc. unfold inBetween, pt_eq, lerp, cross in *; cbn [px py].
  assert (Hx' : ~ px b - px a == 0) by (intro; lra).
  assert (Hy' : ~ py b - py a == 0) by (intro; lra).
  destruct (Qgtb _ _) eqn:E; clear E; rewrite orb_andb_between, between_1d.
  - split; intros (t & H0 & H1 & E); exists t; repeat split; try tauto.
    destruct E as [E _]. 
    assert ((py c - py a - t * (py b - py a)) * (px b - px a) == 0).
    { rewrite E in Hc. nra. }
    apply Qmult_integral in H. destruct H; [lra|tauto].
  - split; intros (t & H0 & H1 & E); exists t; repeat split; try tauto.
    destruct E as [E _].
    assert ((px c - px a - t * (px b - px a)) * (py b - py a) == 0).
    { rewrite E in Hc. nra. }
    apply Qmult_integral in H. destruct H; [lra|tauto].
Qed.

Theorem pointOnLine_spec a b c :
  pointOnLine a b c 0 = true <-> strictly_between a b c.
Proof.
  unfold pointOnLine, strictly_between.
  destruct (Qeqb (px a) (px b)) eqn:Ex; qb2p.
  { unfold pt_eq, lerp; cbn [px py].
    rewrite andb_true_iff, orb_andb_between, between_1d, Qeqb_spec. split.
    - intros [E (t & H0 & H1 & Ey & Hn)]. split; [tauto|]. exists t. repeat split; try assumption.
      rewrite <- E, Ex. ring.
    - intros (Hne & t & H0 & H1 & E1 & E2). split; [rewrite E1, Ex; ring|].
      exists t. repeat split; try assumption. tauto. }
  destruct (Qeqb (py a) (py b)) eqn:Ey; qb2p.
  { unfold pt_eq, lerp; cbn [px py].
    rewrite andb_true_iff, orb_andb_between, between_1d, Qeqb_spec. split.
    - intros [E (t & H0 & H1 & Ex' & Hn)]. split; [tauto|]. exists t. repeat split; try assumption.
      rewrite <- E, Ey. ring.
    - intros (Hne & t & H0 & H1 & E1 & E2). split; [rewrite E2, Ey; ring|].
      exists t. repeat split; try assumption. }
  rewrite andb_true_iff, Z.eqb_eq, vecDir_cross, sgnQ_zero. split.
  - intros [Hc Hb]. split; [unfold pt_eq; tauto|]. apply inBetween_spec in Hb; assumption.
  - intros (Hne & t & H0 & H1 & E).
    assert (Hc : cross a b c == 0).
    { unfold cross, pt_eq, lerp in *; cbn [px py] in *. destruct E as [E1 E2]. rewrite E1, E2. ring. }
    split; [exact Hc|]. apply inBetween_spec; try assumption. exists t; tauto.
Qed.

Theorem pointOnLine_sym a b c : pointOnLine b a c 0 = pointOnLine a b c 0.
Proof.
  apply bool_ext. rewrite !pointOnLine_spec. unfold strictly_between, pt_eq, lerp; cbn [px py].
  split; intros (Hne & t & H0 & H1 & E1 & E2).
  - split; [intros [? ?]; apply Hne; split; lra|].
    exists (1 - t). split; [lra|]. split; [lra|]. split; [rewrite E1|rewrite E2]; ring.
  - split; [intros [? ?]; apply Hne; split; lra|].
    exists (1 - t). split; [lra|]. split; [lra|]. split; [rewrite E1|rewrite E2]; ring.
Qed.

Lemma pointOnLine_eq_spec a b c : pointOnLine a b c 0 = spec_pointOnLine a b c.
Proof. apply bool_ext. rewrite pointOnLine_spec, spec_pointOnLine_ok. tauto. Qed.

(* ---------------------------------------------------------------- inPoly *)
Lemma zseq_0 n : zseq 0 (Z.of_nat n) = map Z.of_nat (seq 0 n).
Proof.
  unfold zseq. rewrite Z.sub_0_r, Nat2Z.id. apply map_ext. intros; lia.
Qed.

Lemma znth_of_nat {A} (d : A) l k : znth d l (Z.of_nat k) = nth k l d.
Proof. unfold znth. rewrite Nat2Z.id. reflexivity. Qed.

Lemma prev_index (k n : nat) : (k < n)%nat ->
  Z.rem (Z.of_nat k + Z.of_nat n - 1) (Z.of_nat n) = Z.of_nat ((k + n - 1) mod n).
Proof.
  intros H. rewrite Z.rem_mod_nonneg by lia.
  replace (Z.of_nat k + Z.of_nat n - 1)%Z with (Z.of_nat (k + n - 1)) by lia.
  rewrite <- Nat2Z.inj_mod. reflexivity.
Qed.

Section InPolyLoop.
  Variables (P : list pt) (q : pt).
  Let n := zlen P.
  Let dirZ (i : Z) : Z := vecDir (znth pt0 P (Z.rem (i + n - 1) n)) (znth pt0 P i) q (inject_Z 0).
  Let F := fun (st : option bool * bool) (i : Z) =>
    match st with
    | (Some _, _) => st
    | (None, ob) => if Z.eqb (dirZ i) (-1) then (Some false, ob)
                    else (None, orb ob (Z.eqb (dirZ i) 0))
    end.

  Lemma inPoly_loop_some l r x : fold_left F l (Some r, x) = (Some r, x).
  Proof. induction l; cbn; auto. Qed.

  Lemma inPoly_loop l : forall b,
    let res := fold_left F l (None, b) in
    (existsb (fun i => Z.eqb (dirZ i) (-1)) l = true -> fst res = Some false) /\
    (existsb (fun i => Z.eqb (dirZ i) (-1)) l = false ->
       res = (None, orb b (existsb (fun i => Z.eqb (dirZ i) 0) l))).
  Proof.
    induction l as [|i l IH]; intros b; cbn [fold_left existsb].
    - split; [discriminate|]. intros _. rewrite orb_false_r. reflexivity.
    - assert (HF : F (None, b) i = if Z.eqb (dirZ i) (-1) then (Some false, b)
                                    else (None, orb b (Z.eqb (dirZ i) 0))) by reflexivity.
      rewrite HF. clear HF. destruct (Z.eqb (dirZ i) (-1)) eqn:E; cbn [orb].
      + rewrite inPoly_loop_some. split; auto. discriminate.
      + specialize (IH (orb b (Z.eqb (dirZ i) 0))). cbv zeta in IH.
        destruct IH as [IH1 IH2]. split; [exact IH1|].
        intros H. rewrite (IH2 H), orb_assoc. reflexivity.
  Qed.
End InPolyLoop.

Lemma inPoly_eq_spec P q cb : inPoly P q cb = spec_inPoly P q cb.
Proof.
  unfold inPoly.
  match goal with |- context [fold_left ?f ?l ?s] => set (F := f); set (L := l) end.
  pose proof (inPoly_loop P q L false) as H. cbv zeta in H.
  match type of H with context [fold_left ?f _ _] => change f with F in H end.
  fold L in H.
  set (neg := existsb _ L) in H. destruct H as [H1 H2].
  assert (Hdir : forall k, (k < length P)%nat ->
     vecDir (znth pt0 P (Z.rem (Z.of_nat k + zlen P - 1) (zlen P))) (znth pt0 P (Z.of_nat k)) q (inject_Z 0)
     = sgnQ (edge_cross P q k)).
  { intros k Hk. unfold zlen. rewrite prev_index by exact Hk. rewrite !znth_of_nat, vecDir_cross'.
    reflexivity. }
  assert (HL : L = map Z.of_nat (seq 0 (length P))) by (unfold L, zlen; apply zseq_0).
  destruct neg eqn:En.
  - specialize (H1 eq_refl). destruct (fold_left F L (None, false)) as [[r|] ob]; cbn in H1; try discriminate.
    injection H1 as ->.
    symmetry. apply not_true_iff_false. rewrite spec_inPoly_ok. intros Hall.
    unfold neg in En. rewrite HL, existsb_exists in En. destruct En as (i & Hi & Ei).
    apply in_map_iff in Hi. destruct Hi as (k & <- & Hk). apply in_seq in Hk.
    rewrite Hdir in Ei by lia. apply Z.eqb_eq, sgnQ_neg in Ei.
    specialize (Hall k ltac:(lia)). destruct cb; lra.
  - rewrite (H2 eq_refl). cbn [orb].
    set (zero := existsb _ L).
    assert (Hnn : forall k, (k < length P)%nat -> 0 <= edge_cross P q k).
    { intros k Hk. unfold neg in En. rewrite HL in En.
      destruct (Qlt_le_dec (edge_cross P q k) 0) as [Hlt|]; [|assumption]. exfalso.
      rewrite <- not_true_iff_false in En. apply En. apply existsb_exists.
      exists (Z.of_nat k). split; [apply in_map, in_seq; lia|].
      rewrite Hdir by exact Hk. apply Z.eqb_eq, sgnQ_neg. exact Hlt. }
    destruct cb; cbn [negb andb].
    + symmetry. apply spec_inPoly_ok. exact Hnn.
    + destruct zero eqn:Ez; symmetry.
      * apply not_true_iff_false. rewrite spec_inPoly_ok. intros Hall.
        unfold zero in Ez. rewrite HL, existsb_exists in Ez. destruct Ez as (i & Hi & Ei).
        apply in_map_iff in Hi. destruct Hi as (k & <- & Hk). apply in_seq in Hk.
        rewrite Hdir in Ei by lia. apply Z.eqb_eq, sgnQ_zero in Ei.
        specialize (Hall k ltac:(lia)). cbn in Hall. lra.
      * apply spec_inPoly_ok. intros k Hk. cbn.
        destruct (Qeq_dec (edge_cross P q k) 0) as [E0|E0]; [|specialize (Hnn k Hk); lra].
        exfalso. rewrite <- not_true_iff_false in Ez. apply Ez. unfold zero. rewrite HL.
        apply existsb_exists. exists (Z.of_nat k). split; [apply in_map, in_seq; lia|].
        rewrite Hdir by exact Hk. apply Z.eqb_eq, sgnQ_zero. exact E0.
Qed.

Theorem inPoly_spec P q cb :
  inPoly P q cb = true <->
  forall i, (i < length P)%nat -> if cb then 0 <= edge_cross P q i else 0 < edge_cross P q i.
Proof. rewrite inPoly_eq_spec. apply spec_inPoly_ok. Qed.
