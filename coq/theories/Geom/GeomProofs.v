(* Proofs about the *generated* libavoid predicates (Gen/Geometry.v, regenerated from geometry.cpp on
   every run) against the declarative definitions in GeomSpec.v.  All statements are for every
   rational input. *)
From Adapt Require Import Num.Qaux Geom.GeomSpec Geom.GeomSpecDec Gen.Geometry.
Local Open Scope Q_scope.

Lemma Point_eq_spec a b : Point_eq a b = pt_eqb a b.
Proof. unfold Point_eq, pt_eqb. destruct (_ && _); reflexivity. Qed.

(* ---------------------------------------------------------------- vecDir *)
Lemma vecDir_cross a b c : vecDir a b c 0 = sgnQ (cross a b c).
Proof.
  unfold vecDir, sgnQ, cross, Qgtb.
  set (A := (px b - px a) * (py c - py a) - (px c - px a) * (py b - py a)).
  assert (E : - 0 == 0) by ring. rewrite E. reflexivity.
Qed.

Lemma vecDir_cross' a b c : vecDir a b c (inject_Z 0) = sgnQ (cross a b c).
Proof. apply vecDir_cross. Qed.

Theorem vecDir_spec a b c :
  (vecDir a b c 0 = 1%Z <-> 0 < cross a b c) /\
  (vecDir a b c 0 = 0%Z <-> cross a b c == 0) /\
  (vecDir a b c 0 = (-1)%Z <-> cross a b c < 0).
Proof. rewrite vecDir_cross. split; [apply sgnQ_pos | split; [apply sgnQ_zero | apply sgnQ_neg]]. Qed.

Theorem vecDir_antisym a b c : vecDir a c b 0 = (- vecDir a b c 0)%Z.
Proof.
  rewrite !vecDir_cross.
  assert (E : cross a c b == - cross a b c) by (unfold cross; ring).
  rewrite E. destruct (sgnQ_cases (cross a b c)) as [[H1 H2]|[[H1 H2]|[H1 H2]]]; rewrite H1; cbn.
  - apply sgnQ_pos; lra.
  - apply sgnQ_zero; lra.
  - apply sgnQ_neg; lra.
Qed.

Theorem vecDir_cyclic a b c : vecDir b c a 0 = vecDir a b c 0.
Proof.
  rewrite !vecDir_cross.
  assert (E : cross b c a == cross a b c) by (unfold cross; ring). rewrite E. reflexivity.
Qed.

Theorem vecDir_translate a b c t :
  vecDir (pt_add a t) (pt_add b t) (pt_add c t) 0 = vecDir a b c 0.
Proof.
  rewrite !vecDir_cross.
  assert (E : cross (pt_add a t) (pt_add b t) (pt_add c t) == cross a b c)
    by (unfold cross, pt_add; cbn [px py]; ring).
  rewrite E. reflexivity.
Qed.

(* ---------------------------------------------------------------- segmentIntersect *)
Lemma segmentIntersect_cross a b c d :
  segmentIntersect a b c d = true <->
  cross a b c * cross a b d < 0 /\ cross c d a * cross c d b < 0.
Proof.
  unfold segmentIntersect. rewrite !vecDir_cross'.
  fold (opp_sides (cross a b c) (cross a b d)). fold (opp_sides (cross c d a) (cross c d b)).
  destruct (Z.eqb (sgnQ (cross a b c)) 0) eqn:E1.
  { apply Z.eqb_eq, sgnQ_zero in E1. split; [discriminate | intros [H _]; nra]. }
  destruct (Z.eqb (sgnQ (cross a b d)) 0) eqn:E2.
  { apply Z.eqb_eq, sgnQ_zero in E2. split; [discriminate | intros [H _]; nra]. }
  rewrite andb_true_iff, !opp_sides_spec. tauto.
Qed.

Lemma segmentIntersect_eq_spec a b c d : segmentIntersect a b c d = spec_segmentIntersect a b c d.
Proof.
  apply bool_ext. rewrite segmentIntersect_cross. unfold spec_segmentIntersect.
  rewrite andb_true_iff, !opp_sides_spec. tauto.
Qed.

Theorem segmentIntersect_spec a b c d :
  segmentIntersect a b c d = true <-> properly_cross a b c d.
Proof. rewrite segmentIntersect_eq_spec. apply spec_segmentIntersect_ok. Qed.

(* symmetries: rewriting through the cross-product characterisation *)
Theorem segmentIntersect_swap_ab a b c d : segmentIntersect b a c d = segmentIntersect a b c d.
Proof.
  apply bool_ext. rewrite !segmentIntersect_cross.
  assert (E1 : cross b a c == - cross a b c) by (unfold cross; ring).
  assert (E2 : cross b a d == - cross a b d) by (unfold cross; ring).
  rewrite E1, E2. split; intros [H1 H2]; split; nra.
Qed.
Theorem segmentIntersect_swap_cd a b c d : segmentIntersect a b d c = segmentIntersect a b c d.
Proof.
  apply bool_ext. rewrite !segmentIntersect_cross.
  assert (E1 : cross d c a == - cross c d a) by (unfold cross; ring).
  assert (E2 : cross d c b == - cross c d b) by (unfold cross; ring).
  rewrite E1, E2. split; intros [H1 H2]; split; nra.
Qed.
Theorem segmentIntersect_swap_segments a b c d : segmentIntersect c d a b = segmentIntersect a b c d.
Proof. apply bool_ext. rewrite !segmentIntersect_cross. tauto. Qed.

Theorem segmentIntersect_translate a b c d t :
  segmentIntersect (pt_add a t) (pt_add b t) (pt_add c t) (pt_add d t) = segmentIntersect a b c d.
Proof.
  apply bool_ext. rewrite !segmentIntersect_cross.
  assert (E : forall p q r, cross (pt_add p t) (pt_add q t) (pt_add r t) == cross p q r)
    by (intros; unfold cross, pt_add; cbn [px py]; ring).
  rewrite !E. tauto.
Qed.

(* ---------------------------------------------------------------- pointOnLine *)
(* Despite its comment ("closed segment") the code uses strict comparisons: the result is true
   exactly for the points strictly inside ab.  That is what is proved, and what libavoid relies on
   (endpoints are handled by the callers with `==`). *)
Lemma inBetween_spec a b c :
  ~ px a == px b -> ~ py a == py b -> cross a b c == 0 ->
  (inBetween a b c = true <-> exists t, 0 < t /\ t < 1 /\ pt_eq c (lerp a b t)).
Proof.
  intros Hx Hy Hc. unfold inBetween, pt_eq, lerp, cross in *; cbn [px py].
  assert (Hx' : ~ px b - px a == 0) by (intro; lra).
  assert (Hy' : ~ py b - py a == 0) by (intro; lra).
  destruct (Qgtb _ _) eqn:E; clear E; rewrite orb_andb_between, between_1d.
  - split; intros (t & H0 & H1 & E); exists t; repeat split; try tauto.
    destruct E as [E _]. 
    assert ((py c - py a - t * (py b - py a)) * (px b - px a) == 0).
    { rewrite E in Hc. nra. }
    apply Qmult_integral in H. destruct H; [lra|tauto].
  - split; intros (t & H0 & H1 & E); exists t; repeat split; try tauto.
    destruct E as [E _].
    assert ((px c - px a - t * (px b - px a)) * (py b - py a) == 0).
    { rewrite E in Hc. nra. }
    apply Qmult_integral in H. destruct H; [lra|tauto].
Qed.

Theorem pointOnLine_spec a b c :
  pointOnLine a b c 0 = true <-> strictly_between a b c.
Proof.
  unfold pointOnLine, strictly_between.
  destruct (Qeqb (px a) (px b)) eqn:Ex; qb2p.
  { unfold pt_eq, lerp; cbn [px py].
    rewrite andb_true_iff, orb_andb_between, between_1d, Qeqb_spec. split.
    - intros [E (t & H0 & H1 & Ey & Hn)]. split; [tauto|]. exists t. repeat split; try assumption.
      rewrite <- E, Ex. ring.
    - intros (Hne & t & H0 & H1 & E1 & E2). split; [rewrite E1, Ex; ring|].
      exists t. repeat split; try assumption. tauto. }
  destruct (Qeqb (py a) (py b)) eqn:Ey; qb2p.
  { unfold pt_eq, lerp; cbn [px py].
    rewrite andb_true_iff, orb_andb_between, between_1d, Qeqb_spec. split.
    - intros [E (t & H0 & H1 & Ex' & Hn)]. split; [tauto|]. exists t. repeat split; try assumption.
      rewrite <- E, Ey. ring.
    - intros (Hne & t & H0 & H1 & E1 & E2). split; [rewrite E2, Ey; ring|].
      exists t. repeat split; try assumption. }
  rewrite andb_true_iff, Z.eqb_eq, vecDir_cross, sgnQ_zero. split.
  - intros [Hc Hb]. split; [unfold pt_eq; tauto|]. apply inBetween_spec in Hb; assumption.
  - intros (Hne & t & H0 & H1 & E).
    assert (Hc : cross a b c == 0).
    { unfold cross, pt_eq, lerp in *; cbn [px py] in *. destruct E as [E1 E2]. rewrite E1, E2. ring. }
    split; [exact Hc|]. apply inBetween_spec; try assumption. exists t; tauto.
Qed.

Theorem pointOnLine_sym a b c : pointOnLine b a c 0 = pointOnLine a b c 0.
Proof.
  apply bool_ext. rewrite !pointOnLine_spec. unfold strictly_between, pt_eq, lerp; cbn [px py].
  split; intros (Hne & t & H0 & H1 & E1 & E2).
  - split; [intros [? ?]; apply Hne; split; lra|].
    exists (1 - t). split; [lra|]. split; [lra|]. split; [rewrite E1|rewrite E2]; ring.
  - split; [intros [? ?]; apply Hne; split; lra|].
    exists (1 - t). split; [lra|]. split; [lra|]. split; [rewrite E1|rewrite E2]; ring.
Qed.

Lemma pointOnLine_eq_spec a b c : pointOnLine a b c 0 = spec_pointOnLine a b c.
Proof. apply bool_ext. rewrite pointOnLine_spec, spec_pointOnLine_ok. tauto. Qed.

(* ---------------------------------------------------------------- inPoly *)
Lemma zseq_0 n : zseq 0 (Z.of_nat n) = map Z.of_nat (seq 0 n).
Proof.
  unfold zseq. rewrite Z.sub_0_r, Nat2Z.id. apply map_ext. intros; lia.
Qed.

Lemma znth_of_nat {A} (d : A) l k : znth d l (Z.of_nat k) = nth k l d.
Proof. unfold znth. rewrite Nat2Z.id. reflexivity. Qed.

Lemma prev_index (k n : nat) : (k < n)%nat ->
  Z.rem (Z.of_nat k + Z.of_nat n - 1) (Z.of_nat n) = Z.of_nat ((k + n - 1) mod n).
Proof.
  intros H. rewrite Z.rem_mod_nonneg by lia.
  replace (Z.of_nat k + Z.of_nat n - 1)%Z with (Z.of_nat (k + n - 1)) by lia.
  rewrite <- Nat2Z.inj_mod. reflexivity.
Qed.

Section InPolyLoop.
  Variables (P : list pt) (q : pt).
  Let n := zlen P.
  Let dirZ (i : Z) : Z := vecDir (znth pt0 P (Z.rem (i + n - 1) n)) (znth pt0 P i) q (inject_Z 0).
  Let F := fun (st : option bool * bool) (i : Z) =>
    match st with
    | (Some _, _) => st
    | (None, ob) => if Z.eqb (dirZ i) (-1) then (Some false, ob)
                    else (None, orb ob (Z.eqb (dirZ i) 0))
    end.

  Lemma inPoly_loop_some l r x : fold_left F l (Some r, x) = (Some r, x).
  Proof. induction l; cbn; auto. Qed.

  Lemma inPoly_loop l : forall b,
    let res := fold_left F l (None, b) in
    (existsb (fun i => Z.eqb (dirZ i) (-1)) l = true -> fst res = Some false) /\
    (existsb (fun i => Z.eqb (dirZ i) (-1)) l = false ->
       res = (None, orb b (existsb (fun i => Z.eqb (dirZ i) 0) l))).
  Proof.
    induction l as [|i l IH]; intros b; cbn [fold_left existsb].
    - split; [discriminate|]. intros _. rewrite orb_false_r. reflexivity.
    - assert (HF : F (None, b) i = if Z.eqb (dirZ i) (-1) then (Some false, b)
                                    else (None, orb b (Z.eqb (dirZ i) 0))) by reflexivity.
      rewrite HF. clear HF. destruct (Z.eqb (dirZ i) (-1)) eqn:E; cbn [orb].
      + rewrite inPoly_loop_some. split; auto. discriminate.
      + specialize (IH (orb b (Z.eqb (dirZ i) 0))). cbv zeta in IH.
        destruct IH as [IH1 IH2]. split; [exact IH1|].
        intros H. rewrite (IH2 H), orb_assoc. reflexivity.
  Qed.
End InPolyLoop.

Lemma inPoly_eq_spec P q cb : inPoly P q cb = spec_inPoly P q cb.
Proof.
  unfold inPoly.
  match goal with |- context [fold_left ?f ?l ?s] => set (F := f); set (L := l) end.
  pose proof (inPoly_loop P q L false) as H. cbv zeta in H.
  match type of H with context [fold_left ?f _ _] => change f with F in H end.
  fold L in H.
  set (neg := existsb _ L) in H. destruct H as [H1 H2].
  assert (Hdir : forall k, (k < length P)%nat ->
     vecDir (znth pt0 P (Z.rem (Z.of_nat k + zlen P - 1) (zlen P))) (znth pt0 P (Z.of_nat k)) q (inject_Z 0)
     = sgnQ (edge_cross P q k)).
  { intros k Hk. unfold zlen. rewrite prev_index by exact Hk. rewrite !znth_of_nat, vecDir_cross'.
    reflexivity. }
  assert (HL : L = map Z.of_nat (seq 0 (length P))) by (unfold L, zlen; apply zseq_0).
  destruct neg eqn:En.
  - specialize (H1 eq_refl). destruct (fold_left F L (None, false)) as [[r|] ob]; cbn in H1; try discriminate.
    injection H1 as ->.
    symmetry. apply not_true_iff_false. rewrite spec_inPoly_ok. intros Hall.
    unfold neg in En. rewrite HL, existsb_exists in En. destruct En as (i & Hi & Ei).
    apply in_map_iff in Hi. destruct Hi as (k & <- & Hk). apply in_seq in Hk.
    rewrite Hdir in Ei by lia. apply Z.eqb_eq, sgnQ_neg in Ei.
    specialize (Hall k ltac:(lia)). destruct cb; lra.
  - rewrite (H2 eq_refl). cbn [orb].
    set (zero := existsb _ L).
    assert (Hnn : forall k, (k < length P)%nat -> 0 <= edge_cross P q k).
    { intros k Hk. unfold neg in En. rewrite HL in En.
      destruct (Qlt_le_dec (edge_cross P q k) 0) as [Hlt|]; [|assumption]. exfalso.
      rewrite <- not_true_iff_false in En. apply En. apply existsb_exists.
      exists (Z.of_nat k). split; [apply in_map, in_seq; lia|].
      rewrite Hdir by exact Hk. apply Z.eqb_eq, sgnQ_neg. exact Hlt. }
    destruct cb; cbn [negb andb].
    + symmetry. apply spec_inPoly_ok. exact Hnn.
    + destruct zero eqn:Ez; symmetry.
      * apply not_true_iff_false. rewrite spec_inPoly_ok. intros Hall.
        unfold zero in Ez. rewrite HL, existsb_exists in Ez. destruct Ez as (i & Hi & Ei).
        apply in_map_iff in Hi. destruct Hi as (k & <- & Hk). apply in_seq in Hk.
        rewrite Hdir in Ei by lia. apply Z.eqb_eq, sgnQ_zero in Ei.
        specialize (Hall k ltac:(lia)). cbn in Hall. lra.
      * apply spec_inPoly_ok. intros k Hk. cbn.
        destruct (Qeq_dec (edge_cross P q k) 0) as [E0|E0]; [|specialize (Hnn k Hk); lra].
        exfalso. rewrite <- not_true_iff_false in Ez. apply Ez. unfold zero. rewrite HL.
        apply existsb_exists. exists (Z.of_nat k). split; [apply in_map, in_seq; lia|].
        rewrite Hdir by exact Hk. apply Z.eqb_eq, sgnQ_zero. exact E0.
Qed.

Theorem inPoly_spec P q cb :
  inPoly P q cb = true <->
  forall i, (i < length P)%nat -> if cb then 0 <= edge_cross P q i else 0 < edge_cross P q i.
Proof. rewrite inPoly_eq_spec. apply spec_inPoly_ok. Qed.

(* ================================================================================================
   C16 extension (1): segmentIntersectPoint and rayIntersectPoint *)

(* the two kinds of early-exit stage of the generated code, as rewriting lemmas *)
Lemma sip_box_stage {T} (p q r s : Q) (dflt K : T) :
  (let '(hi, lo) := if Qltb (q - p) 0 then (p, q) else (q, p) in
   match (if Qgtb (r - s) 0
          then if Qltb hi s || Qltb r lo then inl dflt else inr tt
          else if Qltb hi r || Qltb s lo then inl dflt else inr tt) with
   | inl v => v
   | inr _ => K
   end) = if ranges_overlap p q r s then K else dflt.
Proof.
  unfold ranges_overlap, Qmin', Qmax', Qgtb.
  destruct (Qltb (q - p) 0) eqn:E1; destruct (Qltb 0 (r - s)) eqn:E2;
  match goal with |- context [Qltb ?a ?b || Qltb ?c ?d] =>
    destruct (Qltb a b) eqn:E3; destruct (Qltb c d) eqn:E4 end; cbn [orb];
  repeat (qcase; cbn [andb]); try reflexivity; exfalso; qb2p; lra.
Qed.

Definition sip_in_range (f d : Q) : bool :=
  (Qltb 0 f && Qleb 0 d && Qleb d f) || (Qleb f 0 && Qleb f d && Qleb d 0).

Lemma sip_range_stage {T} (f d : Q) (dflt K : T) :
  match (if Qgtb f 0
         then if Qltb d 0 || Qgtb d f then inl dflt else inr tt
         else if Qgtb d 0 || Qltb d f then inl dflt else inr tt) with
  | inl v => v
  | inr _ => K
  end = if sip_in_range f d then K else dflt.
Proof.
  unfold sip_in_range, Qgtb.
  destruct (Qltb 0 f) eqn:E1;
  match goal with |- context [Qltb ?a ?b || Qltb ?c ?d] =>
    destruct (Qltb a b) eqn:E3; destruct (Qltb c d) eqn:E4 end; cbn [orb andb];
  repeat (qcase; cbn [andb orb]); try reflexivity; exfalso; qb2p; lra.
Qed.

Lemma sip_in_range_spec f d :
  sip_in_range f d = true <-> (0 < f /\ 0 <= d /\ d <= f) \/ (f <= 0 /\ f <= d /\ d <= 0).
Proof.
  unfold sip_in_range. rewrite orb_true_iff, !andb_true_iff, Qltb_spec, !Qleb_spec. tauto.
Qed.

(* a common point forces d = s f and e = t f to lie between 0 and f *)
Lemma segs_meet_in_range a1 a2 b1 b2 : segs_meet a1 a2 b1 b2 ->
  sip_in_range (sip_den a1 a2 b1 b2) (sip_d a1 a2 b1 b2) = true /\
  sip_in_range (sip_den a1 a2 b1 b2) (sip_e a1 a2 b1 b2) = true.
Proof.
  intros (s & t & Hs0 & Hs1 & Ht0 & Ht1 & E). apply segs_meet_param in E. destruct E as [Ed Ee].
  rewrite !sip_in_range_spec, Ed, Ee.
  set (f := sip_den a1 a2 b1 b2). destruct (Qlt_le_dec 0 f); split; [left|left|right|right]; nra.
Qed.

Lemma sip_ranges_meet a1 a2 b1 b2 :
  ranges_overlap (px a1) (px a2) (px b1) (px b2) = true ->
  ranges_overlap (py a1) (py a2) (py b1) (py b2) = true ->
  sip_in_range (sip_den a1 a2 b1 b2) (sip_d a1 a2 b1 b2) = true ->
  sip_in_range (sip_den a1 a2 b1 b2) (sip_e a1 a2 b1 b2) = true ->
  segs_meet a1 a2 b1 b2.
Proof.
  intros Ox Oy Rd Re. apply sip_in_range_spec in Rd, Re.
  set (f := sip_den a1 a2 b1 b2) in *. set (d := sip_d a1 a2 b1 b2) in *. set (e := sip_e a1 a2 b1 b2) in *.
  destruct (Qeq_dec f 0) as [Ef|Ef].
  - apply sip_parallel_meet; try assumption; fold f d e; lra.
  - pose proof (sip_solve_pt a1 a2 b1 b2 Ef) as Hsol. fold f d e in Hsol.
    exists (d / f), (e / f).
    assert (Hd : 0 <= d / f /\ d / f <= 1).
    { destruct Rd as [Rd|Rd].
      - split; [apply Qle_shift_div_l|apply Qle_shift_div_r]; lra.
      - assert (E' : d / f == (- d) / (- f)) by (field; lra). rewrite E'.
        split; [apply Qle_shift_div_l|apply Qle_shift_div_r]; lra. }
    assert (He : 0 <= e / f /\ e / f <= 1).
    { destruct Re as [Re|Re].
      - split; [apply Qle_shift_div_l|apply Qle_shift_div_r]; lra.
      - assert (E' : e / f == (- e) / (- f)) by (field; lra). rewrite E'.
        split; [apply Qle_shift_div_l|apply Qle_shift_div_r]; lra. }
    tauto.
Qed.

(* the spec decider by cases on the declarative meaning *)
Lemma spec_sip_dont a1 a2 b1 b2 x y : ~ segs_meet a1 a2 b1 b2 ->
  spec_segmentIntersectPoint a1 a2 b1 b2 x y = (0%Z, x, y).
Proof.
  intros M. pose proof (spec_segmentIntersectPoint_ok a1 a2 b1 b2 x y) as H.
  destruct (spec_segmentIntersectPoint a1 a2 b1 b2 x y) as [[c x'] y'].
  unfold segmentIntersectPoint_meaning in H; cbn [fst snd] in H.
  destruct H as (H1 & H3 & Hc & _ & Hxy).
  assert (c = 0%Z) by (destruct Hc as [?|[?|?]]; tauto). subst c.
  destruct Hxy as [-> ->]; [discriminate|reflexivity].
Qed.
Lemma spec_sip_par a1 a2 b1 b2 x y : sip_den a1 a2 b1 b2 == 0 -> segs_meet a1 a2 b1 b2 ->
  spec_segmentIntersectPoint a1 a2 b1 b2 x y = (3%Z, x, y).
Proof.
  intros Hf M. pose proof (spec_segmentIntersectPoint_ok a1 a2 b1 b2 x y) as H.
  destruct (spec_segmentIntersectPoint a1 a2 b1 b2 x y) as [[c x'] y'].
  unfold segmentIntersectPoint_meaning in H; cbn [fst snd] in H.
  destruct H as (H1 & H3 & Hc & _ & Hxy).
  assert (c = 3%Z) by tauto. subst c.
  destruct Hxy as [-> ->]; [discriminate|reflexivity].
Qed.
Lemma spec_sip_do a1 a2 b1 b2 x y : ~ sip_den a1 a2 b1 b2 == 0 -> segs_meet a1 a2 b1 b2 ->
  spec_segmentIntersectPoint a1 a2 b1 b2 x y =
  (1%Z, px a1 + sip_d a1 a2 b1 b2 * (px a2 - px a1) / sip_den a1 a2 b1 b2,
        py a1 + sip_d a1 a2 b1 b2 * (py a2 - py a1) / sip_den a1 a2 b1 b2).
Proof.
  intros Hf M. pose proof (spec_segmentIntersectPoint_ok a1 a2 b1 b2 x y) as H.
  unfold segmentIntersectPoint_meaning in H. revert H. unfold spec_segmentIntersectPoint.
  apply Qeqb_false in Hf. rewrite Hf.
  destruct (_ && _); cbn [fst snd]; [reflexivity|].
  intros (H1 & _). exfalso. apply Qeqb_false in Hf. assert (0%Z = 1%Z) by tauto. discriminate.
Qed.

Theorem segmentIntersectPoint_eq_spec a1 a2 b1 b2 x y :
  segmentIntersectPoint a1 a2 b1 b2 x y = spec_segmentIntersectPoint a1 a2 b1 b2 x y.
Proof.
  unfold segmentIntersectPoint. cbv zeta. change (inject_Z 0) with 0.
  fold (sip_den a1 a2 b1 b2). fold (sip_d a1 a2 b1 b2). fold (sip_e a1 a2 b1 b2).
  rewrite !sip_box_stage, !sip_range_stage.
  destruct (ranges_overlap (px a1) (px a2) (px b1) (px b2)) eqn:Ox.
  2:{ symmetry. apply spec_sip_dont. intros M. apply segs_meet_overlap in M. destruct M; congruence. }
  destruct (ranges_overlap (py a1) (py a2) (py b1) (py b2)) eqn:Oy.
  2:{ symmetry. apply spec_sip_dont. intros M. apply segs_meet_overlap in M. destruct M; congruence. }
  destruct (sip_in_range (sip_den a1 a2 b1 b2) (sip_d a1 a2 b1 b2)) eqn:Rd.
  2:{ symmetry. apply spec_sip_dont. intros M. apply segs_meet_in_range in M. destruct M; congruence. }
  destruct (sip_in_range (sip_den a1 a2 b1 b2) (sip_e a1 a2 b1 b2)) eqn:Re.
  2:{ symmetry. apply spec_sip_dont. intros M. apply segs_meet_in_range in M. destruct M; congruence. }
  pose proof (sip_ranges_meet a1 a2 b1 b2 Ox Oy Rd Re) as M.
  destruct (Qeqb (sip_den a1 a2 b1 b2) 0) eqn:Ef; qb2p; symmetry.
  - apply spec_sip_par; assumption.
  - apply spec_sip_do; assumption.
Qed.

Theorem segmentIntersectPoint_spec a1 a2 b1 b2 x y :
  segmentIntersectPoint_meaning a1 a2 b1 b2 x y (segmentIntersectPoint a1 a2 b1 b2 x y).
Proof. rewrite segmentIntersectPoint_eq_spec. apply spec_segmentIntersectPoint_ok. Qed.

Theorem rayIntersectPoint_eq_spec a1 a2 b1 b2 x y :
  rayIntersectPoint a1 a2 b1 b2 x y = spec_rayIntersectPoint a1 a2 b1 b2 x y.
Proof. reflexivity. Qed.

Theorem rayIntersectPoint_spec a1 a2 b1 b2 x y :
  rayIntersectPoint_meaning a1 a2 b1 b2 x y (rayIntersectPoint a1 a2 b1 b2 x y).
Proof. rewrite rayIntersectPoint_eq_spec. apply spec_rayIntersectPoint_ok. Qed.

(* non-vacuity: a proper crossing, a collinear overlap, a zero-length segment on the other one *)
Example segmentIntersectPoint_ex :
  fst (fst (segmentIntersectPoint (mkpt 0 0) (mkpt 2 2) (mkpt 0 2) (mkpt 2 0) 7 7)) = 1%Z /\
  fst (fst (segmentIntersectPoint (mkpt 0 0) (mkpt 2 0) (mkpt 1 0) (mkpt 3 0) 7 7)) = 3%Z /\
  segmentIntersectPoint (mkpt 0 0) (mkpt 2 0) (mkpt 1 0) (mkpt 1 0) 7 7 = (3%Z, 7, 7) /\
  segmentIntersectPoint (mkpt 0 0) (mkpt 2 0) (mkpt 3 0) (mkpt 4 0) 7 7 = (0%Z, 7, 7).
Proof. vm_compute. repeat split. Qed.

(* ================================================================================================
   C16 extension (3-4): colinear, inBetween, cornerSide, inValidRegion *)

Ltac sgn_cmp x :=
  destruct (sgnQ_cases x) as [[H1 H2]|[[H1 H2]|[H1 H2]]]; rewrite H1; cbn; symmetry;
  (apply Qltb_spec || apply Qltb_false || apply Qleb_spec || apply Qleb_false); lra.
Lemma sgnQ_eqb_1 x : Z.eqb (sgnQ x) 1 = Qltb 0 x.   Proof. sgn_cmp x. Qed.
Lemma sgnQ_eqb_m1 x : Z.eqb (sgnQ x) (-1) = Qltb x 0. Proof. sgn_cmp x. Qed.
Lemma sgnQ_geb_0 x : Z.geb (sgnQ x) 0 = Qleb 0 x.   Proof. sgn_cmp x. Qed.
Lemma sgnQ_leb_0 x : Z.leb (sgnQ x) 0 = Qleb x 0.   Proof. sgn_cmp x. Qed.
Lemma sgnQ_ltb_0 x : Z.ltb (sgnQ x) 0 = Qltb x 0.   Proof. sgn_cmp x. Qed.
Lemma sgnQ_gtb_0 x : Z.gtb (sgnQ x) 0 = Qltb 0 x.   Proof. sgn_cmp x. Qed.
Lemma sgnQ_eqb_0 x : Z.eqb (sgnQ x) 0 = Qeqb x 0.
Proof.
  destruct (sgnQ_cases x) as [[H1 H2]|[[H1 H2]|[H1 H2]]]; rewrite H1; cbn; symmetry;
  (apply Qeqb_spec || apply Qeqb_false); lra.
Qed.

(* ---------------------------------------------------------------- colinear *)
Theorem colinear_eq_spec a b c : colinear a b c 0 = spec_colinear a b c.
Proof.
  unfold colinear, spec_colinear. rewrite Point_eq_spec.
  destruct (pt_eqb a b) eqn:Eab.
  { apply pt_eqb_spec in Eab. destruct Eab as [Ex Ey]. symmetry. apply Qeqb_spec.
    unfold cross. rewrite Ex, Ey. ring. }
  destruct (Qeqb (px a) (px b)) eqn:Ex; qb2p.
  { assert (Hy : ~ py a == py b).
    { intro Ey. rewrite <- not_true_iff_false, pt_eqb_spec in Eab. apply Eab. split; assumption. }
    apply bool_ext. rewrite !Qeqb_spec. unfold cross. split; intro H.
    - rewrite <- H, Ex. ring.
    - assert (H' : (px c - px a) * (py b - py a) == 0) by (rewrite <- Ex in H; lra).
      apply Qmult_integral in H'. destruct H'; lra. }
  destruct (Qeqb (py a) (py b)) eqn:Ey; qb2p.
  { apply bool_ext. rewrite !Qeqb_spec. unfold cross. split; intro H.
    - rewrite <- H, Ey. ring.
    - assert (H' : (px b - px a) * (py c - py a) == 0) by (rewrite <- Ey in H; lra).
      apply Qmult_integral in H'. destruct H'; lra. }
  rewrite vecDir_cross. apply sgnQ_eqb_0.
Qed.

Theorem colinear_spec a b c : colinear a b c 0 = true <-> cross a b c == 0.
Proof. rewrite colinear_eq_spec. unfold spec_colinear. apply Qeqb_spec. Qed.

Theorem colinear_geom a b c : colinear a b c 0 = true <-> collinear_pts a b c.
Proof. rewrite colinear_eq_spec. apply spec_colinear_ok. Qed.

(* ---------------------------------------------------------------- inBetween *)
(* For collinear a, b, c the code answers "c strictly between a and b" provided the x-test it chooses is
   meaningful: either a.x = b.x exactly (then it compares y) or |a.x - b.x| > epsilon (then it compares x).
   For 0 < |a.x - b.x| <= epsilon it compares y although the segment is not vertical: see inBetween_eps_refuted. *)
Theorem inBetween_collinear_spec a b c :
  cross a b c == 0 -> (px a == px b \/ dbl_epsilon < Qabs' (px a - px b)) ->
  (inBetween a b c = true <-> strictly_between a b c).
Proof.
  intros Hc Heps. unfold inBetween, strictly_between. fold dbl_epsilon.
  unfold pt_eq, lerp, cross in *; cbn [px py].
  destruct (Qgtb (Qabs' (px a - px b)) dbl_epsilon) eqn:E; qb2p.
  - assert (Hx : ~ px b - px a == 0).
    { intro H0. unfold Qabs', dbl_epsilon in E. revert E. qcase; qb2p; intro; lra. }
    rewrite orb_andb_between, between_1d. split.
    + intros (t & H0 & H1 & Ex & _). split; [intros [? _]; lra|]. exists t. repeat split; try assumption.
      assert (H : (py c - py a - t * (py b - py a)) * (px b - px a) == 0) by (rewrite Ex in Hc; nra).
      apply Qmult_integral in H. destruct H; [lra|tauto].
    + intros (_ & t & H0 & H1 & Ex & Ey). exists t. repeat split; try assumption. intro; lra.
  - assert (Ex : px a == px b).
    { destruct Heps as [?|H]; [assumption|]. lra. }
    rewrite orb_andb_between, between_1d. split.
    + intros (t & H0 & H1 & Ey & Hne). split; [tauto|]. exists t. repeat split; try assumption.
      assert (H : (px c - px a) * (py b - py a) == 0) by (rewrite <- Ex in Hc; lra).
      apply Qmult_integral in H. destruct H; [|lra]. rewrite <- Ex. lra.
    + intros (Hne & t & H0 & H1 & Ex' & Ey). exists t. repeat split; try assumption. tauto.
Qed.

Theorem inBetween_eq_spec a b c :
  cross a b c == 0 -> (px a == px b \/ dbl_epsilon < Qabs' (px a - px b)) ->
  inBetween a b c = spec_inBetween a b c.
Proof.
  intros Hc Heps. apply bool_ext.
  rewrite (inBetween_collinear_spec a b c Hc Heps), (spec_inBetween_ok a b c Hc). tauto.
Qed.

(* the epsilon branch: a horizontal segment shorter than 2^-52 is treated as vertical *)
Example inBetween_eps_refuted :
  exists a b c, cross a b c == 0 /\ strictly_between a b c /\ inBetween a b c = false.
Proof.
  exists (mkpt 0 0), (mkpt dbl_epsilon 0), (mkpt (dbl_epsilon / 2) 0).
  split; [vm_compute; reflexivity|]. split; [|vm_compute; reflexivity].
  split; [intros [H _]; vm_compute in H; discriminate|].
  exists (1 # 2). repeat split; vm_compute; reflexivity.
Qed.

(* ---------------------------------------------------------------- cornerSide *)
Theorem cornerSide_eq_spec c1 c2 c3 p : cornerSide c1 c2 c3 p = spec_cornerSide c1 c2 c3 p.
Proof.
  unfold cornerSide, spec_cornerSide. cbv zeta. rewrite !vecDir_cross'.
  rewrite sgnQ_eqb_1, sgnQ_eqb_m1, !sgnQ_geb_0, !sgnQ_leb_0. reflexivity.
Qed.

Theorem cornerSide_spec c1 c2 c3 p : cornerSide_meaning c1 c2 c3 p (cornerSide c1 c2 c3 p).
Proof. rewrite cornerSide_eq_spec. apply spec_cornerSide_ok. Qed.

(* ---------------------------------------------------------------- inValidRegion *)
Theorem inValidRegion_eq_spec ig a0 a1 a2 b : inValidRegion ig a0 a1 a2 b = spec_inValidRegion ig a0 a1 a2 b.
Proof.
  unfold inValidRegion, spec_inValidRegion. cbv zeta. rewrite !vecDir_cross'.
  assert (Er : cross b a0 a1 == cross a0 a1 b) by (unfold cross; ring).
  assert (Es : cross b a1 a2 == cross a1 a2 b) by (unfold cross; ring).
  rewrite (sgnQ_proper _ _ Er), (sgnQ_proper _ _ Es). rewrite sgnQ_gtb_0, !sgnQ_leb_0, !sgnQ_ltb_0.
  set (r := cross a0 a1 b). set (s := cross a1 a2 b).
  assert (Hn : forall v, negb (Qltb v 0) = Qleb 0 v).
  { intro v. destruct (Qltb v 0) eqn:E; cbn; symmetry; qb2p; [apply Qleb_false|apply Qleb_spec]; lra. }
  rewrite !Hn. reflexivity.
Qed.

Theorem inValidRegion_spec ig a0 a1 a2 b :
  inValidRegion_meaning ig a0 a1 a2 b (inValidRegion ig a0 a1 a2 b).
Proof. rewrite inValidRegion_eq_spec. apply spec_inValidRegion_ok. Qed.

Theorem inValidRegion_convex a0 a1 a2 b : 0 < cross a0 a1 a2 ->
  (inValidRegion false a0 a1 a2 b = true <-> ~ strictly_in_cone a0 a1 a2 b).
Proof. rewrite inValidRegion_eq_spec. apply spec_inValidRegion_convex. Qed.

(* ================================================================================================
   C16 extension (5): segmentShapeIntersect *)
Theorem segmentShapeIntersect_eq_spec e1 e2 s1 s2 seen :
  segmentShapeIntersect e1 e2 s1 s2 seen = spec_segmentShapeIntersect e1 e2 s1 s2 seen.
Proof.
  unfold segmentShapeIntersect, spec_segmentShapeIntersect.
  change (inject_Z 0) with 0.
  rewrite segmentIntersect_eq_spec, !Point_eq_spec, !pointOnLine_eq_spec, !vecDir_cross.
  fold (spec_vecDir s1 s2 e1). fold (spec_vecDir s1 s2 e2). fold (spec_touchesEdge e1 e2 s1 s2).
  destruct (spec_segmentIntersect e1 e2 s1 s2); [reflexivity|].
  destruct (spec_touchesEdge e1 e2 s1 s2); destruct seen; reflexivity.
Qed.

Theorem segmentShapeIntersect_spec e1 e2 s1 s2 seen :
  segmentShapeIntersect_meaning e1 e2 s1 s2 seen (segmentShapeIntersect e1 e2 s1 s2 seen).
Proof. rewrite segmentShapeIntersect_eq_spec. apply spec_segmentShapeIntersect_ok. Qed.

(* the loop over the edges of one shape with the flag threaded, on the generated function *)
Definition ssi_step (e1 e2 : pt) (st : bool * bool) (edge : pt * pt) : bool * bool :=
  let r := segmentShapeIntersect e1 e2 (fst edge) (snd edge) (snd st) in (fst st || fst r, snd r).
Definition shapeBlocks (e1 e2 : pt) (edges : list (pt * pt)) : bool :=
  fst (fold_left (ssi_step e1 e2) edges (false, false)).

Theorem shapeBlocks_closed e1 e2 edges :
  shapeBlocks e1 e2 edges =
  existsb (fun edge => segmentIntersect e1 e2 (fst edge) (snd edge)) edges || (2 <=? spec_touchCount e1 e2 edges)%nat.
Proof.
  unfold shapeBlocks.
  assert (E : forall l st, fold_left (ssi_step e1 e2) l st = fold_left (spec_ssi_step e1 e2) l st).
  { induction l as [|x l IH]; intros st; [reflexivity|]. cbn [fold_left]. rewrite IH. f_equal.
    unfold ssi_step, spec_ssi_step. rewrite segmentShapeIntersect_eq_spec. reflexivity. }
  rewrite E. fold (spec_shapeBlocks e1 e2 edges). rewrite spec_shapeBlocks_closed. f_equal.
  induction edges as [|x l IH]; [reflexivity|]. cbn [existsb]. rewrite IH. unfold spec_crossesEdge at 1.
  rewrite segmentIntersect_eq_spec. reflexivity.
Qed.

(* ================================================================================================
   C16 extension (7): manhattanDist, projection *)
Theorem manhattanDist_eq_spec a b : manhattanDist a b == spec_manhattanDist a b.
Proof. unfold manhattanDist, spec_manhattanDist. rewrite !Qabs'_Qabs. reflexivity. Qed.

Theorem manhattanDist_spec a b : manhattanDist a b == Qabs (px a - px b) + Qabs (py a - py b).
Proof. exact (manhattanDist_eq_spec a b). Qed.

Theorem projection_eq_spec a b c : projection a b c = spec_projection a b c.
Proof. reflexivity. Qed.

(* the foot of the perpendicular from b onto the line a-c (a <> c; for a = c the C++ divides 0/0) *)
Theorem projection_spec a b c : ~ pt_eq a c ->
  is_foot a c b (projection a b c) /\ forall p, is_foot a c b p -> pt_eq p (projection a b c).
Proof. rewrite projection_eq_spec. apply spec_projection_ok. Qed.

(* ================================================================================================
   C16 extension (6): inPolyGen = the division-free crossing-parity rule, for every polygon and query point *)

Lemma Qdiv_sign_pos N D : Qltb 0 (N / D) = Qltb 0 (N * D).
Proof.
  destruct (Qeq_dec D 0) as [E|E].
  - assert (E1 : N / D == 0) by (unfold Qdiv; rewrite E; unfold Qinv; cbn; ring).
    assert (E2 : N * D == 0) by (rewrite E; ring). rewrite E1, E2. reflexivity.
  - assert (E1 : N * D == N / D * (D * D)) by (field; exact E).
    assert (HD : 0 < D * D) by (destruct (Qlt_le_dec 0 D); nra).
    apply bool_ext. rewrite !Qltb_spec, E1. set (x := N / D). split; intro; nra.
Qed.
Lemma Qdiv_sign_neg N D : Qltb (N / D) 0 = Qltb (N * D) 0.
Proof.
  destruct (Qeq_dec D 0) as [E|E].
  - assert (E1 : N / D == 0) by (unfold Qdiv; rewrite E; unfold Qinv; cbn; ring).
    assert (E2 : N * D == 0) by (rewrite E; ring). rewrite E1, E2. reflexivity.
  - assert (E1 : N * D == N / D * (D * D)) by (field; exact E).
    assert (HD : 0 < D * D) by (destruct (Qlt_le_dec 0 D); nra).
    apply bool_ext. rewrite !Qltb_spec, E1. set (x := N / D). split; intro; nra.
Qed.

(* --- the in-place translation loop is a map *)
Lemma upd_nth_middle {A} (pre : list A) x t v : upd_nth (pre ++ x :: t) (length pre) v = pre ++ v :: t.
Proof. induction pre as [|h pre IH]; cbn; [reflexivity|]. rewrite IH. reflexivity. Qed.

Lemma fold_left_map {A B C} (F : A -> B -> A) (g : C -> B) l s :
  fold_left F (map g l) s = fold_left (fun st k => F st (g k)) l s.
Proof. revert s. induction l as [|x l IH]; intros s; cbn; [reflexivity|]. apply IH. Qed.

Lemma translate_loop (f : pt -> pt) (step : list pt -> nat -> list pt) :
  (forall pre x t, step (pre ++ x :: t) (length pre) = pre ++ f x :: t) ->
  forall P pre, fold_left step (seq (length pre) (length P)) (pre ++ P) = pre ++ map f P.
Proof.
  intros Hstep. induction P as [|x t IH]; intros pre; cbn [length seq fold_left map]; [reflexivity|].
  rewrite Hstep.
  replace (pre ++ f x :: t) with ((pre ++ [f x]) ++ t) by (rewrite <- app_assoc; reflexivity).
  replace (S (length pre)) with (length (pre ++ [f x])) by (rewrite app_length; cbn; lia).
  rewrite IH. rewrite <- app_assoc. reflexivity.
Qed.

Lemma inPolyGen_translate P q :
  fold_left (fun (st : list pt) (i : Z) =>
     let poly_1 := st in
     let poly_2 := zupd poly_1 i (mkpt (px (znth pt0 poly_1 i) - px q) (py (znth pt0 poly_1 i))) in
     let poly_3 := zupd poly_2 i (mkpt (px (znth pt0 poly_2 i)) (py (znth pt0 poly_2 i) - py q)) in
     poly_3) (zseq 0 (zlen P)) P = map (ipg_rel q) P.
Proof.
  unfold zlen. rewrite zseq_0, fold_left_map.
  apply (translate_loop (ipg_rel q) _) with (pre := @nil pt).
  intros pre x t. cbv zeta. unfold zupd. rewrite !znth_of_nat, !Nat2Z.id.
  rewrite nth_middle, upd_nth_middle, nth_middle, upd_nth_middle. reflexivity.
Qed.

(* --- the crossing loop *)
Section InPolyGenLoop.
  Variables (P' : list pt).
  Let n := zlen P'.
  Let F := fun (st_1 : option bool * (Z * Z)) (i_1 : Z) =>
    match st_1 with
    | (Some _, _) => st_1
    | (None, (Lcross_1, Rcross_1)) =>
      if Qeqb (px (znth pt0 P' i_1)) (inject_Z 0) && Qeqb (py (znth pt0 P' i_1)) (inject_Z 0)
      then (Some true, (Lcross_1, Rcross_1))
      else
        let i1 := Z.rem (i_1 + n - 1) n in
        let Rcross_4 :=
          if xorb (Qgtb (py (znth pt0 P' i_1)) (inject_Z 0)) (Qgtb (py (znth pt0 P' i1)) (inject_Z 0))
          then
            let x := (px (znth pt0 P' i_1) * py (znth pt0 P' i1) - px (znth pt0 P' i1) * py (znth pt0 P' i_1)) /
                     (py (znth pt0 P' i1) - py (znth pt0 P' i_1)) in
            let Rcross_3 := if Qgtb x (inject_Z 0) then let Rcross_2 := (Rcross_1 + 1)%Z in Rcross_2 else Rcross_1 in
            Rcross_3
          else Rcross_1 in
        let Lcross_4 :=
          if xorb (Qltb (py (znth pt0 P' i_1)) (inject_Z 0)) (Qltb (py (znth pt0 P' i1)) (inject_Z 0))
          then
            let x_1 := (px (znth pt0 P' i_1) * py (znth pt0 P' i1) - px (znth pt0 P' i1) * py (znth pt0 P' i_1)) /
                       (py (znth pt0 P' i1) - py (znth pt0 P' i_1)) in
            let Lcross_3 := if Qltb x_1 (inject_Z 0) then let Lcross_2 := (Lcross_1 + 1)%Z in Lcross_2 else Lcross_1 in
            Lcross_3
          else Lcross_1 in
        (None, (Lcross_4, Rcross_4))
    end.

  Let prevp (k : nat) : pt := nth ((k + length P' - 1) mod length P') P' pt0.
  Let curp (k : nat) : pt := nth k P' pt0.
  Let hit (k : nat) : bool := ipg_at_origin (curp k).
  Let rk (k : nat) : Z := b2z (ipg_edgeR (prevp k) (curp k)).
  Let lk (k : nat) : Z := b2z (ipg_edgeL (prevp k) (curp k)).

  Lemma ipg_step k L R : (k < length P')%nat ->
    F (None, (L, R)) (Z.of_nat k) =
    if hit k then (Some true, (L, R)) else (None, ((L + lk k)%Z, (R + rk k)%Z)).
  Proof.
    intros Hk. unfold F, hit, rk, lk, ipg_at_origin, ipg_edgeR, ipg_edgeL. cbv zeta.
    unfold n, zlen. rewrite (prev_index k (length P') Hk), !znth_of_nat.
    fold (curp k) (prevp k). change (inject_Z 0) with 0. unfold Qgtb.
    destruct (Qeqb (px (curp k)) 0 && Qeqb (py (curp k)) 0); [reflexivity|].
    rewrite Qdiv_sign_pos, Qdiv_sign_neg. fold (ipg_N (prevp k) (curp k)).
    f_equal. f_equal.
    - destruct (xorb (Qltb (py (curp k)) 0) (Qltb (py (prevp k)) 0)); cbn [andb b2z];
        [destruct (Qltb _ 0); cbn [b2z]|]; lia.
    - destruct (xorb (Qltb 0 (py (curp k))) (Qltb 0 (py (prevp k)))); cbn [andb b2z];
        [destruct (Qltb 0 _); cbn [b2z]|]; lia.
  Qed.

  Lemma ipg_loop_some l r x : fold_left F l (Some r, x) = (Some r, x).
  Proof. induction l; cbn; auto. Qed.

  Lemma ipg_loop l : (forall k, In k l -> (k < length P')%nat) -> forall L R,
    let res := fold_left F (map Z.of_nat l) (None, (L, R)) in
    (existsb hit l = true -> fst res = Some true) /\
    (existsb hit l = false ->
       res = (None, ((L + fold_right (fun k acc => (lk k + acc)%Z) 0%Z l)%Z,
                     (R + fold_right (fun k acc => (rk k + acc)%Z) 0%Z l)%Z))).
  Proof.
    induction l as [|k l IH]; intros Hl L R; cbn [map fold_left existsb fold_right].
    - split; [discriminate|]. intros _. rewrite !Z.add_0_r. reflexivity.
    - rewrite ipg_step by (apply Hl; left; reflexivity).
      destruct (hit k) eqn:Eh; cbn [orb].
      + rewrite ipg_loop_some. split; [reflexivity|discriminate].
      + specialize (IH (fun j Hj => Hl j (or_intror Hj)) (L + lk k)%Z (R + rk k)%Z). cbv zeta in IH.
        destruct IH as [IH1 IH2]. split; [exact IH1|].
        intros H. rewrite (IH2 H), !Z.add_assoc. reflexivity.
  Qed.
End InPolyGenLoop.

Lemma existsb_nth_seq {A} (g : A -> bool) (l : list A) (d : A) :
  existsb (fun k => g (nth k l d)) (seq 0 (length l)) = existsb g l.
Proof.
  apply bool_ext. rewrite !existsb_exists. split.
  - intros (k & Hk & Hg). apply in_seq in Hk. exists (nth k l d). split; [apply nth_In; lia|exact Hg].
  - intros (x & Hx & Hg). destruct (In_nth l x d Hx) as (k & Hk & E). exists k. split; [apply in_seq; lia|].
    rewrite E. exact Hg.
Qed.

Theorem inPolyGen_eq_spec P q : inPolyGen P q = spec_inPolyGen P q.
Proof.
  unfold inPolyGen. cbv zeta. rewrite inPolyGen_translate.
  set (P' := map (ipg_rel q) P).
  assert (Hlen : zlen P = zlen P') by (unfold zlen, P'; rewrite map_length; reflexivity).
  rewrite Hlen. change (zseq 0 (zlen P')) with (zseq 0 (Z.of_nat (length P'))). rewrite zseq_0.
  pose proof (ipg_loop P' (seq 0 (length P')) (fun k Hk => proj2 (proj1 (in_seq _ _ _) Hk)) 0%Z 0%Z) as H.
  cbv zeta in H. destruct H as [H1 H2].
  unfold spec_inPolyGen. cbv zeta. fold P'. rewrite <- (existsb_nth_seq ipg_at_origin P' pt0).
  match type of H1 with existsb ?h _ = true -> _ => set (hitf := h) in * end.
  destruct (existsb hitf (seq 0 (length P'))) eqn:Eh.
  - specialize (H1 eq_refl).
    match type of H1 with fst ?t = _ => destruct t as [[r|] x] end; cbn in H1; [|discriminate].
    injection H1 as ->. reflexivity.
  - rewrite (H2 eq_refl), !Z.add_0_l. cbn [orb]. unfold ipg_parity, ipg_count.
    match goal with |- (if ?c then _ else _) = _ => destruct c end; [reflexivity|].
    match goal with |- (if ?c then _ else _) = _ => destruct c end; reflexivity.
Qed.

Theorem inPolyGen_vertex P q : (exists p, In p P /\ pt_eq p q) -> inPolyGen P q = true.
Proof. rewrite inPolyGen_eq_spec. apply spec_inPolyGen_vertex. Qed.

(* every non-degenerate triangle, either orientation, every rational query point *)
Theorem inPolyGen_triangle A B C q : ~ cross A B C == 0 ->
  (inPolyGen [A; B; C] q = true <-> in_closed_triangle A B C q).
Proof.
  intros Hnd. rewrite inPolyGen_eq_spec, (spec_inPolyGen_triangle A B C q Hnd).
  apply (spec_triangle_region_ok A B C q Hnd).
Qed.
Corollary inPolyGen_triangle_ccw A B C q : 0 < cross A B C -> inPolyGen [A; B; C] q = spec_inPoly [A; B; C] q true.
Proof.
  intros H. rewrite inPolyGen_eq_spec, spec_inPolyGen_triangle by (intro; lra).
  apply Qltb_spec in H. rewrite H. reflexivity.
Qed.

(* every axis-parallel rectangle with positive width and height, in any of its 8 vertex orders *)
Theorem inPolyGen_rect x0 x1 y0 y1 o q : x0 < x1 -> y0 < y1 -> In o rect_orders ->
  (inPolyGen (rect_poly o x0 x1 y0 y1) q = true <-> in_closed_rect x0 x1 y0 y1 q).
Proof.
  intros Hx Hy Ho. rewrite inPolyGen_eq_spec, (spec_inPolyGen_rect x0 x1 y0 y1 o q Hx Hy Ho).
  apply rect_contains_ok.
Qed.

(* inPolyGen_general_partial (STATED, NOT PROVED): for every simple polygon P (closed, non-self-intersecting,
   consecutive vertices distinct) and every q, inPolyGen P q = true <-> q lies in the closed region bounded by P.
   What is proved: inPolyGen_eq_spec (the code computes exactly the division-free crossing-parity rule
   spec_inPolyGen, for every polygon), inPolyGen_vertex, inPolyGen_triangle, inPolyGen_rect.  Missing: the
   Jordan-curve argument that the crossing parity of a horizontal ray characterises the interior of a general
   simple polygon, and that the left/right parity disagreement characterises boundary points. *)

Example inPolyGen_ex :
  inPolyGen [mkpt 0 0; mkpt 4 0; mkpt 0 4] (mkpt 1 1) = true /\
  inPolyGen [mkpt 0 0; mkpt 4 0; mkpt 0 4] (mkpt 2 2) = true /\
  inPolyGen [mkpt 0 0; mkpt 4 0; mkpt 0 4] (mkpt 3 3) = false /\
  inPolyGen (rect_poly rect_ccw 0 3 0 2) (mkpt 3 1) = true /\
  inPolyGen (rect_poly rect_ccw 0 3 0 2) (mkpt 4 1) = false.
Proof. vm_compute. repeat split. Qed.
