(* C20: the libavoid orientation predicates under the 8 symmetries of the square, about the cpp2v-GENERATED
   Gen/Geometry.v (regenerated from geometry.cpp on every run).  A symmetry sigma multiplies the cross product by its
   orientation sign (+1 for the 4 rotations, -1 for the 4 reflections), so vecDir is multiplied by that sign and
   segmentIntersect (a product of two signs on each side) is unchanged. *)
From Adapt Require Import Num.Qaux Geom.GeomSpec Geom.GeomSpecDec Gen.Geometry Geom.GeomProofs.
Local Open Scope Q_scope.

(* swap the coordinates first, then negate x and/or y: the dihedral group of the square *)
Record sq := mksq { sq_swap : bool; sq_negx : bool; sq_negy : bool }.
Definition sq_apply (s : sq) (p : pt) : pt :=
  let x := if sq_swap s then py p else px p in
  let y := if sq_swap s then px p else py p in
  mkpt (if sq_negx s then - x else x) (if sq_negy s then - y else y).
Definition sq_sign (s : sq) : Z :=
  ((if sq_swap s then -1 else 1) * (if sq_negx s then -1 else 1) * (if sq_negy s then -1 else 1))%Z.
Definition all_sq : list sq :=
  [mksq false false false; mksq false true false; mksq false false true; mksq false true true;
   mksq true false false; mksq true true false; mksq true false true; mksq true true true].

Lemma all_sq_complete s : In s all_sq.
Proof. destruct s as [[|] [|] [|]]; cbn; tauto. Qed.

Lemma cross_sym s a b c :
  cross (sq_apply s a) (sq_apply s b) (sq_apply s c) == inject_Z (sq_sign s) * cross a b c.
Proof.
  destruct s as [[|] [|] [|]]; unfold cross, sq_apply, sq_sign; cbn [sq_swap sq_negx sq_negy px py];
    cbn [Z.mul Pos.mul inject_Z]; ring.
Qed.

Lemma sgnQ_scale (k : Z) q : (k = 1 \/ k = -1)%Z -> sgnQ (inject_Z k * q) = (k * sgnQ q)%Z.
Proof.
  intros [->| ->].
  - assert (E : inject_Z 1 * q == q) by ring. rewrite E. lia.
  - assert (E : inject_Z (-1) * q == - q) by ring. rewrite E.
    destruct (sgnQ_cases q) as [[H1 H2]|[[H1 H2]|[H1 H2]]]; rewrite H1; cbn.
    + apply sgnQ_pos; lra.
    + apply sgnQ_zero; lra.
    + apply sgnQ_neg; lra.
Qed.
Lemma sq_sign_unit s : (sq_sign s = 1 \/ sq_sign s = -1)%Z.
Proof. destruct s as [[|] [|] [|]]; cbn; auto. Qed.

(* vecDir about the generated definition: the orientation sign is tracked *)
Theorem vecDir_symmetry s a b c :
  vecDir (sq_apply s a) (sq_apply s b) (sq_apply s c) 0 = (sq_sign s * vecDir a b c 0)%Z.
Proof.
  rewrite !vecDir_cross, cross_sym. apply sgnQ_scale, sq_sign_unit.
Qed.

Lemma sq_sign_sq s x y : (inject_Z (sq_sign s) * x) * (inject_Z (sq_sign s) * y) == x * y.
Proof. destruct (sq_sign_unit s) as [-> | ->]; ring. Qed.

Theorem segmentIntersect_symmetry s a b c d :
  segmentIntersect (sq_apply s a) (sq_apply s b) (sq_apply s c) (sq_apply s d) = segmentIntersect a b c d.
Proof.
  apply bool_ext. rewrite !segmentIntersect_cross, !cross_sym, !sq_sign_sq. tauto.
Qed.

(* non-vacuity: a quarter turn keeps the orientation, a mirror flips it *)
Example vecDir_symmetry_example :
  vecDir (sq_apply (mksq true true false) (mkpt 0 0)) (sq_apply (mksq true true false) (mkpt 1 0))
         (sq_apply (mksq true true false) (mkpt 0 1)) 0 = 1%Z /\
  vecDir (sq_apply (mksq false true false) (mkpt 0 0)) (sq_apply (mksq false true false) (mkpt 1 0))
         (sq_apply (mksq false true false) (mkpt 0 1)) 0 = (-1)%Z /\
  segmentIntersect (mkpt 0 0) (mkpt 2 2) (mkpt 0 2) (mkpt 2 0) = true.
Proof. repeat split; vm_compute; reflexivity. Qed.

(* ================================================================================================
   C16 extension (8): pointOnLine and inPoly under the 8 symmetries of the square (orientation sign tracked),
   and under translation *)

Lemma dot_sym s a b c d : dot (sq_apply s a) (sq_apply s b) (sq_apply s c) (sq_apply s d) == dot a b c d.
Proof.
  destruct s as [[|] [|] [|]]; unfold dot, sq_apply; cbn [sq_swap sq_negx sq_negy px py]; ring.
Qed.
Lemma pt_eqb_sq s a b : pt_eqb (sq_apply s a) (sq_apply s b) = pt_eqb a b.
Proof.
  apply bool_ext. rewrite !pt_eqb_spec. unfold pt_eq, sq_apply.
  destruct s as [[|] [|] [|]]; cbn [sq_swap sq_negx sq_negy px py]; split; intros [? ?]; split; lra.
Qed.
Lemma sq_scale_cases s x : inject_Z (sq_sign s) * x == x \/ inject_Z (sq_sign s) * x == - x.
Proof. destruct (sq_sign_unit s) as [-> | ->]; [left|right]; ring. Qed.
Lemma Qeqb_sq_scale s x : Qeqb (inject_Z (sq_sign s) * x) 0 = Qeqb x 0.
Proof.
  apply bool_ext. rewrite !Qeqb_spec. destruct (sq_scale_cases s x) as [E|E]; rewrite E; split; intro; lra.
Qed.

Theorem pointOnLine_symmetry s a b c :
  pointOnLine (sq_apply s a) (sq_apply s b) (sq_apply s c) 0 = pointOnLine a b c 0.
Proof.
  rewrite !pointOnLine_eq_spec. unfold spec_pointOnLine.
  rewrite pt_eqb_sq, cross_sym, Qeqb_sq_scale, !dot_sym. reflexivity.
Qed.

Theorem pointOnLine_translate a b c t :
  pointOnLine (pt_add a t) (pt_add b t) (pt_add c t) 0 = pointOnLine a b c 0.
Proof.
  rewrite !pointOnLine_eq_spec. unfold spec_pointOnLine.
  assert (E1 : pt_eqb (pt_add a t) (pt_add b t) = pt_eqb a b).
  { apply bool_ext. rewrite !pt_eqb_spec. unfold pt_eq, pt_add; cbn [px py]. split; intros [? ?]; split; lra. }
  assert (E2 : cross (pt_add a t) (pt_add b t) (pt_add c t) == cross a b c)
    by (unfold cross, pt_add; cbn [px py]; ring).
  assert (E3 : forall p q r u, dot (pt_add p t) (pt_add q t) (pt_add r t) (pt_add u t) == dot p q r u)
    by (intros; unfold dot, pt_add; cbn [px py]; ring).
  rewrite E1, E2, !E3. reflexivity.
Qed.

(* --- inPoly *)
Lemma nth_map_lt {A B} (f : A -> B) l k d d' : (k < length l)%nat -> nth k (map f l) d' = f (nth k l d).
Proof. intros H. rewrite (nth_indep _ d' (f d)) by (rewrite map_length; exact H). apply map_nth. Qed.

Lemma mod_lt_len (k n : nat) : (k < n)%nat -> ((k + n - 1) mod n < n)%nat.
Proof. intros. apply Nat.mod_upper_bound. lia. Qed.

Lemma edge_cross_map_sq s P q i : (i < length P)%nat ->
  edge_cross (map (sq_apply s) P) (sq_apply s q) i == inject_Z (sq_sign s) * edge_cross P q i.
Proof.
  intros Hi. unfold edge_cross. rewrite map_length. cbv zeta.
  rewrite (nth_map_lt (sq_apply s) P _ pt0 pt0) by (apply mod_lt_len; exact Hi).
  rewrite (nth_map_lt (sq_apply s) P i pt0 pt0) by exact Hi.
  apply cross_sym.
Qed.

(* rotations (orientation sign +1) keep inPoly ... *)
Theorem inPoly_symmetry_rot s P q cb : sq_sign s = 1%Z ->
  inPoly (map (sq_apply s) P) (sq_apply s q) cb = inPoly P q cb.
Proof.
  intros Hs. apply bool_ext. rewrite !inPoly_spec, map_length.
  assert (E : forall i, (i < length P)%nat ->
              edge_cross (map (sq_apply s) P) (sq_apply s q) i == edge_cross P q i).
  { intros i Hi. rewrite edge_cross_map_sq by exact Hi. rewrite Hs. ring. }
  split; intros H i Hi; specialize (H i Hi); specialize (E i Hi); destruct cb; lra.
Qed.

(* ... reflections (sign -1) turn a counter-clockwise polygon into a clockwise one: reverse the vertex order *)
Lemma edge_cross_rev P q i : (i < length P)%nat ->
  edge_cross (rev P) q i == - edge_cross P q ((length P - 1 - i + 1) mod length P).
Proof.
  intros Hi. unfold edge_cross. rewrite rev_length. cbv zeta.
  set (n := length P) in *.
  assert (Hn : (0 < n)%nat) by lia.
  rewrite (rev_nth P pt0) by (apply mod_lt_len; exact Hi). rewrite (rev_nth P pt0 Hi). fold n.
  set (j := ((n - 1 - i + 1) mod n)%nat).
  assert (Hcur : (n - S i = (j + n - 1) mod n)%nat).
  { unfold j. destruct i as [|i].
    - replace (n - 1 - 0 + 1)%nat with n by lia. rewrite Nat.mod_same by lia.
      replace (0 + n - 1)%nat with (n - 1)%nat by lia. rewrite Nat.mod_small by lia. lia.
    - rewrite (Nat.mod_small (n - 1 - S i + 1)) by lia.
      replace (n - 1 - S i + 1 + n - 1)%nat with ((n - 1 - S i) + 1 * n)%nat by lia.
      rewrite Nat.mod_add by lia. rewrite Nat.mod_small by lia. lia. }
  assert (Hprev : (n - S ((i + n - 1) mod n) = j)%nat).
  { unfold j. destruct i as [|i].
    - replace (0 + n - 1)%nat with (n - 1)%nat by lia. rewrite Nat.mod_small by lia.
      replace (n - 1 - 0 + 1)%nat with n by lia. rewrite Nat.mod_same by lia. lia.
    - replace (S i + n - 1)%nat with (i + 1 * n)%nat by lia. rewrite Nat.mod_add by lia.
      rewrite Nat.mod_small by lia. rewrite (Nat.mod_small (n - 1 - S i + 1)) by lia. lia. }
  rewrite Hprev, Hcur. unfold cross. ring.
Qed.

Lemma rev_index_surj (n j : nat) : (j < n)%nat -> exists i, (i < n)%nat /\ ((n - 1 - i + 1) mod n = j)%nat.
Proof.
  intros Hj. destruct j as [|j].
  - exists 0%nat. split; [lia|]. replace (n - 1 - 0 + 1)%nat with n by lia. apply Nat.mod_same. lia.
  - exists (n - S j)%nat. split; [lia|]. replace (n - 1 - (n - S j) + 1)%nat with (S j) by lia.
    apply Nat.mod_small. exact Hj.
Qed.

Theorem inPoly_rev P q cb :
  inPoly (rev P) q cb = true <->
  forall j, (j < length P)%nat -> if cb then edge_cross P q j <= 0 else edge_cross P q j < 0.
Proof.
  rewrite inPoly_spec, rev_length. split.
  - intros H j Hj. destruct (rev_index_surj (length P) j Hj) as (i & Hi & <-).
    specialize (H i Hi). pose proof (edge_cross_rev P q i Hi) as E. destruct cb; lra.
  - intros H i Hi. pose proof (edge_cross_rev P q i Hi) as E.
    specialize (H ((length P - 1 - i + 1) mod length P)%nat ltac:(apply Nat.mod_upper_bound; lia)).
    destruct cb; lra.
Qed.

Theorem inPoly_symmetry_refl s P q cb : sq_sign s = (-1)%Z ->
  inPoly (rev (map (sq_apply s) P)) (sq_apply s q) cb = inPoly P q cb.
Proof.
  intros Hs. apply bool_ext. rewrite inPoly_rev, inPoly_spec, map_length.
  assert (E : forall i, (i < length P)%nat ->
              edge_cross (map (sq_apply s) P) (sq_apply s q) i == - edge_cross P q i).
  { intros i Hi. rewrite edge_cross_map_sq by exact Hi. rewrite Hs. ring. }
  split; intros H i Hi; specialize (H i Hi); specialize (E i Hi); destruct cb; lra.
Qed.

Theorem inPoly_translate P q cb t :
  inPoly (map (fun p => pt_add p t) P) (pt_add q t) cb = inPoly P q cb.
Proof.
  apply bool_ext. rewrite !inPoly_spec, map_length.
  assert (E : forall i, (i < length P)%nat ->
              edge_cross (map (fun p => pt_add p t) P) (pt_add q t) i == edge_cross P q i).
  { intros i Hi. unfold edge_cross. rewrite map_length. cbv zeta.
    rewrite (nth_map_lt (fun p => pt_add p t) P _ pt0 pt0) by (apply mod_lt_len; exact Hi).
    rewrite (nth_map_lt (fun p => pt_add p t) P i pt0 pt0) by exact Hi.
    unfold cross, pt_add; cbn [px py]. ring. }
  split; intros H i Hi; specialize (H i Hi); specialize (E i Hi); destruct cb; lra.
Qed.

(* non-vacuity: the unit square counter-clockwise, the point (1,1) of the 2x2 square, a quarter turn and a mirror *)
Example inPoly_symmetry_example :
  let P := [mkpt 0 0; mkpt 2 0; mkpt 2 2; mkpt 0 2] in
  inPoly P (mkpt 1 1) false = true /\
  sq_sign (mksq true true false) = 1%Z /\
  inPoly (map (sq_apply (mksq true true false)) P) (sq_apply (mksq true true false) (mkpt 1 1)) false = true /\
  sq_sign (mksq false true false) = (-1)%Z /\
  inPoly (map (sq_apply (mksq false true false)) P) (sq_apply (mksq false true false) (mkpt 1 1)) false = false /\
  inPoly (rev (map (sq_apply (mksq false true false)) P)) (sq_apply (mksq false true false) (mkpt 1 1)) false = true /\
  pointOnLine (sq_apply (mksq true false true) (mkpt 0 0)) (sq_apply (mksq true false true) (mkpt 2 4))
              (sq_apply (mksq true false true) (mkpt 1 2)) 0 = true.
Proof. vm_compute. repeat split. Qed.
