(* C20: the libavoid orientation predicates under the 8 symmetries of the square, about the cpp2v-GENERATED
   Gen/Geometry.v (regenerated from geometry.cpp on every run).  A symmetry sigma multiplies the cross product by its
   orientation sign (+1 for the 4 rotations, -1 for the 4 reflections), so vecDir is multiplied by that sign and
   segmentIntersect (a product of two signs on each side) is unchanged. *)
From Adapt Require Import Num.Qaux Geom.GeomSpec Geom.GeomSpecDec Gen.Geometry Geom.GeomProofs.
Local Open Scope Q_scope.

(* swap the coordinates first, then negate x and/or y: the dihedral group of the square *)
Record sq := mksq { sq_swap : bool; sq_negx : bool; sq_negy : bool }.
Definition sq_apply (s : sq) (p : pt) : pt :=
  let x := if sq_swap s then py p else px p in
  let y := if sq_swap s then px p else py p in
  mkpt (if sq_negx s then - x else x) (if sq_negy s then - y else y).
Definition sq_sign (s : sq) : Z :=
  ((if sq_swap s then -1 else 1) * (if sq_negx s then -1 else 1) * (if sq_negy s then -1 else 1))%Z.
Definition all_sq : list sq :=
  [mksq false false false; mksq false true false; mksq false false true; mksq false true true;
   mksq true false false; mksq true true false; mksq true false true; mksq true true true].

Lemma all_sq_complete s : In s all_sq.
Proof. destruct s as [[|] [|] [|]]; cbn; tauto. Qed.

Lemma cross_sym s a b c :
  cross (sq_apply s a) (sq_apply s b) (sq_apply s c) == inject_Z (sq_sign s) * cross a b c.
Proof.
  destruct s as [[|] [|] [|]]; unfold cross, sq_apply, sq_sign; cbn [sq_swap sq_negx sq_negy px py];
    cbn [Z.mul Pos.mul inject_Z]; ring.
Qed.

Lemma sgnQ_scale (k : Z) q : (k = 1 \/ k = -1)%Z -> sgnQ (inject_Z k * q) = (k * sgnQ q)%Z.
Proof.
  intros [->| ->].
  - assert (E : inject_Z 1 * q == q) by ring. rewrite E. lia.
  - assert (E : inject_Z (-1) * q == - q) by ring. rewrite E.
    destruct (sgnQ_cases q) as [[H1 H2]|[[H1 H2]|[H1 H2]]]; rewrite H1; cbn.
    + apply sgnQ_pos; lra.
    + apply sgnQ_zero; lra.
    + apply sgnQ_neg; lra.
Qed.
Lemma sq_sign_unit s : (sq_sign s = 1 \/ sq_sign s = -1)%Z.
Proof. destruct s as [[|] [|] [|]]; cbn; auto. Qed.

(* vecDir about the generated definition: the orientation sign is tracked *)
Theorem vecDir_symmetry s a b c :
  vecDir (sq_apply s a) (sq_apply s b) (sq_apply s c) 0 = (sq_sign s * vecDir a b c 0)%Z.
Proof.
  rewrite !vecDir_cross, cross_sym. apply sgnQ_scale, sq_sign_unit.
Qed.

Lemma sq_sign_sq s x y : (inject_Z (sq_sign s) * x) * (inject_Z (sq_sign s) * y) == x * y.
Proof. destruct (sq_sign_unit s) as [-> | ->]; ring. Qed.

Theorem segmentIntersect_symmetry s a b c d :
  segmentIntersect (sq_apply s a) (sq_apply s b) (sq_apply s c) (sq_apply s d) = segmentIntersect a b c d.
Proof.
  apply bool_ext. rewrite !segmentIntersect_cross, !cross_sym, !sq_sign_sq. tauto.
Qed.

(* non-vacuity: a quarter turn keeps the orientation, a mirror flips it *)
Example vecDir_symmetry_example :
  vecDir (sq_apply (mksq true true false) (mkpt 0 0)) (sq_apply (mksq true true false) (mkpt 1 0))
         (sq_apply (mksq true true false) (mkpt 0 1)) 0 = 1%Z /\
  vecDir (sq_apply (mksq false true false) (mkpt 0 0)) (sq_apply (mksq false true false) (mkpt 1 0))
         (sq_apply (mksq false true false) (mkpt 0 1)) 0 = (-1)%Z /\
  segmentIntersect (mkpt 0 0) (mkpt 2 2) (mkpt 0 2) (mkpt 2 0) = true.
Proof. repeat split; vm_compute; reflexivity. Qed.
