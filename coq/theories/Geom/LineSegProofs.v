(* C16: linesegment::LineSegment::Intersect as regenerated from cola/libvpsc/linesegment.h by tools/cpp2v.py
   (Gen/LineSeg.v) equals the spec decider of Geom/LineSegSpec.v, hence has the declarative meaning, is symmetric
   under swapping / reversing its segments, and behaves on zero-length inputs as stated there. *)
From Adapt Require Import Num.Qaux Geom.GeomSpec Geom.GeomSpecDec Geom.LineSegTypes Geom.LineSegSpec Gen.LineSeg.
Local Open Scope Q_scope.

(* the enumerators of IntersectResult, as regenerated from the source, are the codes the spec uses *)
Lemma IntersectResult_values : PARALLEL = 0%Z /\ COINCIDENT = 1%Z /\ NOT_INTERSECTING = 2%Z /\ INTERSECTING = 3%Z.
Proof. repeat split. Qed.

(* parallel branch: both numerators vanish iff all four orientation determinants vanish *)
Lemma ls_coincident_eq a b c d : ls_den a b c d == 0 ->
  Qeqb (ls_nume_a a b c d) 0 && Qeqb (ls_nume_b a b c d) 0 =
  Qeqb (cross a b c) 0 && Qeqb (cross a b d) 0 && Qeqb (cross c d a) 0 && Qeqb (cross c d b) 0.
Proof.
  intros Hf. destruct (ls_cross_rel a b c d) as (E3 & E4 & E1 & E2).
  apply bool_ext. rewrite !andb_true_iff, !Qeqb_spec. rewrite E1, E2, E3, E4, Hf.
  split; [intros [Ha Hb]|intros [[[H1 H2] H3] H4]]; repeat split; lra.
Qed.

(* non-parallel branch: ua, ub in [0,1] iff the end points of each segment are (weakly) on opposite sides of the other *)
Lemma ls_intersecting_eq a b c d : ~ ls_den a b c d == 0 ->
  Qgeb (ls_nume_a a b c d / ls_den a b c d) 0 && Qleb (ls_nume_a a b c d / ls_den a b c d) 1 &&
  Qgeb (ls_nume_b a b c d / ls_den a b c d) 0 && Qleb (ls_nume_b a b c d / ls_den a b c d) 1 =
  Qleb (cross a b c * cross a b d) 0 && Qleb (cross c d a * cross c d b) 0.
Proof.
  intros Hf. destruct (ls_cross_rel a b c d) as (E3 & E4 & E1 & E2).
  apply bool_ext. rewrite !andb_true_iff, !Qgeb_spec, !Qleb_spec. rewrite E1, E2, E3, E4.
  pose proof (unit_quot_iff (ls_nume_a a b c d) _ Hf) as Ua.
  pose proof (unit_quot_iff (ls_nume_b a b c d) _ Hf) as Ub.
  split.
  - intros [[[A0 A1] B0] B1]. split; [assert (H : ls_nume_b a b c d * (ls_nume_b a b c d - ls_den a b c d) <= 0) by tauto; lra|tauto].
  - intros [HB HA].
    assert (H : ls_nume_b a b c d * (ls_nume_b a b c d - ls_den a b c d) <= 0) by lra. tauto.
Qed.

(* two conditionals with the same branches and equivalent conditions *)
Lemma if_cond_eq {T} (c c' : bool) (x y : T) : (c = true <-> c' = true) -> (if c then x else y) = (if c' then x else y).
Proof. intros H. rewrite (bool_ext c c' H). reflexivity. Qed.

(* the conditions are compared as propositions (not syntactically), so that e.g. reordering the conjuncts of a test in
   the source does not break the proof *)
Theorem LineSegment_Intersect_eq_spec s o iv :
  LineSegment_Intersect s o iv = spec_LineSegment_Intersect s o iv.
Proof.
  unfold LineSegment_Intersect, spec_LineSegment_Intersect. cbv zeta.
  unfold lvx, lvy, set_lvx, set_lvy, COINCIDENT, PARALLEL, INTERSECTING, NOT_INTERSECTING. cbn [px py].
  change (inject_Z 0) with 0. change (inject_Z 1) with 1.
  set (a := lbegin s). set (b := lend s). set (c := lbegin o). set (d := lend o).
  fold (ls_den a b c d). fold (ls_nume_a a b c d). fold (ls_nume_b a b c d).
  destruct (Qeqb (ls_den a b c d) 0) eqn:Ef; qb2p; apply if_cond_eq.
  - rewrite <- (ls_coincident_eq a b c d Ef). rewrite !andb_true_iff. tauto.
  - rewrite <- (ls_intersecting_eq a b c d Ef). rewrite !andb_true_iff. tauto.
Qed.

Theorem LineSegment_Intersect_spec s o iv :
  LineSegment_Intersect_meaning s o iv (LineSegment_Intersect s o iv).
Proof. rewrite LineSegment_Intersect_eq_spec. apply spec_LineSegment_Intersect_ok. Qed.

(* symmetry: swapping the two segments keeps the classification, and the INTERSECTING point *)
Theorem LineSegment_Intersect_swap s o iv iv' :
  fst (LineSegment_Intersect o s iv') = fst (LineSegment_Intersect s o iv) /\
  (fst (LineSegment_Intersect s o iv) = INTERSECTING ->
   pt_eq (snd (LineSegment_Intersect o s iv')) (snd (LineSegment_Intersect s o iv))).
Proof. rewrite !LineSegment_Intersect_eq_spec. apply spec_LineSegment_Intersect_swap. Qed.

(* ... and so does reversing either segment *)
Theorem LineSegment_Intersect_reverse s o iv :
  fst (LineSegment_Intersect (lseg_rev s) o iv) = fst (LineSegment_Intersect s o iv) /\
  fst (LineSegment_Intersect s (lseg_rev o) iv) = fst (LineSegment_Intersect s o iv) /\
  (fst (LineSegment_Intersect s o iv) = INTERSECTING ->
   pt_eq (snd (LineSegment_Intersect (lseg_rev s) o iv)) (snd (LineSegment_Intersect s o iv)) /\
   pt_eq (snd (LineSegment_Intersect s (lseg_rev o) iv)) (snd (LineSegment_Intersect s o iv))).
Proof. rewrite !LineSegment_Intersect_eq_spec. apply spec_LineSegment_Intersect_reverse. Qed.

(* degenerate inputs: a zero-length receiver or argument is never INTERSECTING / NOT_INTERSECTING; it is COINCIDENT
   iff all four end points are on a common line (a point: iff it is on the other segment's LINE; two points: always),
   else PARALLEL; the out-parameter is untouched. *)
Theorem LineSegment_Intersect_zero_length s o iv :
  pt_eq (lbegin s) (lend s) \/ pt_eq (lbegin o) (lend o) ->
  let code := fst (LineSegment_Intersect s o iv) in
  (code = COINCIDENT \/ code = PARALLEL) /\
  (code = COINCIDENT <-> on_common_line (lbegin s) (lend s) (lbegin o) (lend o)) /\
  snd (LineSegment_Intersect s o iv) = iv.
Proof. rewrite LineSegment_Intersect_eq_spec. apply spec_Intersect_zero_length. Qed.

(* what the UNMODIFIED code answers on degenerate inputs (computed on the generated definition) *)
Example LineSegment_Intersect_degenerate_ex :
  let S (x0 y0 x1 y1 : Q) := mklseg (mkpt x0 y0) (mkpt x1 y1) in
  let code s o := fst (LineSegment_Intersect s o pt0) in
  (* zero-length argument: on the receiver segment, on its line beyond the end, off the line *)
  code (S 0 0 3 0) (S 1 0 1 0) = COINCIDENT /\ code (S 0 0 3 0) (S 5 0 5 0) = COINCIDENT /\
  code (S 0 0 3 0) (S 1 2 1 2) = PARALLEL /\
  (* zero-length receiver *)
  code (S 1 0 1 0) (S 0 0 3 0) = COINCIDENT /\ code (S 1 2 1 2) (S 0 0 3 0) = PARALLEL /\
  (* both zero-length: equal points, distinct points *)
  code (S 1 1 1 1) (S 1 1 1 1) = COINCIDENT /\ code (S 0 0 0 0) (S 1 2 1 2) = COINCIDENT /\
  (* ordinary inputs: crossing (with its point), touching at an end point, miss, collinear, parallel *)
  LineSegment_Intersect (S 0 0 2 2) (S 0 2 2 0) pt0 = (INTERSECTING, mkpt (0 + (-4 / -8) * 2) (0 + (-4 / -8) * 2)) /\
  code (S 0 0 2 0) (S 2 0 2 2) = INTERSECTING /\ code (S 0 0 2 0) (S 3 (-1) 3 1) = NOT_INTERSECTING /\
  code (S 0 0 2 0) (S 1 0 3 0) = COINCIDENT /\ code (S 0 0 2 0) (S 0 1 2 1) = PARALLEL /\
  LineSegment_Intersect (S 0 0 2 0) (S 0 1 2 1) (mkpt 7 9) = (PARALLEL, mkpt 7 9).
Proof. vm_compute. repeat split. Qed.

(* ---- Rectangle::lineIntersections: the model run with the generated predicate is the spec *)
Theorem lineIntersections_model_eq_spec x0 x1 y0 y1 l r :
  lineIntersections_model LineSegment_Intersect x0 x1 y0 y1 l r = spec_lineIntersections x0 x1 y0 y1 l r.
Proof. apply li_sides_ext. exact LineSegment_Intersect_eq_spec. Qed.

Theorem lineIntersections_flags x0 x1 y0 y1 l :
  let code sd := fst (LineSegment_Intersect l (rect_side x0 x1 y0 y1 sd) pt0) in
  let r := lineIntersections_model LineSegment_Intersect x0 x1 y0 y1 l ri0 in
  ((exists sd, code sd = COINCIDENT) -> ri_intersects r = false /\ forall sd, ri_flag sd r = false) /\
  ((forall sd, code sd <> COINCIDENT) ->
     (forall sd, ri_flag sd r = Z.eqb (code sd) INTERSECTING) /\
     ri_intersects r = Z.eqb (code STop) INTERSECTING || Z.eqb (code SBottom) INTERSECTING
                       || Z.eqb (code SLeft) INTERSECTING || Z.eqb (code SRight) INTERSECTING).
Proof.
  cbv zeta. rewrite lineIntersections_model_eq_spec.
  pose proof (spec_lineIntersections_flags x0 x1 y0 y1 l) as H. cbv zeta in H.
  assert (E : forall sd, fst (LineSegment_Intersect l (rect_side x0 x1 y0 y1 sd) pt0) =
                         spec_LineSegment_Intersect_code l (rect_side x0 x1 y0 y1 sd))
    by (intros sd; rewrite LineSegment_Intersect_eq_spec; reflexivity).
  unfold COINCIDENT, INTERSECTING.
  destruct H as [H1 H2]. split.
  - intros [sd Hsd]. apply H1. exists sd. rewrite <- E. exact Hsd.
  - intros Hn. destruct H2 as [F I].
    + intros sd. rewrite <- E. apply Hn.
    + split; [intros sd; rewrite E; apply F|rewrite !E; exact I].
Qed.
