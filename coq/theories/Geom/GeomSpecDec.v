(* Executable (boolean) versions of the declarative specs, with proofs that they decide them.
   Nothing here mentions the generated code, so no change to /repo can break this file; these deciders
   are what is extracted and run against the compiled C++ when a proof about Gen/ breaks (the search). *)
From Adapt Require Import Num.Qaux Geom.GeomSpec.
Local Open Scope Q_scope.

Lemma sgnQ_neg q : sgnQ q = (-1)%Z <-> q < 0.
Proof. unfold sgnQ. repeat qcase; qb2p; split; intros; try discriminate; try lra; auto. Qed.
Lemma sgnQ_pos q : sgnQ q = 1%Z <-> 0 < q.
Proof. unfold sgnQ. repeat qcase; qb2p; split; intros; try discriminate; try lra; auto. Qed.
Lemma sgnQ_zero q : sgnQ q = 0%Z <-> q == 0.
Proof. unfold sgnQ. repeat qcase; qb2p; split; intros; try discriminate; try lra; auto. Qed.
Lemma sgnQ_cases q : (sgnQ q = (-1)%Z /\ q < 0) \/ (sgnQ q = 0%Z /\ q == 0) \/ (sgnQ q = 1%Z /\ 0 < q).
Proof. unfold sgnQ. repeat qcase; qb2p; [left|right;right|right;left]; split; auto; lra. Qed.

Global Instance sgnQ_proper : Proper (Qeq ==> eq) sgnQ.
Proof.
  intros x y E.
  destruct (sgnQ_cases x) as [[H1 H2]|[[H1 H2]|[H1 H2]]];
  destruct (sgnQ_cases y) as [[H3 H4]|[[H3 H4]|[H3 H4]]]; rewrite H1, H3; try reflexivity; lra.
Qed.



Lemma bool_ext (x y : bool) : (x = true <-> y = true) -> x = y.
Proof. destruct x, y; intuition congruence. Qed.

Definition opp_sides (x y : Q) : bool := Z.ltb (sgnQ x * sgnQ y) 0.
Lemma opp_sides_spec x y : opp_sides x y = true <-> x * y < 0.
Proof.
  unfold opp_sides.
  destruct (sgnQ_cases x) as [[H1 H2]|[[H1 H2]|[H1 H2]]];
  destruct (sgnQ_cases y) as [[H3 H4]|[[H3 H4]|[H3 H4]]]; rewrite H1, H3; cbn;
  split; intro H; try discriminate; try reflexivity; try nra.
Qed.

Lemma cross_sound ax ay bx by_ cx cy dx dy :
  let cr := fun ax ay bx by_ cx cy => (bx-ax)*(cy-ay) - (cx-ax)*(by_-ay) in
  cr ax ay bx by_ cx cy * cr ax ay bx by_ dx dy < 0 ->
  cr cx cy dx dy ax ay * cr cx cy dx dy bx by_ < 0 ->
  exists s t, 0 < s /\ s < 1 /\ 0 < t /\ t < 1 /\
     ax + s*(bx-ax) == cx + t*(dx-cx) /\ ay + s*(by_-ay) == cy + t*(dy-cy) /\
     ~ (bx - ax) * (dy - cy) - (by_ - ay) * (dx - cx) == 0.
Proof.
  intros cr H1 H2.
  set (A := cr cx cy dx dy ax ay) in *. set (B := cr cx cy dx dy bx by_) in *.
  set (C := cr ax ay bx by_ cx cy) in *. set (D := cr ax ay bx by_ dx dy) in *.
  assert (HAB: ~ A - B == 0). { intro E. assert (A == B) by lra. nra. }
  assert (HCD: ~ C - D == 0). { intro E. assert (C == D) by lra. nra. }
  exists (A / (A - B)), (C / (C - D)).
  assert (Hs: 0 < A/(A-B) /\ A/(A-B) < 1).
  { destruct (Qlt_le_dec 0 A).
    - assert (B < 0) by nra. split.
      + apply Qlt_shift_div_l; lra.
      + apply Qlt_shift_div_r; lra.
    - assert (A < 0) by (destruct (Qeq_dec A 0); [nra|lra]). assert (0 < B) by nra.
      assert (E: A/(A-B) == (-A)/(B-A)) by (field; lra). rewrite E. split.
      + apply Qlt_shift_div_l; lra.
      + apply Qlt_shift_div_r; lra. }
  assert (Ht: 0 < C/(C-D) /\ C/(C-D) < 1).
  { destruct (Qlt_le_dec 0 C).
    - assert (D < 0) by nra. split.
      + apply Qlt_shift_div_l; lra.
      + apply Qlt_shift_div_r; lra.
    - assert (C < 0) by (destruct (Qeq_dec C 0); [nra|lra]). assert (0 < D) by nra.
      assert (E: C/(C-D) == (-C)/(D-C)) by (field; lra). rewrite E. split.
      + apply Qlt_shift_div_l; lra.
      + apply Qlt_shift_div_r; lra. }
  destruct Hs, Ht. repeat split; try assumption.
  - unfold A, B, C, D, cr in *. field. split; assumption.
  - unfold A, B, C, D, cr in *. field. split; assumption.
  - intro E. apply HAB. unfold A, B, cr. lra.
Qed.

Lemma cross_complete ax ay bx by_ cx cy dx dy s t :
  let cr := fun ax ay bx by_ cx cy => (bx-ax)*(cy-ay) - (cx-ax)*(by_-ay) in
  0 < s -> s < 1 -> 0 < t -> t < 1 ->
  ax + s*(bx-ax) == cx + t*(dx-cx) -> ay + s*(by_-ay) == cy + t*(dy-cy) ->
  ~ (bx - ax) * (dy - cy) - (by_ - ay) * (dx - cx) == 0 ->
  cr ax ay bx by_ cx cy * cr ax ay bx by_ dx dy < 0 /\
  cr cx cy dx dy ax ay * cr cx cy dx dy bx by_ < 0.
Proof.
  intros cr Hs0 Hs1 Ht0 Ht1 Ex Ey Hnp.
  set (den := (bx - ax) * (dy - cy) - (by_ - ay) * (dx - cx)) in *.
  (* cross ab c = t * den ... express each cross product through den *)
  assert (E1 : cr ax ay bx by_ cx cy == - t * den).
  { unfold cr, den.
    assert (cx == ax + s*(bx-ax) - t*(dx-cx)) by lra.
    assert (cy == ay + s*(by_-ay) - t*(dy-cy)) by lra.
    rewrite H at 1. rewrite H0 at 1. ring. }
  assert (E2 : cr ax ay bx by_ dx dy == (1 - t) * den).
  { unfold cr, den.
    assert (Hx : dx - ax == s*(bx-ax) + (1-t)*(dx-cx)) by lra.
    assert (Hy : dy - ay == s*(by_-ay) + (1-t)*(dy-cy)) by lra.
    rewrite Hx, Hy. ring. }
  assert (E3 : cr cx cy dx dy ax ay == s * den).
  { unfold cr, den.
    assert (Hx : ax - cx == t*(dx-cx) - s*(bx-ax)) by lra.
    assert (Hy : ay - cy == t*(dy-cy) - s*(by_-ay)) by lra.
    rewrite Hx, Hy. ring. }
  assert (E4 : cr cx cy dx dy bx by_ == - (1 - s) * den).
  { unfold cr, den.
    assert (Hx : bx - cx == t*(dx-cx) + (1-s)*(bx-ax)) by lra.
    assert (Hy : by_ - cy == t*(dy-cy) + (1-s)*(by_-ay)) by lra.
    rewrite Hx, Hy. ring. }
  rewrite E1, E2, E3, E4.
  assert (Hd : 0 < den * den) by (destruct (Qlt_le_dec 0 den); [nra|]; destruct (Qeq_dec den 0); [tauto|nra]).
  split.
  - assert (- t * den * ((1 - t) * den) == - (t * (1 - t)) * (den * den)) by ring.
    rewrite H. assert (0 < t * (1 - t)) by nra. nra.
  - assert (s * den * (- (1 - s) * den) == - (s * (1 - s)) * (den * den)) by ring.
    rewrite H. assert (0 < s * (1 - s)) by nra. nra.
Qed.


Definition spec_vecDir (a b c : pt) : Z := sgnQ (cross a b c).

Definition spec_segmentIntersect (a b c d : pt) : bool :=
  opp_sides (cross a b c) (cross a b d) && opp_sides (cross c d a) (cross c d b).

Theorem spec_segmentIntersect_ok a b c d :
  spec_segmentIntersect a b c d = true <-> properly_cross a b c d.
Proof.
  unfold spec_segmentIntersect. rewrite andb_true_iff, !opp_sides_spec.
  unfold properly_cross, pt_eq, lerp, cross; cbn [px py].
  split.
  - intros [H1 H2].
    destruct (cross_sound (px a) (py a) (px b) (py b) (px c) (py c) (px d) (py d) H1 H2)
      as (s & t & ? & ? & ? & ? & ? & ? & ?).
    exists s, t. tauto.
  - intros (s & t & Hs0 & Hs1 & Ht0 & Ht1 & [Ex Ey] & Hnp).
    exact (cross_complete (px a) (py a) (px b) (py b) (px c) (py c) (px d) (py d) s t
             Hs0 Hs1 Ht0 Ht1 Ex Ey Hnp).
Qed.

Lemma between_1d a b c : (a < c /\ c < b) \/ (b < c /\ c < a) <->
  exists t, 0 < t /\ t < 1 /\ c == a + t * (b - a) /\ ~ a == b.
Proof.
  split.
  - intros H. assert (Hn : ~ b - a == 0) by (intro; lra).
    exists ((c - a) / (b - a)). destruct H as [[H1 H2]|[H1 H2]].
    + repeat split; try (intro; lra).
      * apply Qlt_shift_div_l; lra.
      * apply Qlt_shift_div_r; lra.
      * field. exact Hn.
    + assert (E : (c - a) / (b - a) == (a - c) / (a - b)) by (field; split; lra). rewrite E.
      repeat split; try (intro; lra).
      * apply Qlt_shift_div_l; lra.
      * apply Qlt_shift_div_r; lra.
      * rewrite <- E. field. exact Hn.
  - intros (t & H0 & H1 & E & Hn).
    destruct (Qlt_le_dec a b); [left | right]; nra.
Qed.

Lemma orb_andb_between a b c :
  (Qltb a c && Qltb c b || Qltb b c && Qltb c a) = true <-> (a < c /\ c < b) \/ (b < c /\ c < a).
Proof. rewrite orb_true_iff, !andb_true_iff, !Qltb_spec. tauto. Qed.


(* ---- strictly_between *)
Definition dot (a b c d : pt) : Q := (px b - px a) * (px d - px c) + (py b - py a) * (py d - py c).

Definition spec_pointOnLine (a b c : pt) : bool :=
  negb (pt_eqb a b) && Qeqb (cross a b c) 0 && Qltb 0 (dot a c a b) && Qltb (dot a c a b) (dot a b a b).

Theorem spec_pointOnLine_ok a b c : spec_pointOnLine a b c = true <-> strictly_between a b c.
Proof.
  unfold spec_pointOnLine, strictly_between.
  rewrite !andb_true_iff, negb_true_iff, <- not_true_iff_false, pt_eqb_spec, Qeqb_spec, !Qltb_spec.
  unfold pt_eq, lerp, cross, dot; cbn [px py].
  set (ux := px b - px a). set (uy := py b - py a).
  split.
  - intros [[[Hne Hc] H0] H1]. split; [exact Hne|].
    assert (Hn : 0 < ux * ux + uy * uy).
    { destruct (Qeq_dec ux 0) as [E|E], (Qeq_dec uy 0) as [E'|E'];
        [exfalso; apply Hne; unfold ux, uy in *; split; lra | nra | nra | nra]. }
    set (t := ((px c - px a) * ux + (py c - py a) * uy) / (ux * ux + uy * uy)).
    exists t.
    assert (Ht : t * (ux * ux + uy * uy) == (px c - px a) * ux + (py c - py a) * uy)
      by (unfold t; field; lra).
    split; [unfold t; apply Qlt_shift_div_l; lra|].
    split; [unfold t; apply Qlt_shift_div_r; lra|].
    fold ux uy.
    assert (Hcx : (px c - px a - t * ux) * (ux * ux + uy * uy) == 0).
    { assert (E : (px c - px a - t * ux) * (ux * ux + uy * uy) ==
                  (px c - px a) * (ux * ux + uy * uy) - ux * (t * (ux * ux + uy * uy))) by ring.
      rewrite E, Ht.
      assert (E2 : (px c - px a) * (ux * ux + uy * uy) - ux * ((px c - px a) * ux + (py c - py a) * uy)
                   == - uy * (ux * (py c - py a) - (px c - px a) * uy)) by ring.
      rewrite E2, Hc. ring. }
    assert (Hcy : (py c - py a - t * uy) * (ux * ux + uy * uy) == 0).
    { assert (E : (py c - py a - t * uy) * (ux * ux + uy * uy) ==
                  (py c - py a) * (ux * ux + uy * uy) - uy * (t * (ux * ux + uy * uy))) by ring.
      rewrite E, Ht.
      assert (E2 : (py c - py a) * (ux * ux + uy * uy) - uy * ((px c - px a) * ux + (py c - py a) * uy)
                   == ux * (ux * (py c - py a) - (px c - px a) * uy)) by ring.
      rewrite E2, Hc. ring. }
    apply Qmult_integral in Hcx. apply Qmult_integral in Hcy.
    split; [destruct Hcx|destruct Hcy]; lra.
  - intros (Hne & t & H0 & H1 & E1 & E2). fold ux uy in E1, E2.
    assert (Hn : 0 < ux * ux + uy * uy).
    { destruct (Qeq_dec ux 0) as [E|E], (Qeq_dec uy 0) as [E'|E'];
        [exfalso; apply Hne; unfold ux, uy in *; split; lra | nra | nra | nra]. }
    assert (Ex : px c - px a == t * ux) by lra.
    assert (Ey : py c - py a == t * uy) by lra.
    repeat split; try assumption.
    + rewrite Ey, Ex. ring.
    + rewrite Ex, Ey. nra.
    + rewrite Ex, Ey. nra.
Qed.

(* ---- convex polygon membership, index based: the i-th edge runs from P[(i+n-1) mod n] to P[i] *)
Definition edge_cross (P : list pt) (q : pt) (i : nat) : Q :=
  let n := length P in cross (nth ((i + n - 1) mod n) P pt0) (nth i P pt0) q.

Definition spec_inPoly (P : list pt) (q : pt) (countBorder : bool) : bool :=
  forallb (fun i => if countBorder then Qleb 0 (edge_cross P q i) else Qltb 0 (edge_cross P q i))
          (seq 0 (length P)).

Theorem spec_inPoly_ok P q cb :
  spec_inPoly P q cb = true <->
  forall i, (i < length P)%nat ->
            if cb then 0 <= edge_cross P q i else 0 < edge_cross P q i.
Proof.
  unfold spec_inPoly. rewrite forallb_forall. split.
  - intros H i Hi. specialize (H i). rewrite in_seq in H. specialize (H ltac:(lia)).
    destruct cb; [apply Qleb_spec | apply Qltb_spec]; exact H.
  - intros H i Hi. rewrite in_seq in Hi. specialize (H i ltac:(lia)).
    destruct cb; [apply Qleb_spec | apply Qltb_spec]; exact H.
Qed.

(* ================================================================================================
   C16 extension (1): segmentIntersectPoint, rayIntersectPoint *)

Definition sip_d (a1 a2 b1 b2 : pt) : Q :=
  (py b1 - py b2) * (px a1 - px b1) - (px b1 - px b2) * (py a1 - py b1).
Definition sip_e (a1 a2 b1 b2 : pt) : Q :=
  (px a2 - px a1) * (py a1 - py b1) - (py a2 - py a1) * (px a1 - px b1).
(* the 1-D closed ranges [p,q] and [r,s] (endpoints in any order) overlap *)
Definition ranges_overlap (p q r s : Q) : bool :=
  Qleb (Qmin' r s) (Qmax' p q) && Qleb (Qmin' p q) (Qmax' r s).
Definition unit_range (v : Q) : bool := Qleb 0 v && Qleb v 1.

Definition spec_segmentIntersectPoint (a1 a2 b1 b2 : pt) (x y : Q) : Z * Q * Q :=
  let f := sip_den a1 a2 b1 b2 in
  let d := sip_d a1 a2 b1 b2 in
  let e := sip_e a1 a2 b1 b2 in
  if Qeqb f 0 then
    if Qeqb d 0 && Qeqb e 0 && ranges_overlap (px a1) (px a2) (px b1) (px b2)
       && ranges_overlap (py a1) (py a2) (py b1) (py b2)
    then (3%Z, x, y) else (0%Z, x, y)
  else if unit_range (d / f) && unit_range (e / f) then
    (1%Z, px a1 + (d * (px a2 - px a1)) / f, py a1 + (d * (py a2 - py a1)) / f)
  else (0%Z, x, y).

Definition spec_rayIntersectPoint (a1 a2 b1 b2 : pt) (x y : Q) : Z * Q * Q :=
  let f := sip_den a1 a2 b1 b2 in
  let d := sip_d a1 a2 b1 b2 in
  if Qeqb f 0 then (3%Z, x, y)
  else (1%Z, px a1 + (d * (px a2 - px a1)) / f, py a1 + (d * (py a2 - py a1)) / f).

(* the code only, as compared on the grid *)
Definition spec_segmentIntersectPoint_code (a1 a2 b1 b2 : pt) : Z :=
  fst (fst (spec_segmentIntersectPoint a1 a2 b1 b2 0 0)).
Definition spec_rayIntersectPoint_code (a1 a2 b1 b2 : pt) : Z :=
  fst (fst (spec_rayIntersectPoint a1 a2 b1 b2 0 0)).

(* --- algebra of the 2x2 system  a1 + s A = b1 - t B *)
Lemma sip_param a1x a1y a2x a2y b1x b1y b2x b2y s t :
  a1x + s * (a2x - a1x) == b1x + t * (b2x - b1x) ->
  a1y + s * (a2y - a1y) == b1y + t * (b2y - b1y) ->
  let f := (a2y - a1y) * (b1x - b2x) - (a2x - a1x) * (b1y - b2y) in
  (b1y - b2y) * (a1x - b1x) - (b1x - b2x) * (a1y - b1y) == s * f /\
  (a2x - a1x) * (a1y - b1y) - (a2y - a1y) * (a1x - b1x) == t * f.
Proof.
  intros Ex Ey f. unfold f.
  assert (Cx : a1x - b1x == t * (b2x - b1x) - s * (a2x - a1x)) by lra.
  assert (Cy : a1y - b1y == t * (b2y - b1y) - s * (a2y - a1y)) by lra.
  rewrite Cx, Cy. split; ring.
Qed.

Lemma sip_solve a1x a1y a2x a2y b1x b1y b2x b2y :
  let f := (a2y - a1y) * (b1x - b2x) - (a2x - a1x) * (b1y - b2y) in
  let d := (b1y - b2y) * (a1x - b1x) - (b1x - b2x) * (a1y - b1y) in
  let e := (a2x - a1x) * (a1y - b1y) - (a2y - a1y) * (a1x - b1x) in
  ~ f == 0 ->
  a1x + (d / f) * (a2x - a1x) == b1x + (e / f) * (b2x - b1x) /\
  a1y + (d / f) * (a2y - a1y) == b1y + (e / f) * (b2y - b1y).
Proof. intros f d e Hf. subst d e. unfold f in *. split; field; exact Hf. Qed.

Lemma unit_range_spec v : unit_range v = true <-> 0 <= v /\ v <= 1.
Proof. unfold unit_range. rewrite andb_true_iff, !Qleb_spec. tauto. Qed.

Lemma Qdiv_mult_cancel d f : ~ f == 0 -> d / f * f == d.
Proof. intros. field. assumption. Qed.
Lemma Qdiv_of_mult s f : ~ f == 0 -> (s * f) / f == s.
Proof. intros. field. assumption. Qed.

(* --- 1-D ranges *)
Lemma ranges_overlap_true p q r s :
  ranges_overlap p q r s = true <->
  (r <= p \/ r <= q \/ s <= p \/ s <= q) /\ (p <= r \/ p <= s \/ q <= r \/ q <= s).
Proof.
  unfold ranges_overlap, Qmin', Qmax'. rewrite andb_true_iff, !Qleb_spec.
  repeat qcase; qb2p; lra.
Qed.

Lemma in_range_param a b x :
  Qmin' a b <= x -> x <= Qmax' a b -> exists s, 0 <= s /\ s <= 1 /\ x == a + s * (b - a).
Proof.
  unfold Qmin', Qmax'. intros H1 H2.
  destruct (Qeq_dec a b) as [E|E].
  - exists 0. revert H1 H2. repeat qcase; qb2p; intros; repeat split; lra.
  - exists ((x - a) / (b - a)).
    assert (Hn : ~ b - a == 0) by (intro; lra).
    split; [|split]; [| |field; exact Hn].
    + destruct (Qlt_le_dec a b).
      * apply Qle_shift_div_l; [lra|]. revert H1 H2. repeat qcase; qb2p; lra.
      * assert (E' : (x - a) / (b - a) == (a - x) / (a - b)) by (field; split; lra). rewrite E'.
        apply Qle_shift_div_l; [lra|]. revert H1 H2. repeat qcase; qb2p; lra.
    + destruct (Qlt_le_dec a b).
      * apply Qle_shift_div_r; [lra|]. revert H1 H2. repeat qcase; qb2p; lra.
      * assert (E' : (x - a) / (b - a) == (a - x) / (a - b)) by (field; split; lra). rewrite E'.
        apply Qle_shift_div_r; [lra|]. revert H1 H2. repeat qcase; qb2p; lra.
Qed.

Lemma param_in_range a b s : 0 <= s -> s <= 1 ->
  Qmin' a b <= a + s * (b - a) /\ a + s * (b - a) <= Qmax' a b.
Proof. intros. unfold Qmin', Qmax'. repeat qcase; qb2p; split; nra. Qed.

Lemma overlap_1d a1 a2 b1 b2 :
  ranges_overlap a1 a2 b1 b2 = true <->
  exists s t, 0 <= s /\ s <= 1 /\ 0 <= t /\ t <= 1 /\ a1 + s * (a2 - a1) == b1 + t * (b2 - b1).
Proof.
  split.
  - intros H.
    set (x := Qmax' (Qmin' a1 a2) (Qmin' b1 b2)).
    assert (Hx : (Qmin' a1 a2 <= x /\ x <= Qmax' a1 a2) /\ (Qmin' b1 b2 <= x /\ x <= Qmax' b1 b2)).
    { unfold ranges_overlap in H. apply andb_true_iff in H. destruct H as [H1 H2]. qb2p.
      revert H1 H2. unfold x, Qmin', Qmax'. repeat qcase; qb2p; lra. }
    destruct Hx as [[Ha1 Ha2] [Hb1 Hb2]].
    destruct (in_range_param a1 a2 x Ha1 Ha2) as (s & ? & ? & Es).
    destruct (in_range_param b1 b2 x Hb1 Hb2) as (t & ? & ? & Et).
    exists s, t. repeat split; try assumption. rewrite <- Es, <- Et. reflexivity.
  - intros (s & t & Hs0 & Hs1 & Ht0 & Ht1 & E).
    pose proof (param_in_range a1 a2 s Hs0 Hs1) as [A1 A2].
    pose proof (param_in_range b1 b2 t Ht0 Ht1) as [B1 B2].
    unfold ranges_overlap. rewrite andb_true_iff, !Qleb_spec. rewrite E in A1, A2. split; lra.
Qed.

(* --- the degenerate (f = 0) case: collinear segments *)
Lemma par_second Ax Ay Bx By Cx Cy s t (e f : Q) :
  ~ Ax == 0 -> Ax * Cy + s * (Ax * Ay) + t * (Ax * By) == Ay * (Cx + s * Ax + t * Bx) + e - t * f ->
  e == 0 -> f == 0 -> Cx + s * Ax + t * Bx == 0 -> Cy + s * Ay + t * By == 0.
Proof.
  intros Hn Hid He Hf Hx.
  assert (H : Ax * (Cy + s * Ay + t * By) == 0).
  { assert (E : Ax * (Cy + s * Ay + t * By) == Ax * Cy + s * (Ax * Ay) + t * (Ax * By)) by ring.
    rewrite E, Hid, Hx, He, Hf. ring. }
  apply Qmult_integral in H. tauto.
Qed.

Lemma sip_parallel_meet a1 a2 b1 b2 :
  sip_den a1 a2 b1 b2 == 0 -> sip_d a1 a2 b1 b2 == 0 -> sip_e a1 a2 b1 b2 == 0 ->
  ranges_overlap (px a1) (px a2) (px b1) (px b2) = true ->
  ranges_overlap (py a1) (py a2) (py b1) (py b2) = true ->
  segs_meet a1 a2 b1 b2.
Proof.
  unfold sip_den, sip_d, sip_e, segs_meet, pt_eq, lerp; cbn [px py].
  intros Hf Hd He Ox Oy.
  set (Ax := px a2 - px a1) in *. set (Ay := py a2 - py a1) in *.
  set (Bx := px b1 - px b2) in *. set (By := py b1 - py b2) in *.
  set (Cx := px a1 - px b1) in *. set (Cy := py a1 - py b1) in *.
  apply overlap_1d in Ox. apply overlap_1d in Oy.
  destruct (Qeq_dec Ax 0) as [EAx|EAx].
  2:{ destruct Ox as (s & t & ? & ? & ? & ? & Ex). exists s, t. repeat split; try assumption.
      assert (Hx : Cx + s * Ax + t * Bx == 0) by (unfold Cx, Ax, Bx; lra).
      assert (Hy : Cy + s * Ay + t * By == 0).
      { apply (par_second Ax Ay Bx By Cx Cy s t (Ax * Cy - Ay * Cx) (Ay * Bx - Ax * By)); try assumption; ring. }
      unfold Cy, Ay, By in Hy |- *. lra. }
  destruct (Qeq_dec Ay 0) as [EAy|EAy].
  2:{ destruct Oy as (s & t & ? & ? & ? & ? & Ey). exists s, t. repeat split; try assumption.
      assert (Hy : Cy + s * Ay + t * By == 0) by (unfold Cy, Ay, By; lra).
      assert (Hx : Cx + s * Ax + t * Bx == 0).
      { apply (par_second Ay Ax By Bx Cy Cx s t (-(Ax * Cy - Ay * Cx)) (-(Ay * Bx - Ax * By))); try assumption; try lra; ring. }
      unfold Cx, Ax, Bx in Hx |- *. lra. }
  destruct (Qeq_dec Bx 0) as [EBx|EBx].
  2:{ destruct Ox as (s & t & ? & ? & ? & ? & Ex). exists s, t. repeat split; try assumption.
      assert (Hx : Cx + s * Ax + t * Bx == 0) by (unfold Cx, Ax, Bx; lra).
      assert (Hy : Cy + t * By + s * Ay == 0).
      { apply (par_second Bx By Ax Ay Cx Cy t s (-(By * Cx - Bx * Cy)) (-(Ay * Bx - Ax * By))); try assumption; try lra; ring. }
      unfold Cy, Ay, By in Hy |- *. lra. }
  destruct (Qeq_dec By 0) as [EBy|EBy].
  2:{ destruct Oy as (s & t & ? & ? & ? & ? & Ey). exists s, t. repeat split; try assumption.
      assert (Hy : Cy + s * Ay + t * By == 0) by (unfold Cy, Ay, By; lra).
      assert (Hx : Cx + t * Bx + s * Ax == 0).
      { apply (par_second By Bx Ay Ax Cy Cx t s (By * Cx - Bx * Cy) (Ay * Bx - Ax * By)); try assumption; try lra; ring. }
      unfold Cx, Ax, Bx in Hx |- *. lra. }
  destruct Ox as (s & t & ? & ? & ? & ? & Ex). destruct Oy as (s' & t' & ? & ? & ? & ? & Ey).
  exists 0, 0. unfold Ax, Ay, Bx, By in *. repeat split; try lra; nra.
Qed.

Lemma segs_meet_overlap a1 a2 b1 b2 : segs_meet a1 a2 b1 b2 ->
  ranges_overlap (px a1) (px a2) (px b1) (px b2) = true /\
  ranges_overlap (py a1) (py a2) (py b1) (py b2) = true.
Proof.
  intros (s & t & ? & ? & ? & ? & [Ex Ey]). unfold lerp in *; cbn [px py] in *.
  split; apply overlap_1d; exists s, t; tauto.
Qed.

Lemma segs_meet_param a1 a2 b1 b2 s t :
  pt_eq (lerp a1 a2 s) (lerp b1 b2 t) ->
  sip_d a1 a2 b1 b2 == s * sip_den a1 a2 b1 b2 /\ sip_e a1 a2 b1 b2 == t * sip_den a1 a2 b1 b2.
Proof.
  intros [Ex Ey]. unfold lerp in *; cbn [px py] in *.
  exact (sip_param _ _ _ _ _ _ _ _ s t Ex Ey).
Qed.

(* the intersection point written as the code computes it *)
Lemma sip_point_lerp a1 a2 b1 b2 :
  let f := sip_den a1 a2 b1 b2 in let d := sip_d a1 a2 b1 b2 in
  ~ f == 0 ->
  pt_eq (mkpt (px a1 + (d * (px a2 - px a1)) / f) (py a1 + (d * (py a2 - py a1)) / f)) (lerp a1 a2 (d / f)).
Proof. intros f d Hf. unfold pt_eq, lerp; cbn [px py]. split; field; exact Hf. Qed.

Lemma sip_solve_pt a1 a2 b1 b2 :
  let f := sip_den a1 a2 b1 b2 in
  ~ f == 0 -> pt_eq (lerp a1 a2 (sip_d a1 a2 b1 b2 / f)) (lerp b1 b2 (sip_e a1 a2 b1 b2 / f)).
Proof.
  intros f Hf. unfold pt_eq, lerp; cbn [px py].
  exact (sip_solve (px a1) (py a1) (px a2) (py a2) (px b1) (py b1) (px b2) (py b2) Hf).
Qed.

Lemma pt_eq_refl a : pt_eq a a.
Proof. split; reflexivity. Qed.
Lemma pt_eq_sym a b : pt_eq a b -> pt_eq b a.
Proof. intros [? ?]; split; symmetry; assumption. Qed.
Lemma pt_eq_trans a b c : pt_eq a b -> pt_eq b c -> pt_eq a c.
Proof. intros [? ?] [? ?]; split; etransitivity; eassumption. Qed.
Lemma lerp_param_eq a b s s' : s == s' -> pt_eq (lerp a b s) (lerp a b s').
Proof. intros E. unfold pt_eq, lerp; cbn [px py]. rewrite E. split; reflexivity. Qed.

Theorem spec_segmentIntersectPoint_ok a1 a2 b1 b2 x y :
  segmentIntersectPoint_meaning a1 a2 b1 b2 x y (spec_segmentIntersectPoint a1 a2 b1 b2 x y).
Proof.
  unfold segmentIntersectPoint_meaning, spec_segmentIntersectPoint.
  set (f := sip_den a1 a2 b1 b2). set (d := sip_d a1 a2 b1 b2). set (e := sip_e a1 a2 b1 b2).
  destruct (Qeqb f 0) eqn:Ef; qb2p.
  - (* parallel *)
    destruct (_ && _) eqn:Eall; cbn [fst snd].
    + apply andb_true_iff in Eall. destruct Eall as [Eall Oy]. apply andb_true_iff in Eall. destruct Eall as [Eall Ox].
      apply andb_true_iff in Eall. destruct Eall as [Ed Ee]. qb2p.
      assert (M : segs_meet a1 a2 b1 b2) by (apply sip_parallel_meet; assumption).
      split; [|split; [|split; [|split]]]; try (split; intros; try discriminate; tauto); try tauto; try discriminate; auto.
    + assert (M : ~ segs_meet a1 a2 b1 b2).
      { intros M. destruct (segs_meet_overlap _ _ _ _ M) as [Ox Oy].
        destruct M as (s & t & _ & _ & _ & _ & E). apply segs_meet_param in E. destruct E as [Ed Ee].
        fold f d e in Ed, Ee. rewrite Ox, Oy in Eall. 
        assert (Hd : Qeqb d 0 = true) by (apply Qeqb_spec; rewrite Ed, Ef; ring).
        assert (He : Qeqb e 0 = true) by (apply Qeqb_spec; rewrite Ee, Ef; ring).
        rewrite Hd, He in Eall. discriminate. }
      split; [|split; [|split; [|split]]]; try (split; intros; try discriminate; tauto); try tauto; try discriminate; auto.
  - destruct (_ && _) eqn:Eall; cbn [fst snd].
    + apply andb_true_iff in Eall. destruct Eall as [Rd Re]. apply unit_range_spec in Rd, Re.
      pose proof (sip_solve_pt a1 a2 b1 b2 Ef) as Hsol. fold f d e in Hsol.
      pose proof (sip_point_lerp a1 a2 b1 b2 Ef) as Hpt. fold f d in Hpt. cbv zeta in Hpt.
      assert (M : segs_meet a1 a2 b1 b2) by (exists (d / f), (e / f); tauto).
      split; [|split; [|split; [|split]]]; try (split; intros; try discriminate; tauto); try tauto; try discriminate; auto.
      intros _. split; [|split].
      * exists (d / f). tauto.
      * exists (e / f). split; [tauto|]. split; [tauto|]. eapply pt_eq_trans; eassumption.
      * intros p H0 H1. destruct H0 as (s & _ & _ & Es). destruct H1 as (t & _ & _ & Et).
        assert (E : pt_eq (lerp a1 a2 s) (lerp b1 b2 t)) by (eapply pt_eq_trans; [apply pt_eq_sym|]; eassumption).
        apply segs_meet_param in E. destruct E as [Ed _]. fold f d in Ed.
        assert (Es' : s == d / f) by (rewrite Ed; symmetry; apply Qdiv_of_mult; exact Ef).
        eapply pt_eq_trans; [exact Es|]. eapply pt_eq_trans; [apply lerp_param_eq; exact Es'|].
        apply pt_eq_sym. exact Hpt.
    + assert (M : ~ segs_meet a1 a2 b1 b2).
      { intros (s & t & Hs0 & Hs1 & Ht0 & Ht1 & E). apply segs_meet_param in E. destruct E as [Ed Ee].
        fold f d e in Ed, Ee.
        assert (Rd : unit_range (d / f) = true).
        { apply unit_range_spec. rewrite Ed, Qdiv_of_mult by exact Ef. tauto. }
        assert (Re : unit_range (e / f) = true).
        { apply unit_range_spec. rewrite Ee, Qdiv_of_mult by exact Ef. tauto. }
        rewrite Rd, Re in Eall. discriminate. }
      split; [|split; [|split; [|split]]]; try (split; intros; try discriminate; tauto); try tauto; try discriminate; auto.
Qed.

Theorem spec_rayIntersectPoint_ok a1 a2 b1 b2 x y :
  rayIntersectPoint_meaning a1 a2 b1 b2 x y (spec_rayIntersectPoint a1 a2 b1 b2 x y).
Proof.
  unfold rayIntersectPoint_meaning, spec_rayIntersectPoint.
  set (f := sip_den a1 a2 b1 b2). set (d := sip_d a1 a2 b1 b2).
  destruct (Qeqb f 0) eqn:Ef; qb2p; cbn [fst snd].
  - split; [|split; [|split; [|split]]]; try (split; intros; try discriminate; tauto); try tauto; try discriminate; auto.
  - pose proof (sip_solve_pt a1 a2 b1 b2 Ef) as Hsol. fold f d in Hsol.
    pose proof (sip_point_lerp a1 a2 b1 b2 Ef) as Hpt. fold f d in Hpt. cbv zeta in Hpt.
    split; [|split; [|split; [|split]]]; try (split; intros; try discriminate; tauto); try tauto; try discriminate; auto.
    intros _. split; [|split].
    + exists (d / f). exact Hpt.
    + exists (sip_e a1 a2 b1 b2 / f). eapply pt_eq_trans; eassumption.
    + intros p (s & Es) (t & Et).
      assert (E : pt_eq (lerp a1 a2 s) (lerp b1 b2 t)) by (eapply pt_eq_trans; [apply pt_eq_sym|]; eassumption).
      apply segs_meet_param in E. destruct E as [Ed _]. fold f d in Ed.
      assert (Es' : s == d / f) by (rewrite Ed; symmetry; apply Qdiv_of_mult; exact Ef).
      eapply pt_eq_trans; [exact Es|]. eapply pt_eq_trans; [apply lerp_param_eq; exact Es'|].
      apply pt_eq_sym. exact Hpt.
Qed.

(* non-vacuity *)
Example spec_segmentIntersectPoint_ex :
  spec_segmentIntersectPoint (mkpt 0 0) (mkpt 2 2) (mkpt 0 2) (mkpt 2 0) 7 7 = (1%Z, 0 + (-4 * 2) / -8, 0 + (-4 * 2) / -8)
  /\ spec_segmentIntersectPoint_code (mkpt 0 0) (mkpt 2 0) (mkpt 1 0) (mkpt 3 0) = 3%Z
  /\ spec_segmentIntersectPoint_code (mkpt 0 0) (mkpt 2 0) (mkpt 1 0) (mkpt 1 0) = 3%Z
  /\ spec_segmentIntersectPoint_code (mkpt 0 0) (mkpt 2 0) (mkpt 3 0) (mkpt 4 0) = 0%Z
  /\ spec_rayIntersectPoint_code (mkpt 0 0) (mkpt 2 0) (mkpt 3 1) (mkpt 4 2) = 1%Z.
Proof. vm_compute. repeat split. Qed.

(* ================================================================================================
   C16 extension (3-4): colinear, inBetween, cornerSide, inValidRegion *)

Definition spec_colinear (a b c : pt) : bool := Qeqb (cross a b c) 0.

Lemma cross_zero_on_line a b c : cross a b c == 0 -> ~ pt_eq a b -> on_line a b c.
Proof.
  unfold on_line, cross, pt_eq, lerp; cbn [px py]. intros Hc Hne.
  destruct (Qeq_dec (px b) (px a)) as [Ex|Ex].
  - assert (Ey : ~ py b - py a == 0) by (intro; apply Hne; split; lra).
    exists ((py c - py a) / (py b - py a)). cbn [px py]. split.
    + assert (H : (px c - px a) * (py b - py a) == 0) by (rewrite Ex in Hc; lra).
      apply Qmult_integral in H. destruct H; [|tauto]. rewrite Ex. lra.
    + field. exact Ey.
  - assert (Ex' : ~ px b - px a == 0) by (intro; lra).
    exists ((px c - px a) / (px b - px a)). cbn [px py]. split.
    + field. exact Ex'.
    + assert (H : (py c - py a - (px c - px a) / (px b - px a) * (py b - py a)) * (px b - px a) == 0).
      { assert (E : (py c - py a - (px c - px a) / (px b - px a) * (py b - py a)) * (px b - px a) ==
                    (px b - px a) * (py c - py a) - (px c - px a) * (py b - py a)) by (field; exact Ex').
        rewrite E. exact Hc. }
      apply Qmult_integral in H. destruct H; [lra|tauto].
Qed.

Theorem spec_colinear_ok a b c : spec_colinear a b c = true <-> collinear_pts a b c.
Proof.
  unfold spec_colinear, collinear_pts. rewrite Qeqb_spec. split.
  - intros Hc. destruct (pt_eqb a b) eqn:E.
    + left. apply pt_eqb_spec. exact E.
    + right. apply cross_zero_on_line; [exact Hc|]. rewrite <- pt_eqb_spec. congruence.
  - unfold on_line, pt_eq. intros [[Ex Ey]|(t & Ex & Ey)]; unfold cross, lerp in *; cbn [px py] in *.
    + rewrite Ex, Ey. ring.
    + rewrite Ex, Ey. ring.
Qed.

(* inBetween: "c strictly between a and b", meaningful for collinear triples *)
Definition spec_inBetween (a b c : pt) : bool :=
  negb (pt_eqb a b) && Qltb 0 (dot a c a b) && Qltb (dot a c a b) (dot a b a b).

Lemma spec_inBetween_pointOnLine a b c : cross a b c == 0 -> spec_inBetween a b c = spec_pointOnLine a b c.
Proof.
  intros Hc. unfold spec_inBetween, spec_pointOnLine. apply Qeqb_spec in Hc. rewrite Hc, andb_true_r. reflexivity.
Qed.

Theorem spec_inBetween_ok a b c : cross a b c == 0 ->
  (spec_inBetween a b c = true <-> strictly_between a b c).
Proof. intros Hc. rewrite (spec_inBetween_pointOnLine a b c Hc). apply spec_pointOnLine_ok. Qed.

(* cornerSide *)
Definition spec_cornerSide (c1 c2 c3 p : pt) : Z :=
  if Qltb 0 (cross c1 c2 c3) then
    (if Qleb 0 (cross c1 c2 p) && Qleb 0 (cross c2 c3 p) then 1 else -1)%Z
  else if Qltb (cross c1 c2 c3) 0 then
    (if Qleb (cross c1 c2 p) 0 && Qleb (cross c2 c3 p) 0 then -1 else 1)%Z
  else sgnQ (cross c1 c2 p).

Theorem spec_cornerSide_ok c1 c2 c3 p : cornerSide_meaning c1 c2 c3 p (spec_cornerSide c1 c2 c3 p).
Proof.
  unfold cornerSide_meaning, spec_cornerSide.
  destruct (Qltb 0 (cross c1 c2 c3)) eqn:E1; qb2p.
  - split; [|split]; [|intros; lra|intros; lra]. intros _.
    destruct (_ && _) eqn:E2.
    + apply andb_true_iff in E2. destruct E2; qb2p. split; [reflexivity|tauto].
    + split; [|reflexivity]. intros [? ?]. apply andb_false_iff in E2. destruct E2; qb2p; lra.
  - destruct (Qltb (cross c1 c2 c3) 0) eqn:E3; qb2p.
    + split; [|split]; [intros; lra| |intros; lra]. intros _.
      destruct (_ && _) eqn:E2.
      * apply andb_true_iff in E2. destruct E2; qb2p. split; [reflexivity|tauto].
      * split; [|reflexivity]. intros [? ?]. apply andb_false_iff in E2. destruct E2; qb2p; lra.
    + split; [|split]; [intros; lra|intros; lra|reflexivity].
Qed.

(* inValidRegion *)
Definition spec_inValidRegion (ig : bool) (a0 a1 a2 b : pt) : bool :=
  let r := cross a0 a1 b in let s := cross a1 a2 b in
  if Qltb 0 (cross a0 a1 a2) then
    if ig then (Qleb r 0 && Qleb 0 s) || (Qleb 0 r && Qleb s 0) else Qleb r 0 || Qleb s 0
  else if ig then false else Qleb r 0 && Qleb s 0.

Theorem spec_inValidRegion_ok ig a0 a1 a2 b :
  inValidRegion_meaning ig a0 a1 a2 b (spec_inValidRegion ig a0 a1 a2 b).
Proof.
  unfold inValidRegion_meaning, spec_inValidRegion. cbv zeta.
  destruct (Qltb 0 (cross a0 a1 a2)) eqn:E1; qb2p.
  - split; [|split; [|split]].
    + intros _ ->. rewrite orb_true_iff, !Qleb_spec. tauto.
    + intros _ ->. rewrite orb_true_iff, !andb_true_iff, !Qleb_spec. tauto.
    + intros H. exfalso. lra.
    + intros H. exfalso. lra.
  - split; [|split; [|split]].
    + intros H. exfalso. lra.
    + intros H. exfalso. lra.
    + intros _ ->. rewrite andb_true_iff, !Qleb_spec. tauto.
    + intros _ ->. reflexivity.
Qed.

(* convex corner, regions not ignored: valid exactly when b is not strictly inside the cone at a1 *)
Corollary spec_inValidRegion_convex a0 a1 a2 b : 0 < cross a0 a1 a2 ->
  (spec_inValidRegion false a0 a1 a2 b = true <-> ~ strictly_in_cone a0 a1 a2 b).
Proof.
  intros Hc. destruct (spec_inValidRegion_ok false a0 a1 a2 b) as (H & _).
  rewrite (H Hc eq_refl). unfold strictly_in_cone. split; [intros [?|?] [? ?]; lra|].
  intros Hn. destruct (Qlt_le_dec 0 (cross a0 a1 b)); [|tauto].
  destruct (Qlt_le_dec 0 (cross a1 a2 b)); tauto.
Qed.

Example spec_cornerSide_ex :
  spec_cornerSide (mkpt 0 0) (mkpt 1 0) (mkpt 1 1) (mkpt 0 1) = 1%Z /\
  spec_cornerSide (mkpt 0 0) (mkpt 1 0) (mkpt 1 1) (mkpt 2 (-1)) = (-1)%Z /\
  spec_inValidRegion false (mkpt 0 0) (mkpt 1 0) (mkpt 1 1) (mkpt 0 1) = false /\
  spec_inValidRegion false (mkpt 0 0) (mkpt 1 0) (mkpt 1 1) (mkpt 2 0) = true /\
  spec_colinear (mkpt 0 0) (mkpt 1 1) (mkpt 3 3) = true /\ spec_inBetween (mkpt 0 0) (mkpt 2 2) (mkpt 1 1) = true.
Proof. vm_compute. repeat split. Qed.

(* ================================================================================================
   C16 extension (5): segmentShapeIntersect and its fold over the edges of a shape *)

Definition spec_touchesEdge (e1 e2 s1 s2 : pt) : bool :=
  ((pt_eqb s2 e1 || spec_pointOnLine s1 s2 e1) && negb (Z.eqb (spec_vecDir s1 s2 e2) 0)) ||
  ((pt_eqb s2 e2 || spec_pointOnLine s1 s2 e2) && negb (Z.eqb (spec_vecDir s1 s2 e1) 0)).

Definition spec_segmentShapeIntersect (e1 e2 s1 s2 : pt) (seen : bool) : bool * bool :=
  if spec_segmentIntersect e1 e2 s1 s2 then (true, seen)
  else if spec_touchesEdge e1 e2 s1 s2 then (seen, true) else (false, seen).

Lemma spec_vecDir_nonzero a b c : negb (Z.eqb (spec_vecDir a b c) 0) = true <-> ~ cross a b c == 0.
Proof.
  unfold spec_vecDir. rewrite negb_true_iff, <- not_true_iff_false, Z.eqb_eq, sgnQ_zero. tauto.
Qed.

Theorem spec_touchesEdge_ok e1 e2 s1 s2 : spec_touchesEdge e1 e2 s1 s2 = true <-> touches_edge e1 e2 s1 s2.
Proof.
  unfold spec_touchesEdge, touches_edge, on_edge_halfopen.
  rewrite !orb_true_iff, !andb_true_iff, !orb_true_iff, !spec_vecDir_nonzero, !pt_eqb_spec, !spec_pointOnLine_ok.
  tauto.
Qed.

(* a touching end point lies on the edge line *)
Lemma on_edge_halfopen_cross s1 s2 e : on_edge_halfopen s1 s2 e -> cross s1 s2 e == 0.
Proof.
  unfold on_edge_halfopen, strictly_between, pt_eq, lerp, cross; cbn [px py].
  intros [[Ex Ey]|(_ & t & _ & _ & Ex & Ey)].
  - rewrite <- Ex, <- Ey. ring.
  - rewrite Ex, Ey. ring.
Qed.

(* a proper crossing and an end-point touch exclude each other *)
Lemma spec_cross_touch_exclusive e1 e2 s1 s2 :
  spec_segmentIntersect e1 e2 s1 s2 = true -> spec_touchesEdge e1 e2 s1 s2 = false.
Proof.
  intros Hc. apply not_true_iff_false. rewrite spec_touchesEdge_ok. intros Ht.
  unfold spec_segmentIntersect in Hc. apply andb_true_iff in Hc. destruct Hc as [_ Hc].
  apply opp_sides_spec in Hc.
  destruct Ht as [[H _]|[H _]]; apply on_edge_halfopen_cross in H; nra.
Qed.

Theorem spec_segmentShapeIntersect_ok e1 e2 s1 s2 seen :
  segmentShapeIntersect_meaning e1 e2 s1 s2 seen (spec_segmentShapeIntersect e1 e2 s1 s2 seen).
Proof.
  unfold segmentShapeIntersect_meaning, spec_segmentShapeIntersect.
  rewrite <- spec_segmentIntersect_ok, <- spec_touchesEdge_ok.
  destruct (spec_segmentIntersect e1 e2 s1 s2); destruct (spec_touchesEdge e1 e2 s1 s2);
    repeat split; intros; try reflexivity; try congruence; exfalso; auto.
Qed.

(* --- threading the flag over the edges of one shape (the loops in graph.cpp / router.cpp) *)
Definition spec_ssi_step (e1 e2 : pt) (st : bool * bool) (edge : pt * pt) : bool * bool :=
  let r := spec_segmentShapeIntersect e1 e2 (fst edge) (snd edge) (snd st) in (fst st || fst r, snd r).
Definition spec_shapeBlocks (e1 e2 : pt) (edges : list (pt * pt)) : bool :=
  fst (fold_left (spec_ssi_step e1 e2) edges (false, false)).
Definition spec_crossesEdge (e1 e2 : pt) (edge : pt * pt) : bool := spec_segmentIntersect e1 e2 (fst edge) (snd edge).
Definition spec_touchCount (e1 e2 : pt) (edges : list (pt * pt)) : nat :=
  length (filter (fun edge => spec_touchesEdge e1 e2 (fst edge) (snd edge)) edges).

Lemma spec_ssi_fold e1 e2 edges : forall blk seen,
  fst (fold_left (spec_ssi_step e1 e2) edges (blk, seen)) =
  blk || existsb (spec_crossesEdge e1 e2) edges
      || (2 <=? spec_touchCount e1 e2 edges + (if seen then 1 else 0))%nat.
Proof.
  induction edges as [|[s1 s2] l IH]; intros blk seen.
  - cbn. destruct blk, seen; reflexivity.
  - cbn [fold_left]. unfold spec_ssi_step at 2. cbn [fst snd]. unfold spec_segmentShapeIntersect.
    unfold spec_touchCount in *. cbn [existsb filter]. unfold spec_crossesEdge at 1. cbn [fst snd].
    destruct (spec_segmentIntersect e1 e2 s1 s2) eqn:Ec.
    + rewrite (spec_cross_touch_exclusive _ _ _ _ Ec). cbn [fst snd]. rewrite IH.
      rewrite orb_true_r. cbn [orb]. rewrite orb_true_r. reflexivity.
    + destruct (spec_touchesEdge e1 e2 s1 s2) eqn:Et; cbn [fst snd length orb]; rewrite IH.
      * destruct seen.
        -- rewrite orb_true_r. cbn [orb]. symmetry. rewrite orb_true_iff. right. apply Nat.leb_le. lia.
        -- rewrite orb_false_r. f_equal. f_equal. lia.
      * rewrite orb_false_r. reflexivity.
Qed.

(* closed form: blocked iff some edge is properly crossed, or at least two edges are touched at an end point *)
Theorem spec_shapeBlocks_closed e1 e2 edges :
  spec_shapeBlocks e1 e2 edges =
  existsb (spec_crossesEdge e1 e2) edges || (2 <=? spec_touchCount e1 e2 edges)%nat.
Proof. unfold spec_shapeBlocks. rewrite spec_ssi_fold. cbn [orb]. rewrite Nat.add_0_r. reflexivity. Qed.

(* stopping at the first blocking edge (as the C++ loops do) gives the same answer *)
Fixpoint spec_shapeBlocks_break (e1 e2 : pt) (edges : list (pt * pt)) (seen : bool) : bool :=
  match edges with
  | [] => false
  | edge :: l => let r := spec_segmentShapeIntersect e1 e2 (fst edge) (snd edge) seen in
                 if fst r then true else spec_shapeBlocks_break e1 e2 l (snd r)
  end.
Lemma spec_ssi_fold_true e1 e2 l seen : fst (fold_left (spec_ssi_step e1 e2) l (true, seen)) = true.
Proof. rewrite spec_ssi_fold. reflexivity. Qed.
Theorem spec_shapeBlocks_break_eq e1 e2 edges : forall seen,
  spec_shapeBlocks_break e1 e2 edges seen = fst (fold_left (spec_ssi_step e1 e2) edges (false, seen)).
Proof.
  induction edges as [|edge l IH]; intros seen; [reflexivity|].
  cbn [spec_shapeBlocks_break fold_left]. unfold spec_ssi_step at 2. cbn [fst snd orb].
  destruct (fst (spec_segmentShapeIntersect e1 e2 (fst edge) (snd edge) seen)).
  - symmetry. apply spec_ssi_fold_true.
  - apply IH.
Qed.

(* non-vacuity on the edges of a square: touching a corner once is allowed; a chord between two corners is blocked
   by two touches; crossing two sides is blocked by a proper crossing; a chord from mid-side to mid-side is blocked
   by two touches.  NOTE the third case: a segment through two opposite corners whose end points lie outside
   crosses no edge *properly* and touches none with an end point, so this test alone does not block it. *)
Example spec_shapeBlocks_ex :
  let sq := [(mkpt 0 0, mkpt 2 0); (mkpt 2 0, mkpt 2 2); (mkpt 2 2, mkpt 0 2); (mkpt 0 2, mkpt 0 0)] in
  spec_shapeBlocks (mkpt 2 2) (mkpt 5 3) sq = false /\ spec_touchCount (mkpt 2 2) (mkpt 5 3) sq = 1%nat /\
  spec_shapeBlocks (mkpt 0 0) (mkpt 2 2) sq = true /\ spec_touchCount (mkpt 0 0) (mkpt 2 2) sq = 2%nat /\
  spec_shapeBlocks (mkpt (-1) (-1)) (mkpt 3 3) sq = false /\ spec_touchCount (mkpt (-1) (-1)) (mkpt 3 3) sq = 0%nat /\
  spec_shapeBlocks (mkpt 1 (-1)) (mkpt 1 3) sq = true /\
  spec_shapeBlocks (mkpt 1 0) (mkpt 1 2) sq = true /\ spec_touchCount (mkpt 1 0) (mkpt 1 2) sq = 2%nat.
Proof. vm_compute. repeat split. Qed.

(* ================================================================================================
   C16 extension (7): manhattanDist, projection *)
Definition spec_manhattanDist (a b : pt) : Q := Qabs (px a - px b) + Qabs (py a - py b).

Definition spec_projection (a b c : pt) : pt :=
  let t := dot a c a b / dot a c a c in mkpt (t * (px c - px a) + px a) (t * (py c - py a) + py a).

Lemma dot_self_pos a c : ~ pt_eq a c -> 0 < dot a c a c.
Proof.
  unfold pt_eq, dot. intros Hne.
  destruct (Qeq_dec (px c - px a) 0) as [E|E], (Qeq_dec (py c - py a) 0) as [E'|E'];
    [exfalso; apply Hne; split; lra | nra | nra | nra].
Qed.

Theorem spec_projection_ok a b c : ~ pt_eq a c ->
  is_foot a c b (spec_projection a b c) /\ forall p, is_foot a c b p -> pt_eq p (spec_projection a b c).
Proof.
  intros Hne. pose proof (dot_self_pos a c Hne) as Hpos.
  unfold is_foot, on_line, spec_projection, pt_eq, lerp. cbv zeta. cbn [px py].
  set (t := dot a c a b / dot a c a c).
  assert (Ht : t * dot a c a c == dot a c a b) by (unfold t; field; lra).
  unfold dot in Ht, Hpos.
  set (ux := px c - px a) in *. set (uy := py c - py a) in *.
  split.
  - split; [exists t; split; ring|].
    assert (E : (px b - (t * ux + px a)) * ux + (py b - (t * uy + py a)) * uy ==
                (ux * (px b - px a) + uy * (py b - py a)) - t * (ux * ux + uy * uy)) by ring.
    rewrite E, Ht. ring.
  - intros p [(s & Ex & Ey) Hperp]. fold ux uy in Ex, Ey.
    assert (Es : s * (ux * ux + uy * uy) == ux * (px b - px a) + uy * (py b - py a)).
    { rewrite Ex, Ey in Hperp. lra. }
    assert (Est : (s - t) * (ux * ux + uy * uy) == 0) by lra.
    apply Qmult_integral in Est. destruct Est as [Est|Est]; [|lra].
    assert (s == t) by lra. rewrite Ex, Ey, H. split; ring.
Qed.

Example spec_projection_ex :
  pt_eq (spec_projection (mkpt 0 0) (mkpt 3 4) (mkpt 2 0)) (mkpt 3 0) /\
  spec_manhattanDist (mkpt 1 5) (mkpt 4 1) == 7.
Proof. vm_compute. repeat split. Qed.

(* ================================================================================================
   C16 extension (6): inPolyGen - the crossing-parity rule, division free, and its meaning for triangles and
   axis-parallel rectangles *)

(* vertex p relative to the query point q *)
Definition ipg_rel (q p : pt) : pt := mkpt (px p - px q) (py p - py q).
(* numerator of the x-intercept of the edge u -> v with the x-axis (u, v relative to q); equals - cross u v q *)
Definition ipg_N (u v : pt) : Q := px v * py u - px u * py v.
(* the edge straddles the x-axis (upper / lower convention) and crosses it right / left of the origin *)
Definition ipg_edgeR (u v : pt) : bool :=
  xorb (Qltb 0 (py v)) (Qltb 0 (py u)) && Qltb 0 (ipg_N u v * (py u - py v)).
Definition ipg_edgeL (u v : pt) : bool :=
  xorb (Qltb (py v) 0) (Qltb (py u) 0) && Qltb (ipg_N u v * (py u - py v)) 0.
Definition ipg_at_origin (p : pt) : bool := Qeqb (px p) 0 && Qeqb (py p) 0.
Definition b2z (b : bool) : Z := if b then 1%Z else 0%Z.
Definition ipg_count (f : pt -> pt -> bool) (P' : list pt) : Z :=
  fold_right (fun i acc => (b2z (f (nth ((i + length P' - 1) mod length P') P' pt0) (nth i P' pt0)) + acc)%Z)
             0%Z (seq 0 (length P')).
Definition ipg_parity (R L : Z) : bool :=
  if negb (Z.eqb (Z.rem R 2) (Z.rem L 2)) then true else Z.eqb (Z.rem R 2) 1.
Definition spec_inPolyGen (P : list pt) (q : pt) : bool :=
  let P' := map (ipg_rel q) P in
  existsb ipg_at_origin P' || ipg_parity (ipg_count ipg_edgeR P') (ipg_count ipg_edgeL P').

Lemma spec_inPolyGen_3 A B C q :
  let a := ipg_rel q A in let b := ipg_rel q B in let c := ipg_rel q C in
  spec_inPolyGen [A; B; C] q =
  (ipg_at_origin a || (ipg_at_origin b || (ipg_at_origin c || false))) ||
  ipg_parity (b2z (ipg_edgeR c a) + (b2z (ipg_edgeR a b) + (b2z (ipg_edgeR b c) + 0)))%Z
             (b2z (ipg_edgeL c a) + (b2z (ipg_edgeL a b) + (b2z (ipg_edgeL b c) + 0)))%Z.
Proof. reflexivity. Qed.

Lemma spec_inPolyGen_4 A B C D q :
  let a := ipg_rel q A in let b := ipg_rel q B in let c := ipg_rel q C in let d := ipg_rel q D in
  spec_inPolyGen [A; B; C; D] q =
  (ipg_at_origin a || (ipg_at_origin b || (ipg_at_origin c || (ipg_at_origin d || false)))) ||
  ipg_parity (b2z (ipg_edgeR d a) + (b2z (ipg_edgeR a b) + (b2z (ipg_edgeR b c) + (b2z (ipg_edgeR c d) + 0))))%Z
             (b2z (ipg_edgeL d a) + (b2z (ipg_edgeL a b) + (b2z (ipg_edgeL b c) + (b2z (ipg_edgeL c d) + 0))))%Z.
Proof. reflexivity. Qed.

(* --- sign algebra *)
Definition S3 : list Z := [(-1)%Z; 0%Z; 1%Z].
Lemma sgnQ_in_S3 x : In (sgnQ x) S3.
Proof. destruct (sgnQ_cases x) as [[-> _]|[[-> _]|[-> _]]]; cbn; tauto. Qed.

Ltac sgn3 x := destruct (sgnQ_cases x) as [[?H ?H]|[[?H ?H]|[?H ?H]]].

Lemma sgnQ_is_pos x : Qltb 0 x = Z.eqb (sgnQ x) 1.
Proof. sgn3 x; rewrite H; cbn; (apply Qltb_spec || apply Qltb_false); lra. Qed.
Lemma sgnQ_is_neg x : Qltb x 0 = Z.eqb (sgnQ x) (-1).
Proof. sgn3 x; rewrite H; cbn; (apply Qltb_spec || apply Qltb_false); lra. Qed.
Lemma sgnQ_is_zero x : Qeqb x 0 = Z.eqb (sgnQ x) 0.
Proof. sgn3 x; rewrite H; cbn; (apply Qeqb_spec || apply Qeqb_false); lra. Qed.
Lemma sgnQ_is_nonneg x : Qleb 0 x = Z.leb 0 (sgnQ x).
Proof. sgn3 x; rewrite H; cbn; (apply Qleb_spec || apply Qleb_false); lra. Qed.
Lemma sgnQ_is_nonpos x : Qleb x 0 = Z.leb (sgnQ x) 0.
Proof. sgn3 x; rewrite H; cbn; (apply Qleb_spec || apply Qleb_false); lra. Qed.

Lemma sgnQ_val_neg x : x < 0 -> sgnQ x = (-1)%Z. Proof. apply sgnQ_neg. Qed.
Lemma sgnQ_val_zero x : x == 0 -> sgnQ x = 0%Z. Proof. apply sgnQ_zero. Qed.
Lemma sgnQ_val_pos x : 0 < x -> sgnQ x = 1%Z. Proof. apply sgnQ_pos. Qed.
Ltac sgn_val := (apply sgnQ_val_neg || apply sgnQ_val_zero || apply sgnQ_val_pos); nra.

Lemma sgnQ_mult x y : sgnQ (x * y) = (sgnQ x * sgnQ y)%Z.
Proof. sgn3 x; sgn3 y; rewrite H, H1; cbn; sgn_val. Qed.
Lemma sgnQ_opp x : sgnQ (- x) = (- sgnQ x)%Z.
Proof. sgn3 x; rewrite H; cbn; sgn_val. Qed.

(* what the signs of two summands say about the sign of their sum *)
Definition sum2_ok (s1 s2 s : Z) : bool :=
  if Z.eqb s1 0 then Z.eqb s s2 else if Z.eqb s2 0 then Z.eqb s s1 else if Z.eqb s1 s2 then Z.eqb s s1 else true.
Lemma sgn_sum2 x y : sum2_ok (sgnQ x) (sgnQ y) (sgnQ (x + y)) = true.
Proof.
  sgn3 x; sgn3 y; rewrite H, H1; cbn; try reflexivity; apply Z.eqb_eq; sgn_val.
Qed.
(* three numbers summing to zero are not all >= 0 with one > 0, nor all <= 0 with one < 0 *)
Definition sum3zero_ok (s1 s2 s3 : Z) : bool :=
  negb (Z.leb 0 s1 && Z.leb 0 s2 && Z.leb 0 s3 && (Z.ltb 0 s1 || Z.ltb 0 s2 || Z.ltb 0 s3)) &&
  negb (Z.leb s1 0 && Z.leb s2 0 && Z.leb s3 0 && (Z.ltb s1 0 || Z.ltb s2 0 || Z.ltb s3 0)).
Lemma sgn_sum3_zero x y z : x + y + z == 0 -> sum3zero_ok (sgnQ x) (sgnQ y) (sgnQ z) = true.
Proof.
  intros E. sgn3 x; sgn3 y; sgn3 z; rewrite H, H1, H3; cbn; try reflexivity; exfalso; lra.
Qed.
Definition lt_ok (s t : Z) : bool := Z.leb s t && negb (Z.eqb s 0 && Z.eqb t 0).
Lemma sgn_lt x y : x < y -> lt_ok (sgnQ x) (sgnQ y) = true.
Proof. intros E. sgn3 x; sgn3 y; rewrite H, H1; cbn; try reflexivity; exfalso; lra. Qed.
(* a strictly negative / positive sum *)
Lemma sgn_sum3_neg x y z : x + y + z < 0 -> (Z.leb 0 (sgnQ x) && Z.leb 0 (sgnQ y) && Z.leb 0 (sgnQ z)) = false.
Proof. intros E. sgn3 x; sgn3 y; sgn3 z; rewrite H, H1, H3; cbn; try reflexivity; exfalso; lra. Qed.
Lemma sgn_sum3_pos x y z : 0 < x + y + z -> (Z.leb (sgnQ x) 0 && Z.leb (sgnQ y) 0 && Z.leb (sgnQ z) 0) = false.
Proof. intros E. sgn3 x; sgn3 y; sgn3 z; rewrite H, H1, H3; cbn; try reflexivity; exfalso; lra. Qed.

(* --- the edge tests on signs: su, sv = signs of the y-coordinates, n = sign of ipg_N *)
Definition abs_edgeR (su sv n : Z) : bool :=
  xorb (Z.eqb sv 1) (Z.eqb su 1) && Z.eqb (n * (if Z.eqb sv 1 then -1 else 1)) 1.
Definition abs_edgeL (su sv n : Z) : bool :=
  xorb (Z.eqb sv (-1)) (Z.eqb su (-1)) && Z.eqb (n * (if Z.eqb sv (-1) then 1 else -1)) (-1).
Definition abs_origin (sx sy : Z) : bool := Z.eqb sx 0 && Z.eqb sy 0.

Lemma ipg_edgeR_abs u v : ipg_edgeR u v = abs_edgeR (sgnQ (py u)) (sgnQ (py v)) (sgnQ (ipg_N u v)).
Proof.
  unfold ipg_edgeR, abs_edgeR. rewrite !sgnQ_is_pos, sgnQ_mult.
  destruct (xorb _ _) eqn:X; [|reflexivity]. cbn [andb]. f_equal. f_equal.
  revert X. sgn3 (py u); sgn3 (py v); rewrite H, H1; cbn; intro X; try discriminate; sgn_val.
Qed.
Lemma ipg_edgeL_abs u v : ipg_edgeL u v = abs_edgeL (sgnQ (py u)) (sgnQ (py v)) (sgnQ (ipg_N u v)).
Proof.
  unfold ipg_edgeL, abs_edgeL. rewrite !sgnQ_is_neg, sgnQ_mult.
  destruct (xorb _ _) eqn:X; [|reflexivity]. cbn [andb]. f_equal. f_equal.
  revert X. sgn3 (py u); sgn3 (py v); rewrite H, H1; cbn; intro X; try discriminate; sgn_val.
Qed.
Lemma ipg_at_origin_abs p : ipg_at_origin p = abs_origin (sgnQ (px p)) (sgnQ (py p)).
Proof. unfold ipg_at_origin, abs_origin. rewrite !sgnQ_is_zero. reflexivity. Qed.

(* local realisability: N = v.x * u.y - u.x * v.y *)
Definition abs_local (sxu syu sxv syv n : Z) : bool := sum2_ok (sxv * syu) (- (sxu * syv)) n.
Lemma ipg_N_local u v :
  abs_local (sgnQ (px u)) (sgnQ (py u)) (sgnQ (px v)) (sgnQ (py v)) (sgnQ (ipg_N u v)) = true.
Proof.
  unfold abs_local, ipg_N. rewrite <- !sgnQ_mult, <- sgnQ_opp.
  assert (E : px v * py u - px u * py v == px v * py u + - (px u * py v)) by ring.
  rewrite E. apply sgn_sum2.
Qed.

(* --- finite sweeps over sign vectors *)
Definition all_S3 (f : Z -> bool) : bool := forallb f S3.
Lemma all_S3_sgn f x : all_S3 f = true -> f (sgnQ x) = true.
Proof. unfold all_S3. rewrite forallb_forall. intros H. apply H, sgnQ_in_S3. Qed.

Lemma Zleb_opp s : Z.leb 0 (- s) = Z.leb s 0.
Proof. apply bool_ext. rewrite !Z.leb_le. lia. Qed.

(* ---------------- triangles *)
Definition tri_abs (sy0 sy1 sy2 sx0 sx1 sx2 nCA nAB nBC : Z) : bool :=
  (abs_origin sx0 sy0 || (abs_origin sx1 sy1 || (abs_origin sx2 sy2 || false))) ||
  ipg_parity (b2z (abs_edgeR sy2 sy0 nCA) + (b2z (abs_edgeR sy0 sy1 nAB) + (b2z (abs_edgeR sy1 sy2 nBC) + 0)))%Z
             (b2z (abs_edgeL sy2 sy0 nCA) + (b2z (abs_edgeL sy0 sy1 nAB) + (b2z (abs_edgeL sy1 sy2 nBC) + 0)))%Z.

Definition tri_check (ccw : bool) (sy0 sy1 sy2 sx0 sx1 sx2 nCA nAB nBC : Z) : bool :=
  implb (abs_local sx2 sy2 sx0 sy0 nCA && abs_local sx0 sy0 sx1 sy1 nAB && abs_local sx1 sy1 sx2 sy2 nBC
         && sum3zero_ok (nBC * sy0) (nCA * sy1) (nAB * sy2)
         && negb (if ccw then Z.leb 0 nCA && Z.leb 0 nAB && Z.leb 0 nBC
                  else Z.leb nCA 0 && Z.leb nAB 0 && Z.leb nBC 0))
        (Bool.eqb (tri_abs sy0 sy1 sy2 sx0 sx1 sx2 nCA nAB nBC)
                  (if ccw then Z.leb nCA 0 && (Z.leb nAB 0 && (Z.leb nBC 0 && true))
                   else Z.leb 0 nCA && (Z.leb 0 nBC && (Z.leb 0 nAB && true)))).
Definition tri_sweep (ccw : bool) : bool :=
  all_S3 (fun sy0 => all_S3 (fun sy1 => all_S3 (fun sy2 => all_S3 (fun sx0 => all_S3 (fun sx1 => all_S3 (fun sx2 =>
  all_S3 (fun nCA => all_S3 (fun nAB => all_S3 (fun nBC => tri_check ccw sy0 sy1 sy2 sx0 sx1 sx2 nCA nAB nBC))))))))).
Lemma tri_sweep_ok : tri_sweep true = true /\ tri_sweep false = true.
Proof. split; vm_compute; reflexivity. Qed.

Lemma ipg_N_bary_y a b c : ipg_N b c * py a + ipg_N c a * py b + ipg_N a b * py c == 0.
Proof. unfold ipg_N. ring. Qed.
Lemma ipg_N_area A B C q :
  ipg_N (ipg_rel q C) (ipg_rel q A) + ipg_N (ipg_rel q A) (ipg_rel q B) + ipg_N (ipg_rel q B) (ipg_rel q C)
  == - cross A B C.
Proof. unfold ipg_N, ipg_rel, cross; cbn [px py]. ring. Qed.
Lemma cross_ipg_N u v q : cross u v q == - ipg_N (ipg_rel q u) (ipg_rel q v).
Proof. unfold ipg_N, ipg_rel, cross; cbn [px py]. ring. Qed.
Lemma cross_ipg_N' u v q : cross v u q == ipg_N (ipg_rel q u) (ipg_rel q v).
Proof. unfold ipg_N, ipg_rel, cross; cbn [px py]. ring. Qed.

Lemma spec_inPolyGen_tri_abs A B C q :
  let a := ipg_rel q A in let b := ipg_rel q B in let c := ipg_rel q C in
  spec_inPolyGen [A; B; C] q =
  tri_abs (sgnQ (py a)) (sgnQ (py b)) (sgnQ (py c)) (sgnQ (px a)) (sgnQ (px b)) (sgnQ (px c))
          (sgnQ (ipg_N c a)) (sgnQ (ipg_N a b)) (sgnQ (ipg_N b c)).
Proof.
  intros a b c. rewrite spec_inPolyGen_3. cbv zeta. fold a b c.
  rewrite !ipg_edgeR_abs, !ipg_edgeL_abs, !ipg_at_origin_abs. reflexivity.
Qed.

Theorem spec_inPolyGen_triangle A B C q : ~ cross A B C == 0 ->
  spec_inPolyGen [A; B; C] q =
  if Qltb 0 (cross A B C) then spec_inPoly [A; B; C] q true else spec_inPoly [C; B; A] q true.
Proof.
  intros Hnd. rewrite spec_inPolyGen_tri_abs. cbv zeta.
  set (a := ipg_rel q A). set (b := ipg_rel q B). set (c := ipg_rel q C).
  pose proof (ipg_N_area A B C q) as Harea. fold a b c in Harea.
  pose proof (sgn_sum3_zero _ _ _ (ipg_N_bary_y a b c)) as Hy. rewrite !sgnQ_mult in Hy.
  pose proof (ipg_N_local c a) as L1. pose proof (ipg_N_local a b) as L2. pose proof (ipg_N_local b c) as L3.
  destruct (Qltb 0 (cross A B C)) eqn:Eo; qb2p.
  - pose proof (proj1 tri_sweep_ok) as H. unfold tri_sweep in H.
    apply (all_S3_sgn _ (py a)) in H. apply (all_S3_sgn _ (py b)) in H. apply (all_S3_sgn _ (py c)) in H.
    apply (all_S3_sgn _ (px a)) in H. apply (all_S3_sgn _ (px b)) in H. apply (all_S3_sgn _ (px c)) in H.
    apply (all_S3_sgn _ (ipg_N c a)) in H. apply (all_S3_sgn _ (ipg_N a b)) in H. apply (all_S3_sgn _ (ipg_N b c)) in H.
    unfold tri_check in H. rewrite L1, L2, L3, Hy in H.
    assert (Hor : (Z.leb 0 (sgnQ (ipg_N c a)) && Z.leb 0 (sgnQ (ipg_N a b)) && Z.leb 0 (sgnQ (ipg_N b c))) = false)
      by (apply sgn_sum3_neg; lra).
    rewrite Hor in H. cbn [andb negb implb] in H. apply eqb_prop in H. rewrite H.
    unfold spec_inPoly. cbn [length seq forallb]. unfold edge_cross. cbn [length Nat.add Nat.sub Nat.modulo Nat.divmod fst snd nth].
    rewrite (cross_ipg_N C A q), (cross_ipg_N A B q), (cross_ipg_N B C q). fold a b c.
    rewrite !sgnQ_is_nonneg, !sgnQ_opp, !Zleb_opp. reflexivity.
  - pose proof (proj2 tri_sweep_ok) as H. unfold tri_sweep in H.
    apply (all_S3_sgn _ (py a)) in H. apply (all_S3_sgn _ (py b)) in H. apply (all_S3_sgn _ (py c)) in H.
    apply (all_S3_sgn _ (px a)) in H. apply (all_S3_sgn _ (px b)) in H. apply (all_S3_sgn _ (px c)) in H.
    apply (all_S3_sgn _ (ipg_N c a)) in H. apply (all_S3_sgn _ (ipg_N a b)) in H. apply (all_S3_sgn _ (ipg_N b c)) in H.
    unfold tri_check in H. rewrite L1, L2, L3, Hy in H.
    assert (Hor : (Z.leb (sgnQ (ipg_N c a)) 0 && Z.leb (sgnQ (ipg_N a b)) 0 && Z.leb (sgnQ (ipg_N b c)) 0) = false)
      by (apply sgn_sum3_pos; lra).
    rewrite Hor in H. cbn [andb negb implb] in H. apply eqb_prop in H. rewrite H.
    unfold spec_inPoly. cbn [length seq forallb]. unfold edge_cross. cbn [length Nat.add Nat.sub Nat.modulo Nat.divmod fst snd nth].
    rewrite (cross_ipg_N' C A q), (cross_ipg_N' B C q), (cross_ipg_N' A B q). fold a b c.
    rewrite !sgnQ_is_nonneg. reflexivity.
Qed.

(* ---------------- axis-parallel rectangles, any of the 8 vertex orders *)
Definition quad_abs (sy0 sy1 sy2 sy3 sx0 sx1 sx2 sx3 n0 n1 n2 n3 : Z) : bool :=
  (abs_origin sx0 sy0 || (abs_origin sx1 sy1 || (abs_origin sx2 sy2 || (abs_origin sx3 sy3 || false)))) ||
  ipg_parity (b2z (abs_edgeR sy3 sy0 n0) + (b2z (abs_edgeR sy0 sy1 n1) + (b2z (abs_edgeR sy1 sy2 n2) + (b2z (abs_edgeR sy2 sy3 n3) + 0))))%Z
             (b2z (abs_edgeL sy3 sy0 n0) + (b2z (abs_edgeL sy0 sy1 n1) + (b2z (abs_edgeL sy1 sy2 n2) + (b2z (abs_edgeL sy2 sy3 n3) + 0))))%Z.

Lemma spec_inPolyGen_quad_abs A B C D q :
  let a := ipg_rel q A in let b := ipg_rel q B in let c := ipg_rel q C in let d := ipg_rel q D in
  spec_inPolyGen [A; B; C; D] q =
  quad_abs (sgnQ (py a)) (sgnQ (py b)) (sgnQ (py c)) (sgnQ (py d)) (sgnQ (px a)) (sgnQ (px b)) (sgnQ (px c)) (sgnQ (px d))
           (sgnQ (ipg_N d a)) (sgnQ (ipg_N a b)) (sgnQ (ipg_N b c)) (sgnQ (ipg_N c d)).
Proof.
  intros a b c d. rewrite spec_inPolyGen_4. cbv zeta. fold a b c d.
  rewrite !ipg_edgeR_abs, !ipg_edgeL_abs, !ipg_at_origin_abs. reflexivity.
Qed.

(* a vertex order: for each vertex, (is it at x1 ?, is it at y1 ?) *)
Definition rect_ccw : list (bool * bool) := [(true, false); (true, true); (false, true); (false, false)].
Definition rot1 {A : Type} (l : list A) : list A := match l with [] => [] | x :: t => t ++ [x] end.
Definition rect_orders : list (list (bool * bool)) :=
  let r0 := rect_ccw in let r1 := rot1 r0 in let r2 := rot1 r1 in let r3 := rot1 r2 in
  [r0; r1; r2; r3; rev r0; rev r1; rev r2; rev r3].
Definition rect_poly (o : list (bool * bool)) (x0 x1 y0 y1 : Q) : list pt :=
  map (fun b : bool * bool => mkpt (if fst b then x1 else x0) (if snd b then y1 else y0)) o.
Definition rect_contains (x0 x1 y0 y1 : Q) (q : pt) : bool :=
  Qleb x0 (px q) && Qleb (px q) x1 && Qleb y0 (py q) && Qleb (py q) y1.

Definition rect_check (o : list (bool * bool)) (sxlo sxhi sylo syhi n0 n1 n2 n3 : Z) : bool :=
  match o with
  | [(bx0, by0); (bx1, by1); (bx2, by2); (bx3, by3)] =>
    let sx0 := if bx0 then sxhi else sxlo in let sy0 := if by0 then syhi else sylo in
    let sx1 := if bx1 then sxhi else sxlo in let sy1 := if by1 then syhi else sylo in
    let sx2 := if bx2 then sxhi else sxlo in let sy2 := if by2 then syhi else sylo in
    let sx3 := if bx3 then sxhi else sxlo in let sy3 := if by3 then syhi else sylo in
    implb (lt_ok sxlo sxhi && lt_ok sylo syhi &&
           abs_local sx3 sy3 sx0 sy0 n0 && abs_local sx0 sy0 sx1 sy1 n1 &&
           abs_local sx1 sy1 sx2 sy2 n2 && abs_local sx2 sy2 sx3 sy3 n3)
          (Bool.eqb (quad_abs sy0 sy1 sy2 sy3 sx0 sx1 sx2 sx3 n0 n1 n2 n3)
                    (Z.leb sxlo 0 && Z.leb 0 sxhi && Z.leb sylo 0 && Z.leb 0 syhi))
  | _ => true
  end.
Definition rect_sweep : bool :=
  forallb (fun o => all_S3 (fun sxlo => all_S3 (fun sxhi => all_S3 (fun sylo => all_S3 (fun syhi =>
  all_S3 (fun n0 => all_S3 (fun n1 => all_S3 (fun n2 => all_S3 (fun n3 =>
    rect_check o sxlo sxhi sylo syhi n0 n1 n2 n3))))))))) rect_orders.
Lemma rect_sweep_ok : rect_sweep = true.
Proof. vm_compute. reflexivity. Qed.

Lemma Qleb_sgn_lo a b : Qleb a b = Z.leb (sgnQ (a - b)) 0.
Proof. sgn3 (a - b); rewrite H; cbn; (apply Qleb_spec || apply Qleb_false); lra. Qed.
Lemma Qleb_sgn_hi a b : Qleb b a = Z.leb 0 (sgnQ (a - b)).
Proof. sgn3 (a - b); rewrite H; cbn; (apply Qleb_spec || apply Qleb_false); lra. Qed.

Theorem spec_inPolyGen_rect x0 x1 y0 y1 o q :
  x0 < x1 -> y0 < y1 -> In o rect_orders ->
  spec_inPolyGen (rect_poly o x0 x1 y0 y1) q = rect_contains x0 x1 y0 y1 q.
Proof.
  intros Hx Hy Ho.
  pose proof rect_sweep_ok as H. unfold rect_sweep in H. rewrite forallb_forall in H. specialize (H o Ho).
  assert (Lx : lt_ok (sgnQ (x0 - px q)) (sgnQ (x1 - px q)) = true) by (apply sgn_lt; lra).
  assert (Ly : lt_ok (sgnQ (y0 - py q)) (sgnQ (y1 - py q)) = true) by (apply sgn_lt; lra).
  unfold rect_contains.
  rewrite (Qleb_sgn_lo x0 (px q)), (Qleb_sgn_hi x1 (px q)), (Qleb_sgn_lo y0 (py q)), (Qleb_sgn_hi y1 (py q)).
  apply (all_S3_sgn _ (x0 - px q)) in H. apply (all_S3_sgn _ (x1 - px q)) in H.
  apply (all_S3_sgn _ (y0 - py q)) in H. apply (all_S3_sgn _ (y1 - py q)) in H.
  unfold rect_orders, rect_ccw in Ho. cbn [rot1 rev app In] in Ho.
  repeat (destruct Ho as [<-|Ho]; [
    unfold rect_poly; cbn [map fst snd]; rewrite spec_inPolyGen_quad_abs; cbv zeta; cbn [ipg_rel px py];
    match goal with |- quad_abs _ _ _ _ _ _ _ _ (sgnQ (ipg_N ?d ?a)) (sgnQ (ipg_N _ ?b)) (sgnQ (ipg_N _ ?c)) _ = _ =>
      apply (all_S3_sgn _ (ipg_N d a)) in H; apply (all_S3_sgn _ (ipg_N a b)) in H;
      apply (all_S3_sgn _ (ipg_N b c)) in H; apply (all_S3_sgn _ (ipg_N c d)) in H;
      pose proof (ipg_N_local d a) as L0; pose proof (ipg_N_local a b) as L1;
      pose proof (ipg_N_local b c) as L2; pose proof (ipg_N_local c d) as L3
    end;
    cbn [ipg_rel px py] in L0, L1, L2, L3;
    lazy beta iota zeta delta [rect_check] in H;
    rewrite Lx, Ly, L0, L1, L2, L3 in H; cbn [andb implb] in H; apply eqb_prop in H; exact H
  |]).
  destruct Ho.
Qed.

(* q equal to a vertex: inside, whatever the polygon *)
Theorem spec_inPolyGen_vertex P q : (exists p, In p P /\ pt_eq p q) -> spec_inPolyGen P q = true.
Proof.
  intros (p & Hin & Ex & Ey). unfold spec_inPolyGen. cbv zeta. apply orb_true_iff. left.
  apply existsb_exists. exists (ipg_rel q p). split; [apply in_map; exact Hin|].
  unfold ipg_at_origin, ipg_rel; cbn [px py]. apply andb_true_iff. split; apply Qeqb_spec; lra.
Qed.

(* closed region of a non-degenerate triangle, for either orientation *)
Definition spec_triangle_region (A B C q : pt) : bool :=
  if Qltb 0 (cross A B C) then spec_inPoly [A; B; C] q true else spec_inPoly [C; B; A] q true.

Example spec_inPolyGen_ex :
  spec_inPolyGen [mkpt 0 0; mkpt 4 0; mkpt 0 4] (mkpt 1 1) = true /\
  spec_inPolyGen [mkpt 0 0; mkpt 4 0; mkpt 0 4] (mkpt 2 2) = true /\
  spec_inPolyGen [mkpt 0 0; mkpt 4 0; mkpt 0 4] (mkpt 3 3) = false /\
  spec_inPolyGen [mkpt 0 4; mkpt 4 0; mkpt 0 0] (mkpt 2 0) = true /\
  spec_inPolyGen (rect_poly (rev (rot1 rect_ccw)) 0 3 0 2) (mkpt 3 1) = true /\
  spec_inPolyGen (rect_poly rect_ccw 0 3 0 2) (mkpt 4 1) = false /\
  In (rev (rot1 rect_ccw)) rect_orders.
Proof. vm_compute. repeat split; auto 10. Qed.

Theorem spec_triangle_region_ok A B C q : ~ cross A B C == 0 ->
  (spec_triangle_region A B C q = true <-> in_closed_triangle A B C q).
Proof.
  intros Hnd. unfold spec_triangle_region, in_closed_triangle.
  assert (E1 : spec_inPoly [A; B; C] q true =
               Qleb 0 (cross C A q) && (Qleb 0 (cross A B q) && (Qleb 0 (cross B C q) && true))) by reflexivity.
  assert (E2 : spec_inPoly [C; B; A] q true =
               Qleb 0 (cross A C q) && (Qleb 0 (cross C B q) && (Qleb 0 (cross B A q) && true))) by reflexivity.
  rewrite E1, E2.
  assert (F1 : cross A C q == - cross C A q) by (unfold cross; ring).
  assert (F2 : cross C B q == - cross B C q) by (unfold cross; ring).
  assert (F3 : cross B A q == - cross A B q) by (unfold cross; ring).
  rewrite F1, F2, F3.
  destruct (Qltb 0 (cross A B C)) eqn:E; qb2p; rewrite !andb_true_iff, !Qleb_spec; split; intro H.
  - left. tauto.
  - destruct H as [H|H]; [tauto|lra].
  - right. repeat split; lra.
  - destruct H as [H|H]; [lra|]. repeat split; lra.
Qed.

Theorem rect_contains_ok x0 x1 y0 y1 q : rect_contains x0 x1 y0 y1 q = true <-> in_closed_rect x0 x1 y0 y1 q.
Proof. unfold rect_contains, in_closed_rect. rewrite !andb_true_iff, !Qleb_spec. tauto. Qed.
