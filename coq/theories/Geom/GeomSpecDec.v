(* Executable (boolean) versions of the declarative specs, with proofs that they decide them.
   Nothing here mentions the generated code, so no change to /repo can break this file; these deciders
   are what is extracted and run against the compiled C++ when a proof about Gen/ breaks (the search). *)
From Adapt Require Import Num.Qaux Geom.GeomSpec.
Local Open Scope Q_scope.

Lemma sgnQ_neg q : sgnQ q = (-1)%Z <-> q < 0.
Proof. unfold sgnQ. repeat qcase; qb2p; split; intros; try discriminate; try lra; auto. Qed.
Lemma sgnQ_pos q : sgnQ q = 1%Z <-> 0 < q.
Proof. unfold sgnQ. repeat qcase; qb2p; split; intros; try discriminate; try lra; auto. Qed.
Lemma sgnQ_zero q : sgnQ q = 0%Z <-> q == 0.
Proof. unfold sgnQ. repeat qcase; qb2p; split; intros; try discriminate; try lra; auto. Qed.
Lemma sgnQ_cases q : (sgnQ q = (-1)%Z /\ q < 0) \/ (sgnQ q = 0%Z /\ q == 0) \/ (sgnQ q = 1%Z /\ 0 < q).
Proof. unfold sgnQ. repeat qcase; qb2p; [left|right;right|right;left]; split; auto; lra. Qed.

Global Instance sgnQ_proper : Proper (Qeq ==> eq) sgnQ.
Proof.
  intros x y E.
  destruct (sgnQ_cases x) as [[H1 H2]|[[H1 H2]|[H1 H2]]];
  destruct (sgnQ_cases y) as [[H3 H4]|[[H3 H4]|[H3 H4]]]; rewrite H1, H3; try reflexivity; lra.
Qed.



Lemma bool_ext (x y : bool) : (x = true <-> y = true) -> x = y.
Proof. destruct x, y; intuition congruence. Qed.

Definition opp_sides (x y : Q) : bool := Z.ltb (sgnQ x * sgnQ y) 0.
Lemma opp_sides_spec x y : opp_sides x y = true <-> x * y < 0.
Proof.
  unfold opp_sides.
  destruct (sgnQ_cases x) as [[H1 H2]|[[H1 H2]|[H1 H2]]];
  destruct (sgnQ_cases y) as [[H3 H4]|[[H3 H4]|[H3 H4]]]; rewrite H1, H3; cbn;
  split; intro H; try discriminate; try reflexivity; try nra.
Qed.

Lemma cross_sound ax ay bx by_ cx cy dx dy :
  let cr := fun ax ay bx by_ cx cy => (bx-ax)*(cy-ay) - (cx-ax)*(by_-ay) in
  cr ax ay bx by_ cx cy * cr ax ay bx by_ dx dy < 0 ->
  cr cx cy dx dy ax ay * cr cx cy dx dy bx by_ < 0 ->
  exists s t, 0 < s /\ s < 1 /\ 0 < t /\ t < 1 /\
     ax + s*(bx-ax) == cx + t*(dx-cx) /\ ay + s*(by_-ay) == cy + t*(dy-cy) /\
     ~ (bx - ax) * (dy - cy) - (by_ - ay) * (dx - cx) == 0.
Proof.
  intros cr H1 H2.
  set (A := cr cx cy dx dy ax ay) in *. set (B := cr cx cy dx dy bx by_) in *.
  set (C := cr ax ay bx by_ cx cy) in *. set (D := cr ax ay bx by_ dx dy) in *.
  assert (HAB: ~ A - B == 0). { intro E. assert (A == B) by lra. nra. }
  assert (HCD: ~ C - D == 0). { intro E. assert (C == D) by lra. nra. }
  exists (A / (A - B)), (C / (C - D)).
  assert (Hs: 0 < A/(A-B) /\ A/(A-B) < 1).
  { destruct (Qlt_le_dec 0 A).
    - assert (B < 0) by nra. split.
      + apply Qlt_shift_div_l; lra.
      + apply Qlt_shift_div_r; lra.
    - assert (A < 0) by (destruct (Qeq_dec A 0); [nra|lra]). assert (0 < B) by nra.
      assert (E: A/(A-B) == (-A)/(B-A)) by (field; lra). rewrite E. split.
      + apply Qlt_shift_div_l; lra.
      + apply Qlt_shift_div_r; lra. }
  assert (Ht: 0 < C/(C-D) /\ C/(C-D) < 1).
  { destruct (Qlt_le_dec 0 C).
    - assert (D < 0) by nra. split.
      + apply Qlt_shift_div_l; lra.
      + apply Qlt_shift_div_r; lra.
    - assert (C < 0) by (destruct (Qeq_dec C 0); [nra|lra]). assert (0 < D) by nra.
      assert (E: C/(C-D) == (-C)/(D-C)) by (field; lra). rewrite E. split.
      + apply Qlt_shift_div_l; lra.
      + apply Qlt_shift_div_r; lra. }
  destruct Hs, Ht. repeat split; try assumption.
  - unfold A, B, C, D, cr in *. field. split; assumption.
  - unfold A, B, C, D, cr in *. field. split; assumption.
  - intro E. apply HAB. unfold A, B, cr. lra.
Qed.

Lemma cross_complete ax ay bx by_ cx cy dx dy s t :
  let cr := fun ax ay bx by_ cx cy => (bx-ax)*(cy-ay) - (cx-ax)*(by_-ay) in
  0 < s -> s < 1 -> 0 < t -> t < 1 ->
  ax + s*(bx-ax) == cx + t*(dx-cx) -> ay + s*(by_-ay) == cy + t*(dy-cy) ->
  ~ (bx - ax) * (dy - cy) - (by_ - ay) * (dx - cx) == 0 ->
  cr ax ay bx by_ cx cy * cr ax ay bx by_ dx dy < 0 /\
  cr cx cy dx dy ax ay * cr cx cy dx dy bx by_ < 0.
Proof.
  intros cr Hs0 Hs1 Ht0 Ht1 Ex Ey Hnp.
  set (den := (bx - ax) * (dy - cy) - (by_ - ay) * (dx - cx)) in *.
  (* cross ab c = t * den ... express each cross product through den *)
  assert (E1 : cr ax ay bx by_ cx cy == - t * den).
  { unfold cr, den.
    assert (cx == ax + s*(bx-ax) - t*(dx-cx)) by lra.
    assert (cy == ay + s*(by_-ay) - t*(dy-cy)) by lra.
    rewrite H at 1. rewrite H0 at 1. ring. }
  assert (E2 : cr ax ay bx by_ dx dy == (1 - t) * den).
  { unfold cr, den.
    assert (Hx : dx - ax == s*(bx-ax) + (1-t)*(dx-cx)) by lra.
    assert (Hy : dy - ay == s*(by_-ay) + (1-t)*(dy-cy)) by lra.
    rewrite Hx, Hy. ring. }
  assert (E3 : cr cx cy dx dy ax ay == s * den).
  { unfold cr, den.
    assert (Hx : ax - cx == t*(dx-cx) - s*(bx-ax)) by lra.
    assert (Hy : ay - cy == t*(dy-cy) - s*(by_-ay)) by lra.
    rewrite Hx, Hy. ring. }
  assert (E4 : cr cx cy dx dy bx by_ == - (1 - s) * den).
  { unfold cr, den.
    assert (Hx : bx - cx == t*(dx-cx) + (1-s)*(bx-ax)) by lra.
    assert (Hy : by_ - cy == t*(dy-cy) + (1-s)*(by_-ay)) by lra.
    rewrite Hx, Hy. ring. }
  rewrite E1, E2, E3, E4.
  assert (Hd : 0 < den * den) by (destruct (Qlt_le_dec 0 den); [nra|]; destruct (Qeq_dec den 0); [tauto|nra]).
  split.
  - assert (- t * den * ((1 - t) * den) == - (t * (1 - t)) * (den * den)) by ring.
    rewrite H. assert (0 < t * (1 - t)) by nra. nra.
  - assert (s * den * (- (1 - s) * den) == - (s * (1 - s)) * (den * den)) by ring.
    rewrite H. assert (0 < s * (1 - s)) by nra. nra.
Qed.


Definition spec_vecDir (a b c : pt) : Z := sgnQ (cross a b c).

Definition spec_segmentIntersect (a b c d : pt) : bool :=
  opp_sides (cross a b c) (cross a b d) && opp_sides (cross c d a) (cross c d b).

Theorem spec_segmentIntersect_ok a b c d :
  spec_segmentIntersect a b c d = true <-> properly_cross a b c d.
Proof.
  unfold spec_segmentIntersect. rewrite andb_true_iff, !opp_sides_spec.
  unfold properly_cross, pt_eq, lerp, cross; cbn [px py].
  split.
  - intros [H1 H2].
    destruct (cross_sound (px a) (py a) (px b) (py b) (px c) (py c) (px d) (py d) H1 H2)
      as (s & t & ? & ? & ? & ? & ? & ? & ?).
    exists s, t. tauto.
  - intros (s & t & Hs0 & Hs1 & Ht0 & Ht1 & [Ex Ey] & Hnp).
    exact (cross_complete (px a) (py a) (px b) (py b) (px c) (py c) (px d) (py d) s t
             Hs0 Hs1 Ht0 Ht1 Ex Ey Hnp).
Qed.

Lemma between_1d a b c : (a < c /\ c < b) \/ (b < c /\ c < a) <->
  exists t, 0 < t /\ t < 1 /\ c == a + t * (b - a) /\ ~ a == b.
Proof.
  split.
  - intros H. assert (Hn : ~ b - a == 0) by (intro; lra).
    exists ((c - a) / (b - a)). destruct H as [[H1 H2]|[H1 H2]].
    + repeat split; try (intro; lra).
      * apply Qlt_shift_div_l; lra.
      * apply Qlt_shift_div_r; lra.
      * field. exact Hn.
    + assert (E : (c - a) / (b - a) == (a - c) / (a - b)) by (field; split; lra). rewrite E.
      repeat split; try (intro; lra).
      * apply Qlt_shift_div_l; lra.
      * apply Qlt_shift_div_r; lra.
      * rewrite <- E. field. exact Hn.
  - intros (t & H0 & H1 & E & Hn).
    destruct (Qlt_le_dec a b); [left | right]; nra.
Qed.

Lemma orb_andb_between a b c :
  (Qltb a c && Qltb c b || Qltb b c && Qltb c a) = true <-> (a < c /\ c < b) \/ (b < c /\ c < a).
Proof. rewrite orb_true_iff, !andb_true_iff, !Qltb_spec. tauto. Qed.


(* ---- strictly_between *)
Definition dot (a b c d : pt) : Q := (px b - px a) * (px d - px c) + (py b - py a) * (py d - py c).

Definition spec_pointOnLine (a b c : pt) : bool :=
  negb (pt_eqb a b) && Qeqb (cross a b c) 0 && Qltb 0 (dot a c a b) && Qltb (dot a c a b) (dot a b a b).

Theorem spec_pointOnLine_ok a b c : spec_pointOnLine a b c = true <-> strictly_between a b c.
Proof.
  unfold spec_pointOnLine, strictly_between.
  rewrite !andb_true_iff, negb_true_iff, <- not_true_iff_false, pt_eqb_spec, Qeqb_spec, !Qltb_spec.
  unfold pt_eq, lerp, cross, dot; cbn [px py].
  set (ux := px b - px a). set (uy := py b - py a).
  split.
  - intros [[[Hne Hc] H0] H1]. split; [exact Hne|].
    assert (Hn : 0 < ux * ux + uy * uy).
    { destruct (Qeq_dec ux 0) as [E|E], (Qeq_dec uy 0) as [E'|E'];
        [exfalso; apply Hne; unfold ux, uy in *; split; lra | nra | nra | nra]. }
    set (t := ((px c - px a) * ux + (py c - py a) * uy) / (ux * ux + uy * uy)).
    exists t.
    assert (Ht : t * (ux * ux + uy * uy) == (px c - px a) * ux + (py c - py a) * uy)
      by (unfold t; field; lra).
    split; [unfold t; apply Qlt_shift_div_l; lra|].
    split; [unfold t; apply Qlt_shift_div_r; lra|].
    fold ux uy.
    assert (Hcx : (px c - px a - t * ux) * (ux * ux + uy * uy) == 0).
    { assert (E : (px c - px a - t * ux) * (ux * ux + uy * uy) ==
                  (px c - px a) * (ux * ux + uy * uy) - ux * (t * (ux * ux + uy * uy))) by ring.
      rewrite E, Ht.
      assert (E2 : (px c - px a) * (ux * ux + uy * uy) - ux * ((px c - px a) * ux + (py c - py a) * uy)
                   == - uy * (ux * (py c - py a) - (px c - px a) * uy)) by ring.
      rewrite E2, Hc. ring. }
    assert (Hcy : (py c - py a - t * uy) * (ux * ux + uy * uy) == 0).
    { assert (E : (py c - py a - t * uy) * (ux * ux + uy * uy) ==
                  (py c - py a) * (ux * ux + uy * uy) - uy * (t * (ux * ux + uy * uy))) by ring.
      rewrite E, Ht.
      assert (E2 : (py c - py a) * (ux * ux + uy * uy) - uy * ((px c - px a) * ux + (py c - py a) * uy)
                   == ux * (ux * (py c - py a) - (px c - px a) * uy)) by ring.
      rewrite E2, Hc. ring. }
    apply Qmult_integral in Hcx. apply Qmult_integral in Hcy.
    split; [destruct Hcx|destruct Hcy]; lra.
  - intros (Hne & t & H0 & H1 & E1 & E2). fold ux uy in E1, E2.
    assert (Hn : 0 < ux * ux + uy * uy).
    { destruct (Qeq_dec ux 0) as [E|E], (Qeq_dec uy 0) as [E'|E'];
        [exfalso; apply Hne; unfold ux, uy in *; split; lra | nra | nra | nra]. }
    assert (Ex : px c - px a == t * ux) by lra.
    assert (Ey : py c - py a == t * uy) by lra.
    repeat split; try assumption.
    + rewrite Ey, Ex. ring.
    + rewrite Ex, Ey. nra.
    + rewrite Ex, Ey. nra.
Qed.

(* ---- convex polygon membership, index based: the i-th edge runs from P[(i+n-1) mod n] to P[i] *)
Definition edge_cross (P : list pt) (q : pt) (i : nat) : Q :=
  let n := length P in cross (nth ((i + n - 1) mod n) P pt0) (nth i P pt0) q.

Definition spec_inPoly (P : list pt) (q : pt) (countBorder : bool) : bool :=
  forallb (fun i => if countBorder then Qleb 0 (edge_cross P q i) else Qltb 0 (edge_cross P q i))
          (seq 0 (length P)).

Theorem spec_inPoly_ok P q cb :
  spec_inPoly P q cb = true <->
  forall i, (i < length P)%nat ->
            if cb then 0 <= edge_cross P q i else 0 < edge_cross P q i.
Proof.
  unfold spec_inPoly. rewrite forallb_forall. split.
  - intros H i Hi. specialize (H i). rewrite in_seq in H. specialize (H ltac:(lia)).
    destruct cb; [apply Qleb_spec | apply Qltb_spec]; exact H.
  - intros H i Hi. rewrite in_seq in Hi. specialize (H i ltac:(lia)).
    destruct cb; [apply Qleb_spec | apply Qltb_spec]; exact H.
Qed.
