(* C06: the model's routes depend only on the final scene; the selective-reroute estimate is a lower bound. *)
From Adapt Require Import Num.Qaux Avoid.SegPolyModel Avoid.CertDijkstraModel Avoid.RefRouterModel
     Avoid.ActionQueueModel Avoid.ActionQueue.

(* the polygons of a scene in the order of a given enumeration of ids (what the reference router is run on) *)
Definition canonical (sc : list (Z * poly)) (ids : list Z) : list (list pt) :=
  flat_map (fun i => match lookup sc i with Some P => [P] | None => [] end) ids.

Lemma canonical_ext sc1 sc2 ids : (forall i, lookup sc1 i = lookup sc2 i) -> canonical sc1 ids = canonical sc2 ids.
Proof.
  intro H. unfold canonical. induction ids as [|i r IH]; [reflexivity|]. cbn [flat_map]. rewrite H, IH. reflexivity.
Qed.

(* routes of the model after a history = reference router on the final scene.  Two legal histories (with or without
   transactions) whose edits, applied one at a time, give the same shapes, lead to the same model routes - in particular
   a history and the from-scratch history "add every shape of the final scene". *)
Theorem C06_model_history_independent t1 t2 h1 h2 st1 st2 :
  run (init t1) h1 = Some st1 -> run (init t2) h2 = Some st2 -> queue st1 = [] -> queue st2 = [] ->
  (forall i, lookup (s_shapes (seq_run h1)) i = lookup (s_shapes (seq_run h2)) i) ->
  forall ids s d pen,
    route_plain (canonical (scene st1) ids) s d = route_plain (canonical (scene st2) ids) s d /\
    route_taut pen (canonical (scene st1) ids) s d = route_taut pen (canonical (scene st2) ids) s d.
Proof.
  intros R1 R2 Q1 Q2 E ids s d pen.
  assert (C : canonical (scene st1) ids = canonical (scene st2) ids).
  { apply canonical_ext. intro i.
    rewrite (queue_refines_sequential t1 h1 st1 R1 Q1 i), (queue_refines_sequential t2 h2 st2 R2 Q2 i). apply E. }
  rewrite C. split; reflexivity.
Qed.

(* non-vacuity: the example history of ActionQueue.v against the from-scratch history of its final scene *)
Example history_vs_scratch :
  let scratch := [AddShape 1 (translate (ex_sq 0 0) 7 7); Process] in
  forall i, lookup (s_shapes (seq_run ex_hist)) i = lookup (s_shapes (seq_run scratch)) i.
Proof.
  cbn zeta. intro i. vm_compute seq_run.
  cbn [s_shapes lookup]. destruct (1 =? i)%Z; reflexivity.
Qed.

(* ---------------------------------------------------------------- the reflection estimate *)
Local Open Scope Q_scope.

Lemma sqn a : 0 <= a * a.
Proof. destruct (Qlt_le_dec a 0); nra. Qed.

(* Minkowski: every path start -> (x, 0) -> end that touches the edge's line at x is at least as long as the straight
   segment from the mirrored start to the end.  Stated without square roots: L1, L2 are any upper bounds of the two
   leg lengths (in particular the lengths themselves).  It holds for every sign of b, d; it is the useful bound when start
   and end lie on the same side (b d >= 0), where the code's x* realises it (reflect_point_tight). *)
Theorem reflect_lower_bound a b c d x L1 L2 :
  0 <= L1 -> 0 <= L2 ->
  (x - a) * (x - a) + b * b <= L1 * L1 -> (x - c) * (x - c) + d * d <= L2 * L2 ->
  reflect_est_sq a b c d <= (L1 + L2) * (L1 + L2).
Proof.
  intros H1 H2 A1 A2. unfold reflect_est_sq.
  set (ux := x - a) in *. set (vx := c - x).
  assert (Ev : (x - c) * (x - c) == vx * vx) by (unfold vx; ring). rewrite Ev in A2.
  set (X := ux * ux + b * b) in *. set (Y := vx * vx + d * d) in *. set (W := ux * vx + b * d).
  assert (E : (c - a) * (c - a) + (b + d) * (b + d) == X + Y + 2 * W) by (unfold X, Y, W, ux, vx; ring).
  rewrite E.
  assert (CS : W * W <= X * Y).
  { assert (E2 : X * Y - W * W == (ux * d - b * vx) * (ux * d - b * vx)) by (unfold X, Y, W; ring).
    pose proof (sqn (ux * d - b * vx)). lra. }
  assert (HX : 0 <= X) by (unfold X; pose proof (sqn ux); pose proof (sqn b); lra).
  assert (HY : 0 <= Y) by (unfold Y; pose proof (sqn vx); pose proof (sqn d); lra).
  assert (HXY : X * Y <= (L1 * L2) * (L1 * L2)).
  { assert (X * Y <= X * (L2 * L2)).
    { assert (E3 : X * (L2 * L2) - X * Y == X * (L2 * L2 - Y)) by ring.
      assert (0 <= X * (L2 * L2 - Y)) by (apply Qmult_le_0_compat; lra). lra. }
    assert (X * (L2 * L2) <= L1 * L1 * (L2 * L2)).
    { assert (E3 : L1 * L1 * (L2 * L2) - X * (L2 * L2) == (L1 * L1 - X) * (L2 * L2)) by ring.
      assert (0 <= (L1 * L1 - X) * (L2 * L2)) by (apply Qmult_le_0_compat; [lra|apply sqn]). lra. }
    assert (L1 * L1 * (L2 * L2) == (L1 * L2) * (L1 * L2)) by ring. lra. }
  assert (HL : 0 <= L1 * L2) by (apply Qmult_le_0_compat; assumption).
  assert (HW : W <= L1 * L2).
  { destruct (Qlt_le_dec (L1 * L2) W); [|assumption].
    assert ((L1 * L2) * (L1 * L2) < W * W).
    { assert (E3 : W * W - (L1 * L2) * (L1 * L2) == (W - L1 * L2) * (W + L1 * L2)) by ring.
      assert (0 < (W - L1 * L2) * (W + L1 * L2)) by (apply Qmult_lt_0_compat; lra). lra. }
    lra. }
  assert ((L1 + L2) * (L1 + L2) == L1 * L1 + L2 * L2 + 2 * (L1 * L2)) by ring. lra.
Qed.

(* ... and the bound is attained at the code's x* = (b c + a d) / (b + d): the two legs through (x*, 0) are the
   fractions b/(b+d) and d/(b+d) of that straight segment *)
Theorem reflect_point_tight a b c d :
  ~ b + d == 0 ->
  let x := reflect_x a b c d in
  ((x - a) * (x - a) + b * b) * ((b + d) * (b + d)) == (b * b) * reflect_est_sq a b c d /\
  ((x - c) * (x - c) + d * d) * ((b + d) * (b + d)) == (d * d) * reflect_est_sq a b c d.
Proof. intro H. cbn zeta. unfold reflect_x, reflect_est_sq. split; field; exact H. Qed.

(* the reflection point of two points on the same side lies between their abscissae, so clamping to the edge only
   happens when the straight reflected path misses the edge *)
Theorem reflect_x_between a b c d : 0 < b -> 0 < d -> a <= c -> a <= reflect_x a b c d /\ reflect_x a b c d <= c.
Proof.
  intros Hb Hd Hac. unfold reflect_x. split.
  - apply Qle_shift_div_l; [lra|]. nra.
  - apply Qle_shift_div_r; [lra|]. nra.
Qed.

Example reflect_example : reflect_x 0 3 8 1 == 6 /\ reflect_est_sq 0 3 8 1 == 80.
Proof. split; vm_compute; reflexivity. Qed.
