(* Executable Gallina model of the per-region part of libavoid's orthogonal nudging
   (cola/libavoid/orthogonal.cpp: NudgingShiftSegment::createSolverVariable :183-233,
   ImproveOrthogonalRoutes::nudgeOrthogonalRoutes :2597-3129, PotentialSegmentConstraint :2461-2506,
   NudgingShiftSegment::updatePositionsFromSolver :235-265; constants :54-62, scanline.h:37).
   NO PROOFS in this file (DESIGN 3.3).

   A region = the ordered list of segments one VPSC problem handles (after linesort) + the four relations
   the generator consults for every ordered pair (curr, prev), taken as DATA (hook H1 dumps them):
   overlapsWith, shouldAlignWith, canAlignWith, membership of the connector pair in
   m_shared_path_connectors_with_common_endpoints.  Not modelled (inputs): region grouping, PtOrderMap /
   linesort ordering, buildOrthogonalChannelInfo limits.

   Object graph -> indices: Variable* = index into vs; Constraint* = index into cs; the std::list of
   unsatisfied ranges = list of (first, second) with front = head.  The VPSC solver is a parameter
   (solver k vs cs flags = positions and `unsatisfiable` flags after the k-th IncSolver(vs,cs).solve() of the region,
   given the flags the Constraint objects carried in), so the
   same loop runs against (i) the dumped positions of the real solver, (ii) the VpscModel of C01.
   COLA_ASSERTs are explicit results (NAssert tag); the loop takes fuel and returns NFuel when it runs out. *)
From Coq Require Import QArith List Bool Arith ZArith Lia.
From Adapt Require Import Num.Qaux Vpsc.VpscSpec.
Import ListNotations.
Local Open Scope Q_scope.

(* orthogonal.cpp:54-62 *)
Definition freeSegmentID : Z := 0.
Definition fixedSegmentID : Z := 1.
Definition channelLeftID : Z := 2.
Definition channelRightID : Z := 3.
(* the binary64 values of the literals 0.00001, 0.001, 0.0001 (exact, as cpp2v would translate them) *)
Definition freeWeight : Q := 5902958103587057 # 590295810358705651712.
Definition strongWeight : Q := 1152921504606847 # 1152921504606846976.
Definition strongerWeight : Q := 1.
Definition fixedWeight : Q := 100000.
Definition CHANNEL_MAX : Q := 100000000.        (* scanline.h:37 *)
Definition SAT_TOL : Q := 7378697629483821 # 73786976294838206464.            (* 0.0001 in the `satisfied` scan and in the loop condition *)
Definition reductionSteps : Q := 10.

Record seg := mkseg {
  sconn : Z;          (* connRef->id() *)
  spos : Q;           (* lowPoint()[dimension] *)
  sfixed : bool; sfinal : bool; sendsInShape : bool;
  scp : bool;         (* checkpoints.size() > 0 *)
  ssingle : bool;     (* singleConnectedSegment *)
  szigzag : bool;     (* sBend || zBend *)
  smin : Q; smax : Q; (* minSpaceLimit, maxSpaceLimit *)
  slo : Q; shi : Q;   (* extent in the other dimension: lowPoint()[altDim], highPoint()[altDim] *)
  ssbend : bool; szbend : bool;   (* sBend, zBend (hook H1b; szigzag = ssbend || szbend) *)
  scpa : list Q       (* checkpoints[k][altDim] of the segment's own checkpoints (hook H1b; scp = non-empty) *)
}.
Definition dseg : seg := mkseg 0 0 true false false false false false 0 0 0 0 false false [].

Record rel := mkrel { r_ov : bool; r_sa : bool; r_ca : bool; r_sh : bool }.
Definition drel : rel := mkrel false false false false.

Record region := mkregion {
  runify : bool;       (* justUnifying *)
  rbase : Q;           (* baseSepDist = idealNudgingDistance *)
  rnfs : bool;         (* nudgeOrthogonalSegmentsConnectedToShapes *)
  rnsp : bool;         (* nudgeSharedPathsWithCommonEndPoint *)
  rsegs : list seg;    (* processing order *)
  rrel : list (list rel)   (* rrel[i][j], j < i : relations of (curr = i, prev = j) *)
}.
Definition rel_of (R : region) (i j : nat) : rel := nth j (nth i (rrel R) []) drel.

Record nvar := mknv { vid : Z; vdes : Q; vwt : Q }.
Definition dnv : nvar := mknv 0 0 1.
Definition tovar (v : nvar) : var := mkvar (vdes v) (vwt v) 1.

Inductive nres (A : Type) : Type := NOk (a : A) | NAssert (tag : nat) | NFuel.
Arguments NOk {A} a.
Arguments NAssert {A} tag.
Arguments NFuel {A}.
(* assertion tags (all in orthogonal.cpp):
   1  COLA_ASSERT(i > 0)                                  :2924
   2  COLA_ASSERT(vs[i - 1]->id == channelLeftID)         :2925
   3  COLA_ASSERT(unsatisfiedRanges.size() > 0)           :3032
   4  COLA_ASSERT(vs[it->first]->id != freeSegmentID)     :3040
   5  COLA_ASSERT(vs[it->second]->id != freeSegmentID)    :3041
   6  COLA_ASSERT(potentialConstraints.size() > 0)        :2975
   7  COLA_ASSERT(pc.index1 != pc.index2)                 :3021
   8  COLA_ASSERT(minSpaceLimit > -CHANNEL_MAX)           :212
   9  COLA_ASSERT(maxSpaceLimit < CHANNEL_MAX)            :213
   10 COLA_ASSERT(baseSepDist >= 0)                       :2605
   11 (no assertion in the code) vs[it->second] read with it->second == vs.size(): out-of-bounds read at :3041 / :3076 *)

(* ------------------------------------------------------------------ createSolverVariable *)
Definition create_var (nfs unify : bool) (s : seg) : nvar :=
  if nfs && sfinal s then
    mknv freeSegmentID (spos s) (if ssingle s && negb unify then strongerWeight else strongWeight)
  else if scp s then mknv freeSegmentID (spos s) strongWeight
  else if szigzag s then mknv freeSegmentID (Qred (smin s + (smax s - smin s) / 2)) freeWeight
  else if sfixed s then mknv fixedSegmentID (spos s) fixedWeight
  else if negb (sfinal s) then mknv freeSegmentID (spos s) strongWeight
  else mknv freeSegmentID (spos s) freeWeight.

(* the two assertions of the zigzag branch *)
Definition create_var_pre (nfs : bool) (s : seg) : option nat :=
  if nfs && sfinal s then None
  else if scp s then None
  else if szigzag s then
    if negb (Qltb (- CHANNEL_MAX) (smin s)) then Some 8%nat
    else if negb (Qltb (smax s) CHANNEL_MAX) then Some 9%nat else None
  else None.

(* ------------------------------------------------------------------ generator (:2689-2855) *)
Record gst := mkgst {
  gvs : list nvar;
  gcs : list con;
  ggap : list nat;                   (* gapcs, as indices into gcs *)
  gprev : list (nat * nat * bool);   (* prevVars: (segment index, variable index, fixed) in processing order *)
  gfree : list nat                   (* freeIndexes *)
}.
Definition gst0 : gst := mkgst [] [] [] [] [].

Definition pair_con (R : region) (i : nat) (s : seg) (index : nat)
           (acc : list con * list nat) (pj : nat * nat * bool) : list con * list nat :=
  let '(j, vj, fj) := pj in
  let r := rel_of R i j in
  if r_ov r && (negb (sfixed s) || negb fj) then
    let '(g, e) := if r_sa r then (0, true)
                   else if r_ca r then (0, false)
                   else if negb (rnsp R) && r_sh r then (0, true)
                   else (rbase R, false) in
    (fst acc ++ [mkcon vj index g e],
     if negb (Qeqb g 0) then snd acc ++ [length (fst acc)] else snd acc)
  else acc.

Definition gen_seg (R : region) (st : gst) (is : nat * seg) : gst :=
  let '(i, s) := is in
  let v := create_var (rnfs R) (runify R) s in
  let index := length (gvs st) in
  let vs1 := gvs st ++ [v] in
  if runify R then
    mkgst vs1 (gcs st) (ggap st) (gprev st ++ [(i, index, sfixed s)])
          (if Qeqb (vwt v) freeWeight then gfree st ++ [index] else gfree st)
  else
    let hasL := negb (sfixed s) && Qltb (- CHANNEL_MAX) (smin s) in
    let hasR := negb (sfixed s) && Qltb (smax s) CHANNEL_MAX in
    let vs2 := if hasL then vs1 ++ [mknv channelLeftID (smin s) fixedWeight] else vs1 in
    let cs2 := if hasL then gcs st ++ [mkcon (length vs1) index 0 false] else gcs st in
    let '(cs3, gap3) := fold_left (pair_con R i s index) (gprev st) (cs2, ggap st) in
    let vs4 := if hasR then vs2 ++ [mknv channelRightID (smax s) fixedWeight] else vs2 in
    let cs4 := if hasR then cs3 ++ [mkcon index (length vs2) 0 false] else cs3 in
    mkgst vs4 cs4 gap3 (gprev st ++ [(i, index, sfixed s)]) (gfree st).

Definition indexed {A} (l : list A) : list (nat * A) := combine (seq 0 (length l)) l.

Definition gen (R : region) : gst := fold_left (gen_seg R) (indexed (rsegs R)) gst0.

(* first failing createSolverVariable assertion, if any *)
Definition gen_pre (R : region) : option nat :=
  if Qltb (rbase R) 0 then Some 10%nat
  else fold_left (fun acc s => match acc with Some t => Some t | None => create_var_pre (rnfs R) s end) (rsegs R) None.

(* potentialConstraints: every pair (curr, curr2) of freeIndexes with curr before curr2 (:2839-2855) *)
Fixpoint pot_pairs (l : list nat) : list (nat * nat) :=
  match l with
  | [] => []
  | a :: t => map (fun b => (a, b)) t ++ pot_pairs t
  end.
Definition gen_pot (R : region) : list (nat * nat) :=
  if runify R then pot_pairs (gfree (gen R)) else [].

(* ------------------------------------------------------------------ the `satisfied` scan (:2881-2954) *)
Fixpoint set_last_snd (rg : list (nat * nat)) (i : nat) : list (nat * nat) :=
  match rg with
  | [] => []
  | [(a, _)] => [(a, i)]
  | p :: t => p :: set_last_snd t i
  end.

Definition off_desired (v : nvar) (x : Q) : bool :=
  negb (Z.eqb (vid v) freeSegmentID) && Qltb SAT_TOL (Qabs' (x - vdes v)).

Fixpoint scan (vs : list nvar) (xs : list Q) (i : nat) (rest : list nvar) (sat : bool) (rg : list (nat * nat))
  : nres (bool * list (nat * nat)) :=
  match rest with
  | [] => NOk (sat, rg)
  | v :: tl =>
      if off_desired v (nth i xs 0) then
        if Z.eqb (vid v) channelLeftID then
          let start := match rg with
                       | [] => true
                       | _ => let '(a, b) := last rg (O, O) in negb (Nat.eqb a b)
                       end in
          scan vs xs (S i) tl false (if start then rg ++ [(i, S i)] else rg)
        else if Z.eqb (vid v) channelRightID then
          match rg with
          | [] => match i with
                  | O => NAssert 1
                  | S p => if Z.eqb (vid (nth p vs dnv)) channelLeftID then scan vs xs (S i) tl false [(p, i)]
                           else NAssert 2
                  end
          | _ => scan vs xs (S i) tl false (set_last_snd rg i)
          end
        else if Z.eqb (vid v) fixedSegmentID then
          match rg with
          | [] => scan vs xs (S i) tl false [(i, i)]
          | _ => scan vs xs (S i) tl false (set_last_snd rg i)
          end
        else scan vs xs (S i) tl false rg
      else scan vs xs (S i) tl sat rg
  end.

(* ------------------------------------------------------------------ nudging branch (:3030-3088) *)
Definition range_assert (vs : list nvar) (rg : list (nat * nat)) : option nat :=
  fold_left (fun acc (r : nat * nat) =>
    match acc with
    | Some t => Some t
    | None => if Z.eqb (vid (nth (fst r) vs dnv)) freeSegmentID then Some 4%nat
              else if Nat.leb (length vs) (snd r) then Some 11%nat
              else if Z.eqb (vid (nth (snd r) vs dnv)) freeSegmentID then Some 5%nat
              else None
    end) rg None.

Definition set_gap (c : con) (g : Q) : con := mkcon (cl c) (cr c) g (ceq c).

Fixpoint rewrite_gaps (sep : Q) (cs : list con) (inside : bool) (rg : list (nat * nat))
  : list con * list (nat * nat) :=
  match cs with
  | [] => ([], rg)
  | c :: tl =>
      match rg with
      | [] => (c :: tl, [])                       (* break: no more unsatisfied ranges *)
      | (a, b) :: rgt =>
          let w := inside || Nat.eqb (cl c) a in
          let c' := if w && Qltb 0 (gap c) then set_gap c sep else c in
          if Nat.eqb (cr c) b
          then let '(r, rg') := rewrite_gaps sep tl false rgt in (c' :: r, rg')
          else let '(r, rg') := rewrite_gaps sep tl w rg in (c' :: r, rg')
      end
  end.

(* ------------------------------------------------------------------ unifying branch (:2963-3027) *)
Definition pot_key (xs : list Q) (p : nat * nat) : Q :=
  if Nat.eqb (fst p) (snd p) then 0 else Qabs' (nth (fst p) xs 0 - nth (snd p) xs 0).

Fixpoint pot_insert (xs : list Q) (p : nat * nat) (l : list (nat * nat)) : list (nat * nat) :=
  match l with
  | [] => [p]
  | q :: t => if Qltb (pot_key xs q) (pot_key xs p) then q :: pot_insert xs p t else p :: q :: t
  end.
(* std::list::sort is stable; a stable sort by a strict weak order has one result *)
Definition pot_sort (xs : list Q) (l : list (nat * nat)) : list (nat * nat) := fold_right (pot_insert xs) [] l.

Definition rewrite_idx (old new : nat) (p : nat * nat) : nat * nat :=
  (if Nat.eqb (fst p) old then new else fst p, if Nat.eqb (snd p) old then new else snd p).

(* the loop `for it in potentialConstraints: it->rewriteIndex(pc.index1, pc.index2)` where pc is a REFERENCE to the
   front element: the front is rewritten first, after which pc.index1 == pc.index2 and the remaining calls are no-ops *)
Definition rewrite_all (pot : list (nat * nat)) : list (nat * nat) :=
  match pot with
  | [] => []
  | pc :: t =>
      let pc' := rewrite_idx (fst pc) (snd pc) pc in
      pc' :: map (rewrite_idx (fst pc') (snd pc')) t
  end.

Fixpoint drop_invalid (pot : list (nat * nat)) : list (nat * nat) :=
  match pot with
  | p :: t => if Nat.eqb (fst p) (snd p) then drop_invalid t else pot
  | [] => []
  end.

Record lst := mklst {
  lsep : Q;
  lcs : list con;
  lrg : list (nat * nat);      (* unsatisfiedRanges (declared outside the do-loop: persists) *)
  lpot : list (nat * nat);
  ljust : bool;                (* justAddedConstraint *)
  lfl : list bool              (* Constraint::unsatisfiable of every constraint: the Constraint objects outlive the
                                  IncSolver of one iteration and vpsc.cpp never resets the flag *)
}.

Definition unify_step (xs : list Q) (sat : bool) (st : lst) : nres (bool * lst) :=
  let r1 := if ljust st then
              match lpot st with
              | [] => NAssert 6
              | _ :: pt => if negb sat then NOk (pt, removelast (lcs st), removelast (lfl st))
                           else NOk (tl (rewrite_all (lpot st)), lcs st, lfl st)
              end
            else NOk (lpot st, lcs st, lfl st) in
  match r1 with
  | NOk (pot1, cs1, fl1) =>
      let pot2 := drop_invalid (pot_sort xs pot1) in
      match pot2 with
      | [] => NOk (sat, mklst (lsep st) cs1 (lrg st) pot2 false fl1)
      | pc :: _ =>
          if Nat.eqb (fst pc) (snd pc) then NAssert 7
          else NOk (false, mklst (lsep st) (cs1 ++ [mkcon (fst pc) (snd pc) 0 true]) (lrg st) pot2 true (fl1 ++ [false]))
      end
  | NAssert t => NAssert t
  | NFuel => NFuel
  end.

Definition nudge_step (base : Q) (vs : list nvar) (sat : bool) (st : lst) : nres (bool * lst) :=
  if sat then NOk (true, st)
  else match lrg st with
       | [] => NAssert 3
       | _ =>
           let sep := Qred (lsep st - base / reductionSteps) in
           match range_assert vs (lrg st) with
           | Some t => NAssert t
           | None => let '(cs', rg') := rewrite_gaps sep (lcs st) false (lrg st) in
                     NOk (false, mklst sep cs' rg' (lpot st) (ljust st) (lfl st))
           end
       end.

(* ------------------------------------------------------------------ the do/while loop (:2875-3091) *)
Section Loop.
  Variable solver : nat -> list nvar -> list con -> list bool -> list Q * list bool.
  Variable unify : bool.
  Variable base : Q.
  Variable vs : list nvar.

  (* result: satisfied, final state, positions and flags of the LAST solve, number of solves *)
  Fixpoint loop (fuel k : nat) (st : lst) : nres (bool * lst * (list Q * list bool) * nat) :=
    match fuel with
    | O => NFuel
    | S f =>
        let xf := solver k vs (lcs st) (lfl st) in
        match scan vs (fst xf) O vs true (lrg st) with
        | NOk (sat, rg) =>
            let st1 := mklst (lsep st) (lcs st) rg (lpot st) (ljust st) (snd xf) in
            match (if unify then unify_step (fst xf) sat st1 else nudge_step base vs sat st1) with
            | NOk (sat', st') =>
                if negb sat' && Qltb SAT_TOL (lsep st') then loop f (S k) st'
                else NOk (sat', st', xf, S k)
            | NAssert t => NAssert t
            | NFuel => NFuel
            end
        | NAssert t => NAssert t
        | NFuel => NFuel
        end
    end.
End Loop.

(* ------------------------------------------------------------------ write-back (:3093-3106, :235-265) *)
Definition seg_var (g : gst) (i : nat) : nat :=
  match nth_error (gprev g) i with Some (_, v, _) => v | None => O end.

Definition new_pos (s : seg) (x : Q) : Q :=
  if sfixed s then spos s else Qmin' (Qmax' x (smin s)) (smax s).

Definition written (R : region) (g : gst) (xs : list Q) : list Q :=
  map (fun is : nat * seg => new_pos (snd is) (nth (seg_var g (fst is)) xs 0)) (indexed (rsegs R)).

Record outcome := mkout {
  o_sat : bool;
  o_sep : Q;
  o_cs : list con;        (* constraints with their final gaps *)
  o_xs : list Q;          (* positions of the last solve *)
  o_flags : list bool;    (* `unsatisfiable` flags of the last solve *)
  o_solves : nat;
  o_pos : list Q          (* lowPoint()[dimension] of every segment after the region is done *)
}.

Definition loop_fuel (R : region) : nat := (12 + length (gen_pot R))%nat.

Definition nudge_region (solver : nat -> list nvar -> list con -> list bool -> list Q * list bool) (fuel : nat) (R : region)
  : nres outcome :=
  match gen_pre R with
  | Some t => NAssert t
  | None =>
      let g := gen R in
      match loop solver (runify R) (rbase R) (gvs g) fuel O (mklst (rbase R) (gcs g) [] (gen_pot R) false (repeat false (length (gcs g)))) with
      | NOk (sat, st, xf, k) =>
          NOk (mkout sat (lsep st) (lcs st) (fst xf) (snd xf) k
                     (if sat then written R g (fst xf) else map spos (rsegs R)))
      | NAssert t => NAssert t
      | NFuel => NFuel
      end
  end.

(* write-back at the level of route points: a segment owns the points `idx` of its connector's display route and
   only their coordinate in the nudging dimension is assigned *)
Definition set_coord (dim : bool) (p : pt) (v : Q) : pt := if dim then mkpt (px p) v else mkpt v (py p).
Definition write_points (dim : bool) (route : list pt) (idx : list nat) (v : Q) : list pt :=
  fold_left (fun r i => match nth_error r i with Some p => upd_nth r i (set_coord dim p v) | None => r end) idx route.

(* ------------------------------------------------------------------ region checker on real (dumped) data *)
(* run on every dumped region: vs, final cs, last positions xs, the segments, the positions after the region *)
Definition TOL10 : Q := 1 # 10000000000.

Definition con_ok (tol : Q) (xs : list Q) (c : con) : bool :=
  let sl := nth (cr c) xs 0 - gap c - nth (cl c) xs 0 in
  Qleb (- tol) sl && (negb (ceq c) || Qleb sl tol).

Definition gap_ok (base sep : Q) (c : con) : bool :=
  Qeqb (gap c) 0 || (Qleb sep (gap c) && Qleb (gap c) base).

Definition var_ok (v : nvar) (x : Q) : bool := negb (off_desired v x).

Definition seg_written_ok (unify : bool) (tol : Q) (s : seg) (x w : Q) : bool :=
  if sfixed s then Qeqb w (spos s)
  else Qeqb w (Qmin' (Qmax' x (smin s)) (smax s)) &&
       (negb (Qleb (smin s) (smax s)) || (Qleb (smin s) w && Qleb w (smax s))) &&
       (unify || Qleb (Qabs' (w - x)) (SAT_TOL + tol)).
       (* nudging stage: the clamp moved it by no more than the channel variables may be off; the unifying stage has no
          channel constraints and relies on the clamp *)

Definition nudge_region_ok (tol : Q) (R : region) (g : gst) (sat : bool) (sep : Q) (cs : list con) (xs : list Q)
           (pos : list Q) : bool :=
  if sat then
    Nat.eqb (length xs) (length (gvs g)) &&
    Nat.eqb (length pos) (length (rsegs R)) &&
    forallb (fun c => Nat.ltb (cl c) (length xs) && Nat.ltb (cr c) (length xs)) cs &&
    forallb (con_ok tol xs) cs &&
    forallb (gap_ok (rbase R) sep) cs &&
    forallb (fun vx : nvar * Q => var_ok (fst vx) (snd vx)) (combine (gvs g) xs) &&
    forallb (fun isw : (nat * seg) * Q =>
               seg_written_ok (runify R) tol (snd (fst isw)) (nth (seg_var g (fst (fst isw))) xs 0) (snd isw))
            (combine (indexed (rsegs R)) pos)
  else
    Nat.eqb (length pos) (length (rsegs R)) &&
    forallb (fun sw : seg * Q => Qeqb (snd sw) (spos (fst sw))) (combine (rsegs R) pos).
