(* Proofs about the nudging region model (Avoid/NudgeModel.v).  DESIGN 5.10.
   Part 1: the `satisfied` scan, the loop steps and the do/while loop (any solver).
   Part 2: the generator.   Part 3: nudge_satisfied_post, nudge_unsatisfied_noop, nudge_no_new_segments, C10_model.
   Part 4: soundness of the region checker nudge_region_ok. *)
From Coq Require Import QArith List Bool Arith ZArith Lia Lra.
From Adapt Require Import Num.Qaux Vpsc.VpscSpec Vpsc.Feas Avoid.NudgeModel.
Import ListNotations.
Local Open Scope Q_scope.

(* ================================================================== Part 1: scan and loop *)

Definition at_desired (v : nvar) (x : Q) : Prop :=
  vid v <> freeSegmentID -> Qabs' (x - vdes v) <= SAT_TOL.

Lemma off_desired_false v x : off_desired v x = false -> at_desired v x.
Proof.
  unfold off_desired, at_desired. intros H Hid. apply andb_false_iff in H. destruct H as [H|H].
  - apply negb_false_iff in H. apply Z.eqb_eq in H. contradiction.
  - apply Qltb_false in H. exact H.
Qed.

Lemma scan_mono vs xs : forall rest i sat rg sat' rg',
  scan vs xs i rest sat rg = NOk (sat', rg') -> sat' = true -> sat = true.
Proof.
  induction rest as [|v tl IH]; intros i sat rg sat' rg' H Hs; cbn [scan] in H.
  - inversion H; subst. reflexivity.
  - destruct (off_desired v (nth i xs 0)).
    + assert (F : forall rg0, scan vs xs (S i) tl false rg0 = NOk (sat', rg') -> False).
      { intros rg0 H0. specialize (IH _ _ _ _ _ H0 Hs). discriminate. }
      destruct (vid v =? channelLeftID)%Z; [exfalso; eapply F; exact H|].
      destruct (vid v =? channelRightID)%Z.
      { destruct rg as [|r0 rt].
        - destruct i as [|p]; [discriminate|].
          destruct (vid (nth p vs dnv) =? channelLeftID)%Z; [exfalso; eapply F; exact H | discriminate].
        - exfalso; eapply F; exact H. }
      destruct (vid v =? fixedSegmentID)%Z.
      { destruct rg as [|r0 rt]; exfalso; eapply F; exact H. }
      exfalso; eapply F; exact H.
    + eapply IH; eassumption.
Qed.

(* the scan answers `satisfied` only if every non-free variable is within 1e-4 of its desired position *)
Lemma scan_true_sound vs xs : forall rest i sat rg rg',
  scan vs xs i rest sat rg = NOk (true, rg') ->
  forall k v, nth_error rest k = Some v -> at_desired v (nth (i + k) xs 0).
Proof.
  induction rest as [|v tl IH]; intros i sat rg rg' H k w Hk.
  - destruct k; discriminate.
  - cbn [scan] in H. destruct (off_desired v (nth i xs 0)) eqn:Hoff.
    + exfalso.
      assert (F : forall rg0, scan vs xs (S i) tl false rg0 = NOk (true, rg') -> False).
      { intros rg0 H0. pose proof (scan_mono _ _ _ _ _ _ _ _ H0 eq_refl). discriminate. }
      destruct (vid v =? channelLeftID)%Z; [eapply F; exact H|].
      destruct (vid v =? channelRightID)%Z.
      { destruct rg as [|r0 rt].
        - destruct i as [|p]; [discriminate|].
          destruct (vid (nth p vs dnv) =? channelLeftID)%Z; [eapply F; exact H | discriminate].
        - eapply F; exact H. }
      destruct (vid v =? fixedSegmentID)%Z.
      { destruct rg as [|r0 rt]; eapply F; exact H. }
      eapply F; exact H.
    + destruct k as [|k]; cbn in Hk.
      * inversion Hk; subst. rewrite Nat.add_0_r. apply off_desired_false. exact Hoff.
      * replace (i + S k)%nat with (S i + k)%nat by lia. eapply IH; eassumption.
Qed.

Lemma nudge_step_true base vs sat st st' :
  nudge_step base vs sat st = NOk (true, st') -> sat = true /\ st' = st.
Proof.
  unfold nudge_step. destruct sat.
  - intros H; inversion H; auto.
  - destruct (lrg st); [discriminate|]. destruct (range_assert vs (p :: l)); [discriminate|].
    destruct (rewrite_gaps _ _ _ _). discriminate.
Qed.

Lemma unify_step_true xs sat st st' :
  unify_step xs sat st = NOk (true, st') ->
  sat = true /\ lcs st' = lcs st /\ lsep st' = lsep st /\ lfl st' = lfl st.
Proof.
  unfold unify_step. destruct (ljust st).
  - destruct (lpot st) as [|p pt]; [discriminate|]. destruct sat; cbn [negb].
    + destruct (drop_invalid _) as [|pc t].
      * intros H; inversion H; subst; cbn; auto.
      * destruct (fst pc =? snd pc)%nat; discriminate.
    + destruct (drop_invalid _) as [|pc t].
      * intros H; inversion H.
      * destruct (fst pc =? snd pc)%nat; discriminate.
  - destruct (drop_invalid _) as [|pc t].
    + intros H; inversion H; subst; cbn; auto.
    + destruct (fst pc =? snd pc)%nat; discriminate.
Qed.

(* ---- gap rewriting keeps the shape of the constraint list *)
Definition same_ends (c c' : con) : Prop := cl c' = cl c /\ cr c' = cr c /\ ceq c' = ceq c.

Lemma rewrite_gaps_shape sep : forall cs inside rg cs' rg',
  rewrite_gaps sep cs inside rg = (cs', rg') ->
  Forall2 (fun c c' => same_ends c c' /\ (c' = c \/ (0 < gap c /\ gap c' = sep))) cs cs'.
Proof.
  induction cs as [|c tl IH]; intros inside rg cs' rg' H; cbn [rewrite_gaps] in H.
  - inversion H; subst. constructor.
  - destruct rg as [|[a b] rgt].
    + inversion H; subst. clear. induction (c :: tl) as [|x l IHl]; constructor; auto.
      split; [repeat split | left; reflexivity].
    + set (w := inside || (cl c =? a)%nat) in *.
      set (c1 := if w && Qltb 0 (gap c) then set_gap c sep else c) in *.
      assert (Hc1 : same_ends c c1 /\ (c1 = c \/ (0 < gap c /\ gap c1 = sep))).
      { unfold c1. destruct (w && Qltb 0 (gap c)) eqn:E.
        - apply andb_true_iff in E. destruct E as [_ E]. apply Qltb_spec in E.
          split; [repeat split | right; split; [exact E | reflexivity]].
        - split; [repeat split | left; reflexivity]. }
      destruct (cr c =? b)%nat.
      * destruct (rewrite_gaps sep tl false rgt) as [r rg1] eqn:E. inversion H; subst.
        constructor; [exact Hc1 | eapply IH; exact E].
      * destruct (rewrite_gaps sep tl w ((a, b) :: rgt)) as [r rg1] eqn:E. inversion H; subst.
        constructor; [exact Hc1 | eapply IH; exact E].
Qed.

(* relation between the generated constraint list and the one in the loop state (nudging mode):
   same ends, and the gap is the generated one or a reduced value between the current sepDist and the base *)
Definition gap_rel (base sep : Q) (c0 c : con) : Prop :=
  same_ends c0 c /\ (gap c == gap c0 \/ (0 < gap c0 /\ sep <= gap c /\ gap c <= base)).

Lemma gap_rel_weaken base sep sep' c0 c : sep' <= sep -> gap_rel base sep c0 c -> gap_rel base sep' c0 c.
Proof. intros Hle [He [H|[H0 [H1 H2]]]]; split; auto. right. repeat split; auto. lra. Qed.

Lemma Forall2_trans_gap base sep sep' cs0 cs cs' :
  0 <= base -> sep' <= sep -> sep' <= base ->
  (forall c0, In c0 cs0 -> gap c0 == 0 \/ gap c0 == base) ->
  Forall2 (gap_rel base sep) cs0 cs ->
  Forall2 (fun c c' => same_ends c c' /\ (c' = c \/ (0 < gap c /\ gap c' = sep'))) cs cs' ->
  Forall2 (gap_rel base sep') cs0 cs'.
Proof.
  intros Hb Hle Hle2 Hg0 H1. revert cs'. induction H1 as [|c0 c l0 l Hc Hl IH]; intros cs' H2.
  - inversion H2; subst. constructor.
  - inversion H2 as [|? c' ? l' [He' Hc'] Hl']; subst. constructor.
    + destruct Hc as [He Hc]. split.
      { destruct He as [A [B C]], He' as [A' [B' C']]. repeat split; congruence. }
      destruct Hc' as [->|[Hpos Hgap]].
      * destruct Hc as [H|[H0 [Ha Hb']]]; [left; exact H | right; repeat split; auto; lra].
      * right. rewrite Hgap.
        assert (0 < gap c0).
        { destruct Hc as [H|[H0 _]]; [rewrite <- H; exact Hpos | exact H0]. }
        repeat split; auto; lra.
    + apply IH; [intros c1 Hin; apply Hg0; right; exact Hin | exact Hl'].
Qed.

Section LoopFacts.
  Variable solver : nat -> list nvar -> list con -> list bool -> list Q * list bool.
  Variable base : Q.
  Variable vs : list nvar.
  Hypothesis base_nonneg : 0 <= base.

  (* ---- any mode: a satisfied exit returns the constraint list that was solved last, unchanged, together with the
     result of that solve, and the scan of that result said `satisfied` *)
  Lemma loop_sat_exit unify : forall fuel k st st' xf k',
    loop solver unify base vs fuel k st = NOk (true, st', xf, k') ->
    exists fl_in k0, xf = solver k0 vs (lcs st') fl_in /\ k' = S k0 /\
      (forall i v, nth_error vs i = Some v -> at_desired v (nth i (fst xf) 0)).
  Proof.
    induction fuel as [|f IH]; intros k st st' xf k' H; [discriminate|].
    cbn [loop] in H.
    destruct (scan vs (fst (solver k vs (lcs st) (lfl st))) 0 vs true (lrg st)) as [[sat rg]| |] eqn:Hscan; try discriminate.
    match type of H with match ?X with _ => _ end = _ => destruct X as [[sat' st1]| |] eqn:Hstep; try discriminate end.
    destruct (negb sat' && Qltb SAT_TOL (lsep st1)) eqn:Hc.
    - eapply IH; exact H.
    - inversion H; subst sat' st1 xf k'. clear H.
      assert (Hsat : sat = true /\ lcs st' = lcs st).
      { destruct unify.
        - apply unify_step_true in Hstep. cbn in Hstep. tauto.
        - apply nudge_step_true in Hstep. destruct Hstep as [A B]. subst st'. cbn. auto. }
      destruct Hsat as [-> Hcs]. exists (lfl st), k. rewrite Hcs. split; [reflexivity|]. split; [reflexivity|].
      intros i v Hi. exact (scan_true_sound _ _ _ _ _ _ _ Hscan i v Hi).
  Qed.

  (* ---- nudging mode: the shape of the constraint list never changes and every gap stays the generated one or a
     reduced value between the current sepDist and the base distance; sepDist never exceeds the base *)
  Definition ninv (cs0 : list con) (st : lst) : Prop :=
    Forall2 (gap_rel base (lsep st)) cs0 (lcs st) /\ lsep st <= base.

  Lemma nudge_step_inv cs0 sat st sat' st' :
    (forall c0, In c0 cs0 -> gap c0 == 0 \/ gap c0 == base) ->
    ninv cs0 st -> nudge_step base vs sat st = NOk (sat', st') -> ninv cs0 st'.
  Proof.
    intros Hg0 [HF Hle] H. unfold nudge_step in H. destruct sat.
    - inversion H; subst. split; assumption.
    - destruct (lrg st) as [|r0 rt] eqn:Hr; [discriminate|].
      destruct (range_assert vs (r0 :: rt)); [discriminate|].
      assert (Hs : Qred (lsep st - base / reductionSteps) <= lsep st).
      { rewrite Qred_correct. unfold reductionSteps. assert (0 <= base / 10) by (apply Qle_shift_div_l; lra). lra. }
      set (sp := Qred (lsep st - base / reductionSteps)) in *.
      destruct (rewrite_gaps sp (lcs st) false (r0 :: rt)) as [cs' rg'] eqn:E.
      inversion H; subst sat' st'. clear H. unfold ninv. cbn [lcs lsep].
      split; [| lra].
      eapply Forall2_trans_gap; try eassumption; [lra|].
      eapply rewrite_gaps_shape. exact E.
  Qed.

  Lemma nloop_inv cs0 : forall fuel k st sat st' xf k',
    (forall c0, In c0 cs0 -> gap c0 == 0 \/ gap c0 == base) ->
    ninv cs0 st ->
    loop solver false base vs fuel k st = NOk (sat, st', xf, k') ->
    ninv cs0 st'.
  Proof.
    induction fuel as [|f IH]; intros k st sat st' xf k' Hg0 Hinv H; [discriminate|].
    cbn [loop] in H.
    destruct (scan vs (fst (solver k vs (lcs st) (lfl st))) 0 vs true (lrg st)) as [[s rg]| |] eqn:Hscan; try discriminate.
    match type of H with match ?X with _ => _ end = _ => destruct X as [[sat1 st1]| |] eqn:Hstep; try discriminate end.
    assert (Hinv1 : ninv cs0 st1).
    { eapply nudge_step_inv; [exact Hg0 | | exact Hstep]. destruct Hinv as [A B]. split; cbn; assumption. }
    destruct (negb sat1 && Qltb SAT_TOL (lsep st1)) eqn:Hc.
    - eapply IH; eassumption.
    - inversion H; subst. exact Hinv1.
  Qed.

  (* a satisfied exit happens at the initial sepDist or at a reduced one that passed the test sepDist > 1e-4 *)
  Lemma nloop_sep : forall fuel k st st' xf k',
    loop solver false base vs fuel k st = NOk (true, st', xf, k') ->
    lsep st' = lsep st \/ SAT_TOL < lsep st'.
  Proof.
    induction fuel as [|f IH]; intros k st st' xf k' H; [discriminate|].
    cbn [loop] in H.
    destruct (scan vs (fst (solver k vs (lcs st) (lfl st))) 0 vs true (lrg st)) as [[s rg]| |] eqn:Hscan; try discriminate.
    match type of H with match ?X with _ => _ end = _ => destruct X as [[sat1 st1]| |] eqn:Hstep; try discriminate end.
    destruct (negb sat1 && Qltb SAT_TOL (lsep st1)) eqn:Hc.
    - apply andb_true_iff in Hc. destruct Hc as [_ Hlt]. apply Qltb_spec in Hlt.
      destruct (IH _ _ _ _ _ H) as [E|E]; right; [rewrite E; exact Hlt | exact E].
    - inversion H; subst. apply nudge_step_true in Hstep. destruct Hstep as [_ ->]. left. reflexivity.
  Qed.
End LoopFacts.

(* ================================================================== Part 2: the generator *)

Definition seg_of (R : region) (i : nat) : seg := nth i (rsegs R) dseg.

Definition pair_ge (R : region) (r : rel) : Q * bool :=
  if r_sa r then (0, true)
  else if r_ca r then (0, false)
  else if negb (rnsp R) && r_sh r then (0, true)
  else (rbase R, false).

Definition pair_cond (R : region) (s : seg) (fj : bool) (r : rel) : bool :=
  r_ov r && (negb (sfixed s) || negb fj).

Lemma pair_ge_gap R r : fst (pair_ge R r) == 0 \/ fst (pair_ge R r) = rbase R.
Proof.
  unfold pair_ge. destruct (r_sa r); [left; reflexivity|]. destruct (r_ca r); [left; reflexivity|].
  destruct (negb (rnsp R) && r_sh r); [left; reflexivity | right; reflexivity].
Qed.

Lemma pair_con_unfold R i s idx acc j vj fj :
  pair_con R i s idx acc (j, vj, fj) =
  if pair_cond R s fj (rel_of R i j)
  then (fst acc ++ [mkcon vj idx (fst (pair_ge R (rel_of R i j))) (snd (pair_ge R (rel_of R i j)))],
        if negb (Qeqb (fst (pair_ge R (rel_of R i j))) 0) then snd acc ++ [length (fst acc)] else snd acc)
  else acc.
Proof.
  unfold pair_con, pair_cond, pair_ge. destruct (r_ov (rel_of R i j) && (negb (sfixed s) || negb fj)); [|reflexivity].
  destruct (r_sa (rel_of R i j)); [reflexivity|]. destruct (r_ca (rel_of R i j)); [reflexivity|].
  destruct (negb (rnsp R) && r_sh (rel_of R i j)); reflexivity.
Qed.

Lemma fold_pair_con R i s idx : forall prev cs gp cs' gp',
  fold_left (pair_con R i s idx) prev (cs, gp) = (cs', gp') ->
  exists X, cs' = cs ++ X /\
    (forall c, In c X -> cr c = idx /\ (exists j vj fj, In (j, vj, fj) prev /\ cl c = vj) /\
                         (gap c == 0 \/ gap c = rbase R)) /\
    (forall j vj fj, In (j, vj, fj) prev -> pair_cond R s fj (rel_of R i j) = true ->
        In (mkcon vj idx (fst (pair_ge R (rel_of R i j))) (snd (pair_ge R (rel_of R i j)))) X).
Proof.
  induction prev as [|[[j vj] fj] t IH]; intros cs gp cs' gp' H; cbn [fold_left] in H.
  - inversion H; subst. exists []. rewrite app_nil_r. split; [reflexivity|]. split; [intros c []|intros ? ? ? []].
  - rewrite pair_con_unfold in H. cbn [fst snd] in H.
    destruct (pair_cond R s fj (rel_of R i j)) eqn:Hc.
    + destruct (IH _ _ _ _ H) as [X [E [HX1 HX2]]].
      exists (mkcon vj idx (fst (pair_ge R (rel_of R i j))) (snd (pair_ge R (rel_of R i j))) :: X).
      split; [rewrite E, <- app_assoc; reflexivity|]. split.
      * intros c [<-|Hin]; cbn.
        { split; [reflexivity|]. split; [exists j, vj, fj; split; [left; reflexivity | reflexivity]|]. apply pair_ge_gap. }
        destruct (HX1 c Hin) as [A [[j' [vj' [fj' [B C]]]] D]]. split; [exact A|]. split; [|exact D].
        exists j', vj', fj'. split; [right; exact B | exact C].
      * intros j' vj' fj' [Heq|Hin] Hc'.
        { inversion Heq; subst. left. reflexivity. }
        right. eapply HX2; eassumption.
    + destruct (IH _ _ _ _ H) as [X [E [HX1 HX2]]]. exists X. split; [exact E|]. split.
      * intros c Hin. destruct (HX1 c Hin) as [A [[j' [vj' [fj' [B C]]]] D]]. split; [exact A|]. split; [|exact D].
        exists j', vj', fj'. split; [right; exact B | exact C].
      * intros j' vj' fj' [Heq|Hin] Hc'.
        { inversion Heq; subst. rewrite Hc in Hc'. discriminate. }
        eapply HX2; eassumption.
Qed.

Definition in_range (vs : list nvar) (c : con) : Prop := (cl c < length vs)%nat /\ (cr c < length vs)%nat.

Record GI (R : region) (n : nat) (st : gst) : Prop := {
  gi_len : length (gprev st) = n;
  gi_prev : forall j, (j < n)%nat ->
      exists vj, nth_error (gprev st) j = Some (j, vj, sfixed (seg_of R j)) /\
                 nth_error (gvs st) vj = Some (create_var (rnfs R) (runify R) (seg_of R j));
  gi_cs : forall c, In c (gcs st) -> in_range (gvs st) c /\ (gap c == 0 \/ gap c = rbase R);
  gi_chan : runify R = false -> forall j, (j < n)%nat -> sfixed (seg_of R j) = false ->
      (- CHANNEL_MAX < smin (seg_of R j) ->
         exists l, In (mkcon l (seg_var st j) 0 false) (gcs st) /\
                   nth_error (gvs st) l = Some (mknv channelLeftID (smin (seg_of R j)) fixedWeight)) /\
      (smax (seg_of R j) < CHANNEL_MAX ->
         exists r, In (mkcon (seg_var st j) r 0 false) (gcs st) /\
                   nth_error (gvs st) r = Some (mknv channelRightID (smax (seg_of R j)) fixedWeight));
  gi_pair : runify R = false -> forall i j, (j < i)%nat -> (i < n)%nat ->
      pair_cond R (seg_of R i) (sfixed (seg_of R j)) (rel_of R i j) = true ->
      In (mkcon (seg_var st j) (seg_var st i) (fst (pair_ge R (rel_of R i j))) (snd (pair_ge R (rel_of R i j)))) (gcs st)
}.

Lemma GI0 R : GI R 0 gst0.
Proof.
  split; cbn; try reflexivity; try (intros; lia); try (intros ? []).
Qed.

Lemma nth_error_snoc_old {A} (l : list A) x k : (k < length l)%nat -> nth_error (l ++ [x]) k = nth_error l k.
Proof. intros H. apply nth_error_app1. exact H. Qed.
Lemma nth_error_snoc_new {A} (l : list A) x : nth_error (l ++ [x]) (length l) = Some x.
Proof. rewrite nth_error_app2 by lia. rewrite Nat.sub_diag. reflexivity. Qed.
Lemma nth_error_snoc_at {A} (l : list A) x n : length l = n -> nth_error (l ++ [x]) n = Some x.
Proof. intros <-. apply nth_error_snoc_new. Qed.
Lemma nth_error_some_lt {A} (l : list A) k x : nth_error l k = Some x -> (k < length l)%nat.
Proof. intros H. apply nth_error_Some. rewrite H. discriminate. Qed.

Lemma in_range_mono vs vs' c : (length vs <= length vs')%nat -> in_range vs c -> in_range vs' c.
Proof. unfold in_range. lia. Qed.

Lemma seg_var_snoc st x j : (j < length (gprev st))%nat ->
  forall st', gprev st' = gprev st ++ [x] -> seg_var st' j = seg_var st j.
Proof. intros H st' E. unfold seg_var. rewrite E, nth_error_snoc_old by exact H. reflexivity. Qed.

(* one generator step preserves the invariant *)
Lemma gen_seg_GI R n st : (n < length (rsegs R))%nat -> GI R n st -> GI R (S n) (gen_seg R st (n, seg_of R n)).
Proof.
  intros Hn G. destruct G as [Glen Gprev Gcs Gchan Gpair].
  set (s := seg_of R n). unfold gen_seg. cbn zeta.
  set (v := create_var (rnfs R) (runify R) s).
  set (idx := length (gvs st)).
  destruct (runify R) eqn:Hu.
  - (* unifying: only the variable is added *)
    split; cbn [gvs gcs ggap gprev gfree]; rewrite ?Hu.
    + rewrite app_length, Glen. cbn. lia.
    + intros j Hj. destruct (Nat.eq_dec j n) as [->|Hne].
      * exists idx. rewrite (nth_error_snoc_at _ _ _ Glen). split; [reflexivity|].
        unfold idx. rewrite nth_error_snoc_new. reflexivity.
      * destruct (Gprev j ltac:(lia)) as [vj [A B]]. exists vj. rewrite nth_error_snoc_old by lia.
        split; [exact A|]. rewrite nth_error_snoc_old by (eapply nth_error_some_lt; exact B). exact B.
    + intros c Hc. destruct (Gcs c Hc) as [A B]. split; [|exact B].
      eapply in_range_mono; [|exact A]. rewrite app_length. lia.
    + discriminate.
    + discriminate.
  - (* nudging *)
    set (hasL := negb (sfixed s) && Qltb (- CHANNEL_MAX) (smin s)).
    set (hasR := negb (sfixed s) && Qltb (smax s) CHANNEL_MAX).
    set (vs1 := gvs st ++ [v]).
    set (vs2 := if hasL then vs1 ++ [mknv channelLeftID (smin s) fixedWeight] else vs1).
    set (cs2 := if hasL then gcs st ++ [mkcon (length vs1) idx 0 false] else gcs st).
    destruct (fold_left (pair_con R n s idx) (gprev st) (cs2, ggap st)) as [cs3 gap3] eqn:F.
    destruct (fold_pair_con _ _ _ _ _ _ _ _ _ F) as [X [E3 [HX1 HX2]]].
    set (vs4 := if hasR then vs2 ++ [mknv channelRightID (smax s) fixedWeight] else vs2).
    set (cs4 := if hasR then cs3 ++ [mkcon idx (length vs2) 0 false] else cs3).
    assert (L1 : length vs1 = S idx) by (unfold vs1, idx; rewrite app_length; cbn; lia).
    assert (L2 : (length vs1 <= length vs2)%nat) by (unfold vs2; destruct hasL; [rewrite app_length; cbn; lia | lia]).
    assert (L4 : (length vs2 <= length vs4)%nat) by (unfold vs4; destruct hasR; [rewrite app_length; cbn; lia | lia]).
    assert (P1 : forall k x, nth_error (gvs st) k = Some x -> nth_error vs4 k = Some x).
    { intros k x Hk. pose proof (nth_error_some_lt _ _ _ Hk) as Hlt.
      assert (nth_error vs1 k = Some x) by (unfold vs1; rewrite nth_error_snoc_old by exact Hlt; exact Hk).
      assert (nth_error vs2 k = Some x).
      { unfold vs2. destruct hasL; [rewrite nth_error_snoc_old by (rewrite L1; unfold idx; lia)|]; assumption. }
      unfold vs4. destruct hasR; [rewrite nth_error_snoc_old by (unfold idx in *; lia)|]; assumption. }
    assert (Pidx : nth_error vs4 idx = Some v).
    { assert (nth_error vs1 idx = Some v) by (unfold vs1, idx; apply nth_error_snoc_new).
      assert (nth_error vs2 idx = Some v).
      { unfold vs2. destruct hasL; [rewrite nth_error_snoc_old by lia|]; assumption. }
      unfold vs4. destruct hasR; [rewrite nth_error_snoc_old by lia|]; assumption. }
    assert (C2 : forall c, In c (gcs st) -> In c cs2) by (intros c Hc; unfold cs2; destruct hasL; [apply in_or_app; left|]; exact Hc).
    assert (C3 : forall c, In c cs2 -> In c cs3) by (intros c Hc; rewrite E3; apply in_or_app; left; exact Hc).
    assert (C4 : forall c, In c cs3 -> In c cs4) by (intros c Hc; unfold cs4; destruct hasR; [apply in_or_app; left|]; exact Hc).
    assert (SV : forall j, (j < n)%nat -> seg_var (mkgst vs4 cs4 gap3 (gprev st ++ [(n, idx, sfixed s)]) (gfree st)) j = seg_var st j).
    { intros j Hj. eapply seg_var_snoc; [rewrite Glen; exact Hj | reflexivity]. }
    assert (SVn : seg_var (mkgst vs4 cs4 gap3 (gprev st ++ [(n, idx, sfixed s)]) (gfree st)) n = idx).
    { unfold seg_var. cbn [gprev]. rewrite (nth_error_snoc_at _ _ _ Glen). reflexivity. }
    split; cbn [gvs gcs ggap gprev gfree]; rewrite ?Hu.
    + rewrite app_length, Glen. cbn. lia.
    + intros j Hj. destruct (Nat.eq_dec j n) as [->|Hne].
      * exists idx. rewrite (nth_error_snoc_at _ _ _ Glen). split; [reflexivity | exact Pidx].
      * destruct (Gprev j ltac:(lia)) as [vj [A B]]. exists vj. rewrite nth_error_snoc_old by lia.
        split; [exact A | apply P1; exact B].
    + intros c Hc.
      assert (Hc3 : In c cs3 -> in_range vs4 c /\ (gap c == 0 \/ gap c = rbase R)).
      { intros H3. rewrite E3 in H3. apply in_app_or in H3. destruct H3 as [H2|HX].
        - unfold cs2 in H2. destruct hasL.
          + apply in_app_or in H2. destruct H2 as [H0|[<-|[]]].
            * destruct (Gcs c H0) as [A B]. split; [|exact B]. eapply in_range_mono; [|exact A]. unfold idx in *. lia.
            * split; [unfold in_range; cbn; unfold vs2 in L4; rewrite app_length in L4; cbn in L4; lia | left; reflexivity].
          + destruct (Gcs c H2) as [A B]. split; [|exact B]. eapply in_range_mono; [|exact A]. unfold idx in *. lia.
        - destruct (HX1 c HX) as [A [[j [vj [fj [B C]]]] D]]. split; [|exact D].
          unfold in_range. rewrite A, C. split; [|lia].
          apply In_nth_error in B. destruct B as [k Bk].
          assert (Hk : (k < n)%nat) by (rewrite <- Glen; eapply nth_error_some_lt; exact Bk).
          destruct (Gprev k Hk) as [vk [A1 B1]]. rewrite A1 in Bk. inversion Bk; subst.
          pose proof (nth_error_some_lt _ _ _ B1). unfold idx in *. lia. }
      unfold cs4 in Hc. destruct hasR eqn:HR.
      * apply in_app_or in Hc. destruct Hc as [H3|[<-|[]]]; [exact (Hc3 H3)|].
        split; [unfold in_range; cbn; unfold vs4; rewrite ?HR, app_length; cbn; lia | left; reflexivity].
      * exact (Hc3 Hc).
    + intros _ j Hj Hfx. destruct (Nat.eq_dec j n) as [->|Hne].
      * rewrite SVn. fold s in Hfx |- *. split.
        { intros Hlim. assert (hasL = true) by (unfold hasL; rewrite Hfx; cbn; apply Qltb_spec; exact Hlim).
          exists (length vs1). split.
          - apply C4, C3. unfold cs2. rewrite H. apply in_or_app. right. left. reflexivity.
          - assert (nth_error vs2 (length vs1) = Some (mknv channelLeftID (smin s) fixedWeight))
              by (unfold vs2; rewrite H; apply nth_error_snoc_new).
            unfold vs4. destruct hasR; [rewrite nth_error_snoc_old; [exact H0 | eapply nth_error_some_lt; exact H0] | exact H0]. }
        { intros Hlim. assert (hasR = true) by (unfold hasR; rewrite Hfx; cbn; apply Qltb_spec; exact Hlim).
          exists (length vs2). split.
          - unfold cs4. rewrite H. apply in_or_app. right. left. reflexivity.
          - unfold vs4. rewrite H. apply nth_error_snoc_new. }
      * rewrite (SV j ltac:(lia)). destruct (Gchan eq_refl j ltac:(lia) Hfx) as [A B]. split.
        { intros Hlim. destruct (A Hlim) as [l [Al Bl]]. exists l. split; [apply C4, C3, C2; exact Al | apply P1; exact Bl]. }
        { intros Hlim. destruct (B Hlim) as [r [Ar Br]]. exists r. split; [apply C4, C3, C2; exact Ar | apply P1; exact Br]. }
    + intros _ i j Hji Hi Hc. destruct (Nat.eq_dec i n) as [->|Hne].
      * rewrite SVn, (SV j Hji). fold s in Hc. apply C4. rewrite E3. apply in_or_app. right.
        destruct (Gprev j Hji) as [vj [A B]].
        assert (seg_var st j = vj) by (unfold seg_var; rewrite A; reflexivity). rewrite H.
        eapply HX2; [eapply nth_error_In; exact A | exact Hc].
      * rewrite (SV j ltac:(lia)), (SV i ltac:(lia)). apply C4, C3, C2. apply (Gpair eq_refl i j Hji); [lia | exact Hc].
Qed.

(* ---- from one step to the whole generator *)
Lemma indexed_nth {A} (d : A) : forall (l : list A) a n, (n < length l)%nat ->
  nth_error (combine (seq a (length l)) l) n = Some ((a + n)%nat, nth n l d).
Proof.
  induction l as [|x t IH]; intros a n Hn; cbn in Hn; [lia|].
  destruct n as [|n]; cbn.
  - rewrite Nat.add_0_r. reflexivity.
  - rewrite IH by lia. f_equal. f_equal. lia.
Qed.

Lemma firstn_S_snoc {A} : forall (l : list A) n x, nth_error l n = Some x -> firstn (S n) l = firstn n l ++ [x].
Proof.
  induction l as [|h t IH]; intros [|n] x H; cbn in *; try discriminate.
  - inversion H; reflexivity.
  - f_equal. apply IH. exact H.
Qed.

Lemma gen_prefix_GI R : forall n, (n <= length (rsegs R))%nat ->
  GI R n (fold_left (gen_seg R) (firstn n (indexed (rsegs R))) gst0).
Proof.
  induction n as [|n IH]; intros Hn.
  - cbn. apply GI0.
  - assert (Hlt : (n < length (rsegs R))%nat) by lia.
    pose proof (indexed_nth dseg (rsegs R) 0 n Hlt) as Hnth. cbn [Nat.add] in Hnth.
    unfold indexed at 1. rewrite (firstn_S_snoc _ _ _ Hnth), fold_left_app. cbn [fold_left].
    apply (gen_seg_GI R n _ Hlt). apply IH. lia.
Qed.

Lemma indexed_length {A} (l : list A) : length (indexed l) = length l.
Proof. unfold indexed. rewrite combine_length, seq_length. lia. Qed.

Theorem gen_GI R : GI R (length (rsegs R)) (gen R).
Proof.
  unfold gen. rewrite <- (firstn_all (indexed (rsegs R))) at 1. rewrite indexed_length.
  apply gen_prefix_GI. lia.
Qed.

(* ---- weights *)
Lemma strong_ne_free : ~ strongWeight == freeWeight.
Proof. unfold Qeq; cbn. lia. Qed.
Lemma stronger_ne_free : ~ strongerWeight == freeWeight.
Proof. unfold Qeq; cbn. lia. Qed.
Lemma fixed_ne_free : ~ fixedWeight == freeWeight.
Proof. unfold Qeq; cbn. lia. Qed.

Lemma create_var_fixed nfs u s :
  sfixed s = true -> szigzag s = false -> ~ vwt (create_var nfs u s) == freeWeight.
Proof.
  intros Hf Hz. unfold create_var. rewrite Hf, Hz.
  destruct (nfs && sfinal s).
  - destruct (ssingle s && negb u); cbn; [apply stronger_ne_free | apply strong_ne_free].
  - destruct (scp s); cbn; [apply strong_ne_free | apply fixed_ne_free].
Qed.

Lemma create_var_final nfs u s :
  nfs = true -> sfinal s = true -> ~ vwt (create_var nfs u s) == freeWeight.
Proof.
  intros -> Hf. unfold create_var. rewrite Hf. cbn.
  destruct (ssingle s && negb u); cbn; [apply stronger_ne_free | apply strong_ne_free].
Qed.

(* a segment built by the fixed-segment constructor (no checkpoints recorded, not final, no bend) keeps the id
   fixedSegmentID and its current position as desired position: it is covered by clause (c) of nudge_satisfied_post *)
Lemma create_var_plain_fixed nfs u s :
  sfixed s = true -> sfinal s = false -> scp s = false -> szigzag s = false ->
  create_var nfs u s = mknv fixedSegmentID (spos s) fixedWeight.
Proof. intros A B C D. unfold create_var. rewrite A, B, C, D, andb_false_r. reflexivity. Qed.

(* nudge_gen_wf (DESIGN 5.10): constraint indices in range; gaps are 0 or the base distance; every non-fixed segment
   with a finite limit gets its channel constraint against a fixedWeight channel variable placed at that limit; every
   segment's variable is createSolverVariable's; fixed segments (and, when final segments are nudged, final segments)
   never get freeWeight. *)
Theorem nudge_gen_wf R :
  let g := gen R in
  (forall c, In c (gcs g) -> (cl c < length (gvs g))%nat /\ (cr c < length (gvs g))%nat /\ (gap c == 0 \/ gap c = rbase R)) /\
  (forall i, (i < length (rsegs R))%nat ->
      nth_error (gvs g) (seg_var g i) = Some (create_var (rnfs R) (runify R) (seg_of R i))) /\
  (runify R = false -> forall i, (i < length (rsegs R))%nat -> sfixed (seg_of R i) = false ->
      (- CHANNEL_MAX < smin (seg_of R i) ->
         exists l, In (mkcon l (seg_var g i) 0 false) (gcs g) /\
                   nth_error (gvs g) l = Some (mknv channelLeftID (smin (seg_of R i)) fixedWeight)) /\
      (smax (seg_of R i) < CHANNEL_MAX ->
         exists r, In (mkcon (seg_var g i) r 0 false) (gcs g) /\
                   nth_error (gvs g) r = Some (mknv channelRightID (smax (seg_of R i)) fixedWeight))) /\
  (forall i, (i < length (rsegs R))%nat ->
      (sfixed (seg_of R i) = true -> szigzag (seg_of R i) = false \/ (rnfs R = true /\ sfinal (seg_of R i) = true) ->
         forall v, nth_error (gvs g) (seg_var g i) = Some v -> ~ vwt v == freeWeight) /\
      (rnfs R = true -> sfinal (seg_of R i) = true ->
         forall v, nth_error (gvs g) (seg_var g i) = Some v -> ~ vwt v == freeWeight)).
Proof.
  intros g. pose proof (gen_GI R) as G. fold g in G. destruct G as [Glen Gprev Gcs Gchan Gpair].
  assert (SV : forall i, (i < length (rsegs R))%nat ->
              nth_error (gvs g) (seg_var g i) = Some (create_var (rnfs R) (runify R) (seg_of R i))).
  { intros i Hi. destruct (Gprev i Hi) as [vi [A B]]. unfold seg_var. rewrite A. exact B. }
  split; [|split; [exact SV | split; [exact Gchan|]]].
  - intros c Hc. destruct (Gcs c Hc) as [[A B] C]. auto.
  - intros i Hi. split.
    + intros Hf Hz v Hv. rewrite (SV i Hi) in Hv. inversion Hv; subst.
      destruct Hz as [Hz|[Hn Hfin]]; [apply create_var_fixed; assumption | apply create_var_final; assumption].
    + intros Hn Hfin v Hv. rewrite (SV i Hi) in Hv. inversion Hv; subst. apply create_var_final; assumption.
Qed.

(* ================================================================== Part 3: the region theorems *)

Lemma tovar_scale vs i : scl (vget (map tovar vs) i) = 1.
Proof.
  unfold vget. destruct (nth_error (map tovar vs) i) eqn:E.
  - rewrite (nth_error_nth _ _ _ E). apply nth_error_In in E. apply in_map_iff in E.
    destruct E as [w [<- _]]. reflexivity.
  - apply nth_error_None in E. rewrite nth_overflow by exact E. reflexivity.
Qed.

Lemma within_unfold vs xs tol c :
  within (map tovar vs) (place_of xs) tol c ->
  nth (cl c) xs 0 + gap c <= nth (cr c) xs 0 + tol /\
  (ceq c = true -> nth (cr c) xs 0 <= nth (cl c) xs 0 + gap c + tol).
Proof.
  unfold within, slackv, place_of. rewrite !tovar_scale. intros [A B]. split; [lra|]. intros E. specialize (B E). lra.
Qed.

Lemma Forall2_nth_error {A B} (P : A -> B -> Prop) l l' :
  Forall2 P l l' -> forall k a, nth_error l k = Some a -> exists b, nth_error l' k = Some b /\ P a b.
Proof.
  induction 1 as [|x y l l' Hxy HF IH]; intros [|k] a Hk; cbn in *; try discriminate.
  - inversion Hk; subst. exists y. auto.
  - apply IH. exact Hk.
Qed.

Lemma gap_rel_refl base sep cs : Forall2 (gap_rel base sep) cs cs.
Proof. induction cs as [|c t IH]; constructor; [|exact IH]. split; [repeat split | left; reflexivity]. Qed.

Lemma Qmax'_ge_r a b : b <= Qmax' a b. Proof. unfold Qmax'. qcase; qb2p; lra. Qed.
Lemma Qmax'_ge_l a b : a <= Qmax' a b. Proof. unfold Qmax'. qcase; qb2p; lra. Qed.
Lemma Qmin'_le_r a b : Qmin' a b <= b. Proof. unfold Qmin'. qcase; qb2p; lra. Qed.
Lemma Qmin'_le_l a b : Qmin' a b <= a. Proof. unfold Qmin'. qcase; qb2p; lra. Qed.

(* write-back arithmetic: std::min(std::max(x, minSpaceLimit), maxSpaceLimit) *)
Lemma new_pos_fixed s x : sfixed s = true -> new_pos s x = spos s.
Proof. unfold new_pos. intros ->. reflexivity. Qed.

Lemma new_pos_within s x : sfixed s = false -> smin s <= smax s -> smin s <= new_pos s x /\ new_pos s x <= smax s.
Proof.
  unfold new_pos. intros -> H. split.
  - unfold Qmin'. qcase; qb2p; [exact H | apply Qmax'_ge_r].
  - apply Qmin'_le_r.
Qed.

Lemma new_pos_close s x d : sfixed s = false -> 0 <= d -> smin s - d <= x -> x <= smax s + d ->
  Qabs' (new_pos s x - x) <= d.
Proof.
  unfold new_pos. intros -> Hd H1 H2. unfold Qabs', Qmin', Qmax'.
  destruct (Qltb x (smin s)) eqn:E1; repeat qcase; qb2p; lra.
Qed.

Lemma indexed_nth_error {A} (l : list A) i s : nth_error l i = Some s -> nth_error (indexed l) i = Some (i, s).
Proof.
  intros H. pose proof (nth_error_some_lt _ _ _ H) as Hlt. unfold indexed.
  rewrite (indexed_nth s l 0 i Hlt). cbn. rewrite (nth_error_nth _ _ s H). reflexivity.
Qed.

Section Post.
  Variable solver : nat -> list nvar -> list con -> list bool -> list Q * list bool.
  (* property C01 as the contract of the solver parameter: positions for every variable; every constraint that the
     solver did not flag unsatisfiable holds to 1e-10 *)
  Hypothesis solver_contract : forall k vs cs fl,
    length (fst (solver k vs cs fl)) = length vs /\
    forall j c, nth_error cs j = Some c -> nth_error (snd (solver k vs cs fl)) j = Some false ->
      within (map tovar vs) (place_of (fst (solver k vs cs fl))) TOL10 c.

  Lemma region_unfold fuel R o :
    nudge_region solver fuel R = NOk o ->
    gen_pre R = None /\
    exists st xf k,
      loop solver (runify R) (rbase R) (gvs (gen R)) fuel 0
           (mklst (rbase R) (gcs (gen R)) [] (gen_pot R) false (repeat false (length (gcs (gen R))))) = NOk (o_sat o, st, xf, k) /\
      o_sep o = lsep st /\ o_cs o = lcs st /\ o_xs o = fst xf /\ o_flags o = snd xf /\
      o_pos o = (if o_sat o then written R (gen R) (fst xf) else map spos (rsegs R)).
  Proof.
    unfold nudge_region. destruct (gen_pre R) eqn:Hp; [discriminate|]. intros H. split; [reflexivity|].
    destruct (loop _ _ _ _ _ _ _) as [[[[sat st] xf] k]| |] eqn:HL; try discriminate.
    inversion H; subst. cbn. exists st, xf, k. repeat split; reflexivity.
  Qed.

  Lemma gen_pre_base R : gen_pre R = None -> 0 <= rbase R.
  Proof. unfold gen_pre. destruct (Qltb (rbase R) 0) eqn:E; [discriminate|]. intros _. apply Qltb_false in E. exact E. Qed.

  (* nudge_satisfied_post (DESIGN 5.10) *)
  Theorem nudge_satisfied_post fuel R o :
    nudge_region solver fuel R = NOk o -> o_sat o = true ->
    let g := gen R in
    (* (a) every constraint the solver did not flag holds with its current gap to 1e-10 ... *)
    (forall j c, nth_error (o_cs o) j = Some c -> nth_error (o_flags o) j = Some false ->
        nth (cl c) (o_xs o) 0 + gap c <= nth (cr c) (o_xs o) 0 + TOL10 /\
        (ceq c = true -> nth (cr c) (o_xs o) 0 <= nth (cl c) (o_xs o) 0 + gap c + TOL10)) /\
    (*     ... and in the nudging stage each gap is the generated one (0 or the base distance) or a reduced value
           between the final sepDist and the base distance; the final sepDist is the base distance or exceeds 1e-4 *)
    (runify R = false ->
        Forall2 (gap_rel (rbase R) (o_sep o)) (gcs g) (o_cs o) /\ (o_sep o = rbase R \/ SAT_TOL < o_sep o)) /\
    (* (c) every variable whose id is not freeSegmentID is within 1e-4 of its desired position *)
    (forall i v, nth_error (gvs g) i = Some v -> vid v <> freeSegmentID -> Qabs' (nth i (o_xs o) 0 - vdes v) <= SAT_TOL) /\
    (* positions exist for every variable, and the write-back happened *)
    length (o_xs o) = length (gvs g) /\ o_pos o = written R g (o_xs o).
  Proof.
    intros H Hsat g. destruct (region_unfold _ _ _ H) as [Hpre [st [xf [k [HL [E1 [E2 [E3 [E4 E5]]]]]]]]].
    rewrite Hsat in HL, E5. fold g in HL.
    destruct (loop_sat_exit solver (rbase R) (gvs g) (runify R) _ _ _ _ _ _ HL) as [fl_in [k0 [Hxf [_ Hdes]]]].
    rewrite E2, E3, E4. rewrite Hxf in *.
    destruct (solver_contract k0 (gvs g) (lcs st) fl_in) as [Hlen Hwithin].
    split; [|split; [|split; [|split]]].
    - intros j c Hc Hf. apply (within_unfold (gvs g)). eapply Hwithin; eassumption.
    - intros Hu. rewrite Hu in HL. rewrite E1.
      pose proof (gen_pre_base _ Hpre) as Hb.
      assert (Hg0 : forall c0, In c0 (gcs g) -> gap c0 == 0 \/ gap c0 == rbase R).
      { intros c0 Hc0. destruct (proj1 (nudge_gen_wf R) c0 Hc0) as [_ [_ [A|A]]]; [left; exact A | right; rewrite A; reflexivity]. }
      split.
      + refine (proj1 (nloop_inv solver (rbase R) (gvs g) Hb (gcs g) _ _ _ _ _ _ _ Hg0 _ HL)).
        split; cbn; [apply gap_rel_refl | lra].
      + destruct (nloop_sep solver (rbase R) (gvs g) _ _ _ _ _ _ HL) as [A|A]; [left; exact A | right; exact A].
    - intros i v Hi Hid. exact (Hdes i v Hi Hid).
    - exact Hlen.
    - exact E5.
  Qed.

  (* nudge_unsatisfied_noop: an unsatisfied exit writes nothing back *)
  Theorem nudge_unsatisfied_noop fuel R o :
    nudge_region solver fuel R = NOk o -> o_sat o = false -> o_pos o = map spos (rsegs R).
  Proof.
    intros H Hs. destruct (region_unfold _ _ _ H) as [_ [st [xf [k [_ [_ [_ [_ [_ E5]]]]]]]]].
    rewrite Hs in E5. exact E5.
  Qed.

  (* (b) channel limits.  For a non-fixed segment with a finite limit the final constraint list still holds its
     channel constraint (gap 0) against the channel variable placed at that limit; if the solver did not flag it, the
     solver position of the segment respects the limit to 1e-4 + 1e-10; the written position respects the limits
     exactly (it is clamped) whenever minSpaceLimit <= maxSpaceLimit, and a fixed segment is not written at all *)
  Theorem nudge_channel_post fuel R o i :
    nudge_region solver fuel R = NOk o -> o_sat o = true -> runify R = false ->
    (i < length (rsegs R))%nat -> sfixed (seg_of R i) = false ->
    let g := gen R in let s := seg_of R i in let x := nth (seg_var g i) (o_xs o) 0 in
    (- CHANNEL_MAX < smin s ->
       exists k c, nth_error (o_cs o) k = Some c /\ cr c = seg_var g i /\ gap c == 0 /\
         nth_error (gvs g) (cl c) = Some (mknv channelLeftID (smin s) fixedWeight) /\
         (nth_error (o_flags o) k = Some false -> smin s - SAT_TOL - TOL10 <= x)) /\
    (smax s < CHANNEL_MAX ->
       exists k c, nth_error (o_cs o) k = Some c /\ cl c = seg_var g i /\ gap c == 0 /\
         nth_error (gvs g) (cr c) = Some (mknv channelRightID (smax s) fixedWeight) /\
         (nth_error (o_flags o) k = Some false -> x <= smax s + SAT_TOL + TOL10)).
  Proof.
    intros H Hsat Hu Hi Hfx g s x.
    destruct (nudge_satisfied_post _ _ _ H Hsat) as [Ha [Hb [Hc [Hlen _]]]]. fold g in Ha, Hb, Hc, Hlen.
    destruct (Hb Hu) as [HF _].
    destruct (proj1 (proj2 (proj2 (nudge_gen_wf R))) Hu i Hi Hfx) as [HL HR]. fold g s in HL, HR.
    assert (ABS : forall a b, Qabs' (a - b) <= SAT_TOL -> b - SAT_TOL <= a /\ a <= b + SAT_TOL).
    { intros a b. unfold Qabs'. qcase; qb2p; lra. }
    split.
    - intros Hlim. destruct (HL Hlim) as [l [Hin Hl]]. apply In_nth_error in Hin. destruct Hin as [k Hk].
      destruct (Forall2_nth_error _ _ _ HF k _ Hk) as [c [Hck [[E1 [E2 E3]] Hg]]]. cbn in E1, E2, E3, Hg.
      exists k, c. split; [exact Hck|]. split; [exact E2|].
      assert (Hgap : gap c == 0) by (destruct Hg as [G|[G _]]; [exact G | lra]).
      split; [exact Hgap|]. rewrite E1. split; [exact Hl|].
      intros Hflag. destruct (Ha k c Hck Hflag) as [A _]. rewrite E1, E2, Hgap in A.
      assert (D := Hc l _ Hl ltac:(cbn; discriminate)). cbn in D. apply ABS in D. unfold x. lra.
    - intros Hlim. destruct (HR Hlim) as [r [Hin Hr]]. apply In_nth_error in Hin. destruct Hin as [k Hk].
      destruct (Forall2_nth_error _ _ _ HF k _ Hk) as [c [Hck [[E1 [E2 E3]] Hg]]]. cbn in E1, E2, E3, Hg.
      exists k, c. split; [exact Hck|]. split; [exact E1|].
      assert (Hgap : gap c == 0) by (destruct Hg as [G|[G _]]; [exact G | lra]).
      split; [exact Hgap|]. rewrite E2. split; [exact Hr|].
      intros Hflag. destruct (Ha k c Hck Hflag) as [A _]. rewrite E1, E2, Hgap in A.
      assert (D := Hc r _ Hr ltac:(cbn; discriminate)). cbn in D. apply ABS in D. unfold x. lra.
  Qed.

  (* C10_model: two segments i (curr) and j (prev) that overlapsWith each other, are not both fixed and are not
     exempted (no shouldAlignWith, no canAlignWith - which is false for different connectors -, no shared-path exemption)
     keep, in a satisfied region of the nudging stage, a gap constraint of at least the final sepDist, and if the solver
     did not flag it they end at least that far apart (to 1e-10) *)
  Theorem C10_model fuel R o i j :
    nudge_region solver fuel R = NOk o -> o_sat o = true -> runify R = false ->
    (j < i)%nat -> (i < length (rsegs R))%nat ->
    r_ov (rel_of R i j) = true -> (sfixed (seg_of R i) = false \/ sfixed (seg_of R j) = false) ->
    r_sa (rel_of R i j) = false -> r_ca (rel_of R i j) = false -> (rnsp R = true \/ r_sh (rel_of R i j) = false) ->
    0 < rbase R ->
    let g := gen R in
    exists k c, nth_error (o_cs o) k = Some c /\ cl c = seg_var g j /\ cr c = seg_var g i /\ ceq c = false /\
      o_sep o <= gap c /\ gap c <= rbase R /\ (o_sep o = rbase R \/ SAT_TOL < o_sep o) /\
      (nth_error (o_flags o) k = Some false ->
         nth (seg_var g j) (o_xs o) 0 + o_sep o <= nth (seg_var g i) (o_xs o) 0 + TOL10).
  Proof.
    intros H Hsat Hu Hji Hi Hov Hfx Hsa Hca Hsh Hbase g.
    destruct (nudge_satisfied_post _ _ _ H Hsat) as [Ha [Hb _]]. fold g in Ha, Hb.
    destruct (Hb Hu) as [HF Hsep].
    pose proof (gen_GI R) as G. fold g in G.
    assert (Hcond : pair_cond R (seg_of R i) (sfixed (seg_of R j)) (rel_of R i j) = true).
    { unfold pair_cond. rewrite Hov. cbn. destruct Hfx as [->| ->]; cbn; [reflexivity | apply orb_true_r]. }
    pose proof (gi_pair _ _ _ G Hu i j Hji Hi Hcond) as Hin.
    assert (Hge : pair_ge R (rel_of R i j) = (rbase R, false)).
    { unfold pair_ge. rewrite Hsa, Hca. destruct Hsh as [->| ->]; cbn; [reflexivity | rewrite andb_false_r; reflexivity]. }
    rewrite Hge in Hin. cbn [fst snd] in Hin.
    apply In_nth_error in Hin. destruct Hin as [k Hk].
    destruct (Forall2_nth_error _ _ _ HF k _ Hk) as [c [Hck [[E1 [E2 E3]] Hg]]]. cbn in E1, E2, E3, Hg.
    assert (Hgap : o_sep o <= gap c /\ gap c <= rbase R).
    { destruct Hg as [G1|[_ [G1 G2]]]; [|split; assumption]. rewrite G1. split; [|lra].
      (* sepDist never exceeds the base distance *)
      destruct (region_unfold _ _ _ H) as [Hpre [st [xf [k0 [HL [E1' _]]]]]]. rewrite Hsat, Hu in HL. fold g in HL.
      assert (Hg0 : forall c0, In c0 (gcs g) -> gap c0 == 0 \/ gap c0 == rbase R).
      { intros c0 Hc0. destruct (proj1 (nudge_gen_wf R) c0 Hc0) as [_ [_ [A|A]]]; [left; exact A | right; rewrite A; reflexivity]. }
      assert (I0 : ninv (rbase R) (gcs g) (mklst (rbase R) (gcs g) [] (gen_pot R) false (repeat false (length (gcs g))))).
      { split; cbn; [apply gap_rel_refl | lra]. }
      pose proof (nloop_inv solver (rbase R) (gvs g) (gen_pre_base _ Hpre) (gcs g) _ _ _ _ _ _ _ Hg0 I0 HL) as [_ X].
      rewrite E1'. exact X. }
    exists k, c. repeat split; try tauto.
    intros Hflag. destruct (Ha k c Hck Hflag) as [A _]. rewrite E1, E2 in A. lra.
  Qed.

  (* ---- immovable members (seeded change C10-6, DESIGN 9.13).  A segment built by the fixed-segment constructor
     (first / last segment, segment through a checkpoint, end segment of a fixed route: fixed, not final, no checkpoints
     recorded, no bend) is an IMMOVABLE MEMBER of its region: in a satisfied region of the nudging stage it keeps its
     position exactly, and every movable segment that overlapsWith it and is not exempted ends at least the final
     (possibly reduced) sepDist away from it, on the side the processing order put it: to SAT_TOL + 1e-10 for the
     solver position, and to SAT_TOL + 1e-10 + d for the written position when the solver position respects the
     segment's limits to d (nudge_channel_post: d = SAT_TOL + 1e-10 for finite limits whose channel constraints the
     solver did not flag). *)
  Definition plain_fixed (s : seg) : Prop := sfixed s = true /\ sfinal s = false /\ scp s = false /\ szigzag s = false.

  Lemma written_nth R g xs i : (i < length (rsegs R))%nat ->
    nth i (written R g xs) 0 = new_pos (seg_of R i) (nth (seg_var g i) xs 0).
  Proof.
    intros Hi. unfold written.
    assert (Hs : nth_error (rsegs R) i = Some (seg_of R i)) by (unfold seg_of; apply nth_error_nth'; exact Hi).
    apply indexed_nth_error in Hs.
    apply nth_error_nth. rewrite nth_error_map, Hs. reflexivity.
  Qed.

  Lemma plain_fixed_var fuel R o i :
    nudge_region solver fuel R = NOk o -> o_sat o = true -> (i < length (rsegs R))%nat -> plain_fixed (seg_of R i) ->
    Qabs' (nth (seg_var (gen R) i) (o_xs o) 0 - spos (seg_of R i)) <= SAT_TOL /\ nth i (o_pos o) 0 = spos (seg_of R i).
  Proof.
    intros H Hsat Hi [F1 [F2 [F3 F4]]].
    destruct (nudge_satisfied_post _ _ _ H Hsat) as [_ [_ [Hc [_ Hw]]]].
    pose proof (proj1 (proj2 (nudge_gen_wf R)) i Hi) as Hv.
    rewrite (create_var_plain_fixed _ _ _ F1 F2 F3 F4) in Hv. split.
    - exact (Hc _ _ Hv ltac:(cbn; discriminate)).
    - rewrite Hw, written_nth by exact Hi. apply new_pos_fixed. exact F1.
  Qed.

  Theorem nudge_immovable_member_post fuel R o i j :
    nudge_region solver fuel R = NOk o -> o_sat o = true -> runify R = false ->
    (j < i)%nat -> (i < length (rsegs R))%nat ->
    r_ov (rel_of R i j) = true -> r_sa (rel_of R i j) = false -> r_ca (rel_of R i j) = false ->
    (rnsp R = true \/ r_sh (rel_of R i j) = false) -> 0 < rbase R ->
    let g := gen R in let si := seg_of R i in let sj := seg_of R j in
    let xi := nth (seg_var g i) (o_xs o) 0 in let xj := nth (seg_var g j) (o_xs o) 0 in
    let wi := nth i (o_pos o) 0 in let wj := nth j (o_pos o) 0 in
    (o_sep o = rbase R \/ SAT_TOL < o_sep o) /\
    (* the immovable member is the earlier segment of the processing order: the movable one ends ABOVE it *)
    (plain_fixed sj -> sfixed si = false ->
       wj = spos sj /\
       exists k c, nth_error (o_cs o) k = Some c /\ cl c = seg_var g j /\ cr c = seg_var g i /\ o_sep o <= gap c /\
         (nth_error (o_flags o) k = Some false ->
            spos sj + o_sep o <= xi + SAT_TOL + TOL10 /\
            forall d, 0 <= d -> smin si - d <= xi -> xi <= smax si + d -> spos sj + o_sep o <= wi + SAT_TOL + TOL10 + d)) /\
    (* the immovable member is the later one: the movable one ends BELOW it *)
    (plain_fixed si -> sfixed sj = false ->
       wi = spos si /\
       exists k c, nth_error (o_cs o) k = Some c /\ cl c = seg_var g j /\ cr c = seg_var g i /\ o_sep o <= gap c /\
         (nth_error (o_flags o) k = Some false ->
            xj + o_sep o <= spos si + SAT_TOL + TOL10 /\
            forall d, 0 <= d -> smin sj - d <= xj -> xj <= smax sj + d -> wj + o_sep o <= spos si + SAT_TOL + TOL10 + d)).
  Proof.
    intros H Hsat Hu Hji Hi Hov Hsa Hca Hsh Hbase g si sj xi xj wi wj.
    assert (Hj : (j < length (rsegs R))%nat) by lia.
    assert (ABS : forall a b, Qabs' (a - b) <= SAT_TOL -> b - SAT_TOL <= a /\ a <= b + SAT_TOL).
    { intros a b. unfold Qabs'. qcase; qb2p; lra. }
    destruct (nudge_satisfied_post _ _ _ H Hsat) as [_ [Hb [_ [_ Hw]]]].
    split; [exact (proj2 (Hb Hu))|]. split.
    - intros Hpf Hfi.
      destruct (plain_fixed_var _ _ _ j H Hsat Hj Hpf) as [Hx Hwj]. fold g sj xj wj in Hx, Hwj.
      split; [exact Hwj|].
      destruct (C10_model fuel R o i j H Hsat Hu Hji Hi Hov (or_introl Hfi) Hsa Hca Hsh Hbase)
        as [k [c [Hc [E1 [E2 [_ [G1 [_ [_ Hpos]]]]]]]]]. fold g in E1, E2, Hpos.
      exists k, c. repeat (split; [assumption|]).
      intros Hfl. specialize (Hpos Hfl). fold xi xj in Hpos. apply ABS in Hx.
      split; [lra|]. intros d Hd Hlo Hhi.
      assert (Hcl : Qabs' (wi - xi) <= d).
      { unfold wi. rewrite Hw, written_nth by exact Hi. fold g si xi. apply new_pos_close; assumption. }
      assert (xi - d <= wi) by (revert Hcl; unfold Qabs'; qcase; qb2p; lra).
      lra.
    - intros Hpf Hfj.
      destruct (plain_fixed_var _ _ _ i H Hsat Hi Hpf) as [Hx Hwi]. fold g si xi wi in Hx, Hwi.
      split; [exact Hwi|].
      destruct (C10_model fuel R o i j H Hsat Hu Hji Hi Hov (or_intror Hfj) Hsa Hca Hsh Hbase)
        as [k [c [Hc [E1 [E2 [_ [G1 [_ [_ Hpos]]]]]]]]]. fold g in E1, E2, Hpos.
      exists k, c. repeat (split; [assumption|]).
      intros Hfl. specialize (Hpos Hfl). fold xi xj in Hpos. apply ABS in Hx.
      split; [lra|]. intros d Hd Hlo Hhi.
      assert (Hcl : Qabs' (wj - xj) <= d).
      { unfold wj. rewrite Hw, written_nth by exact Hj. fold g sj xj. apply new_pos_close; assumption. }
      assert (wj <= xj + d) by (revert Hcl; unfold Qabs'; qcase; qb2p; lra).
      lra.
  Qed.
End Post.

(* nudge_no_new_segments: the write-back of one segment assigns one coordinate of existing points of the route:
   the number of points and the other coordinate of every point are unchanged *)
Lemma upd_nth_length {A} (l : list A) : forall n v, length (upd_nth l n v) = length l.
Proof. induction l as [|h t IH]; intros [|n] v; cbn; auto. Qed.

Lemma upd_nth_nth_error {A} (l : list A) : forall n v k,
  nth_error (upd_nth l n v) k = if Nat.eqb k n then (match nth_error l k with Some _ => Some v | None => None end)
                                else nth_error l k.
Proof.
  induction l as [|h t IH]; intros [|n] v [|k]; cbn; try reflexivity.
  - destruct (k =? n)%nat; reflexivity.
  - apply IH.
Qed.

Definition other_coord (dim : bool) (p : pt) : Q := if dim then px p else py p.

Theorem nudge_no_new_segments dim v : forall idx route,
  length (write_points dim route idx v) = length route /\
  forall k p, nth_error route k = Some p ->
    exists p', nth_error (write_points dim route idx v) k = Some p' /\ other_coord dim p' = other_coord dim p /\
               (~ In k idx -> p' = p).
Proof.
  unfold write_points. induction idx as [|i t IH]; intros route; cbn [fold_left].
  - split; [reflexivity|]. intros k p Hk. exists p. auto.
  - set (r1 := match nth_error route i with Some p => upd_nth route i (set_coord dim p v) | None => route end).
    destruct (IH r1) as [L1 P1]. split.
    + rewrite L1. unfold r1. destruct (nth_error route i); [apply upd_nth_length | reflexivity].
    + intros k p Hk.
      assert (exists q, nth_error r1 k = Some q /\ other_coord dim q = other_coord dim p /\ (k <> i -> q = p)) as [q [Q1 [Q2 Q3]]].
      { unfold r1. destruct (nth_error route i) as [pi|] eqn:Ei.
        - rewrite upd_nth_nth_error. destruct (k =? i)%nat eqn:Eki.
          + apply Nat.eqb_eq in Eki. subst k. rewrite Hk. rewrite Hk in Ei. inversion Ei; subst.
            exists (set_coord dim pi v). split; [reflexivity|]. split; [unfold set_coord, other_coord; destruct dim; reflexivity | intros C; contradiction].
          + exists p. auto.
        - exists p. auto. }
      destruct (P1 k q Q1) as [p' [A [B C]]]. exists p'. split; [exact A|]. split; [rewrite B; exact Q2|].
      intros Hn. rewrite C by (intros X; apply Hn; right; exact X). apply Q3. intros ->. apply Hn. left. reflexivity.
Qed.

(* ================================================================== Part 4: the region checker run on real dumps *)

Record region_post (tol : Q) (R : region) (g : gst) (sep : Q) (cs : list con) (xs pos : list Q) : Prop := {
  rp_cons : forall c, In c cs ->
      nth (cl c) xs 0 + gap c <= nth (cr c) xs 0 + tol /\
      (ceq c = true -> nth (cr c) xs 0 <= nth (cl c) xs 0 + gap c + tol);
  rp_gaps : forall c, In c cs -> gap c == 0 \/ (sep <= gap c /\ gap c <= rbase R);
  rp_vars : forall i v, nth_error (gvs g) i = Some v -> vid v <> freeSegmentID ->
      Qabs' (nth i xs 0 - vdes v) <= SAT_TOL;
  rp_written : forall i s w, nth_error (rsegs R) i = Some s -> nth_error pos i = Some w ->
      (sfixed s = true -> w == spos s) /\
      (sfixed s = false -> w == Qmin' (Qmax' (nth (seg_var g i) xs 0) (smin s)) (smax s) /\
                           (smin s <= smax s -> smin s <= w /\ w <= smax s) /\
                           (runify R = false -> Qabs' (w - nth (seg_var g i) xs 0) <= SAT_TOL + tol))
}.

Theorem nudge_region_ok_sound tol R g sat sep cs xs pos :
  nudge_region_ok tol R g sat sep cs xs pos = true ->
  if sat then region_post tol R g sep cs xs pos
  else forall i s w, nth_error (rsegs R) i = Some s -> nth_error pos i = Some w -> w == spos s.
Proof.
  unfold nudge_region_ok. destruct sat.
  - rewrite !andb_true_iff, !forallb_forall. intros [[[[[[Hl1 Hl2] Hrng] Hcon] Hgap] Hvar] Hwr]. split.
    + intros c Hc. specialize (Hcon c Hc). unfold con_ok in Hcon. apply andb_true_iff in Hcon.
      destruct Hcon as [A B]. apply Qleb_spec in A. split; [lra|].
      intros E. rewrite E in B. cbn in B. apply Qleb_spec in B. lra.
    + intros c Hc. specialize (Hgap c Hc). unfold gap_ok in Hgap. apply orb_true_iff in Hgap.
      destruct Hgap as [A|A]; [left; apply Qeqb_spec; exact A|]. right. apply andb_true_iff in A.
      rewrite !Qleb_spec in A. exact A.
    + intros i v Hi Hid. apply Nat.eqb_eq in Hl1.
      assert (exists x, nth_error xs i = Some x) as [x Hx].
      { destruct (nth_error xs i) eqn:E; [eauto|]. apply nth_error_None in E.
        pose proof (nth_error_some_lt _ _ _ Hi). lia. }
      specialize (Hvar (v, x) (combine_nth_error _ _ _ _ _ Hi Hx)). cbn in Hvar. unfold var_ok in Hvar.
      apply negb_true_iff in Hvar. rewrite (nth_error_nth _ _ 0 Hx). exact (off_desired_false _ _ Hvar Hid).
    + intros i s w Hs Hw.
      specialize (Hwr ((i, s), w) (combine_nth_error _ _ _ _ _ (indexed_nth_error _ _ _ Hs) Hw)). cbn in Hwr.
      unfold seg_written_ok in Hwr. split.
      * intros Hf. rewrite Hf in Hwr. apply Qeqb_spec. exact Hwr.
      * intros Hf. rewrite Hf in Hwr. apply andb_true_iff in Hwr. destruct Hwr as [AB D].
        apply andb_true_iff in AB. destruct AB as [A B].
        apply Qeqb_spec in A. split; [exact A|]. split; [|intros Hu; rewrite Hu in D; cbn in D; apply Qleb_spec in D; exact D]. intros Hle. apply orb_true_iff in B. destruct B as [B|B].
        { apply negb_true_iff, Qleb_false in B. lra. }
        apply andb_true_iff in B. rewrite !Qleb_spec in B. exact B.
  - rewrite andb_true_iff, forallb_forall. intros [_ H] i s w Hs Hw.
    specialize (H (s, w) (combine_nth_error _ _ _ _ _ Hs Hw)). cbn in H. apply Qeqb_spec. exact H.
Qed.

(* ================================================================== non-vacuity and computed witnesses *)

(* a concrete region of the nudging stage: three segments of three connectors in one channel [0, 10], base distance 4,
   the middle one with a fixed end segment on the right; solved by a hand-made "solver" that returns a feasible
   placement.  It exercises nudge_region, the satisfied exit and the hypotheses of C10_model. *)
Definition ex_seg (c : Z) (p : Q) : seg := mkseg c p false false false false false false 0 10 0 20 false false [].
Definition ex_rel : rel := mkrel true false false false.
Definition ex_R : region := mkregion false 4 false true [ex_seg 1 5; ex_seg 2 5; ex_seg 3 5] [[]; [ex_rel]; [ex_rel; ex_rel]].
Definition ex_solver (k : nat) (vs : list nvar) (cs : list con) (fl : list bool) : list Q * list bool :=
  ([1; 0; 10; 5; 0; 10; 9; 0; 10], fl).

Example ex_region_runs :
  exists o, nudge_region ex_solver 5 ex_R = NOk o /\ o_sat o = true /\ o_pos o = [1; 5; 9] /\ o_sep o = 4.
Proof. eexists. split; [vm_compute; reflexivity|]. vm_compute. repeat split; reflexivity. Qed.

Example ex_gen_shape : length (gvs (gen ex_R)) = 9%nat /\ length (gcs (gen ex_R)) = 9%nat /\ ggap (gen ex_R) = [3; 6; 7]%nat.
Proof. vm_compute. repeat split; reflexivity. Qed.

(* the contract hypothesis of Section Post is satisfiable on this region's problem (the placement above satisfies every
   generated constraint exactly) *)
Example ex_contract_holds :
  forallb (con_ok 0 (fst (ex_solver 0 [] [] []))) (gcs (gen ex_R)) = true.
Proof. vm_compute. reflexivity. Qed.

Example ex_checker_accepts :
  nudge_region_ok 0 ex_R (gen ex_R) true 4 (gcs (gen ex_R)) (fst (ex_solver 0 [] [] [])) [1; 5; 9] = true.
Proof. vm_compute. reflexivity. Qed.
Example ex_checker_rejects_overlap :
  nudge_region_ok 0 ex_R (gen ex_R) true 4 (gcs (gen ex_R)) [5; 0; 10; 5; 0; 10; 9; 0; 10] [5; 5; 9] = false.
Proof. vm_compute. reflexivity. Qed.

(* an unsatisfied exit: channel [0, 0.5] cannot hold three segments at any sepDist > 1e-4 with this (unhelpful) solver
   result; nothing is written back *)
Definition ex_seg_n (c : Z) : seg := mkseg c 5 false false false false false false 5 (11 # 2) 0 20 false false [].
Definition ex_Rn : region := mkregion false 4 false true [ex_seg_n 1; ex_seg_n 2] [[]; [ex_rel]].
Definition ex_solver_n (k : nat) (vs : list nvar) (cs : list con) (fl : list bool) : list Q * list bool :=
  ([4; 4; 6; 6; 4; 6], fl).
Example ex_unsatisfied_noop :
  exists o, nudge_region ex_solver_n 20 ex_Rn = NOk o /\ o_sat o = false /\ o_pos o = [5; 5] /\ o_solves o = 10%nat.
Proof. eexists. split; [vm_compute; reflexivity|]. vm_compute. repeat split; reflexivity. Qed.

(* ---- an immovable member (the first nudging region of the demo of seeded change C10-6): the first segment x = 100,
   y in [0,150] of a connector with a fixed route, and the Z-bend middle segment of another connector centred onto it
   (limits [40,160]).  The hypotheses of nudge_immovable_member_post hold for (i, j) = (1, 0): the fixed segment keeps
   x = 100, the movable one ends 4 above it. *)
Definition ex_fixseg : seg := mkseg 30 100 true false false false false false 100 100 0 150 false false [].
Definition ex_zseg : seg := mkseg 10 100 false false false false false true 40 160 20 80 false true [].
Definition ex_Rfx : region := mkregion false 4 false true [ex_fixseg; ex_zseg] [[]; [ex_rel]].
Example ex_immovable_member :
  exists o, nudge_region (fun _ _ _ fl => ([100; 104; 40; 160], fl)) 5 ex_Rfx = NOk o /\ o_sat o = true /\
            o_pos o = [100; 104] /\ o_sep o = 4 /\ o_flags o = [false; false; false] /\
            plain_fixed (seg_of ex_Rfx 0) /\ sfixed (seg_of ex_Rfx 1) = false /\
            r_ov (rel_of ex_Rfx 1 0) = true /\ r_sa (rel_of ex_Rfx 1 0) = false /\ r_ca (rel_of ex_Rfx 1 0) = false.
Proof. eexists. split; [vm_compute; reflexivity|]. vm_compute. repeat split; reflexivity. Qed.

(* ---- the two assertion mechanisms found in the unsatisfied-range bookkeeping, as computed witnesses of the model.
   (1) COLA_ASSERT(vs[it->second]->id != freeSegmentID) (:3041; KNOWN_FINDINGS C15): a segment with a finite
       minSpaceLimit but maxSpaceLimit = CHANNEL_MAX has no channel-right variable, so the range (i, i+1) opened at its
       unsatisfied channel-left variable ends on the NEXT segment's variable, which is free.
   (2) COLA_ASSERT(vs[i - 1]->id == channelLeftID) (:2925): a segment with a finite maxSpaceLimit but no finite
       minSpaceLimit: the unsatisfied channel-right variable is preceded by the segment's own (free) variable. *)
Definition ex_seg_half (c : Z) (mn mx : Q) : seg := mkseg c 5 false false false false false false mn mx 0 20 false false [].
Definition ex_R5 : region :=
  mkregion false 4 false true [ex_seg_half 1 5 CHANNEL_MAX; ex_seg_half 2 (- CHANNEL_MAX) CHANNEL_MAX] [[]; [ex_rel]].
Example ex_assert5 :
  nudge_region (fun _ _ _ fl => ([4; 4; 8], fl)) 20 ex_R5 = NAssert 5.
Proof. vm_compute. reflexivity. Qed.
Definition ex_R2 : region :=
  mkregion false 4 false true [ex_seg_half 1 (- CHANNEL_MAX) 5] [[]].
Example ex_assert2 :
  nudge_region (fun _ _ _ fl => ([6; 6], fl)) 20 ex_R2 = NAssert 2.
Proof. vm_compute. reflexivity. Qed.

(* ---- a satisfied region with a violated gap constraint: the flag the nudging code never reads.  An equality
   (shared-path exemption) between segments 0 and 2 and gap constraints 0 -> 1 -> 2: the solver drops (flags) one gap
   constraint, every non-free variable is at its desired position, the region is `satisfied` and written back. *)
Definition ex_Rf : region :=
  mkregion false 4 false false
           [ex_seg_half 1 (- CHANNEL_MAX) CHANNEL_MAX; ex_seg_half 2 (- CHANNEL_MAX) CHANNEL_MAX; ex_seg_half 1 (- CHANNEL_MAX) CHANNEL_MAX]
           [[]; [ex_rel]; [mkrel true false false true; ex_rel]].
Example ex_flag_ignored :
  exists o, nudge_region (fun _ _ _ _ => ([5; 9; 5], [false; false; true])) 20 ex_Rf = NOk o /\ o_sat o = true /\
            o_pos o = [5; 9; 5] /\ nudge_region_ok 0 ex_Rf (gen ex_Rf) true (o_sep o) (o_cs o) (o_xs o) (o_pos o) = false.
Proof. eexists. split; [vm_compute; reflexivity|]. vm_compute. repeat split; reflexivity. Qed.

Lemma satisfied_without_flags_refuted :
  exists solver R o, nudge_region solver 20 R = NOk o /\ o_sat o = true /\
    nudge_region_ok 0 R (gen R) true (o_sep o) (o_cs o) (o_xs o) (o_pos o) = false.
Proof.
  destruct ex_flag_ignored as [o [A [B [_ C]]]].
  exact (ex_intro _ _ (ex_intro _ ex_Rf (ex_intro _ o (conj A (conj B C))))).
Qed.
