(* Scene-level verified checker for C10 (DESIGN 5.10, V): run on the real route() / displayRoute() of every connector
   after orthogonal routing + nudging.  Executable deciders + their declarative meaning (soundness by forallb_forall).
   Independent of the region model.  Rectangles are axis-parallel; routes are polylines of `pt`. *)
From Coq Require Import QArith List Bool Arith ZArith Lia.
From Adapt Require Import Num.Qaux.
Import ListNotations.
Local Open Scope Q_scope.

Record box := mkbox { b_id : Z; bx0 : Q; by0 : Q; bx1 : Q; by1 : Q }.
Record sconn := mksconn {
  c_id : Z;
  c_raw : list pt;       (* ConnRef::route() *)
  c_disp : list pt;      (* ConnRef::displayRoute() *)
  c_cps : list pt;       (* routing checkpoints *)
  c_att : list Z;        (* ids of the shapes its ends are attached to (pins): their interior is not an obstacle for it *)
  c_fixed : bool         (* the connector has a user-specified fixed route (ConnRef::setFixedRoute): c_raw is that route *)
}.

Definition horiz (a b : pt) : bool := Qeqb (py a) (py b).
Definition vert (a b : pt) : bool := Qeqb (px a) (px b).
Definition orth_seg (a b : pt) : bool := horiz a b || vert a b.

Fixpoint pairs_of (l : list pt) : list (pt * pt) :=
  match l with
  | a :: ((b :: _) as t) => (a, b) :: pairs_of t
  | _ => []
  end.

(* simplification: drop repeated points and interior points of straight runs *)
Definition collinear3 (a b c : pt) : bool :=
  (Qeqb (px a) (px b) && Qeqb (px b) (px c)) || (Qeqb (py a) (py b) && Qeqb (py b) (py c)).
Fixpoint simp (acc : list pt) (l : list pt) : list pt :=
  match l with
  | [] => rev acc
  | p :: t =>
      match acc with
      | b :: ((a :: r) as acc') =>
          if pt_eqb b p then simp acc t
          else if collinear3 a b p then simp (p :: acc') t else simp (p :: acc) t
      | [b] => if pt_eqb b p then simp acc t else simp (p :: acc) t
      | [] => simp [p] t
      end
  end.
Definition simplify (l : list pt) : list pt := simp [] l.

Definition lo (a b : Q) := Qmin' a b.
Definition hi (a b : Q) := Qmax' a b.

(* parallel, at most tol apart, extents share more than tol of length *)
Definition seg_overlap (tol : Q) (s t : pt * pt) : bool :=
  let '(a, b) := s in let '(c, d) := t in
  (horiz a b && horiz c d && Qleb (Qabs' (py a - py c)) tol &&
   Qltb tol (lo (hi (px a) (px b)) (hi (px c) (px d)) - hi (lo (px a) (px b)) (lo (px c) (px d))))
  ||
  (vert a b && vert c d && Qleb (Qabs' (px a - px c)) tol &&
   Qltb tol (lo (hi (py a) (py b)) (hi (py c) (py d)) - hi (lo (py a) (py b)) (lo (py c) (py d)))).

Definition on_seg (p : pt) (s : pt * pt) : bool :=
  let '(a, b) := s in
  Qleb (lo (px a) (px b)) (px p) && Qleb (px p) (hi (px a) (px b)) &&
  Qleb (lo (py a) (py b)) (py p) && Qleb (py p) (hi (py a) (py b)).

Definition on_route (r : list pt) (p : pt) : bool := existsb (on_seg p) (pairs_of r).

(* an axis-parallel segment meets the open interior of a box *)
Definition seg_in_box (B : box) (s : pt * pt) : bool :=
  let '(a, b) := s in
  (horiz a b && Qltb (by0 B) (py a) && Qltb (py a) (by1 B) &&
   Qltb (hi (lo (px a) (px b)) (bx0 B)) (lo (hi (px a) (px b)) (bx1 B)))
  ||
  (vert a b && Qltb (bx0 B) (px a) && Qltb (px a) (bx1 B) &&
   Qltb (hi (lo (py a) (py b)) (by0 B)) (lo (hi (py a) (py b)) (by1 B))).

Definition zmem (z : Z) (l : list Z) : bool := existsb (Z.eqb z) l.

Definition route_clear (boxes : list box) (att : list Z) (r : list pt) : bool :=
  forallb (fun s => forallb (fun B => zmem (b_id B) att || negb (seg_in_box B s)) boxes) (pairs_of r).

Definition route_orth (r : list pt) : bool := forallb (fun s => orth_seg (fst s) (snd s)) (pairs_of r).

Definition first_pt (r : list pt) : pt := hd pt0 r.
Definition last_pt (r : list pt) : pt := last r pt0.

(* ---- per-connector conditions *)
Definition ends_kept (c : sconn) : bool :=
  pt_eqb (first_pt (c_disp c)) (first_pt (c_raw c)) && pt_eqb (last_pt (c_disp c)) (last_pt (c_raw c)).
Definition cps_kept (c : sconn) : bool :=
  forallb (fun p => negb (on_route (c_raw c) p) || on_route (c_disp c) p) (c_cps c).
Definition no_new_segments (c : sconn) : bool :=
  Nat.leb (length (simplify (c_disp c))) (length (simplify (c_raw c))).
Definition still_orth (c : sconn) : bool := negb (route_orth (c_raw c)) || route_orth (c_disp c).
Definition still_clear (boxes : list box) (c : sconn) : bool :=
  negb (route_clear boxes (c_att c) (c_raw c)) || route_clear boxes (c_att c) (c_disp c).
(* a fixed route is returned as given ("libavoid will ... just return the specified route", connector.h): every one of its
   segments is an immovable member of the nudging regions, so the simplified display route is the simplified given route *)
Fixpoint pts_eqb (a b : list pt) : bool :=
  match a, b with
  | [], [] => true
  | p :: a', q :: b' => pt_eqb p q && pts_eqb a' b'
  | _, _ => false
  end.
Definition fixed_kept (c : sconn) : bool :=
  negb (c_fixed c) || pts_eqb (simplify (c_disp c)) (simplify (c_raw c)).

(* ---- pairwise condition *)
(* segments of the simplified display route with: is first/last segment, contains a checkpoint of its connector, belongs to
   a connector with a fixed route *)
Record dseg := mkdseg { d_s : pt * pt; d_end : bool; d_cp : bool; d_fix : bool }.
Definition dsegs (c : sconn) : list dseg :=
  let ps := pairs_of (simplify (c_disp c)) in
  let n := length ps in
  map (fun ks : nat * (pt * pt) =>
         mkdseg (snd ks) (Nat.eqb (fst ks) 0 || Nat.eqb (S (fst ks)) n) (existsb (fun p => on_seg p (snd ks)) (c_cps c))
                (c_fixed c))
      (combine (seq 0 n) ps).

Definition immovable (d : dseg) : bool := d_end d || d_cp d || d_fix d.

Definition common_end (a b : sconn) : bool :=
  let ea := [first_pt (c_raw a); last_pt (c_raw a)] in
  let eb := [first_pt (c_raw b); last_pt (c_raw b)] in
  existsb (fun p => existsb (pt_eqb p) eb) ea.

(* "the channel is wide enough": for two overlapping parallel segments take the stretch both cover; the channel is
   bounded by the nearest rectangle sides on either side of it (rectangles whose extent along the stretch meets it);
   k = number of route segments (of any connector) running through that channel along the stretch.  The channel is too
   narrow for the requested distance when both walls exist and  width < (k - 1) * dist. *)
Definition qmax_opt (a : option Q) (b : Q) : option Q := match a with None => Some b | Some x => Some (hi x b) end.
Definition qmin_opt (a : option Q) (b : Q) : option Q := match a with None => Some b | Some x => Some (lo x b) end.

Definition is_vert_pair (s t : pt * pt) : bool := vert (fst s) (snd s) && vert (fst t) (snd t).

(* coordinates as (across, along) for a vertical pair; for a horizontal pair the roles of x and y are swapped *)
Definition across (v : bool) (p : pt) : Q := if v then px p else py p.
Definition along (v : bool) (p : pt) : Q := if v then py p else px p.
Definition b_lo_across (v : bool) (B : box) := if v then bx0 B else by0 B.
Definition b_hi_across (v : bool) (B : box) := if v then bx1 B else by1 B.
Definition b_lo_along (v : bool) (B : box) := if v then by0 B else bx0 B.
Definition b_hi_along (v : bool) (B : box) := if v then by1 B else bx1 B.

Definition stretch (v : bool) (s t : pt * pt) : Q * Q :=
  (hi (lo (along v (fst s)) (along v (snd s))) (lo (along v (fst t)) (along v (snd t))),
   lo (hi (along v (fst s)) (along v (snd s))) (hi (along v (fst t)) (along v (snd t)))).

Definition walls (v : bool) (boxes : list box) (p : Q) (I : Q * Q) : option Q * option Q :=
  fold_left (fun acc B =>
    if Qltb (hi (b_lo_along v B) (fst I)) (lo (b_hi_along v B) (snd I)) then
      (if Qleb (b_hi_across v B) p then qmax_opt (fst acc) (b_hi_across v B) else fst acc,
       if Qleb p (b_lo_across v B) then qmin_opt (snd acc) (b_lo_across v B) else snd acc)
    else acc) boxes (None, None).

Definition seg_in_channel (tol : Q) (v : bool) (l u : Q) (I : Q * Q) (d : pt * pt) : bool :=
  (if v then vert (fst d) (snd d) else horiz (fst d) (snd d)) &&
  Qleb l (across v (fst d)) && Qleb (across v (fst d)) u &&
  Qltb tol (lo (hi (along v (fst d)) (along v (snd d))) (snd I) - hi (lo (along v (fst d)) (along v (snd d))) (fst I)).

Definition count_in_channel (tol : Q) (v : bool) (l u : Q) (I : Q * Q) (cs : list sconn) : nat :=
  fold_left (fun n c => (n + length (filter (seg_in_channel tol v l u I) (pairs_of (simplify (c_disp c)))))%nat) cs O.

(* immovable segments of the scene (first/last segments, segments through a checkpoint, segments of fixed routes) that run parallel to the stretch
   at another position bound the channel like rectangle sides do *)
Definition seg_walls (tol : Q) (v : bool) (p : Q) (I : Q * Q) (acc : option Q * option Q) (ds : list dseg)
  : option Q * option Q :=
  fold_left (fun acc d =>
    let g := d_s d in
    if immovable d && (if v then vert (fst g) (snd g) else horiz (fst g) (snd g)) &&
       Qltb tol (lo (hi (along v (fst g)) (along v (snd g))) (snd I) - hi (lo (along v (fst g)) (along v (snd g))) (fst I))
    then (if Qltb (across v (fst g)) (p - tol) then qmax_opt (fst acc) (across v (fst g)) else fst acc,
          if Qltb (p + tol) (across v (fst g)) then qmin_opt (snd acc) (across v (fst g)) else snd acc)
    else acc) ds acc.

Definition channel_narrow (tol dist : Q) (boxes : list box) (cs : list sconn) (s t : pt * pt) : bool :=
  let v := is_vert_pair s t in
  let I := stretch v s t in
  let p := across v (fst s) in
  match seg_walls tol v p I (walls v boxes p I) (flat_map dsegs cs) with
  | (Some l, Some u) =>
      let k := count_in_channel tol v l u I cs in
      Qltb (u - l) (inject_Z (Z.of_nat (k - 1)) * dist)
  | _ => false
  end.

(* a segment that cannot be shifted: a first/last segment, a segment through a checkpoint, a segment of a fixed route, or a segment whose own channel
   (walls taken over its whole extent, since it moves as a whole) is too narrow for the segments running in it - e.g. a
   segment squeezed between two rectangle sides at the same coordinate *)
Definition stuck (tol dist : Q) (boxes : list box) (all : list sconn) (d : dseg) : bool :=
  immovable d || channel_narrow tol dist boxes all (d_s d) (d_s d).

Definition pair_ok (tol dist : Q) (boxes : list box) (all : list sconn) (a b : sconn) : bool :=
  common_end a b ||
  forallb (fun s => forallb (fun t => negb (seg_overlap tol (d_s s) (d_s t))
                                      || (stuck tol dist boxes all s && stuck tol dist boxes all t)
                                      || channel_narrow tol dist boxes all (d_s s) (d_s t)) (dsegs b))
          (dsegs a).

Fixpoint all_pairs {A} (f : A -> A -> bool) (l : list A) : bool :=
  match l with
  | [] => true
  | a :: t => forallb (f a) t && all_pairs f t
  end.

Definition scene_ok (tol dist : Q) (boxes : list box) (cs : list sconn) : bool :=
  forallb ends_kept cs && forallb cps_kept cs && forallb no_new_segments cs &&
  forallb still_orth cs && forallb (still_clear boxes) cs && forallb fixed_kept cs && all_pairs (pair_ok tol dist boxes cs) cs.

(* ------------------------------------------------------------------ declarative meaning *)
Definition overlapping (tol : Q) (s t : pt * pt) : Prop :=
  let '(a, b) := s in let '(c, d) := t in
  (py a == py b /\ py c == py d /\ Qabs' (py a - py c) <= tol /\
   tol < lo (hi (px a) (px b)) (hi (px c) (px d)) - hi (lo (px a) (px b)) (lo (px c) (px d)))
  \/
  (px a == px b /\ px c == px d /\ Qabs' (px a - px c) <= tol /\
   tol < lo (hi (py a) (py b)) (hi (py c) (py d)) - hi (lo (py a) (py b)) (lo (py c) (py d))).

Lemma seg_overlap_spec tol s t : seg_overlap tol s t = true <-> overlapping tol s t.
Proof.
  destruct s as [a b], t as [c d]. unfold seg_overlap, overlapping, horiz, vert.
  rewrite orb_true_iff, !andb_true_iff, !Qeqb_spec, !Qleb_spec, !Qltb_spec. tauto.
Qed.

Lemma pts_eqb_spec a b : pts_eqb a b = true -> Forall2 pt_eq a b.
Proof.
  revert b. induction a as [|p a IH]; intros [|q b] H; cbn in H; try discriminate; constructor.
  - apply andb_true_iff in H. apply pt_eqb_spec. tauto.
  - apply IH. apply andb_true_iff in H. tauto.
Qed.

Lemma all_pairs_spec {A} (f : A -> A -> bool) l :
  all_pairs f l = true ->
  forall i j a b, (i < j)%nat -> nth_error l i = Some a -> nth_error l j = Some b -> f a b = true.
Proof.
  induction l as [|h t IH]; intros H i j a b Hij Ha Hb.
  - destruct i; discriminate.
  - cbn in H. apply andb_true_iff in H. destruct H as [Hh Ht].
    destruct j as [|j]; [lia|]. destruct i as [|i]; cbn in Ha, Hb.
    + inversion Ha; subst. rewrite forallb_forall in Hh. apply Hh. eapply nth_error_In; eassumption.
    + eapply IH; [exact Ht | | eassumption | eassumption]. lia.
Qed.

(* what scene_ok = true means *)
Record scene_spec (tol dist : Q) (boxes : list box) (cs : list sconn) : Prop := {
  sp_ends : forall c, In c cs ->
      pt_eq (first_pt (c_disp c)) (first_pt (c_raw c)) /\ pt_eq (last_pt (c_disp c)) (last_pt (c_raw c));
  sp_cps : forall c p, In c cs -> In p (c_cps c) -> on_route (c_raw c) p = true -> on_route (c_disp c) p = true;
  sp_nseg : forall c, In c cs -> (length (simplify (c_disp c)) <= length (simplify (c_raw c)))%nat;
  sp_orth : forall c, In c cs -> route_orth (c_raw c) = true ->
      forall s, In s (pairs_of (c_disp c)) -> px (fst s) == px (snd s) \/ py (fst s) == py (snd s);
  sp_clear : forall c, In c cs -> route_clear boxes (c_att c) (c_raw c) = true ->
      forall s B, In s (pairs_of (c_disp c)) -> In B boxes -> zmem (b_id B) (c_att c) = false -> seg_in_box B s = false;
  sp_fixed : forall c, In c cs -> c_fixed c = true -> Forall2 pt_eq (simplify (c_disp c)) (simplify (c_raw c));
  sp_overlap : forall i j a b, (i < j)%nat -> nth_error cs i = Some a -> nth_error cs j = Some b ->
      common_end a b = false ->
      forall s t, In s (dsegs a) -> In t (dsegs b) -> overlapping tol (d_s s) (d_s t) ->
        (stuck tol dist boxes cs s = true /\ stuck tol dist boxes cs t = true) \/
        channel_narrow tol dist boxes cs (d_s s) (d_s t) = true
}.

Theorem scene_ok_sound tol dist boxes cs : scene_ok tol dist boxes cs = true -> scene_spec tol dist boxes cs.
Proof.
  unfold scene_ok. rewrite !andb_true_iff, !forallb_forall.
  intros [[[[[[He Hc] Hn] Ho] Hcl] Hfx] Hp]. split.
  - intros c Hin. specialize (He c Hin). unfold ends_kept in He.
    apply andb_true_iff in He. rewrite !pt_eqb_spec in He. exact He.
  - intros c p Hin Hp0 Hr. specialize (Hc c Hin). unfold cps_kept in Hc. rewrite forallb_forall in Hc.
    specialize (Hc p Hp0). rewrite Hr in Hc. exact Hc.
  - intros c Hin. specialize (Hn c Hin). unfold no_new_segments in Hn. apply Nat.leb_le. exact Hn.
  - intros c Hin Hr s Hs. specialize (Ho c Hin). unfold still_orth in Ho. rewrite Hr in Ho. cbn in Ho.
    unfold route_orth in Ho. rewrite forallb_forall in Ho. specialize (Ho s Hs).
    unfold orth_seg, horiz, vert in Ho. apply orb_true_iff in Ho. rewrite !Qeqb_spec in Ho. tauto.
  - intros c Hin Hr s B Hs HB Hz. specialize (Hcl c Hin). unfold still_clear in Hcl. rewrite Hr in Hcl. cbn in Hcl.
    unfold route_clear in Hcl. rewrite forallb_forall in Hcl. specialize (Hcl s Hs).
    rewrite forallb_forall in Hcl. specialize (Hcl B HB). rewrite Hz in Hcl. cbn in Hcl.
    destruct (seg_in_box B s); [discriminate | reflexivity].
  - intros c Hin Hf. specialize (Hfx c Hin). unfold fixed_kept in Hfx. rewrite Hf in Hfx. cbn in Hfx.
    apply pts_eqb_spec. exact Hfx.
  - intros i j a b Hij Ha Hb Hce s t Hs Ht Hov.
    pose proof (all_pairs_spec _ _ Hp i j a b Hij Ha Hb) as H. unfold pair_ok in H. rewrite Hce in H. cbn in H.
    rewrite forallb_forall in H. specialize (H s Hs). rewrite forallb_forall in H. specialize (H t Ht).
    apply seg_overlap_spec in Hov. rewrite Hov in H. cbn in H. apply orb_true_iff in H. destruct H as [H|H].
    + left. apply andb_true_iff in H. exact H.
    + right. exact H.
Qed.

(* non-vacuity: two connectors sharing a corridor that were nudged 4 apart; and the same scene with the display
   routes left on top of each other is rejected *)
Definition ex_box := mkbox 1 20 20 60 60.
Definition ex_c1 := mksconn 100 [mkpt 0 0; mkpt 100 0; mkpt 100 80] [mkpt 0 0; mkpt 100 0; mkpt 100 80] [] [] false.
Definition ex_c2 := mksconn 101 [mkpt 0 10; mkpt 10 10; mkpt 10 0; mkpt 90 0; mkpt 90 90]
                            [mkpt 0 10; mkpt 10 10; mkpt 10 4; mkpt 90 4; mkpt 90 90] [] [] false.
Definition ex_c2bad := mksconn 101 [mkpt 0 10; mkpt 10 10; mkpt 10 0; mkpt 90 0; mkpt 90 90]
                            [mkpt 0 10; mkpt 10 10; mkpt 10 0; mkpt 90 0; mkpt 90 90] [] [] false.
Example scene_ok_ex : scene_ok (1 # 1000000) 4 [ex_box] [ex_c1; ex_c2] = true.
Proof. vm_compute. reflexivity. Qed.
Example scene_bad_ex : scene_ok (1 # 1000000) 4 [ex_box] [ex_c1; ex_c2bad] = false.
Proof. vm_compute. reflexivity. Qed.

(* non-vacuity for fixed routes (seeded change C10-6, DESIGN 9.13): F has the fixed route (100,0) (100,150) (130,150)
   (130,300); A's Z-bend middle segment was centred onto F's first segment.  Nudged 4 away: accepted.  Left on top of F
   (F's segments were not members of any region): rejected, although F's segment is a first segment - the movable segment
   of A is not stuck.  F itself displayed with a shifted middle segment: rejected by fixed_kept. *)
Definition exf_F := mksconn 30 [mkpt 100 0; mkpt 100 150; mkpt 130 150; mkpt 130 300]
                            [mkpt 100 0; mkpt 100 150; mkpt 130 150; mkpt 130 300] [] [] true.
Definition exf_Fmoved := mksconn 30 [mkpt 100 0; mkpt 100 100; mkpt 130 100; mkpt 130 300]
                            [mkpt 100 0; mkpt 100 150; mkpt 130 150; mkpt 130 300] [] [] true.
Definition exf_A (x : Q) := mksconn 10 [mkpt 40 20; mkpt 100 20; mkpt 100 80; mkpt 160 80]
                            [mkpt 40 20; mkpt x 20; mkpt x 80; mkpt 160 80] [] [] false.
Example scene_fixed_ok : scene_ok (1 # 1000000) 4 [] [exf_A 104; exf_F] = true.
Proof. vm_compute. reflexivity. Qed.
Example scene_fixed_overlap_rejected : scene_ok (1 # 1000000) 4 [] [exf_A 100; exf_F] = false.
Proof. vm_compute. reflexivity. Qed.
Example scene_fixed_moved_rejected : scene_ok (1 # 1000000) 4 [] [exf_A 104; exf_Fmoved] = false /\ fixed_kept exf_Fmoved = false.
Proof. vm_compute. split; reflexivity. Qed.
