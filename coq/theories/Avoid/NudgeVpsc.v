(* The executable IncSolver model of C01 (Vpsc/VpscModel.v) as the solver parameter of the nudging loop.
   No proofs.  The Constraint::unsatisfiable flags are carried in (vpsc.cpp never resets them). *)
From Coq Require Import QArith List Bool Arith ZArith.
From Adapt Require Import Num.Qaux Vpsc.VpscSpec Vpsc.VpscModel Avoid.NudgeModel.
Import ListNotations.
Local Open Scope Q_scope.

Definition vpsc_state (vs : list nvar) (cs : list con) (fl : list bool) : st :=
  set_cuns (init (map tovar vs) cs) fl.

(* positions, flags, and whether the model met a numerically tied control-flow decision (instrumentation) *)
Definition vpsc_run (fuel : nat) (vs : list nvar) (cs : list con) (fl : list bool) : option (list Q * list bool * bool) :=
  match inc_solve fuel (vpsc_state vs cs fl) with
  | Ok s => Some (final_positions s, cuns s, tie s)
  | _ => None
  end.

Definition vpsc_solver (fuel : nat) (k : nat) (vs : list nvar) (cs : list con) (fl : list bool) : list Q * list bool :=
  match vpsc_run fuel vs cs fl with
  | Some (xs, fl', _) => (xs, fl')
  | None => ([], fl)
  end.
