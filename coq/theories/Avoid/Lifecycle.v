(* C15 - proofs about the ownership / queued-action protocol model of Avoid::Router (LifecycleModel.v).
   Main results (all for unbounded op lists, by an invariant over `run`):
     no_use_after_free      : bad (run true true t ops) = []
     queue_objects_live     : queued objects are allocated
     queue_ends_live        : obstacles referred to by queued connector-end copies are allocated
     destroy_releases_all   : alive = false -> heap = []
     heap_nodup_fresh       : the heap has no duplicates and is disjoint from the free history
   plus vm_compute refutations for the code variants before the F-k / F-l repairs. *)
From Coq Require Import List Arith Bool Lia.
Import ListNotations.
From Adapt Require Import Avoid.LifecycleModel.

Set Implicit Arguments.

(* ------------------------------------------------------------------------------------------ *)
(* reflection lemmas                                                                          *)
(* ------------------------------------------------------------------------------------------ *)
Lemma mem_In x l : mem x l = true <-> In x l.
Proof.
  unfold mem. rewrite existsb_exists. split.
  - intros [y [H1 H2]]. apply Nat.eqb_eq in H2. subst; auto.
  - intros H. exists x. split; auto. apply Nat.eqb_refl.
Qed.

Lemma mem_nIn x l : mem x l = false <-> ~ In x l.
Proof.
  split; intros H.
  - intros HI. apply mem_In in HI. congruence.
  - destruct (mem x l) eqn:E; auto. apply mem_In in E. tauto.
Qed.

Lemma remove_nat_In y x l : In y (remove_nat x l) <-> In y l /\ y <> x.
Proof.
  unfold remove_nat. rewrite filter_In, negb_true_iff, Nat.eqb_neq. intuition.
Qed.

Lemma remove_nat_NoDup x l : NoDup l -> NoDup (remove_nat x l).
Proof. apply NoDup_filter. Qed.

Lemma is_add_In o q : existsb (act_is_add o) q = true <-> In (AAdd o) q.
Proof.
  rewrite existsb_exists. split.
  - intros [a [Ha E]]. destruct a; cbn in E; try discriminate. apply Nat.eqb_eq in E. subst; auto.
  - intros H. exists (AAdd o). split; auto. cbn. apply Nat.eqb_refl.
Qed.
Lemma is_move_In o q : existsb (act_is_move o) q = true <-> In (AMove o) q.
Proof.
  rewrite existsb_exists. split.
  - intros [a [Ha E]]. destruct a; cbn in E; try discriminate. apply Nat.eqb_eq in E. subst; auto.
  - intros H. exists (AMove o). split; auto. cbn. apply Nat.eqb_refl.
Qed.
Lemma is_remove_In o q : existsb (act_is_remove o) q = true <-> In (ARemove o) q.
Proof.
  rewrite existsb_exists. split.
  - intros [a [Ha E]]. destruct a; cbn in E; try discriminate. apply Nat.eqb_eq in E. subst; auto.
  - intros H. exists (ARemove o). split; auto. cbn. apply Nat.eqb_refl.
Qed.
Lemma is_conn_In c q : existsb (act_is_conn c) q = true <-> exists ups, In (AConn c ups) q.
Proof.
  rewrite existsb_exists. split.
  - intros [a [Ha E]]. destruct a; cbn in E; try discriminate. apply Nat.eqb_eq in E. subst; eauto.
  - intros [ups H]. exists (AConn c ups). split; auto. cbn. apply Nat.eqb_refl.
Qed.

Lemma client_holds_spec s o :
  client_holds s o = true <-> In o (heap s) /\ ~ In o (cset s) /\ ~ In (ARemove o) (queue s).
Proof.
  unfold client_holds. rewrite !andb_true_iff, !negb_true_iff, mem_In, mem_nIn.
  rewrite <- not_true_iff_false, is_remove_In. tauto.
Qed.

Lemma fresh_spec s x : fresh s x = true <-> ~ In x (heap s) /\ ~ In x (freed s).
Proof. unfold fresh. rewrite andb_true_iff, !negb_true_iff, !mem_nIn. tauto. Qed.

Lemma nodup_map_inj (A B : Type) (f : A -> B) l a b :
  NoDup (map f l) -> In a l -> In b l -> f a = f b -> a = b.
Proof.
  induction l as [|x r IH]; cbn; intros ND Ha Hb E; [tauto|].
  apply NoDup_cons_iff in ND. destruct ND as [N1 N2].
  destruct Ha as [Ha|Ha], Hb as [Hb|Hb]; subst; auto.
  - exfalso. apply N1. rewrite E. apply in_map; auto.
  - exfalso. apply N1. rewrite <- E. apply in_map; auto.
Qed.

Lemma NoDup_snoc (A : Type) (l : list A) x : NoDup l -> ~ In x l -> NoDup (l ++ [x]).
Proof.
  induction l as [|y r IH]; cbn; intros ND NI.
  - repeat constructor; auto.
  - apply NoDup_cons_iff in ND. destruct ND as [N1 N2]. constructor.
    + rewrite in_app_iff. cbn. intuition.
    + apply IH; auto.
Qed.

Lemma fold_pres (A B S : Type) (f : S -> A -> S) (p : S -> B) :
  (forall s a, p (f s a) = p s) -> forall l s, p (fold_left f l s) = p s.
Proof. intros H l. induction l as [|a r IH]; cbn; intros s; auto. rewrite IH. apply H. Qed.

(* ------------------------------------------------------------------------------------------ *)
(* kinds of actions, queue well-formedness                                                    *)
(* ------------------------------------------------------------------------------------------ *)
Inductive kind := KAdd | KMove | KRemove | KConn.
Definition akind (a : act) : kind :=
  match a with AAdd _ => KAdd | AMove _ => KMove | ARemove _ => KRemove | AConn _ _ => KConn end.
Definition act_ne (a : act) : Prop := match a with AConn _ [] => False | _ => True end.

Definition allK (k : kind) : Prop := True.
Definition pendK (k : kind) : Prop := k = KAdd \/ k = KConn.
Definition nonRem (k : kind) : Prop := k <> KRemove.
Definition connK (k : kind) : Prop := k = KConn.
Definition noneK (k : kind) : Prop := False.

Lemma kind_conn_inv a : akind a = KConn -> exists ups, a = AConn (act_obj a) ups.
Proof. destruct a; cbn; try discriminate. eauto. Qed.

(* queue q is well formed w.r.t. heap H and connector-id set CS; qk: the kinds whose object must be live *)
Record QOK (H CS : list nat) (qk : kind -> Prop) (q : list act) : Prop := {
  q_obj : forall a, In a q -> qk (akind a) -> In (act_obj a) H;
  q_ends : forall a o, In a q -> In o (act_end_ids a) -> In o H /\ ~ In o CS;
  q_nd : NoDup (map act_obj q);
  q_cs : forall a, In a q -> (akind a = KConn <-> In (act_obj a) CS);
  q_ne : forall a, In a q -> act_ne a }.

(* ---- add_update / modify_conn_q ---- *)
Lemma au_ends ups w e pm u o :
  In u (add_update ups w e pm) -> In o (end_ids (snd u)) ->
  In o (end_ids e) \/ exists u', In u' ups /\ In o (end_ids (snd u')).
Proof.
  induction ups as [|[w' e'] r IH]; cbn.
  - intros [<-|[]] Ho. cbn in Ho. auto.
  - destruct (Bool.eqb w w').
    + intros [<-|Hu] Ho.
      * cbn in Ho. destruct pm; auto. right. exists (w', e'). cbn. auto.
      * right. exists u. auto.
    + intros [<-|Hu] Ho.
      * right. exists (w', e'). auto.
      * destruct (IH Hu Ho) as [|[u' [H1 H2]]]; auto. right. exists u'. auto.
Qed.

Lemma au_ne ups w e pm : add_update ups w e pm <> [].
Proof. destruct ups as [|[w' e'] r]; cbn; try discriminate. destruct (Bool.eqb w w'); discriminate. Qed.

Lemma mq_objs q c w e pm :
  map act_obj (modify_conn_q q c w e pm) =
  if existsb (act_is_conn c) q then map act_obj q else map act_obj q ++ [c].
Proof.
  induction q as [|a r IH]; cbn [modify_conn_q existsb map app]; auto.
  destruct a; cbn [act_is_conn orb map act_obj]; try (rewrite IH; destruct (existsb (act_is_conn c) r); reflexivity).
  destruct (Nat.eqb c c0) eqn:E; cbn [orb map act_obj]; auto.
  rewrite IH; destruct (existsb (act_is_conn c) r); reflexivity.
Qed.

Lemma mq_in_inv q c w e pm a :
  In a (modify_conn_q q c w e pm) -> (akind a = KConn /\ act_obj a = c) \/ In a q.
Proof.
  induction q as [|b r IH]; cbn [modify_conn_q].
  - intros [<-|[]]. auto.
  - destruct b; try (intros [<-|H]; [right; left; auto | destruct (IH H); auto; right; right; auto]).
    destruct (Nat.eqb c c0) eqn:E.
    + apply Nat.eqb_eq in E. subst c0. intros [<-|H]; [left; auto | right; right; auto].
    + intros [<-|H]; [right; left; auto | destruct (IH H); auto; right; right; auto].
Qed.

Lemma mq_in_nonconn q c w e pm a :
  akind a <> KConn -> In a q -> In a (modify_conn_q q c w e pm).
Proof.
  intros NK. induction q as [|b r IH]; cbn [modify_conn_q]; [intros []|].
  intros [->|H].
  - destruct a; cbn in NK; try congruence; left; auto.
  - destruct b; try (right; auto).
    destruct (Nat.eqb c c0); right; auto.
Qed.

Lemma mq_in_pres q c w e pm a :
  In a q -> exists a', In a' (modify_conn_q q c w e pm) /\ akind a' = akind a /\ act_obj a' = act_obj a.
Proof.
  induction q as [|b r IH]; cbn [modify_conn_q]; [intros []|].
  intros [<-|H].
  - destruct b; try (eexists; split; [left; reflexivity|auto]).
    destruct (Nat.eqb c c0); eexists; (split; [left; reflexivity|auto]).
  - destruct (IH H) as [a' [H1 H2]].
    destruct b; try (exists a'; split; [right; auto|auto]).
    destruct (Nat.eqb c c0).
    + exists a. split; [right; auto|auto].
    + exists a'; split; [right; auto|auto].
Qed.

Lemma mq_in_c q c w e pm :
  exists a', In a' (modify_conn_q q c w e pm) /\ akind a' = KConn /\ act_obj a' = c.
Proof.
  induction q as [|b r IH]; cbn [modify_conn_q].
  - eexists; split; [left; reflexivity|auto].
  - destruct IH as [a' [H1 H2]].
    destruct b; try (exists a'; split; [right; auto|auto]).
    destruct (Nat.eqb c c0) eqn:E.
    + apply Nat.eqb_eq in E. subst. eexists; split; [left; reflexivity|auto].
    + exists a'; split; [right; auto|auto].
Qed.

Lemma mq_ends q c w e pm a o :
  In a (modify_conn_q q c w e pm) -> In o (act_end_ids a) ->
  In o (end_ids e) \/ exists a', In a' q /\ In o (act_end_ids a').
Proof.
  induction q as [|b r IH]; cbn [modify_conn_q].
  - intros [<-|[]] Ho. cbn in Ho. rewrite app_nil_r in Ho. auto.
  - assert (G : forall b', In a (b' :: modify_conn_q r c w e pm) -> act_end_ids b' = act_end_ids b ->
              In o (act_end_ids a) -> In o (end_ids e) \/ exists a', In a' (b :: r) /\ In o (act_end_ids a')).
    { intros b' [<-|H] Eb Ho.
      - right. exists b. rewrite <- Eb. split; [left|]; auto.
      - destruct (IH H Ho) as [|[a' [H1 H2]]]; auto. right. exists a'. split; [right|]; auto. }
    destruct b; try (intros H Ho; apply (G _ H eq_refl Ho)).
    destruct (Nat.eqb c c0) eqn:E.
    + intros [<-|H] Ho.
      * cbn [act_end_ids] in Ho. apply in_flat_map in Ho. destruct Ho as [u [Hu Ho]].
        destruct (au_ends _ _ _ _ _ _ Hu Ho) as [|[u' [H1 H2]]]; auto.
        right. exists (AConn c0 ups). split; [left; auto|]. cbn [act_end_ids]. apply in_flat_map. eauto.
      * right. exists a. split; [right|]; auto.
    + intros H Ho; apply (G _ H eq_refl Ho).
Qed.

Lemma mq_ne q c w e pm :
  (forall a, In a q -> act_ne a) -> forall a, In a (modify_conn_q q c w e pm) -> act_ne a.
Proof.
  induction q as [|b r IH]; cbn [modify_conn_q]; intros Hq a.
  - intros [<-|[]]. exact I.
  - assert (Hr : forall a, In a r -> act_ne a) by (intros; apply Hq; right; auto).
    destruct b; try (intros [<-|H]; [apply Hq; left; auto | apply IH; auto]).
    destruct (Nat.eqb c c0).
    + intros [<-|H]; [|apply Hr; auto].
      cbn. pose proof (au_ne ups w e pm). destruct (add_update ups w e pm); auto.
    + intros [<-|H]; [apply Hq; left; auto | apply IH; auto].
Qed.

Lemma QOK_modify H CS qk q c w e pm :
  QOK H CS qk q -> In c H -> In c CS -> (forall o, In o (end_ids e) -> In o H /\ ~ In o CS) ->
  QOK H CS qk (modify_conn_q q c w e pm).
Proof.
  intros Q Hc Cc He. constructor.
  - intros a Ha Hk. destruct (mq_in_inv _ _ _ _ _ _ Ha) as [[_ E]|Hq].
    + rewrite E; auto.
    + apply (q_obj Q); auto.
  - intros a o Ha Ho. destruct (mq_ends _ _ _ _ _ _ _ Ha Ho) as [H1|[a' [H1 H2]]]; auto.
    apply (q_ends Q) with a'; auto.
  - rewrite mq_objs. destruct (existsb (act_is_conn c) q) eqn:E; [apply (q_nd Q)|].
    apply NoDup_snoc; [apply (q_nd Q)|].
    intros Hin. apply in_map_iff in Hin. destruct Hin as [a [E1 Ha]].
    assert (K : akind a = KConn) by (apply (q_cs Q); auto; rewrite E1; auto).
    apply kind_conn_inv in K. destruct K as [ups K]. rewrite E1 in K. subst a.
    assert (existsb (act_is_conn c) q = true) by (apply is_conn_In; eauto). congruence.
  - intros a Ha. destruct (mq_in_inv _ _ _ _ _ _ Ha) as [[K E]|Hq].
    + rewrite E. tauto.
    + apply (q_cs Q); auto.
  - apply mq_ne. apply (q_ne Q).
Qed.

(* ---- scrub ---- *)
Lemma scrub_kind o a : akind (scrub_act o a) = akind a.
Proof. destruct a; auto. Qed.
Lemma scrub_obj o a : act_obj (scrub_act o a) = act_obj a.
Proof. destruct a; auto. Qed.
Lemma scrub_nonconn o a : akind a <> KConn -> scrub_act o a = a.
Proof. destruct a; cbn; auto. congruence. Qed.
Lemma scrub_ne o a : act_ne a -> act_ne (scrub_act o a).
Proof. destruct a as [| | |c [|u r]]; cbn; auto. Qed.
Lemma scrub_ends o a x : In x (act_end_ids (scrub_act o a)) -> In x (act_end_ids a) /\ x <> o.
Proof.
  destruct a; cbn [scrub_act act_end_ids]; try (intros []).
  intros H. apply in_flat_map in H. destruct H as [u [Hu Hx]].
  apply in_map_iff in Hu. destruct Hu as [u0 [E Hu0]]. subst u. cbn [snd fst] in Hx.
  destruct (snd u0) as [|o0] eqn:Es; cbn [scrub_end end_ids] in Hx; [destruct Hx|].
  destruct (Nat.eqb o o0) eqn:E0; cbn [end_ids] in Hx; [destruct Hx|].
  destruct Hx as [<-|[]]. apply Nat.eqb_neq in E0. split; [|congruence].
  apply in_flat_map. exists u0. split; auto. rewrite Es. cbn; auto.
Qed.

Lemma QOK_scrub H CS qk q o :
  QOK H CS qk q -> (forall a, In a q -> qk (akind a) -> act_obj a <> o) ->
  QOK (remove_nat o H) CS qk (map (scrub_act o) q).
Proof.
  intros Q Hno. constructor.
  - intros a' Ha Hk. apply in_map_iff in Ha. destruct Ha as [a [<- Ha]].
    rewrite scrub_kind in Hk. rewrite scrub_obj. apply remove_nat_In. split.
    + apply (q_obj Q); auto.
    + apply Hno; auto.
  - intros a' x Ha Hx. apply in_map_iff in Ha. destruct Ha as [a [<- Ha]].
    apply scrub_ends in Hx. destruct Hx as [Hx Nx].
    destruct (q_ends Q _ _ Ha Hx). split; auto. apply remove_nat_In; auto.
  - rewrite map_map. erewrite map_ext; [apply (q_nd Q)|]. intros; apply scrub_obj.
  - intros a' Ha. apply in_map_iff in Ha. destruct Ha as [a [<- Ha]].
    rewrite scrub_kind, scrub_obj. apply (q_cs Q); auto.
  - intros a' Ha. apply in_map_iff in Ha. destruct Ha as [a [<- Ha]].
    apply scrub_ne, (q_ne Q); auto.
Qed.

Lemma QOK_weaken H CS (qk qk' : kind -> Prop) q :
  (forall k, qk' k -> qk k) -> QOK H CS qk q -> QOK H CS qk' q.
Proof. intros Hk Q. constructor; try apply Q. intros a Ha K. apply (q_obj Q); auto. Qed.

Lemma QOK_nil H CS qk : QOK H CS qk [].
Proof. constructor; cbn; try tauto. constructor. Qed.

(* ------------------------------------------------------------------------------------------ *)
(* the state invariant, parameterised by                                                      *)
(*   qk: kinds of queued actions whose object is allocated,                                   *)
(*   ck: kinds of queued actions that keep an otherwise unregistered object reachable         *)
(* ------------------------------------------------------------------------------------------ *)
Record W (qk ck : kind -> Prop) (s : st) : Prop := {
  w_q : QOK (heap s) (cset s) qk (queue s);
  w_att : forall c w o, In (c, w, o) (attached s) ->
            In c (heap s) /\ In o (heap s) /\ In c (cset s) /\ ~ In o (cset s);
  w_act : incl (active s) (heap s);
  w_acn : incl (aconns s) (heap s);
  w_nd_act : NoDup (active s);
  w_nd_acn : NoDup (aconns s);
  w_cs : forall x, In x (cset s) -> In x (heap s) \/ In x (freed s);
  w_bad : bad s = [];
  w_heap_nd : NoDup (heap s);
  w_heap_fr : forall x, In x (heap s) -> ~ In x (freed s);
  w_cover : forall x, In x (heap s) -> In x (active s) \/ In x (aconns s) \/
              exists a, In a (queue s) /\ act_obj a = x /\ ck (akind a) }.

Definition Inv := W allK pendK.
Definition Mid := W nonRem nonRem.

Lemma W_weaken (qk qk' ck ck' : kind -> Prop) s :
  (forall k, qk' k -> qk k) -> (forall k, ck k -> ck' k) -> W qk ck s -> W qk' ck' s.
Proof.
  intros Hq Hc M. constructor; try apply M.
  - apply QOK_weaken with qk; auto. apply M.
  - intros x Hx. destruct (w_cover M x Hx) as [?|[?|[a [? [? ?]]]]]; auto.
    right; right. exists a; auto.
Qed.

Lemma W_cover_change (qk ck ck' : kind -> Prop) s :
  W qk ck s ->
  (forall a, In a (queue s) -> ck (akind a) ->
     ck' (akind a) \/ In (act_obj a) (active s) \/ In (act_obj a) (aconns s)) ->
  W qk ck' s.
Proof.
  intros M Hc. constructor; try apply M.
  intros x Hx. destruct (w_cover M x Hx) as [?|[?|[a [H1 [H2 H3]]]]]; auto.
  destruct (Hc a H1 H3) as [?|[?|?]]; subst; auto.
  right; right. exists a; auto.
Qed.

Lemma deref_in x s : In x (heap s) -> deref x s = s.
Proof. intros H. unfold deref. apply mem_In in H. rewrite H. reflexivity. Qed.

Ltac sproj := cbn [heap cset active aconns attached queue freed bad trans alive].

(* ------------------------------------------------------------------------------------------ *)
(* processActions                                                                             *)
(* ------------------------------------------------------------------------------------------ *)
Lemma sort_derefs_id s : (forall a, In a (queue s) -> In (act_obj a) (heap s)) -> sort_derefs s = s.
Proof.
  unfold sort_derefs. generalize (queue s) as l. induction l as [|a r IH]; cbn [fold_left]; intros H; auto.
  rewrite deref_in by (apply H; left; auto). apply IH. intros; apply H; right; auto.
Qed.

(* ---- pass 1 ---- *)
Definition mac (o : nat) := fun (q : list act) (t : nat * bool * nat) =>
  match t with (c, w, o') => if Nat.eqb o o' then modify_conn_q q c w (EObst o) true else q end.

Lemma mac_QOK H CS qk o : In o H -> ~ In o CS -> forall att q,
  QOK H CS qk q -> (forall c w o', In (c, w, o') att -> In c H /\ In c CS) ->
  QOK H CS qk (fold_left (mac o) att q).
Proof.
  intros Ho No. induction att as [|[[c w] o'] r IH]; cbn [fold_left]; intros q Q Ha; auto.
  apply IH; [|intros; eapply Ha; right; eauto].
  unfold mac. destruct (Nat.eqb o o'); auto.
  destruct (Ha c w o') as [H1 H2]; [left; auto|].
  apply QOK_modify; auto. intros x [<-|[]]; auto.
Qed.

Lemma mac_nonconn o a : akind a <> KConn -> forall att q, In a q -> In a (fold_left (mac o) att q).
Proof.
  intros NK. induction att as [|[[c w] o'] r IH]; cbn [fold_left]; intros q Hq; auto.
  apply IH. unfold mac. destruct (Nat.eqb o o'); auto. apply mq_in_nonconn; auto.
Qed.

Lemma mac_pres o : forall att q a, In a q ->
  exists a', In a' (fold_left (mac o) att q) /\ akind a' = akind a /\ act_obj a' = act_obj a.
Proof.
  induction att as [|[[c w] o'] r IH]; cbn [fold_left]; intros q a Hq; eauto.
  assert (exists a1, In a1 (mac o q (c, w, o')) /\ akind a1 = akind a /\ act_obj a1 = act_obj a) as [a1 [H1 [H2 H3]]].
  { unfold mac. destruct (Nat.eqb o o'); eauto. apply mq_in_pres; auto. }
  destruct (IH _ _ H1) as [a' [G1 [G2 G3]]]. exists a'. split; auto. split; congruence.
Qed.

Lemma pass1_move_eq s o : In o (heap s) ->
  pass1_one true s (AMove o) =
  mkst (heap s) (cset s) (remove_nat o (active s)) (aconns s)
       (filter (fun t => negb (Nat.eqb o (snd t))) (attached s))
       (fold_left (mac o) (attached s) (queue s)) (freed s) (bad s) (trans s) (alive s).
Proof. intros H. unfold pass1_one. rewrite deref_in by auto. reflexivity. Qed.

Lemma pass1_remove_eq s o : In o (heap s) ->
  pass1_one true s (ARemove o) =
  mkst (remove_nat o (heap s)) (cset s) (remove_nat o (remove_nat o (active s))) (remove_nat o (aconns s))
       (filter (fun t => negb (Nat.eqb o (snd t))) (attached s))
       (map (scrub_act o) (queue s)) (o :: freed s) (bad s) (trans s) (alive s).
Proof.
  intros H. unfold pass1_one. rewrite deref_in by auto. unfold free_obj. sproj.
  apply mem_In in H. rewrite H. reflexivity.
Qed.

Lemma obst_not_cset qk ck s a :
  W qk ck s -> In a (queue s) -> akind a <> KConn -> ~ In (act_obj a) (cset s).
Proof. intros M Ha NK Hc. apply NK. apply (q_cs (w_q M)); auto. Qed.

Lemma pass1_move_W s o : Mid s -> In (AMove o) (queue s) -> Mid (pass1_one true s (AMove o)).
Proof.
  intros M Hin.
  assert (Ho : In o (heap s)) by (apply (q_obj (w_q M) (AMove o)); auto; cbn; discriminate).
  assert (No : ~ In o (cset s)) by (apply (obst_not_cset M Hin); cbn; discriminate).
  rewrite pass1_move_eq by auto. constructor; sproj; try apply M.
  - apply mac_QOK; auto. apply M.
    intros c w o' H. destruct (w_att M _ _ _ H) as (?&?&?&?); auto.
  - intros c w o' H. apply filter_In in H. destruct H as [H _]. apply (w_att M); auto.
  - intros x Hx. apply remove_nat_In in Hx. apply (w_act M); tauto.
  - apply remove_nat_NoDup, M.
  - intros x Hx. destruct (Nat.eq_dec x o) as [->|Nx].
    + right; right. exists (AMove o). split; [|split; auto; cbn; discriminate].
      apply mac_nonconn; auto. cbn; discriminate.
    + destruct (w_cover M x Hx) as [H|[H|[a [H1 [H2 H3]]]]].
      * left. apply remove_nat_In; auto.
      * auto.
      * right; right. destruct (mac_pres o (attached s) _ _ H1) as [a' [G1 [G2 G3]]].
        exists a'. rewrite G2, G3. auto.
Qed.

Lemma pass1_remove_W s o :
  Mid s -> In (ARemove o) (queue s) -> In o (heap s) -> Mid (pass1_one true s (ARemove o)).
Proof.
  intros M Hin Ho.
  assert (No : ~ In o (cset s)) by (apply (obst_not_cset M Hin); cbn; discriminate).
  rewrite pass1_remove_eq by auto. constructor; sproj.
  - apply QOK_scrub; [apply M|]. intros a Ha K E.
    assert (a = ARemove o) by (apply (nodup_map_inj act_obj (queue s)); auto; apply M).
    subst a. apply K; reflexivity.
  - intros c w o' H. apply filter_In in H. destruct H as [H Ne]. cbn [snd] in Ne.
    apply negb_true_iff, Nat.eqb_neq in Ne.
    destruct (w_att M _ _ _ H) as (H1&H2&H3&H4). repeat split; auto; apply remove_nat_In; split; auto.
    intros ->; auto.
  - intros x Hx. apply remove_nat_In in Hx. destruct Hx as [Hx Nx]. apply remove_nat_In in Hx.
    apply remove_nat_In. split; auto. apply (w_act M); tauto.
  - intros x Hx. apply remove_nat_In in Hx. destruct Hx as [Hx Nx].
    apply remove_nat_In. split; auto. apply (w_acn M); tauto.
  - apply remove_nat_NoDup, remove_nat_NoDup, M.
  - apply remove_nat_NoDup, M.
  - intros x Hx. destruct (Nat.eq_dec x o) as [->|Nx]; [right; left; auto|].
    destruct (w_cs M x Hx); [left; apply remove_nat_In; auto | right; right; auto].
  - apply M.
  - apply remove_nat_NoDup, M.
  - intros x Hx. apply remove_nat_In in Hx. destruct Hx as [Hx Nx].
    intros [E|F]; [congruence|]. apply (w_heap_fr M x); auto.
  - intros x Hx. apply remove_nat_In in Hx. destruct Hx as [Hx Nx].
    destruct (w_cover M x Hx) as [H|[H|[a [H1 [H2 H3]]]]].
    + left. apply remove_nat_In; split; auto. apply remove_nat_In; auto.
    + right; left. apply remove_nat_In; auto.
    + right; right. exists (scrub_act o a). rewrite scrub_kind, scrub_obj. split; auto.
      apply in_map; auto.
Qed.

Lemma pass1_loop : forall r s,
  Mid s ->
  (forall a, In a r -> akind a = KMove \/ akind a = KRemove -> In (act_obj a) (heap s)) ->
  NoDup (map act_obj r) ->
  (forall a, In a r -> akind a <> KConn -> In a (queue s)) ->
  Mid (fold_left (pass1_one true) r s).
Proof.
  induction r as [|a r IH]; cbn [fold_left]; intros s M H1 ND H3; auto.
  cbn [map] in ND. apply NoDup_cons_iff in ND. destruct ND as [N1 N2].
  assert (H1r : forall a, In a r -> akind a = KMove \/ akind a = KRemove -> In (act_obj a) (heap s))
    by (intros; apply H1; auto; right; auto).
  assert (H3r : forall a, In a r -> akind a <> KConn -> In a (queue s))
    by (intros; apply H3; auto; right; auto).
  destruct a as [o|o|o|c ups].
  - apply IH; auto.
  - assert (Hq : In (AMove o) (queue s)) by (apply H3; [left; auto|cbn; discriminate]).
    assert (Ho : In o (heap s)) by (apply (H1 (AMove o)); [left; auto|cbn; auto]).
    apply IH; auto.
    + apply pass1_move_W; auto.
    + rewrite pass1_move_eq by auto. sproj. auto.
    + rewrite pass1_move_eq by auto. sproj. intros a Ha NK. apply mac_nonconn; auto.
  - assert (Hq : In (ARemove o) (queue s)) by (apply H3; [left; auto|cbn; discriminate]).
    assert (Ho : In o (heap s)) by (apply (H1 (ARemove o)); [left; auto|cbn; auto]).
    apply IH; auto.
    + apply pass1_remove_W; auto.
    + rewrite pass1_remove_eq by auto. sproj. intros a Ha K. apply remove_nat_In. split; auto.
      intros E. apply N1. cbn [act_obj]. rewrite <- E. apply in_map; auto.
    + rewrite pass1_remove_eq by auto. sproj. intros a Ha NK.
      rewrite <- (scrub_nonconn o NK). apply in_map; auto.
  - apply IH; auto.
Qed.

(* ---- pass 2 ---- *)
Lemma W_active_add qk ck s o : W qk ck s -> In o (heap s) ->
  W qk ck (mkst (heap s) (cset s) (if mem o (active s) then active s else o :: active s) (aconns s)
                (attached s) (queue s) (freed s) (bad s) (trans s) (alive s)).
Proof.
  intros M Ho. constructor; sproj; try apply M.
  - destruct (mem o (active s)); [apply M|]. intros x [<-|Hx]; auto. apply (w_act M); auto.
  - destruct (mem o (active s)) eqn:E; [apply M|]. constructor; [apply mem_nIn; auto|apply M].
  - intros x Hx. destruct (w_cover M x Hx) as [H|[H|H]]; auto.
    left. destruct (mem o (active s)); auto. right; auto.
Qed.

Lemma pass2_one_W ck s a : W nonRem ck s -> In a (queue s) ->
  W nonRem ck (pass2_one s a) /\ queue (pass2_one s a) = queue s /\
  incl (active s) (active (pass2_one s a)) /\
  (akind a = KAdd \/ akind a = KMove -> In (act_obj a) (active (pass2_one s a))).
Proof.
  intros M Ha.
  assert (G : forall o, In o (heap s) -> act_obj a = o ->
     let s' := mkst (heap s) (cset s) (if mem o (active s) then active s else o :: active s) (aconns s)
                (attached s) (queue s) (freed s) (bad s) (trans s) (alive s) in
     W nonRem ck s' /\ queue s' = queue s /\ incl (active s) (active s') /\
     (akind a = KAdd \/ akind a = KMove -> In (act_obj a) (active s'))).
  { intros o Ho E s'. split; [apply W_active_add; auto|]. split; [reflexivity|]. subst s'; sproj.
    destruct (mem o (active s)) eqn:Em.
    - split; [apply incl_refl|]. intros _. rewrite E. apply mem_In; auto.
    - split; [apply incl_tl, incl_refl|]. intros _. rewrite E. left; auto. }
  destruct a as [o|o|o|c ups]; cbn [pass2_one].
  - assert (Ho : In o (heap s)) by (apply (q_obj (w_q M) (AAdd o)); auto; cbn; discriminate).
    rewrite deref_in by auto. apply G; auto.
  - assert (Ho : In o (heap s)) by (apply (q_obj (w_q M) (AMove o)); auto; cbn; discriminate).
    rewrite deref_in by auto. apply G; auto.
  - repeat split; auto using incl_refl. cbn; intros [|]; discriminate.
  - repeat split; auto using incl_refl. cbn; intros [|]; discriminate.
Qed.

Lemma pass2_loop ck : forall r s, W nonRem ck s -> incl r (queue s) ->
  let s' := fold_left pass2_one r s in
  W nonRem ck s' /\ queue s' = queue s /\ incl (active s) (active s') /\
  (forall a, In a r -> akind a = KAdd \/ akind a = KMove -> In (act_obj a) (active s')).
Proof.
  induction r as [|a r IH]; cbn [fold_left]; intros s M Hr.
  - repeat split; auto using incl_refl. intros a [].
  - destruct (@pass2_one_W ck s a M) as (M1 & Q1 & A1 & B1); [apply Hr; left; auto|].
    destruct (IH (pass2_one s a) M1) as (M2 & Q2 & A2 & B2).
    { rewrite Q1. intros x Hx. apply Hr; right; auto. }
    split; auto. split; [congruence|]. split; [eapply incl_tran; eauto|].
    intros b [<-|Hb] K; auto.
Qed.

(* ---- pass 3 ---- *)
Lemma update_end_W ck c s u : W nonRem ck s -> In c (heap s) -> In c (cset s) ->
  (forall o, In o (end_ids (snd u)) -> In o (heap s) /\ ~ In o (cset s)) ->
  let s' := update_end c s u in
  W nonRem ck s' /\ queue s' = queue s /\ heap s' = heap s /\ cset s' = cset s /\
  incl (aconns s) (aconns s') /\ In c (aconns s').
Proof.
  intros M Hc Cc He s'.
  assert (E : deref_end (snd u) s = s).
  { destruct (snd u) as [|o]; cbn [deref_end]; auto. apply deref_in. apply He. cbn; auto. }
  subst s'. unfold update_end. rewrite E. sproj.
  split; [|split; [reflexivity|split; [reflexivity|split; [reflexivity|]]]].
  - constructor; sproj; try apply M.
    + intros c' w' o' H.
      assert (G : In (c', w', o') (attached s) -> In c' (heap s) /\ In o' (heap s) /\ In c' (cset s) /\ ~ In o' (cset s)).
      { apply (w_att M). }
      destruct (snd u) as [|o] eqn:Es.
      * apply filter_In in H. tauto.
      * destruct H as [H|H].
        -- inversion H; subst. destruct (He o'); cbn; auto.
        -- apply filter_In in H. tauto.
    + destruct (mem c (aconns s)); [apply M|]. intros x [<-|Hx]; auto. apply (w_acn M); auto.
    + destruct (mem c (aconns s)) eqn:Em; [apply M|]. constructor; [apply mem_nIn; auto|apply M].
    + intros x Hx. destruct (w_cover M x Hx) as [H|[H|H]]; auto.
      right; left. destruct (mem c (aconns s)); auto. right; auto.
  - destruct (mem c (aconns s)) eqn:Em.
    + split; [apply incl_refl|apply mem_In; auto].
    + split; [apply incl_tl, incl_refl|left; auto].
Qed.

Lemma update_end_loop ck c : forall ups s, W nonRem ck s -> In c (heap s) -> In c (cset s) ->
  (forall u o, In u ups -> In o (end_ids (snd u)) -> In o (heap s) /\ ~ In o (cset s)) ->
  let s' := fold_left (update_end c) ups s in
  W nonRem ck s' /\ queue s' = queue s /\ heap s' = heap s /\ cset s' = cset s /\
  incl (aconns s) (aconns s') /\ (ups <> [] -> In c (aconns s')).
Proof.
  induction ups as [|u r IH]; cbn [fold_left]; intros s M Hc Cc He.
  - repeat split; auto using incl_refl. congruence.
  - destruct (@update_end_W ck c s u M Hc Cc) as (M1 & Q1 & H1 & C1 & A1 & B1).
    { intros o Ho. apply (He u); auto. left; auto. }
    destruct (IH (update_end c s u) M1) as (M2 & Q2 & H2 & C2 & A2 & B2).
    { rewrite H1; auto. } { rewrite C1; auto. }
    { rewrite H1, C1. intros u' o Hu Ho. apply (He u'); auto. right; auto. }
    split; auto. split; [congruence|]. split; [congruence|]. split; [congruence|].
    split; [eapply incl_tran; eauto|]. intros _. apply A2; auto.
Qed.

Lemma pass3_one_W ck s a : W nonRem ck s -> In a (queue s) ->
  let s' := pass3_one s a in
  W nonRem ck s' /\ queue s' = queue s /\ incl (aconns s) (aconns s') /\
  (akind a = KConn -> In (act_obj a) (aconns s')).
Proof.
  intros M Ha. destruct a as [o|o|o|c ups]; cbn [pass3_one];
    try (repeat split; auto using incl_refl; cbn; discriminate).
  assert (Hc : In c (heap s)) by (apply (q_obj (w_q M) (AConn c ups)); auto; cbn; discriminate).
  assert (Cc : In c (cset s)) by (apply (q_cs (w_q M) (AConn c ups)); auto).
  assert (Ne : ups <> []) by (intros ->; apply (q_ne (w_q M) _ Ha)).
  rewrite deref_in by auto.
  destruct (@update_end_loop ck c ups s M Hc Cc) as (M2 & Q2 & H2 & C2 & A2 & B2).
  { intros u o Hu Ho. apply (q_ends (w_q M) (AConn c ups)); auto.
    cbn [act_end_ids]. apply in_flat_map. eauto. }
  repeat split; auto.
Qed.

Lemma pass3_loop ck : forall r s, W nonRem ck s -> incl r (queue s) ->
  let s' := fold_left pass3_one r s in
  W nonRem ck s' /\ queue s' = queue s /\ incl (aconns s) (aconns s') /\
  (forall a, In a r -> akind a = KConn -> In (act_obj a) (aconns s')).
Proof.
  induction r as [|a r IH]; cbn [fold_left]; intros s M Hr.
  - repeat split; auto using incl_refl. intros a [].
  - destruct (@pass3_one_W ck s a M) as (M1 & Q1 & A1 & B1); [apply Hr; left; auto|].
    destruct (IH (pass3_one s a) M1) as (M2 & Q2 & A2 & B2).
    { rewrite Q1. intros x Hx. apply Hr; right; auto. }
    split; auto. split; [congruence|]. split; [eapply incl_tran; eauto|].
    intros b [<-|Hb] K; auto.
Qed.

(* ---- the whole of processActions ---- *)
Lemma W_clear_queue qk s : W qk noneK s -> Inv (set_queue s []).
Proof.
  intros M. unfold set_queue. constructor; sproj; try apply M.
  - apply QOK_nil.
  - intros x Hx. destruct (w_cover M x Hx) as [H|[H|[a [_ [_ []]]]]]; auto.
Qed.

Lemma process_Inv s : Inv s -> Inv (process true s).
Proof.
  intros I. unfold process. destruct (queue s) as [|a0 q0] eqn:Eq; auto. rewrite <- Eq. clear a0 q0 Eq.
  rewrite sort_derefs_id by (intros a Ha; apply (q_obj (w_q I)); auto; exact Logic.I).
  assert (M0 : Mid s).
  { apply W_weaken with allK pendK; auto.
    - intros; exact Logic.I.
    - intros k [->| ->]; discriminate. }
  assert (M1 : Mid (pass1 true s)).
  { unfold pass1. apply pass1_loop; auto.
    - intros a Ha _. apply (q_obj (w_q I)); auto. exact Logic.I.
    - apply (q_nd (w_q I)). }
  destruct (@pass2_loop nonRem (queue (pass1 true s)) (pass1 true s) M1 (incl_refl _)) as (M2 & Q2 & A2 & B2).
  fold (pass2 (pass1 true s)) in *.
  assert (M2' : W nonRem connK (pass2 (pass1 true s))).
  { apply W_cover_change with nonRem; auto. intros a Ha K. rewrite Q2 in Ha.
    destruct a; cbn in *; auto; try (right; left; apply (B2 _ Ha); cbn; auto).
    exfalso; apply K; auto. }
  destruct (@pass3_loop connK (queue (pass2 (pass1 true s))) (pass2 (pass1 true s)) M2' (incl_refl _)) as (M3 & Q3 & A3 & B3).
  fold (pass3 (pass2 (pass1 true s))) in *.
  apply W_clear_queue with nonRem.
  apply W_cover_change with connK; auto. intros a Ha K. rewrite Q3 in Ha.
  right; right. apply B3; auto.
Qed.
