(* C15 - proofs about the ownership / queued-action protocol model of Avoid::Router (LifecycleModel.v).
   Main results (all for unbounded op lists, by an invariant over `run`):
     no_use_after_free      : bad (run true true t ops) = []
     queue_objects_live     : queued objects are allocated
     queue_ends_live        : obstacles referred to by queued connector-end copies are allocated
     destroy_releases_all   : alive = false -> heap = []
     heap_nodup_fresh       : the heap has no duplicates and is disjoint from the free history
   plus vm_compute refutations for the code variants before the F-k / F-l repairs. *)
From Coq Require Import List Arith Bool Lia.
Import ListNotations.
From Adapt Require Import Avoid.LifecycleModel.

Set Implicit Arguments.

(* ------------------------------------------------------------------------------------------ *)
(* reflection lemmas                                                                          *)
(* ------------------------------------------------------------------------------------------ *)
Lemma mem_In x l : mem x l = true <-> In x l.
Proof.
  unfold mem. rewrite existsb_exists. split.
  - intros [y [H1 H2]]. apply Nat.eqb_eq in H2. subst; auto.
  - intros H. exists x. split; auto. apply Nat.eqb_refl.
Qed.

Lemma mem_nIn x l : mem x l = false <-> ~ In x l.
Proof.
  split; intros H.
  - intros HI. apply mem_In in HI. congruence.
  - destruct (mem x l) eqn:E; auto. apply mem_In in E. tauto.
Qed.

Lemma remove_nat_In y x l : In y (remove_nat x l) <-> In y l /\ y <> x.
Proof.
  unfold remove_nat. rewrite filter_In, negb_true_iff, Nat.eqb_neq. intuition.
Qed.

Lemma remove_nat_NoDup x l : NoDup l -> NoDup (remove_nat x l).
Proof. apply NoDup_filter. Qed.

Lemma is_add_In o q : existsb (act_is_add o) q = true <-> In (AAdd o) q.
Proof.
  rewrite existsb_exists. split.
  - intros [a [Ha E]]. destruct a; cbn in E; try discriminate. apply Nat.eqb_eq in E. subst; auto.
  - intros H. exists (AAdd o). split; auto. cbn. apply Nat.eqb_refl.
Qed.
Lemma is_move_In o q : existsb (act_is_move o) q = true <-> In (AMove o) q.
Proof.
  rewrite existsb_exists. split.
  - intros [a [Ha E]]. destruct a; cbn in E; try discriminate. apply Nat.eqb_eq in E. subst; auto.
  - intros H. exists (AMove o). split; auto. cbn. apply Nat.eqb_refl.
Qed.
Lemma is_remove_In o q : existsb (act_is_remove o) q = true <-> In (ARemove o) q.
Proof.
  rewrite existsb_exists. split.
  - intros [a [Ha E]]. destruct a; cbn in E; try discriminate. apply Nat.eqb_eq in E. subst; auto.
  - intros H. exists (ARemove o). split; auto. cbn. apply Nat.eqb_refl.
Qed.
Lemma is_conn_In c q : existsb (act_is_conn c) q = true <-> exists ups, In (AConn c ups) q.
Proof.
  rewrite existsb_exists. split.
  - intros [a [Ha E]]. destruct a; cbn in E; try discriminate. apply Nat.eqb_eq in E. subst; eauto.
  - intros [ups H]. exists (AConn c ups). split; auto. cbn. apply Nat.eqb_refl.
Qed.

Lemma client_holds_spec s o :
  client_holds s o = true <-> In o (heap s) /\ ~ In o (cset s) /\ ~ In (ARemove o) (queue s).
Proof.
  unfold client_holds. rewrite !andb_true_iff, !negb_true_iff, mem_In, mem_nIn.
  rewrite <- not_true_iff_false, is_remove_In. tauto.
Qed.

Lemma fresh_spec s x : fresh s x = true <-> ~ In x (heap s) /\ ~ In x (freed s).
Proof. unfold fresh. rewrite andb_true_iff, !negb_true_iff, !mem_nIn. tauto. Qed.

Lemma nodup_map_inj (A B : Type) (f : A -> B) l a b :
  NoDup (map f l) -> In a l -> In b l -> f a = f b -> a = b.
Proof.
  induction l as [|x r IH]; cbn; intros ND Ha Hb E; [tauto|].
  apply NoDup_cons_iff in ND. destruct ND as [N1 N2].
  destruct Ha as [Ha|Ha], Hb as [Hb|Hb]; subst; auto.
  - exfalso. apply N1. rewrite E. apply in_map; auto.
  - exfalso. apply N1. rewrite <- E. apply in_map; auto.
Qed.

Lemma NoDup_snoc (A : Type) (l : list A) x : NoDup l -> ~ In x l -> NoDup (l ++ [x]).
Proof.
  induction l as [|y r IH]; cbn; intros ND NI.
  - repeat constructor; auto.
  - apply NoDup_cons_iff in ND. destruct ND as [N1 N2]. constructor.
    + rewrite in_app_iff. cbn. intuition.
    + apply IH; auto.
Qed.

Lemma fold_pres (A B S : Type) (f : S -> A -> S) (p : S -> B) :
  (forall s a, p (f s a) = p s) -> forall l s, p (fold_left f l s) = p s.
Proof. intros H l. induction l as [|a r IH]; cbn; intros s; auto. rewrite IH. apply H. Qed.

(* ------------------------------------------------------------------------------------------ *)
(* kinds of actions, queue well-formedness                                                    *)
(* ------------------------------------------------------------------------------------------ *)
Inductive kind := KAdd | KMove | KRemove | KConn.
Definition akind (a : act) : kind :=
  match a with AAdd _ => KAdd | AMove _ => KMove | ARemove _ => KRemove | AConn _ _ => KConn end.
Definition act_ne (a : act) : Prop := match a with AConn _ [] => False | _ => True end.

Definition allK (k : kind) : Prop := True.
Definition pendK (k : kind) : Prop := k = KAdd \/ k = KConn.
Definition nonRem (k : kind) : Prop := k <> KRemove.
Definition connK (k : kind) : Prop := k = KConn.
Definition noneK (k : kind) : Prop := False.

Lemma kind_conn_inv a : akind a = KConn -> exists ups, a = AConn (act_obj a) ups.
Proof. destruct a; cbn; try discriminate. eauto. Qed.

(* queue q is well formed w.r.t. heap H and connector-id set CS; qk: the kinds whose object must be live *)
Record QOK (H CS : list nat) (qk : kind -> Prop) (q : list act) : Prop := {
  q_obj : forall a, In a q -> qk (akind a) -> In (act_obj a) H;
  q_ends : forall a o, In a q -> In o (act_end_ids a) -> In o H /\ ~ In o CS;
  q_nd : NoDup (map act_obj q);
  q_cs : forall a, In a q -> (akind a = KConn <-> In (act_obj a) CS);
  q_ne : forall a, In a q -> act_ne a }.

(* ---- add_update / modify_conn_q ---- *)
Lemma au_ends ups w e pm u o :
  In u (add_update ups w e pm) -> In o (end_ids (snd u)) ->
  In o (end_ids e) \/ exists u', In u' ups /\ In o (end_ids (snd u')).
Proof.
  induction ups as [|[w' e'] r IH]; cbn.
  - intros [<-|[]] Ho. cbn in Ho. auto.
  - destruct (Bool.eqb w w').
    + intros [<-|Hu] Ho.
      * cbn in Ho. destruct pm; auto. right. exists (w', e'). cbn. auto.
      * right. exists u. auto.
    + intros [<-|Hu] Ho.
      * right. exists (w', e'). auto.
      * destruct (IH Hu Ho) as [|[u' [H1 H2]]]; auto. right. exists u'. auto.
Qed.

Lemma au_ne ups w e pm : add_update ups w e pm <> [].
Proof. destruct ups as [|[w' e'] r]; cbn; try discriminate. destruct (Bool.eqb w w'); discriminate. Qed.

Lemma mq_objs q c w e pm :
  map act_obj (modify_conn_q q c w e pm) =
  if existsb (act_is_conn c) q then map act_obj q else map act_obj q ++ [c].
Proof.
  induction q as [|a r IH]; cbn [modify_conn_q existsb map app]; auto.
  destruct a; cbn [act_is_conn orb map act_obj]; try (rewrite IH; destruct (existsb (act_is_conn c) r); reflexivity).
  destruct (Nat.eqb c c0) eqn:E; cbn [orb map act_obj]; auto.
  rewrite IH; destruct (existsb (act_is_conn c) r); reflexivity.
Qed.

Lemma mq_in_inv q c w e pm a :
  In a (modify_conn_q q c w e pm) -> (akind a = KConn /\ act_obj a = c) \/ In a q.
Proof.
  induction q as [|b r IH]; cbn [modify_conn_q].
  - intros [<-|[]]. auto.
  - destruct b; try (intros [<-|H]; [right; left; auto | destruct (IH H); auto; right; right; auto]).
    destruct (Nat.eqb c c0) eqn:E.
    + apply Nat.eqb_eq in E. subst c0. intros [<-|H]; [left; auto | right; right; auto].
    + intros [<-|H]; [right; left; auto | destruct (IH H); auto; right; right; auto].
Qed.

Lemma mq_in_nonconn q c w e pm a :
  akind a <> KConn -> In a q -> In a (modify_conn_q q c w e pm).
Proof.
  intros NK. induction q as [|b r IH]; cbn [modify_conn_q]; [intros []|].
  intros [->|H].
  - destruct a; cbn in NK; try congruence; left; auto.
  - destruct b; try (right; auto).
    destruct (Nat.eqb c c0); right; auto.
Qed.

Lemma mq_in_pres q c w e pm a :
  In a q -> exists a', In a' (modify_conn_q q c w e pm) /\ akind a' = akind a /\ act_obj a' = act_obj a.
Proof.
  induction q as [|b r IH]; cbn [modify_conn_q]; [intros []|].
  intros [<-|H].
  - destruct b; try (eexists; split; [left; reflexivity|auto]).
    destruct (Nat.eqb c c0); eexists; (split; [left; reflexivity|auto]).
  - destruct (IH H) as [a' [H1 H2]].
    destruct b; try (exists a'; split; [right; auto|auto]).
    destruct (Nat.eqb c c0).
    + exists a. split; [right; auto|auto].
    + exists a'; split; [right; auto|auto].
Qed.

Lemma mq_in_c q c w e pm :
  exists a', In a' (modify_conn_q q c w e pm) /\ akind a' = KConn /\ act_obj a' = c.
Proof.
  induction q as [|b r IH]; cbn [modify_conn_q].
  - eexists; split; [left; reflexivity|auto].
  - destruct IH as [a' [H1 H2]].
    destruct b; try (exists a'; split; [right; auto|auto]).
    destruct (Nat.eqb c c0) eqn:E.
    + apply Nat.eqb_eq in E. subst. eexists; split; [left; reflexivity|auto].
    + exists a'; split; [right; auto|auto].
Qed.

Lemma mq_ends q c w e pm a o :
  In a (modify_conn_q q c w e pm) -> In o (act_end_ids a) ->
  In o (end_ids e) \/ exists a', In a' q /\ In o (act_end_ids a').
Proof.
  induction q as [|b r IH]; cbn [modify_conn_q].
  - intros [<-|[]] Ho. cbn in Ho. rewrite app_nil_r in Ho. auto.
  - assert (G : forall b', In a (b' :: modify_conn_q r c w e pm) -> act_end_ids b' = act_end_ids b ->
              In o (act_end_ids a) -> In o (end_ids e) \/ exists a', In a' (b :: r) /\ In o (act_end_ids a')).
    { intros b' [<-|H] Eb Ho.
      - right. exists b. rewrite <- Eb. split; [left|]; auto.
      - destruct (IH H Ho) as [|[a' [H1 H2]]]; auto. right. exists a'. split; [right|]; auto. }
    destruct b; try (intros H Ho; apply (G _ H eq_refl Ho)).
    destruct (Nat.eqb c c0) eqn:E.
    + intros [<-|H] Ho.
      * cbn [act_end_ids] in Ho. apply in_flat_map in Ho. destruct Ho as [u [Hu Ho]].
        destruct (au_ends _ _ _ _ _ _ Hu Ho) as [|[u' [H1 H2]]]; auto.
        right. exists (AConn c0 ups). split; [left; auto|]. cbn [act_end_ids]. apply in_flat_map. eauto.
      * right. exists a. split; [right|]; auto.
    + intros H Ho; apply (G _ H eq_refl Ho).
Qed.

Lemma mq_ne q c w e pm :
  (forall a, In a q -> act_ne a) -> forall a, In a (modify_conn_q q c w e pm) -> act_ne a.
Proof.
  induction q as [|b r IH]; cbn [modify_conn_q]; intros Hq a.
  - intros [<-|[]]. exact I.
  - assert (Hr : forall a, In a r -> act_ne a) by (intros; apply Hq; right; auto).
    destruct b; try (intros [<-|H]; [apply Hq; left; auto | apply IH; auto]).
    destruct (Nat.eqb c c0).
    + intros [<-|H]; [|apply Hr; auto].
      cbn. pose proof (au_ne ups w e pm). destruct (add_update ups w e pm); auto.
    + intros [<-|H]; [apply Hq; left; auto | apply IH; auto].
Qed.

Lemma QOK_modify H CS qk q c w e pm :
  QOK H CS qk q -> In c H -> In c CS -> (forall o, In o (end_ids e) -> In o H /\ ~ In o CS) ->
  QOK H CS qk (modify_conn_q q c w e pm).
Proof.
  intros Q Hc Cc He. constructor.
  - intros a Ha Hk. destruct (mq_in_inv _ _ _ _ _ _ Ha) as [[_ E]|Hq].
    + rewrite E; auto.
    + apply (q_obj Q); auto.
  - intros a o Ha Ho. destruct (mq_ends _ _ _ _ _ _ _ Ha Ho) as [H1|[a' [H1 H2]]]; auto.
    apply (q_ends Q) with a'; auto.
  - rewrite mq_objs. destruct (existsb (act_is_conn c) q) eqn:E; [apply (q_nd Q)|].
    apply NoDup_snoc; [apply (q_nd Q)|].
    intros Hin. apply in_map_iff in Hin. destruct Hin as [a [E1 Ha]].
    assert (K : akind a = KConn) by (apply (q_cs Q); auto; rewrite E1; auto).
    apply kind_conn_inv in K. destruct K as [ups K]. rewrite E1 in K. subst a.
    assert (existsb (act_is_conn c) q = true) by (apply is_conn_In; eauto). congruence.
  - intros a Ha. destruct (mq_in_inv _ _ _ _ _ _ Ha) as [[K E]|Hq].
    + rewrite E. tauto.
    + apply (q_cs Q); auto.
  - apply mq_ne. apply (q_ne Q).
Qed.

(* ---- scrub ---- *)
Lemma scrub_kind o a : akind (scrub_act o a) = akind a.
Proof. destruct a; auto. Qed.
Lemma scrub_obj o a : act_obj (scrub_act o a) = act_obj a.
Proof. destruct a; auto. Qed.
Lemma scrub_nonconn o a : akind a <> KConn -> scrub_act o a = a.
Proof. destruct a; cbn; auto. congruence. Qed.
Lemma scrub_ne o a : act_ne a -> act_ne (scrub_act o a).
Proof. destruct a as [| | |c [|u r]]; cbn; auto. Qed.
Lemma scrub_ends o a x : In x (act_end_ids (scrub_act o a)) -> In x (act_end_ids a) /\ x <> o.
Proof.
  destruct a; cbn [scrub_act act_end_ids]; try (intros []).
  intros H. apply in_flat_map in H. destruct H as [u [Hu Hx]].
  apply in_map_iff in Hu. destruct Hu as [u0 [E Hu0]]. subst u. cbn [snd fst] in Hx.
  destruct (snd u0) as [|o0] eqn:Es; cbn [scrub_end end_ids] in Hx; [destruct Hx|].
  destruct (Nat.eqb o o0) eqn:E0; cbn [end_ids] in Hx; [destruct Hx|].
  destruct Hx as [<-|[]]. apply Nat.eqb_neq in E0. split; [|congruence].
  apply in_flat_map. exists u0. split; auto. rewrite Es. cbn; auto.
Qed.

Lemma QOK_scrub H CS qk q o :
  QOK H CS qk q -> (forall a, In a q -> qk (akind a) -> act_obj a <> o) ->
  QOK (remove_nat o H) CS qk (map (scrub_act o) q).
Proof.
  intros Q Hno. constructor.
  - intros a' Ha Hk. apply in_map_iff in Ha. destruct Ha as [a [<- Ha]].
    rewrite scrub_kind in Hk. rewrite scrub_obj. apply remove_nat_In. split.
    + apply (q_obj Q); auto.
    + apply Hno; auto.
  - intros a' x Ha Hx. apply in_map_iff in Ha. destruct Ha as [a [<- Ha]].
    apply scrub_ends in Hx. destruct Hx as [Hx Nx].
    destruct (q_ends Q _ _ Ha Hx). split; auto. apply remove_nat_In; auto.
  - rewrite map_map. erewrite map_ext; [apply (q_nd Q)|]. intros; apply scrub_obj.
  - intros a' Ha. apply in_map_iff in Ha. destruct Ha as [a [<- Ha]].
    rewrite scrub_kind, scrub_obj. apply (q_cs Q); auto.
  - intros a' Ha. apply in_map_iff in Ha. destruct Ha as [a [<- Ha]].
    apply scrub_ne, (q_ne Q); auto.
Qed.

Lemma QOK_weaken H CS (qk qk' : kind -> Prop) q :
  (forall k, qk' k -> qk k) -> QOK H CS qk q -> QOK H CS qk' q.
Proof. intros Hk Q. constructor; try apply Q. intros a Ha K. apply (q_obj Q); auto. Qed.

Lemma QOK_nil H CS qk : QOK H CS qk [].
Proof. constructor; cbn; try tauto. constructor. Qed.

(* ------------------------------------------------------------------------------------------ *)
(* the state invariant, parameterised by                                                      *)
(*   qk: kinds of queued actions whose object is allocated,                                   *)
(*   ck: kinds of queued actions that keep an otherwise unregistered object reachable         *)
(* ------------------------------------------------------------------------------------------ *)
Record W (qk ck : kind -> Prop) (s : st) : Prop := {
  w_q : QOK (heap s) (cset s) qk (queue s);
  w_att : forall c w o, In (c, w, o) (attached s) ->
            In c (heap s) /\ In o (heap s) /\ In c (cset s) /\ ~ In o (cset s);
  w_act : incl (active s) (heap s);
  w_acn : incl (aconns s) (heap s);
  w_nd_act : NoDup (active s);
  w_nd_acn : NoDup (aconns s);
  w_cs : forall x, In x (cset s) -> In x (heap s) \/ In x (freed s);
  w_bad : bad s = [];
  w_heap_nd : NoDup (heap s);
  w_heap_fr : forall x, In x (heap s) -> ~ In x (freed s);
  w_cover : forall x, In x (heap s) -> In x (active s) \/ In x (aconns s) \/
              exists a, In a (queue s) /\ act_obj a = x /\ ck (akind a) }.

Definition Inv := W allK pendK.
Definition Mid := W nonRem nonRem.

Lemma W_weaken (qk qk' ck ck' : kind -> Prop) s :
  (forall k, qk' k -> qk k) -> (forall k, ck k -> ck' k) -> W qk ck s -> W qk' ck' s.
Proof.
  intros Hq Hc M. constructor; try apply M.
  - apply QOK_weaken with qk; auto. apply M.
  - intros x Hx. destruct (w_cover M x Hx) as [?|[?|[a [? [? ?]]]]]; auto.
    right; right. exists a; auto.
Qed.

Lemma W_cover_change (qk ck ck' : kind -> Prop) s :
  W qk ck s ->
  (forall a, In a (queue s) -> ck (akind a) ->
     ck' (akind a) \/ In (act_obj a) (active s) \/ In (act_obj a) (aconns s)) ->
  W qk ck' s.
Proof.
  intros M Hc. constructor; try apply M.
  intros x Hx. destruct (w_cover M x Hx) as [?|[?|[a [H1 [H2 H3]]]]]; auto.
  destruct (Hc a H1 H3) as [?|[?|?]]; subst; auto.
  right; right. exists a; auto.
Qed.

Lemma deref_in x s : In x (heap s) -> deref x s = s.
Proof. intros H. unfold deref. apply mem_In in H. rewrite H. reflexivity. Qed.

Ltac sproj := cbn [heap cset active aconns attached queue freed bad trans alive].

(* ------------------------------------------------------------------------------------------ *)
(* processActions                                                                             *)
(* ------------------------------------------------------------------------------------------ *)
Lemma sort_derefs_id s : (forall a, In a (queue s) -> In (act_obj a) (heap s)) -> sort_derefs s = s.
Proof.
  unfold sort_derefs. generalize (queue s) as l. induction l as [|a r IH]; cbn [fold_left]; intros H; auto.
  rewrite deref_in by (apply H; left; auto). apply IH. intros; apply H; right; auto.
Qed.

(* ---- pass 1 ---- *)
Definition mac (o : nat) := fun (q : list act) (t : nat * bool * nat) =>
  match t with (c, w, o') => if Nat.eqb o o' then modify_conn_q q c w (EObst o) true else q end.

Lemma mac_QOK H CS qk o : In o H -> ~ In o CS -> forall att q,
  QOK H CS qk q -> (forall c w o', In (c, w, o') att -> In c H /\ In c CS) ->
  QOK H CS qk (fold_left (mac o) att q).
Proof.
  intros Ho No. induction att as [|[[c w] o'] r IH]; cbn [fold_left]; intros q Q Ha; auto.
  apply IH; [|intros; eapply Ha; right; eauto].
  unfold mac. destruct (Nat.eqb o o'); auto.
  destruct (Ha c w o') as [H1 H2]; [left; auto|].
  apply QOK_modify; auto. intros x [<-|[]]; auto.
Qed.

Lemma mac_nonconn o a : akind a <> KConn -> forall att q, In a q -> In a (fold_left (mac o) att q).
Proof.
  intros NK. induction att as [|[[c w] o'] r IH]; cbn [fold_left]; intros q Hq; auto.
  apply IH. unfold mac. destruct (Nat.eqb o o'); auto. apply mq_in_nonconn; auto.
Qed.

Lemma mac_pres o : forall att q a, In a q ->
  exists a', In a' (fold_left (mac o) att q) /\ akind a' = akind a /\ act_obj a' = act_obj a.
Proof.
  induction att as [|[[c w] o'] r IH]; cbn [fold_left]; intros q a Hq; eauto.
  assert (exists a1, In a1 (mac o q (c, w, o')) /\ akind a1 = akind a /\ act_obj a1 = act_obj a) as [a1 [H1 [H2 H3]]].
  { unfold mac. destruct (Nat.eqb o o'); eauto. apply mq_in_pres; auto. }
  destruct (IH _ _ H1) as [a' [G1 [G2 G3]]]. exists a'. split; auto. split; congruence.
Qed.

Lemma pass1_move_eq s o : In o (heap s) ->
  pass1_one true s (AMove o) =
  mkst (heap s) (cset s) (remove_nat o (active s)) (aconns s)
       (filter (fun t => negb (Nat.eqb o (snd t))) (attached s))
       (fold_left (mac o) (attached s) (queue s)) (freed s) (bad s) (trans s) (alive s).
Proof. intros H. unfold pass1_one. rewrite deref_in by auto. reflexivity. Qed.

Lemma pass1_remove_eq s o : In o (heap s) ->
  pass1_one true s (ARemove o) =
  mkst (remove_nat o (heap s)) (cset s) (remove_nat o (remove_nat o (active s))) (remove_nat o (aconns s))
       (filter (fun t => negb (Nat.eqb o (snd t))) (attached s))
       (map (scrub_act o) (queue s)) (o :: freed s) (bad s) (trans s) (alive s).
Proof.
  intros H. unfold pass1_one. rewrite deref_in by auto. unfold free_obj. sproj.
  apply mem_In in H. rewrite H. reflexivity.
Qed.

Lemma obst_not_cset qk ck s a :
  W qk ck s -> In a (queue s) -> akind a <> KConn -> ~ In (act_obj a) (cset s).
Proof. intros M Ha NK Hc. apply NK. apply (q_cs (w_q M)); auto. Qed.

Lemma pass1_move_W s o : Mid s -> In (AMove o) (queue s) -> Mid (pass1_one true s (AMove o)).
Proof.
  intros M Hin.
  assert (Ho : In o (heap s)) by (apply (q_obj (w_q M) (AMove o)); auto; cbn; discriminate).
  assert (No : ~ In o (cset s)) by (apply (@obst_not_cset _ _ _ _ M Hin); cbn; discriminate).
  rewrite pass1_move_eq by auto. constructor; sproj; try apply M.
  - apply mac_QOK; auto. apply M.
    intros c w o' H. destruct (w_att M _ _ _ H) as (?&?&?&?); auto.
  - intros c w o' H. apply filter_In in H. destruct H as [H _]. apply (w_att M c w o'); auto.
  - intros x Hx. apply remove_nat_In in Hx. apply (w_act M); tauto.
  - apply remove_nat_NoDup, M.
  - intros x Hx. destruct (Nat.eq_dec x o) as [->|Nx].
    + right; right. exists (AMove o). split; [|split; auto; cbn; discriminate].
      apply mac_nonconn; auto. cbn; discriminate.
    + destruct (w_cover M x Hx) as [H|[H|[a [H1 [H2 H3]]]]].
      * left. apply remove_nat_In; auto.
      * auto.
      * right; right. destruct (mac_pres o (attached s) _ _ H1) as [a' [G1 [G2 G3]]].
        exists a'. rewrite G2, G3. auto.
Qed.

Lemma pass1_remove_W s o :
  Mid s -> In (ARemove o) (queue s) -> In o (heap s) -> Mid (pass1_one true s (ARemove o)).
Proof.
  intros M Hin Ho.
  assert (No : ~ In o (cset s)) by (apply (@obst_not_cset _ _ _ _ M Hin); cbn; discriminate).
  rewrite pass1_remove_eq by auto. constructor; sproj.
  - apply QOK_scrub; [apply M|]. intros a Ha K E.
    assert (a = ARemove o) by (apply (nodup_map_inj act_obj (queue s)); auto; apply M).
    subst a. apply K; reflexivity.
  - intros c w o' H. apply filter_In in H. destruct H as [H Ne]. cbn [snd] in Ne.
    apply negb_true_iff, Nat.eqb_neq in Ne.
    destruct (w_att M _ _ _ H) as (H1&H2&H3&H4). repeat split; auto; apply remove_nat_In; split; auto.
    intros ->; auto.
  - intros x Hx. apply remove_nat_In in Hx. destruct Hx as [Hx Nx]. apply remove_nat_In in Hx.
    apply remove_nat_In. split; auto. apply (w_act M); tauto.
  - intros x Hx. apply remove_nat_In in Hx. destruct Hx as [Hx Nx].
    apply remove_nat_In. split; auto. apply (w_acn M); tauto.
  - apply remove_nat_NoDup, remove_nat_NoDup, M.
  - apply remove_nat_NoDup, M.
  - intros x Hx. destruct (Nat.eq_dec x o) as [->|Nx]; [right; left; auto|].
    destruct (w_cs M x Hx); [left; apply remove_nat_In; auto | right; right; auto].
  - apply M.
  - apply remove_nat_NoDup, M.
  - intros x Hx. apply remove_nat_In in Hx. destruct Hx as [Hx Nx].
    intros [E|F]; [congruence|]. apply (w_heap_fr M x); auto.
  - intros x Hx. apply remove_nat_In in Hx. destruct Hx as [Hx Nx].
    destruct (w_cover M x Hx) as [H|[H|[a [H1 [H2 H3]]]]].
    + left. apply remove_nat_In; split; auto. apply remove_nat_In; auto.
    + right; left. apply remove_nat_In; auto.
    + right; right. exists (scrub_act o a). rewrite scrub_kind, scrub_obj. split; auto.
      apply in_map; auto.
Qed.

Lemma pass1_loop : forall r s,
  Mid s ->
  (forall a, In a r -> akind a = KMove \/ akind a = KRemove -> In (act_obj a) (heap s)) ->
  NoDup (map act_obj r) ->
  (forall a, In a r -> akind a <> KConn -> In a (queue s)) ->
  Mid (fold_left (pass1_one true) r s).
Proof.
  induction r as [|a r IH]; cbn [fold_left]; intros s M H1 ND H3; auto.
  cbn [map] in ND. apply NoDup_cons_iff in ND. destruct ND as [N1 N2].
  assert (H1r : forall a, In a r -> akind a = KMove \/ akind a = KRemove -> In (act_obj a) (heap s))
    by (intros; apply H1; auto; right; auto).
  assert (H3r : forall a, In a r -> akind a <> KConn -> In a (queue s))
    by (intros; apply H3; auto; right; auto).
  destruct a as [o|o|o|c ups].
  - apply IH; auto.
  - assert (Hq : In (AMove o) (queue s)) by (apply H3; [left; auto|cbn; discriminate]).
    assert (Ho : In o (heap s)) by (apply (H1 (AMove o)); [left; auto|cbn; auto]).
    apply IH; auto.
    + apply pass1_move_W; auto.
    + rewrite pass1_move_eq by auto. sproj. auto.
    + rewrite pass1_move_eq by auto. sproj. intros a Ha NK. apply mac_nonconn; auto.
  - assert (Hq : In (ARemove o) (queue s)) by (apply H3; [left; auto|cbn; discriminate]).
    assert (Ho : In o (heap s)) by (apply (H1 (ARemove o)); [left; auto|cbn; auto]).
    apply IH; auto.
    + apply pass1_remove_W; auto.
    + rewrite pass1_remove_eq by auto. sproj. intros a Ha K. apply remove_nat_In. split; auto.
      intros E. apply N1. cbn [act_obj]. rewrite <- E. apply in_map; auto.
    + rewrite pass1_remove_eq by auto. sproj. intros a Ha NK.
      rewrite <- (scrub_nonconn o a NK). apply in_map; auto.
  - apply IH; auto.
Qed.

(* ---- pass 2 ---- *)
Lemma W_active_add qk ck s o : W qk ck s -> In o (heap s) ->
  W qk ck (mkst (heap s) (cset s) (if mem o (active s) then active s else o :: active s) (aconns s)
                (attached s) (queue s) (freed s) (bad s) (trans s) (alive s)).
Proof.
  intros M Ho. constructor; sproj; try apply M.
  - destruct (mem o (active s)); [apply M|]. intros x [<-|Hx]; auto. apply (w_act M); auto.
  - destruct (mem o (active s)) eqn:E; [apply M|]. constructor; [apply mem_nIn; auto|apply M].
  - intros x Hx. destruct (w_cover M x Hx) as [H|[H|H]]; auto.
    left. destruct (mem o (active s)); auto. right; auto.
Qed.

Lemma pass2_one_W ck s a : W nonRem ck s -> In a (queue s) ->
  W nonRem ck (pass2_one s a) /\ queue (pass2_one s a) = queue s /\
  incl (active s) (active (pass2_one s a)) /\
  (akind a = KAdd \/ akind a = KMove -> In (act_obj a) (active (pass2_one s a))).
Proof.
  intros M Ha.
  assert (G : forall o, In o (heap s) -> act_obj a = o ->
     let s' := mkst (heap s) (cset s) (if mem o (active s) then active s else o :: active s) (aconns s)
                (attached s) (queue s) (freed s) (bad s) (trans s) (alive s) in
     W nonRem ck s' /\ queue s' = queue s /\ incl (active s) (active s') /\
     (akind a = KAdd \/ akind a = KMove -> In (act_obj a) (active s'))).
  { intros o Ho E s'. split; [apply W_active_add; auto|]. split; [reflexivity|]. subst s'; sproj.
    destruct (mem o (active s)) eqn:Em.
    - split; [apply incl_refl|]. intros _. rewrite E. apply mem_In; auto.
    - split; [apply incl_tl, incl_refl|]. intros _. rewrite E. left; auto. }
  destruct a as [o|o|o|c ups]; cbn [pass2_one].
  - assert (Ho : In o (heap s)) by (apply (q_obj (w_q M) (AAdd o)); auto; cbn; discriminate).
    rewrite deref_in by auto. apply G; auto.
  - assert (Ho : In o (heap s)) by (apply (q_obj (w_q M) (AMove o)); auto; cbn; discriminate).
    rewrite deref_in by auto. apply G; auto.
  - split; [exact M|split; [reflexivity|split; [apply incl_refl|cbn; intros [|]; discriminate]]].
  - split; [exact M|split; [reflexivity|split; [apply incl_refl|cbn; intros [|]; discriminate]]].
Qed.

Lemma pass2_loop ck : forall r s, W nonRem ck s -> incl r (queue s) ->
  let s' := fold_left pass2_one r s in
  W nonRem ck s' /\ queue s' = queue s /\ incl (active s) (active s') /\
  (forall a, In a r -> akind a = KAdd \/ akind a = KMove -> In (act_obj a) (active s')).
Proof.
  induction r as [|a r IH]; cbn [fold_left]; intros s M Hr.
  - split; [exact M|split; [reflexivity|split; [apply incl_refl|intros a []]]].
  - destruct (@pass2_one_W ck s a M) as (M1 & Q1 & A1 & B1); [apply Hr; left; auto|].
    destruct (IH (pass2_one s a) M1) as (M2 & Q2 & A2 & B2).
    { rewrite Q1. intros x Hx. apply Hr; right; auto. }
    split; auto. split; [congruence|]. split; [eapply incl_tran; eauto|].
    intros b [<-|Hb] K; auto.
Qed.

(* ---- pass 3 ---- *)
Lemma update_end_W ck c s u : W nonRem ck s -> In c (heap s) -> In c (cset s) ->
  (forall o, In o (end_ids (snd u)) -> In o (heap s) /\ ~ In o (cset s)) ->
  let s' := update_end c s u in
  W nonRem ck s' /\ queue s' = queue s /\ heap s' = heap s /\ cset s' = cset s /\
  incl (aconns s) (aconns s') /\ In c (aconns s').
Proof.
  intros M Hc Cc He s'.
  assert (E : deref_end (snd u) s = s).
  { destruct (snd u) as [|o]; cbn [deref_end]; auto. apply deref_in. apply He. cbn; auto. }
  subst s'. unfold update_end. rewrite E. sproj.
  split; [|split; [reflexivity|split; [reflexivity|split; [reflexivity|]]]].
  - constructor; sproj; try apply M.
    + intros c' w' o' H.
      assert (G : In (c', w', o') (attached s) -> In c' (heap s) /\ In o' (heap s) /\ In c' (cset s) /\ ~ In o' (cset s)).
      { apply (w_att M). }
      destruct (snd u) as [|o] eqn:Es.
      * apply filter_In in H. tauto.
      * destruct H as [H|H].
        -- inversion H; subst. destruct (He o'); cbn; auto.
        -- apply filter_In in H. tauto.
    + destruct (mem c (aconns s)); [apply M|]. intros x [<-|Hx]; auto. apply (w_acn M); auto.
    + destruct (mem c (aconns s)) eqn:Em; [apply M|]. constructor; [apply mem_nIn; auto|apply M].
    + intros x Hx. destruct (w_cover M x Hx) as [H|[H|H]]; auto.
      right; left. destruct (mem c (aconns s)); auto. right; auto.
  - destruct (mem c (aconns s)) eqn:Em.
    + split; [apply incl_refl|apply mem_In; auto].
    + split; [apply incl_tl, incl_refl|left; auto].
Qed.

Lemma update_end_loop ck c : forall ups s, W nonRem ck s -> In c (heap s) -> In c (cset s) ->
  (forall u o, In u ups -> In o (end_ids (snd u)) -> In o (heap s) /\ ~ In o (cset s)) ->
  let s' := fold_left (update_end c) ups s in
  W nonRem ck s' /\ queue s' = queue s /\ heap s' = heap s /\ cset s' = cset s /\
  incl (aconns s) (aconns s') /\ (ups <> [] -> In c (aconns s')).
Proof.
  induction ups as [|u r IH]; cbn [fold_left]; intros s M Hc Cc He.
  - split; [exact M|]. repeat (split; [reflexivity|]). split; [apply incl_refl|congruence].
  - destruct (@update_end_W ck c s u M Hc Cc) as (M1 & Q1 & H1 & C1 & A1 & B1).
    { intros o Ho. apply (He u); auto. left; auto. }
    destruct (IH (update_end c s u) M1) as (M2 & Q2 & H2 & C2 & A2 & B2).
    { rewrite H1; auto. } { rewrite C1; auto. }
    { rewrite H1, C1. intros u' o Hu Ho. apply (He u'); auto. right; auto. }
    split; auto. split; [congruence|]. split; [congruence|]. split; [congruence|].
    split; [eapply incl_tran; eauto|]. intros _. apply A2; auto.
Qed.

Lemma pass3_one_W ck s a : W nonRem ck s -> In a (queue s) ->
  let s' := pass3_one s a in
  W nonRem ck s' /\ queue s' = queue s /\ incl (aconns s) (aconns s') /\
  (akind a = KConn -> In (act_obj a) (aconns s')).
Proof.
  intros M Ha. destruct a as [o|o|o|c ups]; cbn [pass3_one];
    try (split; [exact M|split; [reflexivity|split; [apply incl_refl|cbn; discriminate]]]).
  assert (Hc : In c (heap s)) by (apply (q_obj (w_q M) (AConn c ups)); auto; cbn; discriminate).
  assert (Cc : In c (cset s)) by (apply (q_cs (w_q M) (AConn c ups)); auto).
  assert (Ne : ups <> []) by (intros ->; apply (q_ne (w_q M) _ Ha)).
  rewrite deref_in by auto.
  destruct (@update_end_loop ck c ups s M Hc Cc) as (M2 & Q2 & H2 & C2 & A2 & B2).
  { intros u o Hu Ho. apply (q_ends (w_q M) (AConn c ups)); auto.
    cbn [act_end_ids]. apply in_flat_map. eauto. }
  split; [exact M2|split; [exact Q2|split; [exact A2|intros _; apply B2; exact Ne]]].
Qed.

Lemma pass3_loop ck : forall r s, W nonRem ck s -> incl r (queue s) ->
  let s' := fold_left pass3_one r s in
  W nonRem ck s' /\ queue s' = queue s /\ incl (aconns s) (aconns s') /\
  (forall a, In a r -> akind a = KConn -> In (act_obj a) (aconns s')).
Proof.
  induction r as [|a r IH]; cbn [fold_left]; intros s M Hr.
  - split; [exact M|split; [reflexivity|split; [apply incl_refl|intros a []]]].
  - destruct (@pass3_one_W ck s a M) as (M1 & Q1 & A1 & B1); [apply Hr; left; auto|].
    destruct (IH (pass3_one s a) M1) as (M2 & Q2 & A2 & B2).
    { rewrite Q1. intros x Hx. apply Hr; right; auto. }
    split; auto. split; [congruence|]. split; [eapply incl_tran; eauto|].
    intros b [<-|Hb] K; auto.
Qed.

(* ---- the whole of processActions ---- *)
Lemma W_clear_queue qk s : W qk noneK s -> Inv (set_queue s []).
Proof.
  intros M. unfold set_queue. constructor; sproj; try apply M.
  - apply QOK_nil.
  - intros x Hx. destruct (w_cover M x Hx) as [H|[H|[a [_ [_ []]]]]]; auto.
Qed.

Lemma process_Inv s : Inv s -> Inv (process true s).
Proof.
  intros I. unfold process. destruct (queue s) as [|a0 q0] eqn:Eq; auto. clear a0 q0 Eq.
  rewrite sort_derefs_id by (intros a Ha; apply (q_obj (w_q I)); auto; exact Logic.I).
  assert (M0 : Mid s).
  { apply W_weaken with allK pendK; auto.
    - intros; exact Logic.I.
    - intros k [->| ->]; discriminate. }
  assert (M1 : Mid (pass1 true s)).
  { unfold pass1. apply pass1_loop; auto.
    - intros a Ha _. apply (q_obj (w_q I)); auto. exact Logic.I.
    - apply (q_nd (w_q I)). }
  destruct (@pass2_loop nonRem (queue (pass1 true s)) (pass1 true s) M1 (incl_refl _)) as (M2 & Q2 & A2 & B2).
  fold (pass2 (pass1 true s)) in *.
  assert (M2' : W nonRem connK (pass2 (pass1 true s))).
  { apply W_cover_change with nonRem; auto. intros a Ha K. rewrite Q2 in Ha.
    destruct a as [o|o|o|c ups].
    - right; left. apply (B2 (AAdd o) Ha). cbn; auto.
    - right; left. apply (B2 (AMove o) Ha). cbn; auto.
    - exfalso; apply K; reflexivity.
    - left. reflexivity. }
  destruct (@pass3_loop connK (queue (pass2 (pass1 true s))) (pass2 (pass1 true s)) M2' (incl_refl _)) as (M3 & Q3 & A3 & B3).
  fold (pass3 (pass2 (pass1 true s))) in *.
  apply W_clear_queue with nonRem.
  apply W_cover_change with connK; auto. intros a Ha K. rewrite Q3 in Ha.
  right; right. apply B3; auto.
Qed.

(* ---- fields that processActions does not change; objects it does not free ---- *)
Definition cat (s : st) := (cset s, alive s, trans s).

Lemma deref_cat x s : cat (deref x s) = cat s.
Proof. unfold deref. destruct (mem x (heap s)); reflexivity. Qed.
Lemma deref_heap x s : heap (deref x s) = heap s.
Proof. unfold deref. destruct (mem x (heap s)); reflexivity. Qed.
Lemma deref_queue x s : queue (deref x s) = queue s.
Proof. unfold deref. destruct (mem x (heap s)); reflexivity. Qed.
Lemma deref_end_cat e s : cat (deref_end e s) = cat s.
Proof. destruct e; cbn [deref_end]; auto using deref_cat. Qed.
Lemma deref_end_heap e s : heap (deref_end e s) = heap s.
Proof. destruct e; cbn [deref_end]; auto using deref_heap. Qed.

Lemma pass1_one_cat fk s a : cat (pass1_one fk s a) = cat s.
Proof.
  destruct a; cbn [pass1_one]; auto; unfold free_obj, cat; sproj; apply (deref_cat o s).
Qed.
Lemma pass2_one_cat s a : cat (pass2_one s a) = cat s.
Proof. destruct a; cbn [pass2_one]; auto; unfold cat; sproj; apply (deref_cat o s). Qed.
Lemma pass2_one_heap s a : heap (pass2_one s a) = heap s.
Proof. destruct a; cbn [pass2_one]; auto; sproj; apply deref_heap. Qed.
Lemma update_end_cat c s u : cat (update_end c s u) = cat s.
Proof. unfold update_end, cat; sproj. apply (deref_end_cat (snd u) s). Qed.
Lemma update_end_heap c s u : heap (update_end c s u) = heap s.
Proof. unfold update_end; sproj. apply deref_end_heap. Qed.
Lemma pass3_one_cat s a : cat (pass3_one s a) = cat s.
Proof.
  destruct a; cbn [pass3_one]; auto. rewrite fold_pres by (intros; apply update_end_cat). apply deref_cat.
Qed.
Lemma pass3_one_heap s a : heap (pass3_one s a) = heap s.
Proof.
  destruct a; cbn [pass3_one]; auto. rewrite fold_pres by (intros; apply update_end_heap). apply deref_heap.
Qed.

Lemma sort_derefs_cat s : cat (sort_derefs s) = cat s.
Proof. unfold sort_derefs. apply fold_pres. intros; apply deref_cat. Qed.
Lemma sort_derefs_heap s : heap (sort_derefs s) = heap s.
Proof. unfold sort_derefs. apply fold_pres. intros; apply deref_heap. Qed.
Lemma sort_derefs_queue s : queue (sort_derefs s) = queue s.
Proof. unfold sort_derefs. apply fold_pres. intros; apply deref_queue. Qed.

Lemma process_cat fk s : cat (process fk s) = cat s.
Proof.
  unfold process. destruct (queue s); auto. unfold set_queue, cat at 1; sproj.
  change (cat (pass3 (pass2 (pass1 fk (sort_derefs s)))) = cat s).
  unfold pass3. rewrite fold_pres by (intros; apply pass3_one_cat).
  unfold pass2. rewrite fold_pres by (intros; apply pass2_one_cat).
  unfold pass1. rewrite fold_pres by (intros; apply pass1_one_cat).
  apply sort_derefs_cat.
Qed.

Lemma process_queue fk s : queue (process fk s) = [].
Proof. unfold process. destruct (queue s) eqn:E; auto. Qed.

Lemma pass1_heap_keep fk x : forall l s, In x (heap s) -> ~ In (ARemove x) l ->
  In x (heap (fold_left (pass1_one fk) l s)).
Proof.
  induction l as [|a r IH]; cbn [fold_left]; intros s Hx Nr; auto.
  apply IH; [|intros H; apply Nr; right; auto].
  destruct a; cbn [pass1_one]; auto; unfold free_obj; sproj; rewrite deref_heap; auto.
  apply remove_nat_In. split; auto. intros ->. apply Nr; left; auto.
Qed.

Lemma process_heap_keep fk s x : In x (heap s) -> ~ In (ARemove x) (queue s) -> In x (heap (process fk s)).
Proof.
  intros Hx Nr. unfold process. destruct (queue s) eqn:E; auto. rewrite <- E in Nr.
  unfold set_queue; sproj.
  unfold pass3. rewrite fold_pres by (intros; apply pass3_one_heap).
  unfold pass2. rewrite fold_pres by (intros; apply pass2_one_heap).
  unfold pass1. apply pass1_heap_keep.
  - rewrite sort_derefs_heap; auto.
  - rewrite sort_derefs_queue; auto.
Qed.

Lemma maybe_process_Inv s : Inv s -> Inv (maybe_process true s).
Proof. intros I. unfold maybe_process. destruct (trans s); auto using process_Inv. Qed.

Lemma maybe_process_cat fk s : cat (maybe_process fk s) = cat s.
Proof. unfold maybe_process. destruct (trans s); auto using process_cat. Qed.

Lemma maybe_process_heap_keep fk s x :
  In x (heap s) -> ~ In (ARemove x) (queue s) -> In x (heap (maybe_process fk s)).
Proof. unfold maybe_process. destruct (trans s); auto using process_heap_keep. Qed.

Lemma maybe_process_no_new_remove fk s x :
  ~ In (ARemove x) (queue s) -> ~ In (ARemove x) (queue (maybe_process fk s)).
Proof.
  unfold maybe_process. destruct (trans s); auto. rewrite process_queue. intros _ [].
Qed.

Lemma cat_cset s s' : cat s = cat s' -> cset s = cset s'.
Proof. unfold cat. congruence. Qed.
Lemma cat_alive s s' : cat s = cat s' -> alive s = alive s'.
Proof. unfold cat. congruence. Qed.

Lemma maybe_process_client_holds fk s x :
  client_holds s x = true -> client_holds (maybe_process fk s) x = true.
Proof.
  rewrite !client_holds_spec. intros (H1 & H2 & H3). split; [|split].
  - apply maybe_process_heap_keep; auto.
  - rewrite (cat_cset (maybe_process_cat fk s)); auto.
  - apply maybe_process_no_new_remove; auto.
Qed.

Lemma maybe_process_end_ok fk s e : end_ok s e = true -> end_ok (maybe_process fk s) e = true.
Proof. destruct e; cbn [end_ok]; auto using maybe_process_client_holds. Qed.

(* ------------------------------------------------------------------------------------------ *)
(* client operations                                                                          *)
(* ------------------------------------------------------------------------------------------ *)
Lemma NoDup_map_filter (A B : Type) (g : A -> B) (f : A -> bool) l :
  NoDup (map g l) -> NoDup (map g (filter f l)).
Proof.
  induction l as [|a r IH]; cbn [map filter]; intros ND; auto.
  apply NoDup_cons_iff in ND. destruct ND as [N1 N2].
  destruct (f a); cbn [map]; auto. constructor; auto.
  intros Hin. apply N1. apply in_map_iff in Hin. destruct Hin as [b [E Hb]].
  apply filter_In in Hb. rewrite <- E. apply in_map; tauto.
Qed.

Lemma QOK_filter H CS qk q f : QOK H CS qk q -> QOK H CS qk (filter f q).
Proof.
  intros Q. constructor.
  - intros a Ha. apply filter_In in Ha. apply (q_obj Q); tauto.
  - intros a o Ha. apply filter_In in Ha. apply (q_ends Q); tauto.
  - apply NoDup_map_filter, Q.
  - intros a Ha. apply filter_In in Ha. apply (q_cs Q); tauto.
  - intros a Ha. apply filter_In in Ha. apply (q_ne Q); tauto.
Qed.

Lemma QOK_heap_mono H H' CS qk q : QOK H CS qk q -> incl H H' -> QOK H' CS qk q.
Proof.
  intros Q Hi. constructor; try apply Q.
  - intros a Ha K. apply Hi, (q_obj Q); auto.
  - intros a o Ha Ho. destruct (q_ends Q _ _ Ha Ho). auto.
Qed.

Lemma QOK_snoc H CS qk q a :
  QOK H CS qk q -> In (act_obj a) H -> akind a <> KConn -> ~ In (act_obj a) (map act_obj q) ->
  ~ In (act_obj a) CS -> QOK H CS qk (q ++ [a]).
Proof.
  intros Q Ha NK Nin NC.
  assert (Ee : act_end_ids a = []) by (destruct a; cbn in *; auto; congruence).
  constructor.
  - intros b Hb K. apply in_app_iff in Hb. destruct Hb as [Hb|[<-|[]]]; auto. apply (q_obj Q); auto.
  - intros b o Hb Ho. apply in_app_iff in Hb. destruct Hb as [Hb|[<-|[]]].
    + apply (q_ends Q b); auto.
    + rewrite Ee in Ho. destruct Ho.
  - rewrite map_app. cbn [map]. apply NoDup_snoc; auto. apply Q.
  - intros b Hb. apply in_app_iff in Hb. destruct Hb as [Hb|[<-|[]]].
    + apply (q_cs Q); auto.
    + tauto.
  - intros b Hb. apply in_app_iff in Hb. destruct Hb as [Hb|[<-|[]]].
    + apply (q_ne Q); auto.
    + destruct a; cbn in *; auto; congruence.
Qed.

Lemma end_ok_spec s e : end_ok s e = true ->
  forall o, In o (end_ids e) -> In o (heap s) /\ ~ In o (cset s).
Proof.
  destruct e as [|x]; cbn [end_ok end_ids]; intros H o Ho.
  - destruct Ho.
  - destruct Ho as [<-|[]]. apply client_holds_spec in H. tauto.
Qed.

Lemma Inv_fresh_not_cset s x : Inv s -> ~ In x (heap s) -> ~ In x (freed s) -> ~ In x (cset s).
Proof. intros I H1 H2 H3. destruct (w_cs I x H3); auto. Qed.

(* an obstacle the client still holds has no queued action of the listed kinds *)
Lemma no_obj_in_queue s x q' :
  Inv s -> ~ In x (cset s) -> incl q' (queue s) ->
  (forall a, In a q' -> a <> AAdd x /\ a <> AMove x /\ a <> ARemove x) ->
  ~ In x (map act_obj q').
Proof.
  intros I NC Hi Hf Hin. apply in_map_iff in Hin. destruct Hin as [a [E Ha]].
  destruct (Hf a Ha) as (F1 & F2 & F3). apply Hi in Ha.
  destruct a as [o|o|o|c ups]; cbn [act_obj] in E; subst; try congruence.
  apply NC. apply (q_cs (w_q I) (AConn x ups)); auto.
Qed.

Lemma newobst_Inv s x : Inv s -> ~ In x (heap s) -> ~ In x (freed s) ->
  Inv (mkst (x :: heap s) (cset s) (active s) (aconns s) (attached s) (queue s ++ [AAdd x])
            (freed s) (bad s) (trans s) (alive s)).
Proof.
  intros I Nh Nf. pose proof (@Inv_fresh_not_cset s x I Nh Nf) as Nc.
  constructor; sproj; try apply I.
  - apply QOK_snoc; cbn [act_obj akind]; auto; try discriminate.
    + apply QOK_heap_mono with (heap s); [apply I|apply incl_tl, incl_refl].
    + left; auto.
    + intros Hin. apply in_map_iff in Hin. destruct Hin as [a [E Ha]].
      apply Nh. rewrite <- E. apply (q_obj (w_q I)); auto. exact Logic.I.
  - intros c w o H. destruct (w_att I c w o H) as (?&?&?&?). repeat split; auto; right; auto.
  - apply incl_tl, I.
  - apply incl_tl, I.
  - intros y Hy. destruct (w_cs I y Hy); auto. left; right; auto.
  - constructor; auto. apply I.
  - intros y [<-|Hy]; auto. apply (w_heap_fr I); auto.
  - intros y [<-|Hy].
    + right; right. exists (AAdd x). split; [apply in_app_iff; right; left; auto|].
      split; auto. left; reflexivity.
    + destruct (w_cover I y Hy) as [?|[?|[a [H1 H2]]]]; auto.
      right; right. exists a. split; auto. apply in_app_iff; auto.
Qed.

Lemma QOK_new_conn H CS q c : QOK H CS allK q -> ~ In c H -> QOK (c :: H) (c :: CS) allK q.
Proof.
  intros Q Nc. constructor; try apply Q.
  - intros a Ha K. right. apply (q_obj Q); auto.
  - intros a o Ha Ho. destruct (q_ends Q _ _ Ha Ho) as [H1 H2]. split; [right; auto|].
    intros [<-|H3]; auto.
  - intros a Ha. pose proof (q_obj Q a Ha Logic.I) as Hh. pose proof (q_cs Q a Ha) as Hc.
    split.
    + intros K. right. tauto.
    + intros [E|H3]; [rewrite <- E in Hh; tauto|tauto].
Qed.

Lemma newconn_Inv s c w e : Inv s -> ~ In c (heap s) -> ~ In c (freed s) -> end_ok s e = true ->
  Inv (mkst (c :: heap s) (c :: cset s) (active s) (aconns s) (attached s)
            (modify_conn_q (queue s) c w e false) (freed s) (bad s) (trans s) (alive s)).
Proof.
  intros I Nh Nf He. pose proof (end_ok_spec s e He) as Hends.
  constructor; sproj; try apply I.
  - apply QOK_modify; try (left; reflexivity).
    + apply QOK_new_conn; auto. apply I.
    + intros o Ho. destruct (Hends o Ho) as [H1 H2]. split; [right; auto|].
      intros [<-|H3]; auto.
  - intros c' w' o H. destruct (w_att I c' w' o H) as (H1&H2&H3&H4).
    repeat split; try (right; auto; fail). intros [<-|H5]; auto.
  - apply incl_tl, I.
  - apply incl_tl, I.
  - intros y [<-|Hy]; [left; left; auto|]. destruct (w_cs I y Hy); auto. left; right; auto.
  - constructor; auto. apply I.
  - intros y [<-|Hy]; auto. apply (w_heap_fr I); auto.
  - intros y [<-|Hy].
    + right; right. destruct (mq_in_c (queue s) c w e false) as [a' [H1 [H2 H3]]].
      exists a'. split; auto. split; auto. rewrite H2. right; reflexivity.
    + destruct (w_cover I y Hy) as [?|[?|[a [H1 [H2 H3]]]]]; auto.
      right; right.
      destruct (@mq_in_pres (queue s) c w e false a H1) as [a'' [F1 [F2 F3]]].
      exists a''. rewrite F2, F3. auto.
Qed.

Lemma setend_Inv s c w e : Inv s -> In c (heap s) -> In c (cset s) -> end_ok s e = true ->
  Inv (set_queue s (modify_conn_q (queue s) c w e false)).
Proof.
  intros I Hc Cc He. pose proof (end_ok_spec s e He) as Hends.
  unfold set_queue. constructor; sproj; try apply I.
  - apply QOK_modify; auto. apply I.
  - intros y Hy. destruct (w_cover I y Hy) as [?|[?|[a [H1 [H2 H3]]]]]; auto.
    right; right. destruct (@mq_in_pres (queue s) c w e false a H1) as [a'' [F1 [F2 F3]]].
    exists a''. rewrite F2, F3. auto.
Qed.

Lemma move_Inv s x : Inv s -> client_holds s x = true ->
  ~ In (AAdd x) (queue s) -> ~ In (AMove x) (queue s) ->
  Inv (set_queue s (queue s ++ [AMove x])).
Proof.
  intros I Hc Na Nm. apply client_holds_spec in Hc. destruct Hc as (Hh & Nc & Nr).
  unfold set_queue. constructor; sproj; try apply I.
  - apply QOK_snoc; cbn [act_obj akind]; auto; try discriminate; [apply I|].
    apply no_obj_in_queue with s; auto using incl_refl. intros a Ha.
    repeat split; intros ->; auto.
  - intros y Hy. destruct (w_cover I y Hy) as [?|[?|[a [H1 H2]]]]; auto.
    right; right. exists a. split; auto. apply in_app_iff; auto.
Qed.

Lemma delobst_Inv s x : Inv s -> client_holds s x = true -> ~ In (AAdd x) (queue s) ->
  Inv (set_queue s (filter (fun a => negb (act_is_move x a)) (queue s) ++ [ARemove x])).
Proof.
  intros I Hc Na. apply client_holds_spec in Hc. destruct Hc as (Hh & Nc & Nr).
  unfold set_queue. constructor; sproj; try apply I.
  - apply QOK_snoc; cbn [act_obj akind]; auto; try discriminate; [apply QOK_filter, I|].
    apply no_obj_in_queue with s; auto.
    + intros a Ha. apply filter_In in Ha. tauto.
    + intros a Ha. apply filter_In in Ha. destruct Ha as [Ha Hf].
      repeat split; intros ->; auto.
      cbn in Hf. rewrite Nat.eqb_refl in Hf. discriminate.
  - intros y Hy. destruct (w_cover I y Hy) as [?|[?|[a [H1 [H2 H3]]]]]; auto.
    right; right. exists a. split; auto. apply in_app_iff; left. apply filter_In. split; auto.
    destruct H3 as [K|K]; destruct a; cbn in K; try discriminate; reflexivity.
Qed.

Lemma delconn_Inv s c : Inv s -> In c (heap s) -> In c (cset s) ->
  Inv (free_obj c (mkst (heap s) (cset s) (active s) (aconns s)
                    (filter (fun t => negb (Nat.eqb c (fst (fst t)))) (attached s))
                    (filter (fun a => negb (Nat.eqb c (act_obj a))) (queue s))
                    (freed s) (bad s) (trans s) (alive s))).
Proof.
  intros I Hc Cc. unfold free_obj. sproj. constructor; sproj.
  - pose proof (QOK_filter (fun a => negb (Nat.eqb c (act_obj a))) (w_q I)) as Q. constructor; try apply Q.
    + intros a Ha K. apply remove_nat_In. split; [apply (q_obj Q); auto|].
      apply filter_In in Ha. destruct Ha as [_ Hf]. apply negb_true_iff, Nat.eqb_neq in Hf. auto.
    + intros a o Ha Ho. destruct (q_ends Q _ _ Ha Ho) as [H1 H2]. split; auto.
      apply remove_nat_In. split; auto. intros ->; auto.
  - intros c' w o H. apply filter_In in H. destruct H as [H Hf]. cbn [fst] in Hf.
    apply negb_true_iff, Nat.eqb_neq in Hf.
    destruct (w_att I c' w o H) as (H1&H2&H3&H4). repeat split; auto; apply remove_nat_In; split; auto.
    intros ->; auto.
  - intros y Hy. apply remove_nat_In in Hy. apply remove_nat_In. split; [apply (w_act I)|]; tauto.
  - intros y Hy. apply remove_nat_In in Hy. apply remove_nat_In. split; [apply (w_acn I)|]; tauto.
  - apply remove_nat_NoDup, I.
  - apply remove_nat_NoDup, I.
  - intros y Hy. destruct (Nat.eq_dec y c) as [->|Ny]; [right; left; auto|].
    destruct (w_cs I y Hy); [left; apply remove_nat_In; auto|right; right; auto].
  - apply mem_In in Hc. rewrite Hc. apply I.
  - apply remove_nat_NoDup, I.
  - intros y Hy. apply remove_nat_In in Hy. destruct Hy as [Hy Ny].
    intros [E|F]; [congruence|]. apply (w_heap_fr I y); auto.
  - intros y Hy. apply remove_nat_In in Hy. destruct Hy as [Hy Ny].
    destruct (w_cover I y Hy) as [?|[?|[a [H1 [H2 H3]]]]].
    + left. apply remove_nat_In; auto.
    + right; left. apply remove_nat_In; auto.
    + right; right. exists a. split; auto. apply filter_In. split; auto.
      apply negb_true_iff, Nat.eqb_neq. congruence.
Qed.

(* ---- ~Router ---- *)
Definition ffold (l : list nat) (s : st) : st := fold_left (fun s x => free_obj x s) l s.
Definition rm_all (l : list nat) (h : list nat) : list nat := fold_left (fun h x => remove_nat x h) l h.

Lemma rm_all_In l : forall h x, In x (rm_all l h) <-> In x h /\ ~ In x l.
Proof.
  unfold rm_all. induction l as [|y r IH]; cbn [fold_left]; intros h x.
  - cbn. tauto.
  - rewrite IH, remove_nat_In. cbn. intuition.
Qed.
Lemma rm_all_NoDup l : forall h, NoDup h -> NoDup (rm_all l h).
Proof.
  unfold rm_all. induction l as [|y r IH]; cbn [fold_left]; intros h ND; auto.
  apply IH, remove_nat_NoDup, ND.
Qed.

Lemma ff_heap l : forall s, heap (ffold l s) = rm_all l (heap s).
Proof. unfold ffold, rm_all. induction l as [|y r IH]; cbn [fold_left]; intros s; auto. rewrite IH. reflexivity. Qed.
Lemma ff_active l : forall s, active (ffold l s) = rm_all l (active s).
Proof. unfold ffold, rm_all. induction l as [|y r IH]; cbn [fold_left]; intros s; auto. rewrite IH. reflexivity. Qed.
Lemma ff_aconns l : forall s, aconns (ffold l s) = rm_all l (aconns s).
Proof. unfold ffold, rm_all. induction l as [|y r IH]; cbn [fold_left]; intros s; auto. rewrite IH. reflexivity. Qed.
Lemma ff_cat l : forall s, cat (ffold l s) = cat s.
Proof. unfold ffold. apply fold_pres. reflexivity. Qed.

Definition known (s : st) (x : nat) : Prop := In x (heap s) \/ In x (freed s).
Lemma ff_known l x : forall s, known s x -> known (ffold l s) x.
Proof.
  unfold ffold. induction l as [|y r IH]; cbn [fold_left]; intros s K; auto.
  apply IH. unfold known, free_obj; sproj. destruct (Nat.eq_dec x y) as [->|N]; [right; left; auto|].
  destruct K; [left; apply remove_nat_In; auto|right; right; auto].
Qed.

Lemma ff_bad l : forall s, NoDup l -> incl l (heap s) -> bad s = [] -> bad (ffold l s) = [].
Proof.
  unfold ffold. induction l as [|y r IH]; cbn [fold_left]; intros s ND Hi Hb; auto.
  apply NoDup_cons_iff in ND. destruct ND as [N1 N2].
  apply IH; auto.
  - unfold free_obj; sproj. intros x Hx. apply remove_nat_In. split; [apply Hi; right; auto|].
    intros ->; auto.
  - unfold free_obj; sproj. assert (In y (heap s)) as Hy by (apply Hi; left; auto).
    apply mem_In in Hy. rewrite Hy. auto.
Qed.

Definition pend_conn (acn : list nat) (a : act) : list nat :=
  match a with AConn c _ => if mem c acn then [] else [c] | _ => [] end.
Definition pend_obst (a : act) : list nat := match a with AAdd o => [o] | _ => [] end.

Lemma nodup_flat_obj (f : act -> list nat) q :
  (forall a, f a = [] \/ f a = [act_obj a]) -> NoDup (map act_obj q) -> NoDup (flat_map f q).
Proof.
  intros Hf. induction q as [|a r IH]; cbn [map flat_map]; intros ND; [constructor|].
  apply NoDup_cons_iff in ND. destruct ND as [N1 N2].
  destruct (Hf a) as [E|E]; rewrite E; cbn [app]; auto.
  constructor; auto. intros Hin. apply in_flat_map in Hin. destruct Hin as [b [Hb Hx]].
  apply N1. destruct (Hf b) as [Eb|Eb]; rewrite Eb in Hx; [destruct Hx|].
  destruct Hx as [<-|[]]. apply in_map; auto.
Qed.

Lemma pend_conn_In acn q x :
  In x (flat_map (pend_conn acn) q) <-> (exists ups, In (AConn x ups) q) /\ ~ In x acn.
Proof.
  rewrite in_flat_map. split.
  - intros [a [Ha Hx]]. destruct a; cbn [pend_conn] in Hx; try destruct Hx.
    destruct (mem c acn) eqn:E; [destruct Hx|]. destruct Hx as [<-|[]].
    apply mem_nIn in E. eauto.
  - intros [[ups Ha] N]. exists (AConn x ups). split; auto. cbn [pend_conn].
    apply mem_nIn in N. rewrite N. left; auto.
Qed.

Lemma pend_obst_In q x : In x (flat_map pend_obst q) <-> In (AAdd x) q.
Proof.
  rewrite in_flat_map. split.
  - intros [a [Ha Hx]]. destruct a; cbn [pend_obst] in Hx; try destruct Hx. subst; auto. destruct H.
  - intros Ha. exists (AAdd x). split; auto. left; auto.
Qed.

Lemma destroy_eq s :
  destroy true s =
  let s1 := ffold (flat_map (pend_conn (aconns s)) (queue s)) s in
  let s2 := ffold (flat_map pend_obst (queue s)) s1 in
  let s3 := ffold (aconns s2) s2 in
  let s4 := ffold (active s3) s3 in
  mkst (heap s4) (cset s4) [] [] [] [] (freed s4) (bad s4) (trans s4) false.
Proof. reflexivity. Qed.

Lemma destroy_Inv s : Inv s -> Inv (destroy true s) /\ heap (destroy true s) = [].
Proof.
  intros I. rewrite destroy_eq. cbv zeta.
  set (pc := flat_map (pend_conn (aconns s)) (queue s)).
  set (po := flat_map pend_obst (queue s)).
  assert (NDpc : NoDup pc).
  { apply nodup_flat_obj; [|apply (q_nd (w_q I))].
    intros a; destruct a; cbn; auto. destruct (mem c (aconns s)); auto. }
  assert (NDpo : NoDup po).
  { apply nodup_flat_obj; [|apply (q_nd (w_q I))]. intros a; destruct a; cbn; auto. }
  assert (Hpc : forall x, In x pc -> In x (heap s) /\ In x (cset s)).
  { intros x Hx. apply pend_conn_In in Hx. destruct Hx as [[ups Ha] _]. split.
    - apply (q_obj (w_q I) (AConn x ups)); auto. exact Logic.I.
    - apply (q_cs (w_q I) (AConn x ups)); auto. }
  assert (Hpo : forall x, In x po -> In x (heap s) /\ ~ In x (cset s)).
  { intros x Hx. apply pend_obst_In in Hx. split.
    - apply (q_obj (w_q I) (AAdd x)); auto. exact Logic.I.
    - intros Hc. apply (q_cs (w_q I) (AAdd x)) in Hc; auto. discriminate. }
  set (s1 := ffold pc s).
  assert (B1 : bad s1 = []).
  { apply ff_bad; auto; [|apply I]. intros x Hx. apply Hpc; auto. }
  set (s2 := ffold po s1).
  assert (B2 : bad s2 = []).
  { apply ff_bad; auto. intros x Hx. unfold s1. rewrite ff_heap. apply rm_all_In.
    destruct (Hpo x Hx). split; auto. intros Hc. apply Hpc in Hc. tauto. }
  set (s3 := ffold (aconns s2) s2).
  assert (A2 : forall x, In x (aconns s2) <-> In x (aconns s) /\ ~ In x pc /\ ~ In x po).
  { intros x. unfold s2, s1. rewrite !ff_aconns, !rm_all_In. tauto. }
  assert (H2 : forall x, In x (heap s2) <-> In x (heap s) /\ ~ In x pc /\ ~ In x po).
  { intros x. unfold s2, s1. rewrite !ff_heap, !rm_all_In. tauto. }
  assert (B3 : bad s3 = []).
  { apply ff_bad; auto.
    - unfold s2, s1. rewrite !ff_aconns. apply rm_all_NoDup, rm_all_NoDup, I.
    - intros x Hx. apply H2. apply A2 in Hx. destruct Hx as (Hx & ? & ?). split; auto.
      apply (w_acn I); auto. }
  set (s4 := ffold (active s3) s3).
  assert (A3 : forall x, In x (active s3) <->
                         In x (active s) /\ ~ In x pc /\ ~ In x po /\ ~ In x (aconns s2)).
  { intros x. unfold s3, s2, s1. rewrite !ff_active, !rm_all_In. tauto. }
  assert (H3 : forall x, In x (heap s3) <->
                         In x (heap s) /\ ~ In x pc /\ ~ In x po /\ ~ In x (aconns s2)).
  { intros x. unfold s3. rewrite ff_heap, rm_all_In, H2. tauto. }
  assert (B4 : bad s4 = []).
  { apply ff_bad; auto.
    - unfold s3, s2, s1. rewrite !ff_active. apply rm_all_NoDup, rm_all_NoDup, rm_all_NoDup, I.
    - intros x Hx. apply H3. apply A3 in Hx. destruct Hx as (Hx & ? & ? & ?). repeat split; auto.
      apply (w_act I); auto. }
  assert (H4 : heap s4 = []).
  { destruct (heap s4) as [|x r] eqn:E; auto. exfalso.
    assert (Hx : In x (heap s4)) by (rewrite E; left; auto).
    unfold s4 in Hx. rewrite ff_heap, rm_all_In, H3 in Hx.
    destruct Hx as ((Hx & N1 & N2 & N3) & N4).
    assert (Nac : ~ In x (aconns s)) by (intros Hc; apply N3, A2; auto).
    destruct (w_cover I x Hx) as [Hc|[Hc|[a [G1 [G2 G3]]]]]; auto.
    - apply N4, A3; auto.
    - destruct G3 as [K|K]; destruct a; cbn in K; try discriminate; cbn [act_obj] in G2; subst.
      + apply N2. apply pend_obst_In; auto.
      + apply N1. apply pend_conn_In. eauto. }
  assert (Ec : cset s4 = cset s).
  { unfold s4, s3, s2, s1. rewrite !(cat_cset (ff_cat _ _)). reflexivity. }
  assert (Kn : forall x, known s x -> known s4 x).
  { intros x Hx. unfold s4, s3, s2, s1. repeat apply ff_known. exact Hx. }
  clearbody s4. split; [|exact H4].
  constructor; sproj.
  - apply QOK_nil.
  - intros c w o [].
  - intros x [].
  - intros x [].
  - constructor.
  - constructor.
  - intros x Hx. rewrite Ec in Hx. apply (w_cs I) in Hx. apply (Kn x Hx).
  - exact B4.
  - rewrite H4. constructor.
  - rewrite H4. intros x [].
  - rewrite H4. intros x [].
Qed.

(* ------------------------------------------------------------------------------------------ *)
(* every step preserves the invariant                                                         *)
(* ------------------------------------------------------------------------------------------ *)
Lemma step_Inv s o : Inv s -> Inv (step true true s o).
Proof.
  intros I. unfold step. destruct (legal s o) eqn:L; cbn [negb]; auto.
  unfold legal in L. apply andb_true_iff in L. destruct L as [_ L].
  destruct o as [x|c e1 e2|c w e|x|x|c| |].
  - apply fresh_spec in L. destruct L. apply maybe_process_Inv, newobst_Inv; auto.
  - apply andb_true_iff in L. destruct L as [L L2]. apply andb_true_iff in L. destruct L as [L L1].
    apply fresh_spec in L. destruct L as [Nh Nf].
    cbv zeta. unfold set_queue at 2. sproj.
    pose proof (@newconn_Inv s c false e1 I Nh Nf L1) as I1.
    apply maybe_process_Inv in I1.
    match goal with |- Inv (maybe_process true (set_queue ?s1 _)) => set (s' := s1) in * end.
    apply maybe_process_Inv, setend_Inv; auto.
    + apply maybe_process_heap_keep; unfold set_queue; sproj; [left; auto|].
      intros Hr. apply mq_in_inv in Hr. destruct Hr as [[K _]|Hr]; [discriminate|].
      apply Nh. apply (q_obj (w_q I) (ARemove c)); auto. exact Logic.I.
    + rewrite (cat_cset (maybe_process_cat _ _)). unfold set_queue; sproj. left; auto.
    + apply maybe_process_end_ok.
      destruct e2 as [|o]; cbn [end_ok] in *; auto.
      apply client_holds_spec in L2. apply client_holds_spec. unfold set_queue; sproj.
      destruct L2 as (H1 & H2 & H3). split; [right; auto|]. split.
      * intros [<-|H4]; auto.
      * intros Hr. apply mq_in_inv in Hr. destruct Hr as [[K _]|Hr]; [discriminate|auto].
  - apply andb_true_iff in L. destruct L as [L L2]. apply andb_true_iff in L. destruct L as [L0 L1].
    apply mem_In in L0. apply mem_In in L1. apply maybe_process_Inv, setend_Inv; auto.
  - destruct (existsb (act_is_add x) (queue s)) eqn:Ea; auto.
    destruct (existsb (act_is_move x) (queue s)) eqn:Em; [apply maybe_process_Inv; auto|].
    apply maybe_process_Inv, move_Inv; auto.
    + rewrite <- is_add_In. congruence.
    + rewrite <- is_move_In. congruence.
  - apply andb_true_iff in L. destruct L as [L L1]. apply negb_true_iff in L1.
    apply maybe_process_Inv, delobst_Inv; auto. rewrite <- is_add_In. congruence.
  - apply andb_true_iff in L. destruct L as [L0 L1].
    apply mem_In in L0. apply mem_In in L1. apply delconn_Inv; auto.
  - apply process_Inv; auto.
  - apply destroy_Inv; auto.
Qed.

Lemma init_Inv t : Inv (init t).
Proof.
  unfold init. constructor; sproj.
  - apply QOK_nil.
  - intros c w o [].
  - intros x [].
  - intros x [].
  - constructor.
  - constructor.
  - intros x [].
  - reflexivity.
  - constructor.
  - intros x [].
  - intros x [].
Qed.

Lemma run_Inv t ops : Inv (run true true t ops).
Proof.
  unfold run. generalize (init_Inv t). generalize (init t).
  induction ops as [|o r IH]; cbn [fold_left]; intros s I; auto. apply IH, step_Inv, I.
Qed.

(* ------------------------------------------------------------------------------------------ *)
(* the properties                                                                             *)
(* ------------------------------------------------------------------------------------------ *)
Theorem no_use_after_free : forall t ops, bad (run true true t ops) = [].
Proof. intros. apply (w_bad (run_Inv t ops)). Qed.

Theorem queue_objects_live : forall t ops a,
  In a (queue (run true true t ops)) -> In (act_obj a) (heap (run true true t ops)).
Proof. intros t ops a Ha. apply (q_obj (w_q (run_Inv t ops)) a Ha). exact Logic.I. Qed.

Theorem queue_ends_live : forall t ops a o,
  In a (queue (run true true t ops)) -> In o (act_end_ids a) -> In o (heap (run true true t ops)).
Proof. intros t ops a o Ha Ho. apply (q_ends (w_q (run_Inv t ops)) a o Ha Ho). Qed.

Theorem attached_live : forall t ops c w o,
  In (c, w, o) (attached (run true true t ops)) ->
  In c (heap (run true true t ops)) /\ In o (heap (run true true t ops)).
Proof. intros t ops c w o H. destruct (w_att (run_Inv t ops) c w o H) as (?&?&?&?). auto. Qed.

Theorem heap_nodup_fresh : forall t ops,
  NoDup (heap (run true true t ops)) /\
  forall x, In x (heap (run true true t ops)) -> ~ In x (freed (run true true t ops)).
Proof. intros. split; [apply (w_heap_nd (run_Inv t ops))|apply (w_heap_fr (run_Inv t ops))]. Qed.

(* ---- nothing is leaked once the router is destroyed ---- *)
Lemma step_alive s o : o <> ODestroy -> alive (step true true s o) = alive s.
Proof.
  intros No. unfold step. destruct (legal s o); cbn [negb]; auto.
  destruct o as [x|c e1 e2|c w e|x|x|c| |]; try congruence; cbv zeta.
  - rewrite (cat_alive (maybe_process_cat _ _)). reflexivity.
  - rewrite (cat_alive (maybe_process_cat _ _)). unfold set_queue at 1; sproj.
    rewrite (cat_alive (maybe_process_cat _ _)). reflexivity.
  - rewrite (cat_alive (maybe_process_cat _ _)). reflexivity.
  - destruct (existsb (act_is_add x) (queue s)); auto.
    destruct (existsb (act_is_move x) (queue s));
      rewrite (cat_alive (maybe_process_cat _ _)); auto.
  - rewrite (cat_alive (maybe_process_cat _ _)). reflexivity.
  - reflexivity.
  - apply (cat_alive (process_cat _ _)).
Qed.

Definition Inv2 (s : st) : Prop := Inv s /\ (alive s = false -> heap s = []).

Lemma step_Inv2 s o : Inv2 s -> Inv2 (step true true s o).
Proof.
  intros [I D]. split; [apply step_Inv; auto|].
  destruct (legal s o) eqn:L.
  - destruct o; try (rewrite step_alive by discriminate; unfold legal in L;
                     apply andb_true_iff in L; destruct L as [L _]; congruence).
    intros _. unfold step. rewrite L. cbn [negb]. apply destroy_Inv; auto.
  - unfold step. rewrite L. cbn [negb]. auto.
Qed.

Lemma run_Inv2 t ops : Inv2 (run true true t ops).
Proof.
  unfold run. assert (I0 : Inv2 (init t)) by (split; [apply init_Inv|cbn; discriminate]).
  revert I0. generalize (init t).
  induction ops as [|o r IH]; cbn [fold_left]; intros s I; auto. apply IH, step_Inv2, I.
Qed.

Theorem destroy_releases_all : forall t ops,
  alive (run true true t ops) = false -> heap (run true true t ops) = [].
Proof. intros t ops. apply (proj2 (run_Inv2 t ops)). Qed.

(* ------------------------------------------------------------------------------------------ *)
(* legality of a history; refutations for the code before the repairs; non-vacuity            *)
(* ------------------------------------------------------------------------------------------ *)
(* every op is legal in the state in which it is applied *)
Fixpoint all_legal (fk fl : bool) (s : st) (ops : list op) : bool :=
  match ops with [] => true | o :: r => legal s o && all_legal fk fl (step fk fl s o) r end.

Definition uaf_witness : list op :=
  [ONewObst 1; OProcess; ONewConn 10 (EObst 1) EPoint; ODelObst 1; OProcess].
Definition leak_witness : list op := [ONewObst 2; ONewObst 3; ODestroy].

(* F-k: before the repair (fk = false) processActions dereferences the freed obstacle 1 through the
   connector-end copy queued by the ONewConn *)
Lemma uaf_before_fix_witness :
  all_legal false true (init true) uaf_witness = true /\ bad (run false true true uaf_witness) = [1].
Proof. vm_compute. repeat split. Qed.

Theorem uaf_refuted_before_fix :
  exists t ops, all_legal false true (init t) ops = true /\ bad (run false true t ops) <> [].
Proof.
  exists true, uaf_witness. destruct uaf_before_fix_witness as [H1 H2]. split; auto.
  rewrite H2. discriminate.
Qed.

(* F-l: before the repair (fl = false) ~Router leaks obstacles whose add is still queued *)
Lemma leak_before_fix_witness :
  all_legal true false (init true) leak_witness = true /\
  alive (run true false true leak_witness) = false /\ heap (run true false true leak_witness) = [3; 2].
Proof. vm_compute. repeat split. Qed.

Theorem leak_refuted_before_fix :
  exists t ops, all_legal true false (init t) ops = true /\
                alive (run true false t ops) = false /\ heap (run true false t ops) <> [].
Proof.
  exists true, leak_witness. destruct leak_before_fix_witness as (H1 & H2 & H3). repeat split; auto.
  rewrite H3. discriminate.
Qed.

(* the repaired code on the same witnesses *)
Example uaf_witness_after_fix :
  all_legal true true (init true) uaf_witness = true /\ bad (run true true true uaf_witness) = [] /\
  heap (run true true true uaf_witness) = [10].
Proof. vm_compute. repeat split. Qed.
Example leak_witness_after_fix :
  all_legal true true (init true) leak_witness = true /\ heap (run true true true leak_witness) = [] /\
  freed (run true true true leak_witness) = [3; 2].
Proof. vm_compute. repeat split. Qed.

(* A 14-op history, all ops legal: obstacle 1 is moved while connector 10 is attached to it, obstacle 2
   is deleted inside a pending transaction while a queued end of connector 10 refers to it, and the
   router is destroyed with a non-empty queue. *)
Definition demo : list op :=
  [ONewObst 1; ONewObst 2; OProcess; ONewConn 10 (EObst 1) (EObst 2); OProcess;
   OMove 1; OSetEnd 10 true (EObst 2); ODelObst 2; OProcess;
   ONewObst 3; ONewConn 11 (EObst 3) EPoint; OMove 1; ODelConn 10; ODestroy].

Example demo_legal : all_legal true true (init true) demo = true /\ length demo = 14.
Proof. vm_compute. repeat split. Qed.

Example demo_mid_transaction :
  let s := run true true true (firstn 8 demo) in
  queue s = [AMove 1; AConn 10 [(true, EObst 2)]; ARemove 2] /\
  attached s = [(10, true, 2); (10, false, 1)] /\ heap s = [10; 2; 1] /\ bad s = [].
Proof. vm_compute. repeat split. Qed.

Example demo_after_process :
  let s := run true true true (firstn 9 demo) in
  queue s = [] /\ attached s = [(10, false, 1)] /\ heap s = [10; 1] /\ freed s = [2] /\
  active s = [1] /\ bad s = [].
Proof. vm_compute. repeat split. Qed.

Example demo_before_destroy :
  let s := run true true true (firstn 13 demo) in
  queue s = [AAdd 3; AConn 11 [(false, EObst 3); (true, EPoint)]; AMove 1] /\ heap s = [11; 3; 1] /\
  active s = [1] /\ aconns s = [] /\ alive s = true.
Proof. vm_compute. repeat split. Qed.

Example demo_end :
  let s := run true true true demo in
  alive s = false /\ bad s = [] /\ heap s = [] /\ freed s = [1; 3; 11; 10; 2].
Proof. vm_compute. repeat split. Qed.

(* the same history on the code before the F-k repair dereferences the freed obstacle 2, and on the
   code before the F-l repair leaks 11 and 3: the theorems really depend on the repairs *)
Example demo_before_fixes :
  bad (run false true true demo) = [2] /\ heap (run true false true demo) = [11; 3].
Proof. vm_compute. repeat split. Qed.

(* immediate mode (no transaction): every op is processed at once *)
Example demo_immediate :
  all_legal true true (init false) demo = true /\
  bad (run true true false demo) = [] /\ heap (run true true false demo) = [] /\
  alive (run true true false demo) = false.
Proof. vm_compute. repeat split. Qed.
