(* C15 - proofs about the ownership / queued-action protocol model of Avoid::Router (LifecycleModel.v).
   Main results (all for unbounded op lists, by an invariant over `run`):
     no_use_after_free      : bad (run true true t ops) = []
     queue_objects_live     : queued objects are allocated
     queue_ends_live        : obstacles referred to by queued connector-end copies are allocated
     destroy_releases_all   : alive = false -> heap = []
     heap_nodup_fresh       : the heap has no duplicates and is disjoint from the free history
   plus vm_compute refutations for the code variants before the F-k / F-l repairs. *)
From Coq Require Import List Arith Bool Lia.
Import ListNotations.
From Adapt Require Import Avoid.LifecycleModel.

Set Implicit Arguments.

(* ------------------------------------------------------------------------------------------ *)
(* reflection lemmas                                                                          *)
(* ------------------------------------------------------------------------------------------ *)
Lemma mem_In x l : mem x l = true <-> In x l.
Proof.
  unfold mem. rewrite existsb_exists. split.
  - intros [y [H1 H2]]. apply Nat.eqb_eq in H2. subst; auto.
  - intros H. exists x. split; auto. apply Nat.eqb_refl.
Qed.

Lemma mem_nIn x l : mem x l = false <-> ~ In x l.
Proof.
  split; intros H.
  - intros HI. apply mem_In in HI. congruence.
  - destruct (mem x l) eqn:E; auto. apply mem_In in E. tauto.
Qed.

Lemma remove_nat_In y x l : In y (remove_nat x l) <-> In y l /\ y <> x.
Proof.
  unfold remove_nat. rewrite filter_In, negb_true_iff, Nat.eqb_neq. intuition.
Qed.

Lemma remove_nat_NoDup x l : NoDup l -> NoDup (remove_nat x l).
Proof. apply NoDup_filter. Qed.

Lemma is_add_In o q : existsb (act_is_add o) q = true <-> In (AAdd o) q.
Proof.
  rewrite existsb_exists. split.
  - intros [a [Ha E]]. destruct a; cbn in E; try discriminate. apply Nat.eqb_eq in E. subst; auto.
  - intros H. exists (AAdd o). split; auto. cbn. apply Nat.eqb_refl.
Qed.
Lemma is_move_In o q : existsb (act_is_move o) q = true <-> In (AMove o) q.
Proof.
  rewrite existsb_exists. split.
  - intros [a [Ha E]]. destruct a; cbn in E; try discriminate. apply Nat.eqb_eq in E. subst; auto.
  - intros H. exists (AMove o). split; auto. cbn. apply Nat.eqb_refl.
Qed.
Lemma is_remove_In o q : existsb (act_is_remove o) q = true <-> In (ARemove o) q.
Proof.
  rewrite existsb_exists. split.
  - intros [a [Ha E]]. destruct a; cbn in E; try discriminate. apply Nat.eqb_eq in E. subst; auto.
  - intros H. exists (ARemove o). split; auto. cbn. apply Nat.eqb_refl.
Qed.
Lemma is_conn_In c q : existsb (act_is_conn c) q = true <-> exists ups, In (AConn c ups) q.
Proof.
  rewrite existsb_exists. split.
  - intros [a [Ha E]]. destruct a; cbn in E; try discriminate. apply Nat.eqb_eq in E. subst; eauto.
  - intros [ups H]. exists (AConn c ups). split; auto. cbn. apply Nat.eqb_refl.
Qed.

Lemma client_holds_spec s o :
  client_holds s o = true <-> In o (heap s) /\ ~ In o (cset s) /\ ~ In (ARemove o) (queue s).
Proof.
  unfold client_holds. rewrite !andb_true_iff, !negb_true_iff, mem_In, mem_nIn.
  rewrite <- not_true_iff_false, is_remove_In. tauto.
Qed.

Lemma fresh_spec s x : fresh s x = true <-> ~ In x (heap s) /\ ~ In x (freed s).
Proof. unfold fresh. rewrite andb_true_iff, !negb_true_iff, !mem_nIn. tauto. Qed.

Lemma nodup_map_inj (A B : Type) (f : A -> B) l a b :
  NoDup (map f l) -> In a l -> In b l -> f a = f b -> a = b.
Proof.
  induction l as [|x r IH]; cbn; intros ND Ha Hb E; [tauto|].
  apply NoDup_cons_iff in ND. destruct ND as [N1 N2].
  destruct Ha as [Ha|Ha], Hb as [Hb|Hb]; subst; auto.
  - exfalso. apply N1. rewrite E. apply in_map; auto.
  - exfalso. apply N1. rewrite <- E. apply in_map; auto.
Qed.

Lemma NoDup_snoc (A : Type) (l : list A) x : NoDup l -> ~ In x l -> NoDup (l ++ [x]).
Proof.
  induction l as [|y r IH]; cbn; intros ND NI.
  - repeat constructor; auto.
  - apply NoDup_cons_iff in ND. destruct ND as [N1 N2]. constructor.
    + rewrite in_app_iff. cbn. intuition.
    + apply IH; auto.
Qed.

Lemma fold_pres (A B S : Type) (f : S -> A -> S) (p : S -> B) :
  (forall s a, p (f s a) = p s) -> forall l s, p (fold_left f l s) = p s.
Proof. intros H l. induction l as [|a r IH]; cbn; intros s; auto. rewrite IH. apply H. Qed.

(* ------------------------------------------------------------------------------------------ *)
(* kinds of actions, queue well-formedness                                                    *)
(* ------------------------------------------------------------------------------------------ *)
Inductive kind := KAdd | KMove | KRemove | KConn.
Definition akind (a : act) : kind :=
  match a with AAdd _ => KAdd | AMove _ => KMove | ARemove _ => KRemove | AConn _ _ => KConn end.
Definition act_ne (a : act) : Prop := match a with AConn _ [] => False | _ => True end.

Definition allK (k : kind) : Prop := True.
Definition pendK (k : kind) : Prop := k = KAdd \/ k = KConn.
Definition nonRem (k : kind) : Prop := k <> KRemove.
Definition connK (k : kind) : Prop := k = KConn.
Definition noneK (k : kind) : Prop := False.

Lemma kind_conn_inv a : akind a = KConn -> exists ups, a = AConn (act_obj a) ups.
Proof. destruct a; cbn; try discriminate. eauto. Qed.

(* queue q is well formed w.r.t. heap H and connector-id set CS; qk: the kinds whose object must be live *)
Record QOK (H CS : list nat) (qk : kind -> Prop) (q : list act) : Prop := {
  q_obj : forall a, In a q -> qk (akind a) -> In (act_obj a) H;
  q_ends : forall a o, In a q -> In o (act_end_ids a) -> In o H /\ ~ In o CS;
  q_nd : NoDup (map act_obj q);
  q_cs : forall a, In a q -> (akind a = KConn <-> In (act_obj a) CS);
  q_ne : forall a, In a q -> act_ne a }.

(* ---- add_update / modify_conn_q ---- *)
Lemma au_ends ups w e pm u o :
  In u (add_update ups w e pm) -> In o (end_ids (snd u)) ->
  In o (end_ids e) \/ exists u', In u' ups /\ In o (end_ids (snd u')).
Proof.
  induction ups as [|[w' e'] r IH]; cbn.
  - intros [<-|[]] Ho. cbn in Ho. auto.
  - destruct (Bool.eqb w w').
    + intros [<-|Hu] Ho.
      * cbn in Ho. destruct pm; auto. right. exists (w', e'). cbn. auto.
      * right. exists u. auto.
    + intros [<-|Hu] Ho.
      * right. exists (w', e'). auto.
      * destruct (IH Hu Ho) as [|[u' [H1 H2]]]; auto. right. exists u'. auto.
Qed.

Lemma au_ne ups w e pm : add_update ups w e pm <> [].
Proof. destruct ups as [|[w' e'] r]; cbn; try discriminate. destruct (Bool.eqb w w'); discriminate. Qed.

Lemma mq_objs q c w e pm :
  map act_obj (modify_conn_q q c w e pm) =
  if existsb (act_is_conn c) q then map act_obj q else map act_obj q ++ [c].
Proof.
  induction q as [|a r IH]; cbn [modify_conn_q existsb map app]; auto.
  destruct a; cbn [act_is_conn orb map act_obj]; try (rewrite IH; destruct (existsb (act_is_conn c) r); reflexivity).
  destruct (Nat.eqb c c0) eqn:E; cbn [orb map act_obj]; auto.
  rewrite IH; destruct (existsb (act_is_conn c) r); reflexivity.
Qed.

Lemma mq_in_inv q c w e pm a :
  In a (modify_conn_q q c w e pm) -> (akind a = KConn /\ act_obj a = c) \/ In a q.
Proof.
  induction q as [|b r IH]; cbn [modify_conn_q].
  - intros [<-|[]]. auto.
  - destruct b; try (intros [<-|H]; [right; left; auto | destruct (IH H); auto; right; right; auto]).
    destruct (Nat.eqb c c0) eqn:E.
    + apply Nat.eqb_eq in E. subst c0. intros [<-|H]; [left; auto | right; right; auto].
    + intros [<-|H]; [right; left; auto | destruct (IH H); auto; right; right; auto].
Qed.

Lemma mq_in_nonconn q c w e pm a :
  akind a <> KConn -> In a q -> In a (modify_conn_q q c w e pm).
Proof.
  intros NK. induction q as [|b r IH]; cbn [modify_conn_q]; [intros []|].
  intros [->|H].
  - destruct a; cbn in NK; try congruence; left; auto.
  - destruct b; try (right; auto).
    destruct (Nat.eqb c c0); right; auto.
Qed.

Lemma mq_in_pres q c w e pm a :
  In a q -> exists a', In a' (modify_conn_q q c w e pm) /\ akind a' = akind a /\ act_obj a' = act_obj a.
Proof.
  induction q as [|b r IH]; cbn [modify_conn_q]; [intros []|].
  intros [<-|H].
  - destruct b; try (eexists; split; [left; reflexivity|auto]).
    destruct (Nat.eqb c c0); eexists; (split; [left; reflexivity|auto]).
  - destruct (IH H) as [a' [H1 H2]].
    destruct b; try (exists a'; split; [right; auto|auto]).
    destruct (Nat.eqb c c0).
    + exists a. split; [right; auto|auto].
    + exists a'; split; [right; auto|auto].
Qed.

Lemma mq_in_c q c w e pm :
  exists a', In a' (modify_conn_q q c w e pm) /\ akind a' = KConn /\ act_obj a' = c.
Proof.
  induction q as [|b r IH]; cbn [modify_conn_q].
  - eexists; split; [left; reflexivity|auto].
  - destruct IH as [a' [H1 H2]].
    destruct b; try (exists a'; split; [right; auto|auto]).
    destruct (Nat.eqb c c0) eqn:E.
    + apply Nat.eqb_eq in E. subst. eexists; split; [left; reflexivity|auto].
    + exists a'; split; [right; auto|auto].
Qed.

Lemma mq_ends q c w e pm a o :
  In a (modify_conn_q q c w e pm) -> In o (act_end_ids a) ->
  In o (end_ids e) \/ exists a', In a' q /\ In o (act_end_ids a').
Proof.
  induction q as [|b r IH]; cbn [modify_conn_q].
  - intros [<-|[]] Ho. cbn in Ho. rewrite app_nil_r in Ho. auto.
  - assert (G : forall b', In a (b' :: modify_conn_q r c w e pm) -> act_end_ids b' = act_end_ids b ->
              In o (act_end_ids a) -> In o (end_ids e) \/ exists a', In a' (b :: r) /\ In o (act_end_ids a')).
    { intros b' [<-|H] Eb Ho.
      - right. exists b. rewrite <- Eb. split; [left|]; auto.
      - destruct (IH H Ho) as [|[a' [H1 H2]]]; auto. right. exists a'. split; [right|]; auto. }
    destruct b; try (intros H Ho; apply (G _ H eq_refl Ho)).
    destruct (Nat.eqb c c0) eqn:E.
    + intros [<-|H] Ho.
      * cbn [act_end_ids] in Ho. apply in_flat_map in Ho. destruct Ho as [u [Hu Ho]].
        destruct (au_ends _ _ _ _ _ _ Hu Ho) as [|[u' [H1 H2]]]; auto.
        right. exists (AConn c0 ups). split; [left; auto|]. cbn [act_end_ids]. apply in_flat_map. eauto.
      * right. exists a. split; [right|]; auto.
    + intros H Ho; apply (G _ H eq_refl Ho).
Qed.

Lemma mq_ne q c w e pm :
  (forall a, In a q -> act_ne a) -> forall a, In a (modify_conn_q q c w e pm) -> act_ne a.
Proof.
  induction q as [|b r IH]; cbn [modify_conn_q]; intros Hq a.
  - intros [<-|[]]. exact I.
  - assert (Hr : forall a, In a r -> act_ne a) by (intros; apply Hq; right; auto).
    destruct b; try (intros [<-|H]; [apply Hq; left; auto | apply IH; auto]).
    destruct (Nat.eqb c c0).
    + intros [<-|H]; [|apply Hr; auto].
      cbn. pose proof (au_ne ups w e pm). destruct (add_update ups w e pm); auto.
    + intros [<-|H]; [apply Hq; left; auto | apply IH; auto].
Qed.

Lemma QOK_modify H CS qk q c w e pm :
  QOK H CS qk q -> In c H -> In c CS -> (forall o, In o (end_ids e) -> In o H /\ ~ In o CS) ->
  QOK H CS qk (modify_conn_q q c w e pm).
Proof.
  intros Q Hc Cc He. constructor.
  - intros a Ha Hk. destruct (mq_in_inv _ _ _ _ _ _ Ha) as [[_ E]|Hq].
    + rewrite E; auto.
    + apply (q_obj Q); auto.
  - intros a o Ha Ho. destruct (mq_ends _ _ _ _ _ _ _ Ha Ho) as [H1|[a' [H1 H2]]]; auto.
    apply (q_ends Q) with a'; auto.
  - rewrite mq_objs. destruct (existsb (act_is_conn c) q) eqn:E; [apply (q_nd Q)|].
    apply NoDup_snoc; [apply (q_nd Q)|].
    intros Hin. apply in_map_iff in Hin. destruct Hin as [a [E1 Ha]].
    assert (K : akind a = KConn) by (apply (q_cs Q); auto; rewrite E1; auto).
    apply kind_conn_inv in K. destruct K as [ups K]. rewrite E1 in K. subst a.
    assert (existsb (act_is_conn c) q = true) by (apply is_conn_In; eauto). congruence.
  - intros a Ha. destruct (mq_in_inv _ _ _ _ _ _ Ha) as [[K E]|Hq].
    + rewrite E. tauto.
    + apply (q_cs Q); auto.
  - apply mq_ne. apply (q_ne Q).
Qed.
