(* Totality of the certifying Dijkstra (Avoid/CertDijkstraModel.v) - C04 / C03.
     dijkstra_total : for every finite graph on nodes 0..N-1 whose edges stay inside the node set, carry
                      non-negative integer weights and are not parallel (at most one edge u -> v), and every source
                      s < N:   dijkstra N succs s t <> Fail.
   Proof: the classical label-setting invariant of the loop `dloop` (visited nodes are closed under relaxation, the
   visited labels are below the unvisited ones, every finite label is the label of its predecessor plus the edge
   weight, and the predecessor chain of a visited node is a path from s of depth < number of visited nodes), so that
   the loop's own output passes `cert_ok`, `back` and `check_path`.
   The three hypotheses are necessary: dijkstra_fail_negative / dijkstra_fail_parallel / dijkstra_fail_dangling give
   concrete graphs on which the model does answer Fail. *)
From Adapt Require Import Num.Qaux Avoid.CertDijkstraModel Avoid.CertDijkstra.
Local Open Scope Z_scope.

(* ---------------------------------------------------------------- list helpers *)
Lemma upd_len {A} (l : list A) i v : length (upd_nth l i v) = length l.
Proof. revert i. induction l as [|h t IH]; intros [|i]; cbn; auto. Qed.
Lemma nth_upd_same {A} (l : list A) i v d : (i < length l)%nat -> nth i (upd_nth l i v) d = v.
Proof. revert i. induction l as [|h t IH]; intros [|i] H; cbn in *; try lia; auto. apply IH. lia. Qed.
Lemma nth_upd_other {A} (l : list A) i j v d : i <> j -> nth j (upd_nth l i v) d = nth j l d.
Proof.
  revert i j. induction l as [|h t IH]; intros [|i] [|j] H; cbn; try reflexivity; try congruence.
  apply IH. congruence.
Qed.

Fixpoint cnt (l : list bool) : nat :=
  match l with [] => 0 | b :: t => (if b then 1 else 0) + cnt t end.

Lemma cnt_le_len l : (cnt l <= length l)%nat.
Proof. induction l as [|[] t IH]; cbn; lia. Qed.
Lemma cnt_upd l : forall i, (i < length l)%nat -> nth i l false = false -> cnt (upd_nth l i true) = S (cnt l).
Proof.
  induction l as [|b t IH]; intros [|i] H E; cbn in *; try lia.
  - subst b. reflexivity.
  - rewrite IH by (try lia; assumption). lia.
Qed.
Lemma cnt_full l : cnt l = length l -> forall i, (i < length l)%nat -> nth i l false = true.
Proof.
  induction l as [|b t IH]; intros E i H; cbn in *; [lia|].
  pose proof (cnt_le_len t). destruct b; cbn in E; [|lia].
  destruct i; [reflexivity|]. apply IH; lia.
Qed.
Lemma cnt_repeat_false n : cnt (repeat false n) = 0%nat.
Proof. induction n; cbn; auto. Qed.
Lemma nth_repeat {A} (a d : A) n i : nth i (repeat a n) d = a \/ nth i (repeat a n) d = d.
Proof. revert i. induction n; intros [|i]; cbn; auto. Qed.

Lemma fold_left_inv {A B} (f : A -> B -> A) (P : A -> Prop) l :
  (forall a b, In b l -> P a -> P (f a b)) -> forall a, P a -> P (fold_left f l a).
Proof.
  induction l as [|b l IH]; intros H a Pa; [exact Pa|]. cbn [fold_left].
  apply IH; [intros; apply H; [right|]; assumption|]. apply H; [left; reflexivity|assumption].
Qed.

Section Total.
Variable N : nat.
Variable succs : nat -> list (nat * Z).
Variable s : nat.
Hypothesis Hs : (s < N)%nat.
Hypothesis Hwf : forall u v w, (u < N)%nat -> In (v, w) (succs u) -> (v < N)%nat /\ 0 <= w.
Hypothesis Hnd : forall u, (u < N)%nat -> NoDup (map fst (succs u)).

Notation getd := CertDijkstraModel.getd.
Definition isvis (vis : list bool) (u : nat) : bool := nth u vis false.

Lemma getd_some_lt d v x : getd d v = Some x -> (v < length d)%nat.
Proof.
  unfold getd. intro H. destruct (Nat.lt_ge_cases v (length d)); [assumption|].
  rewrite nth_overflow in H by lia. discriminate.
Qed.
Lemma isvis_lt vis u : isvis vis u = true -> (u < length vis)%nat.
Proof.
  unfold isvis. intro H. destruct (Nat.lt_ge_cases u (length vis)); [assumption|].
  rewrite nth_overflow in H by lia. discriminate.
Qed.
Lemma getd_upd_same d v x : (v < length d)%nat -> getd (upd_nth d v x) v = x.
Proof. apply nth_upd_same. Qed.
Lemma getd_upd_other d v u x : v <> u -> getd (upd_nth d v x) u = getd d u.
Proof. apply nth_upd_other. Qed.

(* ---------------------------------------------------------------- pick_min *)
Definition cand (d : list (option Z)) (vis : list bool) (k : nat) (x : Z) : Prop :=
  nth k d None = Some x /\ nth k vis false = false.

Lemma pick_min_spec : forall d vis i best, length d = length vis ->
  match pick_min d vis i best with
  | None => best = None /\ forall k x, ~ cand d vis k x
  | Some (j, y) =>
      (best = Some (j, y) \/ ((i <= j)%nat /\ cand d vis (j - i) y)) /\
      (forall k x, cand d vis k x -> y <= x) /\
      (forall j' y', best = Some (j', y') -> y <= y')
  end.
Proof.
  induction d as [|dv d IH]; intros [|b vis] i best L; cbn [length] in L; try lia.
  - cbn [pick_min]. destruct best as [[j y]|].
    + split; [left; reflexivity|]. split.
      * intros k x [H _]. destruct k; discriminate.
      * intros j' y' E. inversion E. lia.
    + split; [reflexivity|]. intros k x [H _]. destruct k; discriminate.
  - cbn [pick_min].
    set (best' := match dv, b with
                  | Some x, false => match best with
                                     | Some (_, y) => if x <? y then Some (i, x) else best
                                     | None => Some (i, x)
                                     end
                  | _, _ => best
                  end).
    specialize (IH vis (S i) best' ltac:(lia)).
    destruct (pick_min d vis (S i) best') as [[j y]|].
    + destruct IH as (Hsrc & Hmin & Hb).
      (* facts about best' *)
      assert (Hb' : (forall j' y', best = Some (j', y') -> y <= y') /\
                    (forall x, dv = Some x -> b = false -> y <= x)).
      { unfold best' in Hb. destruct dv as [x|]; [destruct b|].
        - split; [exact Hb|]. intros ? _ ?. discriminate.
        - destruct best as [[j0 y0]|].
          + destruct (x <? y0) eqn:E.
            * apply Z.ltb_lt in E. specialize (Hb i x eq_refl). split.
              -- intros j' y' E'. inversion E'. subst. lia.
              -- intros x' E' _. inversion E'. subst. lia.
            * apply Z.ltb_ge in E. specialize (Hb j0 y0 eq_refl). split.
              -- intros j' y' E'. inversion E'. subst. lia.
              -- intros x' E' _. inversion E'. subst. lia.
          + specialize (Hb i x eq_refl). split; [intros ? ? ?; discriminate|].
            intros x' E' _. inversion E'. subst. lia.
        - split; [exact Hb|]. intros ? ?. discriminate. }
      destruct Hb' as [Hb1 Hb2].
      split; [|split].
      * destruct Hsrc as [E|[Hle Hc]].
        -- unfold best' in E. destruct dv as [x|]; [destruct b|]; try (left; exact E).
           destruct best as [[j0 y0]|].
           ++ destruct (x <? y0); [|left; exact E].
              inversion E; subst. right. split; [lia|]. rewrite Nat.sub_diag. split; reflexivity.
           ++ inversion E; subst. right. split; [lia|]. rewrite Nat.sub_diag. split; reflexivity.
        -- right. split; [lia|]. replace (j - i)%nat with (S (j - S i)) by lia. exact Hc.
      * intros k x [H1 H2]. destruct k as [|k].
        -- cbn in H1, H2. subst. apply Hb2; reflexivity.
        -- apply (Hmin k x). split; assumption.
      * exact Hb1.
    + destruct IH as (E & Hno).
      assert (best = None /\ (forall x, dv = Some x -> b = false -> False)) as [E1 E2].
      { unfold best' in E. destruct dv as [x|]; [destruct b|].
        - split; [exact E|]. intros ? _ ?. discriminate.
        - destruct best as [[j0 y0]|]; [destruct (x <? y0)|]; discriminate.
        - split; [exact E|]. intros ? ?. discriminate. }
      split; [exact E1|]. intros k x [H1 H2]. destruct k as [|k].
      * cbn in H1, H2. eapply E2; eassumption.
      * apply (Hno k x). split; assumption.
Qed.

Lemma pick_min_none d vis : length d = length vis -> pick_min d vis 0 None = None ->
  forall k x, getd d k = Some x -> isvis vis k = true.
Proof.
  intros L E k x H. pose proof (pick_min_spec d vis 0 None L) as P. rewrite E in P.
  destruct P as [_ P]. destruct (isvis vis k) eqn:V; [reflexivity|]. exfalso. apply (P k x). split; assumption.
Qed.

Lemma pick_min_some d vis u du : length d = length vis -> pick_min d vis 0 None = Some (u, du) ->
  getd d u = Some du /\ isvis vis u = false /\
  forall k x, getd d k = Some x -> isvis vis k = false -> du <= x.
Proof.
  intros L E. pose proof (pick_min_spec d vis 0 None L) as P. rewrite E in P.
  destruct P as ([P|[_ [P1 P2]]] & Q & _); [discriminate|].
  rewrite Nat.sub_0_r in P1, P2. split; [exact P1|]. split; [exact P2|].
  intros k x H1 H2. apply (Q k x). split; assumption.
Qed.

(* ---------------------------------------------------------------- the predecessor chain *)
(* chain d pr vis v k p c : following pr from v reaches s in k steps through visited nodes; p is that path read from
   s to v; c is its cost, and every node on it carries the cost of its prefix as label *)
Inductive chain (d : list (option Z)) (pr : list nat) (vis : list bool) : nat -> nat -> list nat -> Z -> Prop :=
| chain_s : chain d pr vis s 0 [s] 0
| chain_step v k p c w :
    v <> s -> isvis vis (nth v pr v) = true -> chain d pr vis (nth v pr v) k p c ->
    getd d (nth v pr v) = Some c -> In (v, w) (succs (nth v pr v)) -> getd d v = Some (c + w) ->
    chain d pr vis v (S k) (p ++ [v]) (c + w).

Lemma chain_ext d pr vis d' pr' vis' :
  (forall x, isvis vis x = true -> getd d' x = getd d x /\ nth x pr' x = nth x pr x /\ isvis vis' x = true) ->
  forall v k p c, chain d pr vis v k p c ->
    (v = s \/ (getd d' v = getd d v /\ nth v pr' v = nth v pr v)) -> chain d' pr' vis' v k p c.
Proof.
  intros Hag v k p c H. induction H as [|v k p c w Hne Hv Hch IH Hd Hin Hdv]; intros Hx.
  - constructor.
  - destruct Hx as [->|[E1 E2]]; [congruence|].
    destruct (Hag _ Hv) as (A1 & A2 & A3).
    rewrite <- E2 in *. apply chain_step; try assumption.
    + apply IH. right. rewrite E2 in *. split; assumption.
    + rewrite A1. assumption.
    + rewrite E1. assumption.
Qed.

Lemma edge_w_of_In u v w : NoDup (map fst (succs u)) -> In (v, w) (succs u) -> edge_w succs u v = Some w.
Proof.
  unfold edge_w. generalize (succs u) as l. induction l as [|[v' w'] l IH]; intros ND Hin; [destruct Hin|].
  cbn [find fst]. cbn [map fst] in ND. inversion ND as [|? ? Hni ND']; subst.
  destruct Hin as [E|Hin].
  - inversion E; subst. rewrite Nat.eqb_refl. reflexivity.
  - destruct (v' =? v)%nat eqn:Ev.
    + apply Nat.eqb_eq in Ev. subst v'. exfalso. apply Hni. apply in_map_iff. exists (v, w). split; [reflexivity|assumption].
    + apply IH; assumption.
Qed.

Lemma path_cost_snoc p : forall a c v w,
  path_cost succs (a :: p) = Some c -> edge_w succs (last (a :: p) a) v = Some w ->
  path_cost succs ((a :: p) ++ [v]) = Some (c + w).
Proof.
  induction p as [|b r IH]; intros a c v w Hc He.
  - cbn in Hc. inversion Hc; subst. cbn [last] in He. cbn [app]. rewrite path_cost_cons, He. cbn. f_equal. lia.
  - rewrite path_cost_cons in Hc.
    destruct (edge_w succs a b) as [wab|] eqn:Eab; [|discriminate].
    destruct (path_cost succs (b :: r)) as [c'|] eqn:Ec; [|discriminate].
    inversion Hc; subst c.
    change (last (a :: b :: r) a) with (last (b :: r) a) in He.
    rewrite (last_default (b :: r) a b) in He by discriminate.
    change ((a :: b :: r) ++ [v]) with (a :: ((b :: r) ++ [v])).
    change ((b :: r) ++ [v]) with (b :: (r ++ [v])).
    rewrite path_cost_cons, Eab.
    change (b :: (r ++ [v])) with ((b :: r) ++ [v]).
    rewrite (IH b c' v w Ec He). f_equal. lia.
Qed.

Lemma chain_lt d pr vis v k p c : length vis = N -> chain d pr vis v k p c -> (v < N)%nat.
Proof.
  intros L H. destruct H; [assumption|]. eapply Hwf; [|eassumption].
  rewrite <- L. apply isvis_lt. assumption.
Qed.

Lemma chain_path d pr vis v k p c : length vis = N -> chain d pr vis v k p c ->
  exists q, p = s :: q /\ last p s = v /\ path_cost succs p = Some c.
Proof.
  intros L H. induction H as [|v k p c w Hne Hv Hch IH Hd Hin Hdv].
  - exists []. repeat split.
  - destruct IH as (q & -> & Hl & Hc). exists (q ++ [v]). split; [reflexivity|]. split.
    + rewrite last_last. reflexivity.
    + apply path_cost_snoc; [assumption|]. rewrite Hl. apply edge_w_of_In; [|assumption].
      apply Hnd. rewrite <- L. apply isvis_lt. assumption.
Qed.

Lemma back_chain d pr vis v k p c : chain d pr vis v k p c ->
  forall fuel acc, (k <= fuel)%nat -> back fuel pr s v acc = Some (p ++ acc).
Proof.
  induction 1 as [|v k p c w Hne Hv Hch IH Hd Hin Hdv]; intros fuel acc Hf.
  - destruct fuel; cbn [back]; rewrite Nat.eqb_refl; reflexivity.
  - destruct fuel as [|f]; [lia|]. cbn [back].
    apply Nat.eqb_neq in Hne. rewrite Hne.
    rewrite IH by lia. rewrite <- app_assoc. reflexivity.
Qed.

(* ---------------------------------------------------------------- the loop invariant *)
Record Inv (d : list (option Z)) (pr : list nat) (vis : list bool) : Prop := {
  I_ld : length d = N;
  I_lp : length pr = N;
  I_lv : length vis = N;
  I_s  : getd d s = Some 0;
  I_nn : forall v x, getd d v = Some x -> 0 <= x;
  I_A  : forall u, isvis vis u = true ->
           exists du, getd d u = Some du /\
             forall v w, In (v, w) (succs u) -> exists dv, getd d v = Some dv /\ dv <= du + w;
  I_B  : forall u v du dv, isvis vis u = true -> isvis vis v = false ->
           getd d u = Some du -> getd d v = Some dv -> du <= dv;
  I_C  : forall v dv, getd d v = Some dv -> v <> s ->
           isvis vis (nth v pr v) = true /\
           exists dp w, getd d (nth v pr v) = Some dp /\ In (v, w) (succs (nth v pr v)) /\ dv = dp + w;
  I_D  : forall u, isvis vis u = true ->
           exists k p c, chain d pr vis u k p c /\ getd d u = Some c /\ (k < cnt vis)%nat
}.

Definition mono (d1 d2 : list (option Z)) : Prop :=
  forall x dx, getd d1 x = Some dx -> exists dx', getd d2 x = Some dx' /\ dx' <= dx.

Lemma mono_refl d : mono d d.
Proof. intros x dx H. exists dx. split; [assumption|lia]. Qed.
Lemma mono_trans d1 d2 d3 : mono d1 d2 -> mono d2 d3 -> mono d1 d3.
Proof.
  intros A B x dx H. destruct (A x dx H) as (y & Hy & Ly). destruct (B x y Hy) as (z & Hz & Lz).
  exists z. split; [assumption|lia].
Qed.

(* the two outcomes of one relaxation *)
Lemma relax_cases du u d pr v w :
  (relax N du u (d, pr) (v, w) = (d, pr) /\ exists dv, getd d v = Some dv /\ dv <= du + w) \/
  (relax N du u (d, pr) (v, w) = (upd_nth d v (Some (du + w)), upd_nth pr v u) /\
   ((getd d v = None /\ (v < N)%nat) \/ exists dv, getd d v = Some dv /\ du + w < dv)) \/
  (relax N du u (d, pr) (v, w) = (d, pr) /\ getd d v = None /\ (N <= v)%nat).
Proof.
  unfold relax. destruct (getd d v) as [dv|] eqn:E.
  - destruct (du + w <? dv) eqn:C.
    + right. left. split; [reflexivity|]. right. exists dv. apply Z.ltb_lt in C. split; [reflexivity|assumption].
    + left. split; [reflexivity|]. exists dv. apply Z.ltb_ge in C. split; [reflexivity|assumption].
  - destruct (v <? N)%nat eqn:C.
    + right. left. split; [reflexivity|]. left. apply Nat.ltb_lt in C. split; [reflexivity|assumption].
    + right. right. apply Nat.ltb_ge in C. auto.
Qed.

Lemma relax_mono du u st e : mono (fst st) (fst (relax N du u st e)).
Proof.
  destruct st as [d pr]. destruct e as [v w].
  destruct (relax_cases du u d pr v w) as [[-> _]|[[-> H]|[-> _]]]; cbn [fst]; try apply mono_refl.
  intros x dx Hx. destruct (Nat.eq_dec v x) as [->|Ne].
  - destruct H as [[H _]|(dv & H & Hlt)]; [congruence|].
    rewrite Hx in H. inversion H; subst dv.
    exists (du + w). split; [|lia]. apply getd_upd_same. eapply getd_some_lt; eassumption.
  - exists dx. split; [|lia]. rewrite getd_upd_other by assumption. assumption.
Qed.

Lemma fold_relax_mono du u l : forall st, mono (fst st) (fst (fold_left (relax N du u) l st)).
Proof.
  induction l as [|e l IH]; intro st; [apply mono_refl|]. cbn [fold_left].
  eapply mono_trans; [apply relax_mono|apply IH].
Qed.

Lemma relax_len du u st e : length (fst (relax N du u st e)) = length (fst st).
Proof.
  destruct st as [d pr]. destruct e as [v w].
  destruct (relax_cases du u d pr v w) as [[-> _]|[[-> H]|[-> _]]]; cbn [fst]; try reflexivity. apply upd_len.
Qed.

Lemma fold_relax_done du u l : forall st, length (fst st) = N -> (forall v w, In (v, w) l -> (v < N)%nat) ->
  forall v w, In (v, w) l -> exists dv, getd (fst (fold_left (relax N du u) l st)) v = Some dv /\ dv <= du + w.
Proof.
  induction l as [|e l IH]; intros st L Hl v w Hin; [destruct Hin|]. cbn [fold_left].
  destruct Hin as [->|Hin].
  - assert (H1 : exists dv, getd (fst (relax N du u st (v, w))) v = Some dv /\ dv <= du + w).
    { destruct st as [d pr]. cbn [fst] in L.
      destruct (relax_cases du u d pr v w) as [[-> H]|[[-> H]|[_ [_ H]]]]; cbn [fst].
      - exact H.
      - exists (du + w). split; [|lia]. apply getd_upd_same. rewrite L. apply (Hl v w). left. reflexivity.
      - specialize (Hl v w (or_introl eq_refl)). lia. }
    destruct H1 as (dv & H1 & H2).
    destruct (fold_relax_mono du u l (relax N du u st (v, w)) v dv H1) as (dv' & H3 & H4).
    exists dv'. split; [assumption|lia].
  - apply IH; [rewrite relax_len; assumption| |assumption].
    intros v' w' H'. apply (Hl v' w'). right. assumption.
Qed.

(* ---- the invariant of the relaxation fold, relative to the state (d, pr, vis) in which u was picked *)
Section Step.
Variables (d : list (option Z)) (pr : list nat) (vis : list bool) (u : nat) (du : Z).
Hypothesis HI : Inv d pr vis.
Hypothesis Hu : getd d u = Some du.
Hypothesis Huv : isvis vis u = false.
Hypothesis Hmin : forall k x, getd d k = Some x -> isvis vis k = false -> du <= x.

Let HuN : (u < N)%nat.
Proof. rewrite <- (I_ld _ _ _ HI). eapply getd_some_lt; eassumption. Qed.

Record FInv (st : list (option Z) * list nat) : Prop := {
  F_ld : length (fst st) = N;
  F_lp : length (snd st) = N;
  F_s  : getd (fst st) s = Some 0;
  F_nn : forall v x, getd (fst st) v = Some x -> 0 <= x;
  F_fix : forall x, isvis vis x = true \/ x = u ->
            getd (fst st) x = getd d x /\ nth x (snd st) x = nth x pr x;
  F_lb : forall x dx, getd (fst st) x = Some dx -> isvis vis x = false -> du <= dx;
  F_C  : forall v dv, getd (fst st) v = Some dv -> v <> s ->
           (isvis vis (nth v (snd st) v) = true \/ nth v (snd st) v = u) /\
           exists dp w, getd (fst st) (nth v (snd st) v) = Some dp /\ In (v, w) (succs (nth v (snd st) v)) /\
                        dv = dp + w
}.

Lemma FInv_init : FInv (d, pr).
Proof.
  constructor; cbn [fst snd].
  - apply HI.
  - apply HI.
  - apply HI.
  - apply HI.
  - intros. split; reflexivity.
  - intros x dx H1 H2. eapply Hmin; eassumption.
  - intros v dv H1 H2. destruct (I_C _ _ _ HI v dv H1 H2) as [A B]. split; [left; exact A|exact B].
Qed.

(* labels of visited nodes and of u are at most du *)
Lemma fixed_label_le x : isvis vis x = true \/ x = u -> exists dx, getd d x = Some dx /\ dx <= du.
Proof.
  intros [Hx| ->].
  - destruct (I_A _ _ _ HI x Hx) as (dx & Hdx & _). exists dx. split; [assumption|].
    eapply (I_B _ _ _ HI x u); eassumption.
  - exists du. split; [assumption|lia].
Qed.

Lemma FInv_step st e : In e (succs u) -> FInv st -> FInv (relax N du u st e).
Proof.
  intros Hin F. destruct st as [d1 pr1]. destruct e as [v w].
  destruct (Hwf u v w HuN Hin) as [HvN Hw].
  pose proof (F_ld _ F) as L1. pose proof (F_lp _ F) as L2. cbn [fst snd] in L1, L2.
  destruct (relax_cases du u d1 pr1 v w) as [[-> _]|[[-> H]|[-> _]]]; try exact F.
  (* the label of v strictly improves: v is neither visited nor u, nor s *)
  assert (Hdu0 : 0 <= du) by (eapply (I_nn _ _ _ HI); eassumption).
  assert (Hnf : ~ (isvis vis v = true \/ v = u)).
  { intro Hx. destruct (fixed_label_le v Hx) as (dx & Hdx & Hle).
    destruct (F_fix _ F v Hx) as [E _]. cbn [fst] in E. rewrite Hdx in E.
    destruct H as [[H _]|(dv & H & Hlt)]; rewrite E in H; [discriminate|]. inversion H; subst. lia. }
  assert (Hvs : v <> s).
  { intros ->. pose proof (F_s _ F) as E. cbn [fst] in E.
    destruct H as [[H _]|(dv & H & Hlt)]; rewrite E in H; [discriminate|]. inversion H; subst. lia. }
  assert (Hvu : v <> u) by tauto.
  constructor; cbn [fst snd].
  - rewrite upd_len. assumption.
  - rewrite upd_len. assumption.
  - rewrite getd_upd_other by assumption. apply (F_s _ F).
  - intros x dx Hx. destruct (Nat.eq_dec v x) as [->|Ne].
    + rewrite getd_upd_same in Hx by lia. inversion Hx. lia.
    + rewrite getd_upd_other in Hx by assumption. eapply (F_nn _ F); eassumption.
  - intros x Hx. assert (Ne : v <> x) by (intros ->; tauto).
    rewrite getd_upd_other, nth_upd_other by assumption. apply (F_fix _ F). assumption.
  - intros x dx Hx Hxv. destruct (Nat.eq_dec v x) as [->|Ne].
    + rewrite getd_upd_same in Hx by lia. inversion Hx. lia.
    + rewrite getd_upd_other in Hx by assumption. eapply (F_lb _ F); eassumption.
  - intros x dx Hx Hxs. destruct (Nat.eq_dec v x) as [->|Ne].
    + rewrite getd_upd_same in Hx by lia. inversion Hx; subst dx. clear Hx.
      rewrite nth_upd_same by lia. split; [right; reflexivity|].
      exists du, w. split; [|split; [assumption|reflexivity]].
      rewrite getd_upd_other by assumption.
      destruct (F_fix _ F u (or_intror eq_refl)) as [E _]. cbn [fst] in E. rewrite E. assumption.
    + rewrite getd_upd_other in Hx by assumption. rewrite nth_upd_other by assumption.
      destruct (F_C _ F x dx Hx Hxs) as [A (dp & w' & B1 & B2 & B3)]. cbn [fst snd] in *.
      split; [exact A|]. exists dp, w'. split; [|split; assumption].
      assert (Ne' : v <> nth x pr1 x) by (intros E; apply Hnf; rewrite E; exact A).
      rewrite getd_upd_other by assumption. assumption.
Qed.

Lemma step_inv d' pr' :
  fold_left (relax N du u) (succs u) (d, pr) = (d', pr') -> Inv d' pr' (upd_nth vis u true).
Proof.
  intro E.
  assert (F : FInv (d', pr')).
  { rewrite <- E. apply fold_left_inv; [intros a b; apply FInv_step|apply FInv_init]. }
  assert (M : mono d d').
  { pose proof (fold_relax_mono du u (succs u) (d, pr)) as M. rewrite E in M. exact M. }
  assert (Dn : forall v w, In (v, w) (succs u) -> exists dv, getd d' v = Some dv /\ dv <= du + w).
  { intros v w Hin. pose proof (fold_relax_done du u (succs u) (d, pr)) as D. rewrite E in D. cbn [fst] in D.
    apply D; [apply HI| |assumption]. intros v' w' H'. eapply Hwf; eassumption. }
  pose proof (I_lv _ _ _ HI) as Lv.
  assert (Vis' : forall x, isvis (upd_nth vis u true) x = true <-> (isvis vis x = true \/ x = u)).
  { intro x. unfold isvis. destruct (Nat.eq_dec u x) as [->|Ne].
    - rewrite nth_upd_same by lia. tauto.
    - rewrite nth_upd_other by assumption. split; [tauto|]. intros [?| ->]; [assumption|congruence]. }
  assert (Fx : forall x, isvis vis x = true \/ x = u -> getd d' x = getd d x /\ nth x pr' x = nth x pr x).
  { apply (F_fix _ F). }
  assert (Ag : forall x, isvis vis x = true ->
                 getd d' x = getd d x /\ nth x pr' x = nth x pr x /\ isvis (upd_nth vis u true) x = true).
  { intros x Hx. destruct (Fx x (or_introl Hx)) as [A B]. repeat split; try assumption. apply Vis'. left. assumption. }
  constructor.
  - apply (F_ld _ F).
  - apply (F_lp _ F).
  - rewrite upd_len. assumption.
  - apply (F_s _ F).
  - apply (F_nn _ F).
  - (* closure *)
    intros x Hx. apply Vis' in Hx. destruct (Fx x Hx) as [Ex _]. destruct Hx as [Hx| ->].
    + destruct (I_A _ _ _ HI x Hx) as (dx & Hdx & Hcl). exists dx. split; [rewrite Ex; assumption|].
      intros v w Hin. destruct (Hcl v w Hin) as (dv & Hdv & Hle).
      destruct (M v dv Hdv) as (dv' & Hdv' & Hle'). exists dv'. split; [assumption|lia].
    + exists du. split; [rewrite Ex; assumption|]. exact Dn.
  - (* separation *)
    intros x v dx dv Hx Hv Hdx Hdv.
    assert (Hv' : isvis vis v = false).
    { destruct (isvis vis v) eqn:V; [|reflexivity]. rewrite (proj2 (Vis' v) (or_introl V)) in Hv. discriminate. }
    apply Vis' in Hx. destruct (Fx x Hx) as [Ex _]. rewrite Ex in Hdx.
    pose proof (F_lb _ F v dv Hdv Hv') as Hlb.
    destruct (fixed_label_le x Hx) as (dx0 & Hdx0 & Hle). rewrite Hdx in Hdx0. inversion Hdx0. lia.
  - (* predecessors *)
    intros v dv Hdv Hvs. destruct (F_C _ F v dv Hdv Hvs) as [A B]. cbn [fst snd] in A, B.
    split; [apply Vis'; exact A|exact B].
  - (* chains *)
    intros x Hx. rewrite cnt_upd by (try lia; exact Huv). apply Vis' in Hx. destruct (Fx x Hx) as [Ex Ep].
    destruct Hx as [Hx| ->].
    + destruct (I_D _ _ _ HI x Hx) as (k & p & c & Hch & Hc & Hk).
      exists k, p, c. split; [|split; [rewrite Ex; assumption|lia]].
      eapply chain_ext; [exact Ag|exact Hch|]. right. split; assumption.
    + destruct (Nat.eq_dec u s) as [->|Hus].
      * exists 0%nat, [s], 0. split; [constructor|]. split; [apply (F_s _ F)|lia].
      * destruct (I_C _ _ _ HI u du Hu Hus) as [Hpv (dp & w & Hdp & Hin & Edu)].
        destruct (I_D _ _ _ HI _ Hpv) as (k & p & c & Hch & Hc & Hk).
        rewrite Hdp in Hc. inversion Hc; subst c. clear Hc.
        destruct (Ag _ Hpv) as (A1 & A2 & A3).
        exists (S k), (p ++ [u]), (dp + w). split; [|split; [rewrite Ex, Hu, Edu; reflexivity|lia]].
        rewrite <- Ep in *. apply chain_step; try assumption.
        -- eapply chain_ext; [exact Ag|exact Hch|]. right. split; assumption.
        -- rewrite A1. assumption.
        -- rewrite Ex, Hu, Edu. reflexivity.
Qed.

End Step.

(* ---------------------------------------------------------------- the loop *)
Lemma dloop_inv : forall fuel d pr vis, Inv d pr vis -> (N - cnt vis <= fuel)%nat ->
  exists vis', Inv (fst (dloop N succs fuel d pr vis)) (snd (dloop N succs fuel d pr vis)) vis' /\
               forall x dx, getd (fst (dloop N succs fuel d pr vis)) x = Some dx -> isvis vis' x = true.
Proof.
  induction fuel as [|f IH]; intros d pr vis HI Hf.
  - cbn [dloop fst snd]. exists vis. split; [assumption|]. intros x dx Hx.
    pose proof (cnt_le_len vis). pose proof (I_lv _ _ _ HI) as Lv.
    apply cnt_full; [lia|]. rewrite Lv, <- (I_ld _ _ _ HI). eapply getd_some_lt; eassumption.
  - cbn [dloop].
    assert (L : length d = length vis) by (rewrite (I_ld _ _ _ HI), (I_lv _ _ _ HI); reflexivity).
    destruct (pick_min d vis 0 None) as [[u du]|] eqn:P.
    + destruct (pick_min_some d vis u du L P) as (Hu & Huv & Hmin).
      destruct (fold_left (relax N du u) (succs u) (d, pr)) as [d' pr'] eqn:E.
      pose proof (step_inv d pr vis u du HI Hu Huv Hmin d' pr' E) as HI'.
      apply IH; [assumption|].
      rewrite cnt_upd; [lia| |exact Huv].
      rewrite (I_lv _ _ _ HI), <- (I_ld _ _ _ HI). eapply getd_some_lt; eassumption.
    + cbn [fst snd]. exists vis. split; [assumption|]. apply pick_min_none; assumption.
Qed.

Lemma Inv_init : Inv (upd_nth (repeat None N) s (Some 0)) (repeat 0%nat N) (repeat false N).
Proof.
  assert (Hnone : forall x, getd (repeat (@None Z) N) x = None).
  { intro x. unfold CertDijkstraModel.getd. destruct (nth_repeat (@None Z) None N x); assumption. }
  assert (Hlab : forall x dx, getd (upd_nth (repeat None N) s (Some 0)) x = Some dx -> x = s /\ dx = 0).
  { intros x dx H. destruct (Nat.eq_dec s x) as [->|Ne].
    - rewrite getd_upd_same in H by (rewrite repeat_length; assumption). inversion H. auto.
    - rewrite getd_upd_other, Hnone in H by assumption. discriminate. }
  assert (Hnv : forall x, isvis (repeat false N) x = false).
  { intro x. unfold isvis. destruct (nth_repeat false false N x); assumption. }
  constructor.
  - rewrite upd_len, repeat_length. reflexivity.
  - apply repeat_length.
  - apply repeat_length.
  - apply getd_upd_same. rewrite repeat_length. assumption.
  - intros v x H. destruct (Hlab v x H). lia.
  - intros u H. rewrite Hnv in H. discriminate.
  - intros u v du dv H. rewrite Hnv in H. discriminate.
  - intros v dv H Hne. destruct (Hlab v dv H). contradiction.
  - intros u H. rewrite Hnv in H. discriminate.
Qed.

(* ---------------------------------------------------------------- main theorems *)
Theorem cert_dijkstra_total t : dijkstra N succs s t <> Fail.
Proof.
  unfold dijkstra.
  pose proof (dloop_inv N _ _ _ Inv_init ltac:(rewrite cnt_repeat_false; lia)) as (vis' & HI & Hall).
  destruct (dloop N succs N (upd_nth (repeat None N) s (Some 0)) (repeat 0%nat N) (repeat false N)) as [d pr].
  cbn [fst snd] in HI, Hall.
  assert (Hc : cert_ok N succs s d = true).
  { unfold cert_ok. rewrite !andb_true_iff. split; [split|].
    - apply Nat.eqb_eq. apply HI.
    - rewrite (I_s _ _ _ HI). reflexivity.
    - apply forallb_forall. intros u _. destruct (getd d u) as [du|] eqn:Hu; [|reflexivity].
      apply forallb_forall. intros [v w] Hin. cbn [fst snd].
      destruct (I_A _ _ _ HI u (Hall u du Hu)) as (du' & Hu' & Hcl).
      rewrite Hu in Hu'. inversion Hu'; subst du'.
      destruct (Hcl v w Hin) as (dv & -> & Hle). apply Z.leb_le. assumption. }
  rewrite Hc. cbn [negb].
  destruct (getd d t) as [c|] eqn:Ht; [|discriminate].
  destruct (I_D _ _ _ HI t (Hall t c Ht)) as (k & p & c' & Hch & Hc' & Hk).
  rewrite Ht in Hc'. inversion Hc'; subst c'. clear Hc'.
  pose proof (cnt_le_len vis') as Hle. rewrite (I_lv _ _ _ HI) in Hle.
  rewrite (back_chain _ _ _ _ _ _ _ Hch N [] ltac:(lia)). rewrite app_nil_r.
  destruct (chain_path _ _ _ _ _ _ _ (I_lv _ _ _ HI) Hch) as (q & -> & Hl & Hpc).
  assert (Hck : check_path succs s t (s :: q) c = true).
  { unfold check_path. rewrite !andb_true_iff. split; [split|].
    - cbn [hd]. apply Nat.eqb_refl.
    - rewrite (last_default (s :: q) (S t) s) by discriminate. rewrite Hl. apply Nat.eqb_refl.
    - rewrite Hpc. apply Z.eqb_refl. }
  rewrite Hck. discriminate.
Qed.

(* with soundness, optimality and completeness of the certificate: the answer is always the true distance *)
Theorem cert_dijkstra_decides t :
  (exists p c, dijkstra N succs s t = Found p c /\ walk succs s t c /\ forall c', walk succs s t c' -> c <= c') \/
  (dijkstra N succs s t = NoRoute /\ forall c', ~ walk succs s t c').
Proof.
  pose proof (cert_dijkstra_total t) as T.
  destruct (dijkstra N succs s t) as [p c| |] eqn:E; [left|right|contradiction].
  - exists p, c. split; [reflexivity|]. split.
    + apply (dijkstra_sound N succs s t p c E).
    + apply (dijkstra_optimal N succs s t p c E).
  - split; [reflexivity|]. apply (dijkstra_noroute N succs s t E).
Qed.

End Total.

(* ---------------------------------------------------------------- the hypotheses are necessary *)
Definition neg_succs (u : nat) : list (nat * Z) :=
  match u with 0%nat => [(1%nat, 1); (2%nat, 5)] | 1%nat => [(3%nat, 1)] | 2%nat => [(1%nat, -10)] | _ => [] end.
Example dijkstra_fail_negative : dijkstra 4 neg_succs 0 3 = Fail.
Proof. vm_compute. reflexivity. Qed.

Definition par_succs (u : nat) : list (nat * Z) :=
  match u with 0%nat => [(1%nat, 5); (1%nat, 3)] | _ => [] end.
Example dijkstra_fail_parallel : dijkstra 2 par_succs 0 1 = Fail.
Proof. vm_compute. reflexivity. Qed.

Definition dang_succs (u : nat) : list (nat * Z) :=
  match u with 0%nat => [(1%nat, 1); (7%nat, 1)] | _ => [] end.
Example dijkstra_fail_dangling : dijkstra 2 dang_succs 0 1 = Fail.
Proof. vm_compute. reflexivity. Qed.

(* non-vacuity: the example graph of CertDijkstra.v satisfies the hypotheses *)
Example ex_total : forall t, dijkstra 4 ex_succs 0 t <> Fail.
Proof.
  apply cert_dijkstra_total.
  - lia.
  - intros u v w Hu Hin. destruct u as [|[|[|[|u]]]]; cbn in Hin; try lia;
      repeat (destruct Hin as [Hin|Hin]; [inversion Hin; subst; lia|]); destruct Hin.
  - intros u Hu. destruct u as [|[|[|[|u]]]]; cbn; try lia; repeat constructor; cbn; intuition lia.
Qed.
