(* C06 - the clamped case of the reflection estimate of markPolylineConnectorsNeedingReroutingForDeletedObstacle
   (router.cpp:1977-1998): x* = (b c + a d) / (b + d) is clamped to the edge [mn, mx] before the two legs are measured.
     reflect_lower_bound_clamped   start and end on the same side of the edge's line (b, d >= 0, not both 0): for every
                                   point (x, 0) of the closed edge (mn <= x <= mx), the estimate
                                   |start - (xc,0)| + |(xc,0) - end|  at the clamped point xc is at most the length
                                   of the path start -> (x,0) -> end.
   Stated without square roots: e1, e2 are any non-negative numbers whose squares do not exceed the squared leg lengths at
   xc (in particular the legs themselves, which is what the code computes), L1, L2 any upper bounds of the legs at x.
   Proof: the leg lengths are convex in x (Minkowski, = reflect_lower_bound), xc lies between x* and x, and at x* the two
   legs are the fractions b/(b+d), d/(b+d) of the straight reflected segment (reflect_point_tight), whose length is at
   most L1 + L2 (reflect_lower_bound). *)
From Adapt Require Import Num.Qaux Avoid.SegPolyModel Avoid.CertDijkstraModel Avoid.RefRouterModel
     Avoid.ActionQueueModel Avoid.ActionQueue Avoid.HistoryIndep.
Local Open Scope Q_scope.

Lemma le_of_sq_le x y : 0 <= x -> 0 <= y -> x * x <= y * y -> x <= y.
Proof. intros Hx Hy H. destruct (Qlt_le_dec y x); [|assumption]. nra. Qed.

(* Minkowski in the plane, for upper bounds U, V of the two norms *)
Lemma mink2 u1 u2 v1 v2 U V :
  0 <= U -> 0 <= V -> u1 * u1 + u2 * u2 <= U * U -> v1 * v1 + v2 * v2 <= V * V ->
  (u1 + v1) * (u1 + v1) + (u2 + v2) * (u2 + v2) <= (U + V) * (U + V).
Proof.
  intros HU HV A B.
  pose proof (reflect_lower_bound 0 u2 (u1 + v1) v2 u1 U V HU HV) as R. unfold reflect_est_sq in R.
  assert (E1 : (u1 - 0) * (u1 - 0) + u2 * u2 == u1 * u1 + u2 * u2) by ring.
  assert (E2 : (u1 - (u1 + v1)) * (u1 - (u1 + v1)) + v2 * v2 == v1 * v1 + v2 * v2) by ring.
  rewrite E1, E2 in R. specialize (R A B).
  assert (E3 : (u1 + v1 - 0) * (u1 + v1 - 0) + (u2 + v2) * (u2 + v2) == (u1 + v1) * (u1 + v1) + (u2 + v2) * (u2 + v2)) by ring.
  rewrite E3 in R. exact R.
Qed.

(* convexity of the norm of an affine function, for upper bounds *)
Lemma norm_convex u1 u2 v1 v2 U V th e :
  0 <= U -> 0 <= V -> u1 * u1 + u2 * u2 <= U * U -> v1 * v1 + v2 * v2 <= V * V ->
  0 <= th -> th <= 1 -> 0 <= e ->
  e * e <= ((1 - th) * u1 + th * v1) * ((1 - th) * u1 + th * v1) + ((1 - th) * u2 + th * v2) * ((1 - th) * u2 + th * v2) ->
  e <= (1 - th) * U + th * V.
Proof.
  intros HU HV A B T0 T1 He H.
  assert (HU' : 0 <= (1 - th) * U) by (apply Qmult_le_0_compat; lra).
  assert (HV' : 0 <= th * V) by (apply Qmult_le_0_compat; lra).
  assert (A' : ((1 - th) * u1) * ((1 - th) * u1) + ((1 - th) * u2) * ((1 - th) * u2) <= ((1 - th) * U) * ((1 - th) * U)).
  { assert (E : ((1 - th) * U) * ((1 - th) * U) - (((1 - th) * u1) * ((1 - th) * u1) + ((1 - th) * u2) * ((1 - th) * u2))
                == ((1 - th) * (1 - th)) * (U * U - (u1 * u1 + u2 * u2))) by ring.
    assert (0 <= ((1 - th) * (1 - th)) * (U * U - (u1 * u1 + u2 * u2))).
    { apply Qmult_le_0_compat; [apply sqn|lra]. }
    lra. }
  assert (B' : (th * v1) * (th * v1) + (th * v2) * (th * v2) <= (th * V) * (th * V)).
  { assert (E : (th * V) * (th * V) - ((th * v1) * (th * v1) + (th * v2) * (th * v2))
                == (th * th) * (V * V - (v1 * v1 + v2 * v2))) by ring.
    assert (0 <= (th * th) * (V * V - (v1 * v1 + v2 * v2))).
    { apply Qmult_le_0_compat; [apply sqn|lra]. }
    lra. }
  pose proof (mink2 _ _ _ _ _ _ HU' HV' A' B') as M.
  apply le_of_sq_le; [assumption|lra|]. lra.
Qed.

(* the estimate at any point xc between the reflection point x* and x is at most the path through x *)
Lemma reflect_between a b c d x xc L1 L2 e1 e2 :
  0 <= b -> 0 <= d -> 0 < b + d ->
  (reflect_x a b c d <= xc <= x \/ x <= xc <= reflect_x a b c d) ->
  0 <= L1 -> 0 <= L2 ->
  (x - a) * (x - a) + b * b <= L1 * L1 -> (x - c) * (x - c) + d * d <= L2 * L2 ->
  0 <= e1 -> 0 <= e2 ->
  e1 * e1 <= (xc - a) * (xc - a) + b * b -> e2 * e2 <= (xc - c) * (xc - c) + d * d ->
  e1 + e2 <= L1 + L2.
Proof.
  intros Hb Hd Hbd Hbt HL1 HL2 A1 A2 He1 He2 B1 B2.
  set (xs := reflect_x a b c d) in *.
  set (S := L1 + L2).
  assert (HS : 0 <= S) by (unfold S; lra).
  (* upper bounds of the legs at x*: the fractions b/(b+d), d/(b+d) of S *)
  pose proof (reflect_lower_bound a b c d x L1 L2 HL1 HL2 A1 A2) as RL. fold S in RL.
  destruct (reflect_point_tight a b c d ltac:(lra)) as [T1 T2]. cbn zeta in T1, T2. fold xs in T1, T2.
  set (l1 := b / (b + d) * S). set (l2 := d / (b + d) * S).
  assert (Hl1 : 0 <= l1) by (unfold l1; apply Qmult_le_0_compat; [apply Qle_shift_div_l; lra|assumption]).
  assert (Hl2 : 0 <= l2) by (unfold l2; apply Qmult_le_0_compat; [apply Qle_shift_div_l; lra|assumption]).
  assert (Hsum : l1 + l2 == S) by (unfold l1, l2; field; lra).
  assert (Hpos : 0 < (b + d) * (b + d)) by nra.
  assert (C1 : (xs - a) * (xs - a) + b * b <= l1 * l1).
  { assert (E : l1 * l1 * ((b + d) * (b + d)) == b * b * (S * S)) by (unfold l1; field; lra).
    assert (b * b * reflect_est_sq a b c d <= b * b * (S * S)).
    { assert (E' : b * b * (S * S) - b * b * reflect_est_sq a b c d == (b * b) * (S * S - reflect_est_sq a b c d)) by ring.
      assert (0 <= (b * b) * (S * S - reflect_est_sq a b c d)) by (apply Qmult_le_0_compat; [apply sqn|lra]). lra. }
    assert (G : ((xs - a) * (xs - a) + b * b) * ((b + d) * (b + d)) <= l1 * l1 * ((b + d) * (b + d))) by lra.
    destruct (Qlt_le_dec (l1 * l1) ((xs - a) * (xs - a) + b * b)) as [Hlt|]; [|assumption].
    assert (0 < (((xs - a) * (xs - a) + b * b) - l1 * l1) * ((b + d) * (b + d))) by (apply Qmult_lt_0_compat; lra).
    lra. }
  assert (C2 : (xs - c) * (xs - c) + d * d <= l2 * l2).
  { assert (E : l2 * l2 * ((b + d) * (b + d)) == d * d * (S * S)) by (unfold l2; field; lra).
    assert (d * d * reflect_est_sq a b c d <= d * d * (S * S)).
    { assert (E' : d * d * (S * S) - d * d * reflect_est_sq a b c d == (d * d) * (S * S - reflect_est_sq a b c d)) by ring.
      assert (0 <= (d * d) * (S * S - reflect_est_sq a b c d)) by (apply Qmult_le_0_compat; [apply sqn|lra]). lra. }
    assert (G : ((xs - c) * (xs - c) + d * d) * ((b + d) * (b + d)) <= l2 * l2 * ((b + d) * (b + d))) by lra.
    destruct (Qlt_le_dec (l2 * l2) ((xs - c) * (xs - c) + d * d)) as [Hlt|]; [|assumption].
    assert (0 < (((xs - c) * (xs - c) + d * d) - l2 * l2) * ((b + d) * (b + d))) by (apply Qmult_lt_0_compat; lra).
    lra. }
  (* xc = (1 - th) x* + th x *)
  assert (TH : exists th, 0 <= th /\ th <= 1 /\ xc == (1 - th) * xs + th * x).
  { destruct (Qeq_dec x xs) as [E|N].
    - exists 0. split; [lra|]. split; [lra|]. destruct Hbt; lra.
    - exists ((xc - xs) / (x - xs)). destruct Hbt as [[H1 H2]|[H1 H2]].
      + assert (0 < x - xs) by (destruct (Qlt_le_dec xs x); [lra|exfalso; apply N; lra]).
        split; [apply Qle_shift_div_l; lra|]. split; [apply Qle_shift_div_r; lra|]. field. lra.
      + assert (x - xs < 0) by (destruct (Qlt_le_dec x xs); [lra|exfalso; apply N; lra]).
        assert (E : (xc - xs) / (x - xs) == (xs - xc) / (xs - x)) by (field; lra).
        split; [rewrite E; apply Qle_shift_div_l; lra|]. split; [rewrite E; apply Qle_shift_div_r; lra|]. field. lra. }
  destruct TH as (th & T0 & T1' & Exc).
  assert (F1 : e1 <= (1 - th) * l1 + th * L1).
  { apply (norm_convex (xs - a) b (x - a) b l1 L1 th e1); try assumption.
    assert (E : ((1 - th) * (xs - a) + th * (x - a)) == xc - a) by (rewrite Exc; ring).
    assert (E' : ((1 - th) * b + th * b) == b) by ring.
    rewrite E, E'. exact B1. }
  assert (F2 : e2 <= (1 - th) * l2 + th * L2).
  { apply (norm_convex (xs - c) d (x - c) d l2 L2 th e2); try assumption.
    assert (E : ((1 - th) * (xs - c) + th * (x - c)) == xc - c) by (rewrite Exc; ring).
    assert (E' : ((1 - th) * d + th * d) == d) by ring.
    rewrite E, E'. exact B2. }
  assert (G : (1 - th) * l1 + th * L1 + ((1 - th) * l2 + th * L2) == (1 - th) * (l1 + l2) + th * (L1 + L2)) by ring.
  assert (G' : (1 - th) * (l1 + l2) + th * (L1 + L2) == L1 + L2) by (rewrite Hsum; unfold S; ring).
  rewrite G' in G. unfold S. clear - F1 F2 G. clearbody l1 l2.
  set (p1 := (1 - th) * l1 + th * L1) in *. set (p2 := (1 - th) * l2 + th * L2) in *. clearbody p1 p2. lra.
Qed.

Lemma clamp_between mn mx xs x : mn <= mx -> mn <= x -> x <= mx ->
  let xc := Qmin' mx (Qmax' mn xs) in (xs <= xc <= x \/ x <= xc <= xs).
Proof.
  intros H0 H1 H2. cbn zeta. unfold Qmin', Qmax'.
  destruct (Qltb mn xs) eqn:E1.
  - destruct (Qltb xs mx) eqn:E2; qb2p; lra.
  - destruct (Qltb mn mx) eqn:E2; qb2p; lra.
Qed.

Theorem reflect_lower_bound_clamped a b c d mn mx x L1 L2 e1 e2 :
  0 <= b -> 0 <= d -> 0 < b + d -> mn <= mx -> mn <= x -> x <= mx ->
  0 <= L1 -> 0 <= L2 ->
  (x - a) * (x - a) + b * b <= L1 * L1 -> (x - c) * (x - c) + d * d <= L2 * L2 ->
  let xc := reflect_x_clamped a b c d mn mx in
  0 <= e1 -> 0 <= e2 ->
  e1 * e1 <= (xc - a) * (xc - a) + b * b -> e2 * e2 <= (xc - c) * (xc - c) + d * d ->
  e1 + e2 <= L1 + L2.
Proof.
  intros Hb Hd Hbd Hm Hx0 Hx1 HL1 HL2 A1 A2 xc He1 He2 B1 B2.
  eapply (reflect_between a b c d x xc); try eassumption.
  unfold xc, reflect_x_clamped. apply clamp_between; assumption.
Qed.

(* both points on the other side of the line: mirror *)
Corollary reflect_lower_bound_clamped_neg a b c d mn mx x L1 L2 e1 e2 :
  b <= 0 -> d <= 0 -> b + d < 0 -> mn <= mx -> mn <= x -> x <= mx ->
  0 <= L1 -> 0 <= L2 ->
  (x - a) * (x - a) + b * b <= L1 * L1 -> (x - c) * (x - c) + d * d <= L2 * L2 ->
  let xc := reflect_x_clamped a b c d mn mx in
  0 <= e1 -> 0 <= e2 ->
  e1 * e1 <= (xc - a) * (xc - a) + b * b -> e2 * e2 <= (xc - c) * (xc - c) + d * d ->
  e1 + e2 <= L1 + L2.
Proof.
  intros Hb Hd Hbd Hm Hx0 Hx1 HL1 HL2 A1 A2 xc He1 He2 B1 B2.
  assert (Ex : reflect_x a (- b) c (- d) == reflect_x a b c d) by (unfold reflect_x; field; lra).
  assert (Exc : reflect_x_clamped a (- b) c (- d) mn mx == xc).
  { unfold xc, reflect_x_clamped, Qmin', Qmax'.
    destruct (Qltb mn (reflect_x a (- b) c (- d))) eqn:E1; destruct (Qltb mn (reflect_x a b c d)) eqn:E2; qb2p;
      try lra.
    destruct (Qltb (reflect_x a (- b) c (- d)) mx) eqn:E3; destruct (Qltb (reflect_x a b c d) mx) eqn:E4; qb2p; lra. }
  assert (Eb : - b * - b == b * b) by ring. assert (Ed : - d * - d == d * d) by ring.
  assert (Hb' : 0 <= - b) by lra. assert (Hd' : 0 <= - d) by lra. assert (Hbd' : 0 < - b + - d) by lra.
  assert (A1' : (x - a) * (x - a) + - b * - b <= L1 * L1) by (rewrite Eb; exact A1).
  assert (A2' : (x - c) * (x - c) + - d * - d <= L2 * L2) by (rewrite Ed; exact A2).
  assert (B1' : e1 * e1 <= (reflect_x_clamped a (- b) c (- d) mn mx - a) * (reflect_x_clamped a (- b) c (- d) mn mx - a)
                           + - b * - b) by (rewrite Exc, Eb; exact B1).
  assert (B2' : e2 * e2 <= (reflect_x_clamped a (- b) c (- d) mn mx - c) * (reflect_x_clamped a (- b) c (- d) mn mx - c)
                           + - d * - d) by (rewrite Exc, Ed; exact B2).
  exact (reflect_lower_bound_clamped a (- b) c (- d) mn mx x L1 L2 e1 e2 Hb' Hd' Hbd' Hm Hx0 Hx1 HL1 HL2 A1' A2'
           He1 He2 B1' B2').
Qed.

(* non-vacuity: start (0,3), end (8,1), x* = 6; the edge [0,4] clamps to xc = 4: legs 5 and sqrt 17 >= 4, so e1 = 5,
   e2 = 4 are admissible; the path through x = 2 has legs sqrt 13 <= 4 and sqrt 37 <= 7 *)
Example reflect_clamped_example :
  reflect_x_clamped 0 3 8 1 0 4 == 4 /\ 5 + 4 <= 4 + 7.
Proof.
  split; [vm_compute; reflexivity|].
  apply (reflect_lower_bound_clamped 0 3 8 1 0 4 2 4 7 5 4); try lra.
  - assert (E : reflect_x_clamped 0 3 8 1 0 4 == 4) by (vm_compute; reflexivity). rewrite E. lra.
  - assert (E : reflect_x_clamped 0 3 8 1 0 4 == 4) by (vm_compute; reflexivity). rewrite E. lra.
Qed.
