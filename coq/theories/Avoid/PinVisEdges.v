(* C11 - the orthogonal visibility edges a connection pin gets from its scan-line neighbours respect its ConnDirFlags
   (DESIGN 5.11, 9.14; seeded change C11-6).  Proofs over the cpp2v translation Gen/VisEdge.v:
     getPosVertInfDirections                                  = scan_dirs                  (for EVERY mask and dimension)
     visedge_canSeeDown / visedge_canSeeUp / visedge_generateEdge (local bool variables of
       LineSegment::generateVisibilityEdgesFromBreakpointSet)  = spec_canSeeDown / spec_canSeeUp / spec_generateEdge
   and, for the hand model pair_edges of what each decision guards (Avoid/PinVisEdgesModel.v): the generated edges are exactly the
   intended ones and each of them leaves a connection point only in a direction its ConnDirFlags contain. *)
From Coq Require Import ZArith List Bool Lia.
From Adapt Require Import Num.Qaux Avoid.PinsModel Avoid.PinVisEdgesModel Gen.VisEdge.
Import ListNotations.
Local Open Scope Z_scope.

(* ------------------------------------------------------------------ bit lemmas *)
Lemma land_bit m k : 0 <= k -> Z.land m (2 ^ k) = if Z.testbit m k then 2 ^ k else 0.
Proof.
  intros Hk. apply Z.bits_inj'. intros n Hn. rewrite Z.land_spec, Z.pow2_bits_eqb by lia.
  destruct (Z.testbit m k) eqn:E.
  - rewrite Z.pow2_bits_eqb by lia. destruct (Z.eqb_spec k n) as [->|]; [rewrite E|rewrite andb_false_r]; reflexivity.
  - rewrite Z.bits_0. destruct (Z.eqb_spec k n) as [->|]; [rewrite E|rewrite andb_false_r]; reflexivity.
Qed.

Lemma land1 m : Z.land m 1 = if Z.testbit m 0 then 1 else 0. Proof. exact (land_bit m 0 ltac:(lia)). Qed.
Lemma land2 m : Z.land m 2 = if Z.testbit m 1 then 2 else 0. Proof. exact (land_bit m 1 ltac:(lia)). Qed.
Lemma land4 m : Z.land m 4 = if Z.testbit m 2 then 4 else 0. Proof. exact (land_bit m 2 ltac:(lia)). Qed.
Lemma land8 m : Z.land m 8 = if Z.testbit m 3 then 8 else 0. Proof. exact (land_bit m 3 ltac:(lia)). Qed.
Lemma land12 m : Z.land m 12 = Z.lor (Z.land m 4) (Z.land m 8).
Proof. change 12 with (Z.lor 4 8). apply Z.land_lor_distr_r. Qed.
Lemma land3 m : Z.land m 3 = Z.lor (Z.land m 2) (Z.land m 1).
Proof. change 3 with (Z.lor 2 1). apply Z.land_lor_distr_r. Qed.

(* ------------------------------------------------------------------ T: the translated code equals the intended spec *)
Theorem gen_constants_vis :
  VisDirNone = ScanNone /\ VisDirUp = ScanUp /\ VisDirDown = ScanDown /\ XDIM = 0 /\ YDIM = 1 /\
  VisEdge.ConnDirUp = DirUp /\ VisEdge.ConnDirDown = DirDown /\ VisEdge.ConnDirLeft = DirLeft /\ VisEdge.ConnDirRight = DirRight.
Proof. repeat split; reflexivity. Qed.

Theorem gen_scan_dirs m dim : getPosVertInfDirections (mkvert m) dim = scan_dirs m dim.
Proof.
  unfold getPosVertInfDirections, scan_dirs, has, dim_higher_flag, dim_lower_flag.
  cbn [v_dirs].
  change (Z.lor VisEdge.ConnDirLeft VisEdge.ConnDirRight) with 12.
  change (Z.lor VisEdge.ConnDirDown VisEdge.ConnDirUp) with 3.
  change VisEdge.ConnDirLeft with 4. change VisEdge.ConnDirRight with 8.
  change VisEdge.ConnDirDown with 2. change VisEdge.ConnDirUp with 1.
  change DirLeft with 4. change DirRight with 8. change DirUp with 1. change DirDown with 2.
  change XDIM with 0. change YDIM with 1.
  destruct (Z.eqb_spec dim 0) as [->|H0].
  - cbn [Z.eqb orb]. rewrite land12, land4, land8.
    destruct (Z.testbit m 2), (Z.testbit m 3); reflexivity.
  - destruct (Z.eqb_spec dim 1) as [->|H1].
    + cbn [Z.eqb orb]. rewrite land3, land1, land2.
      destruct (Z.testbit m 0), (Z.testbit m 1); reflexivity.
    + reflexivity.
Qed.

Theorem gen_canSeeDown ld vd lc vc : visedge_canSeeDown ld vd lc vc = spec_canSeeDown ld vd lc vc.
Proof. reflexivity. Qed.
Theorem gen_canSeeUp ld vd lc vc : visedge_canSeeUp ld vd lc vc = spec_canSeeUp ld vd lc vc.
Proof. reflexivity. Qed.
Theorem gen_generateEdge ld vd lc vc : visedge_generateEdge ld vd lc vc = spec_generateEdge ld vd lc vc.
Proof.
  unfold visedge_generateEdge, spec_generateEdge, has. change VisDirUp with ScanUp. change VisDirDown with ScanDown.
  destruct lc, vc, (Z.eqb (Z.land ld ScanUp) 0), (Z.eqb (Z.land vd ScanDown) 0); reflexivity.
Qed.

(* the edges the implementation's decisions generate for one pair of scan-line neighbours *)
Definition gen_pair_edges := pair_edges visedge_canSeeDown visedge_canSeeUp visedge_generateEdge.
Definition spec_pair_edges := pair_edges spec_canSeeDown spec_canSeeUp spec_generateEdge.

Theorem gen_pair_edges_eq last vert sb sa : gen_pair_edges last vert sb sa = spec_pair_edges last vert sb sa.
Proof. unfold gen_pair_edges, spec_pair_edges, pair_edges. cbv zeta. rewrite gen_generateEdge. reflexivity. Qed.

(* ------------------------------------------------------------------ exactly the intended edges *)
Theorem side_vert_edge_iff last vert sb sa :
  In (mkedge Side Vert) (gen_pair_edges last vert sb sa) <->
  bp_cp last = true /\ bp_cp vert = true /\ has (bp_dirs vert) ScanDown = true /\ sb = true.
Proof.
  rewrite gen_pair_edges_eq. unfold spec_pair_edges, pair_edges, spec_canSeeDown, spec_canSeeUp, spec_generateEdge. cbv zeta.
  destruct (bp_cp last), (bp_cp vert), (has (bp_dirs vert) ScanDown), (has (bp_dirs last) ScanUp), sb, sa; cbn;
    split; intro H; try tauto; try (repeat destruct H as [H|H]; try discriminate H; try contradiction);
    try (destruct H as (?&?&?&?); discriminate).
Qed.

Theorem last_side_edge_iff last vert sb sa :
  In (mkedge Last Side) (gen_pair_edges last vert sb sa) <->
  bp_cp last = true /\ bp_cp vert = true /\ has (bp_dirs last) ScanUp = true /\ sa = true.
Proof.
  rewrite gen_pair_edges_eq. unfold spec_pair_edges, pair_edges, spec_canSeeDown, spec_canSeeUp, spec_generateEdge. cbv zeta.
  destruct (bp_cp last), (bp_cp vert), (has (bp_dirs vert) ScanDown), (has (bp_dirs last) ScanUp), sb, sa; cbn;
    split; intro H; try tauto; try (repeat destruct H as [H|H]; try discriminate H; try contradiction);
    try (destruct H as (?&?&?&?); discriminate).
Qed.

Theorem last_vert_edge_iff last vert sb sa :
  In (mkedge Last Vert) (gen_pair_edges last vert sb sa) <->
  (bp_cp last = true -> has (bp_dirs last) ScanUp = true) /\ (bp_cp vert = true -> has (bp_dirs vert) ScanDown = true).
Proof.
  rewrite gen_pair_edges_eq. unfold spec_pair_edges, pair_edges, spec_canSeeDown, spec_canSeeUp, spec_generateEdge. cbv zeta.
  destruct (bp_cp last), (bp_cp vert), (has (bp_dirs vert) ScanDown), (has (bp_dirs last) ScanUp), sb, sa; cbn;
    split; intro H; try tauto; try (repeat destruct H as [H|H]; try discriminate H; try contradiction);
    try (destruct H as [H1 H2]; try (specialize (H1 eq_refl); discriminate); try (specialize (H2 eq_refl); discriminate)).
Qed.

Theorem only_three_edges last vert sb sa e :
  In e (gen_pair_edges last vert sb sa) -> e = mkedge Side Vert \/ e = mkedge Last Side \/ e = mkedge Last Vert.
Proof.
  unfold gen_pair_edges, pair_edges. cbv zeta.
  destruct (bp_cp vert && bp_cp last), (visedge_canSeeDown (bp_dirs last) (bp_dirs vert) (bp_cp last) (bp_cp vert) && sb),
    (visedge_canSeeUp (bp_dirs last) (bp_dirs vert) (bp_cp last) (bp_cp vert) && sa),
    (visedge_generateEdge (bp_dirs last) (bp_dirs vert) (bp_cp last) (bp_cp vert));
    cbn; intro H; repeat destruct H as [H|H]; subst; auto; contradiction.
Qed.

(* ------------------------------------------------------------------ every generated edge respects the scan flags of its connection-point ends *)
Theorem pair_edges_respect last vert sb sa e :
  In e (gen_pair_edges last vert sb sa) -> edge_respects last vert e = true.
Proof.
  intro H. destruct (only_three_edges _ _ _ _ _ H) as [E|[E|E]]; subst e.
  - apply side_vert_edge_iff in H. destruct H as (_ & _ & Hd & _). unfold edge_respects; cbn. rewrite Hd. apply implb_true_r.
  - apply last_side_edge_iff in H. destruct H as (_ & _ & Hu & _). unfold edge_respects; cbn. rewrite Hu, implb_true_r. reflexivity.
  - apply last_vert_edge_iff in H. destruct H as [H1 H2]. unfold edge_respects; cbn.
    destruct (bp_cp last); [rewrite (H1 eq_refl)|]; destruct (bp_cp vert); try rewrite (H2 eq_refl); reflexivity.
Qed.

(* ------------------------------------------------------------------ in terms of the pins' ConnDirFlags *)
Lemma has_scan_up m dim : (dim = 0 \/ dim = 1) -> has (scan_dirs m dim) ScanUp = has m (dim_higher_flag dim).
Proof.
  intros [E|E]; subst dim; unfold scan_dirs; cbn [Z.eqb orb];
    destruct (has m (dim_higher_flag _)), (has m (dim_lower_flag _)); reflexivity.
Qed.
Lemma has_scan_down m dim : (dim = 0 \/ dim = 1) -> has (scan_dirs m dim) ScanDown = has m (dim_lower_flag dim).
Proof.
  intros [E|E]; subst dim; unfold scan_dirs; cbn [Z.eqb orb];
    destruct (has m (dim_higher_flag _)), (has m (dim_lower_flag _)); reflexivity.
Qed.

(* the breakpoint of a pin / connector end with ConnDirFlags m on a scan line of dimension dim, as orthogonal.cpp builds it:
   PosVertInf(pos, v, getPosVertInfDirections(v, dim)) *)
Definition pin_bp (m dim : Z) : bpoint := mkbp true (getPosVertInfDirections (mkvert m) dim).

(* Two pins (masks ml: lower position, mv: higher position) that are scan-line neighbours inside a shape.
   (a) vert gets the edge across its neighbour towards LOWER positions iff its own mask contains Left (x) / Up (y);
   (b) last gets the edge across its neighbour towards HIGHER positions iff its own mask contains Right (x) / Down (y);
   (c) the direct edge exists iff both hold. *)
Theorem pin_edges_respect_ConnDirFlags ml mv dim sb sa :
  dim = 0 \/ dim = 1 ->
  let es := gen_pair_edges (pin_bp ml dim) (pin_bp mv dim) sb sa in
  (In (mkedge Side Vert) es <-> has mv (dim_lower_flag dim) = true /\ sb = true) /\
  (In (mkedge Last Side) es <-> has ml (dim_higher_flag dim) = true /\ sa = true) /\
  (In (mkedge Last Vert) es <-> has ml (dim_higher_flag dim) = true /\ has mv (dim_lower_flag dim) = true).
Proof.
  intros Hd es. unfold es, pin_bp.
  rewrite side_vert_edge_iff, last_side_edge_iff, last_vert_edge_iff. cbn [bp_cp bp_dirs].
  rewrite !gen_scan_dirs, (has_scan_up ml dim Hd), (has_scan_down mv dim Hd). tauto.
Qed.

(* ------------------------------------------------------------------ non-vacuity, and the seeded decision refuted *)
(* the demonstration scene of the seeded change: centre pin ConnDirAll to the left of a ConnDirRight-only pin, x dimension:
   the Right-only pin gets NO edge towards lower x; the centre pin gets its edge to the right shape side; no direct edge *)
Example demo_row :
  gen_pair_edges (pin_bp DirAll 0) (pin_bp DirRight 0) true true = [mkedge Last Side].
Proof. vm_compute. reflexivity. Qed.
Example demo_col :
  gen_pair_edges (pin_bp DirRight 1) (pin_bp DirUp 1) true true = [mkedge Side Vert].
Proof. vm_compute. reflexivity. Qed.

(* with the neighbour's flag in canSeeDown (seeded change C11-6) the property fails: the Right-only pin gets an edge towards lower x *)
Theorem wrong_canSeeDown_refuted :
  exists last vert e, In e (pair_edges wrong_canSeeDown visedge_canSeeUp visedge_generateEdge last vert true true) /\
                      edge_respects last vert e = false.
Proof. exists (pin_bp DirAll 0), (pin_bp DirRight 0), (mkedge Side Vert). vm_compute. split; [left; reflexivity | reflexivity]. Qed.
