(* C15 - third layer of the lifecycle protocol model: connection pins as first-class heap objects
   (connectionpin.cpp:40-215 constructors / ~ShapeConnectionPin, obstacle.cpp:92-96 ~Obstacle frees its
   pins, obstacle.cpp:216-228 addConnectionPin / removeConnectionPin, junction.cpp:47).  Executable model,
   no proofs here.  A layer over `xst` (LifecycleModel.v): the core state, the checkpoint layer and their
   ops are unchanged; the extended alphabet adds
       PNewPin o p  = new ShapeConnectionPin(o, ...)   (o a shape or a junction the client holds)
       PDelPin p    = delete pin                        (documented: the destructor is public API)
   Pins are heap objects of their own (id space separate from objects and checkpoint vertices); each pin
   owns its VertInf, so a pin that is never freed is also a vertex that stays linked in router->vertices.
   `pown` = all the Obstacle::m_connection_pins sets, as (owner, pin) pairs.
     new pin:      allocated and inserted into its owner's set (Obstacle::addConnectionPin);
     delete pin:   erased from the owner's set, connector ends using it are detached
                   (ConnEnd::freeActivePin - the end stays a follower of the shape, so the core state is
                   unchanged), vertex and pin freed;
     ~Obstacle (the only place a shape / junction is freed): deletes every pin in its set - modelled by
                   `preap` after every core step, exactly as `reap` does for checkpoint vertices;
     rerouting:    ConnEnd::assignPinVisibilityTo / usePin walk the owner's set and dereference every pin
                   in it (over-approximation: all pins in all sets whenever a transaction did something).
   The pin ops themselves call Router::modifyConnectionPin, which queues a ConnectionPinChange marker
   (never dereferenced, not modelled, see LifecycleModel.v) and, outside transactions, runs
   processTransaction; with an empty core queue that is `process` = identity on the core state, and the
   reroute it triggers is the identity on a well-formed checkpoint layer (LifecycleCP.reroute_id), so the
   pin ops leave the `xs` component unchanged.
   Switch  fp = true: every new pin is inserted into its owner's set (current code: the set's order
                      compares class, directions, x, y and inside offset, and the generator / the legal
                      domain never creates two pins of one owner that agree in all five);
           fp = false: a pin is inserted only if its owner has no pin yet (the "second pin compares
                      equivalent and is not owned" variant).
   `pbad` logs a dereference or a free of a pin that is not allocated. *)
From Coq Require Import List Arith Bool.
Import ListNotations.
From Adapt Require Import Avoid.LifecycleModel.

Inductive pop := PX (o : xop) | PNewPin (o p : nat) | PDelPin (p : nat).

Record pst := mkp {
  xs : xst;
  pheap : list nat;             (* allocated pins *)
  pown : list (nat * nat);      (* (owner obstacle, pin): the m_connection_pins sets *)
  pfreed : list nat;            (* history of pin frees *)
  pbad : list nat }.            (* use after free / double free of a pin *)

Definition pinit (t p : bool) : pst := mkp (xinit t p) [] [] [] [].

Definition set_xs (x : pst) (y : xst) : pst := mkp y (pheap x) (pown x) (pfreed x) (pbad x).
Definition set_pown (x : pst) (l : list (nat * nat)) : pst := mkp (xs x) (pheap x) l (pfreed x) (pbad x).

Definition pderef (p : nat) (x : pst) : pst :=
  if mem p (pheap x) then x else mkp (xs x) (pheap x) (pown x) (pfreed x) (p :: pbad x).
Definition pfree (p : nat) (x : pst) : pst :=
  mkp (xs x) (remove_nat p (pheap x)) (pown x) (p :: pfreed x)
      (if mem p (pheap x) then pbad x else p :: pbad x).
Definition pfree_all (l : list nat) (x : pst) : pst := fold_left (fun x p => pfree p x) l x.
Definition pderef_all (l : list nat) (x : pst) : pst := fold_left (fun x p => pderef p x) l x.

Definition pin_owner_is (o : nat) (op : nat * nat) : bool := Nat.eqb o (fst op).
Definition pin_is (p : nat) (op : nat * nat) : bool := Nat.eqb p (snd op).
Definition pins_of (o : nat) (l : list (nat * nat)) : list nat := map snd (filter (pin_owner_is o) l).

Definition plegal (x : pst) (o : pop) : bool :=
  match o with
  | PX o => xlegal (xs x) o
  | PNewPin o p =>
      alive (core (xs x)) && client_holds (core (xs x)) o && negb (mem p (pheap x)) && negb (mem p (pfreed x))
  | PDelPin p =>
      (* the client may delete a pin it created as long as it has not handed the owner to deleteShape /
         deleteJunction (from then on the owner's destructor deletes the pin) *)
      alive (core (xs x)) && mem p (pheap x) &&
      existsb (fun op => pin_is p op && client_holds (core (xs x)) (fst op)) (pown x)
  end.

(* ~Obstacle of every shape / junction that has just been freed *)
Definition powner_live (x : pst) (op : nat * nat) : bool := mem (fst op) (heap (core (xs x))).
Definition preap (x : pst) : pst :=
  let x1 := pfree_all (map snd (filter (fun op => negb (powner_live x op)) (pown x))) x in
  set_pown x1 (filter (powner_live x) (pown x)).

(* does the (legal) op o, applied in state y, end in rerouteAndCallbackConnectors? *)
Definition xreroutes (y : xst) (o : xop) : bool :=
  match o with XCore o' => reroutes (core y) o' | XSetCP _ _ => false end.

Definition pstep (fk fl fc fp : bool) (x : pst) (o : pop) : pst :=
  if negb (plegal x o) then x else
  match o with
  | PX o =>
      let x1 := preap (set_xs x (xstep fk fl fc (xs x) o)) in
      if xreroutes (xs x) o then pderef_all (map snd (pown x1)) x1 else x1
  | PNewPin o p =>
      mkp (xs x) (p :: pheap x)
          (if fp || negb (existsb (pin_owner_is o) (pown x)) then (o, p) :: pown x else pown x)
          (pfreed x) (pbad x)
  | PDelPin p =>
      pfree p (set_pown x (filter (fun op => negb (pin_is p op)) (pown x)))
  end.

Definition prun (fk fl fc fp : bool) (t p : bool) (ops : list pop) : pst :=
  fold_left (pstep fk fl fc fp) ops (pinit t p).

(* what the correspondence compares: size of the pin set of an obstacle, number of allocated pins
   (= pin vertices in the router's vertex list) *)
Definition pin_count (x : pst) (o : nat) : nat := length (pins_of o (pown x)).
Definition live_pins (x : pst) : nat := length (pheap x).
