(* C12 - the abstract hyperedge operations preserve "tree whose degree-1 nodes are exactly the terminals T". *)
From Coq Require Import List Arith Lia Bool Permutation.
From Adapt Require Import Graph.UnionFind Graph.Trees Avoid.HyperTreeModel.
Import ListNotations.

(* ------------------------------------------------------------------ graphs that cannot be told apart *)
Definition same_graph (g h : graph) : Prop :=
  (forall x y, conn g x y <-> conn h x y) /\ (acyclic g <-> acyclic h) /\ (forall x, deg g x = deg h x).

Lemma same_graph_perm g h : Permutation g h -> same_graph g h.
Proof.
  intro P. split; [|split].
  - intros x y. split; apply conn_perm; [exact P|apply Permutation_sym; exact P].
  - split; apply acyclic_perm; [exact P|apply Permutation_sym; exact P].
  - intro x. apply deg_perm. exact P.
Qed.
Lemma same_graph_flip a b r : same_graph ((a, b) :: r) ((b, a) :: r).
Proof.
  split; [|split].
  - intros x y. split; apply conn_flip.
  - split; apply acyclic_flip.
  - intro x. cbn [deg]. lia.
Qed.
Lemma same_graph_trans g h k : same_graph g h -> same_graph h k -> same_graph g k.
Proof.
  intros (A1 & A2 & A3) (B1 & B2 & B3). split; [|split].
  - intros x y. rewrite A1. apply B1.
  - rewrite A2. exact B2.
  - intro x. rewrite A3. apply B3.
Qed.

(* ------------------------------------------------------------------ remove_edge *)
Lemma remove_edge_perm a b g : forall r, remove_edge a b g = Some r ->
  Permutation g ((a, b) :: r) \/ Permutation g ((b, a) :: r).
Proof.
  induction g as [|[u v] g0 IH]; intros r H; cbn [remove_edge] in H; [discriminate|].
  destruct ((Nat.eqb u a && Nat.eqb v b) || (Nat.eqb u b && Nat.eqb v a)) eqn:E.
  - injection H as <-. apply orb_true_iff in E. destruct E as [E|E]; apply andb_true_iff in E; destruct E as [E1 E2];
      apply Nat.eqb_eq in E1, E2; subst; [left|right]; apply Permutation_refl.
  - destruct (remove_edge a b g0) as [r0|]; [|discriminate]. injection H as <-.
    destruct (IH r0 eq_refl) as [P|P]; [left|right];
      (eapply Permutation_trans; [apply perm_skip; exact P|apply perm_swap]).
Qed.

Lemma remove_edge_same a b g r : remove_edge a b g = Some r -> same_graph g ((a, b) :: r).
Proof.
  intro H. destruct (remove_edge_perm a b g r H) as [P|P].
  - apply same_graph_perm. exact P.
  - eapply same_graph_trans; [apply same_graph_perm; exact P|apply same_graph_flip].
Qed.

(* ------------------------------------------------------------------ renaming one node onto another *)
Lemma ren_conn j1 j2 k x : conn ((j1, j2) :: k) (ren j2 j1 x) x.
Proof.
  unfold ren. destruct (Nat.eqb_spec x j2) as [->|_]; [apply c_edge; left; reflexivity|apply c_refl].
Qed.

Lemma conn_ren_forward j1 j2 k x y :
  conn ((j1, j2) :: k) x y -> conn (map (ren_edge j2 j1) k) (ren j2 j1 x) (ren j2 j1 y).
Proof.
  intro C. induction C; eauto.
  destruct H as [E|Hin].
  - inversion E; subst. unfold ren. rewrite Nat.eqb_refl.
    destruct (Nat.eqb_spec u v); [subst|]; apply c_refl.
  - apply c_edge. change (ren j2 j1 u, ren j2 j1 v) with (ren_edge j2 j1 (u, v)). apply in_map. exact Hin.
Qed.

Lemma conn_ren_backward j1 j2 k p q :
  conn (map (ren_edge j2 j1) k) p q -> conn ((j1, j2) :: k) p q.
Proof.
  apply conn_sub. intros u v Hin. apply in_map_iff in Hin. destruct Hin as ([u0 v0] & E & Hin).
  unfold ren_edge in E. cbn [fst snd] in E. inversion E; subst.
  eapply c_trans; [apply ren_conn|]. eapply c_trans; [apply c_edge; right; exact Hin|]. apply c_sym. apply ren_conn.
Qed.

Lemma deg_map_ren j1 j2 r x : j2 <> j1 ->
  deg (map (ren_edge j2 j1) r) x =
  if Nat.eqb x j2 then 0 else if Nat.eqb x j1 then deg r j1 + deg r j2 else deg r x.
Proof.
  intro Hne. induction r as [|[u v] r IH]; cbn [map deg].
  - destruct (Nat.eqb x j2), (Nat.eqb x j1); reflexivity.
  - unfold ren_edge at 1. cbn [fst snd]. rewrite IH. unfold ren.
    destruct (Nat.eqb_spec u j2), (Nat.eqb_spec v j2);
      repeat match goal with |- context [Nat.eqb ?a ?b] => destruct (Nat.eqb_spec a b) end;
      try lia; try congruence; subst; try lia; try congruence.
Qed.

(* ------------------------------------------------------------------ ContractEdge / MergeJunctions *)
Theorem contract_preserves g T j1 j2 g' :
  is_tree g -> leaves_are g T -> contract j1 j2 g = Some g' -> is_tree g' /\ leaves_are g' T.
Proof.
  intros [Hc Ha] Hl H. unfold contract in H.
  destruct (Nat.eqb_spec j1 j2) as [|Hne]; [discriminate|].
  destruct (Nat.leb 2 (deg g j1) && Nat.leb 2 (deg g j2)) eqn:Hd; [|discriminate].
  apply andb_true_iff in Hd. destruct Hd as [Hd1 Hd2]. apply Nat.leb_le in Hd1, Hd2.
  destruct (remove_edge j1 j2 g) as [r|] eqn:Hr; [|discriminate]. injection H as <-.
  destruct (remove_edge_same j1 j2 g r Hr) as (Sc & Sa & Sd).
  assert (Hne' : j2 <> j1) by congruence.
  assert (Dr : forall x, deg g x = (if Nat.eqb j1 x then 1 else 0) + (if Nat.eqb j2 x then 1 else 0) + deg r x).
  { intro x. rewrite Sd. reflexivity. }
  assert (Dg' := fun x => deg_map_ren j1 j2 r x Hne').
  split; [split|].
  - (* connected *)
    intros x y Hx Hy.
    assert (Pre : forall z, deg (map (ren_edge j2 j1) r) z > 0 -> exists z0, ren j2 j1 z0 = z /\ deg g z0 > 0).
    { intros z Hz. rewrite Dg' in Hz. destruct (Nat.eqb_spec z j2) as [|Hz2]; [lia|].
      destruct (Nat.eqb_spec z j1) as [E|Hz1].
      - subst z. exists j1. split; [unfold ren; destruct (Nat.eqb_spec j1 j2); congruence|lia].
      - exists z. split; [unfold ren; destruct (Nat.eqb_spec z j2); congruence|]. rewrite Dr. lia. }
    destruct (Pre x Hx) as (x0 & <- & Hx0). destruct (Pre y Hy) as (y0 & <- & Hy0).
    apply conn_ren_forward. apply Sc. apply Hc; assumption.
  - (* acyclic *)
    intros f' k' P C.
    apply Permutation_sym in P. apply Permutation_map_inv in P. destruct P as (l3 & E & P).
    destruct l3 as [|f k]; [discriminate|]. cbn [map] in E. injection E as -> ->.
    apply conn_ren_backward in C. unfold ren_edge in C. cbn [fst snd] in C.
    assert (C2 : conn ((j1, j2) :: k) (fst f) (snd f)).
    { eapply c_trans; [apply c_sym; apply ren_conn|]. eapply c_trans; [exact C|]. apply ren_conn. }
    assert (AK : acyclic ((j1, j2) :: r)) by (apply Sa; exact Ha).
    apply (AK f ((j1, j2) :: k)); [|exact C2].
    eapply Permutation_trans; [apply perm_skip; exact P|apply perm_swap].
  - (* leaves *)
    intro x. rewrite (Hl x). rewrite Dg'. pose proof (Dr x) as Dx. pose proof (Dr j1) as D1. pose proof (Dr j2) as D2.
    rewrite Nat.eqb_refl in D1, D2.
    destruct (Nat.eqb_spec j1 j2); [congruence|]. destruct (Nat.eqb_spec j2 j1); [congruence|].
    destruct (Nat.eqb_spec x j2) as [->|]; [lia|]. destruct (Nat.eqb_spec x j1) as [->|]; [lia|].
    destruct (Nat.eqb_spec j1 x); [congruence|]. destruct (Nat.eqb_spec j2 x); [congruence|]. lia.
Qed.

Theorem merge_preserves g T j1 j2 g' :
  is_tree g -> leaves_are g T -> contract j2 j1 g = Some g' -> is_tree g' /\ leaves_are g' T.
Proof. apply contract_preserves. Qed.

(* ------------------------------------------------------------------ SplitJunction *)
Lemma reattach1_same j j' b g : forall g1, reattach1 j j' b g = Some g1 ->
  exists r, same_graph g ((j, b) :: r) /\ same_graph g1 ((j', b) :: r).
Proof.
  induction g as [|[u v] g0 IH]; intros g1 H; cbn [reattach1] in H; [discriminate|].
  destruct (Nat.eqb u j && Nat.eqb v b) eqn:E1.
  - injection H as <-. apply andb_true_iff in E1. destruct E1 as [A B]. apply Nat.eqb_eq in A, B. subst.
    exists g0. split; apply same_graph_perm; apply Permutation_refl.
  - destruct (Nat.eqb u b && Nat.eqb v j) eqn:E2.
    + injection H as <-. apply andb_true_iff in E2. destruct E2 as [A B]. apply Nat.eqb_eq in A, B. subst.
      exists g0. split; apply same_graph_flip.
    + destruct (reattach1 j j' b g0) as [g2|]; [|discriminate]. injection H as <-.
      destruct (IH g2 eq_refl) as (r & S0 & S2).
      exists ((u, v) :: r).
      assert (Lift : forall h e r0, same_graph h (e :: r0) -> same_graph ((u, v) :: h) (e :: (u, v) :: r0)).
      { intros h e r0 (C & A & D). split; [|split].
        - intros x y. split; intro K.
          + eapply conn_perm; [apply perm_swap|]. revert K. apply conn_sub. intros p q [Eq|Hin].
            * inversion Eq; subst. apply c_edge. left. reflexivity.
            * apply conn_cons_mono. apply C. apply c_edge. exact Hin.
          + apply (conn_perm _ _ _ _ (perm_swap _ _ _)) in K. revert K. apply conn_sub. intros p q [Eq|Hin].
            * inversion Eq; subst. apply c_edge. left. reflexivity.
            * apply conn_cons_mono. apply C. apply c_edge. exact Hin.
        - destruct e as [e1 e2]. split; intro K.
          + apply (acyclic_perm _ _ (perm_swap _ _ _)). apply acyclic_cons in K. destruct K as [K1 K2].
            apply acyclic_cons. split; [apply A; exact K1|]. intro K3. apply K2. apply C. exact K3.
          + apply (acyclic_perm _ _ (perm_swap _ _ _)) in K. apply acyclic_cons in K. destruct K as [K1 K2].
            apply acyclic_cons. split; [apply A; exact K1|]. intro K3. apply K2. apply C. exact K3.
        - intro x. destruct e as [e1 e2]. cbn [deg]. pose proof (D x) as Dx. cbn [deg] in Dx. lia. }
      split; apply Lift; assumption.
Qed.

Lemma reattach1_step j j' b g g1 :
  reattach1 j j' b g = Some g1 -> j <> j' -> b <> j -> b <> j' ->
  acyclic g -> ~ conn g j j' ->
  acyclic g1 /\ ~ conn g1 j j' /\
  (forall x y, conn ((j, j') :: g) x y -> conn ((j, j') :: g1) x y) /\
  (forall x, x <> j -> x <> j' -> deg g1 x = deg g x) /\ deg g1 j + 1 = deg g j /\ deg g1 j' = deg g j' + 1.
Proof.
  intros H Hjj Hbj Hbj' A N.
  destruct (reattach1_same j j' b g g1 H) as (r & (C0 & A0 & D0) & (C1 & A1 & D1)).
  apply A0 in A. apply acyclic_cons in A. destruct A as [Ar Njb].
  assert (Nr1 : ~ conn r j j').
  { intro K. apply N. apply C0. apply conn_cons_mono. exact K. }
  assert (Nr2 : ~ conn r b j').
  { intro K. apply N. apply C0. eapply c_trans; [apply c_edge; left; reflexivity|]. apply conn_cons_mono. exact K. }
  split; [|split; [|split; [|split; [|split]]]].
  - apply A1. apply acyclic_cons. split; [exact Ar|]. intro K. apply Nr2. apply c_sym. exact K.
  - intro K. apply C1 in K. apply conn_cons_split in K. destruct K as [K|[[K1 K2]|[K1 K2]]].
    + exact (Nr1 K).
    + exact (Nr1 K1).
    + exact (Njb K1).
  - intros x y. apply conn_sub. intros p q [E|Hin].
    + inversion E; subst. apply c_edge. left. reflexivity.
    + assert (K : conn ((j, b) :: r) p q) by (apply C0; apply c_edge; exact Hin).
      revert K. apply conn_sub. intros p' q' [E|Hin'].
      * inversion E; subst. eapply c_trans; [apply c_edge; left; reflexivity|].
        apply conn_cons_mono. apply C1. apply c_edge. left. reflexivity.
      * apply conn_cons_mono. apply C1. apply c_edge. right. exact Hin'.
  - intros x Hx Hx'. rewrite D0, D1. cbn [deg].
    destruct (Nat.eqb_spec j x), (Nat.eqb_spec j' x); congruence || lia.
  - rewrite D0, D1. cbn [deg]. rewrite Nat.eqb_refl.
    destruct (Nat.eqb_spec j' j), (Nat.eqb_spec b j); congruence || lia.
  - rewrite D0, D1. cbn [deg]. rewrite Nat.eqb_refl.
    destruct (Nat.eqb_spec j j'), (Nat.eqb_spec b j'); congruence || lia.
Qed.

Lemma reattach_spec j j' : j <> j' -> forall bs g gk,
  reattach j j' bs g = Some gk -> (forall b, In b bs -> b <> j /\ b <> j') ->
  acyclic g -> ~ conn g j j' ->
  acyclic gk /\ ~ conn gk j j' /\
  (forall x y, conn ((j, j') :: g) x y -> conn ((j, j') :: gk) x y) /\
  (forall x, x <> j -> x <> j' -> deg gk x = deg g x) /\ deg gk j + length bs = deg g j /\ deg gk j' = deg g j' + length bs.
Proof.
  intros Hjj. induction bs as [|b bs IH]; intros g gk H Hb A N; cbn [reattach] in H.
  - injection H as <-. cbn [length]. repeat split; auto; lia.
  - destruct (reattach1 j j' b g) as [g1|] eqn:H1; [|discriminate].
    destruct (Hb b (or_introl eq_refl)) as [Hbj Hbj'].
    destruct (reattach1_step j j' b g g1 H1 Hjj Hbj Hbj' A N) as (A1 & N1 & C1 & D1 & Dj & Dj').
    destruct (IH g1 gk H (fun b0 Hin => Hb b0 (or_intror Hin)) A1 N1) as (Ak & Nk & Ck & Dk & Dkj & Dkj').
    cbn [length]. split; [exact Ak|]. split; [exact Nk|]. split; [|split; [|split]].
    + intros x y K. apply Ck. apply C1. exact K.
    + intros x Hx Hx'. rewrite Dk by assumption. apply D1; assumption.
    + lia.
    + lia.
Qed.

Theorem split_preserves g T j j' bs g' :
  is_tree g -> leaves_are g T -> split j j' bs g = Some g' -> is_tree g' /\ leaves_are g' T.
Proof.
  intros [Hc Ha] Hl H. unfold split in H.
  destruct (Nat.eqb (deg g j') 0 && negb (Nat.eqb j j') && Nat.leb 1 (length bs) && Nat.leb (length bs + 1) (deg g j)
            && negb (memb j' bs) && negb (memb j bs)) eqn:G; [|discriminate].
  rewrite !andb_true_iff in G. destruct G as (((((G1 & G2) & G3) & G4) & G5) & G6).
  apply Nat.eqb_eq in G1. apply negb_true_iff in G2. apply Nat.eqb_neq in G2.
  apply Nat.leb_le in G3, G4. apply negb_true_iff in G5, G6.
  destruct (reattach j j' bs g) as [gk|] eqn:Hr; [|discriminate]. cbn [option_map] in H. injection H as <-.
  assert (Hb : forall b, In b bs -> b <> j /\ b <> j').
  { intros b Hin. split; intros ->.
    - apply memb_spec in Hin. congruence.
    - apply memb_spec in Hin. congruence. }
  assert (N0 : ~ conn g j j').
  { intro K. apply conn_nodes in K. destruct K as [K|[_ K]]; [congruence|lia]. }
  destruct (reattach_spec j j' G2 bs g gk Hr Hb Ha N0) as (Ak & Nk & Ck & Dk & Dkj & Dkj').
  split; [split|].
  - (* connected *)
    assert (Hub : forall x, deg ((j, j') :: gk) x > 0 -> conn ((j, j') :: gk) j x).
    { intros x Hx. destruct (Nat.eq_dec x j) as [->|Hxj]; [apply c_refl|].
      destruct (Nat.eq_dec x j') as [->|Hxj']; [apply c_edge; left; reflexivity|].
      apply Ck. apply conn_cons_mono. apply Hc; [lia|].
      rewrite <- (Dk x Hxj Hxj'). cbn [deg] in Hx.
      destruct (Nat.eqb_spec j x), (Nat.eqb_spec j' x); congruence || lia. }
    intros x y Hx Hy. eapply c_trans; [apply c_sym; apply Hub; exact Hx|apply Hub; exact Hy].
  - (* acyclic *)
    apply acyclic_cons. split; assumption.
  - (* leaves *)
    intro x. rewrite (Hl x). cbn [deg].
    destruct (Nat.eqb_spec j x) as [E1|Hxj]; destruct (Nat.eqb_spec j' x) as [E2|Hxj']; try congruence.
    + subst x. lia.
    + subst x. lia.
    + rewrite (Dk x) by congruence. lia.
Qed.

(* ------------------------------------------------------------------ all operations *)
Theorem C12_ops_step T g o :
  is_tree g /\ leaves_are g T -> is_tree (apply_hop T g o) /\ leaves_are (apply_hop T g o) T.
Proof.
  intros [Ht Hl]. destruct o as [j1 j2|j j' bs|j1 j2|cands]; cbn [apply_hop].
  - destruct (contract j1 j2 g) as [g'|] eqn:E; cbn [or_else]; [|tauto]. eapply contract_preserves; eauto.
  - destruct (split j j' bs g) as [g'|] eqn:E; cbn [or_else]; [|tauto]. eapply split_preserves; eauto.
  - destruct (contract j2 j1 g) as [g'|] eqn:E; cbn [or_else]; [|tauto]. eapply merge_preserves; eauto.
  - destruct (is_tree_with_leaves (kruskal cands) T) eqn:E; [|tauto].
    apply tree_checker_sound_complete in E. unfold is_tree. tauto.
Qed.

Theorem C12_ops T ops : forall g,
  is_tree g -> leaves_are g T -> is_tree (run_hops T g ops) /\ leaves_are (run_hops T g ops) T.
Proof.
  induction ops as [|o r IH]; intros g Ht Hl; unfold run_hops in *; cbn [fold_left]; [tauto|].
  destruct (C12_ops_step T g o (conj Ht Hl)) as [Ht' Hl']. apply IH; assumption.
Qed.

(* non-vacuity: a star on four terminals; split the hub, contract back, re-derive by Kruskal *)
Example C12_ops_nonvacuous :
  let T := [1; 2; 3; 4] in
  let g := [(10, 1); (10, 2); (10, 3); (10, 4)] in
  is_tree_with_leaves g T = true /\
  split 10 11 [3; 4] g = Some [(10, 11); (10, 1); (10, 2); (11, 3); (11, 4)] /\
  contract 10 11 [(10, 11); (10, 1); (10, 2); (11, 3); (11, 4)] = Some [(10, 1); (10, 2); (10, 3); (10, 4)] /\
  hop_ok T g (ReplaceByMTST [(1, 20); (20, 2); (20, 21); (21, 3); (21, 4); (3, 4)]) = true /\
  is_tree_with_leaves (run_hops T g [SplitJunction 10 11 [3; 4]; ReplaceByMTST [(1, 20); (20, 2); (20, 21); (21, 3); (21, 4); (3, 4)];
                                     ContractEdge 20 21]) T = true.
Proof. vm_compute. repeat split. Qed.

(* the abstract shadow of F-j: Kruskal alone does not make the terminals the leaves - a terminal lying on the path
   between two others becomes an internal node, so the rerouter's output has to be (and in the model is) re-checked *)
Example kruskal_terminal_interior :
  let T := [1; 2; 3] in
  let cands := [(1, 2); (2, 3)] in                (* terminal 2 lies on the only path from 1 to 3 *)
  (forall x y, In x T -> In y T -> conn cands x y) /\
  is_treeb (kruskal cands) = true /\ is_tree_with_leaves (kruskal cands) T = false.
Proof.
  split; [|vm_compute; split; reflexivity].
  intros x y Hx Hy.
  assert (K : forall z, In z [1; 2; 3] -> conn [(1, 2); (2, 3)] 2 z).
  { intros z [<-|[<-|[<-|[]]]].
    - apply c_sym. apply c_edge. left. reflexivity.
    - apply c_refl.
    - apply c_edge. right. left. reflexivity. }
  eapply c_trans; [apply c_sym; apply K; exact Hx|apply K; exact Hy].
Qed.
