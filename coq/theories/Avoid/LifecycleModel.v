(* C15 - ownership / queued-action protocol of Avoid::Router (router.cpp:107-146, 180-460, 464-640;
   actioninfo.cpp; obstacle.cpp makeInactive; connector.cpp ~ConnRef).  Executable model, no proofs here.

   Objects (shapes, junctions, connectors) share one id space, as in libavoid.  `heap` is the set of objects
   currently allocated; every dereference the C++ performs on a queued pointer is modelled by `deref`,
   which logs the id in `bad` when the object is no longer allocated (= use after free).  `leaked` is what
   is still allocated after the router has been destroyed.

   Two switches select the code variant, so that the defects found with this model (DESIGN 6, F-k and F-l)
   stay expressible:  fk = processActions detaches queued connector-end copies from an obstacle before
   freeing it;  fl = ~Router frees objects whose add / endpoint change is still queued. *)
From Coq Require Import List Arith Bool.
Import ListNotations.

Inductive endT := EPoint | EObst (o : nat).
Inductive act :=
| AAdd (o : nat) | AMove (o : nat) | ARemove (o : nat)
| AConn (c : nat) (ups : list (bool * endT)).
Inductive op :=
| ONewObst (o : nat) | ONewConn (c : nat) (e1 e2 : endT) | OSetEnd (c : nat) (w : bool) (e : endT)
| OMove (o : nat) | ODelObst (o : nat) | ODelConn (c : nat) | OProcess | ODestroy.

Record st := mkst {
  heap : list nat;                     (* allocated objects *)
  cset : list nat;                     (* ids that are (or were) connectors; all other ids are obstacles *)
  active : list nat;                   (* obstacles in the scene (Router::m_obstacles) *)
  aconns : list nat;                   (* active connectors (Router::connRefs) *)
  attached : list (nat * bool * nat);  (* (connector, which end, obstacle): Obstacle::m_following_conns *)
  queue : list act;                    (* Router::actionList, without ConnectionPinChange markers *)
  freed : list nat;                    (* history of frees *)
  bad : list nat;                      (* dereferences of freed objects *)
  trans : bool;                        (* Router::m_consolidate_actions *)
  alive : bool }.

Definition init (t : bool) : st := mkst [] [] [] [] [] [] [] [] t true.

Definition mem (x : nat) (l : list nat) : bool := existsb (Nat.eqb x) l.
Definition remove_nat (x : nat) (l : list nat) : list nat := filter (fun y => negb (Nat.eqb x y)) l.

Definition end_eqb (a b : endT) : bool :=
  match a, b with EPoint, EPoint => true | EObst x, EObst y => Nat.eqb x y | _, _ => false end.

Definition act_is_add o a := match a with AAdd x => Nat.eqb o x | _ => false end.
Definition act_is_move o a := match a with AMove x => Nat.eqb o x | _ => false end.
Definition act_is_remove o a := match a with ARemove x => Nat.eqb o x | _ => false end.
Definition act_is_conn c a := match a with AConn x _ => Nat.eqb c x | _ => false end.

(* ids an end / an action refers to *)
Definition end_ids (e : endT) : list nat := match e with EPoint => [] | EObst o => [o] end.
Definition act_obj (a : act) : nat := match a with AAdd o | AMove o | ARemove o => o | AConn c _ => c end.
Definition act_end_ids (a : act) : list nat :=
  match a with AConn _ ups => flat_map (fun u => end_ids (snd u)) ups | _ => [] end.

Definition set_bad (s : st) (b : list nat) : st :=
  mkst (heap s) (cset s) (active s) (aconns s) (attached s) (queue s) (freed s) b (trans s) (alive s).
Definition set_queue (s : st) (q : list act) : st :=
  mkst (heap s) (cset s) (active s) (aconns s) (attached s) q (freed s) (bad s) (trans s) (alive s).

(* a dereference of object x *)
Definition deref (x : nat) (s : st) : st := if mem x (heap s) then s else set_bad s (x :: bad s).
Definition deref_end (e : endT) (s : st) : st := match e with EPoint => s | EObst o => deref o s end.

Definition free_obj (x : nat) (s : st) : st :=
  mkst (remove_nat x (heap s)) (cset s) (remove_nat x (active s)) (remove_nat x (aconns s)) (attached s)
       (queue s) (x :: freed s) (if mem x (heap s) then bad s else x :: bad s) (trans s) (alive s).

(* ActionInfo::addConnEndUpdate: an update for the same end is overwritten unless it comes from a pin move *)
Fixpoint add_update (ups : list (bool * endT)) (w : bool) (e : endT) (pinmove : bool) : list (bool * endT) :=
  match ups with
  | [] => [(w, e)]
  | (w', e') :: r => if Bool.eqb w w' then (w', if pinmove then e' else e) :: r
                     else (w', e') :: add_update r w e pinmove
  end.

(* Router::modifyConnector(conn, type, connEnd, pinmove) *)
Fixpoint modify_conn_q (q : list act) (c : nat) (w : bool) (e : endT) (pinmove : bool) : list act :=
  match q with
  | [] => [AConn c [(w, e)]]
  | AConn c' ups :: r => if Nat.eqb c c' then AConn c' (add_update ups w e pinmove) :: r
                         else AConn c' ups :: modify_conn_q r c w e pinmove
  | a :: r => a :: modify_conn_q r c w e pinmove
  end.

Definition scrub_end (o : nat) (e : endT) : endT :=
  match e with EObst x => if Nat.eqb o x then EPoint else e | EPoint => EPoint end.
Definition scrub_act (o : nat) (a : act) : act :=
  match a with AConn c ups => AConn c (map (fun u => (fst u, scrub_end o (snd u))) ups) | _ => a end.

(* ---- processActions ---- *)
(* pass 1, one move/remove action on obstacle o *)
Definition pass1_one (fk : bool) (s : st) (a : act) : st :=
  match a with
  | AMove o =>
      let s := deref o s in
      (* ShapeRef::moveAttachedConns: queue an endpoint update (a copy of the attached ConnEnd) per follower *)
      let q := fold_left (fun q t => match t with (c, w, o') =>
                  if Nat.eqb o o' then modify_conn_q q c w (EObst o) true else q end) (attached s) (queue s) in
      (* Obstacle::makeInactive: leave the scene, followers become manual points *)
      mkst (heap s) (cset s) (remove_nat o (active s)) (aconns s)
           (filter (fun t => negb (Nat.eqb o (snd t))) (attached s)) q (freed s) (bad s) (trans s) (alive s)
  | ARemove o =>
      let s := deref o s in
      let s := mkst (heap s) (cset s) (remove_nat o (active s)) (aconns s)
                    (filter (fun t => negb (Nat.eqb o (snd t))) (attached s))
                    (if fk then map (scrub_act o) (queue s) else queue s)
                    (freed s) (bad s) (trans s) (alive s) in
      free_obj o s
  | _ => s
  end.

(* pass 1 iterates over the list while it grows at the end; only move/remove entries matter and those are
   all present at the start, so iterating over the initial queue is equivalent *)
Definition pass1 (fk : bool) (s : st) : st := fold_left (pass1_one fk) (queue s) s.

Definition pass2_one (s : st) (a : act) : st :=
  match a with
  | AAdd o | AMove o =>
      let s := deref o s in
      mkst (heap s) (cset s) (if mem o (active s) then active s else o :: active s) (aconns s) (attached s)
           (queue s) (freed s) (bad s) (trans s) (alive s)
  | _ => s
  end.
Definition pass2 (s : st) : st := fold_left pass2_one (queue s) s.

(* ConnRef::updateEndPoint(type, connEnd) *)
Definition update_end (c : nat) (s : st) (u : bool * endT) : st :=
  let s := deref_end (snd u) s in
  let att := filter (fun t => negb (Nat.eqb c (fst (fst t)) && Bool.eqb (fst u) (snd (fst t)))) (attached s) in
  let att := match snd u with EObst o => (c, fst u, o) :: att | EPoint => att end in
  mkst (heap s) (cset s) (active s) (if mem c (aconns s) then aconns s else c :: aconns s) att
       (queue s) (freed s) (bad s) (trans s) (alive s).
Definition pass3_one (s : st) (a : act) : st :=
  match a with
  | AConn c ups => fold_left (update_end c) ups (deref c s)
  | _ => s
  end.
Definition pass3 (s : st) : st := fold_left pass3_one (queue s) s.

(* actionList.sort() dereferences every queued object *)
Definition sort_derefs (s : st) : st := fold_left (fun s a => deref (act_obj a) s) (queue s) s.

Definition process (fk : bool) (s : st) : st :=
  match queue s with
  | [] => s
  | _ => set_queue (pass3 (pass2 (pass1 fk (sort_derefs s)))) []
  end.

Definition maybe_process (fk : bool) (s : st) : st := if trans s then s else process fk s.

(* ---- client operations; an op that violates a documented precondition leaves the state unchanged ---- *)
Definition client_holds (s : st) (o : nat) : bool :=
  mem o (heap s) && negb (mem o (cset s)) && negb (existsb (act_is_remove o) (queue s)).
Definition end_ok (s : st) (e : endT) : bool := match e with EPoint => true | EObst o => client_holds s o end.
Definition fresh (s : st) (x : nat) : bool := negb (mem x (heap s)) && negb (mem x (freed s)).

Definition legal (s : st) (o : op) : bool :=
  alive s &&
  match o with
  | ONewObst x => fresh s x
  | ONewConn c e1 e2 => fresh s c && end_ok s e1 && end_ok s e2
  | OSetEnd c _ e => mem c (heap s) && mem c (cset s) && end_ok s e
  | OMove x => client_holds s x
  | ODelObst x => client_holds s x && negb (existsb (act_is_add x) (queue s))
  | ODelConn c => mem c (heap s) && mem c (cset s)
  | OProcess | ODestroy => true
  end.

Definition destroy (fl : bool) (s : st) : st :=
  (* fl: objects that only exist in the queue (never activated) are freed too *)
  let pending_conns := if fl then flat_map (fun a => match a with AConn c _ => if mem c (aconns s) then [] else [c] | _ => [] end) (queue s) else [] in
  let pending_obst := if fl then flat_map (fun a => match a with AAdd o => [o] | _ => [] end) (queue s) else [] in
  let s := fold_left (fun s x => free_obj x s) pending_conns s in
  let s := fold_left (fun s x => free_obj x s) pending_obst s in
  let s := fold_left (fun s x => free_obj x s) (aconns s) s in
  let s := fold_left (fun s x => free_obj x s) (active s) s in
  mkst (heap s) (cset s) [] [] [] [] (freed s) (bad s) (trans s) false.

Definition step (fk fl : bool) (s : st) (o : op) : st :=
  if negb (legal s o) then s else
  match o with
  | ONewObst x =>
      maybe_process fk
        (mkst (x :: heap s) (cset s) (active s) (aconns s) (attached s) (queue s ++ [AAdd x]) (freed s) (bad s) (trans s) (alive s))
  | ONewConn c e1 e2 =>
      let s := mkst (c :: heap s) (c :: cset s) (active s) (aconns s) (attached s) (queue s) (freed s) (bad s) (trans s) (alive s) in
      let s := maybe_process fk (set_queue s (modify_conn_q (queue s) c false e1 false)) in
      maybe_process fk (set_queue s (modify_conn_q (queue s) c true e2 false))
  | OSetEnd c w e => maybe_process fk (set_queue s (modify_conn_q (queue s) c w e false))
  | OMove x =>
      if existsb (act_is_add x) (queue s) then s
      else if existsb (act_is_move x) (queue s) then maybe_process fk s
      else maybe_process fk (set_queue s (queue s ++ [AMove x]))
  | ODelObst x =>
      maybe_process fk (set_queue s (filter (fun a => negb (act_is_move x a)) (queue s) ++ [ARemove x]))
  | ODelConn c =>
      (* ~ConnRef: removeObjectFromQueuedActions(this), disconnect both ends *)
      let s := mkst (heap s) (cset s) (active s) (aconns s)
                    (filter (fun t => negb (Nat.eqb c (fst (fst t)))) (attached s))
                    (filter (fun a => negb (Nat.eqb c (act_obj a))) (queue s))
                    (freed s) (bad s) (trans s) (alive s) in
      free_obj c s
  | OProcess => process fk s
  | ODestroy => destroy fl s
  end.

Definition run (fk fl : bool) (t : bool) (ops : list op) : st := fold_left (step fk fl) ops (init t).

(* ================================================================================================
   Checkpoint vertices (connector.cpp:156-163 ~ConnRef, 198-227 setRoutingCheckpoints, 1064-1070
   generateCheckpointsPath).  A layer over the core model above: the core state and the core ops are
   unchanged; the extended alphabet adds  XSetCP c k  = ConnRef::setRoutingCheckpoints with k points.

   Checkpoint VertInfs are heap objects of their own (id space separate from shapes / connectors; ids
   come from an allocation counter and are never reused) and are owned by the connector through
   `cpv` = all the ConnRef::m_checkpoint_vertices lists, in order.
     setRoutingCheckpoints: removeFromGraph + delete every old vertex of the connector, [clear the
       list], allocate k new vertices, append them; a polyline router then runs vertexVisibility on
       list entries 0..k-1.
     ~ConnRef (the only place a connector is freed): removeFromGraph + delete every vertex in its list.
     rerouting at the end of a processTransaction that did something: generateCheckpointsPath
       dereferences every vertex in the list of every active connector (over-approximation: the real
       code only does so for connectors whose route is invalid).
   Switch  fc = true: the list is cleared after the old vertices were freed (current code);
           fc = false: the freed vertices stay in the list (variant `clear()` dropped).
   `vbad` logs a dereference or a free of a checkpoint vertex that is not allocated. *)
Inductive xop := XCore (o : op) | XSetCP (c : nat) (k : nat).

Record xst := mkx {
  core : st;
  vheap : list nat;             (* allocated checkpoint vertices *)
  cpv : list (nat * nat);       (* (connector, vertex): the m_checkpoint_vertices lists *)
  vfreed : list nat;            (* history of checkpoint-vertex frees *)
  vbad : list nat;              (* use after free / double free of a checkpoint vertex *)
  vnext : nat;                  (* allocation counter *)
  poly : bool }.                (* Router::m_allows_polyline_routing *)

Definition xinit (t p : bool) : xst := mkx (init t) [] [] [] [] 0 p.

Definition set_core (x : xst) (s : st) : xst := mkx s (vheap x) (cpv x) (vfreed x) (vbad x) (vnext x) (poly x).
Definition set_cpv (x : xst) (l : list (nat * nat)) : xst :=
  mkx (core x) (vheap x) l (vfreed x) (vbad x) (vnext x) (poly x).

Definition vderef (v : nat) (x : xst) : xst :=
  if mem v (vheap x) then x
  else mkx (core x) (vheap x) (cpv x) (vfreed x) (v :: vbad x) (vnext x) (poly x).
Definition vfree (v : nat) (x : xst) : xst :=
  mkx (core x) (remove_nat v (vheap x)) (cpv x) (v :: vfreed x)
      (if mem v (vheap x) then vbad x else v :: vbad x) (vnext x) (poly x).
Definition vfree_all (l : list nat) (x : xst) : xst := fold_left (fun x v => vfree v x) l x.
Definition vderef_all (l : list nat) (x : xst) : xst := fold_left (fun x v => vderef v x) l x.

Definition owned_by (c : nat) (cv : nat * nat) : bool := Nat.eqb c (fst cv).
Definition cp_of (c : nat) (l : list (nat * nat)) : list nat := map snd (filter (owned_by c) l).

(* ConnRef::setRoutingCheckpoints(k points) *)
Definition set_cp (fc : bool) (x : xst) (c k : nat) : xst :=
  let x1 := vfree_all (cp_of c (cpv x)) x in
  let kept := if fc then filter (fun cv => negb (owned_by c cv)) (cpv x1) else cpv x1 in
  let new := seq (vnext x1) k in
  let x2 := mkx (core x1) (new ++ vheap x1) (kept ++ map (pair c) new) (vfreed x1) (vbad x1)
                (vnext x1 + k) (poly x1) in
  if poly x2 then vderef_all (firstn k (cp_of c (cpv x2))) x2 else x2.

(* ~ConnRef of every connector that has just been freed *)
Definition owner_live (x : xst) (cv : nat * nat) : bool := mem (fst cv) (heap (core x)).
Definition reap (x : xst) : xst :=
  let x1 := vfree_all (map snd (filter (fun cv => negb (owner_live x cv)) (cpv x))) x in
  set_cpv x1 (filter (owner_live x) (cpv x)).

(* rerouteAndCallbackConnectors: generateCheckpointsPath of the active connectors *)
Definition reroute (x : xst) : xst :=
  vderef_all (map snd (filter (fun cv => mem (fst cv) (aconns (core x))) (cpv x))) x.

(* does the (legal) core op o, applied in core state s, end in rerouteAndCallbackConnectors?
   processTransaction returns early on an empty action list; deleteConnector and ~Router do not route *)
Definition reroutes (s : st) (o : op) : bool :=
  match o with
  | OProcess => match queue s with [] => false | _ => true end
  | ODelConn _ | ODestroy => false
  | _ => negb (trans s)
  end.

Definition xlegal (x : xst) (o : xop) : bool :=
  match o with
  | XCore o => legal (core x) o
  | XSetCP c _ => alive (core x) && mem c (heap (core x)) && mem c (cset (core x))
  end.

Definition xstep (fk fl fc : bool) (x : xst) (o : xop) : xst :=
  if negb (xlegal x o) then x else
  match o with
  | XSetCP c k => set_cp fc x c k
  | XCore o =>
      let x1 := reap (set_core x (step fk fl (core x) o)) in
      if reroutes (core x) o then reroute x1 else x1
  end.

Definition xrun (fk fl fc : bool) (t p : bool) (ops : list xop) : xst :=
  fold_left (xstep fk fl fc) ops (xinit t p).

(* live checkpoint vertices per connector, as the router's vertex list shows them *)
Definition live_cp (x : xst) (c : nat) : nat := length (filter (fun v => mem v (vheap x)) (cp_of c (cpv x))).
