(* C06: Router's action queue (router.cpp:170-460 addShape / moveShape / deleteShape / modifyConnector and
   processActions :464-638) as a state machine (DESIGN 5.6).
     objs   every existing ShapeRef with its current polygon()  (a shape exists from its constructor until the
            transaction that processes its ShapeRemove),
     live   the ids in Router::m_obstacles (active obstacles),
     conns  connector id -> applied (source, destination) attachment points (None until first applied),
     queue  Router::actionList with its de-duplication rules,
     trans  m_consolidate_actions (setTransactionUse).
   Every C++ COLA_ASSERT precondition is a `None` result (the documented precondition "no add + delete of one shape in
   one transaction" is the assert in deleteShape).   Model file: no proofs (Avoid/ActionQueue.v). *)
From Adapt Require Import Num.Qaux.
Local Open Scope Z_scope.

Definition poly := list pt.
Definition translate (P : poly) (dx dy : Q) : poly := map (fun p => mkpt (px p + dx) (py p + dy)) P.

Inductive op :=
| AddShape (id : Z) (P : poly)
| MoveShape (id : Z) (dx dy : Q)
| MoveShapeTo (id : Z) (P : poly)
| DeleteShape (id : Z)
| AddConn (cid : Z) (s d : pt)
| MoveEndpoint (cid : Z) (dst_end : bool) (p : pt)
| Process.

Inductive action :=
| QMove (id : Z) (P : poly)                 (* ShapeMove   = 0 *)
| QAdd (id : Z)                             (* ShapeAdd    = 1 *)
| QRemove (id : Z)                          (* ShapeRemove = 2 *)
| QConn (cid : Z) (ups : list (bool * pt)). (* ConnChange  = 6 *)

Definition akind (a : action) : Z :=
  match a with QMove _ _ => 0 | QAdd _ => 1 | QRemove _ => 2 | QConn _ _ => 6 end.
Definition aid (a : action) : Z :=
  match a with QMove i _ => i | QAdd i => i | QRemove i => i | QConn i _ => i end.
(* ActionInfo::operator== : same type and same object *)
Definition same_key (k i : Z) (a : action) : bool := (akind a =? k) && (aid a =? i).
(* ActionInfo::operator< *)
Definition action_lt (a b : action) : bool :=
  if akind a =? akind b then aid a <? aid b else akind a <? akind b.

Record state := mkst {
  objs : list (Z * poly);
  live : list Z;
  conns : list (Z * (option pt * option pt));
  queue : list action;
  trans : bool
}.

Definition init (transactions : bool) : state := mkst [] [] [] [] transactions.

(* finite maps as association lists: first binding wins; set replaces every binding *)
Fixpoint lookup {A} (m : list (Z * A)) (k : Z) : option A :=
  match m with
  | [] => None
  | (k', v) :: r => if k' =? k then Some v else lookup r k
  end.
Definition remove_key {A} (m : list (Z * A)) (k : Z) : list (Z * A) := filter (fun kv => negb (fst kv =? k)) m.
Definition set_key {A} (m : list (Z * A)) (k : Z) (v : A) : list (Z * A) := (k, v) :: remove_key m k.
Definition has_key {A} (m : list (Z * A)) (k : Z) : bool := match lookup m k with Some _ => true | None => false end.

Definition queued (q : list action) (k i : Z) : bool := existsb (same_key k i) q.
Definition queued_move_poly (q : list action) (i : Z) : option poly :=
  match find (same_key 0 i) q with Some (QMove _ P) => Some P | _ => None end.

(* std::list::erase of the first match *)
Fixpoint erase_first (f : action -> bool) (q : list action) : list action :=
  match q with
  | [] => []
  | a :: r => if f a then r else a :: erase_first f r
  end.
(* found->newPoly = newPoly on the first match *)
Fixpoint replace_move (i : Z) (P : poly) (q : list action) : list action :=
  match q with
  | [] => []
  | a :: r => if same_key 0 i a then QMove i P :: r else a :: replace_move i P r
  end.

(* ActionInfo::addConnEndUpdate with isConnPinMoveUpdate = false *)
Fixpoint add_end_update (ups : list (bool * pt)) (w : bool) (p : pt) : list (bool * pt) :=
  match ups with
  | [] => [(w, p)]
  | (w', p') :: r => if Bool.eqb w' w then (w, p) :: r else (w', p') :: add_end_update r w p
  end.
Fixpoint update_conn_action (c : Z) (w : bool) (p : pt) (q : list action) : list action :=
  match q with
  | [] => []
  | a :: r => match a with
              | QConn c' ups => if c' =? c then QConn c' (add_end_update ups w p) :: r else a :: update_conn_action c w p r
              | _ => a :: update_conn_action c w p r
              end
  end.

(* ---- processActions *)
Fixpoint insert_sorted (a : action) (q : list action) : list action :=
  match q with
  | [] => [a]
  | b :: r => if action_lt b a then b :: insert_sorted a r else a :: b :: r
  end.
Definition sort_actions (q : list action) : list action := fold_right insert_sorted [] q.

(* first loop: moved and removed obstacles leave the graph (makeInactive); removed ones are freed *)
Definition pass_remove (st : list (Z * poly) * list Z) (a : action) : list (Z * poly) * list Z :=
  let '(o, l) := st in
  match a with
  | QRemove i => (remove_key o i, filter (fun j => negb (j =? i)) l)
  | QMove i _ => (o, filter (fun j => negb (j =? i)) l)
  | _ => st
  end.
(* third loop: added and moved obstacles (re-)enter (makeActive), moved ones take their new polygon (setNewPoly) *)
Definition pass_add (st : list (Z * poly) * list Z) (a : action) : list (Z * poly) * list Z :=
  let '(o, l) := st in
  match a with
  | QAdd i => (o, i :: l)
  | QMove i P => (set_key o i P, i :: l)
  | _ => st
  end.
Definition apply_end (e : option pt * option pt) (u : bool * pt) : option pt * option pt :=
  if fst u then (fst e, Some (snd u)) else (Some (snd u), snd e).
(* last loop: connector endpoint updates *)
Definition pass_conn (cs : list (Z * (option pt * option pt))) (a : action) : list (Z * (option pt * option pt)) :=
  match a with
  | QConn c ups => match lookup cs c with
                   | Some e => set_key cs c (fold_left apply_end ups e)
                   | None => cs
                   end
  | _ => cs
  end.

Definition process_actions (st : state) : state :=
  let q := sort_actions (queue st) in
  let '(o1, l1) := fold_left pass_remove q (objs st, live st) in
  let '(o2, l2) := fold_left pass_add q (o1, l1) in
  mkst o2 l2 (fold_left pass_conn q (conns st)) [] (trans st).

(* Router::processTransaction: returns false and does nothing on an empty action list *)
Definition process_transaction (st : state) : state * bool :=
  match queue st with
  | [] => (st, false)
  | _ => (process_actions st, true)
  end.

Definition auto_process (st : state) : state := if trans st then st else fst (process_transaction st).

Definition set_queue (st : state) (q : list action) : state := mkst (objs st) (live st) (conns st) q (trans st).
Definition set_objs (st : state) (o : list (Z * poly)) : state := mkst o (live st) (conns st) (queue st) (trans st).
Definition set_conns (st : state) (c : list (Z * (option pt * option pt))) : state := mkst (objs st) (live st) c (queue st) (trans st).

Definition push_unless_queued (q : list action) (a : action) : list action :=
  if queued q (akind a) (aid a) then q else q ++ [a].

(* Router::moveShape(shape, newPoly) *)
Definition same_size (st : state) (i : Z) (P : poly) : bool :=
  match lookup (objs st) i with Some P0 => (length P0 =? length P)%nat | None => false end.
Definition do_move_to (st : state) (i : Z) (P : poly) : option state :=
  if negb (has_key (objs st) i) || queued (queue st) 2 i then None      (* assert: no ShapeRemove queued *)
  else if negb (same_size st i P) then None   (* Obstacle::setNewPoly asserts m_polygon.size() == poly.size() (obstacle.cpp:103) *)
  else if queued (queue st) 1 i then Some (set_objs st (set_key (objs st) i P))   (* pending add: rewrite its polygon, return *)
  else if queued (queue st) 0 i then Some (auto_process (set_queue st (replace_move i P (queue st))))
  else Some (auto_process (set_queue st (queue st ++ [QMove i P]))).

Definition step (st : state) (o : op) : option state :=
  match o with
  | AddShape i P =>
      (* ShapeRef constructor -> Router::addShape; asserts: no ShapeRemove / ShapeMove queued for it *)
      if has_key (objs st) i || queued (queue st) 2 i || queued (queue st) 0 i then None
      else Some (auto_process (set_queue (set_objs st (set_key (objs st) i P)) (push_unless_queued (queue st) (QAdd i))))
  | MoveShapeTo i P => do_move_to st i P
  | MoveShape i dx dy =>
      (* relative move: starts from the queued polygon if a move is pending, else from polygon() *)
      match (match queued_move_poly (queue st) i with Some P => Some P | None => lookup (objs st) i end) with
      | Some base => do_move_to st i (translate base dx dy)
      | None => None
      end
  | DeleteShape i =>
      (* assert: no ShapeAdd queued (add + delete in one transaction); a pending move is erased *)
      if negb (has_key (objs st) i) || queued (queue st) 1 i || queued (queue st) 2 i then None
      else Some (auto_process (set_queue st (push_unless_queued (erase_first (same_key 0 i) (queue st)) (QRemove i))))
  | AddConn c s d =>
      if has_key (conns st) c then None
      else Some (auto_process (set_queue (set_conns st (set_key (conns st) c (None, None)))
                                         (queue st ++ [QConn c [(false, s); (true, d)]])))
  | MoveEndpoint c w p =>
      if negb (has_key (conns st) c) then None
      else if queued (queue st) 6 c then Some (auto_process (set_queue st (update_conn_action c w p (queue st))))
      else Some (auto_process (set_queue st (queue st ++ [QConn c [(w, p)]])))
  | Process => Some (fst (process_transaction st))
  end.

Fixpoint run (st : state) (h : list op) : option state :=
  match h with
  | [] => Some st
  | o :: r => match step st o with Some st' => run st' r | None => None end
  end.

(* the router's scene: active shapes with their polygons *)
Definition scene (st : state) : list (Z * poly) :=
  flat_map (fun i => match lookup (objs st) i with Some P => [(i, P)] | None => [] end) (live st).

(* ---- the sequential ("apply each edit at once") semantics the queue has to refine *)
Record sscene := mkss { s_shapes : list (Z * poly); s_conns : list (Z * (option pt * option pt)) }.
Definition seq_step (sc : sscene) (o : op) : sscene :=
  match o with
  | AddShape i P => mkss (set_key (s_shapes sc) i P) (s_conns sc)
  | MoveShapeTo i P => mkss (set_key (s_shapes sc) i P) (s_conns sc)
  | MoveShape i dx dy => match lookup (s_shapes sc) i with
                         | Some P => mkss (set_key (s_shapes sc) i (translate P dx dy)) (s_conns sc)
                         | None => sc
                         end
  | DeleteShape i => mkss (remove_key (s_shapes sc) i) (s_conns sc)
  | AddConn c s d => mkss (s_shapes sc) (set_key (s_conns sc) c (Some s, Some d))
  | MoveEndpoint c w p => match lookup (s_conns sc) c with
                          | Some e => mkss (s_shapes sc) (set_key (s_conns sc) c (apply_end e (w, p)))
                          | None => sc
                          end
  | Process => sc
  end.
Definition seq_run (h : list op) : sscene := fold_left seq_step h (mkss [] []).

(* ---- observation for the correspondence: after each Process of a history, (scene sorted by id is left to the
        driver) the scene, the connectors, whether the queue is empty.  None = a precondition was violated. *)
Fixpoint observe (st : state) (h : list op) : list (option (list (Z * poly) * list (Z * (option pt * option pt)) * bool)) :=
  match h with
  | [] => []
  | o :: r => match step st o with
              | Some st' => match o with
                            | Process => Some (scene st', conns st', match queue st' with [] => true | _ => false end) :: observe st' r
                            | _ => observe st' r
                            end
              | None => [None]
              end
  end.

(* ---- the selective-reroute estimate of markPolylineConnectorsNeedingReroutingForDeletedObstacle (router.cpp:1818-2012)
   for an axis-parallel shape edge, in the code's normalised frame: the edge lies on the line y = 0 between x = mn and
   x = mx, start = (a, b), end = (c, d) with b, d the signed offsets from the edge's line.
     x* = (b c + a d) / (b + d)      (the point where the path start -> edge -> end reflects), clamped to [mn, mx]
     estdist = |start - (x*,0)| + |(x*,0) - end|,  connector flagged iff estdist < its route length (m_route_dist). *)
Local Open Scope Q_scope.
Definition reflect_x (a b c d : Q) : Q := (b * c + a * d) / (b + d).
Definition reflect_x_clamped (a b c d mn mx : Q) : Q := Qmin' mx (Qmax' mn (reflect_x a b c d)).
(* squared length of the straight segment from the mirrored start (a, -b) to the end (c, d) *)
Definition reflect_est_sq (a b c d : Q) : Q := (c - a) * (c - a) + (b + d) * (b + d).
