(* Proofs for Avoid/SegPolyModel.v: the clipping decider is exact, hence seg_clear / route_ok are sound and
   complete for "no point of the (closed) segment lies strictly inside the convex polygon". *)
From Adapt Require Import Num.Qaux Geom.GeomSpec Geom.GeomSpecDec Avoid.SegPolyModel.
Local Open Scope Q_scope.

Lemma Qmax'_lt a b t : Qmax' a b < t <-> a < t /\ b < t.
Proof. unfold Qmax'. qcase; qb2p; split; intros; try split; try tauto; lra. Qed.
Lemma Qmin'_gt a b t : t < Qmin' a b <-> t < a /\ t < b.
Proof. unfold Qmin'. qcase; qb2p; split; intros; try split; try tauto; lra. Qed.

Lemma div_lt_pos c0 c1 t : 0 < c1 -> (- c0 / c1 < t <-> 0 < c0 + t * c1).
Proof.
  intros H. split; intro L.
  - assert (E : c0 + t * c1 == (t - (- c0 / c1)) * c1) by (field; lra).
    rewrite E. apply Qmult_lt_0_compat; lra.
  - apply Qlt_shift_div_r; lra.
Qed.
Lemma div_gt_neg c0 c1 t : c1 < 0 -> (t < - c0 / c1 <-> 0 < c0 + t * c1).
Proof.
  intros H.
  assert (E : - c0 / c1 == c0 / (- c1)) by (field; lra). rewrite E.
  split; intro L.
  - assert (E2 : c0 + t * c1 == (c0 / (- c1) - t) * (- c1)) by (field; lra).
    rewrite E2. apply Qmult_lt_0_compat; lra.
  - apply Qlt_shift_div_l; lra.
Qed.

Definition feas (cs : list (Q * Q)) (t : Q) : Prop := forall c, In c cs -> 0 < fst c + t * snd c.

Lemma clip_spec cs : forall lo hi,
  clip cs lo hi = true <-> exists t, lo < t /\ t < hi /\ feas cs t.
Proof.
  induction cs as [|[c0 c1] r IH]; intros lo hi; cbn [clip].
  - rewrite Qltb_spec. split.
    + intro H. exists ((lo + hi) / 2). repeat split.
      * apply Qlt_shift_div_l; lra.
      * apply Qlt_shift_div_r; lra.
      * intros c [].
    + intros (t & H1 & H2 & _). lra.
  - destruct (Qltb 0 c1) eqn:E1; [|destruct (Qltb c1 0) eqn:E2]; qb2p.
    + rewrite IH. split; intros (t & H1 & H2 & H3); exists t.
      * apply Qmax'_lt in H1. destruct H1 as [H1 H1']. apply div_lt_pos in H1'; [|assumption].
        repeat split; try assumption. intros c [<-|Hc]; cbn [fst snd]; auto.
      * repeat split; try assumption.
        -- apply Qmax'_lt. split; [assumption|]. apply div_lt_pos; [assumption|].
           apply (H3 (c0, c1)). left; reflexivity.
        -- intros c Hc. apply H3. right; assumption.
    + rewrite IH. split; intros (t & H1 & H2 & H3); exists t.
      * apply Qmin'_gt in H2. destruct H2 as [H2 H2']. apply div_gt_neg in H2'; [|assumption].
        repeat split; try assumption. intros c [<-|Hc]; cbn [fst snd]; auto.
      * repeat split; try assumption.
        -- apply Qmin'_gt. split; [assumption|]. apply div_gt_neg; [assumption|].
           apply (H3 (c0, c1)). left; reflexivity.
        -- intros c Hc. apply H3. right; assumption.
    + assert (Ez : c1 == 0) by lra.
      rewrite andb_true_iff, IH, Qltb_spec. split.
      * intros [H0 (t & H1 & H2 & H3)]. exists t. repeat split; try assumption.
        intros c [<-|Hc]; cbn [fst snd]; auto. rewrite Ez. lra.
      * intros (t & H1 & H2 & H3). split.
        -- specialize (H3 (c0, c1) (or_introl eq_refl)). cbn [fst snd] in H3. rewrite Ez in H3. lra.
        -- exists t. repeat split; try assumption. intros c Hc. apply H3. right; assumption.
Qed.

Lemma cross_lerp e u v t :
  cross (fst e) (snd e) (lerp u v t) == edge_c0 e u + t * edge_c1 e u v.
Proof. unfold cross, lerp, edge_c0, edge_c1, cross; cbn [px py]. ring. Qed.

Lemma feas_seg_constraints P u v t :
  feas (seg_constraints P u v) t <-> strictly_inside_all_edges P (lerp u v t).
Proof.
  unfold feas, seg_constraints, strictly_inside_all_edges. split.
  - intros H e He. rewrite cross_lerp.
    apply (H (edge_c0 e u, edge_c1 e u v)). apply in_map_iff. exists e. auto.
  - intros H c Hc. apply in_map_iff in Hc. destruct Hc as (e & <- & He). cbn [fst snd].
    rewrite <- cross_lerp. auto.
Qed.

(* the decider is exact *)
Theorem through_interior_spec P u v :
  through_interior P u v = true <->
  exists t, 0 < t /\ t < 1 /\ strictly_inside_all_edges P (lerp u v t).
Proof.
  unfold through_interior. rewrite clip_spec. split; intros (t & H0 & H1 & H); exists t;
    repeat split; try assumption; apply feas_seg_constraints; assumption.
Qed.

Lemma inside_strict_spec P q : inside_strict P q = true <-> strictly_inside_all_edges P q.
Proof.
  unfold inside_strict, strictly_inside_all_edges. rewrite forallb_forall.
  split; intros H e He; specialize (H e He); apply Qltb_spec; assumption.
Qed.
Lemma inside_closed_spec P q : inside_closed P q = true <-> inside_all_edges P q.
Proof.
  unfold inside_closed, inside_all_edges. rewrite forallb_forall.
  split; intros H e He; specialize (H e He); apply Qleb_spec; assumption.
Qed.

Lemma strictly_inside_pt_eq P q q' : pt_eq q q' -> strictly_inside_all_edges P q -> strictly_inside_all_edges P q'.
Proof.
  intros [Ex Ey] H e He. specialize (H e He). unfold cross in *. rewrite <- Ex, <- Ey. exact H.
Qed.

Lemma lerp_0 u v : pt_eq (lerp u v 0) u.
Proof. unfold lerp, pt_eq; cbn [px py]. split; ring. Qed.
Lemma lerp_1 u v : pt_eq (lerp u v 1) v.
Proof. unfold lerp, pt_eq; cbn [px py]. split; ring. Qed.
Lemma lerp_t_eq u v t t' : t == t' -> pt_eq (lerp u v t) (lerp u v t').
Proof. intro E. unfold lerp, pt_eq; cbn [px py]. rewrite E. split; reflexivity. Qed.

(* no point of the closed segment uv lies strictly inside P *)
Definition segment_avoids (P : list pt) (u v : pt) : Prop :=
  forall t, 0 <= t -> t <= 1 -> ~ strictly_inside_all_edges P (lerp u v t).

Theorem seg_clear_spec P u v : seg_clear P u v = true <-> segment_avoids P u v.
Proof.
  unfold seg_clear, segment_avoids.
  rewrite !andb_true_iff, !negb_true_iff, <- !not_true_iff_false,
          through_interior_spec, !inside_strict_spec.
  split.
  - intros [[H1 H2] H3] t Ht0 Ht1 Hin.
    destruct (Qeq_dec t 0) as [E0|N0].
    + apply H2. apply (strictly_inside_pt_eq P (lerp u v t)); [|assumption].
      destruct (lerp_t_eq u v t 0 E0), (lerp_0 u v). split; lra.
    + destruct (Qeq_dec t 1) as [E1|N1].
      * apply H3. apply (strictly_inside_pt_eq P (lerp u v t)); [|assumption].
        destruct (lerp_t_eq u v t 1 E1), (lerp_1 u v). split; lra.
      * apply H1. exists t. repeat split; try assumption; lra.
  - intros H. repeat split.
    + intros (t & H0 & H1 & Hin). apply (H t); try lra. assumption.
    + intro Hin. apply (H 0); try lra.
      apply (strictly_inside_pt_eq P u); [|assumption].
      destruct (lerp_0 u v). split; lra.
    + intro Hin. apply (H 1); try lra.
      apply (strictly_inside_pt_eq P v); [|assumption].
      destruct (lerp_1 u v). split; lra.
Qed.

Lemma In_consecutive_nth {A} (l : list A) a b :
  In (a, b) (consecutive l) -> exists l1 l2, l = l1 ++ a :: b :: l2.
Proof.
  unfold consecutive. induction l as [|x l IH]; cbn [tl combine]; [intros []|].
  destruct l as [|y l']; cbn [combine]; [intros []|].
  intros [E|H].
  - inversion E; subst. exists [], l'. reflexivity.
  - destruct (IH H) as (l1 & l2 & E). exists (x :: l1), l2. rewrite E. reflexivity.
Qed.

Lemma consecutive_app {A} (l1 l2 : list A) a b : In (a, b) (consecutive (l1 ++ a :: b :: l2)).
Proof.
  unfold consecutive. induction l1 as [|x l1 IH]; cbn [app tl combine].
  - left; reflexivity.
  - destruct (l1 ++ a :: b :: l2) eqn:E.
    + destruct l1; discriminate.
    + cbn [combine tl] in *. right. exact IH.
Qed.

(* route validity, declaratively (the statement of C03 for one connector) *)
Definition route_valid (shapes : list (list pt)) (s d : pt) (r : list pt) : Prop :=
  (2 <= length r)%nat /\ pt_eq (hd s r) s /\ pt_eq (last r d) d /\
  forall P a b, In P shapes ->
    ~ strictly_inside_all_edges P s -> ~ strictly_inside_all_edges P d ->
    In (a, b) (consecutive r) -> segment_avoids P a b.

Theorem route_ok_spec shapes s d r : route_ok shapes s d r = true <-> route_valid shapes s d r.
Proof.
  unfold route_ok, route_valid, segs_clear, obstacles.
  rewrite !andb_true_iff, Nat.leb_le, !pt_eqb_spec, forallb_forall.
  split.
  - intros [[[H1 H2] H3] H4]. split; [|split; [|split]]; try assumption.
    intros P a b HP Hs Hd Hab. specialize (H4 (a, b) Hab). rewrite forallb_forall in H4.
    apply seg_clear_spec. apply (H4 P). apply filter_In. split; [assumption|].
    rewrite negb_true_iff, orb_false_iff, <- !not_true_iff_false, !inside_strict_spec. tauto.
  - intros (H1 & H2 & H3 & H4). split; [split; [split|]|]; try assumption.
    intros [a b] Hab. rewrite forallb_forall. intros P HP. apply filter_In in HP. destruct HP as [HP Hex].
    rewrite negb_true_iff, orb_false_iff, <- !not_true_iff_false, !inside_strict_spec in Hex.
    apply seg_clear_spec. apply H4; tauto.
Qed.

(* ---- non-vacuity: the unit-10 square in libavoid's rectangle order *)
Definition sq10 : list pt := [mkpt 10 0; mkpt 10 10; mkpt 0 10; mkpt 0 0].
Example through_interior_diag : through_interior sq10 (mkpt (-5) (-5)) (mkpt 15 15) = true.
Proof. vm_compute. reflexivity. Qed.
Example through_interior_side : through_interior sq10 (mkpt 0 (-5)) (mkpt 0 15) = false.
Proof. vm_compute. reflexivity. Qed.
Example seg_clear_corner : seg_clear sq10 (mkpt (-5) 5) (mkpt 5 15) = true.
Proof. vm_compute. reflexivity. Qed.
Example route_ok_detour :
  route_ok [sq10] (mkpt (-5) (-5)) (mkpt 15 15) [mkpt (-5) (-5); mkpt 10 0; mkpt 15 15] = true.
Proof. vm_compute. reflexivity. Qed.
Example route_ok_straight_rejected :
  route_ok [sq10] (mkpt (-5) (-5)) (mkpt 15 15) [mkpt (-5) (-5); mkpt 15 15] = false.
Proof. vm_compute. reflexivity. Qed.
Example degenerate_chord_diag : degenerate_chord sq10 (mkpt (-5) (-5)) (mkpt 15 15) = true.
Proof. vm_compute. reflexivity. Qed.
Example degenerate_chord_not : degenerate_chord sq10 (mkpt (-5) (-4)) (mkpt 15 15) = false.
Proof. vm_compute. reflexivity. Qed.
Example convex_sq10 : convex_ccw sq10 = true.
Proof. vm_compute. reflexivity. Qed.

(* ---- the unconditional core of route_ok (no containment exemption): used on hyperedge scenes, where every attachment
   (free junction, free terminal point) is generated in free space and the improver may move the junction end *)
Theorem segs_clear_spec obst r :
  segs_clear obst r = true <->
  forall P a b, In P obst -> In (a, b) (consecutive r) -> segment_avoids P a b.
Proof.
  unfold segs_clear. rewrite forallb_forall. split.
  - intros H P a b HP Hab. specialize (H (a, b) Hab). rewrite forallb_forall in H.
    apply seg_clear_spec. exact (H P HP).
  - intros H [a b] Hab. rewrite forallb_forall. intros P HP.
    apply seg_clear_spec. cbn [fst snd]. exact (H P a b HP Hab).
Qed.

(* with both attachments outside every shape's interior route_ok is: joins the ends + segs_clear over ALL shapes *)
Lemma obstacles_all_when_free shapes s d :
  (forall P, In P shapes -> inside_strict P s = false /\ inside_strict P d = false) -> obstacles shapes s d = shapes.
Proof.
  intro H. unfold obstacles. induction shapes as [|P l IH]; [reflexivity|].
  cbn [filter]. destruct (H P (or_introl eq_refl)) as [Hs Hd]. rewrite Hs, Hd. cbn [orb negb].
  f_equal. apply IH. intros Q HQ. apply H. right. exact HQ.
Qed.

Example segs_clear_through_rejected : segs_clear [sq10] [mkpt 5 (-5); mkpt 5 15] = false.
Proof. vm_compute. reflexivity. Qed.
Example segs_clear_around_accepted : segs_clear [sq10] [mkpt 5 (-5); mkpt 12 (-5); mkpt 12 15; mkpt 5 15] = true.
Proof. vm_compute. reflexivity. Qed.
