(* C03: libavoid's blocking test, stated over the cpp2v-generated predicates (Gen/Geometry.v, regenerated from
   geometry.cpp on every run).
     blocked_by_shape       the per-shape loop of EdgeInf::firstBlocker (graph.cpp) / Router::newBlockingShape (router.cpp):
                            segmentShapeIntersect on every shape edge, seenIntersectionAtEndpoint reset per shape
     blocked_char           = "some edge is properly crossed, or at least two edges are touched at a segment endpoint"
                            (so the order in which the two loops visit the edges is irrelevant)
     blocked_complete_partial  a segment through the interior of the shape whose chord is not degenerate is blocked
     blocked_refuted        the degenerate chord: square (0,0)-(10,10), segment (-5,-5)-(15,15) runs through the
                            interior and is NOT blocked   (DESIGN 6 F-b, replayed on the real router by the checks)
     inValidRegion_eq_spec  the cone test used by checkVis equals the spec decider the reference router uses *)
From Adapt Require Import Num.Qaux Geom.GeomSpec Geom.GeomSpecDec Gen.Geometry Geom.GeomProofs
     Avoid.SegPolyModel Avoid.SegPoly Avoid.RefRouterModel.
Local Open Scope Q_scope.

(* one shape: edges in visiting order, flag threaded through, early exit on the first "intersects" *)
Fixpoint blocked_edges (e1 e2 : pt) (es : list (pt * pt)) (seen : bool) : bool :=
  match es with
  | [] => false
  | (s1, s2) :: r =>
      let '(b, seen') := segmentShapeIntersect e1 e2 s1 s2 seen in
      if b then true else blocked_edges e1 e2 r seen'
  end.

(* EdgeInf::firstBlocker visits (k->shPrev, k) for every vertex k of the shape *)
Definition blocked_by_shape (e1 e2 : pt) (P : list pt) : bool := blocked_edges e1 e2 (poly_edges P) false.
(* Router::newBlockingShape visits (poly[i], poly[i+1 mod n]) *)
Definition next_edges (P : list pt) : list (pt * pt) :=
  match P with [] => [] | p0 :: r => combine P (r ++ [p0]) end.
Definition blocked_by_new_shape (e1 e2 : pt) (P : list pt) : bool := blocked_edges e1 e2 (next_edges P) false.

(* the endpoint-touch condition of segmentShapeIntersect *)
Definition touches (e1 e2 : pt) (e : pt * pt) : bool :=
  let '(s1, s2) := e in
  ((Point_eq s2 e1 || pointOnLine s1 s2 e1 (inject_Z 0)) && negb (Z.eqb (vecDir s1 s2 e2 (inject_Z 0)) 0)) ||
  ((Point_eq s2 e2 || pointOnLine s1 s2 e2 (inject_Z 0)) && negb (Z.eqb (vecDir s1 s2 e1 (inject_Z 0)) 0)).
Definition crosses (e1 e2 : pt) (e : pt * pt) : bool := segmentIntersect e1 e2 (fst e) (snd e).

Lemma segmentShapeIntersect_cases e1 e2 s1 s2 seen :
  segmentShapeIntersect e1 e2 s1 s2 seen =
  if crosses e1 e2 (s1, s2) then (true, seen)
  else if touches e1 e2 (s1, s2) then (if seen then (true, seen) else (false, true))
  else (false, seen).
Proof.
  unfold segmentShapeIntersect, crosses, touches. cbn [fst snd].
  destruct (segmentIntersect e1 e2 s1 s2); [reflexivity|].
  match goal with |- context [if ?c then _ else _] => destruct c end; [|reflexivity].
  destruct seen; reflexivity.
Qed.

Definition touch_count (e1 e2 : pt) (es : list (pt * pt)) : nat :=
  length (filter (fun e => negb (crosses e1 e2 e) && touches e1 e2 e) es).

Theorem blocked_char e1 e2 es : forall seen,
  blocked_edges e1 e2 es seen =
  existsb (crosses e1 e2) es || (2 <=? touch_count e1 e2 es + (if seen then 1 else 0))%nat.
Proof.
  induction es as [|[s1 s2] r IH]; intro seen.
  - cbn. destruct seen; reflexivity.
  - cbn [blocked_edges existsb]. rewrite segmentShapeIntersect_cases.
    unfold touch_count in *. cbn [filter].
    destruct (crosses e1 e2 (s1, s2)) eqn:C; cbn [negb andb orb]; [reflexivity|].
    destruct (touches e1 e2 (s1, s2)) eqn:T.
    + destruct seen.
      * symmetry. apply orb_true_iff. right. apply Nat.leb_le. cbn [length]. lia.
      * rewrite IH. cbn [length]. f_equal. f_equal. lia.
    + rewrite IH. reflexivity.
Qed.

(* the two loops visit the same edges, rotated by one, so they agree *)
Lemma last_dflt {A} (l : list A) d d' : l <> [] -> last l d = last l d'.
Proof.
  induction l as [|x l IH]; [congruence|]. intros _. destruct l as [|y l]; [reflexivity|].
  cbn [last] in *. apply IH. discriminate.
Qed.

Lemma combine_shift (l : list pt) : forall a x,
  combine (a :: l) (l ++ [x]) = combine (removelast (a :: l)) l ++ [(last (a :: l) a, x)].
Proof.
  induction l as [|b l IH]; intros a x.
  - reflexivity.
  - change (removelast (a :: b :: l)) with (a :: removelast (b :: l)).
    change (last (a :: b :: l) a) with (last (b :: l) a).
    rewrite (last_dflt (b :: l) a b) by discriminate.
    change ((b :: l) ++ [x]) with (b :: (l ++ [x])).
    change (combine (a :: b :: l) (b :: l ++ [x])) with ((a, b) :: combine (b :: l) (l ++ [x])).
    rewrite IH. reflexivity.
Qed.

Lemma next_edges_rot p0 r :
  next_edges (p0 :: r) = tl (poly_edges (p0 :: r)) ++ [hd (p0, p0) (poly_edges (p0 :: r))].
Proof.
  unfold next_edges, poly_edges. rewrite combine_shift.
  change (combine (last (p0 :: r) p0 :: removelast (p0 :: r)) (p0 :: r))
    with ((last (p0 :: r) p0, p0) :: combine (removelast (p0 :: r)) r).
  reflexivity.
Qed.

Lemma existsb_rot {A} (f : A -> bool) (a : A) l : existsb f (l ++ [a]) = existsb f (a :: l).
Proof. rewrite existsb_app. cbn. rewrite orb_false_r. apply orb_comm. Qed.
Lemma filter_len_rot {A} (f : A -> bool) (a : A) l : length (filter f (l ++ [a])) = length (filter f (a :: l)).
Proof. rewrite filter_app, app_length. cbn [filter]. destruct (f a); cbn [length]; lia. Qed.

Theorem blocked_order_irrelevant e1 e2 P : blocked_by_new_shape e1 e2 P = blocked_by_shape e1 e2 P.
Proof.
  unfold blocked_by_new_shape, blocked_by_shape. rewrite !blocked_char.
  destruct P as [|p0 r]; [reflexivity|].
  rewrite next_edges_rot.
  destruct (poly_edges (p0 :: r)) as [|e es] eqn:E; [unfold poly_edges in E; cbn [combine] in E; discriminate|].
  cbn [tl hd]. unfold touch_count. rewrite existsb_rot, filter_len_rot. reflexivity.
Qed.

(* ---- completeness on non-degenerate chords *)
Lemma crosses_spec e1 e2 e : crosses e1 e2 e = spec_segmentIntersect e1 e2 (fst e) (snd e).
Proof. apply segmentIntersect_eq_spec. Qed.

Theorem blocked_if_properly_crossed e1 e2 P :
  (exists e, In e (poly_edges P) /\ properly_cross e1 e2 (fst e) (snd e)) -> blocked_by_shape e1 e2 P = true.
Proof.
  intros (e & He & Hc). unfold blocked_by_shape. rewrite blocked_char.
  apply orb_true_iff. left. apply existsb_exists. exists e. split; [assumption|].
  unfold crosses. apply segmentIntersect_spec. assumption.
Qed.

Lemma forallb_false_ex {A} (f : A -> bool) l : forallb f l = false -> exists x, In x l /\ f x = false.
Proof.
  induction l as [|a l IH]; [discriminate|]. cbn [forallb]. intro H. apply andb_false_iff in H.
  destruct H as [H|H]; [exists a; split; [left; reflexivity|assumption]|].
  destruct (IH H) as (x & Hx & Hf). exists x. split; [right; assumption|assumption].
Qed.

(* PARTIAL (closed in Avoid/BlockingComplete.v: degenerate_chord_exact, blocked_complete, boundary_vertices_iff; the
   converse - blocked implies through the interior - is Avoid/BlockingSound.v).
   Proved here: a segment that runs through the interior of P, has no endpoint strictly inside P and is not
   classified `degenerate_chord` (SegPolyModel: "no edge of P is properly crossed") is blocked - by both loops.
   Missing for the full geometric statement: that for a convex P "no edge is properly crossed by a segment through the
   interior with endpoints outside" is the same as "the segment meets the boundary only at vertices of P and/or at its
   own endpoints" (needs a convexity development: the two boundary points of the chord, each lying on an edge). *)
Theorem blocked_complete_partial e1 e2 P :
  through_interior P e1 e2 = true -> inside_strict P e1 = false -> inside_strict P e2 = false ->
  degenerate_chord P e1 e2 = false ->
  blocked_by_shape e1 e2 P = true /\ blocked_by_new_shape e1 e2 P = true.
Proof.
  intros Ht H1 H2 Hd. rewrite blocked_order_irrelevant.
  assert (B : blocked_by_shape e1 e2 P = true); [|split; exact B].
  unfold degenerate_chord in Hd. rewrite Ht, H1, H2 in Hd. cbn [negb andb] in Hd.
  unfold blocked_by_shape. rewrite blocked_char. apply orb_true_iff. left.
  apply existsb_exists.
  destruct (forallb_false_ex _ _ Hd) as (e & He & Hn).
  exists e. split; [assumption|]. rewrite crosses_spec. apply negb_false_iff. exact Hn.
Qed.

(* ---- the refutation: the degenerate chord of DESIGN 6 F-b *)
Definition passes_through_interior (P : list pt) (e1 e2 : pt) : Prop :=
  exists t, 0 < t /\ t < 1 /\ strictly_inside_all_edges P (lerp e1 e2 t).

Theorem blocked_refuted :
  exists P e1 e2, convex_ccw P = true /\ inside_closed P e1 = false /\ inside_closed P e2 = false /\
                  passes_through_interior P e1 e2 /\
                  blocked_by_shape e1 e2 P = false /\ blocked_by_new_shape e1 e2 P = false.
Proof.
  exists sq10, (mkpt (-5) (-5)), (mkpt 15 15).
  split; [vm_compute; reflexivity|]. split; [vm_compute; reflexivity|]. split; [vm_compute; reflexivity|].
  split; [apply through_interior_spec; vm_compute; reflexivity|].
  split; vm_compute; reflexivity.
Qed.

(* non-vacuity of blocked_complete_partial: a chord through the same square that properly crosses two sides *)
Example blocked_complete_nonvacuous :
  through_interior sq10 (mkpt (-5) 4) (mkpt 15 6) = true /\ inside_strict sq10 (mkpt (-5) 4) = false /\
  inside_strict sq10 (mkpt 15 6) = false /\ degenerate_chord sq10 (mkpt (-5) 4) (mkpt 15 6) = false /\
  blocked_by_shape (mkpt (-5) 4) (mkpt 15 6) sq10 = true.
Proof. repeat split; vm_compute; reflexivity. Qed.
(* one endpoint touch is allowed once per shape (a route may start on a shape's boundary) ... *)
Example blocked_touch_once : blocked_by_shape (mkpt 5 0) (mkpt 5 (-7)) sq10 = false.
Proof. vm_compute. reflexivity. Qed.
(* ... but entering through a side after touching is blocked *)
Example blocked_touch_then_cross : blocked_by_shape (mkpt 5 0) (mkpt 5 17) sq10 = true.
Proof. vm_compute. reflexivity. Qed.

(* ---- the cone test *)
Theorem inValidRegion_eq_spec ig a0 a1 a2 b :
  inValidRegion ig a0 a1 a2 b = spec_inValidRegion ig a0 a1 a2 b.
Proof.
  unfold inValidRegion, spec_inValidRegion. rewrite !vecDir_cross'.
  rewrite Z.gtb_ltb. reflexivity.
Qed.

(* with IgnoreRegions (the router's default) a reflex / straight corner admits no edge at all, and at a convex corner
   the admitted region is the union of the two "tangent" half-open wedges *)
Example inValidRegion_tangent : inValidRegion true (mkpt 0 0) (mkpt 10 0) (mkpt 10 10) (mkpt 20 5) = true.
Proof. vm_compute. reflexivity. Qed.
Example inValidRegion_both_sides_visible : inValidRegion true (mkpt 0 0) (mkpt 10 0) (mkpt 10 10) (mkpt 20 (-5)) = false.
Proof. vm_compute. reflexivity. Qed.
