(* The reference router never answers SearchFail (C03 / C04): its two graphs satisfy the hypotheses of
   cert_dijkstra_total (Avoid/CertDijkstraTotal.v) - edges stay inside the node set, weights are floor-sqrt lengths
   (>= 0) plus non-negative turn penalties, and there is at most one edge between two states.
     route_plain_total      route_plain shapes s d <> SearchFail
     route_taut_total       0 <= pen -> route_taut pen shapes s d <> SearchFail
     C04_model_decides      the model either returns a shortest path of the exact visibility graph, or NoPath and the
                            visibility graph has no path at all   (Fail no longer excluded)
     C04_model_decides_taut the same for the penalised search over the taut class
     route_is_graph_path_total *)
From Coq Require Import Qround FinFun.
From Adapt Require Import Num.Qaux Geom.GeomSpec Geom.GeomSpecDec Avoid.SegPolyModel Avoid.SegPoly
     Avoid.CertDijkstraModel Avoid.CertDijkstra Avoid.CertDijkstraTotal Avoid.RefRouterModel Avoid.RefRouter.
Local Open Scope Z_scope.

Lemma lenZ_nonneg p q : 0 <= lenZ p q.
Proof. unfold lenZ. apply Z.sqrt_nonneg. Qed.

Lemma turn_cost_nonneg pen p u v : 0 <= pen -> 0 <= turn_cost pen p u v.
Proof. intro H. unfold turn_cost. destruct (negb _); [assumption|]. destruct (Qltb _ _); lia. Qed.

Lemma NoDup_flat_map_opt {A} (g : nat -> nat) (c : nat -> bool) (w : nat -> A) l :
  NoDup (map g l) -> NoDup (map fst (flat_map (fun v => if c v then [(g v, w v)] else []) l)).
Proof.
  induction l as [|v l IH]; intro ND; [constructor|].
  cbn [map] in ND. inversion ND as [|? ? Hni ND']; subst. cbn [flat_map].
  destruct (c v); [|apply IH; assumption]. cbn [app map fst]. constructor; [|apply IH; assumption].
  intro Hin. apply Hni. apply in_map_iff in Hin. destruct Hin as ([a b] & E & Hin). cbn [fst] in E. subst a.
  apply in_flat_map in Hin. destruct Hin as (v' & Hv' & Hin). destruct (c v'); [|destruct Hin].
  destruct Hin as [Hin|[]]. inversion Hin. apply in_map_iff. exists v'. split; [congruence|assumption].
Qed.

(* ---------------------------------------------------------------- plain graph *)
Section PlainTotal.
Variables (shapes : list (list pt)) (s d : pt).
Let obst := obstacles shapes s d.
Let V := verts shapes s d.
Let n := length V.
Let vt := mk_tab n (vis_edge obst V).
Let lt := mk_tab n (fun u v => lenZ (vpt V u) (vpt V v)).

Lemma plain_wf u v w : (u < n)%nat -> In (v, w) (plain_succs n vt lt u) -> (v < n)%nat /\ 0 <= w.
Proof.
  intros _ Hin. apply (plain_succs_In shapes s d) in Hin. destruct Hin as (_ & Hv & _ & ->).
  split; [exact Hv|apply lenZ_nonneg].
Qed.

Lemma plain_nodup u : (u < n)%nat -> NoDup (map fst (plain_succs n vt lt u)).
Proof.
  intros _. unfold plain_succs.
  apply (NoDup_flat_map_opt (fun v => v) (fun v => tab_get false vt u v) (fun v => tab_get 0 lt u v)).
  rewrite map_id. apply seq_NoDup.
Qed.

Lemma plain_dijkstra_total : dijkstra n (plain_succs n vt lt) 0 1 <> Fail.
Proof.
  apply cert_dijkstra_total.
  - pose proof (n_ge_2 shapes s d). fold V n in H. lia.
  - exact plain_wf.
  - exact plain_nodup.
Qed.

Theorem route_plain_total : route_plain shapes s d <> SearchFail.
Proof.
  unfold route_plain. fold obst V n vt lt. pose proof plain_dijkstra_total as T.
  destruct (dijkstra n (plain_succs n vt lt) 0 1); [discriminate|discriminate|contradiction].
Qed.

Theorem C04_model_decides :
  (exists pts c, route_plain shapes s d = Route pts c /\ polyline_len pts = c /\
     forall q, vis_path shapes s d (0%nat :: q) -> last (0%nat :: q) 0%nat = 1%nat ->
               c <= polyline_len (map (vpt V) (0%nat :: q))) \/
  (route_plain shapes s d = NoPath /\
     forall q, vis_path shapes s d (0%nat :: q) -> last (0%nat :: q) 0%nat <> 1%nat).
Proof.
  pose proof route_plain_total as T.
  destruct (route_plain shapes s d) as [pts c| |] eqn:E; [left|right|contradiction].
  - exists pts, c. split; [reflexivity|]. apply (C04_model_optimal shapes s d pts c E).
  - split; [reflexivity|]. intros q Hq Hl.
    unfold route_plain in E. fold obst V n vt lt in E.
    destruct (dijkstra n (plain_succs n vt lt) 0 1) eqn:D; try discriminate.
    pose proof (vis_path_walk shapes s d q 0%nat Hq) as W. fold obst V n vt lt in W. rewrite Hl in W.
    exact (dijkstra_noroute _ _ _ _ D _ W).
Qed.

(* C03: whatever the reference router returns is a chain of visible segments from s to d; it returns NoPath only
   when the visibility graph has no path *)
Theorem route_is_graph_path_total :
  (exists pts c, route_plain shapes s d = Route pts c /\
     (2 <= length pts)%nat /\ hd s pts = s /\ last pts d = d /\
     (forall a b, In (a, b) (consecutive pts) -> forall P, In P obst -> segment_avoids P a b) /\
     route_ok shapes s d pts = true) \/
  (route_plain shapes s d = NoPath /\
     forall q, vis_path shapes s d (0%nat :: q) -> last (0%nat :: q) 0%nat <> 1%nat).
Proof.
  destruct C04_model_decides as [(pts & c & E & _)|H]; [left|right; exact H].
  exists pts, c. split; [exact E|].
  destruct (route_is_graph_path shapes s d pts c E) as (H1 & H2 & H3 & H4).
  repeat split; try assumption. apply (C03_model_route_avoids shapes s d pts c E).
Qed.

End PlainTotal.

(* ---------------------------------------------------------------- taut product graph *)
Section TautTotal.
Variables (pen : Z) (shapes : list (list pt)) (s d : pt).
Hypothesis Hpen : 0 <= pen.
Let obst := obstacles shapes s d.
Let V := verts shapes s d.
Let n := length V.
Let tt := mk_tab n (taut_edge obst V).
Let lt := mk_tab n (fun u v => lenZ (vpt V u) (vpt V v)).
Let succs := taut_succs pen n tt lt V.

Let Hn : (0 < n)%nat.
Proof. exact (n_pos shapes s d). Qed.

Lemma taut_wf id id' w : (id < n * n + 1)%nat -> In (id', w) (succs id) -> (id' < n * n + 1)%nat /\ 0 <= w.
Proof.
  intros _ Hin. apply (taut_succs_In pen shapes s d) in Hin. fold V n in Hin.
  destruct Hin as [(_ & _ & -> & ->)|(_ & v & -> & T & ->)]; [split; lia|].
  destruct T as (Hu & Hv & _). split.
  - pose proof (state_lt shapes s d _ _ Hu Hv). fold V n in H. lia.
  - unfold step_cost. pose proof (lenZ_nonneg (vpt (verts shapes s d) (id mod n)) (vpt (verts shapes s d) v)).
    destruct (id / n =? id mod n)%nat; [lia|].
    pose proof (turn_cost_nonneg pen (vpt (verts shapes s d) (id / n)) (vpt (verts shapes s d) (id mod n))
                                 (vpt (verts shapes s d) v) Hpen). lia.
Qed.

Lemma taut_nodup id : (id < n * n + 1)%nat -> NoDup (map fst (succs id)).
Proof.
  intros _. unfold succs, taut_succs.
  destruct (id =? n * n)%nat; [constructor|].
  destruct (id mod n =? 1)%nat; [repeat constructor; intros []|].
  apply (NoDup_flat_map_opt (fun v => (id mod n * n + v)%nat)).
  apply Injective_map_NoDup; [|apply seq_NoDup]. intros a b H. lia.
Qed.

Lemma taut_dijkstra_total : dijkstra (n * n + 1) succs 0 (n * n) <> Fail.
Proof.
  apply cert_dijkstra_total.
  - lia.
  - exact taut_wf.
  - exact taut_nodup.
Qed.

Theorem route_taut_total : route_taut pen shapes s d <> SearchFail.
Proof.
  unfold route_taut. fold obst V n tt lt succs. pose proof taut_dijkstra_total as T.
  destruct (dijkstra (n * n + 1) succs 0 (n * n)); [discriminate|discriminate|contradiction].
Qed.

Theorem C04_model_decides_taut :
  (exists pts c, route_taut pen shapes s d = Route pts c /\
     forall q, taut_seq shapes s d 0 (0%nat :: q) -> c <= taut_seq_cost pen shapes s d 0 (0%nat :: q)) \/
  (route_taut pen shapes s d = NoPath /\ forall q, ~ taut_seq shapes s d 0 (0%nat :: q)).
Proof.
  pose proof route_taut_total as T.
  destruct (route_taut pen shapes s d) as [pts c| |] eqn:E; [left|right|contradiction].
  - exists pts, c. split; [reflexivity|]. apply (C04_model_optimal_taut pen shapes s d pts c E).
  - split; [reflexivity|]. intros q Hq.
    unfold route_taut in E. fold obst V n tt lt succs in E.
    destruct (dijkstra (n * n + 1) succs 0 (n * n)) eqn:D; try discriminate.
    pose proof (taut_seq_walk pen shapes s d q 0%nat 0%nat Hn Hn Hq) as W.
    fold obst V n tt lt succs in W. cbn [Nat.mul Nat.add] in W.
    exact (dijkstra_noroute _ _ _ _ D _ W).
Qed.

End TautTotal.

(* ---------------------------------------------------------------- non-vacuity *)
Example route_plain_total_sq : route_plain [sq10] (mkpt (-5) (-5)) (mkpt 15 15) <> SearchFail.
Proof. apply route_plain_total. Qed.
(* the hypothesis 0 <= pen of route_taut_total is what cert_dijkstra_total needs (non-negative weights) *)
Example route_taut_total_sq : route_taut (10 * pico) [sq10] (mkpt (-5) (-5)) (mkpt 15 15) <> SearchFail.
Proof. apply route_taut_total. unfold pico. lia. Qed.
