(* C12 - the operations libavoid really performs on its HyperedgeTree (the *segment-level* tree: one node per junction,
   bend point and connector end, one edge per route segment), as recorded by hook H2 (tools/hooks/H2.patch).
   No proofs in this file; the preservation theorems are in Avoid/HyperSeg.v.
     contract_any a b   HyperedgeImprover::removeZeroLengthEdges: the zero-length edge (a,b) is deleted and b's other edges
                        are spliced onto a (target->spliceEdgesFrom(source)); unlike HyperTreeModel.contract there is no
                        degree guard: the code contracts bend-bend, junction-bend, junction-junction (major changes only)
                        and also edges that end in a connector end (a leaf)            (log record CONTRACT)
     subdivide a b n    HyperedgeTreeEdge::splitFromNodeAtPoint: edge (a,b) becomes (a,n),(n,b), n new   (SUBDIVIDE)
     fold s t u         moveJunctionAlongCommonEdge, loop over commonEdges[1..]: the edge (s,u) is deleted and u's other
                        edges are spliced onto the sibling t (s-t is commonEdges[0])   (FOLD)
     drop_leaf s t      same function, otherEdges.empty(): the old junction node s, now of degree 1, and its edge to t
                        are deleted                                                    (DROPLEAF)
     bridge a b         MinimumTerminalSpanningTree::addNode with a previous node: one more edge of the path that
                        commitToBridgingEdge lays between two terminal sets            (MTNODE with a predecessor)
     smooth J g         the connector-level reading of the tree (HyperedgeTreeNode::addConns / updateConnEnds /
                        writeEdgesToConns walk from junction to junction or connector end): every node of degree 2
                        that carries no junction is merged into a neighbour
   T is the list of leaf nodes (connector ends at terminals); a contraction that merges the leaf b into a renames it. *)
From Coq Require Import List Arith Bool.
From Adapt Require Import Graph.UnionFind Graph.Trees Avoid.HyperTreeModel.
Import ListNotations.

Definition contract_any (a b : nat) (g : graph) : option graph :=
  if Nat.eqb a b then None
  else match remove_edge a b g with
       | None => None
       | Some r => Some (map (ren_edge b a) r)
       end.

(* degrees (of the surviving node a, of the absorbed node b) for which a contraction keeps every leaf a leaf:
   two internal nodes; or a leaf merged with the degree-2 node next to it (either way round) *)
Definition leaf_safe (da db : nat) : bool :=
  (Nat.leb 2 da && Nat.leb 2 db) || (Nat.eqb da 2 && Nat.eqb db 1) || (Nat.eqb da 1 && Nat.eqb db 2).

Definition joins (a b : nat) (e : edge) : bool :=
  (Nat.eqb (fst e) a && Nat.eqb (snd e) b) || (Nat.eqb (fst e) b && Nat.eqb (snd e) a).
Definition has_edge (a b : nat) (g : graph) : bool := existsb (joins a b) g.

Definition subdivide (a b n : nat) (g : graph) : option graph :=
  if Nat.eqb (deg g n) 0 then
    match remove_edge a b g with
    | None => None
    | Some r => Some ((a, n) :: (n, b) :: r)
    end
  else None.

Definition fold (s t u : nat) (g : graph) : option graph :=
  if negb (Nat.eqb s t) && negb (Nat.eqb s u) && negb (Nat.eqb t u) && has_edge s t g then
    match reattach1 s t u g with
    | None => None
    | Some g1 => contract_any t u g1
    end
  else None.

Definition drop_leaf (s t : nat) (g : graph) : option graph :=
  if Nat.eqb (deg g s) 1 && negb (Nat.eqb s t) then remove_edge s t g else None.

Definition fold_drop (s t u : nat) (g : graph) : option graph :=
  match fold s t u g with
  | None => None
  | Some g1 => drop_leaf s t g1
  end.

Definition bridge (a b : nat) (g : graph) : option graph :=
  if uf_same (comp_uf g) a b then None else Some ((a, b) :: g).

(* first neighbour of n *)
Fixpoint nbr (n : nat) (g : graph) : option nat :=
  match g with
  | [] => None
  | (u, v) :: r => if Nat.eqb u n then Some v else if Nat.eqb v n then Some u else nbr n r
  end.

Definition smooth1 (J : list nat) (g : graph) (n : nat) : graph :=
  if Nat.eqb (deg g n) 2 && negb (memb n J) then
    match nbr n g with
    | None => g
    | Some a =>
        if leaf_safe (deg g a) 2 then or_else (contract_any a n g) g else g
    end
  else g.
Definition smooth (J : list nat) (g : graph) : graph := fold_left (smooth1 J) (nodup Nat.eq_dec (nodes g)) g.

(* ------------------------------------------------------------------ the logged operations and their guards *)
Inductive sop :=
| SContract (a b : nat)          (* b is merged into a *)
| SSubdivide (a b n : nat)
| SFold (s t u : nat)            (* u is merged into its sibling t; s keeps at least two edges *)
| SFoldDrop (s t u : nat)        (* the last fold of a junction move that empties s; s is deleted *)
| SBridge (a b : nat).

Definition seg_state := (graph * list nat)%type.      (* tree, leaf (terminal) nodes *)

(* the graph transformation alone: what the code does *)
Definition sop_graph (g : graph) (o : sop) : option graph :=
  match o with
  | SContract a b => contract_any a b g
  | SSubdivide a b n => subdivide a b n g
  | SFold s t u => fold s t u g
  | SFoldDrop s t u => fold_drop s t u g
  | SBridge a b => bridge a b g
  end.

(* the guard under which the operation keeps "tree whose leaves are the terminals" *)
Definition sop_safe (g : graph) (o : sop) : bool :=
  match o with
  | SContract a b => leaf_safe (deg g a) (deg g b)
  | SSubdivide _ _ _ => true
  | SFold s t u => Nat.leb 3 (deg g s) && Nat.leb 2 (deg g t) && Nat.leb 2 (deg g u)
  | SFoldDrop s t u => Nat.eqb (deg g s) 2 && Nat.leb 2 (deg g t) && Nat.leb 2 (deg g u)
  | SBridge _ _ => true
  end.

Definition sop_leaves (T : list nat) (o : sop) : list nat :=
  match o with
  | SContract a b => map (ren b a) T
  | _ => T
  end.

Definition apply_sop (st : seg_state) (o : sop) : option seg_state :=
  match sop_graph (fst st) o with
  | None => None
  | Some g' => if sop_safe (fst st) o then Some (g', sop_leaves (snd st) o) else None
  end.

Fixpoint run_sops (st : seg_state) (ops : list sop) : option seg_state :=
  match ops with
  | [] => Some st
  | o :: r => match apply_sop st o with None => None | Some st' => run_sops st' r end
  end.

Definition is_bridge_op (o : sop) : bool := match o with SBridge _ _ => true | _ => false end.

(* ------------------------------------------------------------------ client API: JunctionRef::removeJunctionAndMergeConnectors
   (junction.cpp): a junction j with exactly two connectors is taken out by the client - one of its two connectors is deleted,
   the other one is re-attached to the far end of the deleted one, the junction is deleted.  At the connector level the two
   edges (j,a), (j,b) become the single edge (a,b) - for every orientation of the two connectors and whatever a and b are
   (terminal or junction).  Written with the contraction above: j is merged into its first neighbour a, which renames the edge
   (j,b) to (a,b).  (This is smooth1 applied to one chosen node that DOES carry a junction.)
   remove_junction_wrong_end is the defective variant in which the surviving connector stays on the junction that is deleted:
   the second connector (j,b) simply disappears. *)
Definition remove_junction (j : nat) (g : graph) : option graph :=
  if Nat.eqb (deg g j) 2 then
    match nbr j g with
    | None => None
    | Some a => contract_any a j g
    end
  else None.

Definition second_nbr (j : nat) (g : graph) : option nat :=
  match nbr j g with
  | None => None
  | Some a => match remove_edge a j g with None => None | Some r => nbr j r end
  end.

Definition remove_junction_wrong_end (j : nat) (g : graph) : option graph :=
  if Nat.eqb (deg g j) 2 then
    match second_nbr j g with
    | None => None
    | Some b => remove_edge j b g
    end
  else None.

(* histories that mix the improver's / rerouter's abstract operations with client removals of degree-2 junctions *)
Inductive cop :=
| CHop (o : hop)
| CRemoveJunction (j : nat).

Definition apply_cop (T : list nat) (g : graph) (o : cop) : graph :=
  match o with
  | CHop h => apply_hop T g h
  | CRemoveJunction j => or_else (remove_junction j g) g
  end.
Definition run_cops (T : list nat) (g : graph) (ops : list cop) : graph := fold_left (apply_cop T) ops g.
