(* C12 - abstract operations of libavoid's hyperedge improver / rerouter on the junction-terminal graph of one hyperedge
   (nodes: junction ids and terminal ids; edges: connectors).  No proofs in this file.
   Mirrors (DESIGN 5.12):
     ContractEdge j1 j2   HyperedgeImprover::removeZeroLengthEdges, "Coalescing junctions": the connector between two junctions
                          is deleted, junction j2 is deleted, its other connectors are spliced onto j1 (hyperedgeimprover.cpp:465-545)
     SplitJunction j j' S HyperedgeImprover::moveJunctionAlongCommonEdge, "Split junction": a new junction j' and a new connector
                          (j, j'); the connectors towards the neighbours S move from j to j' (hyperedgeimprover.cpp:1158-1224)
     MergeJunctions j1 j2 the inverse edit (j1 absorbed by j2 along their common connector)
     ReplaceByMTST cands  HyperedgeRerouter::performRerouting: all internal structure is dropped and rebuilt by the extended
                          Kruskal construction of mtst.cpp over candidate bridging edges (here guarded by the verified checker) *)
From Coq Require Import List Arith Bool.
From Adapt Require Import Graph.UnionFind Graph.Trees.
Import ListNotations.

Definition ren (a b x : nat) : nat := if Nat.eqb x a then b else x.          (* rename a to b *)
Definition ren_edge (a b : nat) (e : edge) : edge := (ren a b (fst e), ren a b (snd e)).

(* remove the first edge joining a and b (either orientation) *)
Fixpoint remove_edge (a b : nat) (g : graph) : option graph :=
  match g with
  | [] => None
  | (u, v) :: r =>
      if (Nat.eqb u a && Nat.eqb v b) || (Nat.eqb u b && Nat.eqb v a) then Some r
      else option_map (cons (u, v)) (remove_edge a b r)
  end.

(* j2 is merged into j1 along the edge joining them *)
Definition contract (j1 j2 : nat) (g : graph) : option graph :=
  if Nat.eqb j1 j2 then None
  else if Nat.leb 2 (deg g j1) && Nat.leb 2 (deg g j2) then
    match remove_edge j1 j2 g with
    | None => None
    | Some r => Some (map (ren_edge j2 j1) r)
    end
  else None.

(* the first edge joining j and b is re-attached from j to j' *)
Fixpoint reattach1 (j j' b : nat) (g : graph) : option graph :=
  match g with
  | [] => None
  | (u, v) :: r =>
      if Nat.eqb u j && Nat.eqb v b then Some ((j', b) :: r)
      else if Nat.eqb u b && Nat.eqb v j then Some ((b, j') :: r)
      else option_map (cons (u, v)) (reattach1 j j' b r)
  end.
Fixpoint reattach (j j' : nat) (bs : list nat) (g : graph) : option graph :=
  match bs with
  | [] => Some g
  | b :: r => match reattach1 j j' b g with None => None | Some g1 => reattach j j' r g1 end
  end.

(* new junction j' (fresh), new connector (j, j'), the connectors to the neighbours bs move to j';
   1 <= |bs| <= deg j - 1 keeps both junctions internal *)
Definition split (j j' : nat) (bs : list nat) (g : graph) : option graph :=
  if Nat.eqb (deg g j') 0 && negb (Nat.eqb j j') && Nat.leb 1 (length bs) && Nat.leb (length bs + 1) (deg g j)
     && negb (memb j' bs) && negb (memb j bs)
  then option_map (cons (j, j')) (reattach j j' bs g) else None.

Inductive hop :=
| ContractEdge (j1 j2 : nat)
| SplitJunction (j j' : nat) (bs : list nat)
| MergeJunctions (j1 j2 : nat)
| ReplaceByMTST (cands : graph).

Definition or_else (o : option graph) (g : graph) : graph := match o with Some g' => g' | None => g end.

(* an op whose guard fails leaves the graph unchanged *)
Definition apply_hop (T : list nat) (g : graph) (o : hop) : graph :=
  match o with
  | ContractEdge j1 j2 => or_else (contract j1 j2 g) g
  | SplitJunction j j' bs => or_else (split j j' bs g) g
  | MergeJunctions j1 j2 => or_else (contract j2 j1 g) g
  | ReplaceByMTST cands => let t := kruskal cands in if is_tree_with_leaves t T then t else g
  end.
Definition hop_ok (T : list nat) (g : graph) (o : hop) : bool :=
  match o with
  | ContractEdge j1 j2 => match contract j1 j2 g with Some _ => true | None => false end
  | SplitJunction j j' bs => match split j j' bs g with Some _ => true | None => false end
  | MergeJunctions j1 j2 => match contract j2 j1 g with Some _ => true | None => false end
  | ReplaceByMTST cands => is_tree_with_leaves (kruskal cands) T
  end.
Definition run_hops (T : list nat) (g : graph) (ops : list hop) : graph := fold_left (apply_hop T) ops g.
