(* Executable Gallina model of the three segment relations the nudging code consults and of the way one pass of
   ImproveOrthogonalRoutes::nudgeOrthogonalRoutes splits m_segment_list into regions
   (cola/libavoid/orthogonal.cpp: NudgingShiftSegment::overlapsWith :309-362, canAlignWith :364-384,
   shouldAlignWith :386-443, hasCheckpointAtPosition :482-493; region collection :2661-2719).
   NO PROOFS in this file (DESIGN 3.3); proofs are in Avoid/NudgeRel.v.

   The relations are functions of the segment records that hooks H1 / H1b dump (NudgeModel.seg), of the routing option
   nudgeOrthogonalTouchingColinearSegments (nc) and of the routing parameter fixedSharedPathPenalty (fspp).
   `rhs->connRef == connRef` is modelled by equality of the connector ids (ids are unique within a router).
   The check compares them with the REL records of every dumped region (exact correspondence), and compares the
   partition computed by `groups` with the regions the real code formed. *)
From Coq Require Import QArith List Bool Arith ZArith Lia.
From Adapt Require Import Num.Qaux Avoid.NudgeModel.
Import ListNotations.
Local Open Scope Q_scope.

(* (minSpaceLimit <= rhs->maxSpaceLimit) && (rhs->minSpaceLimit <= maxSpaceLimit) : the two shift ranges intersect *)
Definition ranges_meet (s t : seg) : bool := Qleb (smin s) (smax t) && Qleb (smin t) (smax s).

(* the extents in the other dimension share a stretch of positive length *)
Definition extents_overlap (s t : seg) : bool := Qltb (slo s) (shi t) && Qltb (slo t) (shi s).
(* ... or only touch end to end *)
Definition extents_touch (s t : seg) : bool := Qeqb (slo s) (shi t) || Qeqb (slo t) (shi s).

(* this = s, rhs = t *)
Definition overlaps_with (nc : bool) (fspp : Q) (s t : seg) : bool :=
  if extents_overlap s t then ranges_meet s t
  else if extents_touch s t then
    if ranges_meet s t then
      if Qltb 0 fspp then true
      else if (ssbend t && ssbend s) || (szbend t && szbend s) then nc
      else if (sfinal t && sfinal s) && Z.eqb (sconn t) (sconn s) then nc
      else false
    else false
  else false.

Definition can_align_with (s t : seg) : bool :=
  if negb (Z.eqb (sconn s) (sconn t)) then false
  else if scp s || scp t then false else true.

(* hasCheckpointAtPosition(position, altDim) *)
Definition has_cp_at (s : seg) (p : Q) : bool := existsb (fun c => Qeqb c p) (scpa s).

(* touchPos when couldTouch *)
Definition touch_pos (s t : seg) : option Q :=
  if Qeqb (slo s) (shi t) then Some (slo s)
  else if Qeqb (shi s) (slo t) then Some (shi s) else None.

Definition should_align_with (nc : bool) (fspp : Q) (s t : seg) : bool :=
  let same := Z.eqb (sconn s) (sconn t) in
  if same && sfinal s && sfinal t && overlaps_with nc fspp s t then
    (sendsInShape s && sendsInShape t) || Qltb (Qabs' (spos s - spos t)) 10
  else if same && negb (sfinal s && sfinal t) then
    if xorb (scp s) (scp t) then
      match touch_pos s t with
      | Some tp => Qleb (Qabs' (spos s - spos t)) 10 && negb (has_cp_at s tp) && negb (has_cp_at t tp)
      | None => false
      end
    else false
  else false.

(* the relation record of (curr = s, prev = t); the shared-path flag stays dumped data *)
Definition rel_model (nc : bool) (fspp : Q) (shared : bool) (s t : seg) : rel :=
  mkrel (overlaps_with nc fspp s t) (should_align_with nc fspp s t) (can_align_with s t) shared.

(* the record is consistent with itself *)
Definition seg_wf (s : seg) : bool :=
  Bool.eqb (szigzag s) (ssbend s || szbend s) && Bool.eqb (scp s) (negb (Nat.eqb (length (scpa s)) 0)) &&
  Qltb (slo s) (shi s).

(* ------------------------------------------------------------------ region collection (:2661-2701)
   generic in the element type and in the relation `ov x y` = x->overlapsWith(y) *)
Section Collect.
  Context {A : Type}.
  Variable ov : A -> A -> bool.

  (* the scan `for (curr = m_segment_list.begin(); ...)` up to the first element that overlaps a member of the region:
     that element and the list without it *)
  Fixpoint pick (region rest : list A) : option (A * list A) :=
    match rest with
    | [] => None
    | x :: t => if existsb (ov x) region then Some (x, t)
                else match pick region t with
                     | Some (y, t') => Some (y, x :: t')
                     | None => None
                     end
    end.

  (* push_back + erase + restart from the beginning, until a whole scan finds nothing; None = out of fuel *)
  Fixpoint collect (fuel : nat) (region rest : list A) : option (list A * list A) :=
    match pick region rest with
    | None => Some (region, rest)
    | Some (x, rest') =>
        match fuel with
        | O => None
        | S f => collect f (region ++ [x]) rest'
        end
    end.

  (* while (!m_segment_list.empty()): front element + everything collect adds to it *)
  Fixpoint groups (fuel : nat) (l : list A) : option (list (list A)) :=
    match l with
    | [] => Some []
    | x :: t =>
        match fuel with
        | O => None
        | S f =>
            match collect (length t) [x] t with
            | Some (reg, rest) => match groups f rest with Some gs => Some (reg :: gs) | None => None end
            | None => None
            end
        end
    end.
End Collect.

Definition seg_groups (nc : bool) (fspp : Q) (l : list (nat * seg)) : option (list (list (nat * seg))) :=
  groups (fun x y => overlaps_with nc fspp (snd x) (snd y)) (length l) l.

(* `if (currentRegion.size() == 1) if (front()->immovable() || justUnifying) continue;` (before any merging by linesort) *)
Definition group_skipped (unify : bool) (g : list (nat * seg)) : bool :=
  match g with
  | [x] => negb (szigzag (snd x)) || unify
  | _ => false
  end.

(* ------------------------------------------------------------------ checkpoints on the adjoining segments (:2207-2236)
   Oracle for the limits of a shiftable middle segment: a checkpoint of the same connector that lies on the route
   segment adjoining this one (which runs in the shift direction from this segment's position `pos` to `far`) at
   coordinate c must stay on that adjoining segment wherever in [min, max] this segment is put. *)
Definition cp_limit_ok (pos mn mx : Q) (c : Q) : bool :=
  if Qltb c pos then Qleb c mn
  else if Qltb pos c then Qleb mx c
  else Qeqb mn pos && Qeqb mx pos.

(* ------------------------------------------------------------------ which route segments a pass collects
   (buildOrthogonalNudgingSegments, orthogonal.cpp:2075-2288; seeded change C10-6, DESIGN 9.13)
   For EVERY orthogonal connector of the router - connectors with a user-specified fixed route (ConnRef::setFixedRoute)
   included: "the path of this connector will still be considered for the purpose of nudging", connector.h - and every
   i in [1, size): if ps[i-1][dim] == ps[i][dim] and the segment has positive length, exactly one NudgingShiftSegment
   with indexes (indexLow, indexHigh) ordered by the other coordinate is pushed, whichever branch (checkpoint / first or
   last segment / fixed route / shiftable middle segment) builds it.  `dim` = false: x is the shift dimension.
   Precondition of the code (not modelled): segmentPenalty != 0. *)
Definition coord (dim : bool) (p : pt) : Q := if dim then py p else px p.

Record member := mkmem {
  m_lowi : nat; m_highi : nat;   (* indexes into the display route, low end first *)
  m_pos : Q;                     (* position in the shift dimension *)
  m_lo : Q; m_hi : Q             (* extent in the other dimension *)
}.

Fixpoint route_members_from (dim : bool) (k : nat) (l : list pt) : list member :=
  match l with
  | a :: ((b :: _) as t) =>
      let rest := route_members_from dim (S k) t in
      if Qeqb (coord dim a) (coord dim b) then
        if Qeqb (coord (negb dim) a) (coord (negb dim) b) then rest                      (* zero length: ignored *)
        else if Qltb (coord (negb dim) b) (coord (negb dim) a)
             then mkmem (S k) k (coord dim b) (coord (negb dim) b) (coord (negb dim) a) :: rest
             else mkmem k (S k) (coord dim a) (coord (negb dim) a) (coord (negb dim) b) :: rest
      else rest
  | _ => []
  end.
Definition route_members (dim : bool) (l : list pt) : list member := route_members_from dim 0 l.

(* all connectors of a pass: (connector id, display route) as hook H1b's AROUTE records give them *)
Definition pass_members (dim : bool) (routes : list (Z * list pt)) : list (Z * member) :=
  flat_map (fun cr => map (fun m => (fst cr, m)) (route_members dim (snd cr))) routes.

Definition nat_list_eqb (a b : list nat) : bool :=
  Nat.eqb (length a) (length b) && forallb (fun xy => Nat.eqb (fst xy) (snd xy)) (combine a b).

(* a dumped segment (ASEG record: the seg fields + its `indexes`) is the segment the model expects *)
Definition mem_matches (c : Z) (m : member) (x : seg * list nat) : bool :=
  Z.eqb (sconn (fst x)) c && nat_list_eqb (snd x) [m_lowi m; m_highi m] &&
  Qeqb (spos (fst x)) (m_pos m) && Qeqb (slo (fst x)) (m_lo m) && Qeqb (shi (fst x)) (m_hi m).

(* completeness of the dumped segment list of one pass: every expected member is there ... *)
Definition members_covered (dim : bool) (routes : list (Z * list pt)) (segs : list (seg * list nat)) : bool :=
  forallb (fun cm => existsb (mem_matches (fst cm) (snd cm)) segs) (pass_members dim routes).
(* ... and nothing else is *)
Definition members_only (dim : bool) (routes : list (Z * list pt)) (segs : list (seg * list nat)) : bool :=
  forallb (fun x => existsb (fun cm => mem_matches (fst cm) (snd cm) x) (pass_members dim routes)) segs.
