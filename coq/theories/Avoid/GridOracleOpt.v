(* C05 - optimality of the grid oracle (Avoid/GridOracle.v) over the grid graph it searches.

   The oracle iterates `round` (four directional relaxation sweeps E, W over the rows, S, N over the columns of the Hanan
   grid) until the cost signature of the grid no longer changes.  Here:
     grid_oracle_optimal     if the oracle answers OR_cost k p (and 0 <= pen), then k <= the cost of EVERY walk of the
                             grid graph from (src, allowed start direction) to (dst, allowed arrival direction)
     grid_oracle_unreachable if it answers OR_unreachable there is no such walk at all
   The grid graph (gstep): states (grid point, direction 0 N / 1 E / 2 S / 3 W); a move goes to the neighbouring
   Hanan-grid line in the current direction, costs the distance, and is allowed iff the grid segment is not blocked
   (hblocked / vblocked: it does not run through the interior of the UNION of the rectangles); a turn to a
   perpendicular direction costs pen and is allowed everywhere except at dst and at src (`noturn src dst`: a state (src, d)
   means "about to leave src travelling d", a state (dst, d) "arrived at dst travelling d"; the sections below are generic in
   the no-turn predicate nt).  Further, no move leads INTO src and none OUT of dst (predicates ni / no of the sweep): a path does
   not pass through its own endpoints, so that doubling back (two turns at one point, which the graph cannot exclude locally) never
   pays: it would only help to undo the forced first / last direction by running through the endpoint again.  Walks are arbitrary (any number of
   steps, revisits allowed), so this is "minimum over all orthogonal paths on that grid".
   Proof: relaxation-fixpoint argument.  After a round whose signature equals the one before, every move and turn
   inequality holds in the resulting grid (the E/W inequalities were established by the row sweeps against the N/S
   values of the input grid, whose costs equal the output's by the signature test; the S/N inequalities by the
   column sweeps, which run last); a relaxation fixpoint bounds every walk from below by induction on the walk.
   NOT proved (named assumption, classical): HANAN-GRID SUFFICIENCY - among all orthogonal obstacle-avoiding paths
   in the plane one of minimum length + pen * bends runs on the Hanan grid of the rectangle sides and endpoints. *)
From Coq Require Import ZArith List Bool Lia.
From Adapt Require Import Avoid.GridOracle.
Import ListNotations.
Local Open Scope Z_scope.

(* ------------------------------------------------------------------ order on search values (None = infinity) *)
Definition vle (a b : val) : Prop :=
  match b with
  | None => True
  | Some (cb, _) => match a with Some (ca, _) => ca <= cb | None => False end
  end.
Definition vnn (a : val) : Prop := match a with Some (c, _) => 0 <= c | None => True end.

Lemma vle_refl a : vle a a.
Proof. destruct a as [[c p]|]; cbn; lia. Qed.
Lemma vle_trans a b c : vle a b -> vle b c -> vle a c.
Proof. destruct a as [[ca pa]|], b as [[cb pb]|], c as [[cc pc]|]; cbn; try lia; tauto. Qed.
Lemma vmin_le_l a b : vle (vmin a b) a.
Proof.
  destruct a as [[ca pa]|], b as [[cb pb]|]; cbn; try lia; try exact I.
  destruct (cb <? ca) eqn:E; cbn; [apply Z.ltb_lt in E|]; lia.
Qed.
Lemma vmin_le_r a b : vle (vmin a b) b.
Proof.
  destruct a as [[ca pa]|], b as [[cb pb]|]; cbn; try lia; try exact I.
  destruct (cb <? ca) eqn:E; cbn; [|apply Z.ltb_ge in E]; lia.
Qed.
Lemma vadd_mono a b d : vle a b -> vle (vadd a d) (vadd b d).
Proof. destruct a as [[ca pa]|], b as [[cb pb]|]; cbn; try lia; tauto. Qed.
Lemma vturn_mono a b pen p q : vle a b -> vle (vturn a pen p) (vturn b pen q).
Proof. destruct a as [[ca pa]|], b as [[cb pb]|]; cbn; try lia; tauto. Qed.
Lemma vnn_vmin a b : vnn a -> vnn b -> vnn (vmin a b).
Proof. destruct a as [[ca pa]|], b as [[cb pb]|]; cbn; try tauto. destruct (cb <? ca); cbn; tauto. Qed.
Lemma vnn_vadd a d : 0 <= d -> vnn a -> vnn (vadd a d).
Proof. destruct a as [[ca pa]|]; cbn; lia. Qed.
Lemma vnn_vturn a pen p : 0 <= pen -> vnn a -> vnn (vturn a pen p).
Proof. destruct a as [[ca pa]|]; cbn; lia. Qed.

(* ------------------------------------------------------------------ list lemmas *)
Lemma consecutive_split {A} (l : list A) a b : consecutive l a b <-> exists l1 l2, l = l1 ++ a :: b :: l2.
Proof.
  split.
  - induction 1 as [a b t|x t a b H IH].
    + exists [], t. reflexivity.
    + destruct IH as (l1 & l2 & ->). exists (x :: l1), l2. reflexivity.
  - intros (l1 & l2 & ->). induction l1 as [|x l1 IH]; cbn; constructor. exact IH.
Qed.

Lemma consecutive_rev {A} (l : list A) a b : consecutive (rev l) a b -> consecutive l b a.
Proof.
  intro H. apply consecutive_split in H. destruct H as (l1 & l2 & E).
  apply consecutive_split. exists (rev l2), (rev l1).
  rewrite <- (rev_involutive l), E, rev_app_distr. cbn [rev]. rewrite <- !app_assoc. reflexivity.
Qed.

Lemma consecutive_In {A} (l : list A) a b : consecutive l a b -> In a l /\ In b l.
Proof. induction 1; cbn; tauto. Qed.

Lemma consecutive_cons_inv {A} (x : A) t a b :
  consecutive (x :: t) a b -> (a = x /\ exists t', t = b :: t') \/ consecutive t a b.
Proof. intro H. inversion H; subst; [left; split; [reflexivity|eexists; reflexivity]|right; assumption]. Qed.
Lemma consecutive_nil {A} (a b : A) : ~ consecutive [] a b.
Proof. intro H. inversion H. Qed.

Lemma consecutive_map_inv {A B} (f : A -> B) (l : list A) x y :
  consecutive (map f l) x y -> exists a b, consecutive l a b /\ f a = x /\ f b = y.
Proof.
  revert x y. induction l as [|a l IH]; intros x y H; [destruct (consecutive_nil _ _ H)|].
  cbn [map] in H. apply consecutive_cons_inv in H. destruct H as [[-> (t' & E)]|C].
  - destruct l as [|b l']; [discriminate|]. cbn [map] in E. inversion E; subst.
    exists a, b. split; [constructor|auto].
  - destruct (IH _ _ C) as (a0 & b0 & C0 & E). exists a0, b0. split; [constructor; exact C0|exact E].
Qed.

Lemma Forall2_consecutive {A B} (R : A -> B -> Prop) l l' a' b' :
  Forall2 R l l' -> consecutive l' a' b' -> exists a b, consecutive l a b /\ R a a' /\ R b b'.
Proof.
  intro F. revert a' b'. induction F as [|x y l l' Rxy F IH]; intros a' b' C; [destruct (consecutive_nil _ _ C)|].
  apply consecutive_cons_inv in C. destruct C as [[-> (t' & E)]|C'].
  - subst l'. inversion F as [|x2 y2 l2 l2' R2 F2]; subst. exists x, x2. split; [constructor|auto].
  - destruct (IH _ _ C') as (a & b & Ca & Ra). exists a, b. split; [constructor; exact Ca|exact Ra].
Qed.

Lemma Forall2_In_r {A B} (R : A -> B -> Prop) l l' b : Forall2 R l l' -> In b l' -> exists a, In a l /\ R a b.
Proof.
  induction 1 as [|x y l l' Rxy F IH]; intros Hin; [destruct Hin|].
  destruct Hin as [->|Hin]; [exists x; cbn; auto|]. destruct (IH Hin) as (a & Ha & Ra). exists a. cbn. auto.
Qed.
Lemma Forall2_In_l {A B} (R : A -> B -> Prop) l l' a : Forall2 R l l' -> In a l -> exists b, In b l' /\ R a b.
Proof.
  induction 1 as [|x y l l' Rxy F IH]; intros Hin; [destruct Hin|].
  destruct Hin as [->|Hin]; [exists y; cbn; auto|]. destruct (IH Hin) as (b & Hb & Rb). exists b. cbn. auto.
Qed.
Lemma Forall2_rev' {A B} (R : A -> B -> Prop) l l' : Forall2 R l l' -> Forall2 R (rev l) (rev l').
Proof. induction 1; cbn; [constructor|]. apply Forall2_app; [assumption|]. constructor; [assumption|constructor]. Qed.
Lemma Forall2_comp {A B C} (R : A -> B -> Prop) (S : B -> C -> Prop) l1 l2 l3 :
  Forall2 R l1 l2 -> Forall2 S l2 l3 -> Forall2 (fun a c => exists b, R a b /\ S b c) l1 l3.
Proof.
  intro F. revert l3. induction F as [|x y l l' Rxy F IH]; intros l3 G; inversion G; subst; constructor.
  - exists y. auto.
  - apply IH. assumption.
Qed.
Lemma Forall2_impl' {A B} (R S : A -> B -> Prop) l l' : (forall a b, R a b -> S a b) -> Forall2 R l l' -> Forall2 S l l'.
Proof. intros H F. induction F; constructor; auto. Qed.
Lemma Forall2_map_fst {A B C} (R : A * B -> A * C -> Prop) l l' :
  (forall a b, R a b -> fst b = fst a) -> Forall2 R l l' -> map fst l' = map fst l.
Proof. intros H F. induction F; cbn; [reflexivity|]. f_equal; auto. Qed.

Lemma NoDup_fst_inj {A B} (l : list (A * B)) k a b : NoDup (map fst l) -> In (k, a) l -> In (k, b) l -> a = b.
Proof.
  induction l as [|[k0 v0] l IH]; intros ND Ha Hb; [destruct Ha|].
  cbn [map fst] in ND. inversion ND as [|? ? Hni ND']; subst.
  assert (Hk : forall v, In (k0, v) l -> False).
  { intros v Hv. apply Hni. apply in_map_iff. exists (k0, v). auto. }
  destruct Ha as [Ea|Ha], Hb as [Eb|Hb].
  - congruence.
  - inversion Ea; subst. exfalso. eapply Hk; eassumption.
  - inversion Eb; subst. exfalso. eapply Hk; eassumption.
  - apply IH; assumption.
Qed.

(* ------------------------------------------------------------------ one directional sweep *)
Section SweepFacts.
  Variables (get : cell -> val) (set : cell -> val -> cell) (p1 p2 : cell -> val) (mk : Z -> zp) (pen : Z)
            (blocked : Z -> Z -> bool) (nt ni no : zp -> bool).
  Hypothesis get_set : forall c v, get (set c v) = v.

  Definition turn_of (x : Z) (c : cell) : val := vturn (vmin (p1 c) (p2 c)) pen (mk x).

  (* cell-wise relation between a line and its sweep *)
  Definition sw_rel (a b : Z * cell) : Prop :=
    fst b = fst a /\ (exists v, snd b = set (snd a) v) /\ vle (get (snd b)) (get (snd a)) /\
    (nt (mk (fst a)) = false -> vle (get (snd b)) (turn_of (fst a) (snd a))).

  Lemma sweep_rel : forall line carry prev first,
    Forall2 sw_rel line (sweep get set p1 p2 mk pen blocked nt ni no carry prev first line).
  Proof.
    induction line as [|[x c] t IH]; intros carry prev first; cbn [sweep]; constructor; [|apply IH].
    unfold sw_rel. cbn [fst snd]. split; [reflexivity|]. split; [eexists; reflexivity|].
    rewrite get_set. split.
    - eapply vle_trans; [apply vmin_le_l|apply vmin_le_l].
    - intros E. rewrite E. apply vmin_le_r.
  Qed.

  Lemma sweep_adj : forall line carry prev first a b,
    consecutive (sweep get set p1 p2 mk pen blocked nt ni no carry prev first line) a b ->
    blocked (fst a) (fst b) = false -> no (mk (fst a)) = false -> ni (mk (fst b)) = false ->
    vle (get (snd b)) (vadd (get (snd a)) (Z.abs (fst b - fst a))).
  Proof.
    induction line as [|[x c] t IH]; intros carry prev first a b C Hb Hno Hni; cbn [sweep] in C;
      [destruct (consecutive_nil _ _ C)|].
    apply consecutive_cons_inv in C. destruct C as [[-> (t' & E)]|C'].
    - destruct t as [|[x2 c2] t2]; [discriminate|]. cbn [sweep] in E. inversion E; subst. clear E.
      cbn [fst snd] in *. rewrite !get_set. rewrite Hb, Hni, Hno.
      eapply vle_trans; [apply vmin_le_l|apply vmin_le_r].
    - eapply IH; eassumption.
  Qed.
End SweepFacts.

(* ------------------------------------------------------------------ forward + backward sweep of one line *)
Definition cnn (c : cell) : Prop := vnn (cN c) /\ vnn (cE c) /\ vnn (cS c) /\ vnn (cW c).

Section DoubleSweep.
  Variables (getF : cell -> val) (setF : cell -> val -> cell) (getB : cell -> val) (setB : cell -> val -> cell)
            (p1 p2 : cell -> val) (mk : Z -> zp) (pen : Z) (blocked : Z -> Z -> bool) (nt ni no : zp -> bool).
  Hypothesis getF_setF : forall c v, getF (setF c v) = v.
  Hypothesis getB_setF : forall c v, getB (setF c v) = getB c.
  Hypothesis p1_setF : forall c v, p1 (setF c v) = p1 c.
  Hypothesis p2_setF : forall c v, p2 (setF c v) = p2 c.
  Hypothesis getB_setB : forall c v, getB (setB c v) = v.
  Hypothesis getF_setB : forall c v, getF (setB c v) = getF c.
  Hypothesis p1_setB : forall c v, p1 (setB c v) = p1 c.
  Hypothesis p2_setB : forall c v, p2 (setB c v) = p2 c.
  Hypothesis blocked_sym : forall a b, blocked a b = blocked b a.
  Hypothesis pen_nn : 0 <= pen.
  Hypothesis nn_setF : forall c v, cnn c -> vnn v -> cnn (setF c v).
  Hypothesis nn_setB : forall c v, cnn c -> vnn v -> cnn (setB c v).
  Hypothesis nn_getF : forall c, cnn c -> vnn (getF c).
  Hypothesis nn_getB : forall c, cnn c -> vnn (getB c).
  Hypothesis nn_p1 : forall c, cnn c -> vnn (p1 c).
  Hypothesis nn_p2 : forall c, cnn c -> vnn (p2 c).

  Definition dsweep (l : list (Z * cell)) : list (Z * cell) :=
    rev (sweep getB setB p1 p2 mk pen blocked nt ni no None 0 true
           (rev (sweep getF setF p1 p2 mk pen blocked nt ni no None 0 true l))).

  Definition ds_rel (a b : Z * cell) : Prop :=
    fst b = fst a /\ p1 (snd b) = p1 (snd a) /\ p2 (snd b) = p2 (snd a) /\
    vle (getF (snd b)) (getF (snd a)) /\ vle (getB (snd b)) (getB (snd a)) /\
    (nt (mk (fst a)) = false ->
       vle (getF (snd b)) (turn_of p1 p2 mk pen (fst a) (snd a)) /\
       vle (getB (snd b)) (turn_of p1 p2 mk pen (fst a) (snd a))).

  Lemma dsweep_rel l : Forall2 ds_rel l (dsweep l).
  Proof.
    unfold dsweep.
    set (l1 := sweep getF setF p1 p2 mk pen blocked nt ni no None 0 true l).
    pose proof (sweep_rel getF setF p1 p2 mk pen blocked nt ni no getF_setF l None 0 true) as F1. fold l1 in F1.
    pose proof (sweep_rel getB setB p1 p2 mk pen blocked nt ni no getB_setB (rev l1) None 0 true) as F2.
    apply Forall2_rev' in F2. rewrite rev_involutive in F2.
    eapply Forall2_impl'; [|exact (Forall2_comp _ _ _ _ _ F1 F2)].
    intros a c (b & (A1 & (v1 & A2) & A3 & A4) & (B1 & (v2 & B2) & B3 & B4)).
    unfold ds_rel. rewrite B2, A2 in *. rewrite B1, A1 in *.
    rewrite ?p1_setB, ?p2_setB, ?p1_setF, ?p2_setF, ?getF_setB, ?getB_setB, ?getF_setF, ?getB_setF in *.
    split; [reflexivity|]. split; [reflexivity|]. split; [reflexivity|]. split; [exact A3|]. split; [exact B3|].
    intro E. split; [apply A4; exact E|].
    specialize (B4 E). unfold turn_of in *. rewrite ?p1_setF, ?p2_setF in B4. exact B4.
  Qed.

  Lemma dsweep_adj l a b : consecutive (dsweep l) a b -> blocked (fst a) (fst b) = false ->
    (no (mk (fst a)) = false -> ni (mk (fst b)) = false -> vle (getF (snd b)) (vadd (getF (snd a)) (Z.abs (fst b - fst a)))) /\
    (no (mk (fst b)) = false -> ni (mk (fst a)) = false -> vle (getB (snd a)) (vadd (getB (snd b)) (Z.abs (fst b - fst a)))).
  Proof.
    unfold dsweep.
    set (l1 := sweep getF setF p1 p2 mk pen blocked nt ni no None 0 true l).
    intros C Hb. split; intros Hno Hni.
    - pose proof (sweep_rel getB setB p1 p2 mk pen blocked nt ni no getB_setB (rev l1) None 0 true) as F2.
      apply Forall2_rev' in F2. rewrite rev_involutive in F2.
      destruct (Forall2_consecutive _ _ _ _ _ F2 C) as (a1 & b1 & C1 & (A1 & (va & A2) & _) & (B1 & (vb & B2) & _)).
      pose proof (sweep_adj getF setF p1 p2 mk pen blocked nt ni no getF_setF l None 0 true a1 b1 C1) as S.
      rewrite A2, B2, A1, B1, !getF_setB. apply S; rewrite <- ?A1, <- ?B1; assumption.
    - apply consecutive_rev in C.
      pose proof (sweep_adj getB setB p1 p2 mk pen blocked nt ni no getB_setB (rev l1) None 0 true b a C) as S.
      replace (Z.abs (fst b - fst a)) with (Z.abs (fst a - fst b)) by lia.
      apply S; [rewrite blocked_sym; exact Hb|exact Hno|exact Hni].
  Qed.

  (* non-negativity of all costs is preserved *)
  Lemma sweep_nn_F : forall line carry prev first, vnn carry -> (forall a, In a line -> cnn (snd a)) ->
    forall b, In b (sweep getF setF p1 p2 mk pen blocked nt ni no carry prev first line) -> cnn (snd b).
  Proof.
    induction line as [|[x c] t IH]; intros carry prev first Hc Hl b Hin; cbn [sweep] in Hin; [destruct Hin|].
    assert (Hcc : cnn c) by (apply (Hl (x, c)); left; reflexivity).
    match type of Hin with In b ((x, setF c ?v) :: _) => assert (Hv : vnn v) end.
    { apply vnn_vmin; [apply vnn_vmin; [apply nn_getF; assumption|]|].
      - destruct first; [exact I|]. destruct (blocked prev x); [exact I|]. destruct (ni (mk x)); [exact I|]. apply vnn_vadd; [lia|assumption].
      - destruct (nt (mk x)); [exact I|]. apply vnn_vturn; [assumption|].
        apply vnn_vmin; [apply nn_p1|apply nn_p2]; assumption. }
    destruct Hin as [<-|Hin]; [cbn [snd]; apply nn_setF; assumption|].
    eapply IH; [| |exact Hin]; [destruct (no (mk x)); [exact I|exact Hv]|]. intros a Ha. apply Hl. right. assumption.
  Qed.
  Lemma sweep_nn_B : forall line carry prev first, vnn carry -> (forall a, In a line -> cnn (snd a)) ->
    forall b, In b (sweep getB setB p1 p2 mk pen blocked nt ni no carry prev first line) -> cnn (snd b).
  Proof.
    induction line as [|[x c] t IH]; intros carry prev first Hc Hl b Hin; cbn [sweep] in Hin; [destruct Hin|].
    assert (Hcc : cnn c) by (apply (Hl (x, c)); left; reflexivity).
    match type of Hin with In b ((x, setB c ?v) :: _) => assert (Hv : vnn v) end.
    { apply vnn_vmin; [apply vnn_vmin; [apply nn_getB; assumption|]|].
      - destruct first; [exact I|]. destruct (blocked prev x); [exact I|]. destruct (ni (mk x)); [exact I|]. apply vnn_vadd; [lia|assumption].
      - destruct (nt (mk x)); [exact I|]. apply vnn_vturn; [assumption|].
        apply vnn_vmin; [apply nn_p1|apply nn_p2]; assumption. }
    destruct Hin as [<-|Hin]; [cbn [snd]; apply nn_setB; assumption|].
    eapply IH; [| |exact Hin]; [destruct (no (mk x)); [exact I|exact Hv]|]. intros a Ha. apply Hl. right. assumption.
  Qed.
  Lemma dsweep_nn l : (forall a, In a l -> cnn (snd a)) -> forall b, In b (dsweep l) -> cnn (snd b).
  Proof.
    intros Hl b Hin. unfold dsweep in Hin. apply in_rev in Hin.
    refine (sweep_nn_B _ None 0 true I _ b Hin).
    intros a Ha. apply in_rev in Ha. exact (sweep_nn_F _ None 0 true I Hl a Ha).
  Qed.
End DoubleSweep.

(* ------------------------------------------------------------------ grids: cells by coordinates *)
(* a grid in row form: outer key y, inner key x.  (The column form is the same type with the keys swapped.) *)
Definition At (g : grid) (x y : Z) (c : cell) : Prop := exists l, In (y, l) g /\ In (x, c) l.
Definition wf (g : grid) (outer inner : list Z) : Prop :=
  map fst g = outer /\ forall k l, In (k, l) g -> map fst l = inner.

Lemma At_fun g ys xs x y c c' : wf g ys xs -> NoDup ys -> NoDup xs -> At g x y c -> At g x y c' -> c = c'.
Proof.
  intros [W1 W2] Ny Nx (l & Hl & Hc) (l' & Hl' & Hc').
  assert (l = l') by (eapply NoDup_fst_inj; [rewrite W1; exact Ny|eassumption|eassumption]). subst l'.
  eapply NoDup_fst_inj; [rewrite (W2 _ _ Hl); exact Nx|eassumption|eassumption].
Qed.

Lemma In_map_fst {A B} (l : list (A * B)) k : In k (map fst l) -> exists v, In (k, v) l.
Proof. intro H. apply in_map_iff in H. destruct H as ([k' v] & E & H). cbn in E. subst. exists v. assumption. Qed.

Lemma At_exists g ys xs x y : wf g ys xs -> In y ys -> In x xs -> exists c, At g x y c.
Proof.
  intros [W1 W2] Hy Hx. rewrite <- W1 in Hy. destruct (In_map_fst _ _ Hy) as (l & Hl).
  rewrite <- (W2 _ _ Hl) in Hx. destruct (In_map_fst _ _ Hx) as (c & Hc). exists c, l. auto.
Qed.
Lemma At_In g ys xs x y c : wf g ys xs -> At g x y c -> In y ys /\ In x xs.
Proof.
  intros [W1 W2] (l & Hl & Hc). split.
  - rewrite <- W1. apply in_map_iff. exists (y, l). auto.
  - rewrite <- (W2 _ _ Hl). apply in_map_iff. exists (x, c). auto.
Qed.

(* adjacent cells of one line *)
Lemma wf_line_consecutive g ys xs y l x x' : wf g ys xs -> In (y, l) g -> consecutive xs x x' ->
  exists c c', consecutive l (x, c) (x', c').
Proof.
  intros [_ W2] Hl C. rewrite <- (W2 _ _ Hl) in C. apply consecutive_map_inv in C.
  destruct C as ([x1 c] & [x2 c'] & C & E1 & E2). cbn in E1, E2. subst. exists c, c'. exact C.
Qed.

(* ---- transpose *)
Definition cempty := mkcell None None None None.

Lemma transpose_aux_spec : forall xs g, (forall k l, In (k, l) g -> map fst l = xs) ->
  map fst (transpose_aux xs g) = xs /\
  (forall x l, In (x, l) (transpose_aux xs g) -> map fst l = map fst g) /\
  (forall x y c, At (transpose_aux xs g) y x c <-> At g x y c).
Proof.
  induction xs as [|x0 xt IH]; intros g W.
  - cbn [transpose_aux]. split; [reflexivity|]. split; [intros ? ? []|].
    intros x y c. split; [intros (l & [] & _)|].
    intros (l & Hl & Hc). rewrite (map_eq_nil _ _ (W _ _ Hl)) in Hc. destruct Hc.
  - cbn [transpose_aux].
    set (gt := map (fun row : Z * list (Z * cell) => (fst row, tl (snd row))) g).
    assert (Wt : forall k l, In (k, l) gt -> map fst l = xt).
    { intros k l H. apply in_map_iff in H. destruct H as ([k' l'] & E & H). cbn [fst snd] in E. inversion E; subst.
      pose proof (W _ _ H) as E'. destruct l' as [|a l']; [discriminate|]. cbn in E'. inversion E'. reflexivity. }
    destruct (IH gt Wt) as (I1 & I2 & I3).
    assert (Egt : map fst gt = map fst g).
    { unfold gt. rewrite map_map. apply map_ext. reflexivity. }
    split; [cbn [map fst]; f_equal; exact I1|]. split.
    + intros x l [E|H].
      * inversion E; subst. rewrite map_map. apply map_ext. reflexivity.
      * rewrite (I2 _ _ H). exact Egt.
    + intros x y c. split.
      * intros (l & [E|Hl] & Hc).
        -- inversion E; subst. clear E. apply in_map_iff in Hc. destruct Hc as ([k l'] & E & H).
           cbn [fst snd] in E. pose proof (W _ _ H) as E'.
           destruct l' as [|[x1 c1] l']; [discriminate|]. cbn in E'. inversion E'; subst. inversion E; subst.
           exists ((x, c) :: l'). split; [assumption|left; reflexivity].
        -- assert (A : At gt x y c) by (apply I3; exists l; auto).
           destruct A as (l' & Hl' & Hc'). apply in_map_iff in Hl'. destruct Hl' as ([k l''] & E & H).
           cbn [fst snd] in E. inversion E; subst. exists l''. split; [assumption|].
           destruct l''; [destruct Hc'|right; exact Hc'].
      * intros (l & Hl & Hc). pose proof (W _ _ Hl) as E'.
        destruct l as [|[x1 c1] l']; [destruct Hc|]. cbn in E'. inversion E'; subst.
        destruct Hc as [E|Hc].
        -- inversion E; subst. eexists. split; [left; reflexivity|].
           apply in_map_iff. exists (y, (x, c) :: l'). split; [reflexivity|assumption].
        -- assert (A : At gt x y c).
           { exists l'. split; [|exact Hc]. apply in_map_iff. exists (y, (x0, c1) :: l'). auto. }
           apply I3 in A. destruct A as (l2 & Hl2 & Hc2). exists l2. split; [right; exact Hl2|exact Hc2].
Qed.

Lemma transpose_spec g ys xs : wf g ys xs -> ys <> [] ->
  wf (transpose g) xs ys /\ forall x y c, At (transpose g) y x c <-> At g x y c.
Proof.
  intros [W1 W2] Hne. destruct g as [|[y0 l0] g']; [cbn in W1; congruence|].
  cbn [transpose]. rewrite (W2 y0 l0 (or_introl eq_refl)).
  destruct (transpose_aux_spec xs ((y0, l0) :: g') W2) as (T1 & T2 & T3).
  split; [|exact T3]. split; [exact T1|]. intros k l H. rewrite (T2 _ _ H). exact W1.
Qed.

(* ------------------------------------------------------------------ a double sweep over every line of a grid *)
Section GridSweep.
  Variables (getF : cell -> val) (setF : cell -> val -> cell) (getB : cell -> val) (setB : cell -> val -> cell)
            (p1 p2 : cell -> val) (mk2 : Z -> Z -> zp) (pen : Z) (blocked2 : Z -> Z -> Z -> bool) (nt ni no : zp -> bool).
  Hypothesis getF_setF : forall c v, getF (setF c v) = v.
  Hypothesis getB_setF : forall c v, getB (setF c v) = getB c.
  Hypothesis p1_setF : forall c v, p1 (setF c v) = p1 c.
  Hypothesis p2_setF : forall c v, p2 (setF c v) = p2 c.
  Hypothesis getB_setB : forall c v, getB (setB c v) = v.
  Hypothesis getF_setB : forall c v, getF (setB c v) = getF c.
  Hypothesis p1_setB : forall c v, p1 (setB c v) = p1 c.
  Hypothesis p2_setB : forall c v, p2 (setB c v) = p2 c.
  Hypothesis blocked_sym : forall k a b, blocked2 k a b = blocked2 k b a.
  Hypothesis pen_nn : 0 <= pen.
  Hypothesis nn_setF : forall c v, cnn c -> vnn v -> cnn (setF c v).
  Hypothesis nn_setB : forall c v, cnn c -> vnn v -> cnn (setB c v).
  Hypothesis nn_getF : forall c, cnn c -> vnn (getF c).
  Hypothesis nn_getB : forall c, cnn c -> vnn (getB c).
  Hypothesis nn_p1 : forall c, cnn c -> vnn (p1 c).
  Hypothesis nn_p2 : forall c, cnn c -> vnn (p2 c).

  Definition line_sweep (k : Z) (l : list (Z * cell)) : list (Z * cell) :=
    dsweep getF setF getB setB p1 p2 (mk2 k) pen (blocked2 k) nt ni no l.
  Definition gsweep (g : grid) : grid := map (fun row => (fst row, line_sweep (fst row) (snd row))) g.

  Lemma gsweep_In k l2 g : In (k, l2) (gsweep g) -> exists l, In (k, l) g /\ l2 = line_sweep k l.
  Proof.
    intro H. apply in_map_iff in H. destruct H as ([k' l] & E & H). cbn [fst snd] in E. inversion E; subst.
    exists l. auto.
  Qed.

  Lemma line_sweep_rel k l : Forall2 (ds_rel getF getB p1 p2 (mk2 k) pen nt) l (line_sweep k l).
  Proof. apply dsweep_rel; auto. Qed.

  Lemma gsweep_wf g o i : wf g o i -> wf (gsweep g) o i.
  Proof.
    intros [W1 W2]. split.
    - unfold gsweep. rewrite map_map. cbn [fst]. exact W1.
    - intros k l2 H. destruct (gsweep_In _ _ _ H) as (l & Hl & ->).
      rewrite <- (W2 _ _ Hl). eapply Forall2_map_fst; [|apply line_sweep_rel]. intros a b R. apply R.
  Qed.

  Lemma gsweep_rel g a k c1 : At (gsweep g) a k c1 ->
    exists c0, At g a k c0 /\ p1 c1 = p1 c0 /\ p2 c1 = p2 c0 /\
      vle (getF c1) (getF c0) /\ vle (getB c1) (getB c0) /\
      (nt (mk2 k a) = false ->
         vle (getF c1) (turn_of p1 p2 (mk2 k) pen a c0) /\ vle (getB c1) (turn_of p1 p2 (mk2 k) pen a c0)).
  Proof.
    intros (l2 & H & Hc). destruct (gsweep_In _ _ _ H) as (l & Hl & ->).
    destruct (Forall2_In_r _ _ _ _ (line_sweep_rel k l) Hc) as ([a0 c0] & Hin & R).
    destruct R as (R1 & R2 & R3 & R4 & R5 & R6). cbn [fst snd] in *. subst a0.
    exists c0. split; [exists l; auto|]. auto.
  Qed.

  Lemma gsweep_adj g k l a b : In (k, l) (gsweep g) -> consecutive l a b -> blocked2 k (fst a) (fst b) = false ->
    (no (mk2 k (fst a)) = false -> ni (mk2 k (fst b)) = false -> vle (getF (snd b)) (vadd (getF (snd a)) (Z.abs (fst b - fst a)))) /\
    (no (mk2 k (fst b)) = false -> ni (mk2 k (fst a)) = false -> vle (getB (snd a)) (vadd (getB (snd b)) (Z.abs (fst b - fst a)))).
  Proof.
    intros H C Hb. destruct (gsweep_In _ _ _ H) as (l0 & Hl & ->).
    eapply dsweep_adj; eauto.
  Qed.

  Lemma gsweep_nn g : (forall x y c, At g x y c -> cnn c) -> forall x y c, At (gsweep g) x y c -> cnn c.
  Proof.
    intros Hg x y c (l2 & H & Hc). destruct (gsweep_In _ _ _ H) as (l & Hl & ->).
    change c with (snd (x, c)).
    eapply (dsweep_nn getF setF getB setB p1 p2 (mk2 y) pen (blocked2 y) nt ni no); eauto.
    intros [a0 c0] Ha. cbn [snd]. eapply Hg. exists l. eauto.
  Qed.
End GridSweep.

Lemma sweep_rows_eq rs pen nt ni no g :
  sweep_rows rs pen nt ni no g =
  gsweep cE setE cW setW cN cS (fun y x => (x, y)) pen (fun y a b => hblocked rs (Z.min a b) (Z.max a b) y) nt ni no g.
Proof. unfold sweep_rows, gsweep. apply map_ext. intros [y l]. reflexivity. Qed.
Lemma sweep_cols_eq rs pen nt ni no g :
  sweep_cols rs pen nt ni no g =
  gsweep cS setS cN setN cE cW (fun x y => (x, y)) pen (fun x a b => vblocked rs (Z.min a b) (Z.max a b) x) nt ni no g.
Proof. unfold sweep_cols, gsweep. apply map_ext. intros [x l]. reflexivity. Qed.

(* ------------------------------------------------------------------ equal signatures = equal costs, cell by cell *)
Definition ceq (c c' : cell) : Prop :=
  vcost (cN c) = vcost (cN c') /\ vcost (cE c) = vcost (cE c') /\
  vcost (cS c) = vcost (cS c') /\ vcost (cW c) = vcost (cW c').
Definition sigc (xc : Z * cell) : list Z :=
  let c := snd xc in [vcost (cN c); vcost (cE c); vcost (cS c); vcost (cW c)].
Definition line_eq (l l' : list (Z * cell)) : Prop :=
  Forall2 (fun a a' => fst a = fst a' /\ ceq (snd a) (snd a')) l l'.

Lemma zlist_eqb_eq : forall a b, zlist_eqb a b = true -> a = b.
Proof.
  induction a as [|x a IH]; intros [|y b] H; cbn in H; try discriminate; [reflexivity|].
  apply andb_true_iff in H. destruct H as [E H]. apply Z.eqb_eq in E. subst. f_equal. apply IH. exact H.
Qed.

Lemma sig_line : forall l l' R R', map fst l = map fst l' ->
  flat_map sigc l ++ R = flat_map sigc l' ++ R' -> line_eq l l' /\ R = R'.
Proof.
  induction l as [|a l IH]; intros [|a' l'] R R' Hm H; cbn [map] in Hm; try discriminate.
  - cbn in H. split; [constructor|exact H].
  - cbn [flat_map] in H. unfold sigc at 1 3 in H. cbn [app] in H. inversion H as [[E1 E2 E3 E4 E5]]. inversion Hm.
    destruct (IH l' R R' ltac:(assumption) E5) as [F ER]. split; [|exact ER].
    constructor; [|exact F]. split; [assumption|]. unfold ceq. auto.
Qed.

Lemma signature_cons r g : signature (r :: g) = flat_map sigc (snd r) ++ signature g.
Proof. reflexivity. Qed.

Lemma sig_grid xs : forall g g', map fst g = map fst g' ->
  (forall k l, In (k, l) g -> map fst l = xs) -> (forall k l, In (k, l) g' -> map fst l = xs) ->
  signature g = signature g' ->
  Forall2 (fun r r' => fst r = fst r' /\ line_eq (snd r) (snd r')) g g'.
Proof.
  induction g as [|[k l] g IH]; intros [|[k' l'] g'] Hm W W' H; cbn [map] in Hm; try discriminate; [constructor|].
  rewrite !signature_cons in H. cbn [fst snd] in *. inversion Hm; subst.
  assert (El : map fst l = map fst l').
  { rewrite (W k' l (or_introl eq_refl)), (W' k' l' (or_introl eq_refl)). reflexivity. }
  destruct (sig_line l l' _ _ El H) as [F ER].
  constructor; [split; [reflexivity|exact F]|].
  apply IH; try assumption; intros; [eapply W|eapply W']; right; eassumption.
Qed.

Lemma sig_At g g' x y c :
  Forall2 (fun r r' => fst r = fst r' /\ line_eq (snd r) (snd r')) g g' ->
  At g x y c -> exists c', At g' x y c' /\ ceq c c'.
Proof.
  intros F (l & Hl & Hc).
  destruct (Forall2_In_l _ _ _ _ F Hl) as ([y' l'] & Hl' & E & FL). cbn [fst snd] in *. subst y'.
  destruct (Forall2_In_l _ _ _ _ FL Hc) as ([x' c'] & Hc' & E & Q). cbn [fst snd] in *. subst x'.
  exists c'. split; [exists l'; auto|exact Q].
Qed.

Lemma vcost_eq_vle a b : vcost a = vcost b -> vnn b -> vle a b.
Proof. destruct a as [[ca pa]|], b as [[cb pb]|]; cbn; intros; try lia; exact I. Qed.
Lemma vle_vmin_glb c a b : vle c a -> vle c b -> vle c (vmin a b).
Proof.
  destruct a as [[ca pa]|], b as [[cb pb]|]; cbn [vmin]; try tauto.
  destruct (cb <? ca); tauto.
Qed.
Lemma vmin_mono a a' b b' : vle a a' -> vle b b' -> vle (vmin a b) (vmin a' b').
Proof.
  intros A B. apply vle_vmin_glb; [eapply vle_trans; [apply vmin_le_l|exact A]|eapply vle_trans; [apply vmin_le_r|exact B]].
Qed.

(* ------------------------------------------------------------------ one round *)
Definition gnn (g : grid) : Prop := forall x y c, At g x y c -> cnn c.

Definition Closed (rs : list rect) (pen : Z) (nt ni no : zp -> bool) (xs ys : list Z) (g : grid) : Prop :=
  (forall x x' y c c', consecutive xs x x' -> At g x y c -> At g x' y c' ->
     hblocked rs (Z.min x x') (Z.max x x') y = false ->
     (no (x, y) = false -> ni (x', y) = false -> vle (cE c') (vadd (cE c) (Z.abs (x' - x)))) /\
     (no (x', y) = false -> ni (x, y) = false -> vle (cW c) (vadd (cW c') (Z.abs (x' - x))))) /\
  (forall x y y' c c', consecutive ys y y' -> At g x y c -> At g x y' c' ->
     vblocked rs (Z.min y y') (Z.max y y') x = false ->
     (no (x, y) = false -> ni (x, y') = false -> vle (cS c') (vadd (cS c) (Z.abs (y' - y)))) /\
     (no (x, y') = false -> ni (x, y) = false -> vle (cN c) (vadd (cN c') (Z.abs (y' - y))))) /\
  (forall x y c, At g x y c -> nt (x, y) = false ->
     vle (cE c) (vturn (vmin (cN c) (cS c)) pen (x, y)) /\ vle (cW c) (vturn (vmin (cN c) (cS c)) pen (x, y)) /\
     vle (cN c) (vturn (vmin (cE c) (cW c)) pen (x, y)) /\ vle (cS c) (vturn (vmin (cE c) (cW c)) pen (x, y))).

Lemma zp_eqb_false a b : a <> b -> zp_eqb a b = false.
Proof. intro H. destruct (zp_eqb a b) eqn:E; [|reflexivity]. apply zp_eqb_spec in E. contradiction. Qed.

Lemma cnn_set c v : cnn c -> vnn v -> cnn (setN c v) /\ cnn (setE c v) /\ cnn (setS c v) /\ cnn (setW c v).
Proof. unfold cnn. cbn. tauto. Qed.

Section Round.
  Variables (rs : list rect) (pen : Z) (nt ni no : zp -> bool) (xs ys : list Z).
  Hypothesis pen_nn : 0 <= pen.
  Hypothesis NDx : NoDup xs.
  Hypothesis NDy : NoDup ys.
  Hypothesis NEx : xs <> [].
  Hypothesis NEy : ys <> [].

  Let hb := fun y a b => hblocked rs (Z.min a b) (Z.max a b) y.
  Let vb := fun x a b => vblocked rs (Z.min a b) (Z.max a b) x.
  Let RS := gsweep cE setE cW setW cN cS (fun y x => (x, y)) pen hb nt ni no.
  Let CS := gsweep cS setS cN setN cE cW (fun x y => (x, y)) pen vb nt ni no.

  Lemma hb_sym y a b : hb y a b = hb y b a.
  Proof. unfold hb. rewrite Z.min_comm, Z.max_comm. reflexivity. Qed.
  Lemma vb_sym x a b : vb x a b = vb x b a.
  Proof. unfold vb. rewrite Z.min_comm, Z.max_comm. reflexivity. Qed.

  Lemma round_eq g : round rs pen nt ni no g = transpose (CS (transpose (RS g))).
  Proof. unfold round, RS, CS. rewrite sweep_rows_eq, sweep_cols_eq. reflexivity. Qed.

  Section OneGrid.
  Variable g : grid.
  Hypothesis W : wf g ys xs.
  Let G1 := RS g.
  Let G2 := transpose G1.
  Let G3 := CS G2.
  Let g' := transpose G3.

  Lemma W1 : wf G1 ys xs.
  Proof. apply gsweep_wf; first [exact W|reflexivity]. Qed.
  Lemma W2 : wf G2 xs ys.
  Proof. apply (transpose_spec G1 ys xs W1 NEy). Qed.
  Lemma W3 : wf G3 xs ys.
  Proof. apply gsweep_wf; first [exact W2|reflexivity]. Qed.
  Lemma W4 : wf g' ys xs.
  Proof. apply (transpose_spec G3 xs ys W3 NEx). Qed.

  Lemma At_g'_G3 x y c : At g' x y c <-> At G3 y x c.
  Proof. apply (transpose_spec G3 xs ys W3 NEx). Qed.
  Lemma At_G2_G1 x y c : At G2 y x c <-> At G1 x y c.
  Proof. apply (transpose_spec G1 ys xs W1 NEy). Qed.

  (* the history of the cell at (x, y) through the round *)
  Lemma round_cell x y c' : At g' x y c' ->
    exists c0 c2, At g x y c0 /\ At G1 x y c2 /\
      cN c2 = cN c0 /\ cS c2 = cS c0 /\ vle (cE c2) (cE c0) /\ vle (cW c2) (cW c0) /\
      (nt (x, y) = false -> vle (cE c2) (vturn (vmin (cN c0) (cS c0)) pen (x, y)) /\
                         vle (cW c2) (vturn (vmin (cN c0) (cS c0)) pen (x, y))) /\
      cE c' = cE c2 /\ cW c' = cW c2 /\ vle (cS c') (cS c2) /\ vle (cN c') (cN c2) /\
      (nt (x, y) = false -> vle (cS c') (vturn (vmin (cE c2) (cW c2)) pen (x, y)) /\
                         vle (cN c') (vturn (vmin (cE c2) (cW c2)) pen (x, y))).
  Proof.
    intro A. apply At_g'_G3 in A.
    destruct (gsweep_rel cS setS cN setN cE cW (fun x y => (x, y)) pen vb nt ni no
                ltac:(reflexivity) ltac:(reflexivity) ltac:(reflexivity) ltac:(reflexivity)
                ltac:(reflexivity) ltac:(reflexivity) ltac:(reflexivity) ltac:(reflexivity) G2 y x c' A)
      as (c2 & A2 & B1 & B2 & B3 & B4 & B5).
    apply At_G2_G1 in A2.
    destruct (gsweep_rel cE setE cW setW cN cS (fun y x => (x, y)) pen hb nt ni no
                ltac:(reflexivity) ltac:(reflexivity) ltac:(reflexivity) ltac:(reflexivity)
                ltac:(reflexivity) ltac:(reflexivity) ltac:(reflexivity) ltac:(reflexivity) g x y c2 A2)
      as (c0 & A0 & D1 & D2 & D3 & D4 & D5).
    exists c0, c2. repeat split; try assumption.
    - apply D5. assumption.
    - apply D5. assumption.
    - apply B5. assumption.
    - apply B5. assumption.
  Qed.

  Lemma round_mono x y c' : At g' x y c' ->
    exists c0, At g x y c0 /\ vle (cN c') (cN c0) /\ vle (cE c') (cE c0) /\ vle (cS c') (cS c0) /\ vle (cW c') (cW c0).
  Proof.
    intro A. destruct (round_cell x y c' A) as (c0 & c2 & A0 & _ & R1 & R2 & R3 & R4 & _ & R6 & R7 & R8 & R9 & _).
    exists c0. rewrite R6, R7, <- R1, <- R2. auto.
  Qed.

  Lemma round_nn : gnn g -> gnn g'.
  Proof.
    intros Hg x y c A. apply At_g'_G3 in A. revert y x c A.
    apply (gsweep_nn cS setS cN setN cE cW (fun x y => (x, y)) pen vb nt ni no pen_nn); try (intros c v Hc Hv; apply cnn_set; assumption);
      try (intros c Hc; apply Hc).
    intros y x c A. apply At_G2_G1 in A. revert x y c A.
    apply (gsweep_nn cE setE cW setW cN cS (fun y x => (x, y)) pen hb nt ni no pen_nn); try (intros c v Hc Hv; apply cnn_set; assumption);
      try (intros c Hc; apply Hc).
    exact Hg.
  Qed.

  Lemma round_closed : gnn g -> signature g = signature g' -> Closed rs pen nt ni no xs ys g'.
  Proof.
    intros Hg Hsig.
    pose proof W1 as HW1. pose proof W3 as HW3. pose proof W4 as HW4.
    assert (SG : forall x y c0 c', At g x y c0 -> At g' x y c' -> ceq c0 c').
    { pose proof (sig_grid xs g g') as F. destruct W as [Wa Wb]. destruct HW4 as [Wa' Wb'].
      specialize (F ltac:(congruence) Wb Wb' Hsig).
      intros x y c0 c' A0 A'. destruct (sig_At _ _ _ _ _ F A0) as (c'' & A'' & Q).
      rewrite (At_fun g' ys xs x y c' c'' (conj Wa' Wb') NDy NDx A' A''). exact Q. }
    pose proof (round_nn Hg) as Hg'.
    split; [|split].
    - (* horizontal moves *)
      intros x x' y c c' C A A' Hb.
      destruct (round_cell _ _ _ A) as (c0 & c2 & _ & A2 & _ & _ & _ & _ & _ & E1 & E2 & _).
      destruct (round_cell _ _ _ A') as (c0' & c2' & _ & A2' & _ & _ & _ & _ & _ & E1' & E2' & _).
      destruct A2 as (l & Hl & Hc2).
      destruct (wf_line_consecutive G1 ys xs y l x x' HW1 Hl C) as (e & e' & Ce).
      destruct (consecutive_In _ _ _ Ce) as [Ie Ie'].
      assert (e = c2) by (eapply (At_fun G1 ys xs x y); eauto; exists l; auto).
      assert (e' = c2') by (eapply (At_fun G1 ys xs x' y); eauto; exists l; auto). subst e e'.
      pose proof (gsweep_adj cE setE cW setW cN cS (fun y x => (x, y)) pen hb nt ni no
                    ltac:(reflexivity) ltac:(reflexivity) ltac:(reflexivity) hb_sym
                    g y l (x, c2) (x', c2') Hl Ce Hb) as [M1 M2].
      cbn [fst snd] in M1, M2. rewrite E1, E2, E1', E2'. split; assumption.
    - (* vertical moves *)
      intros x y y' c c' C A A' Hb.
      apply At_g'_G3 in A. apply At_g'_G3 in A'.
      destruct A as (l & Hl & Hc).
      destruct (wf_line_consecutive G3 xs ys x l y y' HW3 Hl C) as (e & e' & Ce).
      destruct (consecutive_In _ _ _ Ce) as [Ie Ie'].
      assert (e = c) by (eapply (At_fun G3 xs ys y x); eauto; exists l; auto).
      assert (e' = c') by (eapply (At_fun G3 xs ys y' x); eauto; exists l; auto). subst e e'.
      pose proof (gsweep_adj cS setS cN setN cE cW (fun x y => (x, y)) pen vb nt ni no
                    ltac:(reflexivity) ltac:(reflexivity) ltac:(reflexivity) vb_sym
                    G2 x l (y, c) (y', c') Hl Ce Hb) as [M1 M2].
      cbn [fst snd] in M1, M2. split; assumption.
    - (* turns *)
      intros x y c A Hne.
      destruct (round_cell _ _ _ A) as (c0 & c2 & A0 & _ & R1 & R2 & _ & _ & R5 & E1 & E2 & _ & _ & R10).
      destruct (R5 Hne) as [T1 T2]. destruct (R10 Hne) as [T3 T4].
      destruct (SG _ _ _ _ A0 A) as (Q1 & _ & Q3 & _).
      destruct (Hg' _ _ _ A) as (P1 & _ & P3 & _).
      assert (V : vle (vmin (cN c0) (cS c0)) (vmin (cN c) (cS c))).
      { apply vmin_mono; apply vcost_eq_vle; assumption. }
      rewrite E1, E2. repeat split.
      + eapply vle_trans; [exact T1|]. apply vturn_mono. exact V.
      + eapply vle_trans; [exact T2|]. apply vturn_mono. exact V.
      + exact T4.
      + exact T3.
  Qed.
  End OneGrid.
End Round.

(* ------------------------------------------------------------------ the Hanan coordinates *)
From Coq Require Import Sorting.Sorted.

Lemma zinsert_In x l : In x (zinsert x l) /\ forall a, In a l -> In a (zinsert x l).
Proof.
  induction l as [|h t [IH1 IH2]]; cbn [zinsert]; [cbn; tauto|].
  destruct (x <? h); [cbn; tauto|]. destruct (x =? h) eqn:E.
  - apply Z.eqb_eq in E. subst. cbn; tauto.
  - split; [right; exact IH1|]. intros a [->|Ha]; [left; reflexivity|right; apply IH2; exact Ha].
Qed.

Lemma zinsert_In_same x l : In x (zinsert x l).
Proof. exact (proj1 (zinsert_In x l)). Qed.
Lemma zinsert_In_old x l a : In a l -> In a (zinsert x l).
Proof. exact (proj2 (zinsert_In x l) a). Qed.

Lemma zinsert_HdRel h x t : HdRel Z.lt h t -> h < x -> HdRel Z.lt h (zinsert x t).
Proof.
  intros H Hx. destruct t as [|h2 t2]; cbn [zinsert]; [constructor; exact Hx|].
  inversion H; subst. destruct (x <? h2); [constructor; exact Hx|]. destruct (x =? h2); constructor; assumption.
Qed.

Lemma zinsert_sorted x l : Sorted Z.lt l -> Sorted Z.lt (zinsert x l).
Proof.
  induction l as [|h t IH]; intro S; cbn [zinsert]; [repeat constructor|].
  inversion S as [|? ? St Hd]; subst.
  destruct (x <? h) eqn:E1.
  - apply Z.ltb_lt in E1. constructor; [exact S|constructor; exact E1].
  - destruct (x =? h) eqn:E2; [exact S|].
    apply Z.ltb_ge in E1. apply Z.eqb_neq in E2.
    constructor; [apply IH; exact St|apply zinsert_HdRel; [exact Hd|lia]].
Qed.

Lemma sorted_NoDup l : Sorted Z.lt l -> NoDup l.
Proof.
  intro S. apply Sorted_StronglySorted in S; [|intros a b c; apply Z.lt_trans].
  induction S as [|a l S IH F]; constructor; [|exact IH].
  intro Hin. rewrite Forall_forall in F. specialize (F a Hin). lia.
Qed.

Lemma fold_left_inv' {A B} (f : A -> B -> A) (P : A -> Prop) l :
  (forall a b, P a -> P (f a b)) -> forall a, P a -> P (fold_left f l a).
Proof. intro H. induction l as [|b l IH]; intros a Pa; [exact Pa|]. cbn. apply IH. apply H. exact Pa. Qed.

Lemma hanan_xs_ok rs src dst :
  let xs := hanan_xs rs src dst in NoDup xs /\ In (fst src) xs /\ In (fst dst) xs.
Proof.
  cbn zeta. unfold hanan_xs.
  set (P := fun acc : list Z => Sorted Z.lt acc /\ In (fst src) acc /\ In (fst dst) acc).
  assert (H : P (fold_left (fun acc r => zinsert (rx0 r) (zinsert (rx1 r) acc)) rs (zinsert (fst src) [fst dst]))).
  { apply fold_left_inv'.
    - intros a r (S & I1 & I2). split; [apply zinsert_sorted, zinsert_sorted; exact S|].
      split; apply zinsert_In_old, zinsert_In_old; assumption.
    - split; [apply zinsert_sorted; repeat constructor|].
      split; [apply zinsert_In_same|apply zinsert_In_old; left; reflexivity]. }
  destruct H as (S & I1 & I2). split; [apply sorted_NoDup; exact S|auto].
Qed.
Lemma hanan_ys_ok rs src dst :
  let ys := hanan_ys rs src dst in NoDup ys /\ In (snd src) ys /\ In (snd dst) ys.
Proof.
  cbn zeta. unfold hanan_ys.
  set (P := fun acc : list Z => Sorted Z.lt acc /\ In (snd src) acc /\ In (snd dst) acc).
  assert (H : P (fold_left (fun acc r => zinsert (ry0 r) (zinsert (ry1 r) acc)) rs (zinsert (snd src) [snd dst]))).
  { apply fold_left_inv'.
    - intros a r (S & I1 & I2). split; [apply zinsert_sorted, zinsert_sorted; exact S|].
      split; apply zinsert_In_old, zinsert_In_old; assumption.
    - split; [apply zinsert_sorted; repeat constructor|].
      split; [apply zinsert_In_same|apply zinsert_In_old; left; reflexivity]. }
  destruct H as (S & I1 & I2). split; [apply sorted_NoDup; exact S|auto].
Qed.

(* ------------------------------------------------------------------ the grid graph and its walks *)
Definition gstate := (zp * Z)%type.
Definition perp (d d' : Z) : Prop :=
  ((d = 0 \/ d = 2) /\ (d' = 1 \/ d' = 3)) \/ ((d = 1 \/ d = 3) /\ (d' = 0 \/ d' = 2)).

Section GridGraph.
  Variables (rs : list rect) (xs ys : list Z) (pen : Z) (nt ni no : zp -> bool).

  Inductive gstep : gstate -> gstate -> Z -> Prop :=
  | gs_E x x' y : In y ys -> consecutive xs x x' -> hblocked rs (Z.min x x') (Z.max x x') y = false ->
                  no (x, y) = false -> ni (x', y) = false ->
                  gstep ((x, y), 1) ((x', y), 1) (Z.abs (x' - x))
  | gs_W x x' y : In y ys -> consecutive xs x' x -> hblocked rs (Z.min x' x) (Z.max x' x) y = false ->
                  no (x, y) = false -> ni (x', y) = false ->
                  gstep ((x, y), 3) ((x', y), 3) (Z.abs (x - x'))
  | gs_S x y y' : In x xs -> consecutive ys y y' -> vblocked rs (Z.min y y') (Z.max y y') x = false ->
                  no (x, y) = false -> ni (x, y') = false ->
                  gstep ((x, y), 2) ((x, y'), 2) (Z.abs (y' - y))
  | gs_N x y y' : In x xs -> consecutive ys y' y -> vblocked rs (Z.min y' y) (Z.max y' y) x = false ->
                  no (x, y) = false -> ni (x, y') = false ->
                  gstep ((x, y), 0) ((x, y'), 0) (Z.abs (y - y'))
  | gs_turn x y d d' : In x xs -> In y ys -> nt (x, y) = false -> perp d d' ->
                  gstep ((x, y), d) ((x, y), d') pen.

  Inductive gwalk (s0 : gstate) : gstate -> Z -> Prop :=
  | gw_nil : gwalk s0 s0 0
  | gw_snoc st st' C c : gwalk s0 st C -> gstep st st' c -> gwalk s0 st' (C + c).
End GridGraph.

Definition fld (d : Z) (c : cell) : val :=
  if d =? 0 then cN c else if d =? 1 then cE c else if d =? 2 then cS c else cW c.

Lemma vle_Some_add a C k : vle a (Some (C, [])) -> vle (vadd a k) (Some (C + k, [])).
Proof. destruct a as [[ca pa]|]; cbn; [lia|tauto]. Qed.
Lemma vle_Some_turn a C pen p : vle a (Some (C, [])) -> vle (vturn a pen p) (Some (C + pen, [])).
Proof. destruct a as [[ca pa]|]; cbn; [lia|tauto]. Qed.

Section Walks.
  Variables (rs : list rect) (xs ys : list Z) (pen : Z) (src : zp) (nt ni no : zp -> bool) (sd : Z) (g : grid).
  Hypothesis NDx : NoDup xs.
  Hypothesis NDy : NoDup ys.
  Hypothesis Wg : wf g ys xs.
  Hypothesis Cg : Closed rs pen nt ni no xs ys g.
  Hypothesis Sx : In (fst src) xs.
  Hypothesis Sy : In (snd src) ys.
  Hypothesis Bg : forall c, At g (fst src) (snd src) c ->
                  forall d, 0 <= d <= 3 -> dir_allowed sd d = true -> vle (fld d c) (Some (0, [])).

  Lemma walk_bound d0 : 0 <= d0 <= 3 -> dir_allowed sd d0 = true ->
    forall st C, gwalk rs xs ys pen nt ni no (src, d0) st C ->
      0 <= snd st <= 3 /\ exists c, At g (fst (fst st)) (snd (fst st)) c /\ vle (fld (snd st) c) (Some (C, [])).
  Proof.
    intros Hd0 Ha st C Hw. destruct Cg as (CH & CV & CT).
    induction Hw as [|st st' C c Hw IH Hs].
    - cbn [fst snd]. split; [exact Hd0|].
      destruct (At_exists g ys xs _ _ Wg Sy Sx) as (c & Hc). exists c. split; [exact Hc|]. apply Bg; assumption.
    - destruct IH as (Hr & c0 & A0 & V0).
      destruct Hs as [x x' y Hy Cx Hb Hno Hni|x x' y Hy Cx Hb Hno Hni|x y y' Hx Cy Hb Hno Hni|x y y' Hx Cy Hb Hno Hni|x y d d' Hx Hy Hne Hp];
        cbn [fst snd] in *.
      + split; [lia|]. destruct (consecutive_In _ _ _ Cx) as [_ Ix'].
        destruct (At_exists g ys xs x' y Wg Hy Ix') as (c' & A').
        exists c'. split; [exact A'|].
        destruct (CH x x' y c0 c' Cx A0 A' Hb) as [M _].
        eapply vle_trans; [exact (M Hno Hni)|]. apply vle_Some_add. exact V0.
      + split; [lia|]. destruct (consecutive_In _ _ _ Cx) as [Ix' _].
        destruct (At_exists g ys xs x' y Wg Hy Ix') as (c' & A').
        exists c'. split; [exact A'|].
        destruct (CH x' x y c' c0 Cx A' A0 Hb) as [_ M].
        eapply vle_trans; [exact (M Hno Hni)|]. apply vle_Some_add. exact V0.
      + split; [lia|]. destruct (consecutive_In _ _ _ Cy) as [_ Iy'].
        destruct (At_exists g ys xs x y' Wg Iy' Hx) as (c' & A').
        exists c'. split; [exact A'|].
        destruct (CV x y y' c0 c' Cy A0 A' Hb) as [M _].
        eapply vle_trans; [exact (M Hno Hni)|]. apply vle_Some_add. exact V0.
      + split; [lia|]. destruct (consecutive_In _ _ _ Cy) as [Iy' _].
        destruct (At_exists g ys xs x y' Wg Iy' Hx) as (c' & A').
        exists c'. split; [exact A'|].
        destruct (CV x y' y c' c0 Cy A' A0 Hb) as [_ M].
        eapply vle_trans; [exact (M Hno Hni)|]. apply vle_Some_add. exact V0.
      + destruct (CT x y c0 A0 Hne) as (T1 & T2 & T3 & T4).
        split; [unfold perp in Hp; lia|]. exists c0. split; [exact A0|].
        assert (VNS : d = 0 \/ d = 2 -> vle (vmin (cN c0) (cS c0)) (Some (C, []))).
        { intros [->| ->]; cbn in V0; (eapply vle_trans; [|exact V0]); [apply vmin_le_l|apply vmin_le_r]. }
        assert (VEW : d = 1 \/ d = 3 -> vle (vmin (cE c0) (cW c0)) (Some (C, []))).
        { intros [->| ->]; cbn in V0; (eapply vle_trans; [|exact V0]); [apply vmin_le_l|apply vmin_le_r]. }
        destruct Hp as [[Hd [->| ->]]|[Hd [->| ->]]]; cbn [fld Z.eqb];
          (eapply vle_trans; [|apply vle_Some_turn; first [apply VNS; exact Hd|apply VEW; exact Hd]]); eassumption.
  Qed.
End Walks.

(* ------------------------------------------------------------------ the initial grid, the iteration, the lookup *)
Definition cell_init (src : zp) (sd x y : Z) : cell :=
  if Z.eqb x (fst src) && Z.eqb y (snd src)
  then let v := fun d => if dir_allowed sd d then Some (0, [src]) else None in mkcell (v 0) (v 1) (v 2) (v 3)
  else mkcell None None None None.

Lemma init_grid_At xs ys src sd x y c : At (init_grid xs ys src sd) x y c -> c = cell_init src sd x y.
Proof.
  intros (l & Hl & Hc). unfold init_grid in Hl. apply in_map_iff in Hl. destruct Hl as (y' & E & _).
  inversion E; subst. apply in_map_iff in Hc. destruct Hc as (x' & E' & _). inversion E'; subst. reflexivity.
Qed.

Lemma init_grid_wf xs ys src sd : wf (init_grid xs ys src sd) ys xs.
Proof.
  split.
  - unfold init_grid. rewrite map_map. cbn [fst]. apply map_id.
  - intros k l H. unfold init_grid in H. apply in_map_iff in H. destruct H as (y & E & _). inversion E; subst.
    rewrite map_map. cbn [fst]. apply map_id.
Qed.

Lemma init_grid_nn xs ys src sd : gnn (init_grid xs ys src sd).
Proof.
  intros x y c A. rewrite (init_grid_At _ _ _ _ _ _ _ A). unfold cell_init.
  destruct (_ && _); unfold cnn; cbn [cN cE cS cW].
  - repeat split; match goal with |- vnn (if ?b then _ else _) => destruct b end; cbn; try lia; exact I.
  - repeat split; exact I.
Qed.

Definition src_ok (src : zp) (sd : Z) (g : grid) : Prop :=
  forall c, At g (fst src) (snd src) c ->
  forall d, 0 <= d <= 3 -> dir_allowed sd d = true -> vle (fld d c) (Some (0, [])).

Lemma init_grid_src xs ys src sd : src_ok src sd (init_grid xs ys src sd).
Proof.
  intros c A d Hd Ha. rewrite (init_grid_At _ _ _ _ _ _ _ A). unfold cell_init. rewrite !Z.eqb_refl. cbn [andb].
  assert (D : d = 0 \/ d = 1 \/ d = 2 \/ d = 3) by lia.
  destruct D as [->|[->|[->| ->]]]; cbn [fld Z.eqb cN cE cS cW]; rewrite Ha; cbn; lia.
Qed.

Lemma lookup_At g p c : lookup g p = Some c -> At g (fst p) (snd p) c.
Proof.
  unfold lookup. destruct (find (fun row => fst row =? snd p) g) as [[y l]|] eqn:E1; [|discriminate].
  destruct (find (fun xc => fst xc =? fst p) l) as [[x c']|] eqn:E2; [|discriminate].
  intro H. inversion H; subst c'. apply find_some in E1, E2. cbn [fst] in *.
  destruct E1 as [I1 Q1], E2 as [I2 Q2]. apply Z.eqb_eq in Q1, Q2. subst. exists l. auto.
Qed.

Lemma lookup_None g ys xs p : wf g ys xs -> In (snd p) ys -> In (fst p) xs -> lookup g p <> None.
Proof.
  intros [Wa Wb] Hy Hx. unfold lookup.
  destruct (find (fun row => fst row =? snd p) g) as [[y l]|] eqn:E1.
  - apply find_some in E1. destruct E1 as [I1 _].
    destruct (find (fun xc => fst xc =? fst p) l) as [[x c']|] eqn:E2; [discriminate|].
    rewrite <- (Wb _ _ I1) in Hx. destruct (In_map_fst _ _ Hx) as (c & Hc).
    pose proof (find_none _ _ E2 _ Hc) as Q. cbn [fst] in Q. rewrite Z.eqb_refl in Q. discriminate.
  - rewrite <- Wa in Hy. destruct (In_map_fst _ _ Hy) as (l & Hl).
    pose proof (find_none _ _ E1 _ Hl) as Q. cbn [fst] in Q. rewrite Z.eqb_refl in Q. discriminate.
Qed.

Section Iterate.
  Variables (rs : list rect) (pen : Z) (src : zp) (nt ni no : zp -> bool) (sd : Z) (xs ys : list Z).
  Hypothesis pen_nn : 0 <= pen.
  Hypothesis NDx : NoDup xs.
  Hypothesis NDy : NoDup ys.
  Hypothesis NEx : xs <> [].
  Hypothesis NEy : ys <> [].

  Lemma round_inv g : wf g ys xs -> gnn g -> src_ok src sd g ->
    wf (round rs pen nt ni no g) ys xs /\ gnn (round rs pen nt ni no g) /\ src_ok src sd (round rs pen nt ni no g).
  Proof.
    intros W Hn Hs. rewrite round_eq. split; [|split].
    - exact (W4 rs pen nt ni no xs ys NEx NEy g W).
    - exact (round_nn rs pen nt ni no xs ys pen_nn NEx NEy g W Hn).
    - intros c' A d Hd Ha.
      destruct (round_mono rs pen nt ni no xs ys NEx NEy g W _ _ _ A) as (c0 & A0 & M0 & M1 & M2 & M3).
      specialize (Hs c0 A0 d Hd Ha).
      assert (D : d = 0 \/ d = 1 \/ d = 2 \/ d = 3) by lia.
      destruct D as [->|[->|[->| ->]]]; cbn [fld Z.eqb] in *; eapply vle_trans; eassumption.
  Qed.

  Lemma iterate_inv : forall fuel g g', wf g ys xs -> gnn g -> src_ok src sd g ->
    iterate fuel rs pen nt ni no g = Some g' ->
    wf g' ys xs /\ src_ok src sd g' /\ Closed rs pen nt ni no xs ys g'.
  Proof.
    induction fuel as [|n IH]; intros g g' W Hn Hs H; cbn [iterate] in H; [discriminate|].
    destruct (round_inv g W Hn Hs) as (W' & Hn' & Hs').
    destruct (zlist_eqb (signature g) (signature (round rs pen nt ni no g))) eqn:E.
    - inversion H; subst g'. split; [exact W'|]. split; [exact Hs'|].
      apply zlist_eqb_eq in E. revert E. rewrite round_eq. intro E.
      exact (round_closed rs pen nt ni no xs ys pen_nn NDx NDy NEx NEy g W Hn E).
    - eapply IH; eassumption.
  Qed.
End Iterate.

(* ------------------------------------------------------------------ main theorems *)
(* the turn restriction used by the search: no turn at the destination and none at the source *)
Lemma noturn_false src dst p : noturn src dst p = false <-> p <> dst /\ p <> src.
Proof.
  unfold noturn. rewrite orb_false_iff. split.
  - intros [A B]. split; intro E; subst p.
    + assert (H : zp_eqb dst dst = true) by (apply zp_eqb_spec; reflexivity). congruence.
    + assert (H : zp_eqb src src = true) by (apply zp_eqb_spec; reflexivity). congruence.
  - intros [A B]. split; apply zp_eqb_false; assumption.
Qed.

Section Main.
  Variables (rs : list rect) (src dst : zp) (pen sd ad : Z) (fuel : nat).
  Hypothesis pen_nn : 0 <= pen.
  Let xs := hanan_xs rs src dst.
  Let ys := hanan_ys rs src dst.

  Lemma search_facts r : search rs src dst pen sd ad fuel = Some r ->
    exists g, wf g ys xs /\ src_ok src sd g /\ Closed rs pen (noturn src dst) (fun p => zp_eqb p src) (fun p => zp_eqb p dst) xs ys g /\
      exists c, lookup g dst = Some c /\
        r = match vmin (vmin (if dir_allowed ad 0 then cN c else None) (if dir_allowed ad 1 then cE c else None))
                       (vmin (if dir_allowed ad 2 then cS c else None) (if dir_allowed ad 3 then cW c else None)) with
            | None => None
            | Some (k, p) => Some (k, rev (dst :: p))
            end.
  Proof.
    unfold search. fold xs ys.
    destruct (hanan_xs_ok rs src dst) as (NDx & Sx & Dx). destruct (hanan_ys_ok rs src dst) as (NDy & Sy & Dy).
    fold xs in NDx, Sx, Dx. fold ys in NDy, Sy, Dy.
    assert (NEx : xs <> []) by (intro E; rewrite E in Sx; destruct Sx).
    assert (NEy : ys <> []) by (intro E; rewrite E in Sy; destruct Sy).
    destruct (iterate fuel rs pen (noturn src dst) (fun p => zp_eqb p src) (fun p => zp_eqb p dst) (init_grid xs ys src sd)) as [g|] eqn:It; [|discriminate].
    destruct (iterate_inv rs pen src (noturn src dst) (fun p => zp_eqb p src) (fun p => zp_eqb p dst) sd xs ys pen_nn NDx NDy NEx NEy fuel _ g
                (init_grid_wf xs ys src sd) (init_grid_nn xs ys src sd) (init_grid_src xs ys src sd) It)
      as (W & Hs & Cl).
    intro H. exists g. split; [exact W|]. split; [exact Hs|]. split; [exact Cl|].
    destruct (lookup g dst) as [c|] eqn:L; [|exfalso; exact (lookup_None g ys xs dst W Dy Dx L)].
    exists c. split; [reflexivity|]. cbv beta zeta in H.
    match type of H with match ?e with _ => _ end = _ => destruct e as [[k1 p1]|] end; inversion H; reflexivity.
  Qed.

  (* every walk of the grid graph ends with a label below its cost *)
  Lemma walk_label g c d0 d1 C : wf g ys xs -> src_ok src sd g -> Closed rs pen (noturn src dst) (fun p => zp_eqb p src) (fun p => zp_eqb p dst) xs ys g ->
    lookup g dst = Some c -> 0 <= d0 <= 3 -> dir_allowed sd d0 = true ->
    gwalk rs xs ys pen (noturn src dst) (fun p => zp_eqb p src) (fun p => zp_eqb p dst) (src, d0) (dst, d1) C -> 0 <= d1 <= 3 /\ vle (fld d1 c) (Some (C, [])).
  Proof.
    intros W Hs Cl L Hd0 Ha Hw.
    destruct (hanan_xs_ok rs src dst) as (NDx & Sx & Dx). destruct (hanan_ys_ok rs src dst) as (NDy & Sy & Dy).
    fold xs in NDx, Sx, Dx. fold ys in NDy, Sy, Dy.
    destruct (walk_bound rs xs ys pen src (noturn src dst) (fun p => zp_eqb p src) (fun p => zp_eqb p dst) sd g W Cl Sx Sy Hs d0 Hd0 Ha _ _ Hw) as (Hr & c' & A' & V).
    cbn [fst snd] in *. split; [exact Hr|].
    rewrite (At_fun g ys xs _ _ c c' W NDy NDx (lookup_At _ _ _ L) A'). exact V.
  Qed.

  Theorem grid_oracle_optimal k p :
    oracle_dirs rs src dst pen sd ad fuel = OR_cost k p ->
    forall d0 d1 C, 0 <= d0 <= 3 -> dir_allowed sd d0 = true -> dir_allowed ad d1 = true ->
      gwalk rs xs ys pen (noturn src dst) (fun p => zp_eqb p src) (fun p => zp_eqb p dst) (src, d0) (dst, d1) C -> k <= C.
  Proof.
    unfold oracle_dirs. destruct (search rs src dst pen sd ad fuel) as [[[k0 p0]|]|] eqn:S; try discriminate.
    destruct (check_path_dirs rs src dst pen sd ad p0) as [k'|]; try discriminate.
    destruct (k0 =? k'); try discriminate. intro H. inversion H; subst k0 p0. clear H.
    destruct (search_facts _ S) as (g & W & Hs & Cl & c & L & E).
    intros d0 d1 C Hd0 Ha0 Ha1 Hw.
    destruct (walk_label g c d0 d1 C W Hs Cl L Hd0 Ha0 Hw) as [Hd1 V].
    set (f0 := if dir_allowed ad 0 then cN c else None) in *.
    set (f1 := if dir_allowed ad 1 then cE c else None) in *.
    set (f2 := if dir_allowed ad 2 then cS c else None) in *.
    set (f3 := if dir_allowed ad 3 then cW c else None) in *.
    assert (T : vle (vmin (vmin f0 f1) (vmin f2 f3)) (fld d1 c)).
    { assert (D : d1 = 0 \/ d1 = 1 \/ d1 = 2 \/ d1 = 3) by lia.
      destruct D as [->|[->|[->| ->]]]; cbn [fld Z.eqb].
      - replace (cN c) with f0 by (unfold f0; rewrite Ha1; reflexivity).
        eapply vle_trans; [apply vmin_le_l|apply vmin_le_l].
      - replace (cE c) with f1 by (unfold f1; rewrite Ha1; reflexivity).
        eapply vle_trans; [apply vmin_le_l|apply vmin_le_r].
      - replace (cS c) with f2 by (unfold f2; rewrite Ha1; reflexivity).
        eapply vle_trans; [apply vmin_le_r|apply vmin_le_l].
      - replace (cW c) with f3 by (unfold f3; rewrite Ha1; reflexivity).
        eapply vle_trans; [apply vmin_le_r|apply vmin_le_r]. }
    pose proof (vle_trans _ _ _ T V) as TV.
    destruct (vmin (vmin f0 f1) (vmin f2 f3)) as [[k1 p1]|]; [|discriminate].
    inversion E; subst. cbn in TV. exact TV.
  Qed.

  Theorem grid_oracle_unreachable :
    oracle_dirs rs src dst pen sd ad fuel = OR_unreachable ->
    forall d0 d1 C, 0 <= d0 <= 3 -> dir_allowed sd d0 = true -> dir_allowed ad d1 = true ->
      ~ gwalk rs xs ys pen (noturn src dst) (fun p => zp_eqb p src) (fun p => zp_eqb p dst) (src, d0) (dst, d1) C.
  Proof.
    unfold oracle_dirs. destruct (search rs src dst pen sd ad fuel) as [[[k0 p0]|]|] eqn:S; try discriminate.
    { destruct (check_path_dirs rs src dst pen sd ad p0) as [k'|]; [destruct (k0 =? k')|]; discriminate. }
    intros _ d0 d1 C Hd0 Ha0 Ha1 Hw.
    destruct (search_facts _ S) as (g & W & Hs & Cl & c & L & E).
    destruct (walk_label g c d0 d1 C W Hs Cl L Hd0 Ha0 Hw) as [Hd1 V].
    set (f0 := if dir_allowed ad 0 then cN c else None) in *.
    set (f1 := if dir_allowed ad 1 then cE c else None) in *.
    set (f2 := if dir_allowed ad 2 then cS c else None) in *.
    set (f3 := if dir_allowed ad 3 then cW c else None) in *.
    assert (T : vle (vmin (vmin f0 f1) (vmin f2 f3)) (fld d1 c)).
    { assert (D : d1 = 0 \/ d1 = 1 \/ d1 = 2 \/ d1 = 3) by lia.
      destruct D as [->|[->|[->| ->]]]; cbn [fld Z.eqb].
      - replace (cN c) with f0 by (unfold f0; rewrite Ha1; reflexivity).
        eapply vle_trans; [apply vmin_le_l|apply vmin_le_l].
      - replace (cE c) with f1 by (unfold f1; rewrite Ha1; reflexivity).
        eapply vle_trans; [apply vmin_le_l|apply vmin_le_r].
      - replace (cS c) with f2 by (unfold f2; rewrite Ha1; reflexivity).
        eapply vle_trans; [apply vmin_le_r|apply vmin_le_l].
      - replace (cW c) with f3 by (unfold f3; rewrite Ha1; reflexivity).
        eapply vle_trans; [apply vmin_le_r|apply vmin_le_r]. }
    pose proof (vle_trans _ _ _ T V) as TV.
    destruct (vmin (vmin f0 f1) (vmin f2 f3)) as [[k1 p1]|]; [discriminate|]. exact TV.
  Qed.
End Main.

(* the unrestricted oracle (all start and arrival directions allowed) *)
Theorem grid_oracle_optimal_plain rs src dst pen fuel k p :
  0 <= pen -> oracle rs src dst pen fuel = OR_cost k p ->
  forall d0 d1 C, 0 <= d0 <= 3 -> 0 <= d1 <= 3 ->
    gwalk rs (hanan_xs rs src dst) (hanan_ys rs src dst) pen (noturn src dst) (fun p => zp_eqb p src) (fun p => zp_eqb p dst) (src, d0) (dst, d1) C -> k <= C.
Proof.
  intros Hp H d0 d1 C Hd0 Hd1 Hw.
  assert (A : forall d, 0 <= d <= 3 -> dir_allowed 15 d = true).
  { intros d Hd. assert (D : d = 0 \/ d = 1 \/ d = 2 \/ d = 3) by lia. destruct D as [->|[->|[->| ->]]]; reflexivity. }
  exact (grid_oracle_optimal rs src dst pen 15 15 fuel Hp k p H d0 d1 C Hd0 (A d0 Hd0) (A d1 Hd1) Hw).
Qed.

(* ------------------------------------------------------------------ non-vacuity *)
(* scene of oracle_example: one rectangle between the endpoints, Hanan grid xs = [0;2;4;6], ys = [0;3;6].
   The 2-bend detour over the top of the rectangle is a walk of the grid graph of cost 32 = the oracle's answer, so
   the bound of grid_oracle_optimal is attained; the straight segment through the rectangle is blocked. *)
Example ex_hanan : hanan_xs [mkrect 2 0 4 6] (0, 3) (6, 3) = [0; 2; 4; 6] /\
                   hanan_ys [mkrect 2 0 4 6] (0, 3) (6, 3) = [0; 3; 6].
Proof. split; reflexivity. Qed.

Example ex_walk_32 :
  gwalk [mkrect 2 0 4 6] [0; 2; 4; 6] [0; 3; 6] 10 (noturn (0, 3) (6, 3)) (fun p => zp_eqb p (0, 3)) (fun p => zp_eqb p (6, 3)) ((0, 3), 0) ((6, 3), 2) 32.
Proof.
  assert (C01 : consecutive [0; 3; 6] 0 3) by constructor.
  assert (X02 : consecutive [0; 2; 4; 6] 0 2) by constructor.
  assert (X24 : consecutive [0; 2; 4; 6] 2 4) by (constructor; constructor).
  assert (X46 : consecutive [0; 2; 4; 6] 4 6) by (constructor; constructor; constructor).
  change 32 with (0 + Z.abs (3 - 0) + 10 + Z.abs (2 - 0) + Z.abs (4 - 2) + Z.abs (6 - 4) + 10 + Z.abs (3 - 0)).
  eapply gw_snoc; [eapply gw_snoc; [eapply gw_snoc; [eapply gw_snoc; [eapply gw_snoc; [eapply gw_snoc;
    [eapply gw_snoc; [apply gw_nil|] |] |] |] |] |] |].
  - apply (gs_N _ _ _ _ _ _ _ 0 3 0); [cbn; tauto|exact C01|reflexivity|reflexivity|reflexivity].
  - apply (gs_turn _ _ _ _ _ _ _ 0 0 0 1); [cbn; tauto|cbn; tauto|reflexivity|unfold perp; lia].
  - apply gs_E; [cbn; tauto|exact X02|reflexivity|reflexivity|reflexivity].
  - apply gs_E; [cbn; tauto|exact X24|reflexivity|reflexivity|reflexivity].
  - apply gs_E; [cbn; tauto|exact X46|reflexivity|reflexivity|reflexivity].
  - apply (gs_turn _ _ _ _ _ _ _ 6 0 1 2); [cbn; tauto|cbn; tauto|reflexivity|unfold perp; lia].
  - apply gs_S; [cbn; tauto|exact C01|reflexivity|reflexivity|reflexivity].
Qed.

Example ex_straight_blocked : hblocked [mkrect 2 0 4 6] 2 4 3 = true.
Proof. reflexivity. Qed.

(* the oracle's answer on this scene is exactly the cost of that walk: the lower bound is attained *)
Example ex_optimal_attained :
  exists p, oracle [mkrect 2 0 4 6] (0, 3) (6, 3) 10 20 = OR_cost 32 p /\
            gwalk [mkrect 2 0 4 6] (hanan_xs [mkrect 2 0 4 6] (0, 3) (6, 3)) (hanan_ys [mkrect 2 0 4 6] (0, 3) (6, 3))
                  10 (noturn (0, 3) (6, 3)) (fun p => zp_eqb p (0, 3)) (fun p => zp_eqb p (6, 3)) ((0, 3), 0) ((6, 3), 2) 32.
Proof. eexists. split; [vm_compute; reflexivity|exact ex_walk_32]. Qed.

(* direction-restricted endpoints (libavoid ConnDirFlags of free-floating connector ends; sd = mask of allowed directions of the FIRST
   segment, ad = mask of allowed travel directions of the LAST segment, i.e. the reverse of the side of the target the connector
   attaches to): source (0,3) may only be left northwards (towards smaller y), the target (6,3) entered travelling south; the
   cheapest such path is again the detour over the top, and the lower bound is attained by the same walk.  With the source
   restricted to leave WEST (sd = 8) the oracle has to go round the far side of the Hanan grid - there is no turn at the source. *)
Example ex_dirs_attained :
  exists p, oracle_dirs [mkrect 2 0 4 6] (0, 3) (6, 3) 10 1 4 20 = OR_cost 32 p /\
            gwalk [mkrect 2 0 4 6] (hanan_xs [mkrect 2 0 4 6] (0, 3) (6, 3)) (hanan_ys [mkrect 2 0 4 6] (0, 3) (6, 3))
                  10 (noturn (0, 3) (6, 3)) (fun p => zp_eqb p (0, 3)) (fun p => zp_eqb p (6, 3)) ((0, 3), 0) ((6, 3), 2) 32 /\
            dir_allowed 1 0 = true /\ dir_allowed 4 2 = true.
Proof. eexists. split; [vm_compute; reflexivity|]. split; [exact ex_walk_32|split; reflexivity]. Qed.

Example ex_no_turn_at_source :
  oracle_dirs [mkrect 2 0 4 6] (0, 3) (6, 3) 10 8 15 20 = OR_unreachable /\
  exists p, oracle_dirs [mkrect 2 0 4 6; mkrect (-3) 0 (-3) 6] (0, 3) (6, 3) 10 8 15 20 = OR_cost 48 p.
Proof. split; [vm_compute; reflexivity|]. eexists. vm_compute. reflexivity. Qed.
