(* Reference router for C03 / C04 / C06 (DESIGN 5.3, 5.4): exact visibility graph over the shape corners and
   the two endpoints, lengths floored to 1e-12, certifying Dijkstra.
     route_plain           : all visible edges, cost = sum of lengths           (segment penalty 0)
     route_taut pen        : libavoid's search space for a segment penalty: states (previous vertex, vertex) as
                             ANode, visibility edges that pass the cone test inValidRegion at shape-vertex ends, bends
                             that pass validateBendPoint, cost = lengths + pen per bend (2 pen for a reversal).
   The two pruning predicates are hand-written spec deciders here (no dependency on Gen/, so the model still builds
   and extracts when the C++ changes); Avoid/Blocking.v proves spec_inValidRegion equal to the cpp2v-generated
   inValidRegion, and the check compares spec_validateBendPoint with the compiled validateBendPoint exhaustively.
   Costs are integers in units of 1e-12 ("pico").   Model file: no proofs. *)
From Coq Require Import Qround.
From Adapt Require Import Num.Qaux Geom.GeomSpec Geom.GeomSpecDec Avoid.SegPolyModel Avoid.CertDijkstraModel.
Local Open Scope Q_scope.

Definition pico : Z := (10 ^ 12)%Z.

Definition d2 (p q : pt) : Q := (px p - px q) * (px p - px q) + (py p - py q) * (py p - py q).
(* floor (1e12 * |pq|) *)
Definition lenZ (p q : pt) : Z := Z.sqrt (Qfloor (d2 p q * inject_Z (pico * pico))).
Definition len (p q : pt) : Q := inject_Z (lenZ p q) / inject_Z pico.

(* ---- the two pruning predicates of libavoid's polyline search, as exact spec deciders *)
(* geometry.cpp inValidRegion(IgnoreRegions, a0, a1, a2, b): is b in the region from which the corner a0-a1-a2 can
   lie on a shortest path *)
Definition spec_inValidRegion (ignoreRegions : bool) (a0 a1 a2 b : pt) : bool :=
  let rSide := sgnQ (cross b a0 a1) in
  let sSide := sgnQ (cross b a1 a2) in
  let rOutOn := (rSide <=? 0)%Z in let sOutOn := (sSide <=? 0)%Z in
  let rOut := (rSide <? 0)%Z in let sOut := (sSide <? 0)%Z in
  if (0 <? sgnQ (cross a0 a1 a2))%Z then
    if ignoreRegions then (rOutOn && negb sOut) || (negb rOut && sOutOn) else rOutOn || sOutOn
  else
    if ignoreRegions then false else rOutOn && sOutOn.

(* connector.cpp validateBendPoint, geometric part: a, b, c consecutive path points, d and e the shape-corner
   neighbours (shPrev, shNext) of b *)
Definition spec_validateBendPoint (a b c d e : pt) : bool :=
  if pt_eqb a b || pt_eqb b c then true else
  let abc := sgnQ (cross a b c) in
  if (abc =? 0)%Z then true else
  let abe := sgnQ (cross a b e) in
  let abd := sgnQ (cross a b d) in
  let bce := sgnQ (cross b c e) in
  let bcd := sgnQ (cross b c d) in
  if (0 <? abe)%Z then (0 <? abc)%Z && (0 <=? abd)%Z && (0 <=? bce)%Z
  else if (abd <? 0)%Z then (abc <? 0)%Z && (abe <=? 0)%Z && (bcd <=? 0)%Z
  else false.

(* makepath.cpp cost(): bend penalty between segments p->u and u->v *)
Definition turn_cost (pen : Z) (p u v : pt) : Z :=
  if negb (Qeqb (cross p u v) 0) then pen
  else if Qltb ((px u - px p) * (px v - px u) + (py u - py p) * (py v - py u)) 0 then (2 * pen)%Z
  else 0%Z.

(* ---- graph vertices: source, destination, then every shape corner with its two neighbours on the shape *)
Definition vinfo : Type := (pt * option (pt * pt))%type.

Definition corners (P : list pt) : list vinfo :=
  match P with
  | [] => []
  | p0 :: _ => map (fun x => (snd (fst x), Some (fst (fst x), snd x)))
                   (combine (combine (last P p0 :: removelast P) P) (tl P ++ [p0]))
  end.

Definition verts (shapes : list (list pt)) (s d : pt) : list vinfo :=
  (s, None) :: (d, None) :: flat_map corners shapes.

Definition vpt (V : list vinfo) (u : nat) : pt := fst (nth u V (pt0, None)).
Definition vnb (V : list vinfo) (u : nat) : option (pt * pt) := snd (nth u V (pt0, None)).

(* u and v see each other: distinct positions (libavoid: a zero-length edge is "no edge") and the closed segment
   meets no obstacle interior *)
Definition vis_edge (obst : list (list pt)) (V : list vinfo) (u v : nat) : bool :=
  negb (pt_eqb (vpt V u) (vpt V v)) && forallb (fun S => seg_clear S (vpt V u) (vpt V v)) obst.

Definition cone_ok (V : list vinfo) (u v : nat) : bool :=
  match vnb V u with
  | None => true
  | Some (a0, a2) => spec_inValidRegion true a0 (vpt V u) a2 (vpt V v)
  end.

Definition taut_edge (obst : list (list pt)) (V : list vinfo) (u v : nat) : bool :=
  vis_edge obst V u v && cone_ok V u v && cone_ok V v u.

Definition bend_ok (V : list vinfo) (p u v : nat) : bool :=
  match vnb V u with
  | None => true
  | Some (dd, ee) => spec_validateBendPoint (vpt V p) (vpt V u) (vpt V v) dd ee
  end.

(* n x n tables so that the search does not recompute geometry *)
Definition mk_tab {A} (n : nat) (f : nat -> nat -> A) : list (list A) :=
  map (fun u => map (fun v => f u v) (seq 0 n)) (seq 0 n).
Definition tab_get {A} (dflt : A) (t : list (list A)) (u v : nat) : A := nth v (nth u t []) dflt.

Inductive route_result := Route (pts : list pt) (cost : Z) | NoPath | SearchFail.

(* ---- penalty 0: the plain visibility graph *)
Definition plain_succs (n : nat) (vt : list (list bool)) (lt : list (list Z)) (u : nat) : list (nat * Z) :=
  flat_map (fun v => if tab_get false vt u v then [(v, tab_get 0%Z lt u v)] else []) (seq 0 n).

Definition route_plain (shapes : list (list pt)) (s d : pt) : route_result :=
  let obst := obstacles shapes s d in
  let V := verts shapes s d in
  let n := length V in
  let vt := mk_tab n (vis_edge obst V) in
  let lt := mk_tab n (fun u v => lenZ (vpt V u) (vpt V v)) in
  match dijkstra n (plain_succs n vt lt) 0 1 with
  | Found p c => Route (map (vpt V) p) c
  | NoRoute => NoPath
  | Fail => SearchFail
  end.

(* ---- segment penalty: states (p, u) = p * n + u ("at u, arrived from p"); the start state is (0, 0);
        one extra sink state n * n reached at no cost from every (p, 1) *)
Definition taut_step_ok (n : nat) (tt : list (list bool)) (V : list vinfo) (p u v : nat) : bool :=
  negb (v =? u)%nat && negb (v =? p)%nat && negb (v =? 0)%nat && tab_get false tt u v &&
  (if (p =? u)%nat then true else bend_ok V p u v).

Definition taut_succs (pen : Z) (n : nat) (tt : list (list bool)) (lt : list (list Z)) (V : list vinfo)
           (id : nat) : list (nat * Z) :=
  if (id =? n * n)%nat then [] else
  let p := (id / n)%nat in
  let u := (id mod n)%nat in
  if (u =? 1)%nat then [((n * n)%nat, 0%Z)] else
  flat_map (fun v => if taut_step_ok n tt V p u v
                     then [((u * n + v)%nat,
                            (tab_get 0%Z lt u v + (if (p =? u)%nat then 0 else turn_cost pen (vpt V p) (vpt V u) (vpt V v)))%Z)]
                     else []) (seq 0 n).

Definition route_taut (pen : Z) (shapes : list (list pt)) (s d : pt) : route_result :=
  let obst := obstacles shapes s d in
  let V := verts shapes s d in
  let n := length V in
  let tt := mk_tab n (taut_edge obst V) in
  let lt := mk_tab n (fun u v => lenZ (vpt V u) (vpt V v)) in
  match dijkstra (n * n + 1) (taut_succs pen n tt lt V) 0 (n * n) with
  | Found p c => Route (map (fun id => vpt V (id mod n)) (removelast p)) c
  | NoRoute => NoPath
  | Fail => SearchFail
  end.

(* cost of a concrete polyline under the same measure (used to score the implementation's route exactly) *)
Fixpoint polyline_len (r : list pt) : Z :=
  match r with
  | a :: rest => match rest with
                 | b :: _ => (lenZ a b + polyline_len rest)%Z
                 | [] => 0%Z
                 end
  | [] => 0%Z
  end.
Fixpoint polyline_turns (pen : Z) (r : list pt) : Z :=
  match r with
  | a :: rest => match rest with
                 | b :: c :: _ => (turn_cost pen a b c + polyline_turns pen rest)%Z
                 | _ => 0%Z
                 end
  | [] => 0%Z
  end.
