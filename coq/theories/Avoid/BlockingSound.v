(* C03 - soundness of libavoid's blocking test for strictly convex shapes: a blocked segment really runs through the
   interior.  Together with Avoid/BlockingComplete.v this gives the exact characterisation

     blocked_exact :  for a strictly convex polygon P (convex_ccw: libavoid orientation, no collinear vertices) with
                      pairwise distinct vertices and a non-empty interior, and a segment whose endpoints are not strictly
                      inside P:
                          not blocked  <->  the segment misses the interior  \/
                                            (degenerate_chord /\ fewer than two endpoint touches)

   The two extra hypotheses are necessary: convex_ccw alone admits the two-gon [a; b; a; b] (no interior: a transversal
   segment properly crosses an "edge" and is blocked) and the doubly traversed triangle [a; b; c; a; b; c] (a segment
   leaving from a boundary point touches two copies of one edge and is blocked) - see twogon_blocked / double_blocked.
     cross_through_interior    a proper crossing of an edge implies that the segment passes through the interior
     touches_through_interior  end-point touches of two different edges imply it as well
     blocked_sound             blocked_by_shape = true -> through_interior = true *)
From Adapt Require Import Num.Qaux Geom.GeomSpec Geom.GeomSpecDec Gen.Geometry Geom.GeomProofs
     Avoid.SegPolyModel Avoid.SegPoly Avoid.RefRouterModel Avoid.Blocking Avoid.BlockingComplete.
Local Open Scope Q_scope.

(* ---------------------------------------------------------------- cross: affine, cyclic, congruent *)
Lemma cross_lerp_affine a b p q t : cross a b (lerp p q t) == (1 - t) * cross a b p + t * cross a b q.
Proof. unfold cross, lerp; cbn [px py]. ring. Qed.
Lemma cross_cyclic a b c : cross a b c == cross c a b.
Proof. unfold cross. ring. Qed.
Lemma cross_swap a b c : cross a b c == - cross b a c.
Proof. unfold cross. ring. Qed.
Lemma cross_self_l a b : cross a b a == 0.
Proof. unfold cross. ring. Qed.
Lemma cross_self_r a b : cross a b b == 0.
Proof. unfold cross. ring. Qed.
Lemma cross_cong a b a' b' q : pt_eq a a' -> pt_eq b b' -> cross a b q == cross a' b' q.
Proof. intros [E1 E2] [E3 E4]. unfold cross. rewrite E1, E2, E3, E4. reflexivity. Qed.

(* ---------------------------------------------------------------- strictly convex polygons *)
(* every vertex is on the inner side of every edge, and on its line only if it is one of its endpoints *)
Lemma convex_vertex P e q : convex_ccw P = true -> In e (poly_edges P) -> In q P ->
  0 <= cross (fst e) (snd e) q /\ (cross (fst e) (snd e) q == 0 -> pt_eq q (fst e) \/ pt_eq q (snd e)).
Proof.
  intros Hc He Hq. destruct (convex_ccw_spec P Hc e q He Hq) as [E|[E|Hpos]].
  - rewrite (cross_pt_eq _ _ _ _ E), cross_self_l. split; [lra|auto].
  - rewrite (cross_pt_eq _ _ _ _ E), cross_self_r. split; [lra|auto].
  - split; [lra|]. intro Z. lra.
Qed.

(* a point of a closed edge is in the closed polygon; if it lies on the line of e it forces edge endpoints onto it *)
Lemma convex_edge_point P e e' u : convex_ccw P = true -> In e (poly_edges P) -> In e' (poly_edges P) ->
  0 <= u -> u <= 1 ->
  0 <= cross (fst e) (snd e) (lerp (fst e') (snd e') u) /\
  (cross (fst e) (snd e) (lerp (fst e') (snd e') u) == 0 ->
     (0 < u -> cross (fst e) (snd e) (snd e') == 0) /\ (u < 1 -> cross (fst e) (snd e) (fst e') == 0)).
Proof.
  intros Hc He He' U0 U1. destruct (poly_edges_In P e' He') as [I1 I2].
  destruct (convex_vertex P e (fst e') Hc He I1) as [A1 _]. destruct (convex_vertex P e (snd e') Hc He I2) as [A2 _].
  rewrite cross_lerp_affine.
  assert (B1 : 0 <= (1 - u) * cross (fst e) (snd e) (fst e')) by (apply Qmult_le_0_compat; lra).
  assert (B2 : 0 <= u * cross (fst e) (snd e) (snd e')) by (apply Qmult_le_0_compat; lra).
  split; [lra|]. intro Z. split; intro Hu.
  - assert (E : u * cross (fst e) (snd e) (snd e') == 0) by lra. apply Qmult_integral in E. destruct E; lra.
  - assert (E : (1 - u) * cross (fst e) (snd e) (fst e') == 0) by lra. apply Qmult_integral in E. destruct E; lra.
Qed.

(* two different polygon vertices on the line of an edge are its two endpoints *)
Lemma two_on_line P e a b : convex_ccw P = true -> In e (poly_edges P) -> In a P -> In b P -> ~ pt_eq a b ->
  cross (fst e) (snd e) a == 0 -> cross (fst e) (snd e) b == 0 ->
  (pt_eq a (fst e) /\ pt_eq b (snd e)) \/ (pt_eq a (snd e) /\ pt_eq b (fst e)).
Proof.
  intros Hc He Ha Hb Hne Za Zb.
  destruct (convex_vertex P e a Hc He Ha) as [_ Ea]. destruct (convex_vertex P e b Hc He Hb) as [_ Eb].
  destruct (Ea Za) as [A|A]; destruct (Eb Zb) as [B|B].
  - exfalso. apply Hne. eapply pt_eq_trans; [exact A|apply pt_eq_sym; exact B].
  - left. split; assumption.
  - right. split; assumption.
  - exfalso. apply Hne. eapply pt_eq_trans; [exact A|apply pt_eq_sym; exact B].
Qed.

(* ---------------------------------------------------------------- moving a little along the segment *)
Lemma eps_list (cs : list (Q * Q)) (s sg : Q) : (sg == 1 \/ sg == -1) ->
  (forall c, In c cs -> 0 < fst c + s * snd c \/ (fst c + s * snd c == 0 /\ 0 < sg * snd c)) ->
  exists d0, 0 < d0 /\ forall d, 0 < d -> d < d0 -> forall c, In c cs -> 0 < fst c + (s + sg * d) * snd c.
Proof.
  intros Hsg. induction cs as [|[c0 c1] r IH]; intro H.
  - exists 1. split; [lra|]. intros d _ _ c [].
  - destruct IH as (d0 & Hd0 & Hr); [intros c Hc; apply H; right; exact Hc|].
    destruct (H (c0, c1) (or_introl eq_refl)) as [Hv|[Hz Hs]]; cbn [fst snd] in *.
    + destruct (Qlt_le_dec (sg * c1) 0) as [Hneg|Hnn].
      * set (b := (c0 + s * c1) / (- (sg * c1))).
        assert (Hb : 0 < b) by (unfold b; apply Qlt_shift_div_l; lra).
        assert (Eb : b * (- (sg * c1)) == c0 + s * c1) by (unfold b; apply Qdiv_mult_cancel; lra).
        exists (Qmin' d0 b). split; [unfold Qmin'; qcase; lra|].
        intros d D0 D1 c [<-|Hc]; cbn [fst snd].
        -- assert (d < b) by (unfold Qmin' in D1; revert D1; qcase; qb2p; lra).
           assert (E : c0 + (s + sg * d) * c1 == (b - d) * (- (sg * c1))).
           { assert (E0 : (b - d) * (- (sg * c1)) == b * (- (sg * c1)) - d * (- (sg * c1))) by ring.
             rewrite E0, Eb. ring. }
           rewrite E. apply Qmult_lt_0_compat; lra.
        -- apply Hr; try assumption. unfold Qmin' in D1. revert D1. qcase; qb2p; lra.
      * exists d0. split; [exact Hd0|]. intros d D0 D1 c [<-|Hc]; cbn [fst snd]; [|apply Hr; assumption].
        assert (E : c0 + (s + sg * d) * c1 == (c0 + s * c1) + d * (sg * c1)) by ring.
        assert (0 <= d * (sg * c1)) by (apply Qmult_le_0_compat; lra). lra.
    + exists d0. split; [exact Hd0|]. intros d D0 D1 c [<-|Hc]; cbn [fst snd]; [|apply Hr; assumption].
      assert (E : c0 + (s + sg * d) * c1 == (c0 + s * c1) + d * (sg * c1)) by ring.
      assert (0 < d * (sg * c1)) by (apply Qmult_lt_0_compat; lra). lra.
Qed.

Lemma edge_c1_diff e u v : edge_c1 e u v == cross (fst e) (snd e) v - cross (fst e) (snd e) u.
Proof. unfold edge_c1, cross. ring. Qed.

(* ---------------------------------------------------------------- (i) a proper crossing *)
Theorem cross_through_interior P e1 e2 e :
  convex_ccw P = true -> (exists q0, strictly_inside_all_edges P q0) ->
  In e (poly_edges P) -> properly_cross e1 e2 (fst e) (snd e) -> passes_through_interior P e1 e2.
Proof.
  intros Hc (q0 & Hq0) He (s & t & S0 & S1 & T0 & T1 & Hpt & Hnp).
  destruct (poly_edges_In P e He) as [I1 I2].
  assert (Hne : ~ pt_eq (fst e) (snd e)).
  { intros [Ex Ey]. apply Hnp. rewrite Ex, Ey. ring. }
  pose proof (edge_c1_den e e1 e2) as Ec1.
  set (c1e := edge_c1 e e1 e2) in *.
  assert (Hc1 : ~ c1e == 0) by (intro Z; apply Hnp; lra).
  (* direction of motion *)
  assert (SG : exists sg, (sg == 1 \/ sg == -1) /\ 0 < sg * c1e).
  { destruct (Qlt_le_dec 0 c1e); [exists 1; split; [left; reflexivity|lra]|].
    exists (-1). split; [right; reflexivity|]. destruct (Qeq_dec c1e 0); [contradiction|lra]. }
  destruct SG as (sg & Hsg & Hpos).
  (* the crossing point is on the line of e and strictly inside every other constraint *)
  assert (Hall : forall c, In c (seg_constraints P e1 e2) ->
                 0 < fst c + s * snd c \/ (fst c + s * snd c == 0 /\ 0 < sg * snd c)).
  { intros c Hin. unfold seg_constraints in Hin. apply in_map_iff in Hin. destruct Hin as (e' & <- & He').
    cbn [fst snd]. rewrite <- cross_lerp.
    rewrite (cross_pt_eq _ _ _ _ Hpt).
    destruct (convex_edge_point P e' e t Hc He' He ltac:(lra) ltac:(lra)) as [Hge Hz].
    destruct (Qlt_le_dec 0 (cross (fst e') (snd e') (lerp (fst e) (snd e) t))) as [|Hle]; [left; assumption|].
    right. assert (Z : cross (fst e') (snd e') (lerp (fst e) (snd e) t) == 0) by lra.
    split; [exact Z|]. destruct (Hz Z) as [Z2 Z1]. specialize (Z2 T0). specialize (Z1 T1).
    destruct (two_on_line P e' (fst e) (snd e) Hc He' I1 I2 Hne Z1 Z2) as [[A B]|[A B]].
    - (* same edge: same slope *)
      rewrite edge_c1_diff, <- !(cross_cong _ _ _ _ _ A B), <- edge_c1_diff. exact Hpos.
    - (* the reversed edge cannot be an edge of a polygon with an interior point *)
      exfalso. pose proof (Hq0 e He) as Q1. pose proof (Hq0 e' He') as Q2.
      rewrite <- (cross_cong _ _ _ _ q0 B A), cross_swap in Q2. lra. }
  destruct (eps_list _ s sg Hsg Hall) as (d0 & Hd0 & Hd).
  set (d := Qmin' d0 (Qmin' s (1 - s)) / 2).
  assert (Hm : 0 < Qmin' d0 (Qmin' s (1 - s)) /\ Qmin' d0 (Qmin' s (1 - s)) <= d0 /\
               Qmin' d0 (Qmin' s (1 - s)) <= s /\ Qmin' d0 (Qmin' s (1 - s)) <= 1 - s).
  { unfold Qmin'. destruct (Qltb (1 - s) s) eqn:E1; [destruct (Qltb (1 - s) d0) eqn:E2|destruct (Qltb s d0) eqn:E2];
      qb2p; repeat split; lra. }
  destruct Hm as (M0 & M1 & M2 & M3).
  assert (D0 : 0 < d) by (unfold d; apply Qlt_shift_div_l; lra).
  assert (D1 : d < d0) by (unfold d; apply Qlt_shift_div_r; lra).
  assert (D2 : d < s) by (unfold d; apply Qlt_shift_div_r; lra).
  assert (D3 : d < 1 - s) by (unfold d; apply Qlt_shift_div_r; lra).
  exists (s + sg * d). split; [destruct Hsg as [E|E]; rewrite E; lra|]. split; [destruct Hsg as [E|E]; rewrite E; lra|].
  apply feas_seg_constraints. intros c Hin. exact (Hd d D0 D1 c Hin).
Qed.

(* ---------------------------------------------------------------- (ii) two end-point touches *)
Lemma touches_spec e1 e2 e : touches e1 e2 e = true <-> touches_edge e1 e2 (fst e) (snd e).
Proof.
  destruct e as [s1 s2]. unfold touches. cbn [fst snd]. change (inject_Z 0) with 0.
  rewrite !Point_eq_spec, !pointOnLine_eq_spec, !vecDir_cross.
  change (sgnQ (cross s1 s2 e2)) with (spec_vecDir s1 s2 e2). change (sgnQ (cross s1 s2 e1)) with (spec_vecDir s1 s2 e1).
  apply (spec_touchesEdge_ok e1 e2 s1 s2).
Qed.

Lemma cross_cong3 a b c a' b' c' : pt_eq a a' -> pt_eq b b' -> pt_eq c c' -> cross a b c == cross a' b' c'.
Proof. intros [E1 E2] [E3 E4] [E5 E6]. unfold cross. rewrite E1, E2, E3, E4, E5, E6. reflexivity. Qed.
Lemma cross_swap23 a b c : cross a b c == - cross a c b.
Proof. unfold cross. ring. Qed.

Lemma halfopen_param s1 s2 e : on_edge_halfopen s1 s2 e -> exists u, 0 < u /\ u <= 1 /\ pt_eq e (lerp s1 s2 u).
Proof.
  intros [E|(_ & u & U0 & U1 & E)].
  - exists 1. split; [lra|]. split; [lra|]. apply pt_eq_sym. eapply pt_eq_trans; [apply lerp_1|exact E].
  - exists u. split; [lra|]. split; [lra|]. exact E.
Qed.

(* a point of the half-open edge a that lies on the line of edge e: it is the end vertex of a, or the lines coincide *)
Lemma halfopen_on_line P a e x : convex_ccw P = true -> In a (poly_edges P) -> In e (poly_edges P) ->
  on_edge_halfopen (fst a) (snd a) x -> cross (fst e) (snd e) x == 0 ->
  cross (fst e) (snd e) (snd a) == 0 /\
  (pt_eq (snd a) x \/ forall q, cross (fst e) (snd e) q == 0 -> cross (fst a) (snd a) q == 0).
Proof.
  intros Hc Ha He Hon Z. destruct (poly_edges_In P a Ha) as [I1 I2].
  destruct Hon as [E|(Hne & u & U0 & U1 & E)].
  - split; [rewrite (cross_pt_eq _ _ _ _ E); exact Z|left; exact E].
  - rewrite (cross_pt_eq _ _ _ _ E) in Z.
    destruct (convex_edge_point P e a u Hc He Ha ltac:(lra) ltac:(lra)) as [_ Hz].
    destruct (Hz Z) as [Z2 Z1]. specialize (Z2 U0). specialize (Z1 U1). split; [exact Z2|]. right.
    intros q Zq. destruct (two_on_line P e (fst a) (snd a) Hc He I1 I2 Hne Z1 Z2) as [[A B]|[A B]].
    + rewrite (cross_cong _ _ _ _ q A B). exact Zq.
    + rewrite cross_swap, (cross_cong _ _ _ _ q B A). lra.
Qed.

Lemma midpoint_cross a b p q : cross a b (lerp p q (1 # 2)) == (cross a b p + cross a b q) / 2.
Proof. rewrite cross_lerp_affine. field. Qed.

(* e1 on edge A (e2 off its line), e2 on edge B (e1 off its line): the midpoint of e1 e2 is strictly inside *)
Lemma touch_12 P e1 e2 A B : convex_ccw P = true -> In A (poly_edges P) -> In B (poly_edges P) ->
  on_edge_halfopen (fst A) (snd A) e1 -> ~ cross (fst A) (snd A) e2 == 0 ->
  on_edge_halfopen (fst B) (snd B) e2 -> ~ cross (fst B) (snd B) e1 == 0 ->
  passes_through_interior P e1 e2.
Proof.
  intros Hc HA HB On1 Off2 On2 Off1.
  destruct (halfopen_param _ _ _ On1) as (uA & UA0 & UA1 & EA). destruct (halfopen_param _ _ _ On2) as (uB & UB0 & UB1 & EB).
  destruct (poly_edges_In P A HA) as [IA1 IA2]. destruct (poly_edges_In P B HB) as [IB1 IB2].
  exists (1 # 2). split; [reflexivity|]. split; [reflexivity|].
  intros E HE. rewrite midpoint_cross.
  destruct (convex_edge_point P E A uA Hc HE HA ltac:(lra) UA1) as [G1 _]. rewrite <- (cross_pt_eq _ _ _ _ EA) in G1.
  destruct (convex_edge_point P E B uB Hc HE HB ltac:(lra) UB1) as [G2 _]. rewrite <- (cross_pt_eq _ _ _ _ EB) in G2.
  destruct (Qlt_le_dec 0 (cross (fst E) (snd E) e1 + cross (fst E) (snd E) e2)) as [Hpos|Hle].
  { apply Qlt_shift_div_l; lra. }
  exfalso.
  assert (Z1 : cross (fst E) (snd E) e1 == 0) by lra. assert (Z2 : cross (fst E) (snd E) e2 == 0) by lra.
  destruct (halfopen_on_line P A E e1 Hc HA HE On1 Z1) as [ZA [VA|LA]]; [|apply Off2; apply LA; exact Z2].
  destruct (halfopen_on_line P B E e2 Hc HB HE On2 Z2) as [ZB [VB|LB]]; [|apply Off1; apply LB; exact Z1].
  (* e1 = end vertex of A, e2 = end vertex of B, both on the line of E *)
  assert (Hne : ~ pt_eq (snd A) (snd B)).
  { intro Q. apply Off2. rewrite <- (cross_pt_eq _ _ _ _ VB), <- (cross_pt_eq _ _ _ _ Q). apply cross_self_r. }
  destruct (convex_vertex P B (snd A) Hc HB IA2) as [PB _]. rewrite (cross_pt_eq _ _ _ _ VA) in PB.
  destruct (convex_vertex P A (snd B) Hc HA IB2) as [PA _]. rewrite (cross_pt_eq _ _ _ _ VB) in PA.
  destruct (two_on_line P E (snd A) (snd B) Hc HE IA2 IB2 Hne ZA ZB) as [[Q1 Q2]|[Q1 Q2]].
  - (* E = (e1, e2) *)
    destruct (convex_vertex P E (fst B) Hc HE IB1) as [PE _].
    assert (X : cross (fst E) (snd E) (fst B) == - cross (fst B) (snd B) e1).
    { rewrite <- (cross_cong3 _ _ _ _ _ _ Q1 Q2 (pt_eq_refl (fst B))).
      rewrite cross_cyclic, cross_swap23. rewrite (cross_cong3 _ _ _ _ _ _ (pt_eq_refl (fst B)) (pt_eq_refl (snd B)) VA).
      reflexivity. }
    destruct (Qeq_dec (cross (fst B) (snd B) e1) 0); [contradiction|lra].
  - (* E = (e2, e1) *)
    destruct (convex_vertex P E (fst A) Hc HE IA1) as [PE _].
    assert (X : cross (fst E) (snd E) (fst A) == - cross (fst A) (snd A) e2).
    { rewrite <- (cross_cong3 _ _ _ _ _ _ Q2 Q1 (pt_eq_refl (fst A))).
      rewrite cross_cyclic, cross_swap23. rewrite (cross_cong3 _ _ _ _ _ _ (pt_eq_refl (fst A)) (pt_eq_refl (snd A)) VB).
      reflexivity. }
    destruct (Qeq_dec (cross (fst A) (snd A) e2) 0); [contradiction|lra].
Qed.

(* the same endpoint cannot touch two edges with different end vertices *)
Lemma touch_11 P x y A B : convex_ccw P = true -> (exists q0, strictly_inside_all_edges P q0) ->
  In A (poly_edges P) -> In B (poly_edges P) -> ~ pt_eq (snd A) (snd B) ->
  on_edge_halfopen (fst A) (snd A) x -> ~ cross (fst A) (snd A) y == 0 ->
  on_edge_halfopen (fst B) (snd B) x -> ~ cross (fst B) (snd B) y == 0 -> False.
Proof.
  intros Hc (q0 & Hq0) HA HB Hne OnA OffA OnB OffB.
  destruct (poly_edges_In P A HA) as [IA1 IA2]. destruct (poly_edges_In P B HB) as [IB1 IB2].
  pose proof (on_edge_halfopen_cross _ _ _ OnA) as ZA. pose proof (on_edge_halfopen_cross _ _ _ OnB) as ZB.
  destruct (halfopen_on_line P A B x Hc HA HB OnA ZB) as [ZAB _].
  destruct (halfopen_on_line P B A x Hc HB HA OnB ZA) as [ZBA _].
  destruct (convex_vertex P B (snd A) Hc HB IA2) as [_ VA]. destruct (convex_vertex P A (snd B) Hc HA IB2) as [_ VB].
  destruct (VA ZAB) as [QA|QA]; [|contradiction].
  destruct (VB ZBA) as [QB|QB]; [|apply Hne; apply pt_eq_sym; exact QB].
  (* B is A reversed *)
  pose proof (Hq0 A HA) as P1. pose proof (Hq0 B HB) as P2.
  assert (X : cross (fst B) (snd B) q0 == - cross (fst A) (snd A) q0).
  { rewrite (cross_cong _ _ _ _ q0 (pt_eq_sym _ _ QA) QB). apply cross_swap. }
  lra.
Qed.

Definition distinct_pts (P : list pt) : Prop :=
  forall l1 a l2 b l3, P = l1 ++ a :: l2 ++ b :: l3 -> ~ pt_eq a b.

Lemma snd_combine {A B} : forall (l : list A) (l' : list B), length l = length l' -> map snd (combine l l') = l'.
Proof. induction l as [|a l IH]; intros [|b l'] H; cbn in *; try discriminate; [reflexivity|]. f_equal. apply IH. lia. Qed.
Lemma length_removelast {A} (l : list A) : l <> [] -> S (length (removelast l)) = length l.
Proof.
  induction l as [|a l IH]; [congruence|]. intros _. destruct l as [|b l']; [reflexivity|].
  cbn [removelast length] in *. rewrite IH by discriminate. reflexivity.
Qed.
Lemma map_snd_poly_edges P : map snd (poly_edges P) = P.
Proof.
  destruct P as [|p0 r]; [reflexivity|]. unfold poly_edges. apply snd_combine.
  cbn [length]. rewrite length_removelast by discriminate. reflexivity.
Qed.

Lemma filter_two {A} (f : A -> bool) l : (2 <= length (filter f l))%nat ->
  exists l1 a l2 b l3, l = l1 ++ a :: l2 ++ b :: l3 /\ f a = true /\ f b = true.
Proof.
  assert (One : forall l, (1 <= length (filter f l))%nat -> exists l1 a l2, l = l1 ++ a :: l2 /\ f a = true).
  { induction l0 as [|x l0 IH]; cbn [filter length]; [lia|]. destruct (f x) eqn:E.
    - intros _. exists [], x, l0. auto.
    - intro H. destruct (IH H) as (l1 & a & l2 & -> & Ha). exists (x :: l1), a, l2. auto. }
  induction l as [|x l IH]; cbn [filter length]; [lia|]. destruct (f x) eqn:E.
  - cbn [length]. intro H. destruct (One l ltac:(lia)) as (l2 & b & l3 & -> & Hb). exists [], x, l2, b, l3. auto.
  - intro H. destruct (IH H) as (l1 & a & l2 & b & l3 & -> & Ha & Hb). exists (x :: l1), a, l2, b, l3. auto.
Qed.

Theorem touches_through_interior P e1 e2 :
  convex_ccw P = true -> distinct_pts P -> (exists q0, strictly_inside_all_edges P q0) ->
  (2 <= touch_count e1 e2 (poly_edges P))%nat -> passes_through_interior P e1 e2.
Proof.
  intros Hc Hd Hq H. unfold touch_count in H.
  destruct (filter_two _ _ H) as (l1 & A & l2 & B & l3 & E & FA & FB).
  apply andb_true_iff in FA, FB. destruct FA as [_ TA], FB as [_ TB].
  apply touches_spec in TA, TB.
  assert (HA : In A (poly_edges P)) by (rewrite E; apply in_or_app; right; left; reflexivity).
  assert (HB : In B (poly_edges P)).
  { rewrite E. apply in_or_app. right. right. apply in_or_app. right. left. reflexivity. }
  assert (Hne : ~ pt_eq (snd A) (snd B)).
  { apply (Hd (map snd l1) (snd A) (map snd l2) (snd B) (map snd l3)).
    rewrite <- (map_snd_poly_edges P), E, !map_app. cbn [map]. rewrite map_app. reflexivity. }
  destruct TA as [[OnA OffA]|[OnA OffA]], TB as [[OnB OffB]|[OnB OffB]].
  - exfalso. eapply (touch_11 P e1 e2 A B); eassumption.
  - eapply (touch_12 P e1 e2 A B); eassumption.
  - eapply (touch_12 P e1 e2 B A); eassumption.
  - exfalso. eapply (touch_11 P e2 e1 A B); eassumption.
Qed.

(* ---------------------------------------------------------------- soundness and the exact characterisation *)
Theorem blocked_sound P e1 e2 :
  convex_ccw P = true -> distinct_pts P -> (exists q0, strictly_inside_all_edges P q0) ->
  blocked_by_shape e1 e2 P = true -> through_interior P e1 e2 = true.
Proof.
  intros Hc Hd Hq H. apply through_interior_spec. fold (passes_through_interior P e1 e2).
  unfold blocked_by_shape in H. rewrite blocked_char, Nat.add_0_r in H. apply orb_true_iff in H. destruct H as [H|H].
  - apply existsb_exists in H. destruct H as (e & He & C). unfold crosses in C. apply segmentIntersect_spec in C.
    eapply cross_through_interior; eassumption.
  - apply Nat.leb_le in H. apply touches_through_interior; assumption.
Qed.

Theorem blocked_exact P e1 e2 :
  convex_ccw P = true -> distinct_pts P -> (exists q0, strictly_inside_all_edges P q0) ->
  inside_strict P e1 = false -> inside_strict P e2 = false ->
  (blocked_by_shape e1 e2 P = false <->
   through_interior P e1 e2 = false \/
   (degenerate_chord P e1 e2 = true /\ (touch_count e1 e2 (poly_edges P) < 2)%nat)).
Proof.
  intros Hc Hd Hq H1 H2. destruct (through_interior P e1 e2) eqn:T.
  - rewrite (unblocked_char e1 e2 P T H1 H2). split; [auto|]. intros [F|G]; [discriminate|exact G].
  - split; [auto|]. intros _. destruct (blocked_by_shape e1 e2 P) eqn:B; [|reflexivity].
    rewrite (blocked_sound P e1 e2 Hc Hd Hq B) in T. discriminate.
Qed.

(* ---------------------------------------------------------------- the extra hypotheses are necessary; non-vacuity *)
Definition twogon : list pt := [mkpt 0 0; mkpt 10 0; mkpt 0 0; mkpt 10 0].
Example twogon_blocked :
  convex_ccw twogon = true /\ blocked_by_shape (mkpt 5 (-5)) (mkpt 5 5) twogon = true /\
  through_interior twogon (mkpt 5 (-5)) (mkpt 5 5) = false.
Proof. repeat split; vm_compute; reflexivity. Qed.

Definition dbl_tri : list pt := [mkpt 0 0; mkpt 10 0; mkpt 0 10; mkpt 0 0; mkpt 10 0; mkpt 0 10].
Example double_blocked :
  convex_ccw dbl_tri = true /\ blocked_by_shape (mkpt 5 0) (mkpt 5 (-7)) dbl_tri = true /\
  through_interior dbl_tri (mkpt 5 0) (mkpt 5 (-7)) = false.
Proof. repeat split; vm_compute; reflexivity. Qed.

Lemma distinct_sq10 : distinct_pts sq10.
Proof.
  intros l1 a l2 b l3 E Q. apply pt_eqb_spec in Q.
  assert (H : forallb (fun ab => negb (pt_eqb (fst ab) (snd ab)))
                [(mkpt 10 0, mkpt 10 10); (mkpt 10 0, mkpt 0 10); (mkpt 10 0, mkpt 0 0);
                 (mkpt 10 10, mkpt 0 10); (mkpt 10 10, mkpt 0 0); (mkpt 0 10, mkpt 0 0)] = true) by (vm_compute; reflexivity).
  rewrite forallb_forall in H.
  assert (Hin : In (a, b) [(mkpt 10 0, mkpt 10 10); (mkpt 10 0, mkpt 0 10); (mkpt 10 0, mkpt 0 0);
                 (mkpt 10 10, mkpt 0 10); (mkpt 10 10, mkpt 0 0); (mkpt 0 10, mkpt 0 0)]).
  { unfold sq10 in E.
    destruct l1 as [|x1 l1]; cbn [app] in E; inversion E as [[Ea E']]; subst;
      [|destruct l1 as [|x2 l1]; cbn [app] in E'; inversion E' as [[Ea E'']]; subst;
        [|destruct l1 as [|x3 l1]; cbn [app] in E''; inversion E'' as [[Ea E3]]; subst;
          [|destruct l1 as [|x4 l1]; cbn [app] in E3; inversion E3 as [[Ea E4]]; subst;
            [destruct l2; discriminate|destruct l1; discriminate]]]];
      repeat match goal with
             | H : ?l ++ _ :: _ = _ |- _ => destruct l; cbn [app] in H; inversion H; subst; clear H
             | H : _ = ?l ++ _ :: _ |- _ => destruct l; cbn [app] in H; inversion H; subst; clear H
             end; cbn; tauto. }
  specialize (H _ Hin). cbn [fst snd] in H. rewrite Q in H. discriminate.
Qed.

Example blocked_exact_sq10 e1 e2 :
  inside_strict sq10 e1 = false -> inside_strict sq10 e2 = false ->
  (blocked_by_shape e1 e2 sq10 = false <->
   through_interior sq10 e1 e2 = false \/
   (degenerate_chord sq10 e1 e2 = true /\ (touch_count e1 e2 (poly_edges sq10) < 2)%nat)).
Proof.
  apply blocked_exact; [exact convex_sq10|exact distinct_sq10|].
  exists (mkpt 5 5). apply inside_strict_spec. vm_compute. reflexivity.
Qed.
