(* Proofs about the action-queue model (Avoid/ActionQueueModel.v) - C06.
     queue_dedup                    at most one queued action per (kind, object), for every legal history
     empty_transaction_identity     processTransaction on an empty queue changes nothing and returns false
     queue_refines_sequential       for every legal history, the shapes the router holds after the final Process are
                                    exactly those obtained by applying the edits one at a time (shape part of the scene;
                                    the connector-endpoint part is covered by the correspondence only)
     process_preserves_view         the heart of it: processActions realises the pending view and empties the queue
     reflect_*                      the reflection estimate of the selective-reroute test is a lower bound *)
From Coq Require Import Permutation.
From Adapt Require Import Num.Qaux Avoid.ActionQueueModel.
Local Open Scope Z_scope.

Definition key (a : action) : Z * Z := (akind a, aid a).
Definition keys (q : list action) : list (Z * Z) := map key q.
Definition mem (i : Z) (l : list Z) : bool := existsb (Z.eqb i) l.

(* ---------------------------------------------------------------- small facts about maps and the queue *)
Lemma lookup_remove_key {A} (m : list (Z * A)) k i :
  lookup (remove_key m k) i = if k =? i then None else lookup m i.
Proof.
  induction m as [|[k' v] r IH]; cbn [remove_key filter lookup fst].
  - destruct (k =? i); reflexivity.
  - destruct (k' =? k) eqn:E; cbn [negb].
    + fold (remove_key r k). rewrite IH. apply Z.eqb_eq in E. subst k'.
      destruct (k =? i); reflexivity.
    + cbn [lookup]. fold (remove_key r k). rewrite IH.
      destruct (k' =? i) eqn:E2; [|reflexivity].
      apply Z.eqb_eq in E2. subst k'. rewrite Z.eqb_sym, E. reflexivity.
Qed.

Lemma lookup_set_key {A} (m : list (Z * A)) k v i :
  lookup (set_key m k v) i = if k =? i then Some v else lookup m i.
Proof. unfold set_key. cbn [lookup]. rewrite lookup_remove_key. destruct (k =? i); reflexivity. Qed.

Lemma same_key_key k i a : same_key k i a = true <-> key a = (k, i).
Proof.
  unfold same_key, key. rewrite andb_true_iff, !Z.eqb_eq. split.
  - intros [-> ->]. reflexivity.
  - intro H. inversion H. auto.
Qed.

Lemma queued_keys q k i : queued q k i = true <-> In (k, i) (keys q).
Proof.
  unfold queued, keys. rewrite existsb_exists, in_map_iff. split.
  - intros (a & Ha & Hk). exists a. split; [apply same_key_key; assumption|assumption].
  - intros (a & Hk & Ha). exists a. split; [assumption|apply same_key_key; assumption].
Qed.

Lemma queued_app q a k i : queued (q ++ [a]) k i = queued q k i || same_key k i a.
Proof. unfold queued. rewrite existsb_app. cbn. rewrite orb_false_r. reflexivity. Qed.

Definition qm := queued_move_poly.

Lemma find_app_none {A} (f : A -> bool) l a : find f l = None -> find f (l ++ [a]) = if f a then Some a else None.
Proof. induction l as [|x l IH]; cbn; [reflexivity|]. destruct (f x); [discriminate|assumption]. Qed.
Lemma find_app_some {A} (f : A -> bool) l a x : find f l = Some x -> find f (l ++ [a]) = Some x.
Proof. induction l as [|y l IH]; cbn; [discriminate|]. destruct (f y); [auto|assumption]. Qed.

Lemma queued_find q k i : queued q k i = true <-> exists a, find (same_key k i) q = Some a.
Proof.
  unfold queued. induction q as [|x q IH]; cbn.
  - split; [discriminate|intros [a H]; discriminate].
  - destruct (same_key k i x); cbn.
    + split; [intros _; eexists; reflexivity|reflexivity].
    + exact IH.
Qed.

Lemma qm_queued q i : queued q 0 i = true <-> exists P, qm q i = Some P.
Proof.
  unfold qm, queued_move_poly. rewrite queued_find. split.
  - intros [a Ha]. rewrite Ha. pose proof (find_some _ _ Ha) as [_ Hk].
    destruct a; unfold same_key in Hk; cbn in Hk; try discriminate. eexists; reflexivity.
  - intros [P HP]. destruct (find (same_key 0 i) q) as [a|]; [eexists; reflexivity|discriminate].
Qed.

Lemma qm_none q i : queued q 0 i = false <-> qm q i = None.
Proof.
  split; intro H.
  - destruct (qm q i) as [P|] eqn:E; [|reflexivity].
    assert (queued q 0 i = true) by (apply qm_queued; eexists; eassumption). congruence.
  - destruct (queued q 0 i) eqn:E; [|reflexivity]. apply qm_queued in E. destruct E as [P HP]. congruence.
Qed.

(* appending an action of another kind / another object does not disturb the pending move of i *)
Lemma qm_app_other q a i : same_key 0 i a = false -> qm (q ++ [a]) i = qm q i.
Proof.
  intro H. unfold qm, queued_move_poly.
  destruct (find (same_key 0 i) q) as [x|] eqn:E.
  - rewrite (find_app_some _ _ _ _ E). reflexivity.
  - rewrite (find_app_none _ _ a E), H. reflexivity.
Qed.
Lemma qm_app_move q j P i : queued q 0 j = false -> qm (q ++ [QMove j P]) i = if j =? i then Some P else qm q i.
Proof.
  intro H. destruct (j =? i) eqn:E.
  - apply Z.eqb_eq in E. subst j. unfold qm, queued_move_poly.
    apply qm_none in H. unfold qm, queued_move_poly in H.
    destruct (find (same_key 0 i) q) as [x|] eqn:F.
    + pose proof (find_some _ _ F) as [_ Hk]. destruct x; unfold same_key in Hk; cbn in Hk; try discriminate.
    + rewrite (find_app_none _ _ _ F). unfold same_key. cbn. rewrite Z.eqb_refl. reflexivity.
  - apply qm_app_other. unfold same_key. cbn. rewrite E. reflexivity.
Qed.

Lemma keys_replace_move j P q : keys (replace_move j P q) = keys q.
Proof.
  induction q as [|a r IH]; [reflexivity|]. cbn [replace_move].
  destruct (same_key 0 j a) eqn:E.
  - apply same_key_key in E. unfold keys. cbn [map]. rewrite E. reflexivity.
  - unfold keys in *. cbn [map]. rewrite IH. reflexivity.
Qed.
Lemma queued_replace_move j P q k i : queued (replace_move j P q) k i = queued q k i.
Proof.
  apply eq_true_iff_eq. rewrite !queued_keys, keys_replace_move. tauto.
Qed.
Lemma qm_replace_move j P q i : queued q 0 j = true -> qm (replace_move j P q) i = if j =? i then Some P else qm q i.
Proof.
  unfold qm, queued_move_poly, queued. induction q as [|a r IH]; [discriminate|].
  cbn [existsb replace_move]. destruct (same_key 0 j a) eqn:E.
  - intros _. cbn [find]. destruct (j =? i) eqn:Eji.
    + apply Z.eqb_eq in Eji. subst j. unfold same_key at 1. cbn. rewrite Z.eqb_refl. reflexivity.
    + unfold same_key at 1. cbn. rewrite Eji. cbn.
      assert (same_key 0 i a = false).
      { apply same_key_key in E. unfold same_key. unfold key in E. inversion E. rewrite H0, H1. cbn. exact Eji. }
      rewrite H. reflexivity.
  - cbn [orb]. intro H. cbn [find]. destruct (same_key 0 i a) eqn:Ei.
    + destruct (j =? i) eqn:Eji; [|reflexivity].
      apply Z.eqb_eq in Eji. subst j. congruence.
    + apply IH. exact H.
Qed.

(* erase_first on a duplicate-free queue removes the key completely *)
Lemma keys_erase_incl f q x : In x (keys (erase_first f q)) -> In x (keys q).
Proof.
  induction q as [|a r IH]; [auto|]. cbn [erase_first]. destruct (f a).
  - intro H. right. exact H.
  - intros [H|H]; [left; assumption|right; apply IH; assumption].
Qed.
Lemma NoDup_erase f q : NoDup (keys q) -> NoDup (keys (erase_first f q)).
Proof.
  induction q as [|a r IH]; [auto|]. intro H. inversion H; subst. cbn [erase_first].
  destruct (f a); [assumption|]. change (NoDup (key a :: keys (erase_first f r))). constructor; [|apply IH; assumption].
  intro Hin. apply H2. eapply keys_erase_incl. exact Hin.
Qed.
Lemma queued_erase k j q k' i :
  NoDup (keys q) ->
  queued (erase_first (same_key k j) q) k' i = queued q k' i && negb ((k' =? k) && (i =? j)).
Proof.
  induction q as [|a r IH]; intro N; [reflexivity|].
  cbn [erase_first]. inversion N; subst. destruct (same_key k j a) eqn:E.
  - apply same_key_key in E. unfold queued at 2. cbn [existsb]. fold (queued r k' i).
    destruct ((k' =? k) && (i =? j)) eqn:B; cbn [negb].
    + apply andb_true_iff in B. destruct B as [B1 B2]. apply Z.eqb_eq in B1, B2. subst k' i.
      rewrite andb_false_r. destruct (queued r k j) eqn:Q; [|reflexivity].
      apply queued_keys in Q. rewrite <- E in Q. contradiction.
    + rewrite andb_true_r.
      assert (same_key k' i a = false).
      { destruct (same_key k' i a) eqn:S; [|reflexivity]. apply same_key_key in S. rewrite E in S. inversion S; subst.
        rewrite !Z.eqb_refl in B. discriminate. }
      rewrite H. reflexivity.
  - unfold queued. cbn [existsb]. fold (queued (erase_first (same_key k j) r) k' i). fold (queued r k' i).
    rewrite IH by assumption.
    destruct (same_key k' i a) eqn:S; cbn [orb]; [|reflexivity].
    destruct ((k' =? k) && (i =? j)) eqn:B; [|reflexivity].
    apply andb_true_iff in B. destruct B as [B1 B2]. apply Z.eqb_eq in B1, B2. subst. congruence.
Qed.
Lemma qm_erase j q i : NoDup (keys q) -> qm (erase_first (same_key 0 j) q) i = if j =? i then None else qm q i.
Proof.
  intro N. destruct (j =? i) eqn:E.
  - apply Z.eqb_eq in E. subst j. apply qm_none. rewrite queued_erase by assumption.
    rewrite !Z.eqb_refl. cbn. apply andb_false_r.
  - unfold qm, queued_move_poly. clear N. induction q as [|a r IH]; [reflexivity|].
    cbn [erase_first]. destruct (same_key 0 j a) eqn:S.
    + cbn [find]. assert (same_key 0 i a = false).
      { apply same_key_key in S. unfold same_key. unfold key in S. inversion S. rewrite H0, H1. cbn. exact E. }
      rewrite H. reflexivity.
    + cbn [find]. destruct (same_key 0 i a); [reflexivity|exact IH].
Qed.

Lemma NoDup_keys_app q a : NoDup (keys q) -> queued q (akind a) (aid a) = false -> NoDup (keys (q ++ [a])).
Proof.
  intros N H. unfold keys. rewrite map_app. cbn [map].
  apply (Permutation_NoDup (Permutation_cons_append _ _)). constructor; [|assumption].
  intro Hin. assert (queued q (akind a) (aid a) = true) by (apply queued_keys; exact Hin). congruence.
Qed.

Lemma keys_update_conn c w p q : keys (update_conn_action c w p q) = keys q.
Proof.
  induction q as [|a r IH]; [reflexivity|]. cbn [update_conn_action].
  destruct a; unfold keys in *; cbn [map] in *; try (rewrite IH; reflexivity).
  destruct (cid =? c); unfold keys; cbn [map]; fold keys; [reflexivity|rewrite IH; reflexivity].
Qed.
Lemma qm_update_conn c w p q i : qm (update_conn_action c w p q) i = qm q i.
Proof.
  unfold qm, queued_move_poly. induction q as [|a r IH]; [reflexivity|]. cbn [update_conn_action].
  destruct a; cbn [find]; try (destruct (same_key 0 i _); [reflexivity|exact IH]).
  destruct (cid =? c); cbn [find]; unfold same_key at 1; cbn; [reflexivity|exact IH].
Qed.

(* ---------------------------------------------------------------- sorting is a permutation *)
Lemma insert_sorted_perm a q : Permutation (insert_sorted a q) (a :: q).
Proof.
  induction q as [|b r IH]; [apply Permutation_refl|]. cbn [insert_sorted].
  destruct (action_lt b a); [|apply Permutation_refl].
  eapply Permutation_trans; [apply perm_skip; exact IH|apply perm_swap].
Qed.
Lemma sort_actions_perm q : Permutation (sort_actions q) q.
Proof.
  induction q as [|a r IH]; [apply Permutation_refl|]. cbn [sort_actions fold_right].
  eapply Permutation_trans; [apply insert_sorted_perm|apply perm_skip; exact IH].
Qed.
Lemma queued_perm q q' k i : Permutation q q' -> queued q k i = queued q' k i.
Proof.
  intro P. apply eq_true_iff_eq. rewrite !queued_keys. unfold keys.
  split; apply Permutation_in; [apply Permutation_map; assumption|apply Permutation_map, Permutation_sym; assumption].
Qed.
Lemma find_unique q k i a : NoDup (keys q) -> In a q -> same_key k i a = true -> find (same_key k i) q = Some a.
Proof.
  induction q as [|x r IH]; intros N Hin Hk; [destruct Hin|]. inversion N; subst.
  cbn [find]. destruct Hin as [->|Hin].
  - rewrite Hk. reflexivity.
  - destruct (same_key k i x) eqn:E; [|apply IH; assumption].
    exfalso. apply H1. apply same_key_key in E, Hk. rewrite E, <- Hk. apply in_map. assumption.
Qed.
Lemma qm_perm q q' i : NoDup (keys q) -> Permutation q q' -> qm q i = qm q' i.
Proof.
  intros N P. unfold qm, queued_move_poly.
  assert (N' : NoDup (keys q')) by (eapply Permutation_NoDup; [apply Permutation_map; exact P|exact N]).
  destruct (find (same_key 0 i) q) as [a|] eqn:E.
  - pose proof (find_some _ _ E) as [Hin Hk].
    rewrite (find_unique q' 0 i a N' (Permutation_in _ P Hin) Hk). reflexivity.
  - destruct (find (same_key 0 i) q') as [a|] eqn:E'; [|reflexivity].
    pose proof (find_some _ _ E') as [Hin Hk].
    rewrite (find_unique q 0 i a N (Permutation_in _ (Permutation_sym P) Hin) Hk) in E. discriminate.
Qed.

(* ---------------------------------------------------------------- processActions, pass by pass *)
Lemma mem_filter f i l : mem i (filter f l) = mem i l && f i.
Proof.
  unfold mem. induction l as [|a l IH]; [reflexivity|]. cbn [filter existsb].
  destruct (f a) eqn:E; cbn [existsb]; rewrite IH.
  - destruct (i =? a) eqn:Ei; cbn; [|reflexivity]. apply Z.eqb_eq in Ei. subst. rewrite E. reflexivity.
  - destruct (i =? a) eqn:Ei; cbn; [|reflexivity]. apply Z.eqb_eq in Ei. subst. rewrite E. rewrite andb_false_r. reflexivity.
Qed.

Lemma queued_cons a r k i : queued (a :: r) k i = same_key k i a || queued r k i.
Proof. reflexivity. Qed.

Lemma pass_remove_fold q : forall o l i,
  let res := fold_left pass_remove q (o, l) in
  mem i (snd res) = mem i l && negb (queued q 2 i || queued q 0 i) /\
  lookup (fst res) i = if queued q 2 i then None else lookup o i.
Proof.
  induction q as [|a r IH]; intros o l i; cbn zeta.
  - cbn. rewrite andb_true_r. auto.
  - cbn [fold_left]. rewrite !queued_cons.
    destruct a as [j P|j|j|c ups]; cbn [pass_remove]; unfold same_key; cbn [akind aid]; cbn [Z.eqb andb orb].
    + (* QMove j *)
      destruct (IH o (filter (fun x => negb (x =? j)) l) i) as [M L]. cbn zeta in M, L. rewrite M, L, mem_filter.
      split; [|reflexivity].
      rewrite (Z.eqb_sym j i). destruct (i =? j), (mem i l), (queued r 2 i), (queued r 0 i); reflexivity.
    + (* QAdd j *)
      destruct (IH o l i) as [M L]. cbn zeta in M, L. rewrite M, L. auto.
    + (* QRemove j *)
      destruct (IH (remove_key o j) (filter (fun x => negb (x =? j)) l) i) as [M L]. cbn zeta in M, L.
      rewrite M, L, mem_filter, lookup_remove_key. rewrite (Z.eqb_sym j i).
      split; destruct (i =? j), (mem i l), (queued r 2 i), (queued r 0 i); reflexivity.
    + (* QConn *)
      destruct (IH o l i) as [M L]. cbn zeta in M, L. rewrite M, L. auto.
Qed.

Lemma qm_cons a r i :
  qm (a :: r) i = if same_key 0 i a then match a with QMove _ P => Some P | _ => None end else qm r i.
Proof. unfold qm, queued_move_poly. cbn [find]. destruct (same_key 0 i a); reflexivity. Qed.
Lemma mem_cons i j l : mem i (j :: l) = (i =? j) || mem i l.
Proof. reflexivity. Qed.

Lemma pass_add_fold q : NoDup (keys q) -> forall o l i,
  let res := fold_left pass_add q (o, l) in
  mem i (snd res) = queued q 1 i || queued q 0 i || mem i l /\
  lookup (fst res) i = match qm q i with Some P => Some P | None => lookup o i end.
Proof.
  induction q as [|a r IH]; intros N o l i; [cbn; auto|].
  inversion N; subst. cbn [fold_left]. cbn zeta. rewrite !queued_cons, qm_cons.
  destruct a as [j P|j|j|c ups]; cbn [pass_add]; unfold same_key; cbn [akind aid]; cbn [Z.eqb andb orb].
  - (* QMove j P *)
    destruct (IH H2 (set_key o j P) (j :: l) i) as [M L]. cbn zeta in M, L. rewrite M, L, mem_cons, lookup_set_key.
    rewrite (Z.eqb_sym j i). destruct (i =? j) eqn:E.
    + apply Z.eqb_eq in E. subst j.
      assert (Q : queued r 0 i = false).
      { destruct (queued r 0 i) eqn:Q; [|reflexivity]. apply queued_keys in Q. contradiction. }
      rewrite Q. apply qm_none in Q. rewrite Q. split; [|reflexivity].
      destruct (queued r 1 i), (mem i l); reflexivity.
    + split; [|reflexivity]. destruct (queued r 1 i), (queued r 0 i), (mem i l); reflexivity.
  - (* QAdd j *)
    destruct (IH H2 o (j :: l) i) as [M L]. cbn zeta in M, L. rewrite M, L, mem_cons.
    rewrite (Z.eqb_sym j i). split; [|reflexivity].
    destruct (i =? j), (queued r 1 i), (queued r 0 i), (mem i l); reflexivity.
  - destruct (IH H2 o l i) as [M L]. cbn zeta in M, L. rewrite M, L. auto.
  - destruct (IH H2 o l i) as [M L]. cbn zeta in M, L. rewrite M, L. auto.
Qed.

(* ---------------------------------------------------------------- invariant and pending view *)
Record Inv (st : state) : Prop := {
  inv_dedup : NoDup (keys (queue st));
  inv_add : forall i, queued (queue st) 1 i = true ->
                      has_key (objs st) i = true /\ mem i (live st) = false /\ queued (queue st) 0 i = false /\ queued (queue st) 2 i = false;
  inv_move : forall i, queued (queue st) 0 i = true -> mem i (live st) = true /\ queued (queue st) 2 i = false;
  inv_rem : forall i, queued (queue st) 2 i = true -> mem i (live st) = true;
  inv_live : forall i, mem i (live st) = true -> has_key (objs st) i = true;
  inv_objs : forall i, has_key (objs st) i = true -> mem i (live st) = true \/ queued (queue st) 1 i = true;
  inv_conn : forall c, queued (queue st) 6 c = true -> has_key (conns st) c = true
}.

(* the shapes the scene will hold once the queue is processed *)
Definition view (st : state) (i : Z) : option poly :=
  if queued (queue st) 2 i then None
  else match qm (queue st) i with
       | Some P => Some P
       | None => if queued (queue st) 1 i || mem i (live st) then lookup (objs st) i else None
       end.

Lemma lookup_scene st i : lookup (scene st) i = if mem i (live st) then lookup (objs st) i else None.
Proof.
  unfold scene, mem. induction (live st) as [|j l IH]; [reflexivity|].
  cbn [flat_map existsb]. destruct (i =? j) eqn:E.
  - apply Z.eqb_eq in E. subst j. cbn [orb].
    destruct (lookup (objs st) i) as [P|] eqn:L; cbn [app lookup].
    + rewrite Z.eqb_refl. reflexivity.
    + rewrite IH. destruct (existsb (Z.eqb i) l); reflexivity.
  - cbn [orb]. destruct (lookup (objs st) j) as [P|]; cbn [app lookup]; [|exact IH].
    rewrite Z.eqb_sym, E. exact IH.
Qed.

Lemma has_key_lookup {A} (m : list (Z * A)) i : has_key m i = true <-> exists v, lookup m i = Some v.
Proof. unfold has_key. destruct (lookup m i); split; try discriminate; eauto. intros [v H]; discriminate. Qed.

Lemma process_actions_spec st : Inv st ->
  let st' := process_actions st in
  queue st' = [] /\ trans st' = trans st /\
  (forall i, mem i (live st') = queued (queue st) 1 i || queued (queue st) 0 i ||
                                (mem i (live st) && negb (queued (queue st) 2 i || queued (queue st) 0 i))) /\
  (forall i, lookup (objs st') i = match qm (queue st) i with
                                   | Some P => Some P
                                   | None => if queued (queue st) 2 i then None else lookup (objs st) i
                                   end).
Proof.
  intros I. unfold process_actions.
  pose proof (sort_actions_perm (queue st)) as Pm.
  set (q := sort_actions (queue st)) in *.
  assert (N : NoDup (keys q)).
  { eapply Permutation_NoDup; [apply Permutation_map, Permutation_sym; exact Pm|apply I]. }
  destruct (fold_left pass_remove q (objs st, live st)) as [o1 l1] eqn:F1.
  destruct (fold_left pass_add q (o1, l1)) as [o2 l2] eqn:F.
  cbn [queue trans live objs]. split; [reflexivity|]. split; [reflexivity|].
  split; intro i; pose proof (pass_add_fold q N o1 l1 i) as [M L]; rewrite F in M, L; cbn [fst snd] in M, L;
    pose proof (pass_remove_fold q (objs st) (live st) i) as [M1 L1]; rewrite F1 in M1, L1; cbn [fst snd] in M1, L1.
  - rewrite M, M1.
    rewrite !(queued_perm q (queue st)) by assumption. reflexivity.
  - rewrite L, L1. rewrite (qm_perm q (queue st) i N Pm).
    rewrite (queued_perm q (queue st)) by assumption. reflexivity.
Qed.

Lemma qm_some_queued q i P : qm q i = Some P -> queued q 0 i = true.
Proof. intro H. apply qm_queued. eexists; eassumption. Qed.

Lemma process_preserves st : Inv st ->
  Inv (process_actions st) /\ forall i, view (process_actions st) i = view st i.
Proof.
  intro I. destruct (process_actions_spec st I) as (Q & T & M & L). cbn zeta in *.
  split.
  - constructor; rewrite ?Q; try (intros i H; cbn in H; discriminate).
    + constructor.
    + (* live -> exists *)
      intros i H. rewrite M in H. apply has_key_lookup. rewrite L.
      destruct (qm (queue st) i) as [P|] eqn:Eq; [eexists; reflexivity|].
      apply qm_none in Eq. rewrite Eq in H.
      destruct (queued (queue st) 1 i) eqn:Ea.
      * destruct (inv_add st I i Ea) as (Hk & _ & _ & Hr). rewrite Hr. apply has_key_lookup. exact Hk.
      * destruct (queued (queue st) 2 i) eqn:Er.
        -- cbn in H. rewrite andb_false_r in H. discriminate.
        -- cbn in H. rewrite andb_true_r in H. apply has_key_lookup. apply (inv_live st I). exact H.
    + (* exists -> live (nothing is queued any more) *)
      intros i H. left. rewrite M. apply has_key_lookup in H. destruct H as [v H]. rewrite L in H.
      destruct (qm (queue st) i) as [P|] eqn:Eq.
      * rewrite (qm_some_queued _ _ _ Eq). rewrite orb_true_r. reflexivity.
      * apply qm_none in Eq. rewrite Eq. destruct (queued (queue st) 2 i) eqn:Er; [discriminate|].
        assert (Hk : has_key (objs st) i = true) by (apply has_key_lookup; eexists; eassumption).
        destruct (inv_objs st I i Hk) as [Hl|Ha]; [rewrite Hl|rewrite Ha]; cbn; [apply orb_true_r|reflexivity].
  - intro i. unfold view. rewrite Q. cbn [queued existsb]. unfold qm at 1, queued_move_poly. cbn [find orb].
    rewrite M, L.
    destruct (queued (queue st) 2 i) eqn:Er.
    + assert (Em : queued (queue st) 0 i = false).
      { destruct (queued (queue st) 0 i) eqn:Em; [|reflexivity]. destruct (inv_move st I i Em). congruence. }
      assert (Ea : queued (queue st) 1 i = false).
      { destruct (queued (queue st) 1 i) eqn:Ea; [|reflexivity]. destruct (inv_add st I i Ea) as (_ & _ & _ & ?). congruence. }
      rewrite Em, Ea. cbn. rewrite andb_false_r. reflexivity.
    + destruct (qm (queue st) i) as [P|] eqn:Eq.
      * rewrite (qm_some_queued _ _ _ Eq). rewrite orb_true_r. reflexivity.
      * apply qm_none in Eq. rewrite Eq. cbn. rewrite andb_true_r.
        destruct (queued (queue st) 1 i), (mem i (live st)); reflexivity.
Qed.

Lemma auto_process_preserves st : Inv st ->
  Inv (auto_process st) /\ forall i, view (auto_process st) i = view st i.
Proof.
  intros I. unfold auto_process, process_transaction. destruct (trans st) eqn:T; [auto|].
  destruct (queue st) eqn:Q; [auto|]. cbn [fst]. apply process_preserves. exact I.
Qed.


(* ---------------------------------------------------------------- one operation *)
Definition agrees (st : state) (sh : list (Z * poly)) : Prop := forall i, view st i = lookup sh i.

Lemma same_key_other k i a : key a <> (k, i) -> same_key k i a = false.
Proof. intro H. destruct (same_key k i a) eqn:E; [|reflexivity]. apply same_key_key in E. contradiction. Qed.

Lemma has_key_set {A} (m : list (Z * A)) k v i : has_key (set_key m k v) i = (k =? i) || has_key m i.
Proof. unfold has_key. rewrite lookup_set_key. destruct (k =? i); reflexivity. Qed.

Lemma not_live_of_not_key st i : Inv st -> has_key (objs st) i = false -> mem i (live st) = false.
Proof. intros I H. destruct (mem i (live st)) eqn:E; [|reflexivity]. rewrite (inv_live st I i E) in H. discriminate. Qed.
Lemma not_add_of_not_key st i : Inv st -> has_key (objs st) i = false -> queued (queue st) 1 i = false.
Proof. intros I H. destruct (queued (queue st) 1 i) eqn:E; [|reflexivity]. destruct (inv_add st I i E) as [K _]. congruence. Qed.

Ltac bsimp := cbn [queue objs live conns trans set_queue set_objs set_conns akind aid key fst snd] in *.
Ltac eqb_case j i := let E := fresh "E" in destruct (j =? i) eqn:E; [apply Z.eqb_eq in E; subst|].

Lemma sk_add k i j : same_key k i (QAdd j) = (1 =? k) && (j =? i).
Proof. unfold same_key. cbn. reflexivity. Qed.
Lemma sk_move k i j P : same_key k i (QMove j P) = (0 =? k) && (j =? i).
Proof. unfold same_key. cbn. reflexivity. Qed.
Lemma sk_rem k i j : same_key k i (QRemove j) = (2 =? k) && (j =? i).
Proof. unfold same_key. cbn. reflexivity. Qed.
Lemma sk_conn k i c u : same_key k i (QConn c u) = (6 =? k) && (c =? i).
Proof. unfold same_key. cbn. reflexivity. Qed.

(* pushing an add for a brand-new shape *)
Lemma add_shape_refines st j P sh :
  Inv st -> agrees st sh ->
  has_key (objs st) j = false -> queued (queue st) 2 j = false -> queued (queue st) 0 j = false ->
  let st1 := set_queue (set_objs st (set_key (objs st) j P)) (queue st ++ [QAdd j]) in
  Inv st1 /\ agrees st1 (set_key sh j P).
Proof.
  intros I A Hk Hr Hm. cbn zeta.
  pose proof (not_live_of_not_key st j I Hk) as Hl. pose proof (not_add_of_not_key st j I Hk) as Ha.
  split.
  - constructor; bsimp.
    + apply NoDup_keys_app; [apply I|exact Ha].
    + intros i H. rewrite !queued_app, !sk_add, has_key_set in *. cbn [Z.eqb Pos.eqb andb orb] in *.
      eqb_case j i.
      * rewrite Hl, Hm, Hr. auto.
      * rewrite orb_false_r in H. destruct (inv_add st I i H) as (B1 & B2 & B3 & B4). rewrite B1, B2, B3, B4. auto.
    + intros i H. rewrite !queued_app, !sk_add in *. cbn [Z.eqb Pos.eqb andb orb] in *. rewrite !orb_false_r in *.
      apply (inv_move st I i H).
    + intros i H. rewrite !queued_app, !sk_add in *. cbn [Z.eqb Pos.eqb andb orb] in *. rewrite !orb_false_r in *.
      apply (inv_rem st I i H).
    + intros i H. rewrite has_key_set. rewrite (inv_live st I i H). apply orb_true_r.
    + intros i H. rewrite has_key_set in H. rewrite queued_app, sk_add. cbn [Z.eqb andb].
      eqb_case j i; [right; apply orb_true_r|]. cbn [orb] in H.
      destruct (inv_objs st I i H) as [B|B]; [left; exact B|right; rewrite B; reflexivity].
    + intros c H. rewrite queued_app, sk_add in H. cbn [Z.eqb Pos.eqb andb orb] in H. rewrite orb_false_r in H.
      apply (inv_conn st I c H).
  - intro i. unfold view. bsimp. rewrite !queued_app, !sk_add, lookup_set_key. cbn [Z.eqb Pos.eqb andb orb].
    rewrite qm_app_other by (rewrite sk_add; reflexivity). rewrite !orb_false_r.
    eqb_case j i.
    + rewrite Hr. apply qm_none in Hm. rewrite Hm. rewrite orb_true_r. cbn [orb]. rewrite lookup_set_key, Z.eqb_refl. reflexivity.
    + rewrite orb_false_r. rewrite lookup_set_key, E. apply A.
Qed.

Lemma has_key_set_same {A} (m : list (Z * A)) k v i : has_key m k = true -> has_key (set_key m k v) i = has_key m i.
Proof. intro H. rewrite has_key_set. eqb_case k i; [rewrite H; reflexivity|reflexivity]. Qed.

(* moveShape on a shape whose add is still pending: the add's polygon is rewritten *)
Lemma move_pending_add_refines st j P sh :
  Inv st -> agrees st sh -> queued (queue st) 1 j = true ->
  let st1 := set_objs st (set_key (objs st) j P) in
  Inv st1 /\ agrees st1 (set_key sh j P).
Proof.
  intros I A Ha. cbn zeta. destruct (inv_add st I j Ha) as (Hk & Hl & Hm & Hr).
  split.
  - constructor; bsimp; try (intros i H; rewrite ?has_key_set_same by exact Hk).
    + apply I.
    + destruct (inv_add st I i H) as (B1 & B2 & B3 & B4). auto.
    + apply (inv_move st I i H).
    + apply (inv_rem st I i H).
    + apply (inv_live st I i H).
    + rewrite has_key_set_same in H by exact Hk. apply (inv_objs st I i H).
    + apply (inv_conn st I i H).
  - intro i. unfold view. bsimp. rewrite !lookup_set_key.
    eqb_case j i.
    + rewrite Hr, Ha. apply qm_none in Hm. rewrite Hm. reflexivity.
    + apply A.
Qed.

(* a second move replaces the polygon of the queued one *)
Lemma move_replace_refines st j P sh :
  Inv st -> agrees st sh -> queued (queue st) 0 j = true ->
  let st1 := set_queue st (replace_move j P (queue st)) in
  Inv st1 /\ agrees st1 (set_key sh j P).
Proof.
  intros I A Hm. cbn zeta. destruct (inv_move st I j Hm) as (Hl & Hr).
  split.
  - constructor; bsimp; try (intros i H; rewrite ?queued_replace_move in * ).
    + rewrite keys_replace_move. apply I.
    + destruct (inv_add st I i H) as (B1 & B2 & B3 & B4). auto.
    + apply (inv_move st I i H).
    + apply (inv_rem st I i H).
    + apply (inv_live st I i H).
    + apply (inv_objs st I i H).
    + apply (inv_conn st I i H).
  - intro i. unfold view. bsimp. rewrite !queued_replace_move, qm_replace_move by exact Hm. rewrite lookup_set_key.
    eqb_case j i.
    + rewrite Hr. reflexivity.
    + apply A.
Qed.

(* first move of a live shape *)
Lemma move_push_refines st j P sh :
  Inv st -> agrees st sh -> has_key (objs st) j = true ->
  queued (queue st) 2 j = false -> queued (queue st) 1 j = false -> queued (queue st) 0 j = false ->
  let st1 := set_queue st (queue st ++ [QMove j P]) in
  Inv st1 /\ agrees st1 (set_key sh j P).
Proof.
  intros I A Hk Hr Ha Hm. cbn zeta.
  assert (Hl : mem j (live st) = true) by (destruct (inv_objs st I j Hk) as [B|B]; [exact B|congruence]).
  split.
  - constructor; bsimp; try (intros i H; rewrite ?queued_app, ?sk_move in *; cbn [Z.eqb Pos.eqb andb orb] in * ).
    + apply NoDup_keys_app; [apply I|exact Hm].
    + rewrite orb_false_r in H. destruct (inv_add st I i H) as (B1 & B2 & B3 & B4). rewrite B1, B2, B3, B4.
      eqb_case j i; [congruence|auto].
    + eqb_case j i; [rewrite Hl, Hr; auto|]. rewrite !orb_false_r in *. apply (inv_move st I i H).
    + rewrite orb_false_r in H. apply (inv_rem st I i H).
    + apply (inv_live st I i H).
    + rewrite orb_false_r. apply (inv_objs st I i H).
    + rewrite orb_false_r in H. apply (inv_conn st I i H).
  - intro i. unfold view. bsimp. rewrite !queued_app, !sk_move, qm_app_move by exact Hm. cbn [Z.eqb Pos.eqb andb orb].
    rewrite !orb_false_r, lookup_set_key.
    eqb_case j i.
    + rewrite Hr. reflexivity.
    + apply A.
Qed.

(* deleteShape: a pending move is erased, the removal is queued *)
Lemma delete_refines st j sh :
  Inv st -> agrees st sh -> has_key (objs st) j = true ->
  queued (queue st) 1 j = false -> queued (queue st) 2 j = false ->
  let st1 := set_queue st (erase_first (same_key 0 j) (queue st) ++ [QRemove j]) in
  Inv st1 /\ agrees st1 (remove_key sh j).
Proof.
  intros I A Hk Ha Hr. cbn zeta.
  assert (Hl : mem j (live st) = true) by (destruct (inv_objs st I j Hk) as [B|B]; [exact B|congruence]).
  pose proof (inv_dedup st I) as N.
  split.
  - constructor; bsimp; try (intros i H; rewrite ?queued_app, ?sk_rem, ?queued_erase in * by exact N; cbn [Z.eqb Pos.eqb andb orb negb] in * ).
    + apply NoDup_keys_app; [apply NoDup_erase; exact N|].
      cbn [akind aid]. rewrite queued_erase by exact N. rewrite Hr. reflexivity.
    + rewrite orb_false_r, andb_true_r in H. destruct (inv_add st I i H) as (B1 & B2 & B3 & B4). rewrite B1, B2, B3, B4.
      eqb_case j i; [congruence|]. rewrite andb_true_r. auto.
    + rewrite orb_false_r in H. apply andb_true_iff in H. destruct H as [H Hn].
      destruct (inv_move st I i H) as [B1 B2]. rewrite B1, B2. rewrite andb_true_r.
      rewrite Z.eqb_sym. apply negb_true_iff in Hn. rewrite Hn. auto.
    + rewrite andb_true_r in H. eqb_case j i; [exact Hl|]. rewrite orb_false_r in H. apply (inv_rem st I i H).
    + apply (inv_live st I i H).
    + rewrite orb_false_r, andb_true_r. apply (inv_objs st I i H).
    + rewrite orb_false_r, andb_true_r in H. apply (inv_conn st I i H).
  - intro i. unfold view. bsimp. rewrite !queued_app, !sk_rem, !queued_erase by exact N.
    rewrite qm_app_other by (rewrite sk_rem; reflexivity). rewrite qm_erase by exact N.
    cbn [Z.eqb Pos.eqb andb orb negb]. rewrite !orb_false_r, !andb_true_r, lookup_remove_key.
    eqb_case j i.
    + rewrite orb_true_r. reflexivity.
    + rewrite orb_false_r. apply A.
Qed.

(* connector actions do not touch the shape part *)
Lemma conn_push_refines st c ups cs sh :
  Inv st -> agrees st sh -> queued (queue st) 6 c = false -> has_key cs c = true ->
  (forall x, has_key (conns st) x = true -> has_key cs x = true) ->
  let st1 := set_queue (set_conns st cs) (queue st ++ [QConn c ups]) in
  Inv st1 /\ agrees st1 sh.
Proof.
  intros I A Hq Hc Hmono. cbn zeta. split.
  - constructor; bsimp; try (intros i H; rewrite ?queued_app, ?sk_conn in *; cbn [Z.eqb Pos.eqb andb orb] in *; rewrite ?orb_false_r in * ).
    + apply NoDup_keys_app; [apply I|exact Hq].
    + destruct (inv_add st I i H) as (B1 & B2 & B3 & B4). auto.
    + apply (inv_move st I i H).
    + apply (inv_rem st I i H).
    + apply (inv_live st I i H).
    + apply (inv_objs st I i H).
    + eqb_case c i; [exact Hc|]. rewrite orb_false_r in H. apply Hmono. apply (inv_conn st I i H).
  - intro i. unfold view. bsimp. rewrite !queued_app, !sk_conn. cbn [Z.eqb Pos.eqb andb orb]. rewrite !orb_false_r.
    rewrite qm_app_other by (rewrite sk_conn; reflexivity). apply A.
Qed.

Lemma queued_update_conn c w p q k i : queued (update_conn_action c w p q) k i = queued q k i.
Proof. apply eq_true_iff_eq. rewrite !queued_keys, keys_update_conn. tauto. Qed.

Lemma conn_update_refines st c w p sh :
  Inv st -> agrees st sh ->
  let st1 := set_queue st (update_conn_action c w p (queue st)) in
  Inv st1 /\ agrees st1 sh.
Proof.
  intros I A. cbn zeta. split.
  - constructor; bsimp; try (intros i H; rewrite ?queued_update_conn in * ).
    + rewrite keys_update_conn. apply I.
    + destruct (inv_add st I i H) as (B1 & B2 & B3 & B4). auto.
    + apply (inv_move st I i H).
    + apply (inv_rem st I i H).
    + apply (inv_live st I i H).
    + apply (inv_objs st I i H).
    + apply (inv_conn st I i H).
  - intro i. unfold view. bsimp. rewrite !queued_update_conn, qm_update_conn. apply A.
Qed.

Lemma process_transaction_refines st sh :
  Inv st -> agrees st sh -> Inv (fst (process_transaction st)) /\ agrees (fst (process_transaction st)) sh.
Proof.
  intros I A. unfold process_transaction. destruct (queue st) eqn:Q; cbn [fst]; [auto|].
  destruct (process_preserves st I) as [I' V]. split; [exact I'|]. intro i. rewrite V. apply A.
Qed.

Lemma auto_refines st sh : Inv st /\ agrees st sh -> Inv (auto_process st) /\ agrees (auto_process st) sh.
Proof.
  intros [I A]. destruct (auto_process_preserves st I) as [I' V]. split; [exact I'|]. intro i. rewrite V. apply A.
Qed.

Lemma do_move_to_refines st j P st' sh :
  Inv st -> agrees st sh -> do_move_to st j P = Some st' -> Inv st' /\ agrees st' (set_key sh j P).
Proof.
  intros I A. unfold do_move_to.
  destruct (has_key (objs st) j) eqn:Hk; cbn [negb orb]; [|discriminate].
  destruct (queued (queue st) 2 j) eqn:Hr; [discriminate|].
  destruct (same_size st j P); cbn [negb]; [|discriminate].
  destruct (queued (queue st) 1 j) eqn:Ha.
  - intro H. inversion H; subst. apply move_pending_add_refines; assumption.
  - destruct (queued (queue st) 0 j) eqn:Hm; intro H; inversion H; subst; apply auto_refines.
    + apply move_replace_refines; assumption.
    + apply move_push_refines; assumption.
Qed.

Lemma view_of_existing st j :
  Inv st -> has_key (objs st) j = true -> queued (queue st) 2 j = false ->
  view st j = match qm (queue st) j with Some P => Some P | None => lookup (objs st) j end.
Proof.
  intros I Hk Hr. unfold view. rewrite Hr. destruct (qm (queue st) j); [reflexivity|].
  destruct (inv_objs st I j Hk) as [B|B]; rewrite B; [rewrite orb_true_r|]; reflexivity.
Qed.

Theorem step_refines st o st' sc :
  Inv st -> agrees st (s_shapes sc) -> step st o = Some st' ->
  Inv st' /\ agrees st' (s_shapes (seq_step sc o)).
Proof.
  intros I A. destruct o as [j P|j dx dy|j P|j|c s d|c w p|]; cbn [step seq_step].
  - (* AddShape *)
    destruct (has_key (objs st) j) eqn:Hk; cbn [orb]; [discriminate|].
    destruct (queued (queue st) 2 j) eqn:Hr; cbn [orb]; [discriminate|].
    destruct (queued (queue st) 0 j) eqn:Hm; [discriminate|].
    intro H. inversion H; subst. clear H. cbn [s_shapes].
    unfold push_unless_queued. cbn [akind aid]. rewrite (not_add_of_not_key st j I Hk).
    apply auto_refines. apply add_shape_refines; assumption.
  - (* MoveShape *)
    destruct (match qm (queue st) j with Some P => Some P | None => lookup (objs st) j end) as [base|] eqn:B;
      [|unfold qm in B; rewrite B; discriminate].
    unfold qm in B. rewrite B. intro H.
    assert (Hpre : has_key (objs st) j = true /\ queued (queue st) 2 j = false).
    { unfold do_move_to in H. destruct (has_key (objs st) j); cbn [negb orb] in H; [|discriminate].
      destruct (queued (queue st) 2 j); [discriminate|]. auto. }
    destruct Hpre as [Hk Hr].
    pose proof (view_of_existing st j I Hk Hr) as V. unfold qm in V. rewrite B in V. rewrite (A j) in V. rewrite V.
    cbn [s_shapes]. eapply do_move_to_refines; eassumption.
  - (* MoveShapeTo *)
    intro H. cbn [s_shapes]. eapply do_move_to_refines; eassumption.
  - (* DeleteShape *)
    destruct (has_key (objs st) j) eqn:Hk; cbn [negb orb]; [|discriminate].
    destruct (queued (queue st) 1 j) eqn:Ha; cbn [orb]; [discriminate|].
    destruct (queued (queue st) 2 j) eqn:Hr; [discriminate|].
    intro H. inversion H; subst. clear H. cbn [s_shapes].
    unfold push_unless_queued. cbn [akind aid]. rewrite queued_erase by (apply I). rewrite Hr. cbn [andb].
    apply auto_refines. apply delete_refines; assumption.
  - (* AddConn *)
    destruct (has_key (conns st) c) eqn:Hc; [discriminate|].
    intro H. inversion H; subst. clear H. cbn [s_shapes]. apply auto_refines.
    apply conn_push_refines; try assumption.
    + destruct (queued (queue st) 6 c) eqn:Q; [|reflexivity]. rewrite (inv_conn st I c Q) in Hc. discriminate.
    + rewrite has_key_set, Z.eqb_refl. reflexivity.
    + intros x Hx. rewrite has_key_set, Hx. apply orb_true_r.
  - (* MoveEndpoint *)
    destruct (has_key (conns st) c) eqn:Hc; cbn [negb]; [|discriminate].
    assert (Es : s_shapes (match lookup (s_conns sc) c with
                           | Some e => mkss (s_shapes sc) (set_key (s_conns sc) c (apply_end e (w, p)))
                           | None => sc end) = s_shapes sc) by (destruct (lookup (s_conns sc) c); reflexivity).
    rewrite Es.
    destruct (queued (queue st) 6 c) eqn:Q; intro H; inversion H; subst; clear H; apply auto_refines.
    + apply conn_update_refines; assumption.
    + replace (set_queue st (queue st ++ [QConn c [(w, p)]]))
        with (set_queue (set_conns st (conns st)) (queue st ++ [QConn c [(w, p)]])) by (destruct st; reflexivity).
      apply conn_push_refines; auto.
  - (* Process *)
    intro H. inversion H; subst. apply process_transaction_refines; assumption.
Qed.

Lemma Inv_init t : Inv (init t).
Proof. constructor; cbn; try (intros; discriminate). constructor. Qed.

Lemma run_refines h : forall st sc st',
  Inv st -> agrees st (s_shapes sc) -> run st h = Some st' ->
  Inv st' /\ agrees st' (s_shapes (fold_left seq_step h sc)).
Proof.
  induction h as [|o r IH]; intros st sc st' I A H; cbn [run fold_left] in *.
  - inversion H; subst. auto.
  - destruct (step st o) as [st1|] eqn:S; [|discriminate].
    destruct (step_refines st o st1 sc I A S) as [I1 A1]. eapply IH; eassumption.
Qed.

(* C06: queue_dedup *)
Theorem queue_dedup t h st : run (init t) h = Some st -> NoDup (keys (queue st)).
Proof.
  intro H. destruct (run_refines h (init t) (mkss [] []) st (Inv_init t)) as [I _]; [intro i; reflexivity|exact H|].
  apply I.
Qed.

(* C06: empty_transaction_identity *)
Theorem empty_transaction_identity st : queue st = [] -> process_transaction st = (st, false).
Proof. intro H. unfold process_transaction. rewrite H. reflexivity. Qed.

(* C06: queue_refines_sequential (shape part of the scene).  For every history accepted by the model (i.e. respecting
   every asserted precondition, in particular "no add + delete of one shape in one transaction"), once the queue has
   been processed the router holds exactly the shapes obtained by applying the edits one at a time. *)
Theorem queue_refines_sequential t h st :
  run (init t) h = Some st -> queue st = [] ->
  forall i, lookup (scene st) i = lookup (s_shapes (seq_run h)) i.
Proof.
  intros H Q i.
  destruct (run_refines h (init t) (mkss [] []) st (Inv_init t)) as [I A]; [intro j; reflexivity|exact H|].
  unfold seq_run. rewrite <- (A i). unfold view. rewrite Q. cbn [queued existsb]. unfold qm, queued_move_poly. cbn [find orb].
  apply lookup_scene.
Qed.

(* the usual shape of a transaction: any legal history followed by Process ends with an empty queue *)
Lemma queue_process_actions st : queue (process_actions st) = [].
Proof.
  unfold process_actions. destruct (fold_left pass_remove _ _) as [o1 l1]. destruct (fold_left pass_add _ _) as [o2 l2].
  reflexivity.
Qed.
Lemma process_empties st st' : step st Process = Some st' -> queue st' = [].
Proof.
  cbn [step]. intro H. inversion H; subst. unfold process_transaction.
  destruct (queue st) eqn:Q; cbn [fst]; [exact Q|apply queue_process_actions].
Qed.
Lemma run_app st h1 h2 : run st (h1 ++ h2) = match run st h1 with Some st1 => run st1 h2 | None => None end.
Proof.
  revert st. induction h1 as [|o r IH]; intro st; [reflexivity|]. cbn [app run].
  destruct (step st o); [apply IH|reflexivity].
Qed.
Corollary queue_refines_sequential_after_process t h st :
  run (init t) (h ++ [Process]) = Some st ->
  forall i, lookup (scene st) i = lookup (s_shapes (seq_run h)) i.
Proof.
  intros H i. assert (Q : queue st = []).
  { rewrite run_app in H. destruct (run (init t) h) as [s1|]; [|discriminate]. cbn [run] in H.
    destruct (step s1 Process) as [s2|] eqn:S; [|discriminate]. inversion H; subst. eapply process_empties; eassumption. }
  rewrite (queue_refines_sequential t (h ++ [Process]) st H Q i).
  unfold seq_run. rewrite fold_left_app. reflexivity.
Qed.

(* with transactions off every operation is applied at once: the queue is empty after every accepted operation *)
Lemma auto_process_empties st : trans st = false -> queue (auto_process st) = [].
Proof.
  intro T. unfold auto_process, process_transaction. rewrite T.
  destruct (queue st) eqn:Q; cbn [fst]; [exact Q|apply queue_process_actions].
Qed.

(* ---- non-vacuity: a history that uses every de-duplication rule *)
Definition ex_sq (x y : Z) : poly := [mkpt (inject_Z x + 2) (inject_Z y); mkpt (inject_Z x + 2) (inject_Z y + 2);
                                       mkpt (inject_Z x) (inject_Z y + 2); mkpt (inject_Z x) (inject_Z y)].
Definition ex_hist : list op :=
  [AddShape 1 (ex_sq 0 0); MoveShape 1 5 5;            (* move on a pending add rewrites the add *)
   AddShape 2 (ex_sq 20 0); Process;
   MoveShape 1 1 1; MoveShape 1 1 1;                   (* relative moves compose on the queued polygon *)
   MoveShapeTo 2 (ex_sq 30 30); DeleteShape 2;         (* delete erases the pending move *)
   Process].
Example ex_hist_runs :
  option_map (fun st => (map fst (scene st), queue st)) (run (init true) ex_hist) = Some ([1], []).
Proof. vm_compute. reflexivity. Qed.
Example ex_hist_scene :
  option_map (fun st => lookup (scene st) 1) (run (init true) ex_hist) = Some (lookup (s_shapes (seq_run ex_hist)) 1).
Proof. vm_compute. reflexivity. Qed.
Example ex_add_delete_rejected : run (init true) [AddShape 1 (ex_sq 0 0); DeleteShape 1] = None.
Proof. vm_compute. reflexivity. Qed.
