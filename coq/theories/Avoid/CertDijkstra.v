(* Proofs for the certifying Dijkstra (Avoid/CertDijkstraModel.v):
     dijkstra_sound   : Found p c  -> p is a walk of the graph from s to t of cost exactly c
     dijkstra_optimal : Found p c  -> every walk from s to t costs at least c          (any weights, any finite graph)
     dijkstra_noroute : NoRoute    -> there is no walk from s to t
   The outcome Fail ("the answer did not pass its own certificate") is excluded in every statement of this file; that
   the label-setting loop never produces it (in-range targets, non-negative weights, no parallel edges) is
   cert_dijkstra_total in Avoid/CertDijkstraTotal.v (the checks still report any Fail as a violation). *)
From Adapt Require Import Num.Qaux Avoid.CertDijkstraModel.
Local Open Scope Z_scope.

Section CDP.
Variable N : nat.
Variable succs : nat -> list (nat * Z).

(* walks of the graph: u ->* x with total weight c *)
Inductive walk : nat -> nat -> Z -> Prop :=
| walk_nil u : walk u u 0
| walk_step u v w x c : In (v, w) (succs u) -> walk v x c -> walk u x (w + c).

Lemma getd_lt d u x : length d = N -> getd d u = Some x -> (u < N)%nat.
Proof.
  intros L H. unfold getd in H. destruct (Nat.lt_ge_cases u N) as [|G]; [assumption|].
  rewrite nth_overflow in H by lia. discriminate.
Qed.

Lemma cert_ok_spec s d :
  cert_ok N succs s d = true ->
  length d = N /\ (exists x, getd d s = Some x /\ x <= 0) /\
  forall u du v w, getd d u = Some du -> In (v, w) (succs u) -> exists dv, getd d v = Some dv /\ dv <= du + w.
Proof.
  unfold cert_ok. rewrite !andb_true_iff. intros [[L S] F].
  apply Nat.eqb_eq in L. split; [assumption|]. split.
  - destruct (getd d s) as [x|]; [|discriminate]. exists x. split; [reflexivity|]. apply Z.leb_le. assumption.
  - intros u du v w Hu Hin.
    rewrite forallb_forall in F. specialize (F u).
    assert (Hlt : (u < N)%nat) by (eapply getd_lt; eassumption).
    specialize (F ltac:(apply in_seq; lia)). rewrite Hu in F.
    rewrite forallb_forall in F. specialize (F (v, w) Hin). cbn [fst snd] in F.
    destruct (getd d v) as [dv|]; [|discriminate]. exists dv. split; [reflexivity|]. apply Z.leb_le. assumption.
Qed.

(* a relaxation fixpoint bounds every walk from below *)
Lemma cert_bounds_walks s d :
  cert_ok N succs s d = true ->
  forall u x c, walk u x c -> forall du, getd d u = Some du -> exists dx, getd d x = Some dx /\ dx <= du + c.
Proof.
  intros Hc. destruct (cert_ok_spec s d Hc) as (L & _ & F).
  induction 1 as [u|u v w x c Hin Hw IH]; intros du Hu.
  - exists du. split; [assumption|lia].
  - destruct (F u du v w Hu Hin) as (dv & Hv & Hle).
    destruct (IH dv Hv) as (dx & Hx & Hle2). exists dx. split; [assumption|lia].
Qed.

Lemma edge_w_In u v w : edge_w succs u v = Some w -> In (v, w) (succs u).
Proof.
  unfold edge_w. destruct (find (fun e => (fst e =? v)%nat) (succs u)) as [e|] eqn:E; [|discriminate].
  intro H. inversion H; subst. apply find_some in E. destruct E as [Hin He]. apply Nat.eqb_eq in He.
  destruct e as [v' w']. cbn [fst snd] in *. subst. assumption.
Qed.

Lemma last_default {A} (l : list A) d d' : l <> [] -> last l d = last l d'.
Proof.
  induction l as [|x l IH]; [congruence|]. intros _. destruct l as [|y l]; [reflexivity|].
  cbn [last] in *. apply IH. discriminate.
Qed.

Lemma path_cost_cons a b r :
  path_cost succs (a :: b :: r) =
  match edge_w succs a b, path_cost succs (b :: r) with Some w, Some c => Some (w + c) | _, _ => None end.
Proof. reflexivity. Qed.

Lemma path_cost_walk p : forall c a, path_cost succs (a :: p) = Some c -> walk a (last (a :: p) a) c.
Proof.
  induction p as [|b r IH]; intros c a H.
  - cbn in H. inversion H; subst. cbn. constructor.
  - rewrite path_cost_cons in H.
    destruct (edge_w succs a b) as [w|] eqn:Ew; [|discriminate].
    destruct (path_cost succs (b :: r)) as [c'|] eqn:Ec; [|discriminate].
    inversion H; subst.
    change (last (a :: b :: r) a) with (last (b :: r) a).
    assert (El : last (b :: r) a = last (b :: r) b) by (apply last_default; discriminate).
    rewrite El. econstructor; [apply edge_w_In; eassumption|]. apply IH. assumption.
Qed.

Lemma check_path_spec s t p c :
  check_path succs s t p c = true -> walk s t c.
Proof.
  unfold check_path. rewrite !andb_true_iff. intros [[Hh Hl] Hc].
  apply Nat.eqb_eq in Hh. apply Nat.eqb_eq in Hl.
  destruct p as [|a p]; [cbn [hd] in Hh; lia|].
  cbn [hd] in Hh. subst a.
  destruct (path_cost succs (s :: p)) as [c'|] eqn:E; [|discriminate]. apply Z.eqb_eq in Hc. subst c'.
  apply path_cost_walk in E. rewrite (last_default (s :: p) s (S t)) in E by discriminate. rewrite Hl in E. assumption.
Qed.

Definition result_inv (s t : nat) (r : result) : Prop :=
  match r with
  | Found p c => walk s t c /\ check_path succs s t p c = true /\ forall c', walk s t c' -> c <= c'
  | NoRoute => forall c', ~ walk s t c'
  | Fail => True
  end.

Lemma dijkstra_inv s t : result_inv s t (dijkstra N succs s t).
Proof.
  unfold dijkstra.
  destruct (dloop N succs N (upd_nth (repeat None N) s (Some 0)) (repeat 0%nat N) (repeat false N)) as [d pr].
  destruct (cert_ok N succs s d) eqn:Hc; cbn [negb]; [|exact I].
  destruct (cert_ok_spec s d Hc) as (L & (x & Hs & Hx) & _).
  destruct (getd d t) as [c|] eqn:Ht.
  - destruct (back N pr s t []) as [p|]; [|exact I].
    destruct (check_path succs s t p c) eqn:Hp; [|exact I].
    split; [eapply check_path_spec; eassumption|]. split; [assumption|].
    intros c' Hw. destruct (cert_bounds_walks s d Hc s t c' Hw x Hs) as (dt & Hdt & Hle).
    rewrite Ht in Hdt. inversion Hdt; subst. lia.
  - intros c' Hw. destruct (cert_bounds_walks s d Hc s t c' Hw x Hs) as (dt & Hdt & _).
    rewrite Ht in Hdt. discriminate.
Qed.

Theorem dijkstra_sound s t p c : dijkstra N succs s t = Found p c -> walk s t c /\ check_path succs s t p c = true.
Proof. intro H. pose proof (dijkstra_inv s t) as I. rewrite H in I. destruct I as (A & B & _). split; assumption. Qed.

Theorem dijkstra_optimal s t p c :
  dijkstra N succs s t = Found p c -> forall c', walk s t c' -> c <= c'.
Proof. intro H. pose proof (dijkstra_inv s t) as I. rewrite H in I. destruct I as (_ & _ & B). exact B. Qed.

Theorem dijkstra_noroute s t : dijkstra N succs s t = NoRoute -> forall c', ~ walk s t c'.
Proof. intro H. pose proof (dijkstra_inv s t) as I. rewrite H in I. exact I. Qed.

(* the returned node list itself: consecutive nodes are joined by edges, it starts at s and ends at t *)
Lemma path_cost_edges p : forall c, path_cost succs p = Some c ->
  forall u v, In (u, v) (combine p (tl p)) -> exists w, In (v, w) (succs u).
Proof.
  induction p as [|a r IH]; intros c H u v Hin; [destruct Hin|].
  destruct r as [|b r']; [destruct Hin|].
  rewrite path_cost_cons in H. destruct (edge_w succs a b) as [w|] eqn:Ew; [|discriminate].
  destruct (path_cost succs (b :: r')) as [c'|] eqn:Ec; [|discriminate].
  cbn [tl combine] in Hin. destruct Hin as [E|Hin].
  - inversion E; subst. exists w. apply edge_w_In. assumption.
  - eapply IH; [reflexivity|]. exact Hin.
Qed.

Theorem dijkstra_path_shape s t p c :
  dijkstra N succs s t = Found p c ->
  hd (S s) p = s /\ last p (S t) = t /\ path_cost succs p = Some c /\
  forall u v, In (u, v) (combine p (tl p)) -> exists w, In (v, w) (succs u).
Proof.
  intro H. destruct (dijkstra_sound s t p c H) as [_ Hc].
  unfold check_path in Hc. rewrite !andb_true_iff in Hc. destruct Hc as [[Hh Hl] Hc].
  apply Nat.eqb_eq in Hh. apply Nat.eqb_eq in Hl.
  destruct (path_cost succs p) as [c'|] eqn:E; [|discriminate]. apply Z.eqb_eq in Hc. subst c'.
  repeat split; try assumption. intros u v Hin. eapply path_cost_edges; eassumption.
Qed.

End CDP.

(* ---- non-vacuity: a 4-node graph with a non-trivial shortest path 0 -> 2 -> 1 (cost 3 < direct 10), and an
        unreachable node *)
Definition ex_succs (u : nat) : list (nat * Z) :=
  match u with
  | 0%nat => [(1%nat, 10); (2%nat, 1)]
  | 2%nat => [(1%nat, 2); (0%nat, 1)]
  | _ => []
  end.
Example dijkstra_ex_found : dijkstra 4 ex_succs 0 1 = Found [0%nat; 2%nat; 1%nat] 3.
Proof. vm_compute. reflexivity. Qed.
Example dijkstra_ex_noroute : dijkstra 4 ex_succs 0 3 = NoRoute.
Proof. vm_compute. reflexivity. Qed.
Example dijkstra_ex_optimal : forall c', walk ex_succs 0 1 c' -> 3 <= c'.
Proof. exact (dijkstra_optimal 4 ex_succs 0 1 _ _ dijkstra_ex_found). Qed.
