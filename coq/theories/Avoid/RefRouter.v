(* Proofs about the reference router (Avoid/RefRouterModel.v) - C03 / C04.
     route_is_graph_path      the returned point list starts at src, ends at dst, has >= 2 points, consecutive pairs visible
     visible_sound            vis_edge = true -> the closed segment meets no obstacle interior
     C03_model_route_avoids   the model's route passes the verified checker route_ok
     C04_model_optimal        cost <= cost of every path of the visibility graph from src to dst
     lenZ_triangle / euclid_heuristic_admissible   triangle inequality of the floor-sqrt lengths with 1e-12 slack per segment
     route_taut_*             the same for the (previous vertex, vertex) product graph restricted to the taut class *)
From Coq Require Import Qround.
From Adapt Require Import Num.Qaux Geom.GeomSpec Geom.GeomSpecDec Avoid.SegPolyModel Avoid.SegPoly
     Avoid.CertDijkstraModel Avoid.CertDijkstra Avoid.RefRouterModel.
Local Open Scope Q_scope.

(* ---------------------------------------------------------------- tables *)
Lemma tab_get_mk_tab {A} (dflt : A) n f u v :
  (u < n)%nat -> (v < n)%nat -> tab_get dflt (mk_tab n f) u v = f u v.
Proof.
  intros Hu Hv. unfold tab_get, mk_tab.
  rewrite (nth_indep _ [] (map (fun v0 => f 0%nat v0) (seq 0 n))) by (rewrite map_length, seq_length; lia).
  rewrite (map_nth (fun u0 => map (fun v0 => f u0 v0) (seq 0 n)) (seq 0 n) 0%nat u).
  rewrite seq_nth by lia. cbn [plus].
  rewrite (nth_indep _ dflt (f u 0%nat)) by (rewrite map_length, seq_length; lia).
  rewrite (map_nth (fun v0 => f u v0) (seq 0 n) 0%nat v). rewrite seq_nth by lia. reflexivity.
Qed.

Lemma tab_get_true_lt n f u v : tab_get false (mk_tab n f) u v = true -> (u < n)%nat /\ (v < n)%nat.
Proof.
  unfold tab_get, mk_tab. intro H.
  destruct (Nat.lt_ge_cases u n) as [Hu|Hu].
  - split; [assumption|].
    destruct (Nat.lt_ge_cases v n) as [Hv|Hv]; [assumption|].
    rewrite nth_overflow in H; [discriminate|].
    rewrite (nth_indep _ [] (map (fun v0 => f 0%nat v0) (seq 0 n))) by (rewrite map_length, seq_length; lia).
    rewrite (map_nth (fun u0 => map (fun v0 => f u0 v0) (seq 0 n)) (seq 0 n) 0%nat u).
    rewrite map_length, seq_length. lia.
  - rewrite (nth_overflow _ [] ) in H by (rewrite map_length, seq_length; lia).
    destruct v; discriminate.
Qed.

(* ---------------------------------------------------------------- visibility *)
Theorem visible_sound obst V u v :
  vis_edge obst V u v = true ->
  forall P, In P obst -> segment_avoids P (vpt V u) (vpt V v).
Proof.
  unfold vis_edge. rewrite andb_true_iff. intros [_ H] P HP.
  rewrite forallb_forall in H. apply seg_clear_spec. apply H. assumption.
Qed.

Lemma consecutive_map {A B} (f : A -> B) (l : list A) :
  consecutive (map f l) = map (fun ab => (f (fst ab), f (snd ab))) (consecutive l).
Proof.
  unfold consecutive. induction l as [|a l IH]; [reflexivity|].
  destruct l as [|b l']; [reflexivity|].
  cbn [map tl combine] in *. f_equal. exact IH.
Qed.

Lemma hd_map {A B} (f : A -> B) l d : hd (f d) (map f l) = f (hd d l).
Proof. destruct l; reflexivity. Qed.
Lemma last_map {A B} (f : A -> B) l d : last (map f l) (f d) = f (last l d).
Proof.
  induction l as [|a l IH]; [reflexivity|]. destruct l as [|b l']; [reflexivity|].
  cbn [map last] in *. exact IH.
Qed.

(* ---------------------------------------------------------------- plain graph *)
Section Plain.
Variables (shapes : list (list pt)) (s d : pt).
Let obst := obstacles shapes s d.
Let V := verts shapes s d.
Let n := length V.
Let vt := mk_tab n (vis_edge obst V).
Let lt := mk_tab n (fun u v => lenZ (vpt V u) (vpt V v)).

Lemma n_ge_2 : (2 <= n)%nat.
Proof. unfold n, V, verts. cbn [length]. lia. Qed.
Lemma vpt_0 : vpt V 0 = s.
Proof. reflexivity. Qed.
Lemma vpt_1 : vpt V 1 = d.
Proof. reflexivity. Qed.

Lemma plain_succs_In u v w :
  In (v, w) (plain_succs n vt lt u) <->
  (u < n)%nat /\ (v < n)%nat /\ vis_edge obst V u v = true /\ w = lenZ (vpt V u) (vpt V v).
Proof.
  unfold plain_succs. rewrite in_flat_map. split.
  - intros (x & Hx & Hin). destruct (tab_get false vt u x) eqn:E; [|destruct Hin].
    destruct Hin as [Hin|[]]. inversion Hin; subst x w.
    destruct (tab_get_true_lt _ _ _ _ E) as [Hu Hv].
    unfold vt in E. rewrite tab_get_mk_tab in E by assumption.
    unfold lt. rewrite tab_get_mk_tab by assumption. auto.
  - intros (Hu & Hv & Hvis & ->). exists v. split; [apply in_seq; lia|].
    unfold vt, lt. rewrite !tab_get_mk_tab by assumption. rewrite Hvis. left. reflexivity.
Qed.

(* an index path of the visibility graph and its cost *)
Fixpoint vis_path (q : list nat) : Prop :=
  match q with
  | a :: r => match r with
              | b :: _ => (a < n)%nat /\ (b < n)%nat /\ vis_edge obst V a b = true /\ vis_path r
              | [] => True
              end
  | [] => True
  end.

Lemma vis_path_walk q : forall a, vis_path (a :: q) ->
  walk (plain_succs n vt lt) a (last (a :: q) a) (polyline_len (map (vpt V) (a :: q))).
Proof.
  induction q as [|b r IH]; intros a H.
  - cbn. constructor.
  - destruct H as (Ha & Hb & Hv & Hr).
    change (last (a :: b :: r) a) with (last (b :: r) a).
    rewrite (last_default (b :: r) a b) by discriminate.
    change (polyline_len (map (vpt V) (a :: b :: r)))
      with (lenZ (vpt V a) (vpt V b) + polyline_len (map (vpt V) (b :: r)))%Z.
    econstructor; [|apply IH; exact Hr].
    apply plain_succs_In. auto.
Qed.

Theorem route_is_graph_path pts c :
  route_plain shapes s d = Route pts c ->
  (2 <= length pts)%nat /\ hd s pts = s /\ last pts d = d /\
  forall a b, In (a, b) (consecutive pts) -> forall P, In P obst -> segment_avoids P a b.
Proof.
  unfold route_plain. fold obst V n vt lt.
  destruct (dijkstra n (plain_succs n vt lt) 0 1) as [p c0| |] eqn:D; try discriminate.
  intro H. inversion H; subst pts c0. clear H.
  destruct (dijkstra_path_shape _ _ _ _ _ _ D) as (Hh & Hl & _ & He).
  assert (Hlen : (2 <= length p)%nat).
  { destruct p as [|a [|b r]]; cbn in *; try lia. }
  rewrite map_length. split; [assumption|].
  split.
  { destruct p as [|a r]; [cbn in Hlen; lia|]. cbn [hd map] in *. rewrite Hh. reflexivity. }
  split.
  { destruct p as [|a r]; [cbn in Hlen; lia|].
    rewrite (last_default (map (vpt V) (a :: r)) d (vpt V 2)) by discriminate.
    rewrite last_map. rewrite Hl. reflexivity. }
  intros a b Hab P HP. rewrite consecutive_map in Hab. apply in_map_iff in Hab.
  destruct Hab as ([u v] & E & Huv). cbn [fst snd] in E. inversion E; subst a b.
  destruct (He u v Huv) as (w & Hw). apply plain_succs_In in Hw. destruct Hw as (_ & _ & Hvis & _).
  eapply visible_sound; eassumption.
Qed.

Lemma pt_eqb_refl p : pt_eqb p p = true.
Proof. apply pt_eqb_spec. split; reflexivity. Qed.

Theorem C03_model_route_avoids pts c :
  route_plain shapes s d = Route pts c -> route_ok shapes s d pts = true.
Proof.
  intro H. destruct (route_is_graph_path pts c H) as (H1 & H2 & H3 & H4).
  apply route_ok_spec. unfold route_valid. rewrite H2, H3.
  split; [assumption|]. split; [apply pt_eqb_spec, pt_eqb_refl|]. split; [apply pt_eqb_spec, pt_eqb_refl|].
  intros P a b HP Hs Hd Hab. apply H4; [assumption|].
  unfold obst, obstacles. apply filter_In. split; [assumption|].
  rewrite negb_true_iff, orb_false_iff, <- !not_true_iff_false, !inside_strict_spec. tauto.
Qed.

Theorem C04_model_optimal pts c :
  route_plain shapes s d = Route pts c ->
  polyline_len pts = c /\
  forall q, vis_path (0%nat :: q) -> last (0%nat :: q) 0%nat = 1%nat ->
            (c <= polyline_len (map (vpt V) (0%nat :: q)))%Z.
Proof.
  unfold route_plain. fold obst V n vt lt.
  destruct (dijkstra n (plain_succs n vt lt) 0 1) as [p c0| |] eqn:D; try discriminate.
  intro H. inversion H; subst pts c0. clear H. split.
  - (* the reported cost is the length of the returned polyline *)
    destruct (dijkstra_path_shape _ _ _ _ _ _ D) as (_ & _ & Hc & He).
    clear D. revert c Hc He. induction p as [|a r IH]; intros c Hc He.
    + cbn in Hc. inversion Hc. reflexivity.
    + destruct r as [|b r'].
      * cbn in Hc. inversion Hc. reflexivity.
      * rewrite path_cost_cons in Hc.
        destruct (edge_w (plain_succs n vt lt) a b) as [w|] eqn:Ew; [|discriminate].
        destruct (path_cost (plain_succs n vt lt) (b :: r')) as [c'|] eqn:Ec; [|discriminate].
        inversion Hc; subst c.
        change (polyline_len (map (vpt V) (a :: b :: r')))
          with (lenZ (vpt V a) (vpt V b) + polyline_len (map (vpt V) (b :: r')))%Z.
        apply edge_w_In, plain_succs_In in Ew. destruct Ew as (_ & _ & _ & ->).
        f_equal. apply IH; [reflexivity|].
        intros u v Huv. apply He. cbn [tl combine]. right. exact Huv.
  - intros q Hq Hl. pose proof (vis_path_walk q 0%nat Hq) as W. rewrite Hl in W.
    exact (dijkstra_optimal _ _ _ _ _ _ D _ W).
Qed.

End Plain.

(* ---------------------------------------------------------------- floor-sqrt lengths: triangle inequality *)
Definition K24 : Q := inject_Z (pico * pico).

Lemma sq_nonneg a : 0 <= a * a.
Proof. destruct (Qlt_le_dec a 0); nra. Qed.

Lemma d2_nonneg p q : 0 <= d2 p q.
Proof. unfold d2. pose proof (sq_nonneg (px p - px q)). pose proof (sq_nonneg (py p - py q)). lra. Qed.

Lemma K24_pos : 0 < K24.
Proof. unfold K24, pico. reflexivity. Qed.

Lemma lenZ_bounds p q :
  let a := inject_Z (lenZ p q) in
  0 <= a /\ a * a <= K24 * d2 p q /\ K24 * d2 p q < (a + 1) * (a + 1).
Proof.
  cbn zeta. unfold lenZ. fold K24.
  set (x := d2 p q * K24).
  assert (Hx : 0 <= x) by (unfold x; pose proof (d2_nonneg p q); pose proof K24_pos; nra).
  assert (Hf : (0 <= Qfloor x)%Z).
  { change 0%Z with (Qfloor 0). apply Qfloor_resp_le. exact Hx. }
  pose proof (Z.sqrt_spec (Qfloor x) Hf) as [S1 S2]. cbn zeta in S1, S2.
  pose proof (Z.sqrt_nonneg (Qfloor x)) as S0.
  set (r := Z.sqrt (Qfloor x)) in *.
  pose proof (Qfloor_le x) as F1. pose proof (Qlt_floor x) as F2.
  assert (E : K24 * d2 p q == x) by (unfold x; ring).
  rewrite E. split; [|split].
  - change 0 with (inject_Z 0). rewrite <- Zle_Qle. exact S0.
  - apply Qle_trans with (inject_Z (Qfloor x)); [|exact F1].
    rewrite <- inject_Z_mult, <- Zle_Qle. exact S1.
  - apply Qlt_le_trans with (inject_Z (Qfloor x + 1)); [exact F2|].
    assert (E1 : inject_Z r + 1 == inject_Z (r + 1)) by (rewrite inject_Z_plus; reflexivity).
    rewrite E1, <- inject_Z_mult, <- Zle_Qle. lia.
Qed.

Lemma lt_of_sq_lt x y : 0 <= x -> 0 < y -> x * x < y * y -> x < y.
Proof. intros. destruct (Qlt_le_dec x y); [assumption|]. nra. Qed.

Lemma tri_core (K ux uy vx vy A B G : Q) : 0 < K -> 0 <= A -> 0 <= B -> 0 <= G ->
  K * (ux * ux + uy * uy) < (A + 1) * (A + 1) -> K * (vx * vx + vy * vy) < (B + 1) * (B + 1) ->
  G * G <= K * ((ux + vx) * (ux + vx) + (uy + vy) * (uy + vy)) -> G < A + 1 + (B + 1).
Proof.
  intros HK A0 B0 G0 A2 B2 G1.
  set (X := K * (ux * ux + uy * uy)) in *. set (Y := K * (vx * vx + vy * vy)) in *.
  set (W := K * (ux * vx + uy * vy)).
  assert (HX : 0 <= X).
  { unfold X. pose proof (sq_nonneg ux). pose proof (sq_nonneg uy). apply Qmult_le_0_compat; lra. }
  assert (HY : 0 <= Y).
  { unfold Y. pose proof (sq_nonneg vx). pose proof (sq_nonneg vy). apply Qmult_le_0_compat; lra. }
  assert (HG : K * ((ux + vx) * (ux + vx) + (uy + vy) * (uy + vy)) == X + Y + 2 * W) by (unfold X, Y, W; ring).
  rewrite HG in G1.
  assert (CS : W * W <= X * Y).
  { unfold W, X, Y.
    assert (E : K * (ux * ux + uy * uy) * (K * (vx * vx + vy * vy)) - K * (ux * vx + uy * vy) * (K * (ux * vx + uy * vy))
                == (K * (ux * vy - uy * vx)) * (K * (ux * vy - uy * vx))) by ring.
    pose proof (sq_nonneg (K * (ux * vy - uy * vx))). lra. }
  set (a := A + 1) in *. set (b := B + 1) in *.
  assert (Ha : 0 < a) by (unfold a; lra). assert (Hb : 0 < b) by (unfold b; lra).
  assert (Hab : 0 < a * b) by (apply Qmult_lt_0_compat; assumption).
  assert (HXY : X * Y < (a * b) * (a * b)).
  { assert (H1 : X * Y <= X * (b * b)).
    { assert (E : X * (b * b) - X * Y == X * (b * b - Y)) by ring.
      assert (0 <= X * (b * b - Y)) by (apply Qmult_le_0_compat; lra). lra. }
    assert (H2 : X * (b * b) < a * a * (b * b)).
    { assert (E : a * a * (b * b) - X * (b * b) == (a * a - X) * (b * b)) by ring.
      assert (0 < (a * a - X) * (b * b)).
      { apply Qmult_lt_0_compat; [lra|]. apply Qmult_lt_0_compat; assumption. }
      lra. }
    assert (a * a * (b * b) == (a * b) * (a * b)) by ring. lra. }
  assert (HW : W < a * b).
  { destruct (Qlt_le_dec W (a * b)); [assumption|].
    assert (a * b * (a * b) <= W * W).
    { assert (E : W * W - a * b * (a * b) == (W - a * b) * (W + a * b)) by ring.
      assert (0 <= (W - a * b) * (W + a * b)) by (apply Qmult_le_0_compat; lra). lra. }
    lra. }
  assert (HGlt : G * G < (a + b) * (a + b)).
  { assert ((a + b) * (a + b) == a * a + b * b + 2 * (a * b)) by ring. lra. }
  apply lt_of_sq_lt; lra.
Qed.

(* |pr| <= |pq| + |qr| up to one unit of 1e-12 *)
Theorem lenZ_triangle p q r : (lenZ p r <= lenZ p q + lenZ q r + 1)%Z.
Proof.
  destruct (lenZ_bounds p q) as (A0 & A1 & A2).
  destruct (lenZ_bounds q r) as (B0 & B1 & B2).
  destruct (lenZ_bounds p r) as (G0 & G1 & G2).
  pose proof K24_pos as HK.
  unfold d2 in *.
  assert (Ex : px p - px r == (px p - px q) + (px q - px r)) by ring.
  assert (Ey : py p - py r == (py p - py q) + (py q - py r)) by ring.
  rewrite Ex, Ey in G1.
  pose proof (tri_core K24 _ _ _ _ _ _ _ HK A0 B0 G0 A2 B2 G1) as Hlt.
  assert (E : inject_Z (lenZ p q) + 1 + (inject_Z (lenZ q r) + 1) == inject_Z (lenZ p q + lenZ q r + 2)).
  { rewrite !inject_Z_plus. ring. }
  rewrite E, <- Zlt_Qlt in Hlt. lia.
Qed.

(* admissibility of the straight-line estimate: it never exceeds the length of a polyline between the same points by
   more than 1e-12 per extra segment *)
Theorem euclid_heuristic_admissible (r : list pt) (a : pt) :
  (lenZ a (last (a :: r) a) <= polyline_len (a :: r) + Z.of_nat (length r))%Z.
Proof.
  revert a. induction r as [|b r IH]; intro a.
  - cbn. unfold lenZ, d2.
    assert (E : (px a - px a) * (px a - px a) + (py a - py a) * (py a - py a) == 0) by ring.
    rewrite E. reflexivity.
  - change (last (a :: b :: r) a) with (last (b :: r) a).
    rewrite (last_default (b :: r) a b) by discriminate.
    change (polyline_len (a :: b :: r)) with (lenZ a b + polyline_len (b :: r))%Z.
    pose proof (lenZ_triangle a b (last (b :: r) b)) as T. specialize (IH b).
    cbn [length]. lia.
Qed.

(* ---------------------------------------------------------------- the product graph of the taut class *)
Section Taut.
Variables (pen : Z) (shapes : list (list pt)) (s d : pt).
Let obst := obstacles shapes s d.
Let V := verts shapes s d.
Let n := length V.
Let tt := mk_tab n (taut_edge obst V).
Let lt := mk_tab n (fun u v => lenZ (vpt V u) (vpt V v)).
Let succs := taut_succs pen n tt lt V.

Lemma n_pos : (0 < n)%nat.
Proof. unfold n, V, verts. cbn [length]. lia. Qed.

Definition step_cost (p u v : nat) : Z :=
  (lenZ (vpt V u) (vpt V v) + (if (p =? u)%nat then 0 else turn_cost pen (vpt V p) (vpt V u) (vpt V v)))%Z.

(* the admissible steps of libavoid's search: from u (reached from p; p = u at the source) to v *)
Definition taut_step (p u v : nat) : Prop :=
  (u < n)%nat /\ (v < n)%nat /\ v <> u /\ v <> p /\ v <> 0%nat /\ u <> 1%nat /\
  taut_edge obst V u v = true /\ (p = u \/ bend_ok V p u v = true).

Lemma taut_succs_In id id' w :
  In (id', w) (succs id) <->
  (id <> (n * n)%nat /\ (id mod n = 1)%nat /\ id' = (n * n)%nat /\ w = 0%Z) \/
  (id <> (n * n)%nat /\ exists v, id' = (id mod n * n + v)%nat /\ taut_step (id / n) (id mod n) v /\
                                 w = step_cost (id / n) (id mod n) v).
Proof.
  unfold succs, taut_succs.
  destruct (id =? n * n)%nat eqn:Es.
  { apply Nat.eqb_eq in Es. split; [intros []|]. intros [(H & _)|(H & _)]; contradiction. }
  apply Nat.eqb_neq in Es.
  destruct (id mod n =? 1)%nat eqn:E1.
  { apply Nat.eqb_eq in E1. split.
    - intros [H|[]]. inversion H; subst. left. auto.
    - intros [(_ & _ & -> & ->)|(_ & v & _ & T & _)]; [left; reflexivity|].
      destruct T as (_ & _ & _ & _ & _ & Hu & _). contradiction. }
  apply Nat.eqb_neq in E1.
  rewrite in_flat_map. split.
  - intros (v & Hv & Hin). apply in_seq in Hv.
    destruct (taut_step_ok n tt V (id / n) (id mod n) v) eqn:Ok; [|destruct Hin].
    destruct Hin as [Hin|[]]. inversion Hin; subst id' w. clear Hin.
    right. split; [assumption|]. exists v. split; [reflexivity|].
    unfold taut_step_ok in Ok. rewrite !andb_true_iff, !negb_true_iff in Ok.
    destruct Ok as [[[[O1 O2] O3] O4] O5].
    apply Nat.eqb_neq in O1, O2, O3.
    destruct (tab_get_true_lt _ _ _ _ O4) as [Hu Hv'].
    unfold tt in O4. rewrite tab_get_mk_tab in O4 by assumption.
    split.
    + repeat split; try assumption.
      destruct (id / n =? id mod n)%nat eqn:Ep; [left; apply Nat.eqb_eq; assumption | right; assumption].
    + unfold step_cost, lt. rewrite tab_get_mk_tab by assumption. reflexivity.
  - intros [(_ & H & _)|(_ & v & -> & T & ->)]; [contradiction|].
    destruct T as (Hu & Hv & N1 & N2 & N3 & N4 & Ht & Hb).
    exists v. split; [apply in_seq; lia|].
    assert (Ok : taut_step_ok n tt V (id / n) (id mod n) v = true).
    { unfold taut_step_ok. rewrite !andb_true_iff, !negb_true_iff. repeat split.
      - apply Nat.eqb_neq; assumption.
      - apply Nat.eqb_neq; assumption.
      - apply Nat.eqb_neq; assumption.
      - unfold tt. rewrite tab_get_mk_tab by assumption. assumption.
      - destruct Hb as [->|Hb]; [rewrite Nat.eqb_refl; reflexivity|].
        destruct (id / n =? id mod n)%nat; [reflexivity|assumption]. }
    rewrite Ok. left. unfold step_cost, lt. rewrite tab_get_mk_tab by assumption. reflexivity.
Qed.

(* a vertex sequence admissible for libavoid's penalised search, with previous vertex p before its head *)
Fixpoint taut_seq (p : nat) (q : list nat) : Prop :=
  match q with
  | u :: r => match r with
              | v :: _ => taut_step p u v /\ taut_seq u r
              | [] => u = 1%nat /\ (u < n)%nat
              end
  | [] => False
  end.
Fixpoint taut_seq_cost (p : nat) (q : list nat) : Z :=
  match q with
  | u :: r => match r with
              | v :: _ => (step_cost p u v + taut_seq_cost u r)%Z
              | [] => 0%Z
              end
  | [] => 0%Z
  end.

Lemma state_div p u : (u < n)%nat -> ((p * n + u) / n = p)%nat.
Proof. intro H. rewrite Nat.div_add_l by lia. rewrite Nat.div_small by lia. lia. Qed.
Lemma state_mod p u : (u < n)%nat -> ((p * n + u) mod n = u)%nat.
Proof. intro H. rewrite Nat.add_comm, Nat.mod_add by lia. apply Nat.mod_small. assumption. Qed.
Lemma state_lt p u : (p < n)%nat -> (u < n)%nat -> (p * n + u < n * n)%nat.
Proof. intros. nia. Qed.

Lemma taut_seq_walk q : forall p u, (p < n)%nat -> (u < n)%nat -> taut_seq p (u :: q) ->
  walk succs (p * n + u)%nat (n * n)%nat (taut_seq_cost p (u :: q)).
Proof.
  induction q as [|v r IH]; intros p u Hp Hu H.
  - destruct H as [-> _]. cbn [taut_seq_cost].
    replace 0%Z with (0 + 0)%Z by reflexivity.
    econstructor; [|constructor].
    apply taut_succs_In. left. repeat split.
    + pose proof (state_lt p 1 Hp Hu). lia.
    + apply state_mod. assumption.
  - destruct H as [T Hr].
    change (taut_seq_cost p (u :: v :: r)) with (step_cost p u v + taut_seq_cost u (v :: r))%Z.
    pose proof T as (_ & Hv & _).
    econstructor; [|apply IH; [exact Hu|exact Hv|exact Hr]].
    apply taut_succs_In. right. split.
    + pose proof (state_lt p u Hp Hu). lia.
    + exists v. rewrite state_mod, state_div by assumption. auto.
Qed.

(* optimality within the taut class: the reported cost is at most length + penalty * bends of every admissible
   vertex sequence from the source (index 0) to the destination (index 1) *)
Theorem C04_model_optimal_taut pts c :
  route_taut pen shapes s d = Route pts c ->
  forall q, taut_seq 0 (0%nat :: q) -> (c <= taut_seq_cost 0 (0%nat :: q))%Z.
Proof.
  unfold route_taut. fold obst V n tt lt succs.
  destruct (dijkstra (n * n + 1) succs 0 (n * n)) as [p c0| |] eqn:D; try discriminate.
  intro H. inversion H; subst pts c0. clear H.
  intros q Hq. pose proof n_pos as Hn.
  pose proof (taut_seq_walk q 0%nat 0%nat Hn Hn Hq) as W. cbn [Nat.mul Nat.add] in W.
  exact (dijkstra_optimal _ _ _ _ _ _ D _ W).
Qed.

(* the route returned for the taut class is a chain of visible segments from src to dst *)
Lemma taut_edge_vis u v : taut_edge obst V u v = true -> vis_edge obst V u v = true.
Proof. unfold taut_edge. rewrite !andb_true_iff. tauto. Qed.

Theorem route_taut_is_graph_path pts c :
  route_taut pen shapes s d = Route pts c ->
  forall a b, In (a, b) (consecutive pts) -> forall P, In P obst -> segment_avoids P a b.
Proof.
  unfold route_taut. fold obst V n tt lt succs.
  destruct (dijkstra (n * n + 1) succs 0 (n * n)) as [p c0| |] eqn:D; try discriminate.
  intro H. inversion H; subst pts c0. clear H.
  destruct (dijkstra_path_shape _ _ _ _ _ _ D) as (_ & _ & _ & He).
  intros a b Hab P HP. rewrite consecutive_map in Hab. apply in_map_iff in Hab.
  destruct Hab as ([i j] & E & Hij). cbn [fst snd] in E. inversion E; subst a b. clear E.
  (* (i, j) are consecutive in removelast p, hence consecutive in p, and j is not the last element (the sink) *)
  assert (Hin : In (i, j) (combine p (tl p)) /\ exists k, In (j, k) (combine p (tl p))).
  { clear - Hij. unfold consecutive in Hij. induction p as [|x r IH]; [destruct Hij|].
    destruct r as [|y r']; [destruct Hij|].
    destruct r' as [|z r'']; [destruct Hij|].
    change (removelast (x :: y :: z :: r'')) with (x :: removelast (y :: z :: r'')) in Hij.
    change (removelast (y :: z :: r'')) with (y :: removelast (z :: r'')) in Hij.
    cbn [tl combine] in Hij. destruct Hij as [Ex|Hij].
    - inversion Ex; subst. split; [left; reflexivity|]. exists z. right. left. reflexivity.
    - change (y :: removelast (z :: r'')) with (removelast (y :: z :: r'')) in Hij.
      destruct (IH Hij) as [I1 (k & I2)]. split; [right; exact I1|]. exists k. right. exact I2. }
  destruct Hin as [H1 (k & H2)].
  destruct (He i j H1) as (w & Hw). destruct (He j k H2) as (w' & Hw').
  apply taut_succs_In in Hw. apply taut_succs_In in Hw'.
  assert (Hj : j <> (n * n)%nat) by (destruct Hw' as [(N & _)|(N & _)]; exact N).
  destruct Hw as [(_ & _ & Ej & _)|(_ & v & Ej & T & _)]; [contradiction|].
  destruct T as (Hu & Hv & _ & _ & _ & _ & Ht & _).
  subst j. change (segment_avoids P (vpt V (i mod n)) (vpt V ((i mod n * n + v) mod n))).
  rewrite state_mod by assumption.
  eapply visible_sound; [apply taut_edge_vis; exact Ht|exact HP].
Qed.

End Taut.

(* ---------------------------------------------------------------- non-vacuity on the F-b square *)
Example route_plain_sq :
  route_plain [sq10] (mkpt (-5) (-5)) (mkpt 15 15) =
  Route [mkpt (-5) (-5); mkpt 10 0; mkpt 15 15] 31622776601682%Z.
Proof. vm_compute. reflexivity. Qed.
Example route_taut_sq :
  route_taut (10 * pico) [sq10] (mkpt (-5) (-5)) (mkpt 15 15) =
  Route [mkpt (-5) (-5); mkpt 10 0; mkpt 15 15] 41622776601682%Z.
Proof. vm_compute. reflexivity. Qed.
Example lenZ_345 : lenZ (mkpt 0 0) (mkpt 3 4) = (5 * pico)%Z.
Proof. vm_compute. reflexivity. Qed.
