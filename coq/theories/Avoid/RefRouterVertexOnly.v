(* C04: the state (previous vertex, vertex) of the reference router (and of libavoid's ANode) is necessary once the segment
   penalty is positive.  `route_taut_vertex_only` (Avoid/RefRouterVertexOnlyModel.v) searches the same taut class with one
   label per vertex; on the scene below - the demonstration scene of the seeded change C04-4, corpus/c04_pending_lookup.json -
   it returns the 3-bend route of cost 1659.088.. where route_taut returns the 2-bend optimum 1496.940..: corner (450,290) of
   the triangle is reached more cheaply via (400,200), but only the arrival via (500,200) may bend on to the target.
   With penalty 0 both searches return the same route on the same scene (the state carries no information then).
   The check uses the same pair of functions (extracted) to SELECT the scenes of its family "corner reachable both ways round
   its obstacle". *)
From Adapt Require Import Num.Qaux Geom.GeomSpec Avoid.SegPolyModel Avoid.CertDijkstraModel Avoid.RefRouterModel
     Avoid.RefRouterVertexOnlyModel.
Local Open Scope Z_scope.

Definition ipt (x y : Z) : pt := mkpt (inject_Z x) (inject_Z y).

Definition pending_demo_shapes : list (list pt) :=
  [[ipt 500 200; ipt 450 290; ipt 400 200];
   [ipt 270 40; ipt 270 195; ipt 230 195; ipt 230 40];
   [ipt 117 99; ipt 117 174; ipt 90 174; ipt 90 99]].
Definition pending_demo_src : pt := ipt 430 90.
Definition pending_demo_dst : pt := ipt 5 160.

Lemma pending_demo_taut_400 :
  route_taut (400 * pico) pending_demo_shapes pending_demo_src pending_demo_dst =
  Route [ipt 430 90; ipt 500 200; ipt 450 290; ipt 5 160] 1496940392654558.
Proof. vm_compute. reflexivity. Qed.

Lemma pending_demo_vertex_only_400 :
  route_taut_vertex_only (400 * pico) pending_demo_shapes pending_demo_src pending_demo_dst =
  Route [ipt 430 90; ipt 270 195; ipt 230 195; ipt 90 174; ipt 5 160] 1659088057220269.
Proof. vm_compute. reflexivity. Qed.

(* penalty 0: the two searches agree on this scene (non-vacuity of "the state matters only with a penalty") *)
Lemma pending_demo_agree_0 :
  route_taut 0 pending_demo_shapes pending_demo_src pending_demo_dst =
  route_taut_vertex_only 0 pending_demo_shapes pending_demo_src pending_demo_dst.
Proof. vm_compute. reflexivity. Qed.

(* one label per vertex is not enough: a witness scene on which the vertex-only search is strictly dearer than the optimum of
   the taut class *)
Theorem vertex_only_search_refuted :
  exists pen shapes s d p1 c1 p2 c2,
    0 < pen /\ route_taut pen shapes s d = Route p1 c1 /\ route_taut_vertex_only pen shapes s d = Route p2 c2 /\ c1 < c2.
Proof.
  exists (400 * pico), pending_demo_shapes, pending_demo_src, pending_demo_dst.
  do 4 eexists. split; [reflexivity|]. split; [apply pending_demo_taut_400|]. split; [apply pending_demo_vertex_only_400|].
  reflexivity.
Qed.
