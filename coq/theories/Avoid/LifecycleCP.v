(* C15 - proofs about the checkpoint-vertex layer of the lifecycle model (LifecycleModel.v, second part:
   xop / xst / xstep / xrun).  The core invariant `Inv` of Lifecycle.v is reused unchanged for the core
   component; this file adds the ownership invariant of the checkpoint VertInfs and lifts the property
   theorems to the extended alphabet (core ops + XSetCP = ConnRef::setRoutingCheckpoints).
   Main results, all for unbounded op lists over the current code  xrun true true true:
     x_no_use_after_free    : bad (core X) = [] /\ vbad X = []
     x_checkpoints_owned    : every entry of a connector's checkpoint-vertex list is an allocated vertex of
                              an allocated connector, and no vertex is in two lists / twice in one list
     x_no_orphan_vertex     : every allocated checkpoint vertex is in the list of some connector
     x_heap_nodup_fresh     : vertex heap has no duplicates, is disjoint from the free history, ids are fresh
     x_destroy_releases_all : alive = false -> heap (core X) = [] /\ vheap X = []
   plus the vm_compute refutation for the variant that keeps the freed vertices in the list (fc = false). *)
From Coq Require Import List Arith Bool Lia.
Import ListNotations.
From Adapt Require Import Avoid.LifecycleModel Avoid.Lifecycle.

Set Implicit Arguments.

Ltac xproj := cbn [core vheap cpv vfreed vbad vnext poly].

(* ------------------------------------------------------------------------------------------ *)
(* list helpers                                                                               *)
(* ------------------------------------------------------------------------------------------ *)
Lemma NoDup_app_intro (A : Type) (l1 l2 : list A) :
  NoDup l1 -> NoDup l2 -> (forall x, In x l1 -> ~ In x l2) -> NoDup (l1 ++ l2).
Proof.
  induction l1 as [|a r IH]; cbn [app]; intros N1 N2 D; auto.
  apply NoDup_cons_iff in N1. destruct N1 as [Na Nr]. constructor.
  - rewrite in_app_iff. intros [H|H]; [auto|]. apply (D a); [left; auto|auto].
  - apply IH; auto. intros x Hx. apply D. right; auto.
Qed.

Lemma filter_all_id (A : Type) (f : A -> bool) l : (forall x, In x l -> f x = true) -> filter f l = l.
Proof.
  induction l as [|a r IH]; cbn [filter]; intros H; auto.
  rewrite (H a) by (left; auto). rewrite IH; auto. intros x Hx. apply H. right; auto.
Qed.

Lemma map_snd_pair (c : nat) (l : list nat) : map snd (map (pair c) l) = l.
Proof. induction l as [|a r IH]; cbn [map snd]; [reflexivity|rewrite IH; reflexivity]. Qed.

Lemma cp_of_In c l v : In v (cp_of c l) <-> In (c, v) l.
Proof.
  unfold cp_of. rewrite in_map_iff. split.
  - intros [[c' v'] [E H]]. cbn [snd] in E. subst v'. apply filter_In in H. destruct H as [H O].
    unfold owned_by in O. cbn [fst] in O. apply Nat.eqb_eq in O. subst c'. exact H.
  - intros H. exists (c, v). split; auto. apply filter_In. split; auto.
    unfold owned_by. cbn [fst]. apply Nat.eqb_refl.
Qed.

Lemma cp_of_app c l1 l2 : cp_of c (l1 ++ l2) = cp_of c l1 ++ cp_of c l2.
Proof. unfold cp_of. rewrite filter_app, map_app. reflexivity. Qed.

Lemma cp_of_others c l : cp_of c (filter (fun cv => negb (owned_by c cv)) l) = [].
Proof.
  unfold cp_of. induction l as [|a r IH]; cbn [filter]; auto.
  destruct (owned_by c a) eqn:E; cbn [negb]; auto. cbn [filter]. rewrite E. exact IH.
Qed.

Lemma cp_of_own c l : cp_of c (map (pair c) l) = l.
Proof.
  unfold cp_of. induction l as [|a r IH]; cbn [map filter]; auto.
  unfold owned_by at 1. cbn [fst]. rewrite Nat.eqb_refl. cbn [map snd]. rewrite IH. reflexivity.
Qed.

(* ------------------------------------------------------------------------------------------ *)
(* vfree_all / vderef_all                                                                     *)
(* ------------------------------------------------------------------------------------------ *)
Lemma vfa_core l : forall x, core (vfree_all l x) = core x.
Proof. unfold vfree_all. apply fold_pres. reflexivity. Qed.
Lemma vfa_cpv l : forall x, cpv (vfree_all l x) = cpv x.
Proof. unfold vfree_all. apply fold_pres. reflexivity. Qed.
Lemma vfa_vnext l : forall x, vnext (vfree_all l x) = vnext x.
Proof. unfold vfree_all. apply fold_pres. reflexivity. Qed.
Lemma vfa_poly l : forall x, poly (vfree_all l x) = poly x.
Proof. unfold vfree_all. apply fold_pres. reflexivity. Qed.

Lemma vfa_vheap l : forall x, vheap (vfree_all l x) = rm_all l (vheap x).
Proof.
  unfold vfree_all, rm_all. induction l as [|v r IH]; cbn [fold_left]; intros x; auto.
  rewrite IH. reflexivity.
Qed.

Lemma vfa_vfreed l : forall x v, In v (vfreed (vfree_all l x)) <-> In v l \/ In v (vfreed x).
Proof.
  unfold vfree_all. induction l as [|a r IH]; cbn [fold_left]; intros x v.
  - cbn. tauto.
  - rewrite IH. unfold vfree at 1. xproj. cbn [In]. intuition.
Qed.

Lemma vfa_vbad l : forall x, NoDup l -> incl l (vheap x) -> vbad x = [] -> vbad (vfree_all l x) = [].
Proof.
  unfold vfree_all. induction l as [|a r IH]; cbn [fold_left]; intros x ND Hi Hb; auto.
  apply NoDup_cons_iff in ND. destruct ND as [N1 N2].
  apply IH; auto.
  - unfold vfree; xproj. intros v Hv. apply remove_nat_In. split; [apply Hi; right; auto|].
    intros ->; auto.
  - unfold vfree; xproj. assert (In a (vheap x)) as Ha by (apply Hi; left; auto).
    apply mem_In in Ha. rewrite Ha. exact Hb.
Qed.

Lemma vderef_in v x : In v (vheap x) -> vderef v x = x.
Proof. intros H. unfold vderef. apply mem_In in H. rewrite H. reflexivity. Qed.

Lemma vda_id l : forall x, incl l (vheap x) -> vderef_all l x = x.
Proof.
  unfold vderef_all. induction l as [|a r IH]; cbn [fold_left]; intros x Hi; auto.
  rewrite vderef_in by (apply Hi; left; auto). apply IH. intros v Hv. apply Hi. right; auto.
Qed.

Lemma vderef_core v x : core (vderef v x) = core x.
Proof. unfold vderef. destruct (mem v (vheap x)); reflexivity. Qed.
Lemma vda_core l : forall x, core (vderef_all l x) = core x.
Proof. unfold vderef_all. apply fold_pres. intros; apply vderef_core. Qed.

(* ------------------------------------------------------------------------------------------ *)
(* the ownership invariant of checkpoint vertices                                             *)
(* ------------------------------------------------------------------------------------------ *)
Record VW (x : xst) : Prop := {
  v_nd : NoDup (vheap x);
  v_own_nd : NoDup (map snd (cpv x));                          (* one owner, one list position *)
  v_own : forall c v, In (c, v) (cpv x) -> In v (vheap x);     (* list entries are allocated *)
  v_cover : forall v, In v (vheap x) -> In v (map snd (cpv x));(* every allocated vertex is in a list *)
  v_fr : forall v, In v (vheap x) -> ~ In v (vfreed x);
  v_next : forall v, In v (vheap x) \/ In v (vfreed x) -> v < vnext x;
  v_bad : vbad x = [] }.

Definition owners_live (x : xst) : Prop := forall c v, In (c, v) (cpv x) -> In c (heap (core x)).
Definition VInv (x : xst) : Prop := VW x /\ owners_live x.
Definition XInv (x : xst) : Prop := Inv (core x) /\ VInv x.

Lemma set_core_VW x s : VW x -> VW (set_core x s).
Proof. intros V. unfold set_core. constructor; xproj; apply V. Qed.

Lemma entry_unique x c c' v : VW x -> In (c, v) (cpv x) -> In (c', v) (cpv x) -> c = c'.
Proof.
  intros V H1 H2.
  assert (E : (c, v) = (c', v)) by (apply (nodup_map_inj snd (cpv x)); auto; apply V).
  congruence.
Qed.

(* ---- ~ConnRef of the connectors that were just freed ---- *)
Lemma reap_core x : core (reap x) = core x.
Proof. unfold reap, set_cpv. xproj. apply vfa_core. Qed.

Lemma reap_VInv x : VW x -> VInv (reap x).
Proof.
  intros V. unfold reap.
  set (dead := filter (fun cv => negb (owner_live x cv)) (cpv x)).
  set (dl := map snd dead).
  assert (NDd : NoDup dl) by (apply NoDup_map_filter, V).
  assert (Hdl : forall v, In v dl <-> exists c, In (c, v) (cpv x) /\ owner_live x (c, v) = false).
  { intros v. unfold dl, dead. rewrite in_map_iff. split.
    - intros [[c v'] [E H]]. cbn [snd] in E. subst v'. apply filter_In in H. destruct H as [H O].
      apply negb_true_iff in O. eauto.
    - intros [c [H O]]. exists (c, v). split; auto. apply filter_In. split; auto.
      apply negb_true_iff; auto. }
  assert (Hi : incl dl (vheap x)).
  { intros v Hv. apply Hdl in Hv. destruct Hv as [c [H _]]. apply (v_own V c v H). }
  unfold set_cpv. split.
  - constructor; xproj.
    + rewrite vfa_vheap. apply rm_all_NoDup, V.
    + apply NoDup_map_filter, V.
    + intros c v H. apply filter_In in H. destruct H as [H O].
      rewrite vfa_vheap. apply rm_all_In. split; [apply (v_own V c v H)|].
      intros Hd. apply Hdl in Hd. destruct Hd as [c' [H' O']].
      assert (c = c') by (apply (@entry_unique x c c' v V H H')). subst c'.
      unfold owner_live in *. cbn [fst] in *. congruence.
    + intros v Hv. rewrite vfa_vheap in Hv. apply rm_all_In in Hv. destruct Hv as [Hv Nd].
      apply (v_cover V) in Hv. apply in_map_iff in Hv. destruct Hv as [[c v'] [E H]].
      cbn [snd] in E. subst v'. apply in_map_iff. exists (c, v). split; auto.
      apply filter_In. split; auto.
      destruct (owner_live x (c, v)) eqn:O; auto. exfalso. apply Nd, Hdl. eauto.
    + intros v Hv. rewrite vfa_vheap in Hv. apply rm_all_In in Hv. destruct Hv as [Hv Nd].
      rewrite vfa_vfreed. intros [F|F]; auto. apply (v_fr V v); auto.
    + intros v Hv. rewrite vfa_vnext. apply (v_next V).
      destruct Hv as [Hv|Hv].
      * rewrite vfa_vheap in Hv. apply rm_all_In in Hv. tauto.
      * apply vfa_vfreed in Hv. destruct Hv; auto.
    + apply vfa_vbad; auto. apply V.
  - intros c v H. xproj. apply filter_In in H. destruct H as [_ O].
    rewrite vfa_core. unfold owner_live in O. cbn [fst] in O. apply mem_In. exact O.
Qed.

(* ---- rerouting only touches list entries ---- *)
Lemma reroute_id x : VW x -> reroute x = x.
Proof.
  intros V. unfold reroute. apply vda_id. intros v Hv. apply in_map_iff in Hv.
  destruct Hv as [[c v'] [E H]]. cbn [snd] in E. subst v'. apply filter_In in H.
  apply (v_own V c v). tauto.
Qed.

(* ---- setRoutingCheckpoints, current code ---- *)
Lemma set_cp_eq x c k : VW x ->
  set_cp true x c k =
  let x1 := vfree_all (cp_of c (cpv x)) x in
  mkx (core x) (seq (vnext x) k ++ rm_all (cp_of c (cpv x)) (vheap x))
      (filter (fun cv => negb (owned_by c cv)) (cpv x) ++ map (pair c) (seq (vnext x) k))
      (vfreed x1) (vbad x1) (vnext x + k) (poly x).
Proof.
  intros V. unfold set_cp. cbv zeta. rewrite vfa_cpv, vfa_vnext, vfa_core, vfa_poly, vfa_vheap. xproj.
  destruct (poly x); auto.
  rewrite cp_of_app, cp_of_others, cp_of_own. cbn [app].
  rewrite firstn_all2 by (rewrite seq_length; auto).
  apply vda_id. xproj. intros v Hv. apply in_app_iff. left; auto.
Qed.

Lemma set_cp_core fc x c k : core (set_cp fc x c k) = core x.
Proof.
  unfold set_cp. cbv zeta. xproj.
  destruct (poly (vfree_all (cp_of c (cpv x)) x)); [rewrite vda_core|]; xproj; apply vfa_core.
Qed.

Lemma set_cp_VInv x c k : VInv x -> In c (heap (core x)) -> VInv (set_cp true x c k).
Proof.
  intros [V L] Hc. rewrite set_cp_eq by auto. cbv zeta.
  set (old := cp_of c (cpv x)). set (n := vnext x).
  assert (NDo : NoDup old) by (apply NoDup_map_filter, V).
  assert (Ho : forall v, In v old <-> In (c, v) (cpv x)) by (intros; apply cp_of_In).
  assert (Hio : incl old (vheap x)) by (intros v Hv; apply Ho in Hv; apply (v_own V c v Hv)).
  assert (Hlt : forall v, In v (vheap x) -> v < n) by (intros; apply (v_next V); auto).
  assert (Hkept : forall c' v, In (c', v) (filter (fun cv => negb (owned_by c cv)) (cpv x)) <->
                               In (c', v) (cpv x) /\ c <> c').
  { intros c' v. rewrite filter_In. unfold owned_by. cbn [fst]. rewrite negb_true_iff, Nat.eqb_neq. tauto. }
  split.
  - constructor; xproj.
    + apply NoDup_app_intro; [apply seq_NoDup|apply rm_all_NoDup, V|].
      intros v Hv Hr. apply in_seq in Hv. apply rm_all_In in Hr. destruct Hr as [Hr _].
      apply Hlt in Hr. lia.
    + rewrite map_app, map_snd_pair. apply NoDup_app_intro; [apply NoDup_map_filter, V|apply seq_NoDup|].
      intros v Hv Hs. apply in_seq in Hs. apply in_map_iff in Hv. destruct Hv as [[c' v'] [E H]].
      cbn [snd] in E. subst v'. apply Hkept in H. destruct H as [H _]. apply (v_own V) in H.
      apply Hlt in H. lia.
    + intros c' v H. apply in_app_iff in H. apply in_app_iff. destruct H as [H|H].
      * right. apply Hkept in H. destruct H as [H Ne]. apply rm_all_In. split; [apply (v_own V c' v H)|].
        intros Hd. apply Ho in Hd. apply Ne. apply (@entry_unique x c c' v V Hd H).
      * left. apply in_map_iff in H. destruct H as [v' [E H]]. inversion E; subst; auto.
    + intros v Hv. rewrite map_app, map_snd_pair. apply in_app_iff. apply in_app_iff in Hv.
      destruct Hv as [Hv|Hv]; [right; auto|left].
      apply rm_all_In in Hv. destruct Hv as [Hv Nd]. apply (v_cover V) in Hv.
      apply in_map_iff in Hv. destruct Hv as [[c' v'] [E H]]. cbn [snd] in E. subst v'.
      apply in_map_iff. exists (c', v). split; auto. apply Hkept. split; auto.
      intros ->. apply Nd, Ho; auto.
    + intros v Hv. rewrite vfa_vfreed. apply in_app_iff in Hv. destruct Hv as [Hv|Hv].
      * apply in_seq in Hv. intros [F|F].
        -- apply Hio, Hlt in F. lia.
        -- assert (v < n) by (apply (v_next V); auto). lia.
      * apply rm_all_In in Hv. destruct Hv as [Hv Nd]. intros [F|F]; auto. apply (v_fr V v); auto.
    + intros v Hv. assert (v < n + k \/ v < n) as [G|G]; [|lia|lia].
      destruct Hv as [Hv|Hv].
      * apply in_app_iff in Hv. destruct Hv as [Hv|Hv].
        -- apply in_seq in Hv. left; lia.
        -- apply rm_all_In in Hv. right. apply Hlt; tauto.
      * apply vfa_vfreed in Hv. right. destruct Hv as [Hv|Hv]; [apply Hlt, Hio; auto|].
        apply (v_next V); auto.
    + apply vfa_vbad; auto. apply V.
  - intros c' v H. xproj. apply in_app_iff in H. destruct H as [H|H].
    + apply Hkept in H. apply (L c' v). tauto.
    + apply in_map_iff in H. destruct H as [v' [E _]]. inversion E; subst; auto.
Qed.

(* ------------------------------------------------------------------------------------------ *)
(* every step preserves the invariant                                                         *)
(* ------------------------------------------------------------------------------------------ *)
Lemma xstep_XInv x o : XInv x -> XInv (xstep true true true x o).
Proof.
  intros [I VI]. unfold xstep. destruct (xlegal x o) eqn:L; cbn [negb]; [|split; auto].
  destruct o as [o|c k].
  - cbv zeta.
    assert (R : VInv (reap (set_core x (step true true (core x) o)))).
    { apply reap_VInv, set_core_VW, VI. }
    assert (C : core (reap (set_core x (step true true (core x) o))) = step true true (core x) o).
    { rewrite reap_core. reflexivity. }
    destruct (reroutes (core x) o).
    + rewrite reroute_id by apply R. split; auto. rewrite C. apply step_Inv, I.
    + split; auto. rewrite C. apply step_Inv, I.
  - cbn [xlegal] in L. apply andb_true_iff in L. destruct L as [L _].
    apply andb_true_iff in L. destruct L as [_ L]. apply mem_In in L.
    split; [rewrite set_cp_core; auto|apply set_cp_VInv; auto].
Qed.

Lemma xinit_XInv t p : XInv (xinit t p).
Proof.
  unfold xinit. split; [apply init_Inv|]. split.
  - constructor; xproj;
      solve [constructor | intros ? [] | intros ? ? [] | intros ? [[]|[]] | reflexivity].
  - intros c v [].
Qed.

Lemma xrun_XInv t p ops : XInv (xrun true true true t p ops).
Proof.
  unfold xrun. generalize (xinit_XInv t p). generalize (xinit t p).
  induction ops as [|o r IH]; cbn [fold_left]; intros x I; auto. apply IH, xstep_XInv, I.
Qed.

(* ---- the core component of the layered run is the core run on the core ops ---- *)
Definition core_ops (ops : list xop) : list op :=
  flat_map (fun o => match o with XCore o => [o] | XSetCP _ _ => [] end) ops.

Lemma xstep_core fk fl fc x o :
  core (xstep fk fl fc x o) = match o with XCore o => step fk fl (core x) o | XSetCP _ _ => core x end.
Proof.
  unfold xstep. destruct (xlegal x o) eqn:L; cbn [negb].
  - destruct o as [o|c k]; [|apply set_cp_core]. cbv zeta.
    destruct (reroutes (core x) o); [unfold reroute; rewrite vda_core|]; rewrite reap_core; reflexivity.
  - destruct o as [o|c k]; auto. cbn [xlegal] in L. unfold step. rewrite L. reflexivity.
Qed.

Lemma xrun_core fk fl fc t p ops : core (xrun fk fl fc t p ops) = run fk fl t (core_ops ops).
Proof.
  unfold xrun, run. change (init t) with (core (xinit t p)). generalize (xinit t p).
  induction ops as [|o r IH]; cbn [fold_left core_ops flat_map]; intros x; auto.
  rewrite IH, xstep_core. destruct o; cbn [app fold_left]; reflexivity.
Qed.

(* ------------------------------------------------------------------------------------------ *)
(* the properties, extended alphabet                                                          *)
(* ------------------------------------------------------------------------------------------ *)
Theorem x_no_use_after_free : forall t p ops,
  bad (core (xrun true true true t p ops)) = [] /\ vbad (xrun true true true t p ops) = [].
Proof.
  intros. destruct (xrun_XInv t p ops) as [I [V _]]. split; [apply (w_bad I)|apply (v_bad V)].
Qed.

Theorem x_checkpoints_owned : forall t p ops c v,
  In (c, v) (cpv (xrun true true true t p ops)) ->
  In c (heap (core (xrun true true true t p ops))) /\ In v (vheap (xrun true true true t p ops)).
Proof. intros t p ops c v H. destruct (xrun_XInv t p ops) as [_ [V L]]. split; [apply (L c v H)|apply (v_own V c v H)]. Qed.

Theorem x_checkpoint_lists_disjoint : forall t p ops, NoDup (map snd (cpv (xrun true true true t p ops))).
Proof. intros. destruct (xrun_XInv t p ops) as [_ [V _]]. apply V. Qed.

Theorem x_no_orphan_vertex : forall t p ops v,
  In v (vheap (xrun true true true t p ops)) -> exists c, In (c, v) (cpv (xrun true true true t p ops)).
Proof.
  intros t p ops v H. destruct (xrun_XInv t p ops) as [_ [V _]]. apply (v_cover V) in H.
  apply in_map_iff in H. destruct H as [[c v'] [E H]]. cbn [snd] in E. subst. eauto.
Qed.

Theorem x_heap_nodup_fresh : forall t p ops,
  let X := xrun true true true t p ops in
  (NoDup (heap (core X)) /\ forall o, In o (heap (core X)) -> ~ In o (freed (core X))) /\
  (NoDup (vheap X) /\ (forall v, In v (vheap X) -> ~ In v (vfreed X)) /\
   forall v, In v (vheap X) \/ In v (vfreed X) -> v < vnext X).
Proof.
  intros t p ops X. destruct (xrun_XInv t p ops) as [I [V _]]. fold X in I, V. split.
  - split; [apply (w_heap_nd I)|apply (w_heap_fr I)].
  - split; [apply V|split; [apply (v_fr V)|apply (v_next V)]].
Qed.

Theorem x_destroy_releases_all : forall t p ops,
  alive (core (xrun true true true t p ops)) = false ->
  heap (core (xrun true true true t p ops)) = [] /\ vheap (xrun true true true t p ops) = [].
Proof.
  intros t p ops A.
  assert (H : heap (core (xrun true true true t p ops)) = []).
  { rewrite xrun_core in *. apply destroy_releases_all; auto. }
  split; auto.
  destruct (vheap (xrun true true true t p ops)) as [|v r] eqn:E; auto. exfalso.
  destruct (@x_no_orphan_vertex t p ops v) as [c Hc]; [rewrite E; left; auto|].
  apply x_checkpoints_owned in Hc. rewrite H in Hc. destruct Hc as [[] _].
Qed.

(* the core theorems of Lifecycle.v, read on the core component of the extended run *)
Theorem x_queue_objects_live : forall t p ops a,
  In a (queue (core (xrun true true true t p ops))) -> In (act_obj a) (heap (core (xrun true true true t p ops))).
Proof. intros t p ops a. rewrite xrun_core. apply queue_objects_live. Qed.

Theorem x_queue_ends_live : forall t p ops a o,
  In a (queue (core (xrun true true true t p ops))) -> In o (act_end_ids a) ->
  In o (heap (core (xrun true true true t p ops))).
Proof. intros t p ops a o. rewrite xrun_core. apply queue_ends_live. Qed.

Theorem x_attached_live : forall t p ops c w o,
  In (c, w, o) (attached (core (xrun true true true t p ops))) ->
  In c (heap (core (xrun true true true t p ops))) /\ In o (heap (core (xrun true true true t p ops))).
Proof. intros t p ops c w o. rewrite xrun_core. apply attached_live. Qed.

(* live checkpoint vertices per connector = length of its list (what the correspondence compares) *)
Theorem x_live_cp_is_list_length : forall t p ops c,
  live_cp (xrun true true true t p ops) c = length (cp_of c (cpv (xrun true true true t p ops))).
Proof.
  intros t p ops c. unfold live_cp. f_equal.
  apply filter_all_id. intros v Hv. apply cp_of_In in Hv.
  apply mem_In. apply (x_checkpoints_owned t p ops c v Hv).
Qed.

(* ------------------------------------------------------------------------------------------ *)
(* legality; the variant that keeps the freed vertices in the list; non-vacuity               *)
(* ------------------------------------------------------------------------------------------ *)
Fixpoint xall_legal (fk fl fc : bool) (x : xst) (ops : list xop) : bool :=
  match ops with [] => true | o :: r => xlegal x o && xall_legal fk fl fc (xstep fk fl fc x o) r end.

(* set two checkpoints, replace them by one, move a shape, process: rerouting runs over the two freed
   vertices that are still at the front of the list (orthogonal router, transactions on) *)
Definition cp_uaf_witness : list xop :=
  [XCore (ONewObst 1); XCore (ONewConn 10 (EObst 1) EPoint); XCore OProcess;
   XSetCP 10 2; XSetCP 10 1; XCore (OMove 1); XCore OProcess].
(* set one checkpoint, clear, delete the connector: ~ConnRef frees the vertex a second time *)
Definition cp_double_free_witness : list xop :=
  [XCore (ONewConn 10 EPoint EPoint); XSetCP 10 1; XSetCP 10 0; XCore (ODelConn 10)].

Lemma cp_uaf_without_clear_witness :
  xall_legal true true false (xinit true false) cp_uaf_witness = true /\
  vbad (xrun true true false true false cp_uaf_witness) = [1; 0] /\
  vheap (xrun true true false true false cp_uaf_witness) = [2].
Proof. vm_compute. repeat split. Qed.

Lemma cp_double_free_without_clear_witness :
  xall_legal true true false (xinit true false) cp_double_free_witness = true /\
  vbad (xrun true true false true false cp_double_free_witness) = [0] /\
  vfreed (xrun true true false true false cp_double_free_witness) = [0; 0].
Proof. vm_compute. repeat split. Qed.

Theorem checkpoint_uaf_refuted_without_clear :
  exists t p ops, xall_legal true true false (xinit t p) ops = true /\ vbad (xrun true true false t p ops) <> [].
Proof.
  exists true, false, cp_uaf_witness. destruct cp_uaf_without_clear_witness as (H1 & H2 & _). split; auto.
  rewrite H2. discriminate.
Qed.

(* polyline router: vertexVisibility already runs on the freed entry inside the second call *)
Example cp_uaf_without_clear_polyline :
  vbad (xrun true true false true true (firstn 5 cp_uaf_witness)) = [0].
Proof. vm_compute. reflexivity. Qed.

(* the current code on the same histories *)
Example cp_witnesses_current_code :
  xall_legal true true true (xinit true false) cp_uaf_witness = true /\
  (let X := xrun true true true true false (firstn 4 cp_uaf_witness) in
   vheap X = [0; 1] /\ cpv X = [(10, 0); (10, 1)] /\ live_cp X 10 = 2) /\
  (let X := xrun true true true true false cp_uaf_witness in
   vbad X = [] /\ vheap X = [2] /\ cpv X = [(10, 2)] /\ vfreed X = [1; 0] /\ live_cp X 10 = 1) /\
  (let X := xrun true true true true false (cp_uaf_witness ++ [XCore ODestroy]) in
   alive (core X) = false /\ vbad X = [] /\ vheap X = [] /\ heap (core X) = []) /\
  (let X := xrun true true true true false cp_double_free_witness in
   vbad X = [] /\ vheap X = [] /\ vfreed X = [0] /\ heap (core X) = []).
Proof. vm_compute. repeat split. Qed.

(* two connectors with checkpoints, one replaced with more, one deleted, router destroyed with the
   other's checkpoints still set; immediate mode and polyline *)
Definition cp_demo : list xop :=
  [XCore (ONewObst 1); XCore (ONewObst 2); XCore (ONewConn 10 (EObst 1) (EObst 2));
   XCore (ONewConn 11 (EObst 2) EPoint); XSetCP 10 1; XSetCP 11 2; XCore (OMove 1);
   XSetCP 10 3; XCore (ODelConn 11); XCore (ODelObst 2); XCore ODestroy].
Example cp_demo_immediate_polyline :
  xall_legal true true true (xinit false true) cp_demo = true /\
  (let X := xrun true true true false true (firstn 8 cp_demo) in
   cpv X = [(11, 1); (11, 2); (10, 3); (10, 4); (10, 5)] /\ vfreed X = [0] /\ vbad X = []) /\
  (let X := xrun true true true false true (firstn 9 cp_demo) in
   cpv X = [(10, 3); (10, 4); (10, 5)] /\ vheap X = [3; 4; 5] /\ vbad X = []) /\
  (let X := xrun true true true false true cp_demo in
   alive (core X) = false /\ vheap X = [] /\ heap (core X) = [] /\ vbad X = [] /\ bad (core X) = []) /\
  vbad (xrun true true false false true cp_demo) <> [].
Proof. vm_compute. repeat split; discriminate. Qed.
