(* C11 - executable model of libavoid connection pins (DESIGN 5.11).  No proofs in this file.
   Mirrors:
     ShapeConnectionPin::position   connectionpin.cpp:245-328   -> pin_position
     ShapeConnectionPin::directions connectionpin.cpp:331-361   -> pin_directions  (also translated by cpp2v: Gen/ConnPin.v)
     PolygonInterface::offsetBoundingBox(0.0) geomtypes.cpp:210 -> poly_bbox
     ConnEnd::usePin / freeActivePin connend.cpp:182-233, ShapeConnectionPin::m_connend_users,
     ~ShapeConnectionPin, Obstacle::makeInactive / setNewPoly   -> the op state machine `step`
     ConnRef::updateEndPoint connector.cpp (disconnect + freeActivePin of the old ConnEnd, new ConnEnd(shape, class) /
     ConnEnd(junction) / ConnEnd(point)) as applied by Router::processActions for a queued user change -> op Retarget
     ConnEnd::assignPinVisibilityTo connend.cpp:274-370 (the filter of line 288-289) -> candidate / candidates
   and the route-level checkers run on the real routes (V). *)
From Adapt Require Import Num.Qaux.
Local Open Scope Q_scope.

(* ---------------------------------------------------------------- named constants (connectionpin.h:57-64, connend.h:63-79) *)
Definition POS_TOP : Q := 0.
Definition POS_CENTRE : Q := 1 # 2.
Definition POS_BOTTOM : Q := 1.
Definition POS_LEFT : Q := POS_TOP.
Definition POS_RIGHT : Q := POS_BOTTOM.
Definition POS_MIN_OFFSET : Q := 0.
Definition POS_MAX_OFFSET : Q := inject_Z (-1).
Definition DirNone : Z := 0.
Definition DirUp : Z := 1.
Definition DirDown : Z := 2.
Definition DirLeft : Z := 4.
Definition DirRight : Z := 8.
Definition DirAll : Z := 15.

(* ---------------------------------------------------------------- boxes *)
Record box := mkbox { bminx : Q; bminy : Q; bmaxx : Q; bmaxy : Q }.
Definition bwidth (b : box) : Q := bmaxx b - bminx b.
Definition bheight (b : box) : Q := bmaxy b - bminy b.
Definition box_add (b : box) (t : pt) : box :=
  mkbox (bminx b + px t) (bminy b + py t) (bmaxx b + px t) (bmaxy b + py t).

Fixpoint bbox_from (b : box) (ps : list pt) : box :=
  match ps with
  | [] => b
  | p :: r => bbox_from (mkbox (Qmin' (bminx b) (px p)) (Qmin' (bminy b) (py p))
                               (Qmax' (bmaxx b) (px p)) (Qmax' (bmaxy b) (py p))) r
  end.
(* offsetBoundingBox(0.0) of a non-empty polygon (the C++ starts from +-DBL_MAX; identical when there is a point) *)
Definition poly_bbox (ps : list pt) : box :=
  match ps with
  | [] => mkbox 0 0 0 0
  | p :: r => bbox_from (mkbox (px p) (py p) (px p) (py p)) r
  end.
Definition poly_add (ps : list pt) (t : pt) : list pt := map (fun p => pt_add p t) ps.

(* ---------------------------------------------------------------- pin records *)
Record pinrec := mkpin {
  p_shape : nat;      (* index of the owning shape *)
  p_class : Z;        (* m_class_id *)
  p_xoff : Q;         (* m_x_offset *)
  p_yoff : Q;         (* m_y_offset *)
  p_inside : Q;       (* m_inside_offset *)
  p_dirs : Z;         (* m_visibility_directions *)
  p_prop : bool;      (* m_using_proportional_offsets *)
  p_excl : bool       (* m_exclusive *)
}.
Definition pin0 : pinrec := mkpin 0 0 0 0 0 0 true true.

(* ---------------------------------------------------------------- ShapeConnectionPin::position *)
Definition pin_x (b : box) (xoff inside : Q) (prop : bool) : Q :=
  if prop then
    if Qeqb xoff POS_LEFT then bminx b + inside
    else if Qeqb xoff POS_RIGHT then bmaxx b - inside
    else bminx b + xoff * bwidth b
  else
    if Qeqb xoff POS_MIN_OFFSET then bminx b + inside
    else if Qeqb xoff POS_MAX_OFFSET || Qeqb xoff (bwidth b) then bmaxx b - inside
    else bminx b + xoff.
Definition pin_y (b : box) (yoff inside : Q) (prop : bool) : Q :=
  if prop then
    if Qeqb yoff POS_TOP then bminy b + inside
    else if Qeqb yoff POS_BOTTOM then bmaxy b - inside
    else bminy b + yoff * bheight b
  else
    if Qeqb yoff POS_MIN_OFFSET then bminy b + inside
    else if Qeqb yoff POS_MAX_OFFSET || Qeqb yoff (bheight b) then bmaxy b - inside
    else bminy b + yoff.
Definition pin_position (b : box) (xoff yoff inside : Q) (prop : bool) : pt :=
  mkpt (pin_x b xoff inside prop) (pin_y b yoff inside prop).
Definition pin_pos_poly (poly : list pt) (p : pinrec) : pt :=
  pin_position (poly_bbox poly) (p_xoff p) (p_yoff p) (p_inside p) (p_prop p).

(* ShapeConnectionPin::directions (hand copy; Pins.v proves it equal to the cpp2v translation) *)
Definition pin_directions (p : pinrec) : Z :=
  if Z.eqb (p_dirs p) DirNone then
    let d1 := if Qeqb (p_xoff p) POS_LEFT then Z.lor (p_dirs p) DirLeft
              else if Qeqb (p_xoff p) POS_RIGHT then Z.lor (p_dirs p) DirRight else p_dirs p in
    let d2 := if Qeqb (p_yoff p) POS_TOP then Z.lor d1 DirUp
              else if Qeqb (p_yoff p) POS_BOTTOM then Z.lor d1 DirDown else d1 in
    if Z.eqb d2 DirNone then DirAll else d2
  else p_dirs p.
(* the constructor's default: a pin whose directions() is ConnDirAll starts non-exclusive (connectionpin.cpp:123-128) *)
Definition default_exclusive (p : pinrec) : bool := negb (Z.eqb (pin_directions p) DirAll).

(* ---------------------------------------------------------------- bookkeeping state machine *)
Record endrec := mkend { e_shape : nat; e_class : Z }.
Definition end0 : endrec := mkend 0 0.

Record state := mkstate {
  st_pins : list pinrec;              (* static pin table; index = pin id *)
  st_ends : list endrec;              (* table of connector ends; index = end id; an entry changes only by Retarget *)
  st_shape : nat -> option (list pt); (* polygon of each live shape *)
  users : nat -> list nat;            (* pin -> ends : ShapeConnectionPin::m_connend_users *)
  active : nat -> option nat          (* end -> pin  : ConnEnd::m_active_pin *)
}.

Inductive op :=
| Assign (e p : nat)                 (* ConnEnd::usePin, reached from generatePath through a candidate edge *)
| Free (e : nat)                     (* ConnEnd::freeActivePin *)
| MoveShape (s : nat) (dx dy : Q)    (* Router::moveShape(shape, dx, dy) *)
| Resize (s : nat) (poly : list pt)  (* Router::moveShape(shape, newPoly) *)
| DeleteShape (s : nat)              (* Router::deleteShape: ends become free points, pins are destroyed *)
| Retarget (e : nat) (s : nat) (c : Z).
                                     (* ConnRef::setSourceEndpoint / setDestEndpoint / setEndpoints with ConnEnd(shape s, class c)
                                        as applied by the transaction: the old ConnEnd frees its active pin and is replaced.
                                        A re-attachment to a free point or a junction is Retarget to a shape index that has no
                                        polygon (no pin is ever a candidate for it). *)

Definition init (pins : list pinrec) (ends : list endrec) (shapes : nat -> option (list pt)) : state :=
  mkstate pins ends shapes (fun _ => []) (fun _ => None).

Definition pin_of (st : state) (p : nat) : pinrec := nth p (st_pins st) pin0.
Definition end_of (st : state) (e : nat) : endrec := nth e (st_ends st) end0.
Definition shape_alive (st : state) (s : nat) : bool :=
  match st_shape st s with Some _ => true | None => false end.
Definition is_nil {A} (l : list A) : bool := match l with [] => true | _ => false end.

(* the filter of ConnEnd::assignPinVisibilityTo / Obstacle::possiblePinPoints *)
Definition candidate (st : state) (e p : nat) : bool :=
  Nat.ltb p (length (st_pins st)) && Nat.ltb e (length (st_ends st)) &&
  Nat.eqb (p_shape (pin_of st p)) (e_shape (end_of st e)) &&
  shape_alive st (p_shape (pin_of st p)) &&
  Z.eqb (p_class (pin_of st p)) (e_class (end_of st e)) &&
  (negb (p_excl (pin_of st p)) || is_nil (users st p)).
Definition candidates (st : state) (e : nat) : list nat :=
  filter (candidate st e) (seq 0 (length (st_pins st))).

Fixpoint set_nth {A : Type} (n : nat) (x : A) (l : list A) : list A :=
  match l, n with
  | [], _ => []
  | _ :: r, O => x :: r
  | a :: r, S k => a :: set_nth k x r
  end.
(* ConnEnd::freeActivePin *)
Definition free_end (st : state) (e : nat) : state :=
  match active st e with
  | None => st
  | Some p =>
      mkstate (st_pins st) (st_ends st) (st_shape st)
              (fun q => if Nat.eqb q p then filter (fun y => negb (Nat.eqb e y)) (users st q) else users st q)
              (fun f => if Nat.eqb f e then None else active st f)
  end.
Definition set_end (st : state) (e : nat) (r : endrec) : state :=
  mkstate (st_pins st) (set_nth e r (st_ends st)) (st_shape st) (users st) (active st).

Definition opt_nat_eqb (a : option nat) (b : nat) : bool :=
  match a with Some x => Nat.eqb x b | None => false end.

(* does the guard of the op hold (the code's COLA_ASSERTs / filters)? *)
Definition step_ok (st : state) (o : op) : bool :=
  match o with
  | Assign e p => match active st e with None => candidate st e p | Some _ => false end
  | Free _ => true
  | MoveShape s _ _ => shape_alive st s
  | Resize s poly => shape_alive st s && negb (is_nil poly)
  | DeleteShape s => shape_alive st s
  | Retarget e _ _ => Nat.ltb e (length (st_ends st))
  end.

Definition remove_nat (x : nat) (l : list nat) : list nat := filter (fun y => negb (Nat.eqb x y)) l.

Definition step (st : state) (o : op) : state :=
  if negb (step_ok st o) then st else
  match o with
  | Assign e p =>
      mkstate (st_pins st) (st_ends st) (st_shape st)
              (fun q => if Nat.eqb q p then e :: users st q else users st q)
              (fun f => if Nat.eqb f e then Some p else active st f)
  | Free e =>
      match active st e with
      | None => st
      | Some p =>
          mkstate (st_pins st) (st_ends st) (st_shape st)
                  (fun q => if Nat.eqb q p then remove_nat e (users st q) else users st q)
                  (fun f => if Nat.eqb f e then None else active st f)
      end
  | MoveShape s dx dy =>
      mkstate (st_pins st) (st_ends st)
              (fun t => if Nat.eqb t s then option_map (fun poly => poly_add poly (mkpt dx dy)) (st_shape st t)
                        else st_shape st t)
              (users st) (active st)
  | Resize s poly =>
      mkstate (st_pins st) (st_ends st)
              (fun t => if Nat.eqb t s then Some poly else st_shape st t)
              (users st) (active st)
  | DeleteShape s =>
      mkstate (st_pins st) (st_ends st)
              (fun t => if Nat.eqb t s then None else st_shape st t)
              (fun q => if Nat.eqb (p_shape (pin_of st q)) s then [] else users st q)
              (fun f => match active st f with
                        | Some p => if Nat.eqb (p_shape (pin_of st p)) s then None else Some p
                        | None => None
                        end)
  | Retarget e s c => set_end (free_end st e) e (mkend s c)
  end.

Definition run (st : state) (ops : list op) : state := fold_left step ops st.
(* all guards hold along the run *)
Fixpoint run_ok (st : state) (ops : list op) : bool :=
  match ops with
  | [] => true
  | o :: r => step_ok st o && run_ok (step st o) r
  end.

(* current position of a pin: None when its shape is gone *)
Definition pin_pos (st : state) (p : nat) : option pt :=
  match st_shape st (p_shape (pin_of st p)) with
  | Some poly => Some (pin_pos_poly poly (pin_of st p))
  | None => None
  end.

(* ---------------------------------------------------------------- route-level checkers (V) *)
(* direction flag of the segment a -> b in libavoid's screen coordinates (y grows downwards); 0 if not axis-parallel or empty *)
Definition seg_dir (a b : pt) : Z :=
  if Qeqb (py a) (py b) then
    (if Qltb (px a) (px b) then DirRight else if Qltb (px b) (px a) then DirLeft else DirNone)
  else if Qeqb (px a) (px b) then
    (if Qltb (py a) (py b) then DirDown else DirUp)
  else DirNone.
Definition leaves_in_dirs (a b : pt) (dirs : Z) : bool := negb (Z.eqb (Z.land (seg_dir a b) dirs) 0).

(* a route end is honoured by a class of candidate pins (position, directions): it sits exactly on one of them and, for
   orthogonal routes, the adjacent segment leaves in one of that pin's directions *)
Definition end_honoured (orth : bool) (q q1 : pt) (cands : list (pt * Z)) : bool :=
  existsb (fun c => pt_eqb q (fst c) && (negb orth || leaves_in_dirs q q1 (snd c))) cands.
Definition end_at_some_pin (q : pt) (cands : list (pt * Z)) : bool :=
  existsb (fun c => pt_eqb q (fst c)) cands.

(* c on the closed segment ab: collinear and inside the bounding box of a, b *)
Definition on_seg (a b c : pt) : bool :=
  Qeqb ((px b - px a) * (py c - py a) - (px c - px a) * (py b - py a)) 0 &&
  Qleb (Qmin' (px a) (px b)) (px c) && Qleb (px c) (Qmax' (px a) (px b)) &&
  Qleb (Qmin' (py a) (py b)) (py c) && Qleb (py c) (Qmax' (py a) (py b)).

(* consume, in order, the checkpoints met while walking from a to b; returns the remaining checkpoints *)
Fixpoint take_on (a b : pt) (cps : list pt) : list pt :=
  match cps with
  | c :: cs => if on_seg a b c then take_on c b cs else cps
  | [] => []
  end.
(* checkpoints cps are met in the given order along the polyline start :: rest *)
Fixpoint visits (start : pt) (rest : list pt) (cps : list pt) : bool :=
  match rest with
  | [] => forallb (pt_eqb start) cps
  | b :: rest' => visits b rest' (take_on start b cps)
  end.
Definition visits_in_order (route cps : list pt) : bool :=
  match route with
  | [] => is_nil cps
  | a :: rest => visits a rest cps
  end.

(* exclusive pins of a table never have two users: decider run on the implementation's m_connend_users sizes *)
Definition exclusive_ok (excl : list bool) (nusers : list nat) : bool :=
  forallb (fun xn => negb (fst xn) || Nat.leb (snd xn) 1) (combine excl nusers).
