(* C03 - completeness of libavoid's blocking test, without the extra hypothesis of blocked_complete_partial.

   Declarative description of the excluded family:
     no_edge_interior_hit P a b   no point strictly inside the segment ab lies strictly inside an edge of P
     meets_boundary_only_at_vertices_or_ends P a b
                                  every point of ab that lies on (the closed) edge of P is an endpoint of ab or a
                                  vertex of P                      (the wording of DESIGN 5.3 / KNOWN_FINDINGS)
   Theorems (P is an ARBITRARY vertex list unless convex_ccw is stated - convex_ccw = strictly convex, vertices in
   libavoid's orientation, no collinear vertices, the class the generators produce):
     interior_edge_hit_crosses    a segment through the interior that hits the relative interior of an edge at one
                                  of its own interior points crosses that edge PROPERLY
     degenerate_chord_exact       the executable classifier `degenerate_chord` = "through the interior, no endpoint
                                  strictly inside, no_edge_interior_hit"
     blocked_complete             through the interior /\ ~ no_edge_interior_hit  ->  blocked by both loops
     blocked_complete_geom        the same from the boolean hypotheses of blocked_complete_partial, the hypothesis
                                  `degenerate_chord = false` replaced by the declarative ~ no_edge_interior_hit
     boundary_vertices_iff        for convex_ccw P: meets_boundary_only_at_vertices_or_ends <-> no_edge_interior_hit
     blocked_complete_vertices    for convex_ccw P: through the interior and NOT "meets the boundary only at vertices
                                  of P and/or at its own endpoints"  ->  blocked
     unblocked_char               through the interior, endpoints not strictly inside:
                                  not blocked  <->  degenerate_chord /\ fewer than two endpoint touches
   COUNTEREXAMPLE to the equivalence "not blocked <-> misses the interior \/ degenerate chord" as literally stated:
     diagonal_blocked             the diagonal (0,0)-(10,10) of sq10 is a degenerate chord (it meets the boundary only
                                  at two vertices) and IS blocked, by two endpoint touches.  The unblocked family is
                                  "degenerate chord with fewer than two endpoint touches" (unblocked_char). *)
From Adapt Require Import Num.Qaux Geom.GeomSpec Geom.GeomSpecDec Gen.Geometry Geom.GeomProofs
     Avoid.SegPolyModel Avoid.SegPoly Avoid.RefRouterModel Avoid.Blocking.
Local Open Scope Q_scope.

Definition no_edge_interior_hit (P : list pt) (a b : pt) : Prop :=
  forall t e, 0 < t -> t < 1 -> In e (poly_edges P) -> ~ strictly_between (fst e) (snd e) (lerp a b t).

Definition meets_boundary_only_at_vertices_or_ends (P : list pt) (a b : pt) : Prop :=
  forall t e, 0 <= t -> t <= 1 -> In e (poly_edges P) -> on_closed_segment (fst e) (snd e) (lerp a b t) ->
    t == 0 \/ t == 1 \/ exists v, In v P /\ pt_eq (lerp a b t) v.

Lemma cross_pt_eq a b c c' : pt_eq c c' -> cross a b c == cross a b c'.
Proof. intros [Ex Ey]. unfold cross. rewrite Ex, Ey. reflexivity. Qed.

Lemma cross_on_line s1 s2 u : cross s1 s2 (lerp s1 s2 u) == 0.
Proof. unfold cross, lerp; cbn [px py]. ring. Qed.

Lemma edge_c1_den e a b :
  edge_c1 e a b == - ((px b - px a) * (py (snd e) - py (fst e)) - (py b - py a) * (px (snd e) - px (fst e))).
Proof. unfold edge_c1. ring. Qed.

Theorem interior_edge_hit_crosses P a b e t :
  In e (poly_edges P) -> 0 < t -> t < 1 -> strictly_between (fst e) (snd e) (lerp a b t) ->
  passes_through_interior P a b -> properly_cross a b (fst e) (snd e).
Proof.
  intros He Ht0 Ht1 (Hne & u & Hu0 & Hu1 & Hpt) (t' & Ht0' & Ht1' & Hin).
  set (den := (px b - px a) * (py (snd e) - py (fst e)) - (py b - py a) * (px (snd e) - px (fst e))).
  destruct (Qeq_dec den 0) as [Ez|Enz].
  - exfalso. specialize (Hin e He).
    pose proof (cross_lerp e a b t') as E1. pose proof (cross_lerp e a b t) as E2.
    pose proof (cross_pt_eq (fst e) (snd e) _ _ Hpt) as E3. rewrite cross_on_line in E3.
    pose proof (edge_c1_den e a b) as E4. fold den in E4. rewrite Ez in E4.
    rewrite E4 in E1, E2. lra.
  - exists t, u. repeat split; try assumption; try apply Hpt.
Qed.

Lemma properly_cross_hit a b c d : properly_cross a b c d ->
  exists s, 0 < s /\ s < 1 /\ strictly_between c d (lerp a b s).
Proof.
  intros (s & t & Hs0 & Hs1 & Ht0 & Ht1 & Hpt & Hnp). exists s. repeat split; try assumption.
  - intros [Ex Ey]. apply Hnp. rewrite Ex, Ey. ring.
  - exists t. repeat split; try assumption; apply Hpt.
Qed.

Theorem degenerate_chord_exact P a b :
  degenerate_chord P a b = true <->
  passes_through_interior P a b /\ ~ strictly_inside_all_edges P a /\ ~ strictly_inside_all_edges P b /\
  no_edge_interior_hit P a b.
Proof.
  unfold degenerate_chord. rewrite !andb_true_iff, !negb_true_iff, <- !not_true_iff_false, !inside_strict_spec,
    through_interior_spec, forallb_forall. fold (passes_through_interior P a b).
  split.
  - intros [[[Ht Ha] Hb] Hf]. repeat split; try assumption.
    intros t e Ht0 Ht1 He Hsb.
    pose proof (interior_edge_hit_crosses P a b e t He Ht0 Ht1 Hsb Ht) as Hc.
    apply spec_segmentIntersect_ok in Hc. specialize (Hf e He). rewrite Hc in Hf. discriminate.
  - intros (Ht & Ha & Hb & Hn). repeat split; try assumption.
    intros e He. apply negb_true_iff. destruct (spec_segmentIntersect a b (fst e) (snd e)) eqn:Hc; [|reflexivity].
    exfalso. apply spec_segmentIntersect_ok in Hc. destruct (properly_cross_hit _ _ _ _ Hc) as (s & Hs0 & Hs1 & Hsb).
    exact (Hn s e Hs0 Hs1 He Hsb).
Qed.

(* completeness of the blocking test, no classifier hypothesis *)
Theorem blocked_complete e1 e2 P :
  passes_through_interior P e1 e2 ->
  (exists t e, 0 < t /\ t < 1 /\ In e (poly_edges P) /\ strictly_between (fst e) (snd e) (lerp e1 e2 t)) ->
  blocked_by_shape e1 e2 P = true /\ blocked_by_new_shape e1 e2 P = true.
Proof.
  intros Ht (t & e & Ht0 & Ht1 & He & Hsb). rewrite blocked_order_irrelevant.
  assert (B : blocked_by_shape e1 e2 P = true); [|split; exact B].
  apply blocked_if_properly_crossed. exists e. split; [exact He|].
  eapply interior_edge_hit_crosses; eassumption.
Qed.

Theorem blocked_complete_geom e1 e2 P :
  through_interior P e1 e2 = true -> inside_strict P e1 = false -> inside_strict P e2 = false ->
  ~ no_edge_interior_hit P e1 e2 ->
  blocked_by_shape e1 e2 P = true /\ blocked_by_new_shape e1 e2 P = true.
Proof.
  intros Ht H1 H2 Hn. apply blocked_complete_partial; try assumption.
  destruct (degenerate_chord P e1 e2) eqn:D; [|reflexivity].
  exfalso. apply Hn. apply degenerate_chord_exact in D. apply D.
Qed.

(* ---- the wording "meets the boundary only at polygon vertices and/or its own endpoints" *)
Lemma last_In {A} : forall (l : list A) d, l <> [] -> In (last l d) l.
Proof.
  induction l as [|a l IH]; intros d Hne; [congruence|]. destruct l as [|b l']; [left; reflexivity|].
  right. apply IH. discriminate.
Qed.
Lemma removelast_In {A} : forall (l : list A) x, In x (removelast l) -> In x l.
Proof.
  induction l as [|a l IH]; [intros ? []|]. destruct l as [|b l']; [intros ? []|].
  cbn [removelast]. intros x [<-|H]; [left; reflexivity|right; apply IH; exact H].
Qed.

Lemma poly_edges_In P e : In e (poly_edges P) -> In (fst e) P /\ In (snd e) P.
Proof.
  destruct P as [|p0 r]; [intros []|]. unfold poly_edges. destruct e as [x y]. intro H. cbn [fst snd]. split.
  - apply in_combine_l in H. destruct H as [<-|H]; [apply last_In; discriminate|apply removelast_In; exact H].
  - apply in_combine_r in H. exact H.
Qed.

Lemma lerp_same s u : pt_eq (lerp s s u) s.
Proof. unfold lerp, pt_eq; cbn [px py]. split; ring. Qed.

Lemma lerp_cong a b a' b' t : pt_eq a a' -> pt_eq b b' -> pt_eq (lerp a b t) (lerp a' b' t).
Proof. intros [E1 E2] [E3 E4]. unfold lerp, pt_eq; cbn [px py]. rewrite E1, E2, E3, E4. split; reflexivity. Qed.

Lemma no_hit_boundary_vertices P a b : no_edge_interior_hit P a b -> meets_boundary_only_at_vertices_or_ends P a b.
Proof.
  intros Hn t e Ht0 Ht1 He (u & Hu0 & Hu1 & Hpt).
  destruct (Qeq_dec t 0) as [|N0]; [left; assumption|].
  destruct (Qeq_dec t 1) as [|N1]; [right; left; assumption|]. right. right.
  destruct (poly_edges_In P e He) as [I1 I2].
  destruct (Qeq_dec u 0) as [E0|M0].
  { exists (fst e). split; [exact I1|]. eapply pt_eq_trans; [exact Hpt|].
    eapply pt_eq_trans; [apply lerp_param_eq; exact E0|apply lerp_0]. }
  destruct (Qeq_dec u 1) as [E1|M1].
  { exists (snd e). split; [exact I2|]. eapply pt_eq_trans; [exact Hpt|].
    eapply pt_eq_trans; [apply lerp_param_eq; exact E1|apply lerp_1]. }
  destruct (pt_eqb (fst e) (snd e)) eqn:Eq.
  { apply pt_eqb_spec in Eq. exists (fst e). split; [exact I1|]. eapply pt_eq_trans; [exact Hpt|].
    eapply pt_eq_trans; [apply lerp_cong; [apply pt_eq_refl|apply pt_eq_sym; exact Eq]|apply lerp_same]. }
  assert (T0 : 0 < t) by (destruct (Qlt_le_dec 0 t); [assumption|exfalso; apply N0; lra]).
  assert (T1 : t < 1) by (destruct (Qlt_le_dec t 1); [assumption|exfalso; apply N1; lra]).
  assert (U0 : 0 < u) by (destruct (Qlt_le_dec 0 u); [assumption|exfalso; apply M0; lra]).
  assert (U1 : u < 1) by (destruct (Qlt_le_dec u 1); [assumption|exfalso; apply M1; lra]).
  exfalso. apply (Hn t e T0 T1 He). split.
  - intro Hq. apply pt_eqb_spec in Hq. congruence.
  - exists u. repeat split; try assumption; apply Hpt.
Qed.

Lemma convex_ccw_spec P : convex_ccw P = true ->
  forall e q, In e (poly_edges P) -> In q P -> pt_eq q (fst e) \/ pt_eq q (snd e) \/ 0 < cross (fst e) (snd e) q.
Proof.
  unfold convex_ccw. rewrite andb_true_iff, forallb_forall. intros [_ H] e q He Hq.
  specialize (H e He). rewrite forallb_forall in H. specialize (H q Hq).
  rewrite !orb_true_iff, !pt_eqb_spec, Qltb_spec in H. tauto.
Qed.

Lemma strictly_between_not_end s1 s2 X : strictly_between s1 s2 X -> ~ pt_eq X s1 /\ ~ pt_eq X s2.
Proof.
  intros (Hne & u & Hu0 & Hu1 & [Ex Ey]). unfold lerp in Ex, Ey; cbn [px py] in Ex, Ey. unfold pt_eq in *.
  split; intros [Fx Fy]; apply Hne.
  - assert (A : u * (px s2 - px s1) == 0) by lra. assert (B : u * (py s2 - py s1) == 0) by lra.
    apply Qmult_integral in A. apply Qmult_integral in B. split; [destruct A|destruct B]; lra.
  - assert (A : (1 - u) * (px s2 - px s1) == 0) by lra. assert (B : (1 - u) * (py s2 - py s1) == 0) by lra.
    apply Qmult_integral in A. apply Qmult_integral in B. split; [destruct A|destruct B]; lra.
Qed.

Lemma strictly_between_closed s1 s2 X : strictly_between s1 s2 X -> on_closed_segment s1 s2 X.
Proof. intros (_ & u & Hu0 & Hu1 & Hpt). exists u. split; [lra|]. split; [lra|]. exact Hpt. Qed.

Theorem boundary_vertices_iff P a b : convex_ccw P = true ->
  (meets_boundary_only_at_vertices_or_ends P a b <-> no_edge_interior_hit P a b).
Proof.
  intro Hc. split; [|apply no_hit_boundary_vertices].
  intros Hm t e Ht0 Ht1 He Hsb.
  destruct (Hm t e ltac:(lra) ltac:(lra) He (strictly_between_closed _ _ _ Hsb)) as [E|[E|(v & Hv & Hpt)]]; try lra.
  destruct (strictly_between_not_end _ _ _ Hsb) as [N1 N2].
  destruct (convex_ccw_spec P Hc e v He Hv) as [E|[E|Hpos]].
  - apply N1. eapply pt_eq_trans; eassumption.
  - apply N2. eapply pt_eq_trans; eassumption.
  - destruct Hsb as (_ & u & _ & _ & Hu).
    pose proof (cross_pt_eq (fst e) (snd e) _ _ Hu) as E1. rewrite cross_on_line in E1.
    pose proof (cross_pt_eq (fst e) (snd e) _ _ Hpt) as E2. lra.
Qed.

Theorem blocked_complete_vertices e1 e2 P :
  convex_ccw P = true ->
  through_interior P e1 e2 = true -> inside_strict P e1 = false -> inside_strict P e2 = false ->
  ~ meets_boundary_only_at_vertices_or_ends P e1 e2 ->
  blocked_by_shape e1 e2 P = true /\ blocked_by_new_shape e1 e2 P = true.
Proof.
  intros Hc Ht H1 H2 Hn. apply blocked_complete_geom; try assumption.
  intro Hh. apply Hn. apply (boundary_vertices_iff P e1 e2 Hc). exact Hh.
Qed.

(* ---- exactly which segments through the interior escape the test *)
Theorem unblocked_char e1 e2 P :
  through_interior P e1 e2 = true -> inside_strict P e1 = false -> inside_strict P e2 = false ->
  (blocked_by_shape e1 e2 P = false <->
   degenerate_chord P e1 e2 = true /\ (touch_count e1 e2 (poly_edges P) < 2)%nat).
Proof.
  intros Ht H1 H2. unfold blocked_by_shape. rewrite blocked_char, Nat.add_0_r, orb_false_iff, Nat.leb_gt.
  unfold degenerate_chord. rewrite Ht, H1, H2. cbn [negb andb].
  assert (E : existsb (crosses e1 e2) (poly_edges P) = false <->
              forallb (fun e => negb (spec_segmentIntersect e1 e2 (fst e) (snd e))) (poly_edges P) = true).
  { rewrite forallb_forall. rewrite <- not_true_iff_false, existsb_exists. split.
    - intros H e He. apply negb_true_iff. rewrite <- crosses_spec.
      destruct (crosses e1 e2 e) eqn:C; [|reflexivity]. exfalso. apply H. exists e. auto.
    - intros H (e & He & C). specialize (H e He). rewrite <- crosses_spec, C in H. discriminate. }
  rewrite E. tauto.
Qed.

(* ---- counterexample to "not blocked <-> misses the interior \/ degenerate chord": a degenerate chord CAN be blocked *)
Example diagonal_blocked :
  convex_ccw sq10 = true /\ degenerate_chord sq10 (mkpt 0 0) (mkpt 10 10) = true /\
  touch_count (mkpt 0 0) (mkpt 10 10) (poly_edges sq10) = 2%nat /\
  blocked_by_shape (mkpt 0 0) (mkpt 10 10) sq10 = true.
Proof. repeat split; vm_compute; reflexivity. Qed.

(* non-vacuity of blocked_complete / blocked_complete_vertices: the chord (-5,4)-(15,6) hits the side x = 0 of sq10 at
   (0, 9/2), strictly inside that side, at t = 1/4 *)
Example blocked_complete_nonvacuous2 :
  passes_through_interior sq10 (mkpt (-5) 4) (mkpt 15 6) /\
  exists t e, 0 < t /\ t < 1 /\ In e (poly_edges sq10) /\
              strictly_between (fst e) (snd e) (lerp (mkpt (-5) 4) (mkpt 15 6) t).
Proof.
  split; [apply through_interior_spec; vm_compute; reflexivity|].
  exists (1 # 4), (mkpt 0 10, mkpt 0 0). split; [reflexivity|]. split; [reflexivity|].
  split; [vm_compute; tauto|]. apply spec_pointOnLine_ok. vm_compute. reflexivity.
Qed.
Example not_only_vertices_sq10 : ~ meets_boundary_only_at_vertices_or_ends sq10 (mkpt (-5) 4) (mkpt 15 6).
Proof.
  intro H. apply (boundary_vertices_iff sq10 _ _ convex_sq10) in H.
  destruct blocked_complete_nonvacuous2 as [_ (t & e & H0 & H1 & He & Hs)]. exact (H t e H0 H1 He Hs).
Qed.
