(* C11 - which orthogonal visibility edges a connection pin gets from its scan-line neighbours (DESIGN 5.11, 9.14).  No proofs in this file.
   Mirrors, in libavoid/orthogonal.cpp:
     getPosVertInfDirections (:556-599)  -> scan_dirs          (the function itself is translated by cpp2v: Gen/VisEdge.v)
     LineSegment::generateVisibilityEdgesFromBreakpointSet (:1117-1199), the body of the loop over a pair `last` (lower position) /
     `vert` (higher position) of consecutive breakpoints of one scan line -> pair_edges, PARAMETRISED by the three decisions
     canSeeDown / canSeeUp / generateEdge.  Those three local bool variables are translated from the source by cpp2v
     (Gen/VisEdge.v: visedge_canSeeDown / visedge_canSeeUp / visedge_generateEdge, functions of last->dirs, vert->dirs,
     last->vert->id.isConnPt(), vert->vert->id.isConnPt()); which edge each of them guards is hand-modelled here:
        both connection points:  canSeeDown && a non-connection-point vertex exists below  -> edge (that vertex, vert)
                                 canSeeUp   && a non-connection-point vertex exists above  -> edge (last, that vertex)
        always:                  generateEdge                                              -> edge (last, vert)
   Scan-line flags: VisDirUp = visibility towards HIGHER positions, VisDirDown = towards LOWER positions; in the y dimension
   libavoid's axis points down, so ConnDirDown -> VisDirUp and ConnDirUp -> VisDirDown. *)
From Coq Require Import ZArith List Bool.
From Adapt Require Import Num.Qaux Avoid.PinsModel.
Import ListNotations.
Local Open Scope Z_scope.

Definition ScanNone : Z := 0.
Definition ScanUp : Z := 1.
Definition ScanDown : Z := 2.

(* mask m contains (a bit of) flag f *)
Definition has (m f : Z) : bool := negb (Z.eqb (Z.land m f) 0).

(* the ConnDirFlags direction that points towards lower / higher positions of scan dimension dim (0 = x, 1 = y) *)
Definition dim_lower_flag (dim : Z) : Z := if Z.eqb dim 0 then DirLeft else DirUp.
Definition dim_higher_flag (dim : Z) : Z := if Z.eqb dim 0 then DirRight else DirDown.

(* intended meaning of getPosVertInfDirections: ScanUp iff the mask permits the higher-position direction, ScanDown iff the lower one *)
Definition scan_dirs (m dim : Z) : Z :=
  if Z.eqb dim 0 || Z.eqb dim 1 then
    Z.lor (if has m (dim_higher_flag dim) then ScanUp else 0) (if has m (dim_lower_flag dim) then ScanDown else 0)
  else ScanNone.

(* a breakpoint of a scan line: is it a connection point (pin / connector end), and its scan-line flags *)
Record bpoint := mkbp { bp_cp : bool; bp_dirs : Z }.
(* end points of a generated edge: the lower breakpoint of the pair, the higher one, or a vertex that is not a connection point *)
Inductive endpoint := Side | Last | Vert.
Record vedge := mkedge { e_lo : endpoint; e_hi : endpoint }.

Definition decision := Z -> Z -> bool -> bool -> bool.     (* last->dirs, vert->dirs, last is conn pt, vert is conn pt *)

Definition pair_edges (canSeeDown canSeeUp generateEdge : decision) (last vert : bpoint) (side_below side_above : bool) : list vedge :=
  let ap (f : decision) := f (bp_dirs last) (bp_dirs vert) (bp_cp last) (bp_cp vert) in
  (if bp_cp vert && bp_cp last then
     (if ap canSeeDown && side_below then [mkedge Side Vert] else []) ++
     (if ap canSeeUp && side_above then [mkedge Last Side] else [])
   else []) ++
  (if ap generateEdge then [mkedge Last Vert] else []).

(* the intended decisions *)
Definition spec_canSeeDown : decision := fun ld vd lc vc => has vd ScanDown.
Definition spec_canSeeUp : decision := fun ld vd lc vc => has ld ScanUp.
Definition spec_generateEdge : decision := fun ld vd lc vc => implb lc (has ld ScanUp) && implb vc (has vd ScanDown).

(* an edge respects the scan flags of its connection-point ends: the lower end must see up, the higher end must see down *)
Definition lo_ok (last vert : bpoint) (e : endpoint) : bool :=
  match e with Side => true | Last => implb (bp_cp last) (has (bp_dirs last) ScanUp) | Vert => false end.
Definition hi_ok (last vert : bpoint) (e : endpoint) : bool :=
  match e with Side => true | Vert => implb (bp_cp vert) (has (bp_dirs vert) ScanDown) | Last => false end.
Definition edge_respects (last vert : bpoint) (e : vedge) : bool := lo_ok last vert (e_lo e) && hi_ok last vert (e_hi e).

(* the decision as the seeded change C11-6 wrote it (the NEIGHBOUR's flag): used only for the refutation example *)
Definition wrong_canSeeDown : decision := fun ld vd lc vc => has ld ScanDown.

Definition vedge_eqb (a b : vedge) : bool :=
  let eqe x y := match x, y with Side, Side | Last, Last | Vert, Vert => true | _, _ => false end in
  eqe (e_lo a) (e_lo b) && eqe (e_hi a) (e_hi b).
