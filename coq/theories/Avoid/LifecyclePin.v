(* C15 - proofs about the connection-pin layer of the lifecycle model (LifecyclePinModel.v: pop / pst /
   pstep / prun).  The invariant `XInv` of LifecycleCP.v is reused unchanged for the `xs` component; this
   file adds the ownership invariant of the pins (owned by their shape / junction, freed by ~Obstacle or by
   an explicit delete) and lifts the property theorems to the alphabet core ops + XSetCP + PNewPin + PDelPin.
   Main results, all for unbounded op lists over the current code  prun true true true true:
     pin_xs_is_xrun           : the xs component is the xrun of the projected ops
     pin_no_use_after_free    : pbad P = [] /\ bad (core (xs P)) = [] /\ vbad (xs P) = []
     pin_pins_owned           : every entry of a pin set is an allocated pin of an allocated obstacle
     pin_sets_disjoint        : no pin is in two sets / twice in one set
     pin_no_orphan            : every allocated pin is in the set of some obstacle
     pin_heap_nodup_fresh     : pin heap has no duplicates and is disjoint from the free history
     pin_destroy_releases_all : alive = false -> pheap P = [] /\ heap (core (xs P)) = [] /\ vheap (xs P) = []
   plus the vm_compute refutation for the variant that does not insert an owner's second pin (fp = false). *)
From Coq Require Import List Arith Bool Lia.
Import ListNotations.
From Adapt Require Import Avoid.LifecycleModel Avoid.Lifecycle Avoid.LifecycleCP Avoid.LifecyclePinModel.

Set Implicit Arguments.

Ltac pproj := cbn [xs pheap pown pfreed pbad].

(* ------------------------------------------------------------------------------------------ *)
(* pfree_all / pderef_all                                                                     *)
(* ------------------------------------------------------------------------------------------ *)
Lemma pfa_xs l : forall x, xs (pfree_all l x) = xs x.
Proof. unfold pfree_all. apply fold_pres. reflexivity. Qed.
Lemma pfa_pown l : forall x, pown (pfree_all l x) = pown x.
Proof. unfold pfree_all. apply fold_pres. reflexivity. Qed.

Lemma pfa_pheap l : forall x, pheap (pfree_all l x) = rm_all l (pheap x).
Proof.
  unfold pfree_all, rm_all. induction l as [|v r IH]; cbn [fold_left]; intros x; auto.
  rewrite IH. reflexivity.
Qed.

Lemma pfa_pfreed l : forall x v, In v (pfreed (pfree_all l x)) <-> In v l \/ In v (pfreed x).
Proof.
  unfold pfree_all. induction l as [|a r IH]; cbn [fold_left]; intros x v.
  - cbn. tauto.
  - rewrite IH. unfold pfree at 1. pproj. cbn [In]. intuition.
Qed.

Lemma pfa_pbad l : forall x, NoDup l -> incl l (pheap x) -> pbad x = [] -> pbad (pfree_all l x) = [].
Proof.
  unfold pfree_all. induction l as [|a r IH]; cbn [fold_left]; intros x ND Hi Hb; auto.
  apply NoDup_cons_iff in ND. destruct ND as [N1 N2].
  apply IH; auto.
  - unfold pfree; pproj. intros v Hv. apply remove_nat_In. split; [apply Hi; right; auto|].
    intros ->; auto.
  - unfold pfree; pproj. assert (In a (pheap x)) as Ha by (apply Hi; left; auto).
    apply mem_In in Ha. rewrite Ha. exact Hb.
Qed.

Lemma pderef_in v x : In v (pheap x) -> pderef v x = x.
Proof. intros H. unfold pderef. apply mem_In in H. rewrite H. reflexivity. Qed.

Lemma pda_id l : forall x, incl l (pheap x) -> pderef_all l x = x.
Proof.
  unfold pderef_all. induction l as [|a r IH]; cbn [fold_left]; intros x Hi; auto.
  rewrite pderef_in by (apply Hi; left; auto). apply IH. intros v Hv. apply Hi. right; auto.
Qed.

Lemma pderef_xs v x : xs (pderef v x) = xs x.
Proof. unfold pderef. destruct (mem v (pheap x)); reflexivity. Qed.
Lemma pda_xs l : forall x, xs (pderef_all l x) = xs x.
Proof. unfold pderef_all. apply fold_pres. intros; apply pderef_xs. Qed.

(* ------------------------------------------------------------------------------------------ *)
(* the ownership invariant of connection pins                                                 *)
(* ------------------------------------------------------------------------------------------ *)
Record PW (x : pst) : Prop := {
  pw_nodup : NoDup (pheap x);
  pw_fresh : forall p, In p (pheap x) -> ~ In p (pfreed x);
  pw_own_alloc : forall o p, In (o, p) (pown x) -> In p (pheap x);  (* set entries are allocated *)
  pw_own_nodup : NoDup (map snd (pown x));                          (* one owner, one set entry *)
  pw_no_orphan : forall p, In p (pheap x) -> exists o, In (o, p) (pown x);
  pw_bad : pbad x = [] }.

Definition powners_live (x : pst) : Prop := forall o p, In (o, p) (pown x) -> In o (heap (core (xs x))).
Definition PInv (x : pst) : Prop := XInv (xs x) /\ PW x /\ powners_live x.

Lemma set_xs_PW x y : PW x -> PW (set_xs x y).
Proof. intros V. unfold set_xs. constructor; pproj; apply V. Qed.

Lemma pentry_unique x o o' p : PW x -> In (o, p) (pown x) -> In (o', p) (pown x) -> o = o'.
Proof.
  intros V H1 H2.
  assert (E : (o, p) = (o', p)) by (apply (nodup_map_inj snd (pown x)); auto; apply V).
  congruence.
Qed.

(* ---- ~Obstacle of the shapes / junctions that were just freed ---- *)
Lemma preap_xs x : xs (preap x) = xs x.
Proof. unfold preap, set_pown. pproj. apply pfa_xs. Qed.

Lemma preap_PInv x : XInv (xs x) -> PW x -> PInv (preap x).
Proof.
  intros XI V. split; [rewrite preap_xs; exact XI|]. unfold preap.
  set (dead := filter (fun op => negb (powner_live x op)) (pown x)).
  set (dl := map snd dead).
  assert (NDd : NoDup dl) by (apply NoDup_map_filter, V).
  assert (Hdl : forall p, In p dl <-> exists o, In (o, p) (pown x) /\ powner_live x (o, p) = false).
  { intros p. unfold dl, dead. rewrite in_map_iff. split.
    - intros [[o p'] [E H]]. cbn [snd] in E. subst p'. apply filter_In in H. destruct H as [H O].
      apply negb_true_iff in O. eauto.
    - intros [o [H O]]. exists (o, p). split; auto. apply filter_In. split; auto.
      apply negb_true_iff; auto. }
  assert (Hi : incl dl (pheap x)).
  { intros p Hp. apply Hdl in Hp. destruct Hp as [o [H _]]. apply (pw_own_alloc V o p H). }
  unfold set_pown. split.
  - constructor; pproj.
    + rewrite pfa_pheap. apply rm_all_NoDup, V.
    + intros p Hp. rewrite pfa_pheap in Hp. apply rm_all_In in Hp. destruct Hp as [Hp Nd].
      rewrite pfa_pfreed. intros [F|F]; auto. apply (pw_fresh V p); auto.
    + intros o p H. apply filter_In in H. destruct H as [H O].
      rewrite pfa_pheap. apply rm_all_In. split; [apply (pw_own_alloc V o p H)|].
      intros Hd. apply Hdl in Hd. destruct Hd as [o' [H' O']].
      assert (o = o') by (apply (@pentry_unique x o o' p V H H')). subst o'.
      congruence.
    + apply NoDup_map_filter, V.
    + intros p Hp. rewrite pfa_pheap in Hp. apply rm_all_In in Hp. destruct Hp as [Hp Nd].
      apply (pw_no_orphan V) in Hp. destruct Hp as [o H]. exists o.
      apply filter_In. split; auto.
      destruct (powner_live x (o, p)) eqn:O; auto. exfalso. apply Nd, Hdl. eauto.
    + apply pfa_pbad; auto. apply V.
  - intros o p H. pproj. apply filter_In in H. destruct H as [_ O].
    rewrite pfa_xs. unfold powner_live in O. cbn [fst] in O. apply mem_In. exact O.
Qed.

(* ---- rerouting only touches set entries ---- *)
Lemma pda_own_id x : PW x -> pderef_all (map snd (pown x)) x = x.
Proof.
  intros V. apply pda_id. intros p Hp. apply in_map_iff in Hp.
  destruct Hp as [[o p'] [E H]]. cbn [snd] in E. subst p'. apply (pw_own_alloc V o p H).
Qed.

(* ------------------------------------------------------------------------------------------ *)
(* every step preserves the invariant                                                         *)
(* ------------------------------------------------------------------------------------------ *)
Lemma pstep_PInv x o : PInv x -> PInv (pstep true true true true x o).
Proof.
  intros [XI [V L]]. unfold pstep. destruct (plegal x o) eqn:Lg; cbn [negb]; [|split; auto].
  destruct o as [o|o p|p].
  - cbv zeta.
    assert (R : PInv (preap (set_xs x (xstep true true true (xs x) o)))).
    { apply preap_PInv; [unfold set_xs; pproj; apply xstep_XInv, XI|apply set_xs_PW, V]. }
    destruct (xreroutes (xs x) o); auto.
    rewrite pda_own_id by apply R. exact R.
  - cbn [plegal] in Lg. rewrite !andb_true_iff, !negb_true_iff in Lg.
    destruct Lg as [[[_ Ho] Np] Nf]. apply client_holds_spec in Ho. destruct Ho as [Ho _].
    apply mem_nIn in Np. apply mem_nIn in Nf. cbn [orb].
    split; [exact XI|]. split.
    + constructor; pproj.
      * constructor; [exact Np|apply V].
      * intros p' [<-|H]; [exact Nf|apply (pw_fresh V p' H)].
      * intros o' p' [E|H]; [inversion E; left; auto|right; apply (pw_own_alloc V o' p' H)].
      * cbn [map snd]. constructor; [|apply V].
        intros H. apply in_map_iff in H. destruct H as [[o' p'] [E H]]. cbn [snd] in E. subst p'.
        apply Np. apply (pw_own_alloc V o' p H).
      * intros p' [<-|H]; [exists o; left; auto|].
        destruct (pw_no_orphan V p' H) as [o' H']. exists o'. right; auto.
      * apply V.
    + intros o' p' [E|H]; pproj; [inversion E; subst; auto|apply (L o' p' H)].
  - cbn [plegal] in Lg. rewrite !andb_true_iff in Lg. destruct Lg as [[_ Hp] _].
    unfold pfree, set_pown. pproj. rewrite Hp.
    assert (Hk : forall o p', In (o, p') (filter (fun op => negb (pin_is p op)) (pown x)) <->
                              In (o, p') (pown x) /\ p' <> p).
    { intros o p'. rewrite filter_In. unfold pin_is. cbn [snd]. rewrite negb_true_iff, Nat.eqb_neq.
      intuition. }
    split; [exact XI|]. split.
    + constructor; pproj.
      * apply remove_nat_NoDup, V.
      * intros p' H. apply remove_nat_In in H. destruct H as [H Ne].
        intros [F|F]; [apply Ne; auto|apply (pw_fresh V p' H F)].
      * intros o p' H. apply Hk in H. destruct H as [H Ne]. apply remove_nat_In.
        split; auto. apply (pw_own_alloc V o p' H).
      * apply NoDup_map_filter, V.
      * intros p' H. apply remove_nat_In in H. destruct H as [H Ne].
        destruct (pw_no_orphan V p' H) as [o H']. exists o. apply Hk. split; auto.
      * apply V.
    + intros o p' H. pproj. apply Hk in H. apply (L o p'). tauto.
Qed.

Lemma pinit_PInv t p : PInv (pinit t p).
Proof.
  unfold pinit. split; [apply xinit_XInv|]. split.
  - constructor; pproj;
      solve [constructor | intros ? [] | intros ? ? [] | reflexivity].
  - intros o q [].
Qed.

Lemma prun_PInv t p ops : PInv (prun true true true true t p ops).
Proof.
  unfold prun. generalize (pinit_PInv t p). generalize (pinit t p).
  induction ops as [|o r IH]; cbn [fold_left]; intros x I; auto. apply IH, pstep_PInv, I.
Qed.

(* ---- the xs component of the layered run is the xrun on the projected ops ---- *)
Definition x_ops (ops : list pop) : list xop :=
  flat_map (fun o => match o with PX o => [o] | PNewPin _ _ => [] | PDelPin _ => [] end) ops.

Lemma pstep_xs fk fl fc fp x o :
  xs (pstep fk fl fc fp x o) =
  match o with PX o => xstep fk fl fc (xs x) o | PNewPin _ _ => xs x | PDelPin _ => xs x end.
Proof.
  unfold pstep. destruct (plegal x o) eqn:L; cbn [negb].
  - destruct o as [o|o p|p]; [|reflexivity|reflexivity]. cbv zeta.
    destruct (xreroutes (xs x) o); [rewrite pda_xs|]; rewrite preap_xs; reflexivity.
  - destruct o as [o|o p|p]; auto. cbn [plegal] in L. unfold xstep. rewrite L. reflexivity.
Qed.

Lemma prun_xs fk fl fc fp t p ops : xs (prun fk fl fc fp t p ops) = xrun fk fl fc t p (x_ops ops).
Proof.
  unfold prun, xrun. change (xinit t p) with (xs (pinit t p)). generalize (pinit t p).
  induction ops as [|o r IH]; cbn [fold_left x_ops flat_map]; intros x; auto.
  rewrite IH, pstep_xs. destruct o; cbn [app fold_left]; reflexivity.
Qed.

(* ------------------------------------------------------------------------------------------ *)
(* the properties, pin alphabet                                                               *)
(* ------------------------------------------------------------------------------------------ *)
Theorem pin_xs_is_xrun : forall t p ops,
  xs (prun true true true true t p ops) = xrun true true true t p (x_ops ops).
Proof. intros. apply prun_xs. Qed.

Theorem pin_no_use_after_free : forall t p ops,
  pbad (prun true true true true t p ops) = [] /\
  bad (core (xs (prun true true true true t p ops))) = [] /\
  vbad (xs (prun true true true true t p ops)) = [].
Proof.
  intros. destruct (prun_PInv t p ops) as [[I [V _]] [W _]].
  split; [apply (pw_bad W)|split; [apply (w_bad I)|apply (v_bad V)]].
Qed.

Theorem pin_pins_owned : forall t p ops o q,
  In (o, q) (pown (prun true true true true t p ops)) ->
  In o (heap (core (xs (prun true true true true t p ops)))) /\ In q (pheap (prun true true true true t p ops)).
Proof.
  intros t p ops o q H. destruct (prun_PInv t p ops) as [_ [W L]].
  split; [apply (L o q H)|apply (pw_own_alloc W o q H)].
Qed.

Theorem pin_sets_disjoint : forall t p ops, NoDup (map snd (pown (prun true true true true t p ops))).
Proof. intros. destruct (prun_PInv t p ops) as [_ [W _]]. apply W. Qed.

Theorem pin_no_orphan : forall t p ops q,
  In q (pheap (prun true true true true t p ops)) -> exists o, In (o, q) (pown (prun true true true true t p ops)).
Proof. intros t p ops q H. destruct (prun_PInv t p ops) as [_ [W _]]. apply (pw_no_orphan W q H). Qed.

Theorem pin_heap_nodup_fresh : forall t p ops,
  NoDup (pheap (prun true true true true t p ops)) /\
  forall q, In q (pheap (prun true true true true t p ops)) -> ~ In q (pfreed (prun true true true true t p ops)).
Proof. intros. destruct (prun_PInv t p ops) as [_ [W _]]. split; [apply W|apply (pw_fresh W)]. Qed.

Theorem pin_destroy_releases_all : forall t p ops,
  alive (core (xs (prun true true true true t p ops))) = false ->
  pheap (prun true true true true t p ops) = [] /\
  heap (core (xs (prun true true true true t p ops))) = [] /\
  vheap (xs (prun true true true true t p ops)) = [].
Proof.
  intros t p ops A.
  assert (H : heap (core (xs (prun true true true true t p ops))) = [] /\
              vheap (xs (prun true true true true t p ops)) = []).
  { rewrite pin_xs_is_xrun in *. apply x_destroy_releases_all; auto. }
  split; auto. destruct H as [H _].
  destruct (pheap (prun true true true true t p ops)) as [|q r] eqn:E; auto. exfalso.
  destruct (@pin_no_orphan t p ops q) as [o Ho]; [rewrite E; left; auto|].
  apply pin_pins_owned in Ho. rewrite H in Ho. destruct Ho as [[] _].
Qed.

(* what the correspondence compares *)
Theorem pin_count_is_set_size : forall t p ops o,
  pin_count (prun true true true true t p ops) o = length (pins_of o (pown (prun true true true true t p ops))).
Proof. reflexivity. Qed.

Theorem live_pins_all_owned : forall t p ops,
  live_pins (prun true true true true t p ops) = length (pown (prun true true true true t p ops)).
Proof.
  intros t p ops. unfold live_pins. destruct (prun_PInv t p ops) as [_ [W _]].
  set (P := prun true true true true t p ops) in *.
  rewrite <- (map_length snd (pown P)).
  assert (length (pheap P) <= length (map snd (pown P))).
  { apply NoDup_incl_length; [apply W|]. intros q Hq. destruct (pw_no_orphan W q Hq) as [o Ho].
    apply in_map_iff. exists (o, q). split; auto. }
  assert (length (map snd (pown P)) <= length (pheap P)).
  { apply NoDup_incl_length; [apply W|]. intros q Hq. apply in_map_iff in Hq.
    destruct Hq as [[o q'] [E Ho]]. cbn [snd] in E. subst q'. apply (pw_own_alloc W o q Ho). }
  lia.
Qed.

(* ------------------------------------------------------------------------------------------ *)
(* legality; the variant that does not insert an owner's second pin; non-vacuity              *)
(* ------------------------------------------------------------------------------------------ *)
Fixpoint pall_legal (fk fl fc fp : bool) (x : pst) (ops : list pop) : bool :=
  match ops with [] => true | o :: r => plegal x o && pall_legal fk fl fc fp (pstep fk fl fc fp x o) r end.

(* two pins on one shape, router destroyed: ~Obstacle only deletes the pins in its set, the second pin
   (and its vertex) is never freed *)
Definition pin_leak_witness : list pop :=
  [PX (XCore (ONewObst 1)); PNewPin 1 10; PNewPin 1 11; PX (XCore OProcess); PX (XCore ODestroy)].

Lemma pin_leak_witness_second_not_owned :
  pall_legal true true true false (pinit true false) pin_leak_witness = true /\
  alive (core (xs (prun true true true false true false pin_leak_witness))) = false /\
  pheap (prun true true true false true false pin_leak_witness) = [11] /\
  pown (prun true true true false true false pin_leak_witness) = [] /\
  heap (core (xs (prun true true true false true false pin_leak_witness))) = [].
Proof. vm_compute. repeat split. Qed.

Theorem second_pin_not_owned_refuted :
  exists t p ops, pall_legal true true true false (pinit t p) ops = true /\
    alive (core (xs (prun true true true false t p ops))) = false /\
    pheap (prun true true true false t p ops) <> [].
Proof.
  exists true, false, pin_leak_witness.
  destruct pin_leak_witness_second_not_owned as (H1 & H2 & H3 & _). repeat split; auto.
  rewrite H3. discriminate.
Qed.

(* the current code on the same history *)
Example pin_leak_witness_current_code :
  pall_legal true true true true (pinit true false) pin_leak_witness = true /\
  (let X := prun true true true true true false (firstn 4 pin_leak_witness) in
   pheap X = [11; 10] /\ pown X = [(1, 11); (1, 10)] /\ pin_count X 1 = 2 /\ live_pins X = 2) /\
  (let X := prun true true true true true false pin_leak_witness in
   alive (core (xs X)) = false /\ pheap X = [] /\ pown X = [] /\ pbad X = [] /\ pfreed X = [10; 11]).
Proof. vm_compute. repeat split. Qed.

(* two pins on a shape with a connector attached, one pin deleted by the client, shape deleted
   (~Obstacle frees the other pin), router destroyed *)
Definition pin_demo_ops : list pop :=
  [PX (XCore (ONewObst 1)); PX (XCore (ONewConn 20 (EObst 1) EPoint)); PNewPin 1 10; PNewPin 1 11;
   PX (XCore OProcess); PDelPin 10; PX (XCore OProcess); PX (XCore (ODelObst 1)); PX (XCore OProcess);
   PX (XCore ODestroy)].
Example pin_demo :
  pall_legal true true true true (pinit true false) pin_demo_ops = true /\
  pall_legal true true true true (pinit false true) pin_demo_ops = true /\
  (let X := prun true true true true true false (firstn 5 pin_demo_ops) in
   pheap X = [11; 10] /\ live_pins X = 2 /\ pin_count X 1 = 2 /\ pbad X = []) /\
  (let X := prun true true true true true false (firstn 7 pin_demo_ops) in
   pheap X = [11] /\ pown X = [(1, 11)] /\ pfreed X = [10] /\ pbad X = []) /\
  (let X := prun true true true true true false (firstn 9 pin_demo_ops) in
   pheap X = [] /\ pown X = [] /\ pfreed X = [11; 10] /\ pbad X = [] /\ In 20 (heap (core (xs X)))) /\
  (let X := prun true true true true true false pin_demo_ops in
   alive (core (xs X)) = false /\ pheap X = [] /\ pbad X = [] /\ heap (core (xs X)) = [] /\
   bad (core (xs X)) = [] /\ vbad (xs X) = []) /\
  (let X := prun true true true true false true pin_demo_ops in
   alive (core (xs X)) = false /\ pheap X = [] /\ pbad X = [] /\ heap (core (xs X)) = []).
Proof. vm_compute. repeat split; auto. Qed.

Print Assumptions pin_no_use_after_free.
Print Assumptions pin_destroy_releases_all.
Print Assumptions second_pin_not_owned_refuted.
