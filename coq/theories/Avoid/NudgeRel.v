(* Proofs about the relation / region-collection model of Avoid/NudgeRelModel.v (property C10, DESIGN 5.10).
   - the three relations are symmetric (the intended reading of "the two segments overlap / may align": the real
     code calls them with either operand order - candidate->overlapsWith(member) while collecting a region,
     curr->overlapsWith(prev) while generating constraints - so an asymmetric predicate makes the result depend on the
     order of the connectors);
   - the region collection is total, loses / duplicates no segment, every collected segment is linked to an earlier
     member, and (for a symmetric relation) two segments that end in different regions do not overlap in either
     operand order;
   - a shiftable segment whose limits pass cp_limit_ok keeps every checkpoint of the adjoining segment on it. *)
From Coq Require Import QArith List Bool Arith ZArith Lia Lra Permutation.
From Adapt Require Import Num.Qaux Avoid.NudgeModel Avoid.NudgeRelModel.
Import ListNotations.
Local Open Scope Q_scope.

(* ------------------------------------------------------------------ symmetry of the relations *)
Lemma Qeqb_sym a b : Qeqb a b = Qeqb b a.
Proof.
  destruct (Qeqb a b) eqn:E1, (Qeqb b a) eqn:E2; try reflexivity.
  - apply Qeqb_spec in E1. symmetry in E1. apply Qeqb_spec in E1. congruence.
  - apply Qeqb_spec in E2. symmetry in E2. apply Qeqb_spec in E2. congruence.
Qed.

Lemma ranges_meet_sym s t : ranges_meet s t = ranges_meet t s.
Proof. unfold ranges_meet. apply andb_comm. Qed.

Lemma extents_overlap_sym s t : extents_overlap s t = extents_overlap t s.
Proof. unfold extents_overlap. apply andb_comm. Qed.

Lemma extents_touch_sym s t : extents_touch s t = extents_touch t s.
Proof. unfold extents_touch. apply orb_comm. Qed.

Theorem overlaps_sym nc fspp s t : overlaps_with nc fspp s t = overlaps_with nc fspp t s.
Proof.
  unfold overlaps_with.
  rewrite (extents_overlap_sym t s), (extents_touch_sym t s), (ranges_meet_sym t s).
  rewrite (andb_comm (ssbend s) (ssbend t)), (andb_comm (szbend s) (szbend t)), (andb_comm (sfinal s) (sfinal t)).
  rewrite (Z.eqb_sym (sconn s) (sconn t)). reflexivity.
Qed.

Theorem can_align_sym s t : can_align_with s t = can_align_with t s.
Proof. unfold can_align_with. rewrite (Z.eqb_sym (sconn t)), (orb_comm (scp t)). reflexivity. Qed.

Lemma Qabs'_swap a b : Qabs' (a - b) == Qabs' (b - a).
Proof. unfold Qabs'. repeat qcase; qb2p; lra. Qed.

Lemma Qltb_morph a b c : a == b -> Qltb a c = Qltb b c.
Proof.
  intro H. destruct (Qltb a c) eqn:E1, (Qltb b c) eqn:E2; try reflexivity; qb2p; lra.
Qed.
Lemma Qleb_morph a b c : a == b -> Qleb a c = Qleb b c.
Proof.
  intro H. destruct (Qleb a c) eqn:E1, (Qleb b c) eqn:E2; try reflexivity; qb2p; lra.
Qed.

Lemma has_cp_at_morph s p q : p == q -> has_cp_at s p = has_cp_at s q.
Proof.
  intro H. unfold has_cp_at. induction (scpa s) as [|c l IH]; [reflexivity|]. cbn [existsb]. rewrite IH. f_equal.
  destruct (Qeqb c p) eqn:E1, (Qeqb c q) eqn:E2; try reflexivity.
  - apply Qeqb_spec in E1. assert (c == q) as X by (rewrite E1; exact H). apply Qeqb_spec in X. congruence.
  - apply Qeqb_spec in E2. assert (c == p) as X by (rewrite E2; symmetry; exact H). apply Qeqb_spec in X. congruence.
Qed.

(* for segments of positive length at most one of the two touching configurations holds, and the touch position is the
   same point seen from either side *)
Theorem should_align_sym nc fspp s t :
  slo s < shi s -> slo t < shi t ->
  should_align_with nc fspp s t = should_align_with nc fspp t s.
Proof.
  intros Hs Ht. unfold should_align_with.
  rewrite (overlaps_sym nc fspp t s), (Z.eqb_sym (sconn t) (sconn s)).
  rewrite (Qltb_morph _ _ 10 (Qabs'_swap (spos t) (spos s))), (Qleb_morph _ _ 10 (Qabs'_swap (spos t) (spos s))).
  rewrite (andb_comm (sendsInShape t)), (xorb_comm (scp t)).
  replace (Z.eqb (sconn s) (sconn t) && sfinal t && sfinal s) with (Z.eqb (sconn s) (sconn t) && sfinal s && sfinal t)
    by (rewrite <- !andb_assoc; f_equal; apply andb_comm).
  rewrite (andb_comm (sfinal t) (sfinal s)).
  destruct (Z.eqb (sconn s) (sconn t) && sfinal s && sfinal t && overlaps_with nc fspp s t); [reflexivity|].
  destruct (Z.eqb (sconn s) (sconn t) && negb (sfinal s && sfinal t)); [|reflexivity].
  destruct (xorb (scp s) (scp t)); [|reflexivity].
  unfold touch_pos.
  destruct (Qeqb (slo s) (shi t)) eqn:E1.
  - (* s above t: for t the first test (slo t == shi s) fails, the second (shi t == slo s) holds *)
    pose proof E1 as E1'. apply Qeqb_spec in E1'.
    assert (Qeqb (slo t) (shi s) = false) as E2.
    { destruct (Qeqb (slo t) (shi s)) eqn:E; [|reflexivity]. apply Qeqb_spec in E. lra. }
    rewrite E2, (Qeqb_sym (shi t) (slo s)), E1.
    rewrite (has_cp_at_morph s _ _ E1'), (has_cp_at_morph t _ _ E1').
    rewrite <- !andb_assoc. f_equal. apply andb_comm.
  - destruct (Qeqb (shi s) (slo t)) eqn:E2.
    + pose proof E2 as E2'. apply Qeqb_spec in E2'.
      rewrite (Qeqb_sym (slo t) (shi s)), E2.
      rewrite (has_cp_at_morph s _ _ E2'), (has_cp_at_morph t _ _ E2').
      rewrite <- !andb_assoc. f_equal. apply andb_comm.
    + rewrite (Qeqb_sym (slo t) (shi s)), E2, (Qeqb_sym (shi t) (slo s)), E1. reflexivity.
Qed.

(* what overlapsWith = true means when the extents properly overlap: the shift ranges share a point *)
Theorem overlaps_proper_spec nc fspp s t :
  slo s < shi t -> slo t < shi s ->
  (overlaps_with nc fspp s t = true <-> exists p, smin s <= p <= smax s /\ smin t <= p <= smax t) \/
  (smax s < smin s \/ smax t < smin t).
Proof.
  intros H1 H2.
  destruct (Qlt_le_dec (smax s) (smin s)) as [Hs|Hs]; [right; left; exact Hs|].
  destruct (Qlt_le_dec (smax t) (smin t)) as [Ht|Ht]; [right; right; exact Ht|].
  left. unfold overlaps_with, extents_overlap.
  apply Qltb_spec in H1. apply Qltb_spec in H2. rewrite H1, H2. cbn [andb].
  unfold ranges_meet. rewrite andb_true_iff, !Qleb_spec. split.
  - intros [A B]. exists (Qmax' (smin s) (smin t)). unfold Qmax'. qcase; qb2p; lra.
  - intros [p [[A B] [C D]]]. lra.
Qed.

(* ------------------------------------------------------------------ region collection *)
Section CollectProofs.
  Context {A : Type}.
  Variable ov : A -> A -> bool.

  Lemma pick_some region rest x rest' :
    pick ov region rest = Some (x, rest') ->
    existsb (ov x) region = true /\ Permutation rest (x :: rest') /\ length rest = S (length rest').
  Proof.
    revert x rest'. induction rest as [|h t IH]; intros x rest' H; cbn in H; [discriminate|].
    destruct (existsb (ov h) region) eqn:E.
    - inversion H; subst. auto.
    - destruct (pick ov region t) as [[y t']|] eqn:P; [|discriminate]. inversion H; subst.
      destruct (IH _ _ eq_refl) as [Hx [Hp Hl]]. split; [exact Hx|]. split.
      + eapply perm_trans; [apply perm_skip; exact Hp | apply perm_swap].
      + cbn. rewrite Hl. reflexivity.
  Qed.

  Lemma pick_none region rest :
    pick ov region rest = None -> forall x, In x rest -> existsb (ov x) region = false.
  Proof.
    induction rest as [|h t IH]; intros H x Hin; [destruct Hin|]. cbn in H.
    destruct (existsb (ov h) region) eqn:E; [discriminate|].
    destruct (pick ov region t) as [[y t']|] eqn:P; [discriminate|].
    destruct Hin as [->|Hin]; [exact E | exact (IH eq_refl x Hin)].
  Qed.

  Theorem collect_total fuel region rest :
    (length rest <= fuel)%nat -> collect ov fuel region rest <> None.
  Proof.
    revert region rest. induction fuel as [|f IH]; intros region rest Hl.
    - destruct rest; [cbn; discriminate | cbn in Hl; lia].
    - cbn. destruct (pick ov region rest) as [[x rest']|] eqn:P; [|discriminate].
      apply pick_some in P. destruct P as [_ [_ Hlen]]. apply IH. lia.
  Qed.

  (* no segment left outside overlaps (as `this`) a member of the region *)
  Theorem collect_closed fuel region rest reg rest' :
    collect ov fuel region rest = Some (reg, rest') ->
    forall x y, In x rest' -> In y reg -> ov x y = false.
  Proof.
    revert region rest. induction fuel as [|f IH]; intros region rest H x y Hx Hy.
    - cbn in H. destruct (pick ov region rest) as [[z r]|] eqn:P; [discriminate|]. inversion H; subst.
      pose proof (pick_none _ _ P x Hx) as E.
      destruct (ov x y) eqn:O; [|reflexivity].
      assert (existsb (ov x) reg = true) as X by (apply existsb_exists; exists y; auto). congruence.
    - cbn in H. destruct (pick ov region rest) as [[z r]|] eqn:P.
      + eapply IH; eassumption.
      + inversion H; subst. pose proof (pick_none _ _ P x Hx) as E.
        destruct (ov x y) eqn:O; [|reflexivity].
        assert (existsb (ov x) reg = true) as X by (apply existsb_exists; exists y; auto). congruence.
  Qed.

  Theorem collect_perm fuel region rest reg rest' :
    collect ov fuel region rest = Some (reg, rest') -> Permutation (region ++ rest) (reg ++ rest').
  Proof.
    revert region rest. induction fuel as [|f IH]; intros region rest H; cbn in H;
      destruct (pick ov region rest) as [[z r]|] eqn:P; try discriminate.
    - inversion H; subst. apply Permutation_refl.
    - apply pick_some in P. destruct P as [_ [Hp _]]. apply IH in H.
      eapply perm_trans; [|exact H]. rewrite <- app_assoc. cbn. apply Permutation_app_head. exact Hp.
    - inversion H; subst. apply Permutation_refl.
  Qed.

  (* every member added by the collection overlaps (as `this`) a member that was in the region before it *)
  Inductive linked : list A -> list A -> Prop :=
  | linked_nil l : linked l []
  | linked_cons l x t : existsb (ov x) l = true -> linked (l ++ [x]) t -> linked l (x :: t).

  Theorem collect_linked fuel region rest reg rest' :
    collect ov fuel region rest = Some (reg, rest') -> exists added, reg = region ++ added /\ linked region added.
  Proof.
    revert region rest. induction fuel as [|f IH]; intros region rest H; cbn in H;
      destruct (pick ov region rest) as [[z r]|] eqn:P; try discriminate.
    - inversion H; subst. exists []. rewrite app_nil_r. split; [reflexivity | constructor].
    - apply pick_some in P. destruct P as [Hz _]. apply IH in H. destruct H as [added [-> Hl]].
      exists (z :: added). rewrite <- app_assoc. split; [reflexivity|]. constructor; assumption.
    - inversion H; subst. exists []. rewrite app_nil_r. split; [reflexivity | constructor].
  Qed.

  Lemma collect_grows fuel region rest reg rest' :
    collect ov fuel region rest = Some (reg, rest') -> (length region <= length reg)%nat.
  Proof.
    intro H. apply collect_linked in H. destruct H as [added [-> _]]. rewrite app_length. lia.
  Qed.

  Theorem groups_total fuel l : (length l <= fuel)%nat -> groups ov fuel l <> None.
  Proof.
    revert l. induction fuel as [|f IH]; intros l Hl.
    - destruct l; [cbn; discriminate | cbn in Hl; lia].
    - destruct l as [|x t]; [cbn; discriminate|]. cbn [groups].
      destruct (collect ov (length t) [x] t) as [[reg rest]|] eqn:C.
      + assert (length rest <= f)%nat as Hr.
        { pose proof (collect_perm _ _ _ _ _ C) as Hp. apply Permutation_length in Hp. rewrite !app_length in Hp.
          pose proof (collect_grows _ _ _ _ _ C) as Hg. cbn in Hp, Hg, Hl. lia. }
        specialize (IH rest Hr). destruct (groups ov f rest); [discriminate | congruence].
      + exfalso. exact (collect_total (length t) [x] t (Nat.le_refl _) C).
  Qed.

  Theorem groups_perm fuel l gs : groups ov fuel l = Some gs -> Permutation l (concat gs).
  Proof.
    revert l gs. induction fuel as [|f IH]; intros l gs H.
    - destruct l; cbn in H; [inversion H; constructor | discriminate].
    - destruct l as [|x t]; cbn [groups] in H; [inversion H; constructor|].
      destruct (collect ov (length t) [x] t) as [[reg rest]|] eqn:C; [|discriminate].
      destruct (groups ov f rest) as [gs'|] eqn:G; [|discriminate]. inversion H; subst. cbn [concat].
      apply collect_perm in C. cbn in C. eapply perm_trans; [exact C|]. apply Permutation_app_head. exact (IH _ _ G).
  Qed.

  (* a later region contains no segment that overlaps (as `this`) a member of an earlier region; with a symmetric
     relation the two operand orders agree, so regions are separated in both *)
  Theorem groups_separated fuel l gs :
    groups ov fuel l = Some gs ->
    forall i j g1 g2 x y, (i < j)%nat -> nth_error gs i = Some g1 -> nth_error gs j = Some g2 ->
      In y g1 -> In x g2 -> ov x y = false.
  Proof.
    revert l gs. induction fuel as [|f IH]; intros l gs H i j g1 g2 x y Hij H1 H2 Hy Hx.
    - destruct l; cbn in H; [|discriminate]. inversion H; subst. destruct i; discriminate.
    - destruct l as [|h t]; cbn [groups] in H; [inversion H; subst; destruct i; discriminate|].
      destruct (collect ov (length t) [h] t) as [[reg rest]|] eqn:C; [|discriminate].
      destruct (groups ov f rest) as [gs'|] eqn:G; [|discriminate]. inversion H; subst.
      destruct j as [|j]; [lia|]. cbn in H2. destruct i as [|i]; cbn in H1.
      + inversion H1; subst. eapply collect_closed; [exact C | | exact Hy].
        apply groups_perm in G. eapply Permutation_in; [apply Permutation_sym; exact G|].
        apply in_concat. exists g2. split; [eapply nth_error_In; exact H2 | exact Hx].
      + eapply (IH _ _ G i j); try eassumption. lia.
  Qed.

  Corollary groups_separated_sym fuel l gs :
    (forall a b, ov a b = ov b a) ->
    groups ov fuel l = Some gs ->
    forall i j g1 g2 x y, i <> j -> nth_error gs i = Some g1 -> nth_error gs j = Some g2 ->
      In y g1 -> In x g2 -> ov x y = false /\ ov y x = false.
  Proof.
    intros Hsym H i j g1 g2 x y Hij H1 H2 Hy Hx.
    assert (ov x y = false) as E.
    { destruct (Nat.lt_ge_cases i j) as [L|L].
      - eapply groups_separated; eassumption.
      - rewrite Hsym. eapply (groups_separated fuel l gs H j i g2 g1 y x); try eassumption. lia. }
    split; [exact E | rewrite Hsym; exact E].
  Qed.
End CollectProofs.

Theorem seg_groups_total nc fspp l : seg_groups nc fspp l <> None.
Proof. unfold seg_groups. apply groups_total. apply Nat.le_refl. Qed.

(* segments that end in different regions of one pass do not overlap, whichever is `this` *)
Theorem seg_groups_separated nc fspp l gs :
  seg_groups nc fspp l = Some gs ->
  forall i j g1 g2 x y, i <> j -> nth_error gs i = Some g1 -> nth_error gs j = Some g2 -> In y g1 -> In x g2 ->
    overlaps_with nc fspp (snd x) (snd y) = false /\ overlaps_with nc fspp (snd y) (snd x) = false.
Proof.
  unfold seg_groups. intros H i j g1 g2 x y.
  eapply (groups_separated_sym (fun x y => overlaps_with nc fspp (snd x) (snd y))); [|exact H].
  intros a b. apply overlaps_sym.
Qed.

Theorem seg_groups_perm nc fspp l gs : seg_groups nc fspp l = Some gs -> Permutation l (concat gs).
Proof. unfold seg_groups. apply groups_perm. Qed.

(* ------------------------------------------------------------------ checkpoints on the adjoining segment *)
(* the adjoining segment runs (in the shift dimension) between this segment's position and `far`; a checkpoint at
   coordinate c lies on it; this segment is moved to p' within its limits: the checkpoint is still between p' and far *)
Theorem cp_limit_keeps pos mn mx c far p' :
  cp_limit_ok pos mn mx c = true -> mn <= p' -> p' <= mx ->
  (far <= c /\ c <= pos) \/ (pos <= c /\ c <= far) ->
  (far <= c /\ c <= p') \/ (p' <= c /\ c <= far).
Proof.
  unfold cp_limit_ok. intros H H1 H2 Hc.
  destruct (Qltb c pos) eqn:E1; qb2p.
  - left. split; lra.
  - destruct (Qltb pos c) eqn:E2; qb2p.
    + right. split; lra.
    + apply andb_true_iff in H. destruct H as [A B]. apply Qeqb_spec in A. apply Qeqb_spec in B.
      assert (p' == pos) by lra. destruct Hc as [Hc|Hc]; [left | right]; split; lra.
Qed.

(* non-vacuity *)
Definition exr_a : seg := mkseg 20 300 false false false false false false 300 CHANNEL_MAX 30 420 false false [].
Definition exr_f : seg := mkseg 10 300 true false false false false false 300 300 10 500 false false [].
Example overlaps_touching_ranges : overlaps_with false 0 exr_a exr_f = true /\ overlaps_with false 0 exr_f exr_a = true.
Proof. vm_compute. split; reflexivity. Qed.
Example seg_groups_ex : seg_groups false 0 [(O, exr_a); (1%nat, exr_f)] = Some [[(O, exr_a); (1%nat, exr_f)]].
Proof. vm_compute. reflexivity. Qed.
Example seg_groups_ex2 :
  seg_groups false 0 [(O, exr_a); (1%nat, mkseg 11 50 true false false false false false 50 50 500 600 false false [])]
  = Some [[(O, exr_a)]; [(1%nat, mkseg 11 50 true false false false false false 50 50 500 600 false false [])]].
Proof. vm_compute. reflexivity. Qed.
Example cp_limit_ex : cp_limit_ok 230 225 230 225 = true /\ cp_limit_ok 230 190 230 225 = false /\ cp_limit_ok 225 190 230 225 = false.
Proof. vm_compute. repeat split; reflexivity. Qed.
