(* C06 - the connector-end part of the action queue (Avoid/ActionQueueModel.v): Router::modifyConnector /
   ActionInfo::addConnEndUpdate consolidation and the ConnChange loop of processActions.
     cview st c                        the ends connector c will have once the queue is processed
     step_refines_conn                 every accepted operation keeps  cview = sequential connector ends
     queue_refines_sequential_full     after the final Process the WHOLE scene - shapes and connector ends - equals
                                       the one obtained by applying the edits one at a time
     fold_add_end_update               a later user update of an end overwrites the queued one (consolidation is
                                       observationally "apply the updates in order")
     pin_move_no_overwrite / pin_move_refines
                                       addConnEndUpdate with isConnPinMoveUpdate = true (the update issued when a moved
                                       shape drags a pin): it is dropped when a user update of the same end is queued,
                                       applied otherwise.  The op type of the extracted model has no pin-move op, so
                                       this is stated for the generalised update function defined here (same code path
                                       with the flag as a parameter; flag = false is proved equal to the model's). *)
From Coq Require Import Permutation.
From Adapt Require Import Num.Qaux Avoid.ActionQueueModel Avoid.ActionQueue.
Local Open Scope Z_scope.

Notation ends := (option pt * option pt)%type.
Notation cupd := (list (bool * pt)).

(* the queued connector changes as an association list *)
Definition cq (q : list action) : list (Z * cupd) :=
  flat_map (fun a => match a with QConn c ups => [(c, ups)] | _ => [] end) q.

Definition cview (st : state) (c : Z) : option ends :=
  match lookup (conns st) c with
  | None => None
  | Some e => Some (match lookup (cq (queue st)) c with Some ups => fold_left apply_end ups e | None => e end)
  end.

Definition agrees_c (st : state) (cs : list (Z * ends)) : Prop := forall c, cview st c = lookup cs c.

Record CInv (st : state) : Prop := {
  ci_nodup : NoDup (map fst (cq (queue st)));
  ci_ends : forall c ups, In (c, ups) (cq (queue st)) -> NoDup (map fst ups);
  ci_has : forall c, In c (map fst (cq (queue st))) -> has_key (conns st) c = true
}.

(* ---------------------------------------------------------------- association lists *)
Lemma lookup_app {A} (m m' : list (Z * A)) k :
  lookup (m ++ m') k = match lookup m k with Some v => Some v | None => lookup m' k end.
Proof. induction m as [|[k' v] r IH]; cbn [app lookup]; [reflexivity|]. destruct (k' =? k); [reflexivity|exact IH]. Qed.

Lemma lookup_notin {A} (m : list (Z * A)) k : ~ In k (map fst m) -> lookup m k = None.
Proof.
  induction m as [|[k' v] r IH]; intro H; [reflexivity|]. cbn [lookup map fst] in *.
  destruct (k' =? k) eqn:E; [apply Z.eqb_eq in E; subst; exfalso; apply H; left; reflexivity|].
  apply IH. intro H'. apply H. right. exact H'.
Qed.

Lemma lookup_Some_In {A} (m : list (Z * A)) k v : lookup m k = Some v -> In (k, v) m.
Proof.
  induction m as [|[k' v'] r IH]; cbn [lookup]; [discriminate|].
  destruct (k' =? k) eqn:E; [apply Z.eqb_eq in E; intro H; inversion H; subst; left; reflexivity|].
  intro H. right. apply IH. exact H.
Qed.

Lemma lookup_In_nodup {A} (m : list (Z * A)) k v : NoDup (map fst m) -> In (k, v) m -> lookup m k = Some v.
Proof.
  induction m as [|[k' v'] r IH]; intros N H; [destruct H|]. cbn [map fst] in N. inversion N as [|? ? Hni N']; subst.
  cbn [lookup]. destruct H as [E|H].
  - inversion E; subst. rewrite Z.eqb_refl. reflexivity.
  - destruct (k' =? k) eqn:E; [|apply IH; assumption].
    apply Z.eqb_eq in E. subst. exfalso. apply Hni. apply in_map_iff. exists (k, v). auto.
Qed.

Lemma lookup_perm {A} (m m' : list (Z * A)) k : NoDup (map fst m) -> Permutation m m' -> lookup m k = lookup m' k.
Proof.
  intros N P.
  assert (N' : NoDup (map fst m')) by (eapply Permutation_NoDup; [apply Permutation_map; exact P|exact N]).
  destruct (lookup m k) as [v|] eqn:E.
  - symmetry. apply lookup_In_nodup; [exact N'|]. eapply Permutation_in; [exact P|]. apply lookup_Some_In. exact E.
  - destruct (lookup m' k) as [v'|] eqn:E'; [|reflexivity].
    apply lookup_Some_In in E'. apply (Permutation_in _ (Permutation_sym P)) in E'.
    rewrite (lookup_In_nodup m k v' N E') in E. discriminate.
Qed.

Lemma In_map_fst_ex {A B} (l : list (A * B)) k : In k (map fst l) -> exists v, In (k, v) l.
Proof. intro H. apply in_map_iff in H. destruct H as ([k' v] & E & H). cbn in E. subst. exists v. exact H. Qed.

Lemma NoDup_snoc {A} (l : list A) x : NoDup l -> ~ In x l -> NoDup (l ++ [x]).
Proof.
  intros N H. induction l as [|a l IH]; cbn; [constructor; [intros []|constructor]|].
  inversion N; subst. constructor.
  - rewrite in_app_iff. intros [H'|[->|[]]]; [contradiction|]. apply H. left. reflexivity.
  - apply IH; [assumption|]. intro H'. apply H. right. exact H'.
Qed.

(* ---------------------------------------------------------------- cq and the queue transformations *)
Lemma cq_app q q' : cq (q ++ q') = cq q ++ cq q'.
Proof. unfold cq. apply flat_map_app. Qed.

Lemma cq_cons a q : cq (a :: q) = cq [a] ++ cq q.
Proof. unfold cq. cbn [flat_map]. rewrite app_nil_r. reflexivity. Qed.

Lemma cq_replace_move i P q : cq (replace_move i P q) = cq q.
Proof.
  induction q as [|a r IH]; [reflexivity|]. cbn [replace_move].
  destruct (same_key 0 i a) eqn:E.
  - destruct a; try reflexivity. unfold same_key in E. cbn in E. discriminate.
  - rewrite (cq_cons a (replace_move i P r)), IH. symmetry. apply cq_cons.
Qed.

Lemma cq_erase_move j q : cq (erase_first (same_key 0 j) q) = cq q.
Proof.
  induction q as [|a r IH]; [reflexivity|]. cbn [erase_first].
  destruct (same_key 0 j a) eqn:E.
  - destruct a; try reflexivity. unfold same_key in E. cbn in E. discriminate.
  - rewrite (cq_cons a (erase_first (same_key 0 j) r)), IH. symmetry. apply cq_cons.
Qed.

Lemma cq_push_nonconn q a : (forall c u, a <> QConn c u) -> cq (push_unless_queued q a) = cq q.
Proof.
  intro H. unfold push_unless_queued. destruct (queued q (akind a) (aid a)); [reflexivity|].
  rewrite cq_app. destruct a; try apply app_nil_r. exfalso. eapply H. reflexivity.
Qed.

Lemma queued6_cq q c : queued q 6 c = true <-> In c (map fst (cq q)).
Proof.
  induction q as [|a r IH]; [cbn; split; [discriminate|intros []]|].
  rewrite queued_cons, orb_true_iff, IH.
  rewrite (cq_cons a r), map_app, in_app_iff.
  assert (E : same_key 6 c a = true <-> In c (map fst (cq [a]))).
  { destruct a as [i P|i|i|c' u]; unfold same_key; cbn; try (split; [discriminate|intros []]).
    rewrite Z.eqb_eq. split; [intros ->; left; reflexivity|intros [->|[]]; reflexivity]. }
  rewrite E. tauto.
Qed.

(* ---------------------------------------------------------------- consolidation of end updates *)
Lemma apply_end_same e u v : fst u = fst v -> apply_end (apply_end e u) v = apply_end e v.
Proof. destruct e, u as [[] ?], v as [[] ?]; cbn; intro H; try discriminate; reflexivity. Qed.
Lemma apply_end_comm e u v : fst u <> fst v -> apply_end (apply_end e u) v = apply_end (apply_end e v) u.
Proof. destruct e, u as [[] ?], v as [[] ?]; cbn; intro H; try congruence; reflexivity. Qed.

Lemma fold_apply_end_commute ups : forall e v, ~ In (fst v) (map fst ups) ->
  apply_end (fold_left apply_end ups e) v = fold_left apply_end ups (apply_end e v).
Proof.
  induction ups as [|u r IH]; intros e v H; [reflexivity|]. cbn [fold_left map] in *.
  rewrite IH by (intro H'; apply H; right; exact H').
  rewrite (apply_end_comm e u v); [reflexivity|]. intro E. apply H. left. exact E.
Qed.

(* a user update consolidated into the queued list acts as "apply it after the queued ones" *)
Theorem fold_add_end_update ups w p : NoDup (map fst ups) -> forall e,
  fold_left apply_end (add_end_update ups w p) e = apply_end (fold_left apply_end ups e) (w, p).
Proof.
  induction ups as [|[w' p'] r IH]; intros N e; [reflexivity|]. cbn [map fst] in N. inversion N as [|? ? Hni N']; subst.
  cbn [add_end_update]. destruct (Bool.eqb w' w) eqn:E.
  - apply Bool.eqb_prop in E. subst w'. cbn [fold_left].
    rewrite (fold_apply_end_commute r _ (w, p) Hni). rewrite apply_end_same by reflexivity. reflexivity.
  - cbn [fold_left]. apply IH. exact N'.
Qed.

Lemma add_end_update_fst ups w p : forall x, In x (map fst (add_end_update ups w p)) <-> x = w \/ In x (map fst ups).
Proof.
  induction ups as [|[w' p'] r IH]; intro x; cbn [add_end_update map fst In]; [intuition|].
  destruct (Bool.eqb w' w) eqn:E.
  - apply Bool.eqb_prop in E. subst. cbn [map fst In]. intuition.
  - cbn [map fst In]. rewrite IH. intuition.
Qed.

Lemma add_end_update_nodup ups w p : NoDup (map fst ups) -> NoDup (map fst (add_end_update ups w p)).
Proof.
  induction ups as [|[w' p'] r IH]; intro N; [cbn; constructor; [intros []|constructor]|].
  cbn [map fst] in N. inversion N as [|? ? Hni N']; subst. cbn [add_end_update].
  destruct (Bool.eqb w' w) eqn:E.
  - apply Bool.eqb_prop in E. subst. cbn [map fst]. constructor; assumption.
  - cbn [map fst]. constructor; [|apply IH; exact N'].
    rewrite add_end_update_fst. intros [->|H]; [|contradiction]. rewrite Bool.eqb_reflx in E. discriminate.
Qed.

(* update of the first binding of c *)
Fixpoint upd_first (c : Z) (f : cupd -> cupd) (m : list (Z * cupd)) : list (Z * cupd) :=
  match m with
  | [] => []
  | (c', u) :: r => if c' =? c then (c', f u) :: r else (c', u) :: upd_first c f r
  end.

Lemma cq_update_conn c w p q :
  cq (update_conn_action c w p q) = upd_first c (fun u => add_end_update u w p) (cq q).
Proof.
  induction q as [|a r IH]; [reflexivity|]. cbn [update_conn_action].
  destruct a as [i P|i|i|c' u].
  - rewrite (cq_cons (QMove i P) (update_conn_action c w p r)), (cq_cons (QMove i P) r). exact IH.
  - rewrite (cq_cons (QAdd i) (update_conn_action c w p r)), (cq_cons (QAdd i) r). exact IH.
  - rewrite (cq_cons (QRemove i) (update_conn_action c w p r)), (cq_cons (QRemove i) r). exact IH.
  - destruct (c' =? c) eqn:E.
    + rewrite (cq_cons (QConn c' (add_end_update u w p)) r), (cq_cons (QConn c' u) r).
      cbn [cq flat_map app upd_first]. rewrite E. reflexivity.
    + rewrite (cq_cons (QConn c' u) (update_conn_action c w p r)), (cq_cons (QConn c' u) r).
      cbn [cq flat_map app upd_first]. rewrite E. fold (cq (update_conn_action c w p r)). fold (cq r).
      rewrite IH. reflexivity.
Qed.

Lemma upd_first_fst c f m : map fst (upd_first c f m) = map fst m.
Proof. induction m as [|[c' u] r IH]; [reflexivity|]. cbn [upd_first]. destruct (c' =? c); cbn [map fst]; congruence. Qed.

Lemma upd_first_In c f m c' u' : In (c', u') (upd_first c f m) ->
  In (c', u') m \/ exists u, In (c, u) m /\ c' = c /\ u' = f u.
Proof.
  induction m as [|[c0 u0] r IH]; [intros []|]. cbn [upd_first]. destruct (c0 =? c) eqn:E.
  - apply Z.eqb_eq in E. subst. intros [H|H].
    + inversion H; subst. right. exists u0. split; [left; reflexivity|auto].
    + left. right. exact H.
  - intros [H|H]; [left; left; exact H|]. destruct (IH H) as [H'|(u & Hu & E1 & E2)]; [left; right; exact H'|].
    right. exists u. split; [right; exact Hu|auto].
Qed.

Lemma lookup_upd_first c f m k :
  lookup (upd_first c f m) k = if c =? k then option_map f (lookup m c) else lookup m k.
Proof.
  induction m as [|[c0 u0] r IH]; [cbn; destruct (c =? k); reflexivity|]. cbn [upd_first].
  destruct (c0 =? c) eqn:E.
  - apply Z.eqb_eq in E. subst. cbn [lookup]. rewrite Z.eqb_refl. destruct (c =? k); reflexivity.
  - cbn [lookup]. rewrite E, IH. destruct (c =? k) eqn:E2; [|reflexivity].
    apply Z.eqb_eq in E2. subst. rewrite E. reflexivity.
Qed.

(* ---------------------------------------------------------------- the ConnChange loop of processActions *)
Definition pc (cs : list (Z * ends)) (cu : Z * cupd) : list (Z * ends) :=
  match lookup cs (fst cu) with
  | Some e => set_key cs (fst cu) (fold_left apply_end (snd cu) e)
  | None => cs
  end.

Lemma pass_conn_cq q : forall cs, fold_left pass_conn q cs = fold_left pc (cq q) cs.
Proof.
  induction q as [|a r IH]; intro cs; [reflexivity|]. cbn [fold_left].
  rewrite (cq_cons a r), fold_left_app, <- IH.
  destruct a; reflexivity.
Qed.

Lemma pc_fold m : NoDup (map fst m) -> forall cs c,
  lookup (fold_left pc m cs) c =
  match lookup m c with
  | Some ups => option_map (fold_left apply_end ups) (lookup cs c)
  | None => lookup cs c
  end.
Proof.
  induction m as [|[c0 u0] r IH]; intros N cs c; [reflexivity|].
  cbn [map fst] in N. inversion N as [|? ? Hni N']; subst.
  cbn [fold_left lookup]. rewrite (IH N').
  destruct (c0 =? c) eqn:E.
  - apply Z.eqb_eq in E. subst. rewrite (lookup_notin r c Hni).
    unfold pc. cbn [fst snd]. destruct (lookup cs c) as [e|] eqn:L.
    + rewrite lookup_set_key, Z.eqb_refl. reflexivity.
    + rewrite L. reflexivity.
  - assert (Ec : lookup (pc cs (c0, u0)) c = lookup cs c).
    { unfold pc. cbn [fst snd]. destruct (lookup cs c0); [|reflexivity]. rewrite lookup_set_key, E. reflexivity. }
    rewrite Ec. reflexivity.
Qed.

Lemma process_actions_conns st :
  conns (process_actions st) = fold_left pass_conn (sort_actions (queue st)) (conns st) /\ queue (process_actions st) = [].
Proof.
  unfold process_actions. destruct (fold_left pass_remove _ _) as [o1 l1]. destruct (fold_left pass_add _ _) as [o2 l2].
  split; reflexivity.
Qed.

Lemma process_cview st : CInv st -> forall c, cview (process_actions st) c = cview st c.
Proof.
  intros I c. destruct (process_actions_conns st) as [Ec Eq]. unfold cview. rewrite Ec, Eq. cbn [cq flat_map lookup].
  rewrite pass_conn_cq.
  assert (P : Permutation (cq (sort_actions (queue st))) (cq (queue st))).
  { unfold cq. apply Permutation_flat_map. apply sort_actions_perm. }
  assert (N : NoDup (map fst (cq (sort_actions (queue st))))).
  { eapply Permutation_NoDup; [apply Permutation_map, Permutation_sym; exact P|apply I]. }
  rewrite (pc_fold _ N). rewrite (lookup_perm _ _ c N P).
  destruct (lookup (cq (queue st)) c) as [ups|]; destruct (lookup (conns st) c) as [e|]; reflexivity.
Qed.

Lemma CInv_empty st : queue st = [] -> CInv st.
Proof. intro Q. constructor; rewrite Q; cbn; [constructor|intros ? ? []|intros ? []]. Qed.

Lemma process_ok st cs : CInv st -> agrees_c st cs ->
  CInv (fst (process_transaction st)) /\ agrees_c (fst (process_transaction st)) cs.
Proof.
  intros I A. unfold process_transaction. destruct (queue st) eqn:Q; cbn [fst]; [auto|]. split.
  - apply CInv_empty. apply process_actions_conns.
  - intro c. rewrite process_cview by exact I. apply A.
Qed.

Lemma auto_ok st cs : CInv st /\ agrees_c st cs -> CInv (auto_process st) /\ agrees_c (auto_process st) cs.
Proof. intros [I A]. unfold auto_process. destruct (trans st); [auto|]. apply process_ok; assumption. Qed.

(* a state that differs only in the shape part *)
Lemma shape_change_ok st st1 cs : conns st1 = conns st -> cq (queue st1) = cq (queue st) ->
  CInv st -> agrees_c st cs -> CInv st1 /\ agrees_c st1 cs.
Proof.
  intros Ec Eq I A. split.
  - constructor; rewrite ?Eq, ?Ec; apply I.
  - intro c. unfold cview. rewrite Ec, Eq. apply A.
Qed.

Lemma do_move_to_conn st i P st' cs : CInv st -> agrees_c st cs -> do_move_to st i P = Some st' ->
  CInv st' /\ agrees_c st' cs.
Proof.
  intros I A. unfold do_move_to.
  destruct (negb (has_key (objs st) i) || queued (queue st) 2 i); [discriminate|].
  destruct (negb (same_size st i P)); [discriminate|].
  destruct (queued (queue st) 1 i).
  - intro H. inversion H; subst. apply (shape_change_ok st); try assumption; reflexivity.
  - destruct (queued (queue st) 0 i); intro H; inversion H; subst; apply auto_ok;
      apply (shape_change_ok st); try assumption; try reflexivity; cbn [queue set_queue].
    + apply cq_replace_move.
    + rewrite cq_app. apply app_nil_r.
Qed.

(* ---------------------------------------------------------------- one operation *)
Theorem step_refines_conn st o st' sc :
  CInv st -> agrees_c st (s_conns sc) -> step st o = Some st' ->
  CInv st' /\ agrees_c st' (s_conns (seq_step sc o)).
Proof.
  intros I A. destruct o as [j P|j dx dy|j P|j|c s d|c w p|]; cbn [step seq_step].
  - (* AddShape *)
    destruct (has_key (objs st) j || queued (queue st) 2 j || queued (queue st) 0 j); [discriminate|].
    intro H. inversion H; subst. cbn [s_conns]. apply auto_ok.
    apply (shape_change_ok st); try assumption; try reflexivity. cbn [queue set_queue set_objs].
    apply cq_push_nonconn. intros; discriminate.
  - (* MoveShape *)
    assert (Es : s_conns (match lookup (s_shapes sc) j with
                          | Some P => mkss (set_key (s_shapes sc) j (translate P dx dy)) (s_conns sc)
                          | None => sc end) = s_conns sc) by (destruct (lookup (s_shapes sc) j); reflexivity).
    rewrite Es.
    destruct (match queued_move_poly (queue st) j with Some P => Some P | None => lookup (objs st) j end);
      [|discriminate].
    intro H. eapply do_move_to_conn; eassumption.
  - (* MoveShapeTo *)
    intro H. cbn [s_conns]. eapply do_move_to_conn; eassumption.
  - (* DeleteShape *)
    destruct (negb (has_key (objs st) j) || queued (queue st) 1 j || queued (queue st) 2 j); [discriminate|].
    intro H. inversion H; subst. cbn [s_conns]. apply auto_ok.
    apply (shape_change_ok st); try assumption; try reflexivity. cbn [queue set_queue].
    rewrite cq_push_nonconn by (intros; discriminate). apply cq_erase_move.
  - (* AddConn *)
    destruct (has_key (conns st) c) eqn:Hc; [discriminate|].
    intro H. inversion H; subst. clear H. cbn [s_conns]. apply auto_ok.
    assert (Hni : ~ In c (map fst (cq (queue st)))).
    { intro Hin. rewrite (ci_has st I c Hin) in Hc. discriminate. }
    split.
    + constructor; cbn [queue conns set_queue set_conns]; rewrite cq_app; cbn [cq flat_map app].
      * rewrite map_app. apply NoDup_snoc; [apply I|exact Hni].
      * intros c' ups Hin. apply in_app_iff in Hin. destruct Hin as [Hin|[E|[]]]; [eapply (ci_ends st I); exact Hin|].
        inversion E; subst. cbn. repeat constructor; cbn; intuition discriminate.
      * intros c' Hin. rewrite map_app, in_app_iff in Hin. rewrite has_key_set.
        destruct Hin as [Hin|[<-|[]]]; [rewrite (ci_has st I c' Hin); apply orb_true_r|].
        cbn [fst]. rewrite Z.eqb_refl. reflexivity.
    + intro c'. unfold cview. cbn [queue conns set_queue set_conns]. rewrite cq_app, lookup_app. cbn [cq flat_map app].
      rewrite !lookup_set_key. destruct (c =? c') eqn:E.
      * apply Z.eqb_eq in E. subst c'. rewrite (lookup_notin _ _ Hni). cbn [lookup]. rewrite Z.eqb_refl. reflexivity.
      * specialize (A c'). unfold cview in A. rewrite <- A. cbn [lookup]. rewrite E.
        destruct (lookup (cq (queue st)) c'); reflexivity.
  - (* MoveEndpoint *)
    destruct (has_key (conns st) c) eqn:Hc; cbn [negb]; [|discriminate].
    apply has_key_lookup in Hc. destruct Hc as [e He].
    pose proof (A c) as Ac. unfold cview in Ac. rewrite He in Ac. rewrite <- Ac. cbn [s_conns s_shapes].
    destruct (queued (queue st) 6 c) eqn:Q; intro H; inversion H; subst; clear H; apply auto_ok.
    + (* consolidate into the queued action *)
      apply queued6_cq in Q.
      destruct (lookup (cq (queue st)) c) as [ups|] eqn:L.
      2:{ exfalso. destruct (In_map_fst_ex _ _ Q) as (u & Hu).
          rewrite (lookup_In_nodup _ _ _ (ci_nodup st I) Hu) in L. discriminate. }
      pose proof (ci_ends st I c ups (lookup_Some_In _ _ _ L)) as Nu.
      split.
      * constructor; cbn [queue conns set_queue]; rewrite cq_update_conn.
        -- rewrite upd_first_fst. apply I.
        -- intros c' u' Hin. destruct (upd_first_In _ _ _ _ _ Hin) as [Hin'|(u & Hu & -> & ->)].
           ++ eapply (ci_ends st I); exact Hin'.
           ++ apply add_end_update_nodup. eapply (ci_ends st I); exact Hu.
        -- intros c' Hin. rewrite upd_first_fst in Hin. apply (ci_has st I). exact Hin.
      * intro c'. unfold cview. cbn [queue conns set_queue]. rewrite cq_update_conn, lookup_upd_first.
        rewrite lookup_set_key. destruct (c =? c') eqn:E.
        -- apply Z.eqb_eq in E. subst c'. rewrite He, L. cbn [option_map].
           rewrite (fold_add_end_update ups w p Nu). reflexivity.
        -- apply A.
    + (* a new ConnChange action *)
      assert (Hni : ~ In c (map fst (cq (queue st)))).
      { intro Hin. apply queued6_cq in Hin. congruence. }
      split.
      * constructor; cbn [queue conns set_queue]; rewrite cq_app; cbn [cq flat_map app].
        -- rewrite map_app. apply NoDup_snoc; [apply I|exact Hni].
        -- intros c' ups Hin. apply in_app_iff in Hin. destruct Hin as [Hin|[E|[]]]; [eapply (ci_ends st I); exact Hin|].
           inversion E; subst. cbn. repeat constructor. intros [].
        -- intros c' Hin. rewrite map_app, in_app_iff in Hin.
           destruct Hin as [Hin|[<-|[]]]; [apply (ci_has st I c' Hin)|].
           cbn [fst]. apply has_key_lookup. eexists; exact He.
      * intro c'. unfold cview. cbn [queue conns set_queue]. rewrite cq_app, lookup_app. cbn [cq flat_map app].
        rewrite lookup_set_key. destruct (c =? c') eqn:E.
        -- apply Z.eqb_eq in E. subst c'. rewrite He, (lookup_notin _ _ Hni). cbn [lookup]. rewrite Z.eqb_refl.
           reflexivity.
        -- specialize (A c'). unfold cview in A. rewrite <- A. cbn [lookup]. rewrite E.
           destruct (lookup (conns st) c'); [|reflexivity]. destruct (lookup (cq (queue st)) c'); reflexivity.
  - (* Process *)
    intro H. inversion H; subst. apply process_ok; assumption.
Qed.

(* ---------------------------------------------------------------- histories *)
Lemma CInv_init t : CInv (init t).
Proof. apply CInv_empty. reflexivity. Qed.

Lemma run_refines_conn h : forall st sc st',
  CInv st -> agrees_c st (s_conns sc) -> run st h = Some st' ->
  CInv st' /\ agrees_c st' (s_conns (fold_left seq_step h sc)).
Proof.
  induction h as [|o r IH]; intros st sc st' I A H; cbn [run fold_left] in *.
  - inversion H; subst. auto.
  - destruct (step st o) as [st1|] eqn:S; [|discriminate].
    destruct (step_refines_conn st o st1 sc I A S) as [I1 A1]. eapply IH; eassumption.
Qed.

Theorem conns_refine_sequential t h st :
  run (init t) h = Some st -> queue st = [] ->
  forall c, lookup (conns st) c = lookup (s_conns (seq_run h)) c.
Proof.
  intros H Q c.
  destruct (run_refines_conn h (init t) (mkss [] []) st (CInv_init t)) as [_ A]; [intro j; reflexivity|exact H|].
  unfold seq_run. rewrite <- (A c). unfold cview. rewrite Q. cbn [cq flat_map lookup].
  destruct (lookup (conns st) c); reflexivity.
Qed.

(* C06: the whole scene after the final Process - shapes AND connector ends - is the one obtained by applying the edits
   one at a time, for every history the model accepts (every asserted precondition respected) *)
Theorem queue_refines_sequential_full t h st :
  run (init t) (h ++ [Process]) = Some st ->
  (forall i, lookup (scene st) i = lookup (s_shapes (seq_run h)) i) /\
  (forall c, lookup (conns st) c = lookup (s_conns (seq_run h)) c).
Proof.
  intro H. split; [exact (queue_refines_sequential_after_process t h st H)|].
  intro c. assert (Q : queue st = []).
  { rewrite run_app in H. destruct (run (init t) h) as [s1|]; [|discriminate]. cbn [run] in H.
    destruct (step s1 Process) as [s2|] eqn:S; [|discriminate]. inversion H; subst. eapply process_empties; eassumption. }
  rewrite (conns_refine_sequential t (h ++ [Process]) st H Q c).
  unfold seq_run. rewrite fold_left_app. reflexivity.
Qed.

(* ---------------------------------------------------------------- pin-move updates (isConnPinMoveUpdate = true) *)
(* ActionInfo::addConnEndUpdate with the flag as a parameter *)
Fixpoint add_end_update_gen (pin : bool) (ups : cupd) (w : bool) (p : pt) : cupd :=
  match ups with
  | [] => [(w, p)]
  | (w', p') :: r => if Bool.eqb w' w then (if pin then (w', p') :: r else (w, p) :: r)
                     else (w', p') :: add_end_update_gen pin r w p
  end.

Lemma add_end_update_gen_user ups w p : add_end_update_gen false ups w p = add_end_update ups w p.
Proof. induction ups as [|[w' p'] r IH]; [reflexivity|]. cbn. rewrite IH. reflexivity. Qed.

Definition end_queued (ups : cupd) (w : bool) : bool := existsb (fun u => Bool.eqb (fst u) w) ups.

(* a pin-move update never overwrites a queued update of the same end; otherwise it is applied last *)
Theorem pin_move_no_overwrite ups w p : forall e,
  fold_left apply_end (add_end_update_gen true ups w p) e =
  if end_queued ups w then fold_left apply_end ups e else apply_end (fold_left apply_end ups e) (w, p).
Proof.
  induction ups as [|[w' p'] r IH]; intro e; [reflexivity|]. cbn [add_end_update_gen end_queued existsb fst].
  destruct (Bool.eqb w' w) eqn:E; cbn [orb]; [reflexivity|]. cbn [fold_left]. apply IH.
Qed.
Lemma pin_move_list_unchanged ups w p : end_queued ups w = true -> add_end_update_gen true ups w p = ups.
Proof.
  induction ups as [|[w' p'] r IH]; [discriminate|]. cbn [add_end_update_gen end_queued existsb fst].
  destruct (Bool.eqb w' w); cbn [orb]; [reflexivity|]. intro H. f_equal. apply IH. exact H.
Qed.

Lemma add_end_update_gen_fst pin ups w p x :
  In x (map fst (add_end_update_gen pin ups w p)) -> x = w \/ In x (map fst ups).
Proof.
  induction ups as [|[w' p'] r IH]; cbn [add_end_update_gen map fst In]; [intuition|].
  destruct (Bool.eqb w' w) eqn:E.
  - apply Bool.eqb_prop in E. subst. destruct pin; cbn [map fst In]; intuition.
  - cbn [map fst In]. intuition.
Qed.

Lemma add_end_update_gen_nodup pin ups w p : NoDup (map fst ups) -> NoDup (map fst (add_end_update_gen pin ups w p)).
Proof.
  induction ups as [|[w' p'] r IH]; intro N; [cbn; constructor; [intros []|constructor]|].
  cbn [map fst] in N. inversion N as [|? ? Hni N']; subst. cbn [add_end_update_gen].
  destruct (Bool.eqb w' w) eqn:E.
  - apply Bool.eqb_prop in E. subst. destruct pin; cbn [map fst]; constructor; assumption.
  - cbn [map fst]. constructor; [|apply IH; exact N'].
    intro Hin. apply add_end_update_gen_fst in Hin. destruct Hin as [->|Hin]; [|contradiction].
    rewrite Bool.eqb_reflx in E. discriminate.
Qed.

Fixpoint update_conn_action_gen (pin : bool) (c : Z) (w : bool) (p : pt) (q : list action) : list action :=
  match q with
  | [] => []
  | a :: r => match a with
              | QConn c' ups => if c' =? c then QConn c' (add_end_update_gen pin ups w p) :: r
                                else a :: update_conn_action_gen pin c w p r
              | _ => a :: update_conn_action_gen pin c w p r
              end
  end.
(* Router::modifyConnector(conn, type, connEnd, connPinMoveUpdate) *)
Definition modify_connector (pin : bool) (st : state) (c : Z) (w : bool) (p : pt) : option state :=
  if negb (has_key (conns st) c) then None
  else if queued (queue st) 6 c then Some (auto_process (set_queue st (update_conn_action_gen pin c w p (queue st))))
  else Some (auto_process (set_queue st (queue st ++ [QConn c [(w, p)]]))).

Lemma update_conn_action_gen_user c w p q : update_conn_action_gen false c w p q = update_conn_action c w p q.
Proof.
  induction q as [|a r IH]; [reflexivity|]. cbn. destruct a; rewrite ?IH; try reflexivity.
  rewrite add_end_update_gen_user. reflexivity.
Qed.
Theorem modify_connector_user st c w p : modify_connector false st c w p = step st (MoveEndpoint c w p).
Proof. unfold modify_connector. cbn [step]. rewrite update_conn_action_gen_user. reflexivity. Qed.

Lemma cq_update_conn_gen pin c w p q :
  cq (update_conn_action_gen pin c w p q) = upd_first c (fun u => add_end_update_gen pin u w p) (cq q).
Proof.
  induction q as [|a r IH]; [reflexivity|]. cbn [update_conn_action_gen].
  destruct a as [i P|i|i|c' u].
  - rewrite (cq_cons (QMove i P) (update_conn_action_gen pin c w p r)), (cq_cons (QMove i P) r). exact IH.
  - rewrite (cq_cons (QAdd i) (update_conn_action_gen pin c w p r)), (cq_cons (QAdd i) r). exact IH.
  - rewrite (cq_cons (QRemove i) (update_conn_action_gen pin c w p r)), (cq_cons (QRemove i) r). exact IH.
  - destruct (c' =? c) eqn:E.
    + rewrite (cq_cons (QConn c' (add_end_update_gen pin u w p)) r), (cq_cons (QConn c' u) r).
      cbn [cq flat_map app upd_first]. rewrite E. reflexivity.
    + rewrite (cq_cons (QConn c' u) (update_conn_action_gen pin c w p r)), (cq_cons (QConn c' u) r).
      cbn [cq flat_map app upd_first]. rewrite E. fold (cq (update_conn_action_gen pin c w p r)). fold (cq r).
      rewrite IH. reflexivity.
Qed.

(* the pending ends of every connector after a pin-move update: connector c keeps its pending ends when a user update of
   end w is already queued in this transaction, gets end w := p otherwise; all other connectors are untouched *)
Theorem pin_move_refines st c w p st' :
  CInv st -> modify_connector true st c w p = Some st' ->
  CInv st' /\
  forall c', cview st' c' =
    if c =? c'
    then (if match lookup (cq (queue st)) c with Some ups => end_queued ups w | None => false end
          then cview st c
          else option_map (fun e => apply_end e (w, p)) (cview st c))
    else cview st c'.
Proof.
  intros I. unfold modify_connector.
  destruct (has_key (conns st) c) eqn:Hc; cbn [negb]; [|discriminate].
  apply has_key_lookup in Hc. destruct Hc as [e He].
  set (target := fun st1 : state => forall c', cview st1 c' =
    if c =? c'
    then (if match lookup (cq (queue st)) c with Some ups => end_queued ups w | None => false end
          then cview st c else option_map (fun e => apply_end e (w, p)) (cview st c))
    else cview st c').
  assert (AUTO : forall st1, CInv st1 -> target st1 -> CInv (auto_process st1) /\ target (auto_process st1)).
  { intros st1 I1 T1. unfold auto_process, process_transaction. destruct (trans st1); [auto|].
    destruct (queue st1) eqn:Q; cbn [fst]; [auto|]. split.
    - apply CInv_empty. apply process_actions_conns.
    - intro c'. rewrite process_cview by exact I1. apply T1. }
  destruct (queued (queue st) 6 c) eqn:Q; intro H; inversion H; subst; clear H; apply AUTO.
  - apply queued6_cq in Q.
    constructor; cbn [queue conns set_queue]; rewrite cq_update_conn_gen.
    + rewrite upd_first_fst. apply I.
    + intros c' u' Hin. destruct (upd_first_In _ _ _ _ _ Hin) as [Hin'|(u & Hu & -> & ->)].
      * eapply (ci_ends st I); exact Hin'.
      * apply add_end_update_gen_nodup. eapply (ci_ends st I); exact Hu.
    + intros c' Hin. rewrite upd_first_fst in Hin. apply (ci_has st I). exact Hin.
  - intro c'. unfold cview. cbn [queue conns set_queue]. rewrite cq_update_conn_gen, lookup_upd_first.
    destruct (c =? c') eqn:E; [|reflexivity]. apply Z.eqb_eq in E. subst c'. rewrite He.
    destruct (lookup (cq (queue st)) c) as [ups|] eqn:L.
    + cbn [option_map]. rewrite pin_move_no_overwrite. destruct (end_queued ups w); reflexivity.
    + exfalso. apply queued6_cq in Q. destruct (In_map_fst_ex _ _ Q) as (u & Hu).
      rewrite (lookup_In_nodup _ _ _ (ci_nodup st I) Hu) in L. discriminate.
  - assert (Hni : ~ In c (map fst (cq (queue st)))) by (intro Hin; apply queued6_cq in Hin; congruence).
    constructor; cbn [queue conns set_queue]; rewrite cq_app; cbn [cq flat_map app].
    + rewrite map_app. apply NoDup_snoc; [apply I|exact Hni].
    + intros c' ups Hin. apply in_app_iff in Hin. destruct Hin as [Hin|[E|[]]]; [eapply (ci_ends st I); exact Hin|].
      inversion E; subst. cbn. repeat constructor. intros [].
    + intros c' Hin. rewrite map_app, in_app_iff in Hin.
      destruct Hin as [Hin|[<-|[]]]; [apply (ci_has st I c' Hin)|].
      cbn [fst]. apply has_key_lookup. eexists; exact He.
  - assert (Hni : ~ In c (map fst (cq (queue st)))) by (intro Hin; apply queued6_cq in Hin; congruence).
    intro c'. unfold cview. cbn [queue conns set_queue]. rewrite cq_app, lookup_app. cbn [cq flat_map app].
    destruct (c =? c') eqn:E.
    + apply Z.eqb_eq in E. subst c'. rewrite He, (lookup_notin _ _ Hni). cbn [lookup]. rewrite Z.eqb_refl. reflexivity.
    + cbn [lookup]. rewrite E. destruct (lookup (conns st) c'); [|reflexivity].
      destruct (lookup (cq (queue st)) c'); reflexivity.
Qed.

(* ---------------------------------------------------------------- non-vacuity *)
Definition exq_hist : list op :=
  [AddConn 7 (mkpt 0 0) (mkpt 9 9); Process;
   MoveEndpoint 7 true (mkpt 5 5); MoveEndpoint 7 false (mkpt 1 1); MoveEndpoint 7 true (mkpt 6 6)].
(* three endpoint updates of one transaction are consolidated into one action with two entries ... *)
Example exq_consolidated :
  option_map (fun st => cq (queue st)) (run (init true) exq_hist) =
  Some [(7, [(true, mkpt 6 6); (false, mkpt 1 1)])].
Proof. vm_compute. reflexivity. Qed.
(* ... and after Process the ends are those of the sequential application *)
Example exq_full :
  option_map (fun st => lookup (conns st) 7) (run (init true) (exq_hist ++ [Process])) =
  Some (lookup (s_conns (seq_run exq_hist)) 7) /\
  lookup (s_conns (seq_run exq_hist)) 7 = Some (Some (mkpt 1 1), Some (mkpt 6 6)).
Proof. split; vm_compute; reflexivity. Qed.
(* a pin-move update of the destination end arriving after the user update (6,6) is dropped; one of an end with no
   queued user update is applied *)
Example exq_pin :
  add_end_update_gen true [(true, mkpt 6 6)] true (mkpt 8 8) = [(true, mkpt 6 6)] /\
  add_end_update_gen true [(true, mkpt 6 6)] false (mkpt 8 8) = [(true, mkpt 6 6); (false, mkpt 8 8)] /\
  add_end_update_gen false [(true, mkpt 6 6)] true (mkpt 8 8) = [(true, mkpt 8 8)].
Proof. repeat split; reflexivity. Qed.
