(* Membership of route segments in the nudging regions (property C10, DESIGN 5.10 / 9.13; seeded change C10-6).
   - route_members_complete: EVERY positive-length segment of a display route that is constant in the shift dimension is
     an expected member of the pass (with its indexes ordered by the other coordinate, its position and its extent);
     nothing depends on the connector: a connector with a user-specified fixed route contributes like any other;
   - members_in_groups: if the dumped segment list of a pass covers the expected members (members_covered, decided on
     every run from hook H1b's AROUTE / ASEG records) then every expected member lies in exactly the region collection
     seg_groups forms, i.e. in some region (seg_groups_perm); that region is either dumped (REGION record, compared by
     the driver: grp=) or a skipped singleton (group_skipped);
   - members_only_sound: conversely every dumped segment is an expected member. *)
From Coq Require Import QArith List Bool Arith ZArith Lia Lra Permutation.
From Adapt Require Import Num.Qaux Avoid.NudgeModel Avoid.NudgeRelModel Avoid.NudgeRel.
Import ListNotations.
Local Open Scope Q_scope.

Lemma nat_list_eqb_spec a b : nat_list_eqb a b = true -> a = b.
Proof.
  unfold nat_list_eqb. revert b. induction a as [|x a IH]; intros [|y b] H; cbn in H; try discriminate; [reflexivity|].
  apply andb_true_iff in H. destruct H as [HL H]. apply andb_true_iff in H. destruct H as [Hxy H].
  apply Nat.eqb_eq in Hxy. subst y. f_equal. apply IH. rewrite HL, H. reflexivity.
Qed.

Definition is_member_of (dim : bool) (k : nat) (a b : pt) (m : member) : Prop :=
  m_pos m == coord dim a /\ m_lo m < m_hi m /\
  ((m_lowi m = k /\ m_highi m = S k /\ m_lo m = coord (negb dim) a /\ m_hi m = coord (negb dim) b) \/
   (m_lowi m = S k /\ m_highi m = k /\ m_lo m = coord (negb dim) b /\ m_hi m = coord (negb dim) a)).

Lemma route_members_from_complete dim : forall l k0 k a b,
  nth_error l k = Some a -> nth_error l (S k) = Some b ->
  coord dim a == coord dim b -> ~ coord (negb dim) a == coord (negb dim) b ->
  exists m, In m (route_members_from dim k0 l) /\ is_member_of dim (k0 + k) a b m.
Proof.
  induction l as [|p t IH]; intros k0 k a b Ha Hb Heq Hne; [destruct k; discriminate|].
  destruct k as [|k].
  - cbn in Ha. inversion Ha; subst p. destruct t as [|q t']; [discriminate|]. cbn in Hb. inversion Hb; subst q.
    cbn [route_members_from].
    destruct (Qeqb (coord dim a) (coord dim b)) eqn:E1; [|apply Qeqb_false in E1; contradiction].
    destruct (Qeqb (coord (negb dim) a) (coord (negb dim) b)) eqn:E2; [apply Qeqb_spec in E2; contradiction|].
    apply Qeqb_false in E2. rewrite Nat.add_0_r.
    destruct (Qltb (coord (negb dim) b) (coord (negb dim) a)) eqn:E3.
    + apply Qltb_spec in E3. eexists. split; [left; reflexivity|]. unfold is_member_of. cbn.
      split; [symmetry; exact Heq|]. split; [exact E3|]. right. auto.
    + apply Qltb_false in E3. eexists. split; [left; reflexivity|]. unfold is_member_of. cbn.
      split; [reflexivity|]. split; [|left; auto].
      destruct (Qlt_le_dec (coord (negb dim) a) (coord (negb dim) b)) as [L|L]; [exact L|].
      exfalso. apply E2. apply Qle_antisym; assumption.
  - cbn in Ha. destruct t as [|q t']; [destruct k; discriminate|].
    destruct (IH (S k0) k a b Ha Hb Heq Hne) as [m [Hin Hm]].
    exists m. split.
    + cbn [route_members_from].
      destruct (Qeqb (coord dim p) (coord dim q)); [|exact Hin].
      destruct (Qeqb (coord (negb dim) p) (coord (negb dim) q)); [exact Hin|].
      destruct (Qltb (coord (negb dim) q) (coord (negb dim) p)); right; exact Hin.
    + replace (k0 + S k)%nat with (S k0 + k)%nat by lia. exact Hm.
Qed.

(* every positive-length route segment lying in the shift dimension is an expected member of the pass *)
Theorem route_members_complete dim l k a b :
  nth_error l k = Some a -> nth_error l (S k) = Some b ->
  coord dim a == coord dim b -> ~ coord (negb dim) a == coord (negb dim) b ->
  exists m, In m (route_members dim l) /\ is_member_of dim k a b m.
Proof. intros. apply (route_members_from_complete dim l 0 k a b); assumption. Qed.

Theorem pass_members_complete dim routes c l k a b :
  In (c, l) routes ->
  nth_error l k = Some a -> nth_error l (S k) = Some b ->
  coord dim a == coord dim b -> ~ coord (negb dim) a == coord (negb dim) b ->
  exists m, In (c, m) (pass_members dim routes) /\ is_member_of dim k a b m.
Proof.
  intros Hin Ha Hb Heq Hne. destruct (route_members_complete dim l k a b Ha Hb Heq Hne) as [m [Hm Hs]].
  exists m. split; [|exact Hs]. unfold pass_members. apply in_flat_map. exists (c, l). split; [exact Hin|].
  cbn. apply in_map_iff. exists m. auto.
Qed.

Lemma combine_seq_nth_error {A} (l : list A) : forall k0 i s,
  nth_error l i = Some s -> nth_error (combine (seq k0 (length l)) l) i = Some ((k0 + i)%nat, s).
Proof.
  induction l as [|h t IH]; intros k0 i s H; [destruct i; discriminate|].
  destruct i as [|i]; cbn in *.
  - inversion H; subst. rewrite Nat.add_0_r. reflexivity.
  - rewrite (IH (S k0) i s H). f_equal. f_equal. lia.
Qed.
Lemma indexed_nth_error' {A} (l : list A) i s : nth_error l i = Some s -> nth_error (indexed l) i = Some (i, s).
Proof. intros H. unfold indexed. rewrite (combine_seq_nth_error l 0 i s H). reflexivity. Qed.

(* what mem_matches means *)
Lemma mem_matches_spec c m x :
  mem_matches c m x = true ->
  sconn (fst x) = c /\ snd x = [m_lowi m; m_highi m] /\ spos (fst x) == m_pos m /\ slo (fst x) == m_lo m /\ shi (fst x) == m_hi m.
Proof.
  unfold mem_matches. rewrite !andb_true_iff, !Qeqb_spec. intros [[[[A B] C] D] E].
  apply Z.eqb_eq in A. apply nat_list_eqb_spec in B. auto.
Qed.

(* members_covered + the (proved total, permutation) region collection: every expected member is in some region *)
Theorem members_in_groups nc fspp dim routes segs gs :
  members_covered dim routes segs = true ->
  seg_groups nc fspp (indexed (map fst segs)) = Some gs ->
  forall c m, In (c, m) (pass_members dim routes) ->
  exists g i x, In g gs /\ In (i, fst x) g /\ nth_error segs i = Some x /\ mem_matches c m x = true.
Proof.
  intros Hcov Hgs c m Hin. unfold members_covered in Hcov. rewrite forallb_forall in Hcov.
  specialize (Hcov (c, m) Hin). cbn in Hcov. apply existsb_exists in Hcov. destruct Hcov as [x [Hx Hm]].
  apply In_nth_error in Hx. destruct Hx as [i Hi].
  assert (Hl : In (i, fst x) (indexed (map fst segs))).
  { eapply nth_error_In. apply indexed_nth_error'. rewrite nth_error_map, Hi. reflexivity. }
  pose proof (seg_groups_perm nc fspp _ _ Hgs) as P.
  apply (Permutation_in _ P) in Hl. apply in_concat in Hl. destruct Hl as [g [Hg Hig]].
  exists g, i, x. auto.
Qed.

(* and it is in no second region: the collection is a permutation of the duplicate-free indexed list *)
Lemma indexed_NoDup {A} (l : list A) : NoDup (indexed l).
Proof.
  unfold indexed. generalize 0%nat as k0. induction l as [|h t IH]; intros k0; cbn; [constructor|].
  constructor; [|apply IH]. intros Hin. apply in_combine_l in Hin. apply in_seq in Hin. lia.
Qed.

Theorem groups_disjoint nc fspp {l : list seg} gs :
  seg_groups nc fspp (indexed l) = Some gs -> NoDup (concat gs).
Proof.
  intros H. eapply Permutation_NoDup; [apply (seg_groups_perm _ _ _ _ H) | apply indexed_NoDup].
Qed.

Theorem members_only_sound dim routes segs :
  members_only dim routes segs = true ->
  forall x, In x segs -> exists c m, In (c, m) (pass_members dim routes) /\ mem_matches c m x = true.
Proof.
  unfold members_only. rewrite forallb_forall. intros H x Hx. specialize (H x Hx).
  apply existsb_exists in H. destruct H as [[c m] [Hin Hm]]. exists c, m. auto.
Qed.

(* ---- non-vacuity: the fixed route of the demo of seeded change C10-6, (100,0) (100,150) (130,150) (130,300):
   the x pass expects its two vertical segments, the y pass its middle segment; a segment list without the fixed
   connector's segments (what the seeded change produces) is rejected by members_covered *)
Definition exm_route : list pt := [mkpt 100 0; mkpt 100 150; mkpt 130 150; mkpt 130 300].
Example route_members_x : route_members false exm_route = [mkmem 0 1 100 0 150; mkmem 2 3 130 150 300].
Proof. vm_compute. reflexivity. Qed.
Example route_members_y : route_members true exm_route = [mkmem 1 2 150 100 130].
Proof. vm_compute. reflexivity. Qed.
Example route_members_descending :
  route_members false [mkpt 5 40; mkpt 5 10; mkpt 5 10; mkpt 9 10] = [mkmem 1 0 5 10 40].
Proof. vm_compute. reflexivity. Qed.
Definition exm_fixed (p lo hi : Q) : seg := mkseg 30 p true false false false false false p p lo hi false false [].
Definition exm_a : seg := mkseg 10 100 false false false false false true 40 160 20 80 false true [].
Definition exm_a_route : list pt := [mkpt 40 20; mkpt 100 20; mkpt 100 80; mkpt 160 80].
Example members_covered_demo :
  members_covered false [(30%Z, exm_route); (10%Z, exm_a_route)]
    [(exm_fixed 100 0 150, [0; 1]%nat); (exm_fixed 130 150 300, [2; 3]%nat); (exm_a, [1; 2]%nat)] = true /\
  members_only false [(30%Z, exm_route); (10%Z, exm_a_route)]
    [(exm_fixed 100 0 150, [0; 1]%nat); (exm_fixed 130 150 300, [2; 3]%nat); (exm_a, [1; 2]%nat)] = true.
Proof. vm_compute. split; reflexivity. Qed.
Example members_covered_rejects_skipped_fixed_route :
  members_covered false [(30%Z, exm_route); (10%Z, exm_a_route)] [(exm_a, [1; 2]%nat)] = false.
Proof. vm_compute. reflexivity. Qed.
Example members_in_groups_ex :
  exists gs, seg_groups false 0 (indexed [exm_fixed 100 0 150; exm_fixed 130 150 300; exm_a]) = Some gs /\
             gs = [[(0%nat, exm_fixed 100 0 150); (2%nat, exm_a)]; [(1%nat, exm_fixed 130 150 300)]].
Proof. eexists. split; vm_compute; reflexivity. Qed.
