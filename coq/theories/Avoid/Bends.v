(* C05 - theorems about the GENERATED bend estimator (Gen/Bends.v, regenerated from
   /repo/cola/libavoid/makepath.cpp by tools/cpp2v.py on every run).  All statements are for every rational
   position; directions are the four single-direction masks. *)
From Adapt Require Import Num.Qaux Avoid.BendsSpec Gen.Geometry Gen.Bends.
Local Open Scope Q_scope.

(* ------------------------------------------------------------------ the small helpers *)
Lemma codes : CostDirectionN = dir_code DN /\ CostDirectionE = dir_code DE /\
              CostDirectionS = dir_code DS /\ CostDirectionW = dir_code DW.
Proof. repeat split; reflexivity. Qed.
Theorem dirRight_spec d : dirRight (dir_code d) = dir_code (dright d).
Proof. destruct d; reflexivity. Qed.
Theorem dirLeft_spec d : dirLeft (dir_code d) = dir_code (dleft d).
Proof. destruct d; reflexivity. Qed.
Theorem dirReverse_spec d : dirReverse (dir_code d) = dir_code (drev d).
Proof. destruct d; reflexivity. Qed.
Theorem dir_asserts_unreachable d :
  dirRight_asserts_ok (dir_code d) = true /\ dirLeft_asserts_ok (dir_code d) = true /\
  dirReverse_asserts_ok (dir_code d) = true.
Proof. destruct d; repeat split; reflexivity. Qed.

(* orthogonalDirection as a function of the two signs *)
Definition od_s (sx sy : sg) : Z :=
  (match sy with Pos => 4 | Neg => 1 | Zer => 0 end + match sx with Pos => 2 | Neg => 8 | Zer => 0 end)%Z.
Lemma orthogonalDirection_sgn a b :
  orthogonalDirection a b = od_s (sgn (px b - px a)) (sgn (py b - py a)).
Proof.
  unfold orthogonalDirection.
  destruct (sgn_cases (px b - px a)) as [[X HX]|[[X HX]|[X HX]]];
  destruct (sgn_cases (py b - py a)) as [[Y HY]|[[Y HY]|[Y HY]]];
  rewrite HX, HY;
  destruct (Qgtb (py b) (py a)) eqn:E1; destruct (Qltb (py b) (py a)) eqn:E2;
  destruct (Qgtb (px b) (px a)) eqn:E3; destruct (Qltb (px b) (px a)) eqn:E4;
  qb2p; try (exfalso; lra); reflexivity.
Qed.
Theorem orthogonalDirection_spec a b :
  let r := orthogonalDirection a b in
  (Z.land r CostDirectionE <> 0%Z <-> px a < px b) /\ (Z.land r CostDirectionW <> 0%Z <-> px b < px a) /\
  (Z.land r CostDirectionS <> 0%Z <-> py a < py b) /\ (Z.land r CostDirectionN <> 0%Z <-> py b < py a).
Proof.
  cbv zeta. rewrite orthogonalDirection_sgn.
  destruct (sgn_cases (px b - px a)) as [[X HX]|[[X HX]|[X HX]]];
  destruct (sgn_cases (py b - py a)) as [[Y HY]|[[Y HY]|[Y HY]]];
  rewrite HX, HY; cbn; repeat split; intros; try lra; try discriminate; try congruence.
Qed.
Theorem orthogonalDirectionsCount_single d : orthogonalDirectionsCount (dir_code d) = 1%Z.
Proof. destruct d; reflexivity. Qed.

(* ------------------------------------------------------------------ bends = the closed form *)
Theorem bends_eq_spec curr cd dest dd :
  ~ pt_eq curr dest ->
  bends curr (dir_code cd) dest (dir_code dd) = min_bends_spec curr cd dest dd.
Proof.
  intro Hne. unfold bends, min_bends_spec. rewrite orthogonalDirection_sgn.
  destruct (sgn_cases (px dest - px curr)) as [[X HX]|[[X HX]|[X HX]]];
  destruct (sgn_cases (py dest - py curr)) as [[Y HY]|[[Y HY]|[Y HY]]];
  try (exfalso; apply Hne; split; lra);
  rewrite HX, HY; destruct cd, dd; reflexivity.
Qed.

(* the final COLA_ASSERT(false) of bends() (and COLA_ASSERT(currDir != 0)) cannot fail *)
Theorem bends_total curr cd dest dd :
  ~ pt_eq curr dest ->
  bends_asserts_ok curr (dir_code cd) dest (dir_code dd) = true.
Proof.
  intro Hne. unfold bends_asserts_ok. rewrite orthogonalDirection_sgn.
  destruct (sgn_cases (px dest - px curr)) as [[X HX]|[[X HX]|[X HX]]];
  destruct (sgn_cases (py dest - py curr)) as [[Y HY]|[[Y HY]|[Y HY]]];
  try (exfalso; apply Hne; split; lra);
  rewrite HX, HY; destruct cd, dd; reflexivity.
Qed.
(* ... and the assertion IS reachable outside that domain: curr = dest with opposed directions hits no case?
   No: at curr = dest the chain still returns (2, 2 or 3), the assertion is not reached; what fails there is
   the value (see bends_at_dest_not_minimal below), which is why the theorems exclude curr = dest, as
   estimatedCostSpecific does (`else if (dist > 0)`). *)
Example bends_at_dest_not_minimal :
  bends (mkpt 0 0) (dir_code DE) (mkpt 0 0) (dir_code DE) = 2%Z /\
  nb DE [] DE = 0%Z /\ ok DE [] DE.
Proof. repeat split; try reflexivity. discriminate. Qed.

(* ------------------------------------------------------------------ the property's last sentence *)
(* every path of the class (even of the weak class) from the state (curr, currDir) that arrives at dest to
   continue in destDir has at least bends(curr, currDir, dest, destDir) bends.  Obstacles only remove paths,
   so the bound holds in every scene. *)
Theorem bends_lower_bound curr cd dest dd w :
  ~ pt_eq curr dest ->
  ok cd w dd -> pt_eq (path_end curr w) dest ->
  (bends curr (dir_code cd) dest (dir_code dd) <= nb cd w dd)%Z.
Proof.
  intros Hne Hok Hend. rewrite bends_eq_spec by exact Hne.
  apply min_bends_lower_bound; assumption.
Qed.

Corollary bends_lower_bound_orth curr cd dest dd w :
  ~ pt_eq curr dest ->
  orth_path cd w dd -> pt_eq (path_end curr w) dest ->
  (bends curr (dir_code cd) dest (dir_code dd) <= nb cd w dd)%Z.
Proof. intros Hne [Hok _] Hend. apply bends_lower_bound; assumption. Qed.

(* the estimate is not vacuously small: a path of the (strict) class attains it *)
Theorem bends_exact_free_plane curr cd dest dd :
  ~ pt_eq curr dest ->
  exists w, orth_path cd w dd /\ pt_eq (path_end curr w) dest /\
            nb cd w dd = bends curr (dir_code cd) dest (dir_code dd).
Proof.
  intro Hne. exists (witness curr cd dest dd).
  rewrite bends_eq_spec by exact Hne. apply min_bends_attained. exact Hne.
Qed.

Example bends_lower_bound_nonvacuous :
  let w := [(DN, 1); (DW, 2); (DS, 1)] in
  ok DE w DE /\ pt_eq (path_end (mkpt 2 0) w) (mkpt 0 0) /\
  bends (mkpt 2 0) (dir_code DE) (mkpt 0 0) (dir_code DE) = 4%Z /\ nb DE w DE = 4%Z.
Proof. cbn. repeat split; try lra; try discriminate; reflexivity. Qed.

(* ------------------------------------------------------------------ estimatedCostSpecific, orthogonal branch *)
(* hand model of makepath.cpp:795-853 (the arithmetic only; `last` = None is the initial point).  It calls the
   generated orthogonalDirection / orthogonalDirectionsCount / bends / manhattanDist. *)
Definition est_bendcount (last : option pt) (curr tar : pt) (tarDirs : Z) : Z :=
  let dist := manhattanDist curr tar in
  let xmove := px tar - px curr in
  let ymove := py tar - py curr in
  match last with
  | None => if Qneb xmove 0 && Qneb ymove 0 then 1%Z else 0%Z
  | Some l =>
      if Qgtb dist 0 then
        let currDir := orthogonalDirection l curr in
        if Z.gtb currDir 0 && Z.eqb (orthogonalDirectionsCount currDir) 1 then
          let b0 := 10%Z in
          let b1 := if negb (Z.eqb (Z.land tarDirs CostDirectionN) 0) then Z.min b0 (bends curr currDir tar CostDirectionN) else b0 in
          let b2 := if negb (Z.eqb (Z.land tarDirs CostDirectionE) 0) then Z.min b1 (bends curr currDir tar CostDirectionE) else b1 in
          let b3 := if negb (Z.eqb (Z.land tarDirs CostDirectionS) 0) then Z.min b2 (bends curr currDir tar CostDirectionS) else b2 in
          let b4 := if negb (Z.eqb (Z.land tarDirs CostDirectionW) 0) then Z.min b3 (bends curr currDir tar CostDirectionW) else b3 in
          b4
        else 0%Z
      else 0%Z
  end.
Definition estimated_cost_orth (last : option pt) (curr tar : pt) (tarDirs : Z) (penalty : Q) : Q :=
  manhattanDist curr tar + inject_Z (est_bendcount last curr tar tarDirs) * penalty.

(* cost of a path in the search: Manhattan length + penalty per bend *)
Definition path_cost (cd : dir) (w : path) (dd : dir) (penalty : Q) : Q :=
  path_len w + inject_Z (nb cd w dd) * penalty.

Local Instance Qabs'_proper : Proper (Qeq ==> Qeq) Qabs'.
Proof. intros a b H. unfold Qabs'. rewrite (Qltb_proper a b H 0 0 (Qeq_refl 0)). destruct (Qltb b 0); rewrite H; reflexivity. Qed.
Lemma Qabs'_tri a b : Qabs' (a + b) <= Qabs' a + Qabs' b.
Proof. unfold Qabs'. repeat qcase; qb2p; lra. Qed.
Lemma Qabs'_opp a : Qabs' (- a) == Qabs' a.
Proof. unfold Qabs'. repeat qcase; qb2p; lra. Qed.

Lemma manhattan_le_len dd : forall w p d dest,
  ok d w dd -> pt_eq (path_end p w) dest -> manhattanDist p dest <= path_len w.
Proof.
  unfold manhattanDist.
  induction w as [|[d1 l] r IH]; intros p d dest Hok [Hx Hy]; cbn [path_end path_len ok] in *.
  - unfold Qabs'. repeat qcase; qb2p; lra.
  - destruct Hok as (Hl & _ & Hok). specialize (IH (move p d1 l) d1 dest Hok (conj Hx Hy)).
    cbn [move px py] in IH.
    pose proof (Qabs'_tri (px p - (px p + l * dvx d1)) (px p + l * dvx d1 - px dest)).
    pose proof (Qabs'_tri (py p - (py p + l * dvy d1)) (py p + l * dvy d1 - py dest)).
    assert (E1 : px p - (px p + l * dvx d1) + (px p + l * dvx d1 - px dest) == px p - px dest) by ring.
    assert (E2 : py p - (py p + l * dvy d1) + (py p + l * dvy d1 - py dest) == py p - py dest) by ring.
    rewrite E1 in H. rewrite E2 in H0.
    assert (Hs : Qabs' (px p - (px p + l * dvx d1)) + Qabs' (py p - (py p + l * dvy d1)) == l).
    { destruct d1; cbn [dvx dvy]; unfold Qabs'; repeat qcase; qb2p; lra. }
    lra.
Qed.

Lemma nb_nonneg : forall w d dd, (0 <= nb d w dd)%Z.
Proof.
  induction w as [|[d1 l] r IH]; intros d dd; cbn [nb]; unfold turn.
  - destruct (dir_eqb d dd); lia.
  - specialize (IH d1 dd). destruct (dir_eqb d1 d); lia.
Qed.

Lemma Zmin_le_l a b : (Z.min a b <= a)%Z. Proof. lia. Qed.

(* admissibility when the search state has a direction (last <> nullptr): for a target that may be entered in
   direction dd (dd is one of the allowed arrival directions tarDirs), the estimate is at most the cost of
   any path of the class from (curr, cd) to (tar, dd). *)
Theorem estimate_admissible last curr tar tarDirs penalty cd dd w :
  0 <= penalty ->
  orthogonalDirection last curr = dir_code cd ->
  Z.land tarDirs (dir_code dd) <> 0%Z ->
  ok cd w dd -> pt_eq (path_end curr w) tar ->
  estimated_cost_orth (Some last) curr tar tarDirs penalty <= path_cost cd w dd penalty.
Proof.
  intros Hp Hcd Hdd Hok Hend. unfold estimated_cost_orth, path_cost.
  pose proof (manhattan_le_len dd w curr cd tar Hok Hend) as Hm.
  assert (Hb : (est_bendcount (Some last) curr tar tarDirs <= nb cd w dd)%Z).
  { unfold est_bendcount. cbv zeta.
    destruct (Qgtb (manhattanDist curr tar) 0) eqn:Ed; [|apply nb_nonneg].
    rewrite Hcd, orthogonalDirectionsCount_single.
    assert (Hg : Z.gtb (dir_code cd) 0 = true) by (destruct cd; reflexivity). rewrite Hg. cbn [andb Z.eqb Pos.eqb].
    assert (Hne : ~ pt_eq curr tar).
    { intros [Hx Hy]. qb2p. unfold manhattanDist, Qabs' in Ed. revert Ed. repeat qcase; qb2p; lra. }
    pose proof (bends_lower_bound curr cd tar dd w Hne Hok Hend) as HB.
    destruct codes as (CN & CE & CS & CW). rewrite CN, CE, CS, CW.
    destruct dd; cbn [dir_code] in *;
    repeat match goal with |- context [if ?c then _ else _] => destruct c eqn:? end;
    try lia;
    repeat match goal with H : negb (Z.eqb ?a 0) = false |- _ =>
       apply negb_false_iff, Z.eqb_eq in H end; try contradiction; lia. }
  assert (inject_Z (est_bendcount (Some last) curr tar tarDirs) <= inject_Z (nb cd w dd)).
  { rewrite <- Zle_Qle. exact Hb. }
  nra.
Qed.

(* the initial point (last == nullptr): 1 bend iff the target is not in line; a path that starts in its own
   first direction (no turn charged at the start) needs at least one bend then. *)
Definition nb_free (w : path) (dd : dir) : Z :=
  match w with [] => 0%Z | (d1, _) :: _ => nb d1 w dd end.
Theorem estimate_admissible_initial curr tar tarDirs penalty dd w d0 :
  0 <= penalty ->
  orth_path d0 w dd -> pt_eq (path_end curr w) tar ->
  estimated_cost_orth None curr tar tarDirs penalty <= path_len w + inject_Z (nb_free w dd) * penalty.
Proof.
  intros Hp [Hok Hperp] Hend. unfold estimated_cost_orth.
  pose proof (manhattan_le_len dd w curr d0 tar Hok Hend) as Hm.
  assert (Hb : (est_bendcount None curr tar tarDirs <= nb_free w dd)%Z).
  { unfold est_bendcount. cbv zeta.
    destruct (Qneb (px tar - px curr) 0 && Qneb (py tar - py curr) 0) eqn:E.
    2:{ unfold nb_free. destruct w as [|[d1 l] r]; [lia|apply nb_nonneg]. }
    apply andb_true_iff in E. destruct E as [E1 E2]. qb2p.
    destruct w as [|[d1 l] r]; cbn [path_end] in Hend.
    { destruct Hend. exfalso. lra. }
    unfold nb_free. cbn [nb]. unfold turn at 1.
    assert (Er : dir_eqb d1 d1 = true) by (apply dir_eqb_spec; reflexivity). rewrite Er.
    destruct r as [|[d2 l2] r2].
    - cbn [path_end] in Hend. destruct Hend as [Hx Hy]. cbn [move px py] in *.
      exfalso. destruct d1; cbn [dvx dvy] in *; lra.
    - cbn [perp_chain] in Hperp. destruct Hperp as [Hp12 _].
      cbn [nb]. pose proof (nb_nonneg r2 d2 dd). unfold turn at 1.
      destruct (dir_eqb d2 d1) eqn:E12; [|lia].
      apply dir_eqb_spec in E12. subst d2. destruct d1; discriminate Hp12. }
  assert (inject_Z (est_bendcount None curr tar tarDirs) <= inject_Z (nb_free w dd)).
  { rewrite <- Zle_Qle. exact Hb. }
  nra.
Qed.

Example estimate_admissible_nonvacuous :
  let w := [(DS, 2); (DE, 3)] in
  orthogonalDirection (mkpt 0 (-1)) (mkpt 0 0) = dir_code DS /\
  ok DS w DE /\ pt_eq (path_end (mkpt 0 0) w) (mkpt 3 2) /\
  estimated_cost_orth (Some (mkpt 0 (-1))) (mkpt 0 0) (mkpt 3 2) 15 10 == 15 /\
  path_cost DS w DE 10 == 15.
Proof. cbn. repeat split; try lra; try discriminate; reflexivity. Qed.
