(* C05 - specification side of the bend estimator (DESIGN 5.5).  Independent of Gen: it still builds (and
   extracts) when makepath.cpp changes, and is what the search runs against the implementation.

   Orthogonal paths in the free plane, the state semantics of the search, the closed-form minimum bend
   count `min_bends_spec`, the proof that it is a lower bound for every path of the class and that it is
   attained, and an executable brute-force search on a small grid (validation only). *)
From Adapt Require Import Num.Qaux.
Local Open Scope Q_scope.

(* ------------------------------------------------------------------ directions *)
Inductive dir := DN | DE | DS | DW.

(* the bit-mask encoding of makepath.cpp: CostDirectionN/E/S/W = 1,2,4,8.  y grows downwards: N is -y. *)
Definition dir_code (d : dir) : Z := match d with DN => 1 | DE => 2 | DS => 4 | DW => 8 end%Z.
Definition dvx (d : dir) : Q := match d with DE => 1 | DW => -1 | _ => 0 end.
Definition dvy (d : dir) : Q := match d with DS => 1 | DN => -1 | _ => 0 end.
Definition dright (d : dir) : dir := match d with DN => DE | DE => DS | DS => DW | DW => DN end.
Definition dleft (d : dir) : dir := match d with DN => DW | DE => DN | DS => DE | DW => DS end.
Definition drev (d : dir) : dir := match d with DN => DS | DE => DW | DS => DN | DW => DE end.
Definition dir_eqb (a b : dir) : bool :=
  match a, b with DN, DN | DE, DE | DS, DS | DW, DW => true | _, _ => false end.
Lemma dir_eqb_spec a b : dir_eqb a b = true <-> a = b.
Proof. destruct a, b; cbn; split; congruence. Qed.
Definition perpb (a b : dir) : bool := dir_eqb b (dleft a) || dir_eqb b (dright a).
Definition all_dirs : list dir := [DN; DE; DS; DW].
Lemma all_dirs_complete d : In d all_dirs.
Proof. destruct d; cbn; tauto. Qed.
Lemma dir_code_inj a b : dir_code a = dir_code b -> a = b.
Proof. destruct a, b; cbn; congruence. Qed.

(* ------------------------------------------------------------------ paths *)
Definition move (p : pt) (d : dir) (l : Q) : pt := mkpt (px p + l * dvx d) (py p + l * dvy d).
Definition path := list (dir * Q).
Fixpoint path_end (p : pt) (w : path) : pt :=
  match w with [] => p | (d, l) :: r => path_end (move p d l) r end.
Fixpoint path_len (w : path) : Q :=
  match w with [] => 0 | (_, l) :: r => l + path_len r end.

(* State semantics (DESIGN 5.5).  The search state at `curr` is "has just travelled in direction d" (so it may
   turn at once); the target is "at dest, about to leave in direction dd" (the last turn may be made AT dest).
   [nb d w dd]  = number of bends of the path w started in state d and finished towards dd.
   [ok d w dd]  = w is a path of the class: every segment has positive length, the path never doubles back
                  (a segment is never the reverse of the previous direction; the last segment is not the
                  reverse of dd).  Consecutive equal directions are allowed here (0 bends) - the weak class;
   [orth_path]  = the class of the property: additionally consecutive segments are perpendicular. *)
Definition turn (d d1 : dir) : Z := if dir_eqb d1 d then 0%Z else 1%Z.
Fixpoint nb (d : dir) (w : path) (dd : dir) : Z :=
  match w with
  | [] => turn dd d
  | (d1, _) :: r => (turn d d1 + nb d1 r dd)%Z
  end.
Fixpoint ok (d : dir) (w : path) (dd : dir) : Prop :=
  match w with
  | [] => d <> drev dd
  | (d1, l) :: r => 0 < l /\ d1 <> drev d /\ ok d1 r dd
  end.
Fixpoint perp_chain (d : dir) (w : path) : Prop :=
  match w with
  | [] => True
  | (d1, _) :: r => perpb d d1 = true /\ perp_chain d1 r
  end.
Definition orth_path (d : dir) (w : path) (dd : dir) : Prop :=
  ok d w dd /\ match w with [] => True | (d1, _) :: r => perp_chain d1 r end.

(* executable versions (for the extracted validation) *)
Fixpoint okb (d : dir) (w : path) (dd : dir) : bool :=
  match w with
  | [] => negb (dir_eqb d (drev dd))
  | (d1, l) :: r => Qltb 0 l && negb (dir_eqb d1 (drev d)) && okb d1 r dd
  end.
Fixpoint perp_chainb (d : dir) (w : path) : bool :=
  match w with [] => true | (d1, _) :: r => perpb d d1 && perp_chainb d1 r end.
Definition orth_pathb (d : dir) (w : path) (dd : dir) : bool :=
  okb d w dd && match w with [] => true | (d1, _) :: r => perp_chainb d1 r end.

(* every segment of such a path is axis-parallel by construction: *)
Lemma move_axis_parallel p d l : px (move p d l) == px p \/ py (move p d l) == py p.
Proof. destruct d; cbn; [left|right|left|right]; ring. Qed.

(* ------------------------------------------------------------------ signs *)
Inductive sg := Neg | Zer | Pos.
Definition sgn (q : Q) : sg := if Qltb q 0 then Neg else if Qltb 0 q then Pos else Zer.
Definition sopp (s : sg) : sg := match s with Neg => Pos | Zer => Zer | Pos => Neg end.
Definition sg_eqb (a b : sg) : bool :=
  match a, b with Neg, Neg | Zer, Zer | Pos, Pos => true | _, _ => false end.

Lemma sgn_cases q : (q < 0 /\ sgn q = Neg) \/ (q == 0 /\ sgn q = Zer) \/ (0 < q /\ sgn q = Pos).
Proof.
  unfold sgn. destruct (Qltb q 0) eqn:E1; [|destruct (Qltb 0 q) eqn:E2]; qb2p.
  - left; split; [lra|reflexivity].
  - right; right; split; [lra|reflexivity].
  - right; left; split; [lra|reflexivity].
Qed.
Lemma sgn_neg q : q < 0 -> sgn q = Neg.
Proof. intro H. destruct (sgn_cases q) as [[? ?]|[[? ?]|[? ?]]]; auto; lra. Qed.
Lemma sgn_zer q : q == 0 -> sgn q = Zer.
Proof. intro H. destruct (sgn_cases q) as [[? ?]|[[? ?]|[? ?]]]; auto; lra. Qed.
Lemma sgn_pos q : 0 < q -> sgn q = Pos.
Proof. intro H. destruct (sgn_cases q) as [[? ?]|[[? ?]|[? ?]]]; auto; lra. Qed.
Global Instance sgn_proper : Proper (Qeq ==> eq) sgn.
Proof. intros a b H. unfold sgn. rewrite !H. reflexivity. Qed.

(* sign of the component of the displacement (sx, sy) along direction d *)
Definition along_s (d : dir) (sx sy : sg) : sg :=
  match d with DE => sx | DW => sopp sx | DS => sy | DN => sopp sy end.

(* ------------------------------------------------------------------ the closed form *)
(* f = displacement curr->dest along dd ("forward"), s = its component across dd, t = component along cd.
     cd = dd       : 0 if dest straight ahead; 4 if dest is behind (f < 0); otherwise 2
     cd = rev dd   : 2 if dest is off the line of travel, 4 on it
     cd perp dd    : 1 if dest is not behind in either direction (f >= 0 and t >= 0), else 3
   At curr = dest the same formulas give 0 / 4 / 1, the cost of finishing (or of leaving and coming back). *)
Definition mb_s (sx sy : sg) (cd dd : dir) : Z :=
  let f := along_s dd sx sy in
  let s := along_s (dright dd) sx sy in
  let t := along_s cd sx sy in
  if dir_eqb cd dd then
    match f, s with
    | Neg, _ => 4 | _, Zer => 0 | _, _ => 2
    end%Z
  else if dir_eqb cd (drev dd) then
    match s with Zer => 4 | _ => 2 end%Z
  else
    match f, t with
    | Neg, _ | _, Neg => 3 | _, _ => 1
    end%Z.

Definition min_bends_spec (curr : pt) (cd : dir) (dest : pt) (dd : dir) : Z :=
  mb_s (sgn (px dest - px curr)) (sgn (py dest - py curr)) cd dd.

(* ------------------------------------------------------------------ lower bound *)
(* how the sign of the remaining displacement can change when moving a positive distance in direction d *)
Definition dec_ok (s s' : sg) : bool :=   (* the quantity decreased strictly *)
  match s, s' with Pos, _ => true | _, Neg => true | _, _ => false end.
Definition inc_ok (s s' : sg) : bool := dec_ok (sopp s) (sopp s').
Definition after_move (d : dir) (sx sy sx' sy' : sg) : bool :=
  match d with
  | DE => dec_ok sx sx' && sg_eqb sy sy'
  | DW => inc_ok sx sx' && sg_eqb sy sy'
  | DS => dec_ok sy sy' && sg_eqb sx sx'
  | DN => inc_ok sy sy' && sg_eqb sx sx'
  end.

Definition all_sg : list sg := [Neg; Zer; Pos].
Lemma all_sg_complete s : In s all_sg.
Proof. destruct s; cbn; tauto. Qed.

Definition step_check : bool :=
  forallb (fun sx => forallb (fun sy => forallb (fun sx' => forallb (fun sy' =>
  forallb (fun d => forallb (fun d1 => forallb (fun dd =>
    if negb (dir_eqb d1 (drev d)) && after_move d1 sx sy sx' sy'
    then Z.leb (mb_s sx sy d dd) (turn d d1 + mb_s sx' sy' d1 dd) else true)
  all_dirs) all_dirs) all_dirs) all_sg) all_sg) all_sg) all_sg.

(* the local inequality  B(p,d) <= [d1 <> d] + B(p + l*d1, d1)  (it contains both B(p,d) <= B(p+t*d,d) and
   B(p,d) <= 1 + B(p,d') of DESIGN 5.5), swept over the finite abstract state space *)
Lemma step_s sx sy sx' sy' d d1 dd :
  d1 <> drev d -> after_move d1 sx sy sx' sy' = true ->
  (mb_s sx sy d dd <= turn d d1 + mb_s sx' sy' d1 dd)%Z.
Proof.
  intros Hr Hm.
  assert (C : step_check = true) by (vm_compute; reflexivity).
  unfold step_check in C.
  rewrite forallb_forall in C. specialize (C sx (all_sg_complete sx)).
  rewrite forallb_forall in C. specialize (C sy (all_sg_complete sy)).
  rewrite forallb_forall in C. specialize (C sx' (all_sg_complete sx')).
  rewrite forallb_forall in C. specialize (C sy' (all_sg_complete sy')).
  rewrite forallb_forall in C. specialize (C d (all_dirs_complete d)).
  rewrite forallb_forall in C. specialize (C d1 (all_dirs_complete d1)).
  rewrite forallb_forall in C. specialize (C dd (all_dirs_complete dd)).
  rewrite Hm in C.
  assert (E : dir_eqb d1 (drev d) = false).
  { destruct (dir_eqb d1 (drev d)) eqn:E; auto. apply dir_eqb_spec in E. contradiction. }
  rewrite E in C. cbn [negb andb] in C. apply Z.leb_le. exact C.
Qed.

(* the abstraction is sound: moving l > 0 in direction d changes the signs as after_move says *)
Lemma sgn_opp q : sgn (- q) = sopp (sgn q).
Proof.
  destruct (sgn_cases q) as [[H E]|[[H E]|[H E]]]; rewrite E; cbn.
  - apply sgn_pos; lra.
  - apply sgn_zer; lra.
  - apply sgn_neg; lra.
Qed.
Lemma dec_sound a l : 0 < l -> dec_ok (sgn a) (sgn (a - l)) = true.
Proof.
  intro Hl.
  destruct (sgn_cases a) as [[H E]|[[H E]|[H E]]]; rewrite E; cbn.
  - rewrite (sgn_neg (a - l)) by lra. reflexivity.
  - rewrite (sgn_neg (a - l)) by lra. reflexivity.
  - destruct (sgn (a - l)); reflexivity.
Qed.
Lemma inc_sound a l : 0 < l -> inc_ok (sgn a) (sgn (a + l)) = true.
Proof.
  intro Hl. unfold inc_ok. rewrite <- !sgn_opp.
  assert (E : - (a + l) == - a - l) by ring. rewrite E. apply dec_sound. exact Hl.
Qed.
Lemma sg_eqb_refl s : sg_eqb s s = true.
Proof. destruct s; reflexivity. Qed.

Lemma after_move_sound p dest d l :
  0 < l ->
  after_move d (sgn (px dest - px p)) (sgn (py dest - py p))
               (sgn (px dest - px (move p d l))) (sgn (py dest - py (move p d l))) = true.
Proof.
  intro Hl. destruct d; cbn [move px py dvx dvy after_move].
  - assert (E1 : py dest - (py p + l * -1) == (py dest - py p) + l) by ring.
    assert (E2 : px dest - (px p + l * 0) == px dest - px p) by ring.
    rewrite E1, E2, inc_sound, sg_eqb_refl by exact Hl. reflexivity.
  - assert (E1 : px dest - (px p + l * 1) == (px dest - px p) - l) by ring.
    assert (E2 : py dest - (py p + l * 0) == py dest - py p) by ring.
    rewrite E1, E2, dec_sound, sg_eqb_refl by exact Hl. reflexivity.
  - assert (E1 : py dest - (py p + l * 1) == (py dest - py p) - l) by ring.
    assert (E2 : px dest - (px p + l * 0) == px dest - px p) by ring.
    rewrite E1, E2, dec_sound, sg_eqb_refl by exact Hl. reflexivity.
  - assert (E1 : px dest - (px p + l * -1) == (px dest - px p) + l) by ring.
    assert (E2 : py dest - (py p + l * 0) == py dest - py p) by ring.
    rewrite E1, E2, inc_sound, sg_eqb_refl by exact Hl. reflexivity.
Qed.

Lemma mb_at_dest d dd : d <> drev dd -> (mb_s Zer Zer d dd <= turn dd d)%Z.
Proof. destruct d, dd; cbn; intros H; try lia; exfalso; apply H; reflexivity. Qed.

(* induction over the path; holds for the weak class, hence for orth_path *)
Theorem min_bends_lower_bound dest dd : forall w p d,
  ok d w dd -> pt_eq (path_end p w) dest ->
  (min_bends_spec p d dest dd <= nb d w dd)%Z.
Proof.
  unfold min_bends_spec.
  induction w as [|[d1 l] r IH]; intros p d Hok Hend.
  - cbn in *. destruct Hend as [Hx Hy].
    rewrite (sgn_zer (px dest - px p)) by lra. rewrite (sgn_zer (py dest - py p)) by lra.
    apply mb_at_dest; assumption.
  - cbn [ok path_end nb] in *. destruct Hok as (Hl & Hd & Hok).
    specialize (IH (move p d1 l) d1 Hok Hend).
    pose proof (after_move_sound p dest d1 l Hl) as Hm.
    pose proof (step_s _ _ _ _ d d1 dd Hd Hm). lia.
Qed.

(* ------------------------------------------------------------------ the bound is attained *)
Definition alongQ (d : dir) (vx vy : Q) : Q := vx * dvx d + vy * dvy d.

Definition witness (p : pt) (cd : dir) (dest : pt) (dd : dir) : path :=
  let vx := px dest - px p in
  let vy := py dest - py p in
  let f := alongQ dd vx vy in
  let r := alongQ (dright dd) vx vy in
  let F := dd in let R := dright dd in let B := drev dd in let L := dleft dd in
  if dir_eqb cd dd then
    match sgn f, sgn r with
    | Pos, Zer => [(F, f)]
    | Pos, Pos => [(F, f); (R, r)]
    | Pos, Neg => [(F, f); (L, - r)]
    | Zer, Pos => [(R, r)]
    | Zer, Neg => [(L, - r)]
    | Zer, Zer => []
    | Neg, Neg => [(L, - r + 1); (B, - f); (R, 1)]
    | Neg, _ => [(R, r + 1); (B, - f); (L, 1)]
    end
  else if dir_eqb cd (drev dd) then
    match sgn r, sgn f with
    | Pos, Neg => [(B, - f); (R, r)]
    | Neg, Neg => [(B, - f); (L, - r)]
    | Pos, Zer => [(R, r)]
    | Neg, Zer => [(L, - r)]
    | Pos, Pos => [(R, r); (F, f)]
    | Neg, Pos => [(L, - r); (F, f)]
    | Zer, Pos => [(R, 1); (F, f); (L, 1)]
    | Zer, Neg => [(R, 1); (B, - f); (L, 1)]
    | Zer, Zer => []
    end
  else if dir_eqb cd (dright dd) then
    match sgn f, sgn r with
    | Pos, Pos => [(R, r); (F, f)]
    | Zer, Pos => [(R, r)]
    | Pos, Zer => [(F, f)]
    | Neg, Pos => [(B, 1 - f); (R, r); (F, 1)]
    | Neg, Zer => [(R, 1); (B, - f); (L, 1)]
    | Pos, Neg => [(F, f); (L, - r)]
    | Zer, Zer => []
    | _, Neg => [(B, 1 - f); (L, - r); (F, 1)]
    end
  else
    match sgn f, sgn r with
    | Pos, Neg => [(L, - r); (F, f)]
    | Zer, Neg => [(L, - r)]
    | Pos, Zer => [(F, f)]
    | Neg, Neg => [(B, 1 - f); (L, - r); (F, 1)]
    | Neg, Zer => [(L, 1); (B, - f); (R, 1)]
    | Pos, Pos => [(F, f); (R, r)]
    | Zer, Zer => []
    | _, Pos => [(B, 1 - f); (R, r); (F, 1)]
    end.

Lemma alongQ_sgn d vx vy : sgn (alongQ d vx vy) = along_s d (sgn vx) (sgn vy).
Proof.
  destruct d; unfold alongQ; cbn [dvx dvy along_s].
  - assert (E : vx * 0 + vy * -1 == - vy) by ring. rewrite E. apply sgn_opp.
  - assert (E : vx * 1 + vy * 0 == vx) by ring. rewrite E. reflexivity.
  - assert (E : vx * 0 + vy * 1 == vy) by ring. rewrite E. reflexivity.
  - assert (E : vx * -1 + vy * 0 == - vx) by ring. rewrite E. apply sgn_opp.
Qed.

Theorem min_bends_attained p cd dest dd :
  ~ pt_eq p dest ->
  let w := witness p cd dest dd in
  orth_path cd w dd /\ pt_eq (path_end p w) dest /\ nb cd w dd = min_bends_spec p cd dest dd.
Proof.
  intros Hne. unfold min_bends_spec, witness, orth_path, pt_eq in *. cbv zeta.
  rewrite !alongQ_sgn.
  destruct (sgn_cases (px dest - px p)) as [[X HX]|[[X HX]|[X HX]]];
  destruct (sgn_cases (py dest - py p)) as [[Y HY]|[[Y HY]|[Y HY]]];
  try (exfalso; apply Hne; split; lra);
  rewrite HX, HY; clear HX HY;
  destruct cd, dd;
  cbn [dir_eqb drev dright dleft alongQ dvx dvy along_s sopp
       ok perp_chain path_end nb move px py perpb orb turn mb_s];
  unfold alongQ; cbn [dvx dvy];
  (repeat split; try reflexivity; try discriminate; lra).
Qed.

(* ------------------------------------------------------------------ non-vacuity / the excluded class *)
Example lower_bound_nonvacuous :
  let w := [(DE, 3); (DS, 2)] in
  orth_path DE w DE /\ pt_eq (path_end (mkpt 0 0) w) (mkpt 3 2) /\
  nb DE w DE = 2%Z /\ min_bends_spec (mkpt 0 0) DE (mkpt 3 2) DE = 2%Z.
Proof. cbn. repeat split; try lra; try discriminate; reflexivity. Qed.

(* If zero-length segments were allowed (a 180-degree turn made on the spot, counted as 2 bends) the
   estimate would NOT be a lower bound: travelling W at (2,0), target (0,0) entered eastwards... the closed
   form says 4 while the doubling-back route "continue W to (-1,0), turn round on the spot, go E" has 2.
   Such a route overlaps itself and is outside the class ([ok] demands d1 <> drev d). *)
Example bends_vs_doubleback :
  let w := [(DW, 3); (DE, 1)] in
  pt_eq (path_end (mkpt 2 0) w) (mkpt 0 0) /\
  min_bends_spec (mkpt 2 0) DW (mkpt 0 0) DE = 4%Z /\
  ~ ok DW w DE.
Proof.
  cbn. repeat split; try lra; try reflexivity.
  intros (_ & _ & _ & H & _). apply H. reflexivity.
Qed.

(* ------------------------------------------------------------------ brute force on a small grid (validation) *)
(* states (x, y, d, moved) with |x|,|y| <= R; `moved` = the current segment has positive length, only then a
   turn is allowed; a turn costs one bend; the goal is "at dest with direction dd" (moved or not).  Layered
   search: layer k = states reachable with exactly <= k bends. *)
Definition bstate := (Z * Z * dir * bool)%type.
Definition bs_eqb (a b : bstate) : bool :=
  match a, b with (x, y, d, m), (x', y', d', m') =>
    Z.eqb x x' && Z.eqb y y' && dir_eqb d d' && Bool.eqb m m' end.
Definition zdx (d : dir) : Z := match d with DE => 1 | DW => -1 | _ => 0 end%Z.
Definition zdy (d : dir) : Z := match d with DS => 1 | DN => -1 | _ => 0 end%Z.
Definition memb (s : bstate) (l : list bstate) : bool := existsb (bs_eqb s) l.
Fixpoint ray (fuel : nat) (R : Z) (x y : Z) (d : dir) : list bstate :=
  match fuel with
  | O => []
  | S k => let x' := (x + zdx d)%Z in let y' := (y + zdy d)%Z in
           if (Z.abs x' <=? R)%Z && (Z.abs y' <=? R)%Z then (x', y', d, true) :: ray k R x' y' d else []
  end.
Definition add_new (seen acc : list bstate) (l : list bstate) : list bstate :=
  fold_left (fun a s => if memb s seen || memb s a then a else s :: a) l acc.
Definition next_layer (R : Z) (seen layer : list bstate) : list bstate :=
  fold_left (fun acc s =>
    match s with
    | (x, y, d, true) =>
        let a1 := add_new seen acc ((x, y, dleft d, false) :: ray (Z.to_nat (2 * R + 1)) R x y (dleft d)) in
        add_new seen a1 ((x, y, dright d, false) :: ray (Z.to_nat (2 * R + 1)) R x y (dright d))
    | _ => acc
    end) layer [].
Definition goal (tx ty : Z) (dd : dir) (l : list bstate) : bool :=
  existsb (fun s => match s with (x, y, d, _) => Z.eqb x tx && Z.eqb y ty && dir_eqb d dd end) l.
Fixpoint bfs_layers (fuel : nat) (R : Z) (tx ty : Z) (dd : dir) (k : Z) (seen layer : list bstate) : option Z :=
  match fuel with
  | O => None
  | S n => if goal tx ty dd layer then Some k
           else let seen' := layer ++ seen in
                let nl := next_layer R seen' layer in
                match nl with [] => None | _ => bfs_layers n R tx ty dd (k + 1)%Z seen' nl end
  end.
(* None = target not reachable within the grid / fuel; callers must treat it as "no answer" *)
Definition bfs_min_bends (R : Z) (cx cy : Z) (cd : dir) (tx ty : Z) (dd : dir) : option Z :=
  let l0 := (cx, cy, cd, true) :: ray (Z.to_nat (2 * R + 1)) R cx cy cd in
  bfs_layers 8 R tx ty dd 0%Z [] l0.

Definition zpt (x y : Z) : pt := mkpt (inject_Z x) (inject_Z y).
Definition offsets (n : Z) : list Z := zseq (- n) (n + 1).
Definition bfs_agrees (R n : Z) : bool :=
  forallb (fun x => forallb (fun y =>
    if Z.eqb x 0 && Z.eqb y 0 then true else
    forallb (fun cd => forallb (fun dd =>
      match bfs_min_bends R 0 0 cd x y dd with
      | Some k => Z.eqb k (min_bends_spec (zpt 0 0) cd (zpt x y) dd)
      | None => false
      end) all_dirs) all_dirs) (offsets n)) (offsets n).

(* validation inside Coq on the offsets {-1,0,1}^2 (the extracted sweep in checks/c05.py uses {-2..2}^2) *)
Example bfs_agrees_small : bfs_agrees 2 1 = true.
Proof. vm_compute. reflexivity. Qed.
