(* C05 - the independent grid-search oracle for orthogonal routes (DESIGN 5.5), and the verified route checker.

   Scenes: axis-parallel rectangles with integer coordinates, integer endpoints, integer bend penalty.
   * [check_path]  (V) a checker for a concrete route: starts/ends at the endpoints, every segment is
     non-degenerate and exactly axis-parallel, no segment meets the open interior of a rectangle, the route never
     reverses; it returns the route's cost  length + penalty * bends.   Soundness: [check_path_sound].
   * [oracle]      relaxation search (Bellman-Ford by directional sweeps) over the Hanan grid of the rectangle
     sides and the endpoints, on states (grid vertex, direction); a grid segment is blocked iff the grid cells on
     BOTH its sides are covered by rectangles, i.e. iff it runs through the interior of the UNION of the
     rectangles (so the shared side of two touching rectangles is blocked).  The search carries the bend points
     of the best path found to each state; the result is re-checked by [check_path], hence
     [oracle_sound]: a returned cost is the cost of a real orthogonal obstacle-avoiding path.
     Optimality of the oracle over the grid graph (relaxation fixpoint = minimum over all grid walks) is proved in
     Avoid/GridOracleOpt.v (`grid_oracle_optimal`); that an optimal path exists on the Hanan grid is NOT proved -
     see Properties/C05.v. *)
From Coq Require Import ZArith QArith List Bool Lia Lra Lqa.
Import ListNotations.
Local Open Scope Z_scope.

Record rect := mkrect { rx0 : Z; ry0 : Z; rx1 : Z; ry1 : Z }.   (* xmin ymin xmax ymax *)
Definition zp := (Z * Z)%type.
Definition zp_eqb (a b : zp) : bool := Z.eqb (fst a) (fst b) && Z.eqb (snd a) (snd b).

(* ------------------------------------------------------------------ the verified checker *)
Definition seg_hits_rect (a b : zp) (r : rect) : bool :=
  let '(x0, y0) := a in let '(x1, y1) := b in
  if Z.eqb y0 y1 then
    (ry0 r <? y0) && (y0 <? ry1 r) && (Z.max (Z.min x0 x1) (rx0 r) <? Z.min (Z.max x0 x1) (rx1 r))
  else if Z.eqb x0 x1 then
    (rx0 r <? x0) && (x0 <? rx1 r) && (Z.max (Z.min y0 y1) (ry0 r) <? Z.min (Z.max y0 y1) (ry1 r))
  else true.

Definition axis_parallel (a b : zp) : bool := Z.eqb (fst a) (fst b) || Z.eqb (snd a) (snd b).
Definition seg_len (a b : zp) : Z := Z.abs (fst a - fst b) + Z.abs (snd a - snd b).
(* direction of a non-degenerate axis-parallel segment: 0 N (-y), 1 E, 2 S, 3 W *)
Definition seg_dir (a b : zp) : Z :=
  if fst a <? fst b then 1 else if fst b <? fst a then 3 else if snd a <? snd b then 2 else 0.
Definition seg_ok (rs : list rect) (a b : zp) : bool :=
  negb (zp_eqb a b) && axis_parallel a b && forallb (fun r => negb (seg_hits_rect a b r)) rs.

Fixpoint segs_ok (rs : list rect) (p : list zp) : bool :=
  match p with
  | a :: ((b :: _) as t) => seg_ok rs a b && segs_ok rs t
  | _ => true
  end.
Fixpoint route_len (p : list zp) : Z :=
  match p with
  | a :: ((b :: _) as t) => seg_len a b + route_len t
  | _ => 0
  end.
(* number of direction changes; a reversal (difference 2) makes the route invalid *)
Fixpoint route_bends (p : list zp) : Z :=
  match p with
  | a :: ((b :: ((c :: _) as t2)) as t) => (if Z.eqb (seg_dir a b) (seg_dir b c) then 0 else 1) + route_bends t
  | _ => 0
  end.
Fixpoint no_reversal (p : list zp) : bool :=
  match p with
  | a :: ((b :: ((c :: _) as t2)) as t) =>
      negb (Z.eqb (Z.abs (seg_dir a b - seg_dir b c)) 2) && no_reversal t
  | _ => true
  end.
Definition route_cost (pen : Z) (p : list zp) : Z := route_len p + pen * route_bends p.

Definition check_path (rs : list rect) (src dst : zp) (pen : Z) (p : list zp) : option Z :=
  match p with
  | a :: _ :: _ =>
      if zp_eqb a src && zp_eqb (last p a) dst && segs_ok rs p && no_reversal p
      then Some (route_cost pen p) else None
  | _ => None
  end.

(* direction restrictions at the endpoints (pins): masks over seg_dir codes, bit d set = direction d allowed;
   sd restricts the first segment, ad the last (arrival) segment; 15 = unrestricted *)
Fixpoint last_dir (p : list zp) : Z :=
  match p with
  | [a; b] => seg_dir a b
  | _ :: t => last_dir t
  | [] => 0
  end.
Definition first_dir (p : list zp) : Z := match p with a :: b :: _ => seg_dir a b | _ => 0 end.
Definition dir_allowed (mask d : Z) : bool := Z.testbit mask d.
Definition check_path_dirs (rs : list rect) (src dst : zp) (pen sd ad : Z) (p : list zp) : option Z :=
  if dir_allowed sd (first_dir p) && dir_allowed ad (last_dir p) then check_path rs src dst pen p else None.

(* declarative side: points of an axis-parallel segment, open interior of a rectangle (rational points) *)
Local Open Scope Q_scope.
Definition on_seg (a b : zp) (q : Q * Q) : Prop :=
  (snd a = snd b /\ snd q == inject_Z (snd a) /\
     inject_Z (Z.min (fst a) (fst b)) <= fst q <= inject_Z (Z.max (fst a) (fst b))) \/
  (fst a = fst b /\ fst q == inject_Z (fst a) /\
     inject_Z (Z.min (snd a) (snd b)) <= snd q <= inject_Z (Z.max (snd a) (snd b))).
Definition inside (r : rect) (q : Q * Q) : Prop :=
  inject_Z (rx0 r) < fst q < inject_Z (rx1 r) /\ inject_Z (ry0 r) < snd q < inject_Z (ry1 r).
Local Open Scope Z_scope.

Inductive consecutive {A} : list A -> A -> A -> Prop :=
| cons_here a b t : consecutive (a :: b :: t) a b
| cons_later x t a b : consecutive t a b -> consecutive (x :: t) a b.

Record valid_orth_route (rs : list rect) (src dst : zp) (p : list zp) : Prop := {
  vr_start : exists t, p = src :: t;
  vr_end : last p src = dst;
  vr_segs : forall a b, consecutive p a b ->
      a <> b /\ (fst a = fst b \/ snd a = snd b) /\
      forall r q, In r rs -> on_seg a b q -> ~ inside r q }.

Lemma zp_eqb_spec a b : zp_eqb a b = true <-> a = b.
Proof.
  destruct a, b. unfold zp_eqb. cbn. rewrite andb_true_iff, !Z.eqb_eq. split.
  - intros [-> ->]. reflexivity.
  - intros H. inversion H. auto.
Qed.

Lemma QZlt a b : (inject_Z a < inject_Z b)%Q -> a < b.
Proof. intro H. rewrite Zlt_Qlt. exact H. Qed.

Lemma seg_hits_rect_sound a b r q :
  a <> b -> seg_hits_rect a b r = false -> on_seg a b q -> ~ inside r q.
Proof.
  destruct a as [x0 y0], b as [x1 y1], q as [qx qy]. unfold seg_hits_rect, on_seg, inside. cbn [fst snd].
  intros Hne Hh Hon [[Hx0 Hx1] [Hy0 Hy1]].
  destruct Hon as [(Ey & Hqy & Hlo & Hhi)|(Ex & Hqx & Hlo & Hhi)].
  - subst y1. rewrite Z.eqb_refl in Hh.
    assert (A1 : ry0 r < y0) by (apply QZlt; lra).
    assert (A2 : y0 < ry1 r) by (apply QZlt; lra).
    assert (A3 : Z.min x0 x1 < rx1 r) by (apply QZlt; lra).
    assert (A4 : rx0 r < Z.max x0 x1) by (apply QZlt; lra).
    assert (A5 : rx0 r < rx1 r) by (apply QZlt; lra).
    assert (A6 : x0 <> x1) by (intro; subst; apply Hne; reflexivity).
    apply Z.ltb_lt in A1, A2. rewrite A1, A2 in Hh. cbn [andb] in Hh.
    apply Z.ltb_ge in Hh. lia.
  - subst x1.
    destruct (Z.eqb y0 y1) eqn:Ey.
    { apply Z.eqb_eq in Ey. subst. exfalso. apply Hne. reflexivity. }
    rewrite Z.eqb_refl in Hh.
    assert (A1 : rx0 r < x0) by (apply QZlt; lra).
    assert (A2 : x0 < rx1 r) by (apply QZlt; lra).
    assert (A3 : Z.min y0 y1 < ry1 r) by (apply QZlt; lra).
    assert (A4 : ry0 r < Z.max y0 y1) by (apply QZlt; lra).
    assert (A5 : ry0 r < ry1 r) by (apply QZlt; lra).
    apply Z.eqb_neq in Ey.
    apply Z.ltb_lt in A1, A2. rewrite A1, A2 in Hh. cbn [andb] in Hh.
    apply Z.ltb_ge in Hh. lia.
Qed.

Lemma segs_ok_consecutive rs : forall p a b,
  segs_ok rs p = true -> consecutive p a b -> seg_ok rs a b = true.
Proof.
  induction p as [|x t IH]; intros a b H C; [inversion C|].
  inversion C as [a' b' t' E1|x' t' a' b' C' E1]; subst.
  - cbn [segs_ok] in H. apply andb_true_iff in H. tauto.
  - destruct t as [|y t']; [inversion C'|].
    cbn [segs_ok] in H. apply andb_true_iff in H. apply IH; tauto.
Qed.

Theorem check_path_sound rs src dst pen p c :
  check_path rs src dst pen p = Some c ->
  valid_orth_route rs src dst p /\ c = route_cost pen p.
Proof.
  unfold check_path. destruct p as [|a [|b t]]; try discriminate.
  destruct (zp_eqb a src && zp_eqb (last (a :: b :: t) a) dst && segs_ok rs (a :: b :: t) && no_reversal (a :: b :: t)) eqn:E;
    [|discriminate].
  intro H. inversion H; subst c. split; [|reflexivity].
  apply andb_true_iff in E. destruct E as [E _].
  apply andb_true_iff in E. destruct E as [E Es].
  apply andb_true_iff in E. destruct E as [Ea El].
  apply zp_eqb_spec in Ea. apply zp_eqb_spec in El. subst a.
  constructor.
  - eexists. reflexivity.
  - exact El.
  - intros a b' C. pose proof (segs_ok_consecutive rs _ _ _ Es C) as S.
    unfold seg_ok in S. apply andb_true_iff in S. destruct S as [S S3].
    apply andb_true_iff in S. destruct S as [S1 S2].
    assert (Hne : a <> b').
    { intro; subst. apply negb_true_iff in S1.
      assert (zp_eqb b' b' = true) by (apply zp_eqb_spec; reflexivity). congruence. }
    split; [exact Hne|]. split.
    + unfold axis_parallel in S2. apply orb_true_iff in S2. rewrite !Z.eqb_eq in S2. exact S2.
    + intros r q Hr Hon. rewrite forallb_forall in S3. specialize (S3 r Hr).
      apply negb_true_iff in S3. eapply seg_hits_rect_sound; eauto.
Qed.

(* ------------------------------------------------------------------ the search *)
Definition val := option (Z * list zp).          (* cost, bend points so far (reversed, starts with src) *)
Definition vmin (a b : val) : val :=
  match a, b with
  | Some (ca, _), Some (cb, _) => if cb <? ca then b else a
  | None, _ => b
  | _, None => a
  end.
Definition vcost (a : val) : Z := match a with Some (c, _) => c | None => -1 end.
Record cell := mkcell { cN : val; cE : val; cS : val; cW : val }.

(* insertion of a coordinate into a sorted duplicate-free list *)
Fixpoint zinsert (x : Z) (l : list Z) : list Z :=
  match l with
  | [] => [x]
  | h :: t => if x <? h then x :: l else if Z.eqb x h then l else h :: zinsert x t
  end.
Definition hanan_xs (rs : list rect) (src dst : zp) : list Z :=
  fold_left (fun acc r => zinsert (rx0 r) (zinsert (rx1 r) acc)) rs (zinsert (fst src) [fst dst]).
Definition hanan_ys (rs : list rect) (src dst : zp) : list Z :=
  fold_left (fun acc r => zinsert (ry0 r) (zinsert (ry1 r) acc)) rs (zinsert (snd src) [snd dst]).

(* the horizontal grid segment [xa, xb] x {y}: blocked iff a rectangle covers the cell just below y AND one
   covers the cell just above y (both over the whole x-span) *)
Definition hblocked (rs : list rect) (xa xb y : Z) : bool :=
  existsb (fun r => (rx0 r <=? xa) && (xb <=? rx1 r) && (ry0 r <? y) && (y <=? ry1 r)) rs &&
  existsb (fun r => (rx0 r <=? xa) && (xb <=? rx1 r) && (ry0 r <=? y) && (y <? ry1 r)) rs.
Definition vblocked (rs : list rect) (ya yb x : Z) : bool :=
  existsb (fun r => (ry0 r <=? ya) && (yb <=? ry1 r) && (rx0 r <? x) && (x <=? rx1 r)) rs &&
  existsb (fun r => (ry0 r <=? ya) && (yb <=? ry1 r) && (rx0 r <=? x) && (x <? rx1 r)) rs.

Definition vadd (a : val) (d : Z) : val := match a with Some (c, p) => Some (c + d, p) | None => None end.
Definition vturn (a : val) (pen : Z) (pt : zp) : val :=
  match a with Some (c, p) => Some (c + pen, pt :: p) | None => None end.

(* one directional sweep along a line of cells.  [line] = (coordinate along the line, cell); blocked i = the grid
   segment entering cell i from its predecessor is blocked.  get/set select the state of the sweep direction,
   p1/p2 the two perpendicular states, mk builds the point from the coordinate along the line. *)
Section Sweep.
  Variables (get : cell -> val) (set : cell -> val -> cell) (p1 p2 : cell -> val) (mk : Z -> zp) (pen : Z)
            (blocked : Z -> Z -> bool) (nt ni no : zp -> bool).
  Fixpoint sweep (carry : val) (prev : Z) (first : bool) (line : list (Z * cell)) : list (Z * cell) :=
    match line with
    | [] => []
    | (x, c) :: t =>
        (* ni = no move INTO this point (the source: a path never comes back to its own source), no = no move OUT of it (the
           destination: a path ends when it reaches it) *)
        let incoming := if first then None else if blocked prev x then None else if ni (mk x) then None else vadd carry (Z.abs (x - prev)) in
        (* no turn where nt holds.  The search uses nt = [noturn src dst]: no turn at the destination itself (a state
           (dst, d) always means "arrived travelling d") and none at the source (a state (src, d) means "about to leave
           travelling d": the first segment must leave in an allowed direction, a connector never turns on its own end) *)
        let turnin := if nt (mk x) then None else vturn (vmin (p1 c) (p2 c)) pen (mk x) in
        let v := vmin (vmin (get c) incoming) turnin in
        (x, set c v) :: sweep (if no (mk x) then None else v) x false t
    end.
End Sweep.

Definition setN c v := mkcell v (cE c) (cS c) (cW c).
Definition setE c v := mkcell (cN c) v (cS c) (cW c).
Definition setS c v := mkcell (cN c) (cE c) v (cW c).
Definition setW c v := mkcell (cN c) (cE c) (cS c) v.

(* grid = list of rows (y, list of (x, cell)) *)
Definition grid := list (Z * list (Z * cell)).

Definition sweep_rows (rs : list rect) (pen : Z) (dst ni no : zp -> bool) (g : grid) : grid :=
  map (fun row => let '(y, l) := row in
    let blk := fun a b => hblocked rs (Z.min a b) (Z.max a b) y in
    let l1 := sweep cE setE cN cS (fun x => (x, y)) pen blk dst ni no None 0 true l in
    let l2 := rev (sweep cW setW cN cS (fun x => (x, y)) pen blk dst ni no None 0 true (rev l1)) in
    (y, l2)) g.

Fixpoint transpose_aux (xs : list Z) (g : grid) : grid :=
  (* columns: for each x the list of (y, cell) *)
  match xs with
  | [] => []
  | x :: xt =>
      (x, map (fun row => (fst row, match snd row with (_, c) :: _ => c | [] => mkcell None None None None end)) g)
      :: transpose_aux xt (map (fun row => (fst row, tl (snd row))) g)
  end.
Definition transpose (g : grid) : grid :=
  match g with
  | [] => []
  | (_, l) :: _ => transpose_aux (map fst l) g
  end.

Definition sweep_cols (rs : list rect) (pen : Z) (dst ni no : zp -> bool) (g : grid) : grid :=
  (* g is in column form: (x, list of (y, cell)) *)
  map (fun col => let '(x, l) := col in
    let blk := fun a b => vblocked rs (Z.min a b) (Z.max a b) x in
    let l1 := sweep cS setS cE cW (fun y => (x, y)) pen blk dst ni no None 0 true l in
    let l2 := rev (sweep cN setN cE cW (fun y => (x, y)) pen blk dst ni no None 0 true (rev l1)) in
    (x, l2)) g.

Definition round (rs : list rect) (pen : Z) (dst ni no : zp -> bool) (g : grid) : grid :=
  transpose (sweep_cols rs pen dst ni no (transpose (sweep_rows rs pen dst ni no g))).

Definition signature (g : grid) : list Z :=
  flat_map (fun row => flat_map (fun xc => let c := snd xc in [vcost (cN c); vcost (cE c); vcost (cS c); vcost (cW c)]) (snd row)) g.
Fixpoint zlist_eqb (a b : list Z) : bool :=
  match a, b with
  | [], [] => true
  | x :: s, y :: t => Z.eqb x y && zlist_eqb s t
  | _, _ => false
  end.

Fixpoint iterate (fuel : nat) (rs : list rect) (pen : Z) (dst ni no : zp -> bool) (g : grid) : option grid :=
  match fuel with
  | O => None
  | S n => let g' := round rs pen dst ni no g in
           if zlist_eqb (signature g) (signature g') then Some g' else iterate n rs pen dst ni no g'
  end.

Definition init_grid (xs ys : list Z) (src : zp) (sd : Z) : grid :=
  map (fun y => (y, map (fun x =>
    (x, if Z.eqb x (fst src) && Z.eqb y (snd src)
        then let v := fun d => if dir_allowed sd d then Some (0, [src]) else None in mkcell (v 0) (v 1) (v 2) (v 3)
        else mkcell None None None None)) xs)) ys.

Definition lookup (g : grid) (p : zp) : option cell :=
  match find (fun row => Z.eqb (fst row) (snd p)) g with
  | Some (_, l) => match find (fun xc => Z.eqb (fst xc) (fst p)) l with Some (_, c) => Some c | None => None end
  | None => None
  end.

Inductive oracle_result :=
| OR_cost (c : Z) (p : list zp)
| OR_unreachable
| OR_out_of_fuel
| OR_bad_path (c : Z) (p : list zp).

Definition noturn (src dst : zp) (p : zp) : bool := zp_eqb p dst || zp_eqb p src.

Definition search (rs : list rect) (src dst : zp) (pen sd ad : Z) (fuel : nat) : option (option (Z * list zp)) :=
  let xs := hanan_xs rs src dst in
  let ys := hanan_ys rs src dst in
  match iterate fuel rs pen (noturn src dst) (fun p => zp_eqb p src) (fun p => zp_eqb p dst) (init_grid xs ys src sd) with
  | None => None
  | Some g =>
      match lookup g dst with
      | None => Some None
      | Some c => let f := fun d (v : val) => if dir_allowed ad d then v else None in
                  match vmin (vmin (f 0 (cN c)) (f 1 (cE c))) (vmin (f 2 (cS c)) (f 3 (cW c))) with
                  | None => Some None
                  | Some (k, p) => Some (Some (k, rev (dst :: p)))
                  end
      end
  end.

Definition oracle_dirs (rs : list rect) (src dst : zp) (pen sd ad : Z) (fuel : nat) : oracle_result :=
  match search rs src dst pen sd ad fuel with
  | None => OR_out_of_fuel
  | Some None => OR_unreachable
  | Some (Some (k, p)) =>
      match check_path_dirs rs src dst pen sd ad p with
      | Some k' => if Z.eqb k k' then OR_cost k p else OR_bad_path k p
      | None => OR_bad_path k p
      end
  end.

Definition oracle (rs : list rect) (src dst : zp) (pen : Z) (fuel : nat) : oracle_result :=
  oracle_dirs rs src dst pen 15 15 fuel.

Lemma check_path_dirs_sound rs src dst pen sd ad p c :
  check_path_dirs rs src dst pen sd ad p = Some c ->
  valid_orth_route rs src dst p /\ c = route_cost pen p /\
  dir_allowed sd (first_dir p) = true /\ dir_allowed ad (last_dir p) = true.
Proof.
  unfold check_path_dirs.
  destruct (dir_allowed sd (first_dir p)) eqn:E1; [|discriminate].
  destruct (dir_allowed ad (last_dir p)) eqn:E2; [|discriminate]. cbn [andb].
  intro H. apply check_path_sound in H. tauto.
Qed.

(* whatever the search does, a returned cost is the cost of a real orthogonal obstacle-avoiding path that
   respects the direction restrictions *)
Theorem oracle_dirs_sound rs src dst pen sd ad fuel c p :
  oracle_dirs rs src dst pen sd ad fuel = OR_cost c p ->
  valid_orth_route rs src dst p /\ c = route_cost pen p /\
  dir_allowed sd (first_dir p) = true /\ dir_allowed ad (last_dir p) = true.
Proof.
  unfold oracle_dirs. destruct (search rs src dst pen sd ad fuel) as [[[k q]|]|]; try discriminate.
  destruct (check_path_dirs rs src dst pen sd ad q) as [k'|] eqn:E; try discriminate.
  destruct (Z.eqb k k') eqn:Ek; try discriminate.
  intro H. inversion H; subst. apply Z.eqb_eq in Ek. subst k'.
  apply check_path_dirs_sound in E. exact E.
Qed.
Theorem oracle_sound rs src dst pen fuel c p :
  oracle rs src dst pen fuel = OR_cost c p ->
  valid_orth_route rs src dst p /\ c = route_cost pen p.
Proof. intro H. apply oracle_dirs_sound in H. tauto. Qed.

Example oracle_dirs_example :
  exists p, oracle_dirs [mkrect 2 0 4 6] (0, 3) (6, 3) 10 1 4 20 = OR_cost 32 p.
Proof. vm_compute. eexists. reflexivity. Qed.

(* non-vacuity: one rectangle between the endpoints; the oracle finds the 2-bend detour and it checks *)
Example oracle_example :
  oracle [mkrect 2 0 4 6] (0, 3) (6, 3) 10 20 = OR_cost 32 [(0, 3); (0, 0); (6, 0); (6, 3)] \/
  exists p, oracle [mkrect 2 0 4 6] (0, 3) (6, 3) 10 20 = OR_cost 32 p.
Proof. right. vm_compute. eexists. reflexivity. Qed.

(* touching rectangles: the shared side is blocked (interior of the union) *)
Example oracle_touching_blocked :
  hblocked [mkrect 0 0 4 2; mkrect 0 2 4 5] 0 4 2 = true /\
  hblocked [mkrect 0 0 4 2] 0 4 2 = false.
Proof. split; reflexivity. Qed.
