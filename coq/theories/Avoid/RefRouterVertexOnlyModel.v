(* C04 (DESIGN 5.4, 9.8): the WRONG router that keeps one label per VERTEX instead of one per (previous vertex, vertex).
   `route_taut_vertex_only pen` searches the same taut class as RefRouterModel.route_taut (same edges taut_edge, same bend
   test bend_ok, same turn cost), but as a label-setting Dijkstra over the n graph vertices: every vertex remembers only its
   cheapest arrival (cost so far, previous vertex) and is expanded from that arrival alone.  With a segment penalty the
   continuations that validateBendPoint allows at a shape corner depend on the side the corner was reached from, so the
   cheapest arrival need not be the one the optimal route uses: this search can return a dearer route (or none) where
   route_taut returns the optimum.  It is NOT a model of libavoid; it is the scene SELECTOR of the check's directed family
   "corner reachable both ways round its obstacle": a scene is kept when
         route_taut_vertex_only pen  <>  route_taut pen        (costs differ, or one has no route),
   which are exactly the scenes on which the state (previous vertex, vertex) of ANode carries information, i.e. where a
   search that merges / drops arrivals per vertex (makepath.cpp: PENDING / DONE lookups) can go wrong.
   Bounded iteration (n rounds settle n vertices), no fuel outcome.   Model file: no proofs
   (Avoid/RefRouterVertexOnly.v proves on a concrete scene that the two routers differ). *)
From Adapt Require Import Num.Qaux Geom.GeomSpec Geom.GeomSpecDec Avoid.SegPolyModel Avoid.CertDijkstraModel Avoid.RefRouterModel.
Local Open Scope Z_scope.

(* label of a vertex: cheapest arrival so far = (cost, previous vertex); the source's label is (0, 0) = "no previous vertex",
   as the start state (0, 0) of route_taut *)
Definition vo_label : Type := option (Z * nat).

Fixpoint vo_pick (lab : list vo_label) (dn : list bool) (i : nat) (best : option (nat * (Z * nat))) : option (nat * (Z * nat)) :=
  match lab, dn with
  | l :: lab', b :: dn' =>
      let best' := match l, b with
                   | Some (g, p), false => match best with
                                           | Some (_, (g0, _)) => if Z.ltb g g0 then Some (i, (g, p)) else best
                                           | None => Some (i, (g, p))
                                           end
                   | _, _ => best
                   end in
      vo_pick lab' dn' (S i) best'
  | _, _ => best
  end.

Definition vo_relax (pen : Z) (n : nat) (tt : list (list bool)) (lt : list (list Z)) (V : list vinfo)
           (u : nat) (g : Z) (p : nat) (dn : list bool) (lab : list vo_label) : list vo_label :=
  fold_left (fun lab v =>
               if taut_step_ok n tt V p u v && negb (nth v dn true) then
                 let c := g + tab_get 0 lt u v + (if (p =? u)%nat then 0 else turn_cost pen (vpt V p) (vpt V u) (vpt V v)) in
                 match nth v lab None with
                 | Some (g0, _) => if Z.ltb c g0 then upd_nth lab v (Some (c, u)) else lab
                 | None => upd_nth lab v (Some (c, u))
                 end
               else lab) (seq 0 n) lab.

Fixpoint vo_loop (rounds : nat) (pen : Z) (n : nat) (tt : list (list bool)) (lt : list (list Z)) (V : list vinfo)
         (lab : list vo_label) (dn : list bool) : list vo_label :=
  match rounds with
  | O => lab
  | S k => match vo_pick lab dn 0%nat None with
           | None => lab
           | Some (u, (g, p)) =>
               if (u =? 1)%nat then lab
               else vo_loop k pen n tt lt V (vo_relax pen n tt lt V u g p dn lab) (upd_nth dn u true)
           end
  end.

(* the chain of previous vertices from u back to the source, at most k steps *)
Fixpoint vo_chain (k : nat) (lab : list vo_label) (u : nat) (acc : list nat) : list nat :=
  match k with
  | O => u :: acc
  | S k' => match nth u lab None with
            | Some (_, p) => if (p =? u)%nat then u :: acc else vo_chain k' lab p (u :: acc)
            | None => u :: acc
            end
  end.

Definition route_taut_vertex_only (pen : Z) (shapes : list (list pt)) (s d : pt) : route_result :=
  let obst := obstacles shapes s d in
  let V := verts shapes s d in
  let n := length V in
  let tt := mk_tab n (taut_edge obst V) in
  let lt := mk_tab n (fun u v => lenZ (vpt V u) (vpt V v)) in
  let lab0 := upd_nth (repeat (None : vo_label) n) 0 (Some (0, 0%nat)) in
  let lab := vo_loop n pen n tt lt V lab0 (repeat false n) in
  match nth 1 lab None with
  | Some (c, _) => Route (map (vpt V) (vo_chain n lab 1 [])) c
  | None => NoPath
  end.

(* ---- the selector as the check runs it: both searches for several penalties over ONE pair of tables (the exact visibility
        tables are the expensive part), the symmetric tables filled from their upper triangle.  Returns, per penalty,
        (cost of route_taut's search, cost of the vertex-only search); None = no route.  The check re-computes the oracle
        answer of every selected scene with route_taut itself and insists on the same cost. *)
Definition mk_tab_sym {A} (dflt : A) (n : nat) (f : nat -> nat -> A) : list (list A) :=
  let half := mk_tab n (fun u v => if (u <=? v)%nat then f u v else dflt) in
  mk_tab n (fun u v => if (u <=? v)%nat then tab_get dflt half u v else tab_get dflt half v u).

Definition taut_select (pens : list Z) (shapes : list (list pt)) (s d : pt) : list (option Z * option Z) :=
  let obst := obstacles shapes s d in
  let V := verts shapes s d in
  let n := length V in
  let tt := mk_tab_sym false n (taut_edge obst V) in
  let lt := mk_tab_sym 0 n (fun u v => lenZ (vpt V u) (vpt V v)) in
  let lab0 := upd_nth (repeat (None : vo_label) n) 0 (Some (0, 0%nat)) in
  map (fun pen =>
         (match dijkstra (n * n + 1) (taut_succs pen n tt lt V) 0 (n * n) with
          | Found _ c => Some c
          | _ => None
          end,
          match nth 1 (vo_loop n pen n tt lt V lab0 (repeat false n)) None with
          | Some (c, _) => Some c
          | None => None
          end)) pens.
