(* A certifying Dijkstra over a finite graph with nodes 0..N-1 and integer weights (C04; DESIGN 5.4).
   `dijkstra` runs the classical label-setting loop (dense arrays as lists), then CHECKS its own answer:
     - cert_ok: the distance labels are a fixpoint of relaxation  (d[s] <= 0, d[v] <= d[u] + w for every edge),
     - the predecessor chain is a real path from s to t whose cost is exactly d[t].
   Only checked answers are returned (Found / NoRoute); anything else is the explicit outcome Fail, which every
   theorem excludes in its statement (Avoid/CertDijkstra.v) and which the check reports if it ever occurs.
   Model file: no proofs. *)
From Adapt Require Import Num.Qaux.
Local Open Scope Z_scope.

Section CD.
Variable N : nat.
Variable succs : nat -> list (nat * Z).

Definition getd (d : list (option Z)) (v : nat) : option Z := nth v d None.

(* unvisited node with the least finite label *)
Fixpoint pick_min (d : list (option Z)) (vis : list bool) (i : nat) (best : option (nat * Z)) : option (nat * Z) :=
  match d, vis with
  | dv :: d', b :: vis' =>
      let best' := match dv, b with
                   | Some x, false => match best with
                                      | Some (_, y) => if Z.ltb x y then Some (i, x) else best
                                      | None => Some (i, x)
                                      end
                   | _, _ => best
                   end in
      pick_min d' vis' (S i) best'
  | _, _ => best
  end.

Definition relax (du : Z) (u : nat) (st : list (option Z) * list nat) (e : nat * Z) : list (option Z) * list nat :=
  let '(d, pr) := st in
  let '(v, w) := e in
  let nd := du + w in
  match getd d v with
  | Some dv => if Z.ltb nd dv then (upd_nth d v (Some nd), upd_nth pr v u) else st
  | None => if (v <? N)%nat then (upd_nth d v (Some nd), upd_nth pr v u) else st
  end.

Fixpoint dloop (fuel : nat) (d : list (option Z)) (pr : list nat) (vis : list bool) : list (option Z) * list nat :=
  match fuel with
  | O => (d, pr)
  | S f => match pick_min d vis 0%nat None with
           | None => (d, pr)
           | Some (u, du) =>
               let '(d', pr') := fold_left (relax du u) (succs u) (d, pr) in
               dloop f d' pr' (upd_nth vis u true)
           end
  end.

(* the certificate: labels are a fixpoint of relaxation *)
Definition cert_ok (s : nat) (d : list (option Z)) : bool :=
  (length d =? N)%nat &&
  (match getd d s with Some x => Z.leb x 0 | None => false end) &&
  forallb (fun u => match getd d u with
                    | None => true
                    | Some du => forallb (fun e => match getd d (fst e) with
                                                   | Some dv => Z.leb dv (du + snd e)
                                                   | None => false
                                                   end) (succs u)
                    end) (seq 0 N).

Fixpoint back (fuel : nat) (pr : list nat) (s v : nat) (acc : list nat) : option (list nat) :=
  if (v =? s)%nat then Some (s :: acc) else
  match fuel with
  | O => None
  | S f => back f pr s (nth v pr v) (v :: acc)
  end.

Definition edge_w (u v : nat) : option Z :=
  match find (fun e => (fst e =? v)%nat) (succs u) with Some e => Some (snd e) | None => None end.

Fixpoint path_cost (p : list nat) : option Z :=
  match p with
  | u :: r => match r with
              | v :: _ => match edge_w u v, path_cost r with
                          | Some w, Some c => Some (w + c)
                          | _, _ => None
                          end
              | [] => Some 0
              end
  | [] => Some 0
  end.

Inductive result := Found (p : list nat) (c : Z) | NoRoute | Fail.

Definition check_path (s t : nat) (p : list nat) (c : Z) : bool :=
  (hd (S s) p =? s)%nat && (last p (S t) =? t)%nat &&
  match path_cost p with Some c' => Z.eqb c' c | None => false end.

Definition dijkstra (s t : nat) : result :=
  let d0 := upd_nth (repeat None N) s (Some 0) in
  let '(d, pr) := dloop N d0 (repeat 0%nat N) (repeat false N) in
  if negb (cert_ok s d) then Fail else
  match getd d t with
  | None => NoRoute
  | Some c => match back N pr s t [] with
              | Some p => if check_path s t p c then Found p c else Fail
              | None => Fail
              end
  end.

End CD.
