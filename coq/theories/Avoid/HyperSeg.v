(* C12 - the operations libavoid performs on its HyperedgeTree (Avoid/HyperSegModel.v, recorded by hook H2) keep
   "tree whose degree-1 nodes are exactly the terminal leaves T" under the stated degree guards; without the guards
   they still keep "tree", and the exact degree change is given, so that an unguarded application is seen to drop a leaf. *)
From Coq Require Import List Arith Lia Bool Permutation.
From Adapt Require Import Graph.UnionFind Graph.Trees Avoid.HyperTreeModel Avoid.HyperTree Avoid.HyperSegModel.
Import ListNotations.

Definition tree_inv (g : graph) (T : list nat) : Prop := is_tree g /\ leaves_are g T.

(* ------------------------------------------------------------------ contraction without a degree guard *)
Lemma contract_any_spec g a b g' :
  is_tree g -> contract_any a b g = Some g' ->
  is_tree g' /\ a <> b /\
  forall x, deg g' x = if Nat.eqb x b then 0 else if Nat.eqb x a then deg g a + deg g b - 2 else deg g x.
Proof.
  intros [Hc Ha] H. unfold contract_any in H.
  destruct (Nat.eqb_spec a b) as [|Hne]; [discriminate|].
  destruct (remove_edge a b g) as [r|] eqn:Hr; [|discriminate]. injection H as <-.
  destruct (remove_edge_same a b g r Hr) as (Sc & Sa & Sd).
  assert (Hne' : b <> a) by congruence.
  assert (Dr : forall x, deg g x = (if Nat.eqb a x then 1 else 0) + (if Nat.eqb b x then 1 else 0) + deg r x).
  { intro x. rewrite Sd. reflexivity. }
  assert (Dg' := fun x => deg_map_ren a b r x Hne').
  split; [split|split; [exact Hne|]].
  - intros x y Hx Hy.
    assert (Pre : forall z, deg (map (ren_edge b a) r) z > 0 -> exists z0, ren b a z0 = z /\ deg g z0 > 0).
    { intros z Hz. rewrite Dg' in Hz. destruct (Nat.eqb_spec z b) as [|Hz2]; [lia|].
      destruct (Nat.eqb_spec z a) as [E|Hz1].
      - subst z. exists a. split; [unfold ren; destruct (Nat.eqb_spec a b); congruence|].
        rewrite Dr, Nat.eqb_refl. lia.
      - exists z. split; [unfold ren; destruct (Nat.eqb_spec z b); congruence|]. rewrite Dr. lia. }
    destruct (Pre x Hx) as (x0 & <- & Hx0). destruct (Pre y Hy) as (y0 & <- & Hy0).
    apply conn_ren_forward. apply Sc. apply Hc; assumption.
  - intros f' k' P C.
    apply Permutation_sym in P. apply Permutation_map_inv in P. destruct P as (l3 & E & P).
    destruct l3 as [|f k]; [discriminate|]. cbn [map] in E. injection E as -> ->.
    apply conn_ren_backward in C. unfold ren_edge in C. cbn [fst snd] in C.
    assert (C2 : conn ((a, b) :: k) (fst f) (snd f)).
    { eapply c_trans; [apply c_sym; apply ren_conn|]. eapply c_trans; [exact C|]. apply ren_conn. }
    assert (AK : acyclic ((a, b) :: r)) by (apply Sa; exact Ha).
    apply (AK f ((a, b) :: k)); [|exact C2].
    eapply Permutation_trans; [apply perm_skip; exact P|apply perm_swap].
  - intro x. rewrite Dg'. pose proof (Dr x) as Dx. pose proof (Dr a) as D1. pose proof (Dr b) as D2.
    rewrite Nat.eqb_refl in D1, D2.
    destruct (Nat.eqb_spec a b); [congruence|]. destruct (Nat.eqb_spec b a); [congruence|].
    destruct (Nat.eqb_spec x b) as [->|]; [lia|]. destruct (Nat.eqb_spec x a) as [->|]; [lia|].
    destruct (Nat.eqb_spec a x); [congruence|]. destruct (Nat.eqb_spec b x); [congruence|]. lia.
Qed.

Lemma in_map_ren a b T x : a <> b ->
  In x (map (ren b a) T) <-> (x <> b /\ In x T) \/ (x = a /\ In b T).
Proof.
  intro Hne. rewrite in_map_iff. unfold ren. split.
  - intros (y & E & Hy). destruct (Nat.eqb_spec y b) as [Hyb|Hyb].
    + right. split; [congruence|]. rewrite <- Hyb. exact Hy.
    + left. rewrite <- E. split; assumption.
  - intros [[Hx Hin]|[-> Hin]].
    + exists x. destruct (Nat.eqb_spec x b); [contradiction|]. split; [reflexivity|exact Hin].
    + exists b. rewrite Nat.eqb_refl. split; [reflexivity|exact Hin].
Qed.

Lemma map_ren_notin a b T : ~ In b T -> map (ren b a) T = T.
Proof.
  intro H. induction T as [|y T IH]; [reflexivity|]. cbn [map]. rewrite IH by (intro K; apply H; right; exact K).
  unfold ren. destruct (Nat.eqb_spec y b) as [->|]; [exfalso; apply H; left; reflexivity|reflexivity].
Qed.

(* removeZeroLengthEdges, all its cases: two internal nodes (bend-bend, junction-bend, junction-junction) or a connector
   end and the bend next to it; the leaf that was merged carries the name of the surviving node afterwards *)
Theorem contract_any_preserves g T a b g' :
  is_tree g -> leaves_are g T -> contract_any a b g = Some g' -> leaf_safe (deg g a) (deg g b) = true ->
  is_tree g' /\ leaves_are g' (map (ren b a) T).
Proof.
  intros Ht Hl H Hs. destruct (contract_any_spec g a b g' Ht H) as (Ht' & Hne & D).
  split; [exact Ht'|]. intro x. rewrite (in_map_ren a b T x Hne), (Hl x), (Hl b), (D x).
  unfold leaf_safe in Hs. rewrite !orb_true_iff, !andb_true_iff, !Nat.leb_le, !Nat.eqb_eq in Hs.
  destruct (Nat.eqb_spec x b) as [->|Hxb]; [|destruct (Nat.eqb_spec x a) as [->|Hxa]]; lia.
Qed.

Theorem contract_any_tree g a b g' : is_tree g -> contract_any a b g = Some g' -> is_tree g'.
Proof. intros Ht H. exact (proj1 (contract_any_spec g a b g' Ht H)). Qed.

(* without the guard a leaf is lost: the absorbed leaf b disappears and the survivor keeps degree >= 2 *)
Theorem contract_leaf_into_branch_drops g T a b g' :
  is_tree g -> leaves_are g T -> contract_any a b g = Some g' -> deg g b = 1 -> 3 <= deg g a ->
  In b T /\ ~ In b (map (ren b a) T) /\ deg g' a >= 2 /\ ~ leaves_are g' (map (ren b a) T).
Proof.
  intros Ht Hl H Hb Ha. destruct (contract_any_spec g a b g' Ht H) as (Ht' & Hne & D).
  assert (HbT : In b T) by (apply Hl; exact Hb).
  assert (Da : deg g' a >= 2).
  { rewrite (D a). destruct (Nat.eqb_spec a b); [congruence|]. rewrite Nat.eqb_refl. lia. }
  split; [exact HbT|]. split; [|split; [exact Da|]].
  - rewrite (in_map_ren a b T b Hne). intros [[K _]|[K _]]; congruence.
  - intro L. assert (K : In a (map (ren b a) T)) by (apply (in_map_ren a b T a Hne); right; split; [reflexivity|exact HbT]).
    apply L in K. lia.
Qed.

(* ------------------------------------------------------------------ subdivision of an edge *)
Theorem subdivide_preserves g T a b n g' :
  is_tree g -> leaves_are g T -> subdivide a b n g = Some g' -> is_tree g' /\ leaves_are g' T.
Proof.
  intros [Hc Ha] Hl H. unfold subdivide in H.
  destruct (Nat.eqb_spec (deg g n) 0) as [Hn|]; [|discriminate].
  destruct (remove_edge a b g) as [r|] eqn:Hr; [|discriminate]. injection H as <-.
  destruct (remove_edge_same a b g r Hr) as (Sc & Sa & Sd).
  assert (Dr : forall x, deg g x = (if Nat.eqb a x then 1 else 0) + (if Nat.eqb b x then 1 else 0) + deg r x).
  { intro x. rewrite Sd. reflexivity. }
  assert (Hna : n <> a). { intros ->. specialize (Dr a). rewrite Nat.eqb_refl in Dr. lia. }
  assert (Hnb : n <> b). { intros ->. specialize (Dr b). rewrite Nat.eqb_refl in Dr. lia. }
  assert (Hrn : deg r n = 0). { specialize (Dr n). lia. }
  assert (Iso : forall y, conn r n y -> y = n).
  { intros y C. apply conn_nodes in C. destruct C as [C|[C _]]; [congruence|lia]. }
  apply Sa in Ha. apply acyclic_cons in Ha. destruct Ha as [Ar Nab].
  split; [split|].
  - assert (Hub : forall x y, conn ((a, b) :: r) x y -> conn ((a, n) :: (n, b) :: r) x y).
    { intros x y. apply conn_sub. intros u v [E|Hin].
      - inversion E; subst. eapply c_trans; apply c_edge; [left; reflexivity|right; left; reflexivity].
      - apply c_edge. right. right. exact Hin. }
    assert (K : forall z, deg ((a, n) :: (n, b) :: r) z > 0 -> conn ((a, n) :: (n, b) :: r) a z).
    { intros z Hz. destruct (Nat.eq_dec z n) as [->|Hzn]; [apply c_edge; left; reflexivity|].
      apply Hub. apply Sc. apply Hc.
      - specialize (Dr a). rewrite Nat.eqb_refl in Dr. lia.
      - rewrite Dr. cbn [deg] in Hz.
        destruct (Nat.eqb_spec a z), (Nat.eqb_spec n z), (Nat.eqb_spec b z); try congruence; lia. }
    intros x y Hx Hy. eapply c_trans; [apply c_sym; apply K; exact Hx|apply K; exact Hy].
  - apply acyclic_cons. split.
    + apply acyclic_cons. split; [exact Ar|]. intro C. apply Iso in C. congruence.
    + intro C. apply conn_cons_split in C. destruct C as [C|[[C1 C2]|[C1 C2]]].
      * apply c_sym in C. apply Iso in C. congruence.
      * apply c_sym in C1. apply Iso in C1. congruence.
      * apply Nab. exact C1.
  - intro x. rewrite (Hl x), Dr. cbn [deg].
    destruct (Nat.eqb_spec a x), (Nat.eqb_spec n x), (Nat.eqb_spec b x); try congruence; subst; try lia.
Qed.

(* ------------------------------------------------------------------ folding a sibling onto a sibling *)
Lemma reattach1_perm j j' b g : forall g1, reattach1 j j' b g = Some g1 ->
  exists r e e', Permutation g (e :: r) /\ Permutation g1 (e' :: r) /\
                 ((e = (j, b) /\ e' = (j', b)) \/ (e = (b, j) /\ e' = (b, j'))).
Proof.
  induction g as [|[u v] g0 IH]; intros g1 H; cbn [reattach1] in H; [discriminate|].
  destruct (Nat.eqb u j && Nat.eqb v b) eqn:E1.
  - injection H as <-. apply andb_true_iff in E1. destruct E1 as [A B]. apply Nat.eqb_eq in A, B. subst.
    exists g0, (j, b), (j', b). split; [apply Permutation_refl|]. split; [apply Permutation_refl|]. left. tauto.
  - destruct (Nat.eqb u b && Nat.eqb v j) eqn:E2.
    + injection H as <-. apply andb_true_iff in E2. destruct E2 as [A B]. apply Nat.eqb_eq in A, B. subst.
      exists g0, (b, j), (b, j'). split; [apply Permutation_refl|]. split; [apply Permutation_refl|]. right. tauto.
    + destruct (reattach1 j j' b g0) as [g2|]; [|discriminate]. injection H as <-.
      destruct (IH g2 eq_refl) as (r & e & e' & P0 & P2 & K).
      exists ((u, v) :: r), e, e'. split; [|split; [|exact K]].
      * eapply Permutation_trans; [apply perm_skip; exact P0|apply perm_swap].
      * eapply Permutation_trans; [apply perm_skip; exact P2|apply perm_swap].
Qed.

Lemma joins_conn a b e r : In e r -> joins a b e = true -> conn r a b.
Proof.
  intros Hin J. unfold joins in J. destruct e as [p q]. cbn [fst snd] in J.
  rewrite orb_true_iff, !andb_true_iff, !Nat.eqb_eq in J. destruct J as [[-> ->]|[-> ->]].
  - apply c_edge. exact Hin.
  - apply c_sym. apply c_edge. exact Hin.
Qed.

Lemma reattach1_rehang j j' b g g1 :
  reattach1 j j' b g = Some g1 -> has_edge j j' g = true -> j <> b -> j' <> b ->
  exists r, same_graph g ((j, b) :: r) /\ same_graph g1 ((j', b) :: r) /\ conn r j j'.
Proof.
  intros H He Hjb Hj'b. destruct (reattach1_perm j j' b g g1 H) as (r & e & e' & P0 & P1 & K).
  exists r.
  assert (Cr : conn r j j').
  { unfold has_edge in He. apply existsb_exists in He. destruct He as (f & Hf & Jf).
    assert (Hf2 : In f (e :: r)) by (eapply Permutation_in; [exact P0|exact Hf]).
    destruct Hf2 as [<-|Hf2]; [|exact (joins_conn j j' f r Hf2 Jf)].
    exfalso. unfold joins in Jf. rewrite orb_true_iff, !andb_true_iff, !Nat.eqb_eq in Jf.
    destruct K as [[-> _]|[-> _]]; cbn [fst snd] in Jf; destruct Jf as [[A B]|[A B]]; congruence. }
  destruct K as [[-> ->]|[-> ->]].
  - split; [apply same_graph_perm; exact P0|]. split; [apply same_graph_perm; exact P1|exact Cr].
  - split; [|split; [|exact Cr]].
    + eapply same_graph_trans; [apply same_graph_perm; exact P0|apply same_graph_flip].
    + eapply same_graph_trans; [apply same_graph_perm; exact P1|apply same_graph_flip].
Qed.

(* an edge s-u may be re-hung to t-u when s and t are joined by the rest of the graph *)
Lemma rehang r s t u : conn r s t ->
  (forall x y, conn ((s, u) :: r) x y <-> conn ((t, u) :: r) x y) /\ (acyclic ((s, u) :: r) -> acyclic ((t, u) :: r)).
Proof.
  intro Cst. split.
  - intros x y. split; apply conn_sub; intros p q [E|Hin]; try (apply c_edge; right; exact Hin); inversion E; subst.
    + eapply c_trans; [apply conn_cons_mono; exact Cst|apply c_edge; left; reflexivity].
    + eapply c_trans; [apply conn_cons_mono; apply c_sym; exact Cst|apply c_edge; left; reflexivity].
  - rewrite !acyclic_cons. intros [A N]. split; [exact A|]. intro C. apply N. eapply c_trans; [exact Cst|exact C].
Qed.

Lemma fold_spec g s t u g' :
  is_tree g -> fold s t u g = Some g' ->
  is_tree g' /\ s <> t /\ s <> u /\ t <> u /\ deg g s >= 2 /\ deg g t >= 1 /\ deg g u >= 1 /\
  forall x, deg g' x = if Nat.eqb x u then 0 else if Nat.eqb x t then deg g t + deg g u - 1
                       else if Nat.eqb x s then deg g s - 1 else deg g x.
Proof.
  intros Ht H. unfold fold in H.
  destruct (negb (Nat.eqb s t) && negb (Nat.eqb s u) && negb (Nat.eqb t u) && has_edge s t g) eqn:G; [|discriminate].
  rewrite !andb_true_iff, !negb_true_iff, !Nat.eqb_neq in G. destruct G as (((Hst & Hsu) & Htu) & He).
  destruct (reattach1 s t u g) as [g1|] eqn:Hr; [|discriminate].
  destruct (reattach1_rehang s t u g g1 Hr He Hsu Htu) as (r & (C0 & A0 & D0) & (C1 & A1 & D1) & Cst).
  destruct (rehang r s t u Cst) as [RC RA].
  assert (Drst : deg r s > 0 /\ deg r t > 0).
  { apply conn_nodes in Cst. destruct Cst as [E|K]; [congruence|exact K]. }
  assert (Ht1 : is_tree g1).
  { destruct Ht as [Hc Ha]. split.
    - intros x y Hx Hy. apply C1. apply RC. apply C0. apply Hc.
      + rewrite D0. rewrite D1 in Hx. cbn [deg] in *.
        destruct (Nat.eqb_spec s x), (Nat.eqb_spec t x), (Nat.eqb_spec u x); subst; lia.
      + rewrite D0. rewrite D1 in Hy. cbn [deg] in *.
        destruct (Nat.eqb_spec s y), (Nat.eqb_spec t y), (Nat.eqb_spec u y); subst; lia.
    - apply A1. apply RA. apply A0. exact Ha. }
  destruct (contract_any_spec g1 t u g' Ht1 H) as (Ht' & _ & D).
  assert (E0 : forall z, deg g z = (if Nat.eqb s z then 1 else 0) + (if Nat.eqb u z then 1 else 0) + deg r z)
    by (intro z; rewrite D0; reflexivity).
  assert (E1 : forall z, deg g1 z = (if Nat.eqb t z then 1 else 0) + (if Nat.eqb u z then 1 else 0) + deg r z)
    by (intro z; rewrite D1; reflexivity).
  split; [exact Ht'|]. split; [exact Hst|]. split; [exact Hsu|]. split; [exact Htu|].
  pose proof (E0 s) as Es. pose proof (E0 t) as Et. pose proof (E0 u) as Eu.
  pose proof (E1 s) as Fs. pose proof (E1 t) as Ft. pose proof (E1 u) as Fu.
  rewrite Nat.eqb_refl in Es. rewrite Nat.eqb_refl in Eu. rewrite Nat.eqb_refl in Ft. rewrite Nat.eqb_refl in Fu.
  destruct (Nat.eqb_spec u s); [congruence|]. destruct (Nat.eqb_spec s t); [congruence|]. destruct (Nat.eqb_spec u t); [congruence|].
  destruct (Nat.eqb_spec s u); [congruence|]. destruct (Nat.eqb_spec t s); [congruence|]. destruct (Nat.eqb_spec t u); [congruence|].
  split; [lia|]. split; [lia|]. split; [lia|].
  intro x. rewrite (D x).
  destruct (Nat.eqb_spec x u) as [->|Hxu]; [reflexivity|].
  destruct (Nat.eqb_spec x t) as [->|Hxt]; [lia|].
  rewrite (E1 x), (E0 x).
  destruct (Nat.eqb_spec x s) as [->|Hxs].
  - destruct (Nat.eqb_spec t s); [congruence|]. destruct (Nat.eqb_spec u s); [congruence|]. lia.
  - destruct (Nat.eqb_spec s x); [congruence|]. destruct (Nat.eqb_spec t x); [congruence|].
    destruct (Nat.eqb_spec u x); [congruence|]. lia.
Qed.

Theorem fold_tree g s t u g' : is_tree g -> fold s t u g = Some g' -> is_tree g'.
Proof. intros Ht H. exact (proj1 (fold_spec g s t u g' Ht H)). Qed.

(* moveJunctionAlongCommonEdge, one turn of the loop over commonEdges[1..]: neither sibling is a connector end and the
   junction node keeps two edges *)
Theorem fold_preserves g T s t u g' :
  is_tree g -> leaves_are g T -> fold s t u g = Some g' -> 3 <= deg g s -> 2 <= deg g t -> 2 <= deg g u ->
  is_tree g' /\ leaves_are g' T.
Proof.
  intros Ht Hl H Hs Htt Hu. destruct (fold_spec g s t u g' Ht H) as (Ht' & Hst & Hsu & Htu & _ & _ & _ & D).
  split; [exact Ht'|]. intro x. rewrite (Hl x), (D x).
  destruct (Nat.eqb_spec x u) as [->|]; [lia|]. destruct (Nat.eqb_spec x t) as [->|]; [lia|].
  destruct (Nat.eqb_spec x s) as [->|]; lia.
Qed.

(* a sibling that is a connector end (a terminal leaf) is swallowed: the leaf set shrinks *)
Theorem fold_leaf_drops g T s t u g' :
  is_tree g -> leaves_are g T -> fold s t u g = Some g' -> deg g u = 1 ->
  In u T /\ deg g' u = 0 /\ ~ leaves_are g' T.
Proof.
  intros Ht Hl H Hu. destruct (fold_spec g s t u g' Ht H) as (_ & _ & _ & _ & _ & _ & _ & D).
  assert (HuT : In u T) by (apply Hl; exact Hu).
  assert (D0 : deg g' u = 0) by (rewrite (D u), Nat.eqb_refl; reflexivity).
  split; [exact HuT|]. split; [exact D0|]. intro L. apply L in HuT. lia.
Qed.

(* ------------------------------------------------------------------ dropping the emptied junction node *)
Lemma drop_leaf_spec g s t g' :
  is_tree g -> drop_leaf s t g = Some g' ->
  is_tree g' /\ s <> t /\
  forall x, deg g' x = if Nat.eqb x s then 0 else if Nat.eqb x t then deg g t - 1 else deg g x.
Proof.
  intros [Hc Ha] H. unfold drop_leaf in H.
  destruct (Nat.eqb_spec (deg g s) 1) as [Hs|]; [|discriminate].
  destruct (Nat.eqb_spec s t) as [|Hst]; [discriminate|]. cbn [negb andb] in H.
  destruct (remove_edge_same s t g g' H) as (Sc & Sa & Sd).
  assert (Dr : forall x, deg g x = (if Nat.eqb s x then 1 else 0) + (if Nat.eqb t x then 1 else 0) + deg g' x).
  { intro x. rewrite Sd. reflexivity. }
  assert (Hs0 : deg g' s = 0). { specialize (Dr s). rewrite Nat.eqb_refl in Dr. lia. }
  split; [split|split; [exact Hst|]].
  - intros x y Hx Hy.
    assert (Cg : conn ((s, t) :: g') x y) by (apply Sc; apply Hc; rewrite Dr; lia).
    apply conn_cons_split in Cg. destruct Cg as [C|[[C1 C2]|[C1 C2]]]; [exact C| |].
    + apply conn_nodes in C1. destruct C1 as [->|[_ K]]; lia.
    + apply conn_nodes in C2. destruct C2 as [<-|[K _]]; lia.
  - apply Sa in Ha. apply acyclic_cons in Ha. tauto.
  - intro x. pose proof (Dr x) as Dx. pose proof (Dr t) as Dt. rewrite Nat.eqb_refl in Dt.
    destruct (Nat.eqb_spec x s) as [->|Hxs]; [exact Hs0|].
    destruct (Nat.eqb_spec x t) as [->|Hxt]; [destruct (Nat.eqb_spec s t); [congruence|lia]|].
    destruct (Nat.eqb_spec s x); [congruence|]. destruct (Nat.eqb_spec t x); [congruence|]. lia.
Qed.

(* moveJunctionAlongCommonEdge with otherEdges.empty(): the last fold leaves the old junction node with one edge, and
   that node and edge are deleted *)
Theorem fold_drop_preserves g T s t u g' :
  is_tree g -> leaves_are g T -> fold_drop s t u g = Some g' -> deg g s = 2 -> 2 <= deg g t -> 2 <= deg g u ->
  is_tree g' /\ leaves_are g' T.
Proof.
  intros Ht Hl H Hs Htt Hu. unfold fold_drop in H. destruct (fold s t u g) as [g1|] eqn:Hf; [|discriminate].
  destruct (fold_spec g s t u g1 Ht Hf) as (Ht1 & Hst & Hsu & Htu & _ & _ & _ & D1).
  destruct (drop_leaf_spec g1 s t g' Ht1 H) as (Ht' & _ & D).
  split; [exact Ht'|]. intro x. rewrite (Hl x), (D x), (D1 x), (D1 t), Nat.eqb_refl.
  destruct (Nat.eqb_spec t u); [congruence|].
  destruct (Nat.eqb_spec x s) as [->|]; [lia|]. destruct (Nat.eqb_spec x t) as [->|]; [lia|].
  destruct (Nat.eqb_spec x u) as [->|]; lia.
Qed.

Theorem fold_drop_tree g s t u g' : is_tree g -> fold_drop s t u g = Some g' -> is_tree g'.
Proof.
  intros Ht H. unfold fold_drop in H. destruct (fold s t u g) as [g1|] eqn:Hf; [|discriminate].
  exact (proj1 (drop_leaf_spec g1 s t g' (fold_tree g s t u g1 Ht Hf) H)).
Qed.

(* ------------------------------------------------------------------ MTST: one more edge of a bridging path *)
Theorem bridge_preserves_forest g a b g' : acyclic g -> bridge a b g = Some g' -> acyclic g' /\ ~ conn g a b.
Proof.
  intros A H. unfold bridge in H. destruct (uf_same (comp_uf g) a b) eqn:E; [discriminate|]. injection H as <-.
  assert (N : ~ conn g a b).
  { intro C. apply (uf_same_spec (comp_uf g) g a b (comp_uf_rep g)) in C. congruence. }
  split; [|exact N]. apply acyclic_cons. split; assumption.
Qed.

(* ------------------------------------------------------------------ the connector-level reading *)
Lemma smooth1_preserves J g T n : tree_inv g T -> tree_inv (smooth1 J g n) T.
Proof.
  intros [Ht Hl]. unfold smooth1.
  destruct (Nat.eqb_spec (deg g n) 2) as [Hn|]; [|split; assumption]. cbn [andb].
  destruct (negb (memb n J)); [|split; assumption].
  destruct (nbr n g) as [a|]; [|split; assumption].
  destruct (leaf_safe (deg g a) 2) eqn:Hs; [|split; assumption].
  destruct (contract_any a n g) as [g'|] eqn:Hc; cbn [or_else]; [|split; assumption].
  rewrite <- Hn in Hs. destruct (contract_any_preserves g T a n g' Ht Hl Hc Hs) as [Ht' Hl'].
  rewrite map_ren_notin in Hl'; [split; assumption|]. intro K. apply Hl in K. lia.
Qed.

Theorem smooth_preserves J g T : is_tree g -> leaves_are g T -> is_tree (smooth J g) /\ leaves_are (smooth J g) T.
Proof.
  intros Ht Hl. unfold smooth. generalize (nodup Nat.eq_dec (nodes g)). intro l.
  assert (I : tree_inv g T) by (split; assumption). clear Ht Hl. revert g I.
  induction l as [|n l IH]; intros g I; cbn [fold_left]; [exact I|].
  apply IH. apply smooth1_preserves. exact I.
Qed.

(* ------------------------------------------------------------------ client removal of a degree-2 junction *)
Theorem remove_junction_preserves g T j g' :
  is_tree g -> leaves_are g T -> remove_junction j g = Some g' ->
  is_tree g' /\ leaves_are g' T /\ deg g' j = 0 /\ forall x, x <> j -> deg g' x = deg g x.
Proof.
  intros Ht Hl H. unfold remove_junction in H.
  destruct (Nat.eqb_spec (deg g j) 2) as [Hj|]; [|discriminate].
  destruct (nbr j g) as [a|]; [|discriminate].
  destruct (contract_any_spec g a j g' Ht H) as (Ht' & Hne & D).
  assert (Dj : deg g' j = 0) by (rewrite (D j), Nat.eqb_refl; reflexivity).
  assert (Dx : forall x, x <> j -> deg g' x = deg g x).
  { intros x Hx. rewrite (D x). destruct (Nat.eqb_spec x j); [contradiction|].
    destruct (Nat.eqb_spec x a) as [->|]; lia. }
  split; [exact Ht'|]. split; [|split; assumption].
  intro x. rewrite (Hl x). destruct (Nat.eq_dec x j) as [->|Hx]; [lia|]. rewrite (Dx x Hx). tauto.
Qed.

(* the removed junction's two connectors have become one connector between its two former neighbours *)
Example remove_junction_merges_connectors :
  (* chain of three junctions 10 - 11 - 12 between four terminals, in the three connector orientations *)
  remove_junction 11 [(10, 1); (2, 10); (11, 10); (11, 12); (12, 3); (4, 12)] = Some [(10, 1); (2, 10); (10, 12); (12, 3); (4, 12)] /\
  remove_junction 11 [(10, 1); (2, 10); (10, 11); (12, 11); (12, 3); (4, 12)] = Some [(10, 1); (2, 10); (12, 10); (12, 3); (4, 12)] /\
  remove_junction 11 [(10, 1); (2, 10); (10, 11); (11, 12); (12, 3); (4, 12)] = Some [(10, 1); (2, 10); (10, 12); (12, 3); (4, 12)] /\
  (* a junction next to a terminal: terminal 1 - 11 - 10 *)
  remove_junction 11 [(1, 11); (11, 10); (10, 2); (10, 3)] = Some [(1, 10); (10, 2); (10, 3)] /\
  (* guard: a junction with three connectors is left alone *)
  remove_junction 10 [(1, 11); (11, 10); (10, 2); (10, 3)] = None.
Proof. vm_compute. repeat split. Qed.

Theorem cop_preserves T g o : tree_inv g T -> tree_inv (apply_cop T g o) T.
Proof.
  intros [Ht Hl]. destruct o as [h|j]; cbn [apply_cop].
  - exact (C12_ops_step T g h (conj Ht Hl)).
  - destruct (remove_junction j g) as [g'|] eqn:E; cbn [or_else]; [|split; assumption].
    destruct (remove_junction_preserves g T j g' Ht Hl E) as (A & B & _). split; assumption.
Qed.

Theorem client_ops_preserve T ops : forall g,
  is_tree g -> leaves_are g T -> is_tree (run_cops T g ops) /\ leaves_are (run_cops T g ops) T.
Proof.
  induction ops as [|o r IH]; intros g Ht Hl; unfold run_cops in *; cbn [fold_left]; [tauto|].
  destruct (cop_preserves T g o (conj Ht Hl)) as [Ht' Hl']. apply IH; assumption.
Qed.

(* non-vacuity: remove the middle junction of a chain, split an end junction, remove the next degree-2 junction *)
Example client_ops_nonvacuous :
  let T := [1; 2; 3; 4] in
  let g := [(10, 1); (2, 10); (11, 10); (11, 12); (12, 3); (4, 12)] in
  is_tree_with_leaves g T = true /\
  run_cops T g [CRemoveJunction 11; CHop (SplitJunction 12 13 [3; 4]); CRemoveJunction 12] =
    [(10, 1); (2, 10); (10, 13); (13, 3); (4, 13)] /\
  is_tree_with_leaves (run_cops T g [CRemoveJunction 11; CHop (SplitJunction 12 13 [3; 4]); CRemoveJunction 12]) T = true.
Proof. vm_compute. repeat split. Qed.

(* the defective variant (surviving connector left on the deleted junction): the hyperedge falls apart - the witness is the
   chain of the seeded demonstration, four terminals and three junctions, middle junction removed *)
Theorem remove_junction_wrong_end_refuted :
  exists g T j g',
    is_tree g /\ leaves_are g T /\ deg g j = 2 /\ remove_junction_wrong_end j g = Some g' /\
    ~ connected g' /\ ~ leaves_are g' T /\ is_tree_with_leaves g' T = false.
Proof.
  exists [(10, 1); (2, 10); (11, 10); (11, 12); (12, 3); (4, 12)], [1; 2; 3; 4], 11,
         [(10, 1); (2, 10); (11, 10); (12, 3); (4, 12)].
  assert (E : is_tree_with_leaves [(10, 1); (2, 10); (11, 10); (11, 12); (12, 3); (4, 12)] [1; 2; 3; 4] = true) by (vm_compute; reflexivity).
  apply tree_checker_sound_complete in E. destruct E as (Ec & Ea & El).
  split; [split; assumption|]. split; [exact El|]. split; [vm_compute; reflexivity|]. split; [vm_compute; reflexivity|].
  split; [|split].
  - intro K. apply connectedb_spec in K. vm_compute in K. discriminate.
  - intro K. apply leavesb_spec in K. vm_compute in K. discriminate.
  - vm_compute. reflexivity.
Qed.

(* ------------------------------------------------------------------ all logged operations *)
Theorem seg_op_preserves g T o st' :
  is_bridge_op o = false -> tree_inv g T -> apply_sop (g, T) o = Some st' -> tree_inv (fst st') (snd st').
Proof.
  intros Hb [Ht Hl] H. unfold apply_sop in H. cbn [fst snd] in H.
  destruct (sop_graph g o) as [g'|] eqn:Hg; [|discriminate].
  destruct (sop_safe g o) eqn:Hs; [|discriminate]. injection H as <-. cbn [fst snd].
  destruct o as [a b|a b n|s t u|s t u|a b]; cbn [sop_graph sop_safe sop_leaves] in *.
  - exact (contract_any_preserves g T a b g' Ht Hl Hg Hs).
  - exact (subdivide_preserves g T a b n g' Ht Hl Hg).
  - rewrite !andb_true_iff, !Nat.leb_le in Hs. destruct Hs as [[H1 H2] H3].
    exact (fold_preserves g T s t u g' Ht Hl Hg H1 H2 H3).
  - rewrite !andb_true_iff, !Nat.leb_le, Nat.eqb_eq in Hs. destruct Hs as [[H1 H2] H3].
    exact (fold_drop_preserves g T s t u g' Ht Hl Hg H1 H2 H3).
  - discriminate.
Qed.

Theorem seg_ops_preserve ops : forall g T st',
  forallb (fun o => negb (is_bridge_op o)) ops = true -> tree_inv g T -> run_sops (g, T) ops = Some st' ->
  tree_inv (fst st') (snd st') /\ length (snd st') = length T.
Proof.
  induction ops as [|o r IH]; intros g T st' Hb I H; cbn [run_sops] in H.
  - injection H as <-. split; [exact I|reflexivity].
  - cbn [forallb] in Hb. apply andb_true_iff in Hb. destruct Hb as [Hb1 Hb2]. apply negb_true_iff in Hb1.
    destruct (apply_sop (g, T) o) as [[g1 T1]|] eqn:Ha; [|discriminate].
    pose proof (seg_op_preserves g T o (g1, T1) Hb1 I Ha) as I1. cbn [fst snd] in I1.
    destruct (IH g1 T1 st' Hb2 I1 H) as [I2 L]. split; [exact I2|]. rewrite L.
    unfold apply_sop in Ha. cbn [fst snd] in Ha. destruct (sop_graph g o); [|discriminate].
    destruct (sop_safe g o); [|discriminate]. injection Ha as _ <-.
    destruct o; cbn [sop_leaves]; try reflexivity. apply map_length.
Qed.

(* without the guards the operations still keep a tree (so a failing guard is exactly a change of the leaf set) *)
Theorem seg_op_tree g o g' : is_bridge_op o = false -> is_tree g -> sop_graph g o = Some g' -> is_tree g'.
Proof.
  intros Hb Ht H. destruct o as [a b|a b n|s t u|s t u|a b]; cbn [sop_graph] in H.
  - exact (contract_any_tree g a b g' Ht H).
  - exact (proj1 (subdivide_preserves g (leaves g) a b n g' Ht (leaves_spec g) H)).
  - exact (fold_tree g s t u g' Ht H).
  - exact (fold_drop_tree g s t u g' Ht H).
  - discriminate.
Qed.

Theorem mtst_ops_forest ops : forall g T st',
  forallb is_bridge_op ops = true -> acyclic g -> run_sops (g, T) ops = Some st' -> acyclic (fst st').
Proof.
  induction ops as [|o r IH]; intros g T st' Hb A H; cbn [run_sops] in H.
  - injection H as <-. exact A.
  - cbn [forallb] in Hb. apply andb_true_iff in Hb. destruct Hb as [Hb1 Hb2].
    destruct (apply_sop (g, T) o) as [[g1 T1]|] eqn:Ha; [|discriminate].
    apply (IH g1 T1 st' Hb2); [|exact H].
    unfold apply_sop in Ha. cbn [fst snd] in Ha. destruct (sop_graph g o) as [g2|] eqn:Hg; [|discriminate].
    destruct (sop_safe g o); [|discriminate]. injection Ha as <- _.
    destruct o; try discriminate. cbn [sop_graph] in Hg. exact (proj1 (bridge_preserves_forest g a b g2 A Hg)).
Qed.

(* ------------------------------------------------------------------ non-vacuity *)
(* junction 10 with a zigzag towards terminal end 1, two bends 21/22 at one place on the way to 2 and 3, a dummy end segment *)
Example seg_ops_nonvacuous :
  let g := [(10, 20); (20, 1); (10, 21); (21, 2); (10, 22); (22, 23); (23, 3)] in
  let T := [1; 2; 3] in
  is_tree_with_leaves g T = true /\
  run_sops (g, T) [SContract 20 1; SSubdivide 22 23 30; SFold 10 21 22; SContract 23 3] =
    Some ([(21, 30); (30, 23); (10, 20); (10, 21); (21, 2)], [20; 2; 23]) /\
  run_sops (g, T) [SFold 10 21 22; SFoldDrop 10 21 20] = Some ([(21, 1); (21, 2); (21, 23); (23, 3)], T) /\
  smooth [10] g = [(10, 1); (10, 2); (10, 3)] /\
  run_sops ([], []) [SBridge 1 2; SBridge 2 3; SBridge 3 1] = None /\
  run_sops ([], []) [SBridge 1 2; SBridge 2 3; SBridge 4 3] = Some ([(4, 3); (2, 3); (1, 2)], []).
Proof. vm_compute. repeat split. Qed.

(* ------------------------------------------------------------------ the mechanism of finding F-j (terminal_on_tree_path) *)
(* Witness taken from a real H2 log (corpus/c12_h2_fj.json, replayed on every run: shapes (205,300) (350,50) (465,545) 30x30 with
   centre pins, obstacle (195,435)-(235,460), junction (87,58), star of three connectors, rerouting registered by junction,
   improveHyperedgeRoutesMovingAddingAndDeletingJunctions; first transaction; node numbers as the check assigns them).  The MTST puts the new junction (node 1) on the
   pin of the first shape; that shape's connector end (node 3) hangs on it by a zero-length segment.  removeZeroLengthEdges
   then logs "CONTRACT 1 3": the connector end is merged into the junction, which keeps degree 2 - the hyperedge tree has lost
   a terminal leaf (and the zero-length connector J-S is no longer part of the tree, so its route is never written). *)
Definition fj_g : graph :=
  [(1, 2); (1, 3); (1, 4); (2, 5); (4, 6); (5, 7); (6, 8); (7, 9); (8, 10); (9, 11); (10, 12); (11, 13); (13, 14); (14, 15);
   (15, 16); (16, 17)].
Definition fj_T : list nat := [3; 12; 17].

Theorem contract_terminal_into_junction_refuted :
  exists g T a b g',
    is_tree g /\ leaves_are g T /\ contract_any a b g = Some g' /\ sop_safe g (SContract a b) = false /\
    is_tree g' /\ ~ leaves_are g' (map (ren b a) T) /\ length (leaves g') < length T.
Proof.
  exists fj_g, fj_T, 1, 3.
  destruct (contract_any 1 3 fj_g) as [g'|] eqn:E; [|vm_compute in E; discriminate].
  exists g'.
  assert (K : is_tree_with_leaves fj_g fj_T = true) by (vm_compute; reflexivity).
  apply tree_checker_sound_complete in K. destruct K as (Hc & Ha & Hl).
  assert (Ht : is_tree fj_g) by (split; assumption).
  destruct (contract_leaf_into_branch_drops fj_g fj_T 1 3 g' Ht Hl E) as (_ & _ & _ & N);
    [vm_compute; reflexivity|vm_compute; lia|].
  split; [exact Ht|]. split; [exact Hl|]. split; [reflexivity|]. split; [vm_compute; reflexivity|].
  split; [exact (contract_any_tree fj_g 1 3 g' Ht E)|]. split; [exact N|].
  vm_compute in E. injection E as <-. vm_compute. lia.
Qed.
