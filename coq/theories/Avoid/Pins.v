(* C11 - proofs about the pin model (Avoid/PinsModel.v) and its tie to the cpp2v translation Gen/ConnPin.v. *)
From Adapt Require Import Num.Qaux Avoid.PinsModel Gen.ConnPin.
Local Open Scope Q_scope.

(* ------------------------------------------------------------------ tie to the generated code (T) *)
Lemma gen_constants_Q :
  ATTACH_POS_TOP == POS_TOP /\ ATTACH_POS_CENTRE == POS_CENTRE /\ ATTACH_POS_BOTTOM == POS_BOTTOM /\
  ATTACH_POS_LEFT == POS_LEFT /\ ATTACH_POS_RIGHT == POS_RIGHT /\
  ATTACH_POS_MIN_OFFSET == POS_MIN_OFFSET /\ ATTACH_POS_MAX_OFFSET == POS_MAX_OFFSET.
Proof. repeat split; vm_compute; reflexivity. Qed.

Lemma gen_constants_Z :
  ConnDirNone = DirNone /\ ConnDirUp = DirUp /\ ConnDirDown = DirDown /\ ConnDirLeft = DirLeft /\
  ConnDirRight = DirRight /\ ConnDirAll = DirAll.
Proof. repeat split; reflexivity. Qed.

Lemma Qeqb_const a c c' : c == c' -> Qeqb a c = Qeqb a c'.
Proof. intro H. rewrite H. reflexivity. Qed.

(* the translated ShapeConnectionPin::directions is the model's pin_directions *)
Theorem gen_directions_eq p : directions p = pin_directions p.
Proof.
  unfold directions, pin_directions.
  change ATTACH_POS_LEFT with POS_LEFT. change ATTACH_POS_RIGHT with POS_RIGHT.
  change ATTACH_POS_TOP with POS_TOP. change ATTACH_POS_BOTTOM with POS_BOTTOM.
  change ConnDirNone with DirNone. change ConnDirLeft with DirLeft. change ConnDirRight with DirRight.
  change ConnDirUp with DirUp. change ConnDirDown with DirDown. change ConnDirAll with DirAll.
  destruct (Z.eqb (p_dirs p) DirNone); [|reflexivity].
  destruct (Qeqb (p_xoff p) POS_LEFT); destruct (Qeqb (p_yoff p) POS_TOP);
    destruct (Qeqb (p_xoff p) POS_RIGHT); destruct (Qeqb (p_yoff p) POS_BOTTOM); reflexivity.
Qed.

(* directions() never answers ConnDirNone when the stored mask is a legal flag set: a pin always offers a direction *)
Lemma pin_directions_nonzero p : (0 <= p_dirs p)%Z -> pin_directions p <> DirNone.
Proof.
  intro Hnn. unfold pin_directions.
  destruct (Z.eqb (p_dirs p) DirNone) eqn:E.
  - match goal with |- (if Z.eqb ?d DirNone then _ else _) <> _ => destruct (Z.eqb d DirNone) eqn:E2 end.
    + discriminate.
    + apply Z.eqb_neq in E2. exact E2.
  - apply Z.eqb_neq in E. exact E.
Qed.

(* ------------------------------------------------------------------ position: inside the bounding box, on the named side *)
Definition box_valid (b : box) : Prop := bminx b <= bmaxx b /\ bminy b <= bmaxy b.
Definition in_closed_box (b : box) (p : pt) : Prop :=
  bminx b <= px p /\ px p <= bmaxx b /\ bminy b <= py p /\ py p <= bmaxy b.
(* the documented parameter ranges of the two constructors *)
Definition offset_valid (extent off : Q) (prop : bool) : Prop :=
  if prop then 0 <= off /\ off <= 1 else (0 <= off /\ off <= extent) \/ off == POS_MAX_OFFSET.

Lemma pin_x_in_box b xoff inside prop :
  bminx b <= bmaxx b -> offset_valid (bwidth b) xoff prop -> 0 <= inside -> inside <= bwidth b ->
  bminx b <= pin_x b xoff inside prop /\ pin_x b xoff inside prop <= bmaxx b.
Proof.
  unfold pin_x, offset_valid, bwidth, POS_LEFT, POS_RIGHT, POS_TOP, POS_BOTTOM, POS_MIN_OFFSET, POS_MAX_OFFSET.
  intros Hv Ho Hi Hw. destruct prop.
  - destruct Ho as [H0 H1].
    destruct (Qeqb xoff 0) eqn:E1; [qb2p; lra|].
    destruct (Qeqb xoff 1) eqn:E2; [qb2p; lra|].
    split; nra.
  - destruct (Qeqb xoff 0) eqn:E1; [qb2p; lra|].
    destruct (Qeqb xoff (inject_Z (-1)) || Qeqb xoff (bmaxx b - bminx b)) eqn:E2; [lra|].
    apply orb_false_iff in E2. destruct E2 as [E2 E3]. qb2p.
    destruct Ho as [[H0 H1]|H]; [lra|contradiction].
Qed.

Lemma pin_y_in_box b yoff inside prop :
  bminy b <= bmaxy b -> offset_valid (bheight b) yoff prop -> 0 <= inside -> inside <= bheight b ->
  bminy b <= pin_y b yoff inside prop /\ pin_y b yoff inside prop <= bmaxy b.
Proof.
  unfold pin_y, offset_valid, bheight, POS_LEFT, POS_RIGHT, POS_TOP, POS_BOTTOM, POS_MIN_OFFSET, POS_MAX_OFFSET.
  intros Hv Ho Hi Hw. destruct prop.
  - destruct Ho as [H0 H1].
    destruct (Qeqb yoff 0) eqn:E1; [qb2p; lra|].
    destruct (Qeqb yoff 1) eqn:E2; [qb2p; lra|].
    split; nra.
  - destruct (Qeqb yoff 0) eqn:E1; [qb2p; lra|].
    destruct (Qeqb yoff (inject_Z (-1)) || Qeqb yoff (bmaxy b - bminy b)) eqn:E2; [lra|].
    apply orb_false_iff in E2. destruct E2 as [E2 E3]. qb2p.
    destruct Ho as [[H0 H1]|H]; [lra|contradiction].
Qed.

(* "on the named side": the special offsets put the pin at distance insideOffset from that side *)
Lemma pin_x_named_side b xoff inside :
  (xoff == POS_LEFT -> pin_x b xoff inside true == bminx b + inside) /\
  (xoff == POS_RIGHT -> pin_x b xoff inside true == bmaxx b - inside) /\
  (xoff == POS_MIN_OFFSET -> pin_x b xoff inside false == bminx b + inside) /\
  (xoff == POS_MAX_OFFSET -> pin_x b xoff inside false == bmaxx b - inside).
Proof.
  unfold pin_x, POS_LEFT, POS_RIGHT, POS_TOP, POS_BOTTOM, POS_MIN_OFFSET, POS_MAX_OFFSET.
  repeat split; intro H.
  - destruct (Qeqb xoff 0) eqn:E; qb2p; [reflexivity|contradiction].
  - destruct (Qeqb xoff 0) eqn:E; qb2p; [lra|].
    destruct (Qeqb xoff 1) eqn:E1; qb2p; [reflexivity|contradiction].
  - destruct (Qeqb xoff 0) eqn:E; qb2p; [reflexivity|contradiction].
  - destruct (Qeqb xoff 0) eqn:E; qb2p; [rewrite H in E; vm_compute in E; discriminate|].
    destruct (Qeqb xoff (inject_Z (-1))) eqn:E1; qb2p; [reflexivity|contradiction].
Qed.

Lemma pin_y_named_side b yoff inside :
  (yoff == POS_TOP -> pin_y b yoff inside true == bminy b + inside) /\
  (yoff == POS_BOTTOM -> pin_y b yoff inside true == bmaxy b - inside) /\
  (yoff == POS_MIN_OFFSET -> pin_y b yoff inside false == bminy b + inside) /\
  (yoff == POS_MAX_OFFSET -> pin_y b yoff inside false == bmaxy b - inside).
Proof.
  unfold pin_y, POS_LEFT, POS_RIGHT, POS_TOP, POS_BOTTOM, POS_MIN_OFFSET, POS_MAX_OFFSET.
  repeat split; intro H.
  - destruct (Qeqb yoff 0) eqn:E; qb2p; [reflexivity|contradiction].
  - destruct (Qeqb yoff 0) eqn:E; qb2p; [lra|].
    destruct (Qeqb yoff 1) eqn:E1; qb2p; [reflexivity|contradiction].
  - destruct (Qeqb yoff 0) eqn:E; qb2p; [reflexivity|contradiction].
  - destruct (Qeqb yoff 0) eqn:E; qb2p; [rewrite H in E; vm_compute in E; discriminate|].
    destruct (Qeqb yoff (inject_Z (-1))) eqn:E1; qb2p; [reflexivity|contradiction].
Qed.

Theorem pin_in_bbox b xoff yoff inside prop :
  box_valid b -> offset_valid (bwidth b) xoff prop -> offset_valid (bheight b) yoff prop ->
  0 <= inside -> inside <= bwidth b -> inside <= bheight b ->
  in_closed_box b (pin_position b xoff yoff inside prop) /\
  (xoff == POS_LEFT -> px (pin_position b xoff yoff inside true) == bminx b + inside) /\
  (xoff == POS_RIGHT -> px (pin_position b xoff yoff inside true) == bmaxx b - inside) /\
  (yoff == POS_TOP -> py (pin_position b xoff yoff inside true) == bminy b + inside) /\
  (yoff == POS_BOTTOM -> py (pin_position b xoff yoff inside true) == bmaxy b - inside) /\
  (xoff == POS_MIN_OFFSET -> px (pin_position b xoff yoff inside false) == bminx b + inside) /\
  (xoff == POS_MAX_OFFSET -> px (pin_position b xoff yoff inside false) == bmaxx b - inside) /\
  (yoff == POS_MIN_OFFSET -> py (pin_position b xoff yoff inside false) == bminy b + inside) /\
  (yoff == POS_MAX_OFFSET -> py (pin_position b xoff yoff inside false) == bmaxy b - inside).
Proof.
  intros [Hx Hy] Hox Hoy Hi Hw Hh.
  destruct (pin_x_in_box b xoff inside prop Hx Hox Hi Hw) as [X1 X2].
  destruct (pin_y_in_box b yoff inside prop Hy Hoy Hi Hh) as [Y1 Y2].
  destruct (pin_x_named_side b xoff inside) as (A1 & A2 & A3 & A4).
  destruct (pin_y_named_side b yoff inside) as (B1 & B2 & B3 & B4).
  unfold in_closed_box, pin_position; cbn [px py].
  repeat split; assumption.
Qed.

(* non-vacuity: a 60x40 box, pin at the middle of the top side, 4 inside *)
Example pin_in_bbox_nonvacuous :
  let b := mkbox 100 100 160 140 in
  box_valid b /\ offset_valid (bwidth b) (1#2) true /\ offset_valid (bheight b) POS_TOP true /\
  pt_eq (pin_position b (1#2) POS_TOP 4 true) (mkpt 130 104).
Proof. vm_compute. repeat split; discriminate. Qed.

(* ------------------------------------------------------------------ equivariance: pins follow the shape *)
Definition box_eq (a b : box) : Prop :=
  bminx a == bminx b /\ bminy a == bminy b /\ bmaxx a == bmaxx b /\ bmaxy a == bmaxy b.

Lemma pin_x_box_eq a b xoff inside prop : box_eq a b -> pin_x a xoff inside prop == pin_x b xoff inside prop.
Proof.
  intros (H1 & H2 & H3 & H4). unfold pin_x, bwidth.
  assert (Hw : bmaxx a - bminx a == bmaxx b - bminx b) by lra.
  rewrite (Qeqb_const xoff _ _ Hw).
  destruct prop.
  - destruct (Qeqb xoff POS_LEFT); [lra|]. destruct (Qeqb xoff POS_RIGHT); [lra|]. nra.
  - destruct (Qeqb xoff POS_MIN_OFFSET); [lra|].
    destruct (Qeqb xoff POS_MAX_OFFSET || Qeqb xoff (bmaxx b - bminx b)); lra.
Qed.
Lemma pin_y_box_eq a b yoff inside prop : box_eq a b -> pin_y a yoff inside prop == pin_y b yoff inside prop.
Proof.
  intros (H1 & H2 & H3 & H4). unfold pin_y, bheight.
  assert (Hw : bmaxy a - bminy a == bmaxy b - bminy b) by lra.
  rewrite (Qeqb_const yoff _ _ Hw).
  destruct prop.
  - destruct (Qeqb yoff POS_TOP); [lra|]. destruct (Qeqb yoff POS_BOTTOM); [lra|]. nra.
  - destruct (Qeqb yoff POS_MIN_OFFSET); [lra|].
    destruct (Qeqb yoff POS_MAX_OFFSET || Qeqb yoff (bmaxy b - bminy b)); lra.
Qed.

Lemma pin_position_box_add b t xoff yoff inside prop :
  pt_eq (pin_position (box_add b t) xoff yoff inside prop) (pt_add (pin_position b xoff yoff inside prop) t).
Proof.
  unfold pt_eq, pin_position, pt_add, pin_x, pin_y, bwidth, bheight, box_add; cbn [px py bminx bminy bmaxx bmaxy].
  assert (Hw : bmaxx b + px t - (bminx b + px t) == bmaxx b - bminx b) by lra.
  assert (Hh : bmaxy b + py t - (bminy b + py t) == bmaxy b - bminy b) by lra.
  rewrite (Qeqb_const xoff _ _ Hw), (Qeqb_const yoff _ _ Hh).
  split.
  - destruct prop.
    + destruct (Qeqb xoff POS_LEFT); [lra|]. destruct (Qeqb xoff POS_RIGHT); [lra|]. nra.
    + destruct (Qeqb xoff POS_MIN_OFFSET); [lra|].
      destruct (Qeqb xoff POS_MAX_OFFSET || Qeqb xoff (bmaxx b - bminx b)); lra.
  - destruct prop.
    + destruct (Qeqb yoff POS_TOP); [lra|]. destruct (Qeqb yoff POS_BOTTOM); [lra|]. nra.
    + destruct (Qeqb yoff POS_MIN_OFFSET); [lra|].
      destruct (Qeqb yoff POS_MAX_OFFSET || Qeqb yoff (bmaxy b - bminy b)); lra.
Qed.

Lemma Qmin'_add a b t : Qmin' (a + t) (b + t) == Qmin' a b + t.
Proof.
  unfold Qmin'. destruct (Qltb (b + t) (a + t)) eqn:E1, (Qltb b a) eqn:E2; qb2p; lra.
Qed.
Lemma Qmax'_add a b t : Qmax' (a + t) (b + t) == Qmax' a b + t.
Proof.
  unfold Qmax'. destruct (Qltb (a + t) (b + t)) eqn:E1, (Qltb a b) eqn:E2; qb2p; lra.
Qed.
Lemma Qmin'_proper a a' b b' : a == a' -> b == b' -> Qmin' a b == Qmin' a' b'.
Proof. intros Ha Hb. unfold Qmin'. rewrite Ha, Hb. destruct (Qltb b' a'); assumption. Qed.
Lemma Qmax'_proper a a' b b' : a == a' -> b == b' -> Qmax' a b == Qmax' a' b'.
Proof. intros Ha Hb. unfold Qmax'. rewrite Ha, Hb. destruct (Qltb a' b'); assumption. Qed.

Lemma bbox_from_add ps : forall b b' t, box_eq b' (box_add b t) ->
  box_eq (bbox_from b' (poly_add ps t)) (box_add (bbox_from b ps) t).
Proof.
  induction ps as [|p r IH]; intros b b' t H; cbn [bbox_from poly_add map]; [exact H|].
  apply IH. destruct H as (H1 & H2 & H3 & H4).
  unfold box_eq, box_add, pt_add in *; cbn [bminx bminy bmaxx bmaxy px py] in *.
  repeat split.
  - rewrite <- Qmin'_add. apply Qmin'_proper; [assumption|reflexivity].
  - rewrite <- Qmin'_add. apply Qmin'_proper; [assumption|reflexivity].
  - rewrite <- Qmax'_add. apply Qmax'_proper; [assumption|reflexivity].
  - rewrite <- Qmax'_add. apply Qmax'_proper; [assumption|reflexivity].
Qed.

Lemma poly_bbox_add ps t : ps <> [] -> box_eq (poly_bbox (poly_add ps t)) (box_add (poly_bbox ps) t).
Proof.
  destruct ps as [|p r]; [congruence|intros _].
  cbn [poly_bbox poly_add map]. change (map (fun p0 => pt_add p0 t) r) with (poly_add r t).
  apply bbox_from_add. unfold box_eq, box_add, pt_add; cbn [bminx bminy bmaxx bmaxy px py].
  repeat split; reflexivity.
Qed.

(* a proportional pin keeps its proportion of the box under any resize (exactly when no inside offset interferes) *)
Lemma pin_keeps_proportion b xoff yoff inside :
  (inside == 0 \/ (~ xoff == POS_LEFT /\ ~ xoff == POS_RIGHT)) ->
  (inside == 0 \/ (~ yoff == POS_TOP /\ ~ yoff == POS_BOTTOM)) ->
  px (pin_position b xoff yoff inside true) - bminx b == xoff * bwidth b /\
  py (pin_position b xoff yoff inside true) - bminy b == yoff * bheight b.
Proof.
  unfold pin_position, pin_x, pin_y, bwidth, bheight, POS_LEFT, POS_RIGHT, POS_TOP, POS_BOTTOM; cbn [px py].
  intros Hx Hy. split.
  - destruct (Qeqb xoff 0) eqn:E1; [|destruct (Qeqb xoff 1) eqn:E2]; qb2p.
    + destruct Hx as [H|[H _]]; [rewrite E1, H; lra|contradiction].
    + destruct Hx as [H|[_ H]]; [rewrite E2, H; lra|contradiction].
    + lra.
  - destruct (Qeqb yoff 0) eqn:E1; [|destruct (Qeqb yoff 1) eqn:E2]; qb2p.
    + destruct Hy as [H|[H _]]; [rewrite E1, H; lra|contradiction].
    + destruct Hy as [H|[_ H]]; [rewrite E2, H; lra|contradiction].
    + lra.
Qed.

Theorem pin_equivariant :
  (* translation of the polygon translates the pin *)
  (forall poly t p, poly <> [] -> pt_eq (pin_pos_poly (poly_add poly t) p) (pt_add (pin_pos_poly poly p) t)) /\
  (* resize: the pin keeps its proportion of whatever box the shape gets *)
  (forall b b' xoff yoff inside,
      (inside == 0 \/ (~ xoff == POS_LEFT /\ ~ xoff == POS_RIGHT)) ->
      (inside == 0 \/ (~ yoff == POS_TOP /\ ~ yoff == POS_BOTTOM)) ->
      (px (pin_position b xoff yoff inside true) - bminx b) * bwidth b' ==
      (px (pin_position b' xoff yoff inside true) - bminx b') * bwidth b /\
      (py (pin_position b xoff yoff inside true) - bminy b) * bheight b' ==
      (py (pin_position b' xoff yoff inside true) - bminy b') * bheight b) /\
  (* resize with an inside offset: a side pin keeps its distance to its side *)
  (forall b xoff yoff inside,
      (xoff == POS_LEFT -> px (pin_position b xoff yoff inside true) - bminx b == inside) /\
      (xoff == POS_RIGHT -> bmaxx b - px (pin_position b xoff yoff inside true) == inside) /\
      (yoff == POS_TOP -> py (pin_position b xoff yoff inside true) - bminy b == inside) /\
      (yoff == POS_BOTTOM -> bmaxy b - py (pin_position b xoff yoff inside true) == inside)).
Proof.
  split; [|split].
  - intros poly t p Hne. unfold pin_pos_poly.
    pose proof (poly_bbox_add poly t Hne) as Hb.
    pose proof (pin_position_box_add (poly_bbox poly) t (p_xoff p) (p_yoff p) (p_inside p) (p_prop p)) as [Hx Hy].
    unfold pt_eq, pin_position in *; cbn [px py] in *.
    rewrite (pin_x_box_eq _ _ _ _ _ Hb), (pin_y_box_eq _ _ _ _ _ Hb). split; assumption.
  - intros b b' xoff yoff inside Hx Hy.
    destruct (pin_keeps_proportion b xoff yoff inside Hx Hy) as [A1 A2].
    destruct (pin_keeps_proportion b' xoff yoff inside Hx Hy) as [B1 B2].
    rewrite A1, A2, B1, B2. split; ring.
  - intros b xoff yoff inside.
    destruct (pin_x_named_side b xoff inside) as (A1 & A2 & _).
    destruct (pin_y_named_side b yoff inside) as (B1 & B2 & _).
    unfold pin_position; cbn [px py].
    repeat split; intro H; [rewrite (A1 H)|rewrite (A2 H)|rewrite (B1 H)|rewrite (B2 H)]; ring.
Qed.

Example pin_equivariant_nonvacuous :
  let poly := [mkpt 160 100; mkpt 160 140; mkpt 100 140; mkpt 100 100] in
  let p := mkpin 0 1 (3#4) POS_BOTTOM 4 DirDown true true in
  poly <> [] /\ pt_eq (pin_pos_poly poly p) (mkpt 145 136) /\
  pt_eq (pin_pos_poly (poly_add poly (mkpt 10 (-20))) p) (mkpt 155 116).
Proof. vm_compute. repeat split; discriminate. Qed.

(* ------------------------------------------------------------------ bookkeeping invariant *)
Definition Inv (st : state) : Prop :=
  (forall p, p_excl (pin_of st p) = true -> (length (users st p) <= 1)%nat) /\
  (forall e p, In e (users st p) <-> active st e = Some p) /\
  (forall p, NoDup (users st p)).

Lemma Inv_init pins ends shapes : Inv (init pins ends shapes).
Proof.
  unfold Inv, init; cbn. repeat split; intros; try lia; try contradiction; try discriminate. constructor.
Qed.

Lemma remove_nat_In x y l : In y (remove_nat x l) <-> In y l /\ y <> x.
Proof.
  unfold remove_nat. rewrite filter_In, negb_true_iff, Nat.eqb_neq. intuition.
Qed.
Lemma remove_nat_length x l : (length (remove_nat x l) <= length l)%nat.
Proof. unfold remove_nat. induction l; cbn; [lia|]. destruct (negb (x =? a)%nat); cbn; lia. Qed.
Lemma remove_nat_NoDup x l : NoDup l -> NoDup (remove_nat x l).
Proof. apply NoDup_filter. Qed.

Lemma pin_of_step st o p : pin_of (step st o) p = pin_of st p.
Proof.
  unfold step. destruct (negb (step_ok st o)); [reflexivity|].
  destruct o; try reflexivity; unfold set_end, free_end; destruct (active st e); reflexivity.
Qed.

Lemma Inv_step st o : Inv st -> Inv (step st o).
Proof.
  intros (Hex & Hcons & Hnd). unfold step.
  destruct (step_ok st o) eqn:Hok; cbn [negb]; [|repeat split; auto; apply Hcons].
  destruct o as [e p|e|s dx dy|s poly|s|e s c].
  6: { (* Retarget = Free followed by a change of the end table, which Inv does not mention *)
    assert (Hfree : Inv (free_end st e)).
    { unfold free_end. destruct (active st e) eqn:Hact; [|repeat split; auto; apply Hcons].
      rename n into p. unfold Inv, pin_of; cbn [users active st_pins]. fold (remove_nat e). repeat split.
      + intros q Hq. destruct (Nat.eqb q p); [|apply Hex; exact Hq].
        pose proof (remove_nat_length e (users st q)). specialize (Hex q Hq). fold (remove_nat e (users st q)). lia.
      + intro Hin. destruct (Nat.eqb p0 p) eqn:Ep.
        * apply remove_nat_In in Hin. destruct Hin as [Hin Hne].
          apply Nat.eqb_neq in Hne. rewrite Hne. apply Hcons. exact Hin.
        * destruct (Nat.eqb e0 e) eqn:Ee.
          -- apply Nat.eqb_eq in Ee. subst e0. apply Hcons in Hin. apply Nat.eqb_neq in Ep. congruence.
          -- apply Hcons. exact Hin.
      + intro Hact'. destruct (Nat.eqb e0 e) eqn:Ee; [discriminate|].
        apply Hcons in Hact'. destruct (Nat.eqb p0 p); [|exact Hact'].
        apply remove_nat_In. split; [exact Hact'|]. apply Nat.eqb_neq. exact Ee.
      + intro q. destruct (Nat.eqb q p); [apply remove_nat_NoDup|]; apply Hnd. }
    exact Hfree. }
  - (* Assign *)
    cbn [step_ok] in Hok. destruct (active st e) eqn:Hact; [discriminate|].
    unfold candidate in Hok. rewrite !andb_true_iff in Hok. destruct Hok as [_ Hfree].
    assert (Hnotin : forall q, ~ In e (users st q)).
    { intros q Hin. apply Hcons in Hin. congruence. }
    unfold Inv, pin_of; cbn [users active st_pins]. repeat split.
    + intros q Hq. destruct (Nat.eqb q p) eqn:E.
      * apply Nat.eqb_eq in E. subst q. fold (pin_of st p) in Hq. rewrite Hq in Hfree. cbn in Hfree.
        destruct (users st p); [cbn; lia|discriminate].
      * apply Hex. exact Hq.
    + intro Hin. destruct (Nat.eqb e0 e) eqn:Ee.
      * apply Nat.eqb_eq in Ee. subst e0. destruct (Nat.eqb p0 p) eqn:Ep.
        -- apply Nat.eqb_eq in Ep. congruence.
        -- exfalso. exact (Hnotin _ Hin).
      * destruct (Nat.eqb p0 p) eqn:Ep.
        -- destruct Hin as [Hin|Hin]; [apply Nat.eqb_neq in Ee; congruence|]. apply Hcons. exact Hin.
        -- apply Hcons. exact Hin.
    + intro Hact'. destruct (Nat.eqb e0 e) eqn:Ee.
      * apply Nat.eqb_eq in Ee. subst e0. injection Hact' as <-. rewrite Nat.eqb_refl. left. reflexivity.
      * apply Hcons in Hact'. destruct (Nat.eqb p0 p); [right|]; exact Hact'.
    + intro q. destruct (Nat.eqb q p); [|apply Hnd]. constructor; [apply Hnotin|apply Hnd].
  - (* Free *)
    destruct (active st e) eqn:Hact; [|repeat split; auto; apply Hcons].
    rename n into p. unfold Inv, pin_of; cbn [users active st_pins]. repeat split.
    + intros q Hq. destruct (Nat.eqb q p); [|apply Hex; exact Hq].
      pose proof (remove_nat_length e (users st q)). specialize (Hex q Hq). lia.
    + intro Hin. destruct (Nat.eqb p0 p) eqn:Ep.
      * apply remove_nat_In in Hin. destruct Hin as [Hin Hne].
        apply Nat.eqb_neq in Hne. rewrite Hne. apply Hcons. exact Hin.
      * destruct (Nat.eqb e0 e) eqn:Ee.
        -- apply Nat.eqb_eq in Ee. subst e0. apply Hcons in Hin. apply Nat.eqb_neq in Ep. congruence.
        -- apply Hcons. exact Hin.
    + intro Hact'. destruct (Nat.eqb e0 e) eqn:Ee; [discriminate|].
      apply Hcons in Hact'. destruct (Nat.eqb p0 p); [|exact Hact'].
      apply remove_nat_In. split; [exact Hact'|]. apply Nat.eqb_neq. exact Ee.
    + intro q. destruct (Nat.eqb q p); [apply remove_nat_NoDup|]; apply Hnd.
  - (* MoveShape *) repeat split; auto; apply Hcons.
  - (* Resize *) repeat split; auto; apply Hcons.
  - (* DeleteShape *)
    unfold Inv, pin_of; cbn [users active st_pins]. repeat split.
    + intros q Hq. fold (pin_of st q). destruct (Nat.eqb (p_shape (pin_of st q)) s); [cbn; lia|apply Hex; exact Hq].
    + intro Hin. fold (pin_of st p) in Hin. destruct (Nat.eqb (p_shape (pin_of st p)) s) eqn:E; [contradiction|].
      apply Hcons in Hin. rewrite Hin. fold (pin_of st p). rewrite E. reflexivity.
    + intro Hact'. destruct (active st e) eqn:Ha; [|discriminate].
      fold (pin_of st n) in Hact'. destruct (Nat.eqb (p_shape (pin_of st n)) s) eqn:E; [discriminate|].
      injection Hact' as <-. fold (pin_of st n). rewrite E. apply Hcons. exact Ha.
    + intro q. fold (pin_of st q). destruct (Nat.eqb (p_shape (pin_of st q)) s); [constructor|apply Hnd].
Qed.

Lemma Inv_run ops : forall st, Inv st -> Inv (run st ops).
Proof.
  induction ops as [|o r IH]; intros st H; cbn; [exact H|]. apply IH. apply Inv_step. exact H.
Qed.

Lemma st_pins_step st o : st_pins (step st o) = st_pins st.
Proof.
  unfold step. destruct (negb (step_ok st o)); [reflexivity|].
  destruct o; try reflexivity; unfold set_end, free_end; destruct (active st e); reflexivity.
Qed.
Lemma st_pins_run ops : forall st, st_pins (run st ops) = st_pins st.
Proof.
  induction ops as [|o r IH]; intro st; unfold run in *; cbn [fold_left]; [reflexivity|].
  rewrite IH. apply st_pins_step.
Qed.

(* for every op sequence the model never has two users on an exclusive pin *)
Theorem exclusive_invariant pins ends shapes ops :
  let st := fold_left step ops (init pins ends shapes) in
  forall p, p_excl (nth p pins pin0) = true -> (length (users st p) <= 1)%nat.
Proof.
  intros st p Hp.
  pose proof (Inv_run ops _ (Inv_init pins ends shapes)) as (Hex & _).
  apply Hex. unfold pin_of.
  fold (run (init pins ends shapes) ops). rewrite st_pins_run. exact Hp.
Qed.

(* non-vacuity: two ends compete for one exclusive pin; the second Assign is refused, the pin keeps one user;
   after a Free the other end gets it *)
Example exclusive_invariant_nonvacuous :
  let pins := [mkpin 0 1 (1#2) POS_TOP 0 DirUp true true] in
  let ends := [mkend 0 1; mkend 0 1] in
  let shapes := fun s => if Nat.eqb s 0 then Some [mkpt 10 0; mkpt 10 10; mkpt 0 10; mkpt 0 0] else None in
  let st1 := run (init pins ends shapes) [Assign 0 0; Assign 1 0] in
  let st2 := run st1 [Free 0; Assign 1 0] in
  users st1 0%nat = [0%nat] /\ step_ok (run (init pins ends shapes) [Assign 0 0]) (Assign 1 0) = false /\
  users st2 0%nat = [1%nat] /\ active st2 1%nat = Some 0%nat /\ active st2 0%nat = None.
Proof. vm_compute. repeat split. Qed.

(* ------------------------------------------------------------------ candidate set = free pins of the class *)
Theorem free_pin_chosen st e p :
  In p (candidates st e) <->
  (p < length (st_pins st))%nat /\ (e < length (st_ends st))%nat /\
  p_shape (pin_of st p) = e_shape (end_of st e) /\ st_shape st (p_shape (pin_of st p)) <> None /\
  p_class (pin_of st p) = e_class (end_of st e) /\
  (p_excl (pin_of st p) = false \/ users st p = []).
Proof.
  unfold candidates, candidate. rewrite filter_In, in_seq, !andb_true_iff, !Nat.ltb_lt, Nat.eqb_eq, Z.eqb_eq, orb_true_iff,
    negb_true_iff.
  unfold shape_alive, is_nil.
  destruct (st_shape st (p_shape (pin_of st p))); destruct (users st p); intuition (try congruence; try lia).
Qed.

(* a successful Assign picks a candidate, and afterwards an exclusive pin is no longer offered to anybody *)
Lemma assign_consumes_exclusive st e p f :
  step_ok st (Assign e p) = true -> p_excl (pin_of st p) = true -> ~ In p (candidates (step st (Assign e p)) f).
Proof.
  intros Hok Hex Hin. apply free_pin_chosen in Hin. destruct Hin as (_ & _ & _ & _ & _ & Hfree).
  rewrite pin_of_step in Hfree. destruct Hfree as [H|H]; [congruence|].
  unfold step in H. rewrite Hok in H. cbn in H. rewrite Nat.eqb_refl in H. discriminate.
Qed.

Example free_pin_chosen_nonvacuous :
  let pins := [mkpin 0 1 (1#2) POS_TOP 0 DirUp true true; mkpin 0 1 (1#2) POS_BOTTOM 0 DirDown true false;
               mkpin 0 2 POS_LEFT (1#2) 0 DirLeft true true] in
  let ends := [mkend 0 1; mkend 0 1] in
  let shapes := fun s => if Nat.eqb s 0 then Some [mkpt 10 0; mkpt 10 10; mkpt 0 10; mkpt 0 0] else None in
  candidates (init pins ends shapes) 1 = [0%nat; 1%nat] /\
  candidates (run (init pins ends shapes) [Assign 0 0]) 1 = [1%nat] /\
  candidates (run (init pins ends shapes) [Assign 0 1]) 1 = [0%nat; 1%nat].
Proof. vm_compute. repeat split. Qed.

(* ------------------------------------------------------------------ pins follow the shape in the state machine *)
Theorem pins_follow_move st s dx dy p q :
  step_ok st (MoveShape s dx dy) = true -> pin_pos st p = Some q -> (forall poly, st_shape st s = Some poly -> poly <> []) ->
  exists q', pin_pos (step st (MoveShape s dx dy)) p = Some q' /\
             (p_shape (pin_of st p) = s -> pt_eq q' (pt_add q (mkpt dx dy))) /\
             (p_shape (pin_of st p) <> s -> q' = q) /\
             users (step st (MoveShape s dx dy)) = users st /\ active (step st (MoveShape s dx dy)) = active st.
Proof.
  intros Hok Hq Hne. unfold pin_pos in *. rewrite pin_of_step.
  unfold step. rewrite Hok. cbn [negb st_shape users active].
  destruct (Nat.eqb (p_shape (pin_of st p)) s) eqn:E.
  - apply Nat.eqb_eq in E. rewrite E in *.
    destruct (st_shape st s) as [poly|] eqn:Hs; [|discriminate]. injection Hq as <-. cbn [option_map].
    eexists. split; [reflexivity|]. split; [|split; [congruence|split; reflexivity]].
    intros _. apply (proj1 pin_equivariant). apply Hne. reflexivity.
  - destruct (st_shape st (p_shape (pin_of st p))); [|discriminate]. injection Hq as <-.
    eexists. split; [reflexivity|]. apply Nat.eqb_neq in E. split; [congruence|]. split; [reflexivity|split; reflexivity].
Qed.

Theorem pins_follow_resize st s poly p :
  step_ok st (Resize s poly) = true -> p_shape (pin_of st p) = s ->
  pin_pos (step st (Resize s poly)) p = Some (pin_pos_poly poly (pin_of st p)) /\
  users (step st (Resize s poly)) = users st /\ active (step st (Resize s poly)) = active st.
Proof.
  intros Hok Hs. unfold pin_pos. rewrite pin_of_step. unfold step. rewrite Hok. cbn [negb st_shape users active].
  rewrite Hs, Nat.eqb_refl. repeat split.
Qed.

(* ------------------------------------------------------------------ re-attachment of a connector end (op Retarget)
   A user change of a connector end (setSourceEndpoint / setDestEndpoint / setEndpoints), as the transaction applies it: the
   end's old pin is freed, the end now names (shape s, class c).  That the queued USER change is the one the transaction
   applies, also when the old anchor shape is moved in the same transaction (the shape move queues a pin-move update for the
   same end), is the queue rule pin_move_no_overwrite of Avoid/ActionQueueConn.v. *)
Lemma set_nth_length {A} (x : A) l : forall n, length (set_nth n x l) = length l.
Proof. induction l as [|a r IH]; intros [|n]; cbn; auto. Qed.
Lemma nth_set_nth_eq {A} (x d : A) l : forall n, (n < length l)%nat -> nth n (set_nth n x l) d = x.
Proof. induction l as [|a r IH]; intros [|n] H; cbn in *; try lia; auto. apply IH. lia. Qed.
Lemma nth_set_nth_neq {A} (x d : A) l : forall n m, n <> m -> nth m (set_nth n x l) d = nth m l d.
Proof. induction l as [|a r IH]; intros [|n] [|m] H; cbn; auto; try congruence. Qed.
Lemma remove_nat_notin x l : ~ In x l -> remove_nat x l = l.
Proof.
  unfold remove_nat. induction l as [|a r IH]; intro H; cbn; [reflexivity|].
  destruct (Nat.eqb x a) eqn:E; cbn.
  - apply Nat.eqb_eq in E. subst a. exfalso. apply H. left. reflexivity.
  - f_equal. apply IH. intro Hin. apply H. right. exact Hin.
Qed.

Theorem retarget_spec st e s c :
  Inv st -> step_ok st (Retarget e s c) = true ->
  let st' := step st (Retarget e s c) in
  end_of st' e = mkend s c /\ (forall f, f <> e -> end_of st' f = end_of st f) /\
  length (st_ends st') = length (st_ends st) /\
  active st' e = None /\ (forall f, f <> e -> active st' f = active st f) /\
  (forall p, users st' p = remove_nat e (users st p)) /\
  st_shape st' = st_shape st /\ st_pins st' = st_pins st.
Proof.
  intros (Hex & Hcons & Hnd) Hok st'. unfold st', step. rewrite Hok. cbn [negb]. cbn [step_ok] in Hok. apply Nat.ltb_lt in Hok.
  unfold set_end, free_end, end_of.
  destruct (active st e) as [p0|] eqn:Ha; cbn [st_ends active users st_shape st_pins];
    (split; [apply nth_set_nth_eq; exact Hok|]); (split; [intros f Hf; apply nth_set_nth_neq; congruence|]);
    (split; [apply set_nth_length|]).
  - rewrite Nat.eqb_refl. split; [reflexivity|]. split.
    + intros f Hf. apply Nat.eqb_neq in Hf. rewrite Hf. reflexivity.
    + split; [|split; reflexivity]. intro p. destruct (Nat.eqb p p0) eqn:E; [reflexivity|].
      symmetry. apply remove_nat_notin. intro Hin. apply Hcons in Hin. apply Nat.eqb_neq in E. congruence.
  - split; [exact Ha|]. split; [reflexivity|]. split; [|split; reflexivity].
    intro p. symmetry. apply remove_nat_notin. intro Hin. apply Hcons in Hin. congruence.
Qed.

(* after the re-attachment the candidate pins of the end are exactly the free pins of class c on the NEW shape s (the end's own
   former use of a pin does not count); nothing of the old anchor is offered any more unless it is the same shape and class *)
Theorem reattached_end_candidates st e s c p :
  Inv st -> step_ok st (Retarget e s c) = true ->
  (In p (candidates (step st (Retarget e s c)) e) <->
   (p < length (st_pins st))%nat /\ p_shape (pin_of st p) = s /\ st_shape st s <> None /\ p_class (pin_of st p) = c /\
   (p_excl (pin_of st p) = false \/ remove_nat e (users st p) = [])).
Proof.
  intros HI Hok. destruct (retarget_spec st e s c HI Hok) as (He & _ & Hlen & _ & _ & Hu & Hs & Hp).
  rewrite free_pin_chosen, pin_of_step, He, Hlen, Hs, Hp, Hu. cbn [e_shape e_class].
  cbn [step_ok] in Hok. apply Nat.ltb_lt in Hok.
  split.
  - intros (H1 & _ & H3 & H4 & H5 & H6). rewrite H3 in H4. auto.
  - intros (H1 & H3 & H4 & H5 & H6). rewrite H3. auto 6.
Qed.

(* re-attachment to something that is not a live shape (free point, junction): no pin is offered, the end uses no pin *)
Theorem retarget_detached_no_candidates st e s c :
  Inv st -> step_ok st (Retarget e s c) = true -> st_shape st s = None ->
  candidates (step st (Retarget e s c)) e = [] /\ active (step st (Retarget e s c)) e = None.
Proof.
  intros HI Hok Hs. split; [|apply (retarget_spec st e s c HI Hok)].
  destruct (candidates (step st (Retarget e s c)) e) as [|p r] eqn:E; [reflexivity|].
  assert (Hin : In p (candidates (step st (Retarget e s c)) e)) by (rewrite E; left; reflexivity).
  apply (reattached_end_candidates st e s c p HI Hok) in Hin. destruct Hin as (_ & _ & H & _). congruence.
Qed.

(* non-vacuity (the seeded scene in miniature): end 0 uses the pin of shape 0 (class 1); it is re-attached to class 1 of shape 1
   while shape 0 moves; afterwards only shape 1's pin is offered, the old pin has no user, and the new pin follows shape 1 *)
Example retarget_nonvacuous :
  let pins := [mkpin 0 1 (1#2) POS_TOP 0 DirUp true true; mkpin 1 1 (1#2) POS_BOTTOM 0 DirDown true true] in
  let ends := [mkend 0 1] in
  let sq := fun x y => [mkpt (x + 10) y; mkpt (x + 10) (y + 10); mkpt x (y + 10); mkpt x y] in
  let shapes := fun t => if Nat.eqb t 0 then Some (sq 0 0) else if Nat.eqb t 1 then Some (sq 0 100) else None in
  let st1 := run (init pins ends shapes) [Assign 0 0] in
  let st2 := run st1 [Retarget 0 1 1; MoveShape 0 40 20] in
  let st3 := run st2 [Assign 0 1; MoveShape 1 (-(50)) 10] in
  run_ok (init pins ends shapes) [Assign 0 0; Retarget 0 1 1; MoveShape 0 40 20; Assign 0 1; MoveShape 1 (-(50)) 10] = true /\
  users st1 0%nat = [0%nat] /\ candidates st2 0 = [1%nat] /\ users st2 0%nat = [] /\ active st2 0%nat = None /\
  step_ok st2 (Assign 0 0) = false /\
  active st3 0%nat = Some 1%nat /\ option_map (fun q => (Qeqb (px q) (-(45)), Qeqb (py q) 120)) (pin_pos st3 1) = Some (true, true).
Proof. vm_compute. repeat split. Qed.

(* ------------------------------------------------------------------ route checkers: what `true` means *)
(* the segment a -> b runs in compass direction d (screen coordinates: up = decreasing y) *)
Definition runs (d : Z) (a b : pt) : Prop :=
  (d = DirUp /\ px a == px b /\ py b < py a) \/ (d = DirDown /\ px a == px b /\ py a < py b) \/
  (d = DirLeft /\ py a == py b /\ px b < px a) \/ (d = DirRight /\ py a == py b /\ px a < px b).

Ltac strictify :=
  repeat match goal with
  | H : ~ ?x == ?y, H2 : ?y <= ?x |- _ =>
      assert (y < x) by (destruct (Qlt_le_dec y x); [assumption|exfalso; apply H; lra]); clear H
  end.
Ltac solve_runs :=
  first [ congruence | contradiction | lra
        | left; split; [reflexivity|split; lra]
        | right; left; split; [reflexivity|split; lra]
        | right; right; left; split; [reflexivity|split; lra]
        | right; right; right; split; [reflexivity|split; lra] ].

Lemma seg_dir_runs a b d : d <> DirNone -> (seg_dir a b = d <-> runs d a b).
Proof.
  intro Hd. unfold seg_dir, runs, DirUp, DirDown, DirLeft, DirRight, DirNone in *.
  destruct (Qeqb (py a) (py b)) eqn:Ey; [|destruct (Qeqb (px a) (px b)) eqn:Ex];
    [destruct (Qltb (px a) (px b)) eqn:E1; [|destruct (Qltb (px b) (px a)) eqn:E2]
    |destruct (Qltb (py a) (py b)) eqn:E1 | ]; qb2p; strictify.
  all: split; [intro HH; subst d
              |intros [(H1 & H2 & H3)|[(H1 & H2 & H3)|[(H1 & H2 & H3)|(H1 & H2 & H3)]]]; subst d].
  all: try solve_runs.
Qed.

(* the direction checker: the first segment runs in a compass direction whose flag is set in the mask *)
Theorem leaves_in_dirs_spec a b dirs :
  leaves_in_dirs a b dirs = true <->
  exists d, (d = DirUp \/ d = DirDown \/ d = DirLeft \/ d = DirRight) /\ Z.land d dirs <> 0%Z /\ runs d a b.
Proof.
  unfold leaves_in_dirs. rewrite negb_true_iff, Z.eqb_neq. split.
  - intro Hnz.
    assert (Hd : seg_dir a b = DirUp \/ seg_dir a b = DirDown \/ seg_dir a b = DirLeft \/ seg_dir a b = DirRight).
    { unfold seg_dir in *. destruct (Qeqb (py a) (py b)).
      - destruct (Qltb (px a) (px b)); [tauto|]. destruct (Qltb (px b) (px a)); [tauto|].
        exfalso. apply Hnz. reflexivity.
      - destruct (Qeqb (px a) (px b)); [destruct (Qltb (py a) (py b)); tauto|]. exfalso. apply Hnz. reflexivity. }
    exists (seg_dir a b). split; [exact Hd|]. split.
    + exact Hnz.
    + apply seg_dir_runs; [|reflexivity]. destruct Hd as [-> | [-> | [-> | -> ]]]; discriminate.
  - intros (d & Hd & Hland & Hruns).
    assert (Hne : d <> DirNone) by (destruct Hd as [-> | [-> | [-> | -> ]]]; discriminate).
    apply (seg_dir_runs a b d Hne) in Hruns. rewrite Hruns. exact Hland.
Qed.

Theorem end_honoured_spec orth q q1 cands :
  end_honoured orth q q1 cands = true <->
  exists c, In c cands /\ pt_eq q (fst c) /\ (orth = true -> leaves_in_dirs q q1 (snd c) = true).
Proof.
  unfold end_honoured. rewrite existsb_exists. split; intros (c & Hin & H); exists c; split; auto.
  - apply andb_true_iff in H. destruct H as [H1 H2]. apply pt_eqb_spec in H1. split; [assumption|].
    intro Ho. subst orth. exact H2.
  - destruct H as [H1 H2]. apply andb_true_iff. split; [apply pt_eqb_spec; assumption|].
    destruct orth; [apply H2; reflexivity|reflexivity].
Qed.

(* checkpoints: declarative "met in order along the polyline" *)
Inductive InOrder : pt -> list pt -> list pt -> Prop :=
| io_done a rest : InOrder a rest []
| io_hit a b rest c cs : on_seg a b c = true -> InOrder c (b :: rest) cs -> InOrder a (b :: rest) (c :: cs)
| io_last a cps : (forall c, In c cps -> pt_eq a c) -> InOrder a [] cps
| io_skip a b rest cps : InOrder b rest cps -> InOrder a (b :: rest) cps.

Lemma take_on_sound b rest : forall cps a, InOrder b rest (take_on a b cps) -> InOrder a (b :: rest) cps.
Proof.
  induction cps as [|c cs IH]; intros a H; cbn [take_on] in *.
  - apply io_done.
  - destruct (on_seg a b c) eqn:E.
    + apply io_hit; [exact E|]. apply IH. exact H.
    + apply io_skip. exact H.
Qed.

Theorem visits_sound : forall rest start cps, visits start rest cps = true -> InOrder start rest cps.
Proof.
  induction rest as [|b rest IH]; intros start cps H; cbn [visits] in H.
  - apply io_last. intros c Hc. rewrite forallb_forall in H. apply pt_eqb_spec. apply H. exact Hc.
  - apply take_on_sound. apply IH. exact H.
Qed.

Example visits_nonvacuous :
  visits_in_order [mkpt 0 0; mkpt 10 0; mkpt 10 10] [mkpt 4 0; mkpt 10 0; mkpt 10 5] = true /\
  visits_in_order [mkpt 0 0; mkpt 10 0; mkpt 10 10] [mkpt 10 5; mkpt 4 0] = false /\
  visits_in_order [mkpt 0 0; mkpt 10 0; mkpt 10 10] [mkpt 4 1] = false.
Proof. vm_compute. repeat split. Qed.

Theorem exclusive_ok_spec excl nusers :
  exclusive_ok excl nusers = true <->
  forall x n, In (x, n) (combine excl nusers) -> x = true -> (n <= 1)%nat.
Proof.
  unfold exclusive_ok. rewrite forallb_forall. split.
  - intros H x n Hin Hx. specialize (H _ Hin). cbn [fst snd] in H. subst x. cbn in H. apply Nat.leb_le. exact H.
  - intros H [x n] Hin. cbn [fst snd]. destruct x; [|reflexivity]. cbn. apply Nat.leb_le. apply (H true n Hin). reflexivity.
Qed.
